/-
  Proofs/SemWaitEff2.lean — `stepThr … = .ok s' → Eff …`: the statements of sem_wait.c and the entry.
-/
import NsyncVerif.Proofs.SemWaitEff

namespace SemWait

theorem stepMain_eff {cfg : Config} {s s' : State} {t : Tid} {e : Ev}
    (hs : stepMain cfg s t e = .ok s') : Eff cfg s t s' := by
  unfold stepMain at hs
  dsimp only at hs
  split at hs
  · -- init
    rename_i hpc
    split_ok hs; cases hs; rename_i h; exact .m_init _ hpc h.2
  · rename_i hpc
    split_ok hs; cases hs; rename_i h; exact .m_lk1 hpc h.2
  · -- ld49
    rename_i hpc
    split at hs
    · split at hs
      · rename_i hc
        split at hs
        · rename_i r hr; cases hs; exact .m_ld49_enq _ hpc hc hr
        · cases hs
      · rename_i hc; cases hs; exact .m_ld49_no hpc (by simpa using hc)
    · cases hs
  · rename_i hpc
    split at hs
    · rename_i h; cases hs; exact .m_ulk1 _ hpc h.2
    · cases hs
  · -- pdEnter
    rename_i hpc
    split at hs
    · split at hs
      · rename_i s1 hb
        cases hs
        rcases bindSem_cases hb with ⟨h1, rfl⟩ | ⟨h1, h2, rfl⟩
        · exact .m_pdEnterBound _ hpc h1
        · exact .m_pdEnterBind _ hpc h1 h2
      · cases hs
    · cases hs
  · -- pdWait
    rename_i hpc
    split at hs
    · rename_i hj
      subst hj
      split at hs
      · split at hs
        · rename_i hx
          split at hs
          · rename_i hn; cases hs; exact .m_tmoNear _ hpc hx hn
          · rename_i hn; cases hs; exact .m_tmoFar _ hpc hx (by simpa using hn)
        · cases hs
      · split at hs
        · cases hs
        · rename_i c hc; cases hs; exact .m_p0 _ c hpc hc
    · cases hs
  · rename_i hpc
    split_ok hs; cases hs; rename_i h; exact .m_lk2 hpc h.2
  · -- ld68
    rename_i hpc
    split at hs
    · split at hs
      · rename_i hc
        split at hs
        · rename_i r hr
          split at hs
          · rename_i hm; cases hs; exact .m_ld68_rm _ hpc hc hr hm
          · cases hs
        · cases hs
      · rename_i hc; cases hs; exact .m_ld68_no hpc (by simpa using hc)
    · cases hs
  · rename_i hpc
    split_ok hs; cases hs; rename_i h; exact .m_ulk2 hpc h.2
  · -- ret
    rename_i hpc
    split at hs
    · cases hs; exact .m_ret hpc
    · cases hs
  · exact dflt_eff hs

theorem stepIdle_eff {cfg : Config} {s s' : State} {t : Tid} {e : Ev} (hpc : s.pc t = .idle)
    (hs : stepIdle cfg s t e = .ok s') : Eff cfg s t s' := by
  unfold stepIdle at hs
  split at hs
  · split at hs
    · rename_i h; cases hs; exact .call _ _ hpc h.1 h.2.1 h.2.2
    · cases hs
  · exact proto_eff (by rw [hpc]; rfl) hs

theorem stepThr_eff {cfg : Config} {s s' : State} {t : Tid} {e : Ev}
    (hs : stepThr cfg s t e = .ok s') : Eff cfg s t s' := by
  unfold stepThr at hs
  split at hs
  · rename_i h; exact stepIdle_eff h hs
  · rename_i u st h; exact stepND_eff h hs
  · rename_i u st h; exact stepNF_eff h hs
  · exact stepMain_eff hs

/-- a step of the acceptor is an effect of some thread, or a tick -/
theorem step_cases {cfg : Config} {s s' : State} {e : Event} (hs : step cfg s e = .ok s') :
    (∃ t, Eff cfg s t s') ∨ (∃ ns, s.now ≤ ns ∧ s' = { s with now := ns }) := by
  cases e with
  | thr t e => exact .inl ⟨t, stepThr_eff hs⟩
  | tick ns =>
    simp only [step] at hs
    split at hs
    · rename_i h; cases hs; exact .inr ⟨ns, h, rfl⟩
    · cases hs

end SemWait
