/-
  Proofs/SemWaitInvA2.lean — preservation of the frame / record / semaphore invariant `InvA` by the effects of a
  thread step (part 2).
-/
import NsyncVerif.Proofs.SemWaitTac

namespace SemWait
set_option maxHeartbeats 400000

theorem a_i4 {cfg : Config} {s s' : State} {t : Tid} (hi : InvA s) (he : Eff cfg s t s') :
    ∀ r, (s'.rcd r).live = true → (s'.fr (s'.rcd r).owner).nw = some r := by
  have h1 := hi.i1
  have h3 := hi.i3
  have h4 := hi.i4
  eff_cases he <;> (try cases ‹Use›) <;> grind [inCall, preNw, hasNw, ndNext, nfNext]

theorem a_i5 {cfg : Config} {s s' : State} {t : Tid} (hi : InvA s) (he : Eff cfg s t s') :
    ∀ t, inCall (s'.pc t) = true → (s'.note (s'.fr t).note).known = true ∧ (s'.note (s'.fr t).note).fresh = false := by
  have h5 := hi.i5
  eff_cases he <;> (try cases ‹Use›) <;> grind [inCall, preNw, hasNw, ndNext, nfNext, protoMode]

theorem a_h1 {cfg : Config} {s s' : State} {t : Tid} (hi : InvA s) (he : Eff cfg s t s') :
    ∀ t, holdsPc (s'.pc t) = true → (s'.note (s'.fr t).note).lock = some t := by
  have h5 := hi.i5
  have hh := hi.h1
  eff_cases he <;> (try cases ‹Use›) <;> grind [inCall, holdsPc, ndNext, nfNext, proto_not_holds]

end SemWait
