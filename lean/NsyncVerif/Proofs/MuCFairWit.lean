import NsyncVerif.Proofs.MuCFairTrace
/-
  MuC, fair termination: executable criteria for the hypotheses of `C06_fair_termination_full` on an execution given
  by a finite accepted trace (followed by idling, or by a loop), for the witnesses of Props/C06Fair.lean.
-/
namespace NsyncVerif.MuC

/-- `f` holds in every state of the run of `evs` from `s` (one pass; false if the run is rejected). -/
def allStates (cfg : Cfg) (f : State → Bool) : State → List Event → Bool
  | s, [] => f s
  | s, e :: es => f s && (match step cfg s e with | .ok s1 => allStates cfg f s1 es | .error _ => false)

theorem allStates_take {cfg : Cfg} {f : State → Bool} : ∀ (evs : List Event) (s : State), allStates cfg f s evs = true →
    ∀ i s', run cfg s (evs.take i) = .ok s' → f s' = true := by
  intro evs
  induction evs with
  | nil =>
    intro s h i s' hr
    simp [run] at hr; subst hr; simpa [allStates] using h
  | cons e es ih =>
    intro s h i s' hr
    simp only [allStates, Bool.and_eq_true] at h
    cases i with
    | zero => simp [run] at hr; subst hr; exact h.1
    | succ i =>
      simp only [List.take_succ_cons, run] at hr
      cases hs : step cfg s e with
      | error m => rw [hs] at hr; cases hr
      | ok s1 =>
        rw [hs] at hr
        have h2 := h.2; rw [hs] at h2
        exact ih s1 h2 i s' hr

theorem allStates_stateAt {cfg : Cfg} {f : State → Bool} {evs : List Event} {sf : State} (h : run cfg init evs = .ok sf)
    (ha : allStates cfg f init evs = true) (i : Nat) : f (stateAt cfg evs i) = true :=
  allStates_take evs init ha i _ (stateAt_ok h i)

/-- Every thread that occurs in the trace has a number below `T`. -/
def tidsBelow (T : Nat) (evs : List Event) : Bool :=
  evs.all (fun e => match e.tid with | some t => decide (t < T) | none => true)

theorem untouched_stateAt {cfg : Cfg} {evs : List Event} {sf : State} (h : run cfg init evs = .ok sf) {T : Nat}
    (hT : tidsBelow T evs = true) {t : Tid} (ht : ¬ t < T) (i : Nat) :
    (stateAt cfg evs i).pc t = .idle ∧ (stateAt cfg evs i).held t = none := by
  have hne : ∀ e ∈ evs.take i, e.tid ≠ some t := by
    intro e he htid
    simp only [tidsBelow, List.all_eq_true] at hT
    have := hT e (List.mem_of_mem_take he)
    rw [htid] at this
    exact ht (by simpa using this)
  obtain ⟨a, b⟩ := run_untouched (evs.take i) init _ hne (stateAt_ok h i)
  exact ⟨by rw [a]; rfl, by rw [b]; rfl⟩

/-- A per-thread check that holds along the whole trace holds for every thread in every state. -/
theorem trace_all {cfg : Cfg} {evs : List Event} {sf : State} (h : run cfg init evs = .ok sf) {T : Nat}
    (hT : tidsBelow T evs = true) (g : State → Tid → Bool) (hidle : ∀ s t, s.pc t = .idle → g s t = true)
    (hall : allStates cfg (fun s => (List.range T).all (g s)) init evs = true) (i : Nat) (t : Tid) :
    g (stateAt cfg evs i) t = true := by
  by_cases ht : t < T
  · have := allStates_stateAt h hall i
    simp only [List.all_eq_true, List.mem_range] at this
    exact this t ht
  · exact hidle _ _ (untouched_stateAt h hT ht i).1

def noteB (s : State) (t : Tid) : Bool :=
  match s.pc t with
  | .mwPdRet c _ => !c.saw
  | _ => true

def clockB (s : State) (t : Tid) : Bool :=
  match s.pc t with
  | .mwPdRet _ (some d) => decide (d ≤ s.now)
  | _ => true

/-- The final state: every thread below `T` is idle or asleep, and holds nothing. -/
def finalB (T : Nat) (s : State) : Bool :=
  (List.range T).all (fun t => (decide (s.pc t = .idle) || asleepSemB s t) && decide (s.held t = none))

theorem final_of_finalB {cfg : Cfg} {evs : List Event} {sf : State} (h : run cfg init evs = .ok sf) {T : Nat}
    (hT : tidsBelow T evs = true) (hf : finalB T sf = true) (t : Tid) :
    (sf.pc t = .idle ∨ AsleepOnSem sf t) ∧ sf.held t = none := by
  by_cases ht : t < T
  · simp only [finalB, List.all_eq_true, List.mem_range, Bool.and_eq_true, Bool.or_eq_true, decide_eq_true_eq] at hf
    obtain ⟨a, b⟩ := hf t ht
    exact ⟨a.imp id (fun e => (asleepSemB_iff _ _).1 e), b⟩
  · have := untouched_stateAt h hT ht evs.length
    rw [stateAt_ge h (Nat.le_refl _)] at this
    exact ⟨Or.inl this.1, this.2⟩

/-- The five hypotheses that only concern the tail, for a trace followed by idling. -/
theorem trace_fair5 {cfg : Cfg} {evs : List Event} {sf : State} (h : run cfg init evs = .ok sf) {T : Nat}
    (hT : tidsBelow T evs = true) (hf : finalB T sf = true) :
    WeakFair (traceExec cfg evs sf h) ∧ HoldersRelease (traceExec cfg evs sf h) ∧ FiniteArrivals (traceExec cfg evs sf h) ∧
      FiniteRcFails (traceExec cfg evs sf h) ∧ FiniteEnvPosts (traceExec cfg evs sf h) :=
  fairHyps_of_idle_tail _ (reachable_init cfg) evs.length
    (fun j hj => (traceExec_tail h hj).2)
    (fun j hj t => by rw [(traceExec_tail h hj).1]; exact (final_of_finalB h hT hf t).1)
    (fun j hj t => by rw [(traceExec_tail h hj).1]; exact (final_of_finalB h hT hf t).2)

theorem noteB_idle (s : State) (t : Tid) (h : s.pc t = .idle) : noteB s t = true := by simp [noteB, h]
theorem clockB_idle (s : State) (t : Tid) (h : s.pc t = .idle) : clockB s t = true := by simp [clockB, h]

theorem trace_note {cfg : Cfg} {evs : List Event} {sf : State} (h : run cfg init evs = .ok sf) {T : Nat}
    (hT : tidsBelow T evs = true) (hall : allStates cfg (fun s => (List.range T).all (noteB s)) init evs = true)
    (hns : evs.all (fun e => !e.isNoteSeen) = true) :
    NoteHonoured (traceExec cfg evs sf h) := by
  refine ⟨?_, ?_⟩
  · intro j t c dl hp
    have := trace_all h hT noteB noteB_idle hall j t
    have hp' : (stateAt cfg evs j).pc t = .mwPdRet c dl := hp
    simpa [noteB, hp'] using this
  · intro j t c _ _ hσ
    have hσ' : evs[j]? = some (.noteSeen t) := hσ
    have := (List.all_eq_true.mp hns) _ (List.mem_of_getElem? hσ')
    simp [Event.isNoteSeen] at this

theorem trace_contract {cfg : Cfg} {evs : List Event} {sf : State} (h : run cfg init evs = .ok sf)
    (hall : allStates cfg (fun s => !s.nwViol) init evs = true) : ContractKept (traceExec cfg evs sf h) := by
  intro j
  have := allStates_stateAt h hall j
  show (stateAt cfg evs j).nwViol = false
  simpa using this

theorem trace_clock {cfg : Cfg} {evs : List Event} {sf : State} (h : run cfg init evs = .ok sf) {T : Nat}
    (hT : tidsBelow T evs = true) (hall : allStates cfg (fun s => (List.range T).all (clockB s)) init evs = true) :
    ClockAdvances (traceExec cfg evs sf h) := by
  intro t i c d hp
  have := trace_all h hT clockB clockB_idle hall i t
  have hp' : (stateAt cfg evs i).pc t = .mwPdRet c (some d) := hp
  refine ⟨i, Nat.le_refl _, Or.inl ?_⟩
  show d ≤ (stateAt cfg evs i).now
  simpa [clockB, hp'] using this

/-- All hypotheses for a trace followed by idling, from four executable checks. -/
theorem trace_fairHyps {cfg : Cfg} {evs : List Event} {sf : State} (h : run cfg init evs = .ok sf) {T : Nat}
    (hT : tidsBelow T evs = true) (hf : finalB T sf = true)
    (hn : allStates cfg (fun s => (List.range T).all (noteB s)) init evs = true)
    (hns : evs.all (fun e => !e.isNoteSeen) = true)
    (hc : allStates cfg (fun s => !s.nwViol) init evs = true)
    (hk : allStates cfg (fun s => (List.range T).all (clockB s)) init evs = true) :
    FairHyps (traceExec cfg evs sf h) := by
  obtain ⟨a, b, c, d, e⟩ := trace_fair5 h hT hf
  exact ⟨reachable_init cfg, a, b, c, d, e, trace_note h hT hn hns, trace_contract h hc, trace_clock h hT hk⟩

/-- The final state: every thread below `T` is idle or asleep (it may hold the mutex). -/
def finalPcB (T : Nat) (s : State) : Bool :=
  (List.range T).all (fun t => decide (s.pc t = .idle) || asleepSemB s t)

/-- The hypotheses that only concern the tail, except `HoldersRelease`. -/
theorem trace_fair4 {cfg : Cfg} {evs : List Event} {sf : State} (h : run cfg init evs = .ok sf) {T : Nat}
    (hT : tidsBelow T evs = true) (hf : finalPcB T sf = true) :
    WeakFair (traceExec cfg evs sf h) ∧ FiniteArrivals (traceExec cfg evs sf h) ∧
      FiniteRcFails (traceExec cfg evs sf h) ∧ FiniteEnvPosts (traceExec cfg evs sf h) := by
  refine ⟨weakFair_of_final _ evs.length (fun j hj t => ?_), finite_of_tail _ evs.length (fun j hj => (traceExec_tail h hj).2)⟩
  rw [(traceExec_tail h hj).1]
  by_cases ht : t < T
  · simp only [finalPcB, List.all_eq_true, List.mem_range, Bool.or_eq_true, decide_eq_true_eq] at hf
    exact (hf t ht).imp id (fun e => (asleepSemB_iff _ _).1 e)
  · have := untouched_stateAt h hT ht evs.length
    rw [stateAt_ge h (Nat.le_refl _)] at this
    exact Or.inl this.1

/-- A check that holds along the trace from position `n` on. -/
theorem allStates_from {cfg : Cfg} {f : State → Bool} {evs : List Event} {sf : State} (h : run cfg init evs = .ok sf) (n : Nat)
    (ha : allStates cfg f (stateAt cfg evs n) (evs.drop n) = true) (j : Nat) (hj : n ≤ j) : f (stateAt cfg evs j) = true := by
  obtain ⟨i, rfl⟩ : ∃ i, j = n + i := ⟨j - n, by omega⟩
  have h1 := stateAt_ok h (n + i)
  rw [List.take_add] at h1
  obtain ⟨s1, a, b⟩ := run_append_ok _ _ _ _ h1
  have : s1 = stateAt cfg evs n := by
    have := stateAt_ok h n; rw [a] at this; exact Except.ok.inj this
  subst this
  exact allStates_take _ _ ha i _ b

end NsyncVerif.MuC
