/-
  Layer `Note`: towards "each `notified` flag is stored at most once".  Part B (invariant `InvE`):
  every note in a children list, every child a loop of `note_notify_child` / `nsync_note_free` is
  working on, and every note of an inner activation of `note_notify_child` is past its early
  creation phase (`NE`).  No appeal to the locks: `NE` is stable, and a note enters a children list
  only when its creator links it (end of the early phase) or by adoption of a note that was a child
  already.
-/
import NsyncVerif.Proofs.NoteVCOnceA
import NsyncVerif.Proofs.NoteInvJ0

set_option linter.unusedSimpArgs false

namespace Note

def EClaim (s : State) : PC → Prop
  | .chd pos stk _ => (∀ c, pos.cur = some c → NE s c) ∧ (∀ f ∈ stk.dropLast, NE s f.note)
  | .fr pos _ _ c _ => pos.hasChild = true → NE s c
  | _ => True

structure InvE (s : State) : Prop where
  children : ∀ q c, c ∈ (s.notes q).children → NE s c
  claim : ∀ t, EClaim s (s.pc t)

theorem InvE.init : InvE Note.init := by
  refine ⟨?_, ?_⟩ <;> simp [Note.init, NoteRec.blank, EClaim]

theorem EClaim.stable {s s' : State} {e : Event} (hs : step s e = .ok s') {pc : PC}
    (h : EClaim s pc) : EClaim s' pc := by
  cases pc with
  | chd pos stk top =>
    exact ⟨fun c hc => NE.step hs (h.1 c hc), fun f hf => NE.step hs (h.2 f hf)⟩
  | fr pos n par c nx => exact fun hp => NE.step hs (h hp)
  | _ => trivial

theorem EClaim.childReturnPc {s : State} {pos : CPos} {f : Frame} {rest : List Frame} {top : Top}
    (h : EClaim s (.chd pos (f :: rest) top)) : EClaim s (Note.childReturnPc f rest top) := by
  unfold Note.childReturnPc
  cases rest with
  | cons g gs =>
    refine ⟨?_, ?_⟩
    · intro c hc
      simp only [CPos.cur, Option.some.injEq] at hc
      subst hc
      exact h.2 f (by simp [List.dropLast])
    · intro x hx
      exact h.2 x (by simp only [List.dropLast_cons_cons]; exact List.mem_cons_of_mem _ hx)
  | nil => cases top.par <;> trivial

theorem dropLast_head_note {f f' : Frame} {rest : List Frame} (hn : f'.note = f.note) {x : Frame}
    (hx : x ∈ (f' :: rest).dropLast) : ∃ y ∈ (f :: rest).dropLast, y.note = x.note := by
  cases rest with
  | nil => simp [List.dropLast] at hx
  | cons g gs =>
    simp only [List.dropLast_cons_cons, List.mem_cons] at hx ⊢
    rcases hx with hx | hx
    · subst hx; exact ⟨f, Or.inl rfl, hn.symm⟩
    · exact ⟨x, Or.inr hx, rfl⟩

theorem EClaim.childLoopStartPc {s : State} {pos : CPos} {f : Frame} {rest : List Frame} {top : Top}
    {cs : List NoteId} (hcs : ∀ c ∈ cs, NE s c) (h : EClaim s (.chd pos (f :: rest) top)) :
    EClaim s (Note.childLoopStartPc cs f rest top) := by
  cases cs with
  | nil => exact ⟨fun c hc => by simp at hc, h.2⟩
  | cons c cs' =>
    refine ⟨?_, ?_⟩
    · intro c' hc'
      simp only [CPos.cur, Option.some.injEq] at hc'
      subst hc'
      exact hcs _ List.mem_cons_self
    · intro x hx
      obtain ⟨y, hy, hyn⟩ := dropLast_head_note (f := f) (by rfl) hx
      rw [← hyn]; exact h.2 y hy

theorem EClaim.childWakeNextPc {s s1 : State} {pos : CPos} {f : Frame} {rest : List Frame}
    {top : Top} (hcs : ∀ c ∈ (s1.notes f.note).children, NE s c)
    (h : EClaim s (.chd pos (f :: rest) top)) :
    EClaim s (Note.childWakeNextPc s1 f rest top) := by
  unfold Note.childWakeNextPc
  split
  · exact ⟨fun c hc => by simp at hc, h.2⟩
  · exact EClaim.childLoopStartPc hcs h

theorem EClaim.freeLoopStartPc {s : State} {cs : List NoteId} (hcs : ∀ c ∈ cs, NE s c)
    (n : NoteId) (par : Option NoteId) : EClaim s (Note.freeLoopStartPc cs n par) := by
  cases cs with
  | nil => intro h; simp at h
  | cons c cs' => intro _; exact hcs _ List.mem_cons_self

theorem EClaim.afterDeadlinePc (s : State) (n : NoteId) (nt : Dl) (dk : DK) :
    EClaim s (Note.afterDeadlinePc n nt dk) := by
  cases dk with
  | newSelf par dl =>
    simp only [Note.afterDeadlinePc]
    split
    · cases par <;> trivial
    · trivial
  | _ => simp only [Note.afterDeadlinePc] <;> (try split) <;> trivial

theorem EClaim.afterNotifyPc (s : State) (n : NoteId) (nk : NK) :
    EClaim s (Note.afterNotifyPc n nk) := by
  cases nk with
  | ofApi => trivial
  | ofDeadline dk => exact EClaim.afterDeadlinePc s n (some 0) dk

/-- The claim of the acting thread's new program counter, stated in the OLD state. -/
theorem EClaim.actor {s s' : State} {e : Event} (hr : Reachable s) (hE : InvE s)
    (hs : step s e = .ok s') (a : Tid) (ha : e.actor = some a) : EClaim s (s'.pc a) := by
  have hc := hE.claim a
  have hL := hr.inv6.2.2.2.2.1.claim a
  cases e
  all_goals step_cases hs
  all_goals simp only [Event.actor, Option.some.injEq, reduceCtorEq] at ha
  all_goals (try subst ha)
  all_goals (try (rw [‹s.pc _ = _›] at hc hL))
  all_goals (try (simp only [setPc_pc, upd_same, afterDeadline_pc, afterNotify_pc, childReturn_pc,
    childWakeNext_pc, childScanStart_pc, freeLoopStart_pc, enterChild_pc, leave_pc, addUser_pc, markCalled_pc,
    markFreeing_pc, setAfter_pc, pushObs_pc, publish_pc, delUser_pc, markBorn_pc, allocNote_pc]))
  all_goals (try trivial)
  all_goals (try (exact hc))
  all_goals (try (exact EClaim.childReturnPc hc))
  all_goals (try (simp [EClaim]; done))
  all_goals (try (exact EClaim.afterDeadlinePc _ _ _ _))
  all_goals (try (exact EClaim.afterNotifyPc _ _ _))
  all_goals (try (exact hE.claim _))
  all_goals (try (exact EClaim.childWakeNextPc (fun c hc => hE.children _ c (by simpa using hc)) hc))
  all_goals (try (exact EClaim.childLoopStartPc (fun c hc => hE.children _ c (by simpa using hc)) hc))
  all_goals (try (exact EClaim.freeLoopStartPc (fun c hc => hE.children _ c (by simpa using hc)) _ _))
  · -- a new activation for the child `c`
    rename_i c stk top _ _ _
    refine ⟨fun c' hc' => by simp at hc', ?_⟩
    cases stk with
    | nil => have := hL.2.2.1; simp at this
    | cons g gs =>
      intro x hx
      simp only [List.dropLast_cons_cons, List.mem_cons] at hx
      rcases hx with hx | hx
      · subst hx; exact hc.1 c rfl
      · exact hc.2 x hx
  · -- next child of the loop of note_notify_child
    rename_i f rest top _ _ _ _ hmem
    refine ⟨?_, ?_⟩
    · intro c' hc'
      simp only [CPos.cur, Option.some.injEq] at hc'
      subst hc'
      exact hE.children _ _ hmem
    · intro x hx
      obtain ⟨y, hy, hyn⟩ := dropLast_head_note (f := f) (by rfl) hx
      rw [← hyn]; exact hc.2 y hy
  · exact ⟨fun c' hc' => by simp at hc', hc.2⟩
  · -- next child of the loop of nsync_note_free
    rename_i hmem
    intro _
    exact hE.children _ _ hmem

/-- The step by which `nsync_note_new` links the new note ends its early phase. -/
theorem step_newP_ld {s s' : State} {e : Event} {a : Tid} {c q : NoteId} {dl : Dl}
    (hs : step s e = .ok s') (ha : e.actor = some a) (hpc : PC.newP .ld c q dl = s.pc a)
    (hpos : (s.notes q).ntime.pos) : s'.pc a = .newP .unlockCall c q dl := by
  cases e
  all_goals step_cases hs
  all_goals simp only [Event.actor, Option.some.injEq, reduceCtorEq] at ha
  all_goals (try subst ha)
  all_goals (try (rw [‹s.pc _ = _›] at hpc))
  all_goals (try (cases hpc; done))
  all_goals (try cases hpc)
  · simp
  · rename_i h _ _; exact absurd hpos h

theorem step_invE {s s' : State} {e : Event} (hr : Reachable s) (hE : InvE s)
    (hs : step s e = .ok s') : InvE s' := by
  have hA := hr.inv6.1
  refine ⟨?_, ?_⟩
  · intro q c hc
    rcases step_children' hs q c hc with h | ⟨a, dl, ha, hpc, hpos⟩ | ⟨a, n, nx, he, hpc, _⟩
    · exact NE.step hs (hE.children q c h)
    · -- nsync_note_new links `c`: the end of its early phase
      have hcr : (s.pc a).creating = some c := by rw [hpc]; rfl
      refine ⟨(step_stable hs).alloc c (hA.creating a c hcr).1, ?_⟩
      intro b hb
      by_cases hba : b = a
      · subst hba
        rw [step_newP_ld hs ha hpc.symm hpos] at hb
        simp [PC.early] at hb
      · have hne : e.actor ≠ some b := by rw [ha]; intro h; exact hba (Option.some.inj h).symm
        rw [step_pc_other hs b hne] at hb
        exact hba (hA.unique b a c (early_creating hb) hcr)
    · -- nsync_note_free adopts `c`, the child its loop is working on
      have hcl := hE.claim a
      rw [hpc] at hcl
      exact NE.step hs (hcl rfl)
  · intro t
    by_cases ha : e.actor = some t
    · exact EClaim.stable hs (EClaim.actor hr hE hs t ha)
    · rw [step_pc_other hs t ha]; exact EClaim.stable hs (hE.claim t)

theorem Reachable.invE {s : State} (h : Reachable s) : InvE s := by
  refine Reachable.induction (P := InvE) InvE.init ?_ s h
  intro s e s' hr hi hs
  exact step_invE hr hi hs

end Note
