/-
  Layer `CvFix`, observers (property C16, cv half): what an accepted event of a thread that is inside
  a debug call can be — a stutter, a local transition (frame of the thread only), the successful
  test-and-set, or the release store.
-/
import NsyncVerif.Proofs.CvFixObsOwner

namespace NsyncVerif.CvFix

theorem inDebug_not_open {x : Thr} (h : inDebug x = true) : x.loc.isOpen = false := by
  unfold inDebug at h
  cases hl : x.loc <;> simp_all [Loc.isOpen]

theorem ltr_tid {s : State} {t : Tid} {e : Event} {x' : Thr} (h : LTr s t e x') : e.tid = some t := by
  cases h <;> rfl

/-- What an accepted release store of emit_cv_state says. -/
theorem dbgRel_accepted {cfg : Config} {s s' : State} {t : Tid} {new obs : Nat}
    (hs : step cfg s (.wordSt t .dbgRel new obs) = .ok s') :
    (s.thr t).loc = .dWalk ∧ new = (s.thr t).old.enc ∧ s.holder = some t ∧ obs = s.word.enc ∧
    ∃ n, Word.dec? new = some n ∧ n.spin = false ∧
      s' = ({ s with word := n, holder := none }).setThr t { s.thr t with loc := .dRet } := by
  simp only [step, stepWordSt] at hs
  split at hs
  all_goals try (rename_i h1 h2; cases h1)
  · have hl := h2
    simp only [need_ok] at hs
    obtain ⟨hnew, hs⟩ := hs
    have hobs : obs = s.word.enc := by
      unfold release at hs; simp only [need_ok] at hs; exact hs.2.1
    obtain ⟨hh, n, hn, hsp, hs⟩ := release_ok hs
    cases hs
    exact ⟨hl, hnew, hh, hobs, n, hn, hsp, rfl⟩
  · cases hs

/-- The four shapes of a step of an observer. -/
theorem obs_step {cfg : Config} {s s' : State} {e : Event} {t : Tid} (hs : step cfg s e = .ok s')
    (ht : e.tid = some t) (hd : inDebug (s.thr t) = true) :
    (s' = s ∧ e.isAtomic = false) ∨
    (∃ x', LTr s t e x' ∧ s' = s.setThr t x') ∨
    (∃ exp new obs n, e = .wordCas t exp new obs true ∧ (s.thr t).loc = .spCas ∧ (s.thr t).cont = .dbg ∧
      exp = (s.thr t).casExp ∧ exp = s.word.enc ∧ obs = exp ∧ Word.dec? new = some n ∧
      new = exp + 1 + (if (s.thr t).setNE ∧ exp / 2 % 2 = 0 then 2 else 0) ∧
      s' = ({ s with word := n, holder := some t }).setThr t { s.thr t with old := s.word, loc := .dWalk }) ∨
    (∃ new obs n, e = .wordSt t .dbgRel new obs ∧ (s.thr t).loc = .dWalk ∧ s.holder = some t ∧
      new = (s.thr t).old.enc ∧ obs = s.word.enc ∧ Word.dec? new = some n ∧ n.spin = false ∧
      s' = ({ s with word := n, holder := none }).setThr t { s.thr t with loc := .dRet }) := by
  have hno := inDebug_not_open hd
  have htr := step_tr hs
  cases htr with
  | same e h hna => exact .inl ⟨rfl, hna⟩
  | tick ns h => simp [Event.tid] at ht
  | semOther e sem' h hopen => rw [hopen t ht] at hno; cases hno
  | loc h =>
    rename_i t0 x'
    have := ltr_tid h
    rw [ht] at this; cases this
    exact .inr (.inl ⟨x', h, rfl⟩)
  | acq t0 exp new obs o n hl hexp hw he ho hn hnew =>
    simp only [Event.tid, Option.some.injEq] at ht; subst ht
    have hc : (s.thr t0).cont = .dbg := by simpa [inDebug, hl] using hd
    have e1 : exp = s.word.enc := by rw [← he, hw]
    have ho' : o = s.word := by rw [e1, enc_dec] at ho; cases ho; rfl
    subst ho'
    refine .inr (.inr (.inl ⟨exp, new, obs, n, rfl, hl, hc, hexp, e1, he, hn, hnew, ?_⟩))
    rw [afterAcquire_dbg _ _ _ (by simpa using hc)]
  | relDbg t0 new obs n hl hh hnew hn hsp =>
    simp only [Event.tid, Option.some.injEq] at ht; subst ht
    exact .inr (.inr (.inr ⟨new, obs, n, rfl, hl, hh, hnew, (dbgRel_accepted hs).2.2.2.1, hn, hsp, rfl⟩))
  | relWait t0 new obs n hl hh hnew hn hsp =>
    simp only [Event.tid, Option.some.injEq] at ht; subst ht; simp [inDebug, hl] at hd
  | relWait2 t0 new obs n hl hh hnew hn hsp =>
    simp only [Event.tid, Option.some.injEq] at ht; subst ht; simp [inDebug, hl] at hd
  | relSig t0 site new obs n hl hs' hh hnew hn hsp =>
    simp only [Event.tid, Option.some.injEq] at ht; subst ht; simp [inDebug, hl] at hd
  | relEnq t0 new obs n hl hh hnew hn hsp =>
    simp only [Event.tid, Option.some.injEq] at ht; subst ht; simp [inDebug, hl] at hd
  | relDeq t0 new obs n hl hh hnew hn hsp =>
    simp only [Event.tid, Option.some.injEq] at ht; subst ht; simp [inDebug, hl] at hd
  | relDeqW t0 new obs n hl hh hnew hn hsp =>
    simp only [Event.tid, Option.some.injEq] at ht; subst ht; simp [inDebug, hl] at hd
  | wHeadExit t0 r y hy hl hr hw =>
    subst hy
    simp only [Event.tid, Option.some.injEq] at ht; subst ht; simp [inDebug, hl] at hd
  | wCmpEq t0 r obs hl hr ho he =>
    simp only [Event.tid, Option.some.injEq] at ht; subst ht; simp [inDebug, hl] at hd
  | deqLdQueued t0 r obs hl hr hw hq =>
    simp only [Event.tid, Option.some.injEq] at ht; subst ht; simp [inDebug, hl] at hd
  | deqSpinExit t0 r hl hr hw =>
    simp only [Event.tid, Option.some.injEq] at ht; subst ht; simp [inDebug, hl] at hd
  | wSt1 t0 r obs hl hm hst =>
    simp only [Event.tid, Option.some.injEq] at ht; subst ht; simp [inDebug, hl] at hd
  | wClr t0 r obs hl hr =>
    simp only [Event.tid, Option.some.injEq] at ht; subst ht; simp [inDebug, hl] at hd
  | wake t0 r obs hl hr =>
    simp only [Event.tid, Option.some.injEq] at ht; subst ht; simp [inDebug, hl] at hd
  | enqSt t0 r obs hl hm hst ho he =>
    simp only [Event.tid, Option.some.injEq] at ht; subst ht; simp [inDebug, hl] at hd
  | deqSt t0 r obs hl hr =>
    simp only [Event.tid, Option.some.injEq] at ht; subst ht; simp [inDebug, hl] at hd
  | wRmCasOk t0 r exp new obs hl hr hn ho he =>
    simp only [Event.tid, Option.some.injEq] at ht; subst ht; simp [inDebug, hl] at hd
  | sRcCasOk t0 site r exp new obs hl hr hn ho he =>
    simp only [Event.tid, Option.some.injEq] at ht; subst ht; simp [inDebug, hl] at hd
  | muMode t0 obs lt hl hlt =>
    simp only [Event.tid, Option.some.injEq] at ht; subst ht; simp [inDebug, hl] at hd
  | wwCasOk t0 exp new obs f rest hl hlist =>
    simp only [Event.tid, Option.some.injEq] at ht; subst ht; simp [inDebug, hl] at hd
  | semVWake t0 k r q hl hc =>
    simp only [Event.tid, Option.some.injEq] at ht; subst ht; simp [inDebug, hl] at hd
  | semPdRetOkW t0 k hl =>
    simp only [Event.tid, Option.some.injEq] at ht; subst ht; simp [inDebug, hl] at hd
  | semPdRetOkC t0 k hl =>
    simp only [Event.tid, Option.some.injEq] at ht; subst ht; simp [inDebug, hl] at hd
  | wInit t0 r hl hm hst =>
    simp only [Event.tid, Option.some.injEq] at ht; subst ht; rw [hl] at hno; cases hno
  | nwInit t0 r hl hm hst =>
    simp only [Event.tid, Option.some.injEq] at ht; subst ht; simp [inDebug, hl] at hd
  | fStW t0 r new hl hf =>
    simp only [Event.tid, Option.some.injEq] at ht; subst ht; rw [hl] at hno; cases hno
  | fCasOk t0 r exp new obs hl hf hn ho he =>
    simp only [Event.tid, Option.some.injEq] at ht; subst ht; rw [hl] at hno; cases hno

/-- The local transitions of an observer: the loads of the test-and-set loop, the failed CAS, the
    first load, the two loads of the walk, `ret`. -/
theorem obs_ltr {s : State} {t : Tid} {e : Event} {x' : Thr} (h : LTr s t e x')
    (hd : inDebug (s.thr t) = true) :
    (inDebug x' = true ∨ (x'.loc = .idle ∧ (s.thr t).loc = .dRet)) ∧
    (x'.loc.dbgHolds = true → (s.thr t).loc.dbgHolds = true) ∧
    (∀ q, q ∈ touches s e → (s.thr t).loc.dbgHolds = true ∧ q ∈ s.queue) ∧
    ((s.thr t).loc.dbgHolds = true → x'.old = (s.thr t).old ∧ (
      (∃ r obs, e = .recLd t .dbgW r obs ∧ (s.thr t).loc = .dWalk ∧ s.queue[(s.thr t).dIdx]? = some r ∧
        r.isMucv = true ∧ x'.loc = .dRc ∧ x'.dIdx = (s.thr t).dIdx) ∨
      (∃ r obs, e = .recLd t .dbgRc r obs ∧ (s.thr t).loc = .dRc ∧ s.queue[(s.thr t).dIdx]? = some r ∧
        x'.loc = .dWalk ∧ x'.dIdx = (s.thr t).dIdx + 1))) := by
  cases h with
  | spinLd site obs hl ho =>
    rcases hl with ⟨_, hl⟩ | ⟨_, hl⟩ <;> split <;> simp_all [inDebug, Loc.dbgHolds, touches]
  | casFail exp new obs hl ho hne => simp_all [inDebug, Loc.dbgHolds, touches]
  | dbgLd obs hl ho => split <;> simp_all [inDebug, Loc.dbgHolds, touches]
  | dbgW r obs hl hq hm ho =>
    refine ⟨.inl (by simp [inDebug]), by simp [hl, Loc.dbgHolds], ?_, fun _ => ⟨rfl, .inl ⟨r, obs, rfl, hl, hq, hm, rfl, rfl⟩⟩⟩
    intro q hq'
    simp [touches, hl] at hq'; subst hq'
    exact ⟨by simp [hl, Loc.dbgHolds], List.mem_of_getElem? hq⟩
  | dbgRc r obs hl hq ho =>
    refine ⟨.inl (by simp [inDebug]), by simp [hl, Loc.dbgHolds], ?_, fun _ => ⟨rfl, .inr ⟨r, obs, rfl, hl, hq, rfl, rfl⟩⟩⟩
    intro q hq'
    simp [touches, hl] at hq'; subst hq'
    exact ⟨by simp [hl, Loc.dbgHolds], List.mem_of_getElem? hq⟩
  | retDebug k hl hk => simp_all [inDebug, Loc.dbgHolds, Thr.fresh, touches]
  | noteSeen hl => rcases hl with hl | hl | hl <;> simp [inDebug, hl] at hd
  | wChk y r obs hy hl hr ho hso => exfalso; cases hy <;> simp_all [inDebug]
  | wTail y r obs hy hl hr ho => exfalso; cases hy <;> simp_all [inDebug]
  | wwRelLd site obs hl => rcases hl with ⟨_, hl⟩ | ⟨_, hl⟩ <;> simp [inDebug, hl] at hd
  | retWait res hl hr => rcases hl with hl | hl <;> simp [inDebug, hl] at hd
  | rcLd site r obs hl hs hr ho => simp [inDebug, hl] at hd
  | _ => exfalso; simp_all [inDebug]

end NsyncVerif.CvFix
