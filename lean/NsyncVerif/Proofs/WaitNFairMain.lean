/-
  Proofs/WaitNFairMain.lean — WaitN layer, liveness: a thread that stays at one program point for ever without
  executing its next operation contradicts the fairness hypotheses (`stuck_false`): the sleeper's P times out once
  the clock has passed `min_ntime`; a mutex acquisition succeeds (`LockFair`, the lock is free again and again);
  the wait loop of cv_dequeue ends because the signaller that owns the record clears `waiting`.
-/
import NsyncVerif.Proofs.WaitNFairExec
import NsyncVerif.Proofs.WaitNFairWspin2

set_option linter.unusedSimpArgs false
set_option linter.unusedVariables false

namespace WaitN

variable {s0 : State}

/-- the hypotheses of the fair-termination theorems -/
structure FairHyps (x : Exec s0) : Prop where
  reach : Reachable s0
  weak : WeakFair x
  lock : LockFair x
  foreign : ForeignRelease x

/-- from time `j` on thread `t` does not execute any operation of its own code -/
def Still (x : Exec s0) (t : Tid) (j : Nat) : Prop :=
  ∀ j', j ≤ j' → (x.ρ (j' + 1)).pc t = (x.ρ j').pc t ∧ (x.ρ (j' + 1)).post t = (x.ρ j').post t
    ∧ frSame ((x.ρ j').fr t) ((x.ρ (j' + 1)).fr t)

theorem Still.pc {x : Exec s0} {t : Tid} {j : Nat} (h : Still x t j) : ∀ d, (x.ρ (j + d)).pc t = (x.ρ j).pc t := by
  intro d
  induction d with
  | zero => rfl
  | succ d ih => rw [show j + (d + 1) = j + d + 1 by omega, (h (j + d) (by omega)).1]; exact ih

theorem Still.fr {x : Exec s0} {t : Tid} {j : Nat} (h : Still x t j) : ∀ d, frSame ((x.ρ j).fr t) ((x.ρ (j + d)).fr t) := by
  intro d
  induction d with
  | zero => exact frSame_refl _
  | succ d ih => exact frSame_trans ih (h (j + d) (by omega)).2.2

theorem Still.no_move {x : Exec s0} {t : Tid} {j : Nat} (h : Still x t j) {j' : Nat} (hj : j ≤ j') : ¬ Moves x t j' :=
  fun hm => hm.elim (fun a => a (h j' hj).1) (fun a => a (h j' hj).2.1)

theorem lockWait_of_block {p : PC} {f : Frame} {o : ObjId} (h : lockBlockOf p f = some o) : lockWaitOf p f = some o := by
  unfold lockBlockOf at h
  split at h <;> first | exact h | cases h

theorem lockWaitOf_objs {p : PC} {f f' : Frame} (h : f'.objs = f.objs) : lockWaitOf p f' = lockWaitOf p f := by
  unfold lockWaitOf
  split <;> simp [h]

/-- the `waiting` field of the record of a thread in the wait loop of cv_dequeue is not set again -/
theorem wspin_wfalse_step (x : Exec s0) (hr : Reachable s0) {t : Tid} {k : Nat} {r : Rid} {j : Nat}
    (hpc : (x.ρ j).pc t = .wDeqCv k .wspin) (hrec : ((x.ρ j).fr t).recs[k]? = some r)
    (hw : ((x.ρ j).rcd r).waiting = false) : ((x.ρ (j + 1)).rcd r).waiting = false := by
  cases hs : x.σ j with
  | none => rw [x.next_none hs]; exact hw
  | some ev =>
    have hstep := x.next_some hs
    cases ev with
    | tick ns => rw [(step_tick hstep).1]; exact hw
    | thr v e =>
      cases hw' : ((x.ρ (j + 1)).rcd r).waiting with
      | false => rfl
      | true =>
        exfalso
        have hrj := x.reach hr j
        have own := own_of_reachable hrj
        have hlt := linv_of_reachable hrj t
        rw [hpc] at hlt
        obtain ⟨i, hi, hri⟩ := (mono_stepThr (t := v) (step_thr hstep)).wtrue r hw hw'
        have hlv := linv_of_reachable hrj v
        have hvt : v = t := by
          rcases hi with hi | hi
          · rw [hi] at hlv
            exact owner_unique own (by rw [hi]; rfl) hlv.1.frees (List.mem_of_getElem? hri) (by rw [hpc]; rfl) hlt.1.frees
              (List.mem_of_getElem? hrec)
          · rw [hi] at hlv
            exact owner_unique own (by rw [hi]; rfl) hlv.1.frees (List.mem_of_getElem? hri) (by rw [hpc]; rfl) hlt.1.frees
              (List.mem_of_getElem? hrec)
        subst hvt
        rcases hi with hi | hi <;> (rw [hpc] at hi; cases hi)

/-- the signaller that owns the record keeps it in its wake list until it clears `waiting` -/
theorem pend_step (x : Exec s0) {u : Tid} {c : Nat} {l : List Rid} {r : Rid} {j : Nat}
    (hwk : wk ((x.ρ j).pc u) = some (c, l)) (hp : r ∈ pend ((x.ρ j).post u) l) :
    (∃ c' l', wk ((x.ρ (j + 1)).pc u) = some (c', l') ∧ r ∈ pend ((x.ρ (j + 1)).post u) l')
    ∨ ((x.ρ (j + 1)).rcd r).waiting = false := by
  cases hs : x.σ j with
  | none => rw [x.next_none hs]; exact .inl ⟨c, l, hwk, hp⟩
  | some ev =>
    have hstep := x.next_some hs
    cases ev with
    | tick ns => rw [(step_tick hstep).1]; exact .inl ⟨c, l, hwk, hp⟩
    | thr v e =>
      by_cases hv : v = u
      · subst hv; exact pend_persist hwk hp (step_thr hstep)
      · obtain ⟨h1, _, h3, _⟩ := others_stepThr (step_thr hstep) u (fun h => hv h.symm)
        exact .inl ⟨c, l, by rw [h1]; exact hwk, by rw [h3]; exact hp⟩

theorem straight_of_wk {p : PC} {c : Nat} {l : List Rid} (h : wk p = some (c, l)) : Straight p := by
  obtain ⟨bc, rfl⟩ := wk_some h
  exact ⟨by simp, rfl, rfl, rfl, rfl⟩

theorem Still.pc_ge {x : Exec s0} {t : Tid} {j : Nat} (h : Still x t j) {j' : Nat} (hj : j ≤ j') :
    (x.ρ j').pc t = (x.ρ j).pc t := by
  obtain ⟨d, rfl⟩ : ∃ d, j' = j + d := ⟨j' - j, by omega⟩
  exact h.pc d

theorem Still.fr_ge {x : Exec s0} {t : Tid} {j : Nat} (h : Still x t j) {j' : Nat} (hj : j ≤ j') :
    frSame ((x.ρ j).fr t) ((x.ρ j').fr t) := by
  obtain ⟨d, rfl⟩ : ∃ d, j' = j + d := ⟨j' - j, by omega⟩
  exact h.fr d

/-- asleep with a finite abs_deadline: once the clock has passed `min_ntime` the sleeper is not blocked any more -/
theorem sleep_timed_unblocks (x : Exec s0) (hr : Reachable s0) (hclk : ClockAdvances x) (t : Tid) (j k : Nat)
    (hst : Still x t j) (hpk : (x.ρ j).pc t = .wPdWait k) (d : Int) (hd : ((x.ρ j).fr t).dl = some d) :
    ∃ j1, j ≤ j1 ∧ ∀ j', j1 ≤ j' → ¬ Blocked (x.ρ j') t := by
  have hsd := (sleep_deadline_state (x.reach hr j) (.inr ⟨k, hpk⟩)).2.1
  cases hmin : ((x.ρ j).fr t).min with
  | none => rw [hmin, hd] at hsd; simp [dle, dlt] at hsd
  | some m =>
    obtain ⟨i', hi', hnow⟩ := hclk j t k m hpk hmin
    refine ⟨i', hi', fun j2 hj2 hbl2 => ?_⟩
    rcases hbl2 with ⟨k', hpk', _, hexp⟩ | ⟨o, ho, _⟩ | ⟨k', r, hpk', _, _⟩
    · rw [frSame_min (hst.fr_ge (by omega)), hmin] at hexp
      have := x.now_mono hj2
      simp [expiredB] at hexp
      omega
    · rw [hst.pc_ge (by omega), hpk] at ho; cases ho
    · rw [hst.pc_ge (by omega), hpk] at hpk'; cases hpk'

/-- A thread cannot stay at a program point for ever without executing its next operation (`hsl`: if it is asleep
    in the P of wait.c:78 it is eventually not blocked any more). -/
theorem stuck_false (x : Exec s0) (H : FairHyps x) (t : Tid) (j : Nat) (hst : Still x t j)
    (hni : (x.ρ j).pc t ≠ .idle)
    (hsl : ∀ k, (x.ρ j).pc t = .wPdWait k → ∃ j1, j ≤ j1 ∧ ∀ j', j1 ≤ j' → ¬ Blocked (x.ρ j') t) : False := by
  have hr := H.reach
  have hpcc : ∀ j', j ≤ j' → (x.ρ j').pc t = (x.ρ j).pc t := fun j' hj => hst.pc_ge hj
  have hfrc : ∀ j', j ≤ j' → frSame ((x.ρ j).fr t) ((x.ρ j').fr t) := fun j' hj => hst.fr_ge hj
  -- blocked again and again
  have hb : ∀ i, j ≤ i → ∃ j', i ≤ j' ∧ Blocked (x.ρ j') t := by
    intro i hi
    apply Classical.byContradiction
    intro hno
    obtain ⟨j2, h2, hm⟩ := H.weak t i (fun j' hj' =>
      ⟨.inl (by rw [hpcc j' (by omega)]; exact hni), fun hbl => hno ⟨j', hj', hbl⟩⟩)
    exact hst.no_move (by omega) hm
  obtain ⟨j1, hj1, hbl⟩ := hb j (Nat.le_refl _)
  rcases hbl with ⟨k, hpk, _, _⟩ | ⟨o, ho, _⟩ | ⟨k, r, hpk, hrec, hw⟩
  · -- asleep
    rw [hpcc j1 hj1] at hpk
    obtain ⟨j2, hj2, hnb⟩ := hsl k hpk
    obtain ⟨j3, hj3, hbl3⟩ := hb j2 hj2
    exact hnb j3 hj3 hbl3
  · -- acquiring a lock that is free again and again
    refine H.lock t o j1 (fun j' hj' => ?_) (fun j' _ => lock_free_again x hr H.weak H.foreign o j')
    have h1 := lockWait_of_block ho
    rw [hpcc j' (by omega), ← hpcc j1 hj1]
    rw [lockWaitOf_objs (f := (x.ρ j1).fr t) ?_]
    · exact h1
    · rw [frSame_objs (hfrc j' (by omega)), frSame_objs (hfrc j1 hj1)]
  · -- in the wait loop of cv_dequeue
    have hpcw : ∀ j', j1 ≤ j' → (x.ρ j').pc t = .wDeqCv k .wspin := fun j' hj' => by
      rw [hpcc j' (by omega), ← hpcc j1 hj1]; exact hpk
    have hrecw : ∀ j', j1 ≤ j' → ((x.ρ j').fr t).recs[k]? = some r := fun j' hj' => by
      rw [frSame_recs (hfrc j' (by omega)), ← frSame_recs (hfrc j1 hj1)]; exact hrec
    by_cases hall : ∀ d, ((x.ρ (j1 + d)).rcd r).waiting = true
    · obtain ⟨u, c, l, hwk, hp⟩ := wspin_owned (x.reach hr j1) hpk hrec hw
      have hown : ∀ d, ∃ c' l', wk ((x.ρ (j1 + d)).pc u) = some (c', l') ∧ r ∈ pend ((x.ρ (j1 + d)).post u) l' := by
        intro d
        induction d with
        | zero => exact ⟨c, l, hwk, hp⟩
        | succ d ih =>
          obtain ⟨c', l', h1, h2⟩ := ih
          rcases pend_step x h1 h2 with h | h
          · exact h
          · have := hall (d + 1); rw [show j1 + (d + 1) = j1 + d + 1 by omega, h] at this; cases this
      exact descent x hr H.weak u _ j1 rfl (fun j' hj' => by
        obtain ⟨d, rfl⟩ : ∃ d, j' = j1 + d := ⟨j' - j1, by omega⟩
        obtain ⟨c', l', h1, _⟩ := hown d
        exact straight_of_wk h1)
    · obtain ⟨d, hd⟩ := Classical.not_forall.1 hall
      have hd : ((x.ρ (j1 + d)).rcd r).waiting = false := by
        cases h : ((x.ρ (j1 + d)).rcd r).waiting with
        | false => rfl
        | true => exact absurd h hd
      have hfalse : ∀ d', ((x.ρ (j1 + d + d')).rcd r).waiting = false := by
        intro d'
        induction d' with
        | zero => exact hd
        | succ d' ih =>
          show ((x.ρ (j1 + d + d' + 1)).rcd r).waiting = false
          exact wspin_wfalse_step x hr (hpcw (j1 + d + d') (by omega)) (hrecw (j1 + d + d') (by omega)) ih
      obtain ⟨j2, hj2, hbl2⟩ := hb (j1 + d) (by omega)
      rcases hbl2 with ⟨k', hpk', _, _⟩ | ⟨o, ho, _⟩ | ⟨k', r', hpk', hrec', hw'⟩
      · rw [hpcw j2 (by omega)] at hpk'; cases hpk'
      · rw [hpcw j2 (by omega)] at ho; cases ho
      · rw [hpcw j2 (by omega)] at hpk'; cases hpk'
        rw [hrecw j2 (by omega)] at hrec'; cases hrec'
        obtain ⟨d', rfl⟩ : ∃ d', j2 = j1 + d + d' := ⟨j2 - (j1 + d), by omega⟩
        rw [hfalse d'] at hw'; cases hw'

end WaitN
