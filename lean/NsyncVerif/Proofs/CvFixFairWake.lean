/-
  Layer `CvFix`, liveness: every nsync_cv_signal / nsync_cv_broadcast call returns
  (`waker_returns`).  Phase A: the first load and the test-and-set loop (left by `spin_exits`);
  phase B: the critical section, wake_waiters, the return — by the rank `rkB`, the release loop of
  the mutex's spinlock (cv.c:130-134) being the loop of `leads_loop` (left by `MuRelFair`).
-/
import NsyncVerif.Proofs.CvFixFairLock

namespace NsyncVerif.CvFix

/-- Phase B of a waker: from the acquisition of the spinlock (or the load that found the cv empty)
    to the return. -/
def Loc.wakeB : Loc → Bool
  | .sRcLd | .sRcCas | .sRel | .wwMuLd | .wwMuCas | .wwRelLd | .wwRelCas | .wwRelLd2 | .wwStore
  | .wwV | .kRet => true
  | _ => false

def rkB (s : State) (t : Tid) : Nat :=
  match (s.thr t).loc with
  | .sRcLd | .sRcCas | .sRel => 10 * (s.thr t).list.length + 8 + rkS s t
  | .wwMuLd => 10 * (s.thr t).list.length + 7
  | .wwMuCas => 10 * (s.thr t).list.length + 6
  | .wwRelLd | .wwRelCas | .wwRelLd2 => 10 * (s.thr t).list.length + 5
  | .wwStore => 10 * (s.thr t).list.length + 3
  | .wwV => 10 * (s.thr t).list.length + 9
  | .kRet => 1
  | _ => 0

/-- What phase B asks of a step of the waker. -/
def StepB (s s' : State) (t : Tid) : Prop :=
  (s'.thr t).loc.wakeB = true ∧
    (if (s.thr t).loc.muRel = true then rkB s' t ≤ rkB s t else rkB s' t < rkB s t)

theorem wakeB_ltr {s : State} {t : Tid} {e : Event} {x' : Thr} (h : LTr s t e x')
    (hh : (s.thr t).loc.wakeB = true)
    (hnf : ∀ site r exp new obs, e = .recCas t site r exp new obs false → casBad s t = true) :
    (e = .retSignal t ∨ e = .retBroadcast t) ∨ StepB s (s.setThr t x') t := by
  cases h with
  | retWait res hl hr => rcases hl with hl | hl <;> simp [hl, Loc.wakeB] at hh
  | spinLd site obs hl ho => rcases hl with ⟨_, hl⟩ | ⟨_, hl⟩ <;> simp [hl, Loc.wakeB] at hh
  | wwRelLd site obs hl =>
    rcases hl with ⟨_, hl⟩ | ⟨_, hl⟩ <;> simp [hl, Loc.wakeB, StepB, Loc.muRel, rkB]
  | noteSeen hl => rcases hl with hl | hl | hl <;> simp [hl, Loc.wakeB] at hh
  | wChk y r obs hy hl hr ho hso => cases hy <;> simp_all [Loc.wakeB]
  | wTail y r obs hy hl hr ho => cases hy <;> simp_all [Loc.wakeB]
  | retSignal hl hb => exact .inl (.inl rfl)
  | retBroadcast hl hb => exact .inl (.inr rfl)
  | sRcCasFail site r exp new obs hl hr =>
    right
    have := hnf _ _ _ _ _ rfl
    simp [casBad, hl, hr] at this
    simp [hl, Loc.wakeB, StepB, Loc.muRel, rkB, rkS, rkH, casBad, this, hr]
  | rcLd site r obs hl hs hr ho =>
    right; simp [hl, Loc.wakeB, StepB, Loc.muRel, rkB, rkS, rkH, casBad, ho, hr]
  | wwLd obs f rest hl hlist =>
    right
    by_cases hc : wantTransfer (s.recs f).lt obs (s.thr t).list.length (s.thr t).allReaders = true <;>
      simp [hl, hc, Loc.wakeB, StepB, Loc.muRel, rkB]
  | wwRelCasOk exp new obs hl =>
    right
    by_cases hz : (s.thr t).list.isEmpty = true <;>
      simp [hl, hz, Loc.wakeB, StepB, Loc.muRel, rkB]
  | _ => simp_all [Loc.wakeB, StepB, Loc.muRel, rkB]

theorem wakeB_not_open {l : Loc} (h : l.wakeB = true) : l.isOpen = false := by
  cases l <;> simp_all [Loc.wakeB, Loc.isOpen]

theorem filter_length_le' (p : Rid → Bool) (l : List Rid) : (l.filter p).length ≤ l.length :=
  List.length_filter_le p l

/-- Every step of a waker in phase B is its return, or stays in phase B and decreases the rank
    (does not increase it inside the release loop of the mutex's spinlock). -/
theorem wakeB_own {cfg : Config} {s s' : State} {e : Event} {t : Tid}
    (hs : step cfg s e = .ok s') (ht : e.tid = some t) (hne : e ≠ .noteSeen t) (hi : Inv s)
    (hB : (s.thr t).loc.wakeB = true) :
    (e = .retSignal t ∨ e = .retBroadcast t) ∨ StepB s s' t := by
  have hop := wakeB_not_open hB
  have htr := step_tr hs
  cases htr with
  | same e h hna => exact absurd rfl (nonatomic_closed hs ht hna hne hop)
  | tick ns h => simp [Event.tid] at ht
  | semOther e sem' h hopen => have := hopen t ht; rw [hop] at this; cases this
  | loc h =>
    rename_i t0 x'
    have := ltr_tid h
    rw [ht] at this; cases this
    have hnf : ∀ site r exp new obs, e = .recCas t site r exp new obs false → casBad s t = true := by
      intro site r exp new obs he
      subst he
      obtain ⟨h1, h2, h3, h4⟩ := recCas_fail hs
      rcases h4 with ⟨h5, h6⟩ | ⟨h5, h6⟩
      · subst h6; simp [casBad, h5, ← h1, ← h2]; omega
      · simp [casBad, h5, h6, ← h1, ← h2]; omega
    exact wakeB_ltr h hB hnf
  | wInit t0 r h hm hst =>
    simp only [Event.tid, Option.some.injEq] at ht; subst ht; rw [hop] at h; cases h
  | nwInit t0 r h hm hst =>
    simp only [Event.tid, Option.some.injEq] at ht; subst ht; rw [h] at hop; cases hop
  | fStW t0 r new h hf =>
    simp only [Event.tid, Option.some.injEq] at ht; subst ht; rw [hop] at h; cases h
  | fCasOk t0 r exp new obs h hf hn ho he =>
    simp only [Event.tid, Option.some.injEq] at ht; subst ht; rw [hop] at h; cases h
  | sRcCasOk t0 site r exp new obs h hr hn ho he =>
    simp only [Event.tid, Option.some.injEq] at ht; subst ht
    right
    cases htd : (s.thr t0).todo with
    | nil => rw [htd] at hr; cases hr
    | cons a l =>
      by_cases hz : l.isEmpty = true <;>
        simp [StepB, Loc.wakeB, Loc.muRel, rkB, rkS, rkH, casBad, h, htd, hz] <;> omega
  | relSig t0 site new obs n h hsite hh hnew hn hsp =>
    simp only [Event.tid, Option.some.injEq] at ht; subst ht
    right
    cases hlist : (s.thr t0).list with
    | nil => simp [StepB, Loc.wakeB, Loc.muRel, rkB, h, hlist, wakeEntry]; omega
    | cons f rest =>
      by_cases hc : (f.isMucv && (s.recs f).lt != LType.gen) = true <;>
        simp [StepB, Loc.wakeB, Loc.muRel, rkB, rkS, rkH, casBad, h, hlist, wakeEntry, hc]
  | wwCasOk t0 exp new obs f rest h hlist =>
    simp only [Event.tid, Option.some.injEq] at ht; subst ht
    right
    simp [StepB, Loc.wakeB, Loc.muRel, rkB, h]
    have := filter_length_le' (fun r => !decide (r ∈ transferSet s.recs (firstCantAcquire (s.recs f).lt exp) (s.thr t0).list)) (s.thr t0).list
    omega
  | wake t0 r obs h hr =>
    simp only [Event.tid, Option.some.injEq] at ht; subst ht
    right
    cases hlist : (s.thr t0).list with
    | nil => rw [hlist] at hr; cases hr
    | cons f rest => simp [StepB, Loc.wakeB, Loc.muRel, rkB, h, hlist]; omega
  | semVWake t0 k r q h hc =>
    simp only [Event.tid, Option.some.injEq] at ht; subst ht
    right
    by_cases hz : (s.thr t0).list.isEmpty = true <;>
      simp [StepB, Loc.wakeB, Loc.muRel, rkB, h, hz] <;> omega
  | _ =>
    simp only [Event.tid, Option.some.injEq] at ht
    replace ht := ht.symm
    subst ht
    simp_all [Loc.wakeB]

theorem closed_step_cases {cfg : Config} {s s' : State} {e : Event} {t : Tid}
    (hs : step cfg s e = .ok s') (ht : e.tid = some t) (hne : e ≠ .noteSeen t)
    (hop : (s.thr t).loc.isOpen = false) (hnh : (s.thr t).loc.holds = false) :
    (∃ x', LTr s t e x' ∧ s' = s.setThr t x') ∨
    (∃ exp new obs o n, e = .wordCas t exp new obs true ∧ (s.thr t).loc = .spCas ∧
      s' = afterAcquire { s with word := n, holder := some t } t { s.thr t with old := o }) ∨
    (s.thr t).loc = .wHead ∨ (s.thr t).loc = .nDeqSpin ∨ (s.thr t).loc = .wwStore ∨
    (s.thr t).loc = .wMode ∨ (s.thr t).loc = .wwMuCas ∨ (s.thr t).loc = .wwV ∨
    (s.thr t).loc = .wSemRet := by
  have htr := step_tr hs
  cases htr with
  | same e h hna => exact absurd rfl (nonatomic_closed hs ht hna hne hop)
  | tick ns h => simp [Event.tid] at ht
  | semOther e sem' h hopen => have := hopen t ht; rw [hop] at this; cases this
  | loc h =>
    rename_i t0 x'
    have := ltr_tid h
    rw [ht] at this; cases this
    exact .inl ⟨x', h, rfl⟩
  | acq t0 exp new obs o n hl hexp hw he ho hn hnew =>
    simp only [Event.tid, Option.some.injEq] at ht; subst ht
    exact .inr (.inl ⟨exp, new, obs, o, n, rfl, hl, rfl⟩)
  | wInit t0 r h hm hst =>
    simp only [Event.tid, Option.some.injEq] at ht; subst ht; rw [hop] at h; cases h
  | nwInit t0 r h hm hst =>
    simp only [Event.tid, Option.some.injEq] at ht; subst ht; rw [h] at hop; cases hop
  | fStW t0 r new h hf =>
    simp only [Event.tid, Option.some.injEq] at ht; subst ht; rw [hop] at h; cases h
  | fCasOk t0 r exp new obs h hf hn ho he =>
    simp only [Event.tid, Option.some.injEq] at ht; subst ht; rw [hop] at h; cases h
  | _ =>
    simp only [Event.tid, Option.some.injEq] at ht
    replace ht := ht.symm
    subst ht
    simp_all [Loc.holds, Loc.isOpen]

/-- The first load of signal / broadcast. -/
theorem sLd_own {cfg : Config} {s s' : State} {e : Event} {t : Tid}
    (hs : step cfg s e = .ok s') (ht : e.tid = some t) (hne : e ≠ .noteSeen t)
    (hl : (s.thr t).loc = .sLd) :
    (s'.thr t).loc = .kRet ∨ ((s'.thr t).loc = .spLd0 ∧ (s'.thr t).cont = .sig) := by
  rcases closed_step_cases hs ht hne (by simp [hl, Loc.isOpen]) (by simp [hl, Loc.holds]) with
    ⟨x', h, rfl⟩ | ⟨_, _, _, _, _, _, h, _⟩ | h | h | h | h | h | h | h
  · cases h with
    | sigLd site obs hl' hs' ho =>
      simp only [setThr_thr, if_true]
      split <;> simp
    | spinLd site obs hl' ho => rcases hl' with ⟨_, hl'⟩ | ⟨_, hl'⟩ <;> simp [hl] at hl'
    | wwRelLd site obs hl' => rcases hl' with ⟨_, hl'⟩ | ⟨_, hl'⟩ <;> simp [hl] at hl'
    | retWait res hl' hr => rcases hl' with hl' | hl' <;> simp [hl] at hl'
    | noteSeen hl' => rcases hl' with hl' | hl' | hl' <;> simp [hl] at hl'
    | wChk y r obs hy hl' hr ho hso => cases hy <;> simp_all
    | wTail y r obs hy hl' hr ho => cases hy <;> simp_all
    | _ => simp_all
  all_goals simp [hl] at h

/-- The test-and-set loop of signal / broadcast: a step of the thread stays in it or acquires. -/
theorem spin_sig_own {cfg : Config} {s s' : State} {e : Event} {t : Tid}
    (hs : step cfg s e = .ok s') (ht : e.tid = some t) (hne : e ≠ .noteSeen t)
    (hl : (s.thr t).loc.spinLoop = true) (hc : (s.thr t).cont = .sig) :
    ((s'.thr t).loc.spinLoop = true ∧ (s'.thr t).cont = .sig) ∨ (s'.thr t).loc.wakeB = true := by
  have hop : (s.thr t).loc.isOpen = false := by
    cases h : (s.thr t).loc <;> simp_all [Loc.spinLoop, Loc.isOpen]
  have hnh : (s.thr t).loc.holds = false := by
    cases h : (s.thr t).loc <;> simp_all [Loc.spinLoop, Loc.holds]
  rcases closed_step_cases hs ht hne hop hnh with
    ⟨x', h, rfl⟩ | ⟨_, _, _, _, _, _, h, rfl⟩ | h | h | h | h | h | h | h
  · cases h with
    | spinLd site obs hl' ho =>
      left; simp only [setThr_thr, if_true]
      split <;> simp [Loc.spinLoop, hc]
    | casFail exp new obs hl' ho hne' => left; simp [Loc.spinLoop, hc]
    | sigLd site obs hl' hs' ho => simp [hl', Loc.spinLoop] at hl
    | wwRelLd site obs hl' => rcases hl' with ⟨_, hl'⟩ | ⟨_, hl'⟩ <;> simp [hl', Loc.spinLoop] at hl
    | retWait res hl' hr => rcases hl' with hl' | hl' <;> simp [hl', Loc.spinLoop] at hl
    | noteSeen hl' => rcases hl' with hl' | hl' | hl' <;> simp [hl', Loc.spinLoop] at hl
    | wChk y r obs hy hl' hr ho hso => cases hy <;> simp_all [Loc.spinLoop]
    | wTail y r obs hy hl' hr ho => cases hy <;> simp_all [Loc.spinLoop]
    | _ => simp_all [Loc.spinLoop]
  · right
    unfold afterAcquire
    simp only [hc]
    simp only [updT_apply, if_true]
    split <;> (try split) <;> simp [Loc.wakeB]
  all_goals simp [h, Loc.spinLoop] at hl

variable {cfg : Config} {s0 : State}

theorem wakeB_ready {s : State} {t : Tid} (h : (s.thr t).loc.wakeB = true) : Ready s t := by
  refine ⟨?_, ?_, ?_⟩ <;> cases hl : (s.thr t).loc <;> simp_all [Loc.wakeB, Loc.foreign, Loc.asleep]

/-- A step at which the waker in phase B does not move. -/
theorem wakeB_stay (x : Exec cfg s0) (hr : Reachable cfg s0) {t : Tid} {j : Nat}
    (hB : ((x.ρ j).thr t).loc.wakeB = true) (hn : ¬ Moves x t j) :
    (x.ρ (j + 1)).thr t = (x.ρ j).thr t ∧ rkB (x.ρ (j + 1)) t = rkB (x.ρ j) t := by
  have hthr := frozen x hn (wakeB_ready hB)
  refine ⟨hthr, ?_⟩
  cases hh : ((x.ρ j).thr t).loc.holds with
  | true =>
    have hhold := ((x.inv hr j).a.hold t).mpr hh
    obtain ⟨_, b⟩ := hold_stay x hr hhold hn
    simp only [rkB, hthr, b]
  | false =>
    unfold rkB
    rw [hthr]
    split <;> simp_all [Loc.holds]

/-- Phase B ends with the return. -/
theorem wakerB_returns (x : Exec cfg s0) (hy : Hyps x) {t : Tid} {i : Nat}
    (hB : ((x.ρ i).thr t).loc.wakeB = true) :
    ∃ j, i ≤ j ∧ (x.σ j = some (.retSignal t) ∨ x.σ j = some (.retBroadcast t)) := by
  have := leads_loop x t (fun j => i ≤ j ∧ ((x.ρ j).thr t).loc.wakeB = true)
    (fun j => ∃ j', i ≤ j' ∧ j' < j ∧ (x.σ j' = some (.retSignal t) ∨ x.σ j' = some (.retBroadcast t)))
    (fun j => ((x.ρ j).thr t).loc.muRel = true) (fun j => rkB (x.ρ j) t) ?_ ?_ ?_ ?_ ?_ i
    ⟨Nat.le_refl _, hB⟩
  · obtain ⟨j, _, j', h1, _, h3⟩ := this
    exact ⟨j', h1, h3⟩
  · intro j ⟨hij, hR⟩ hn
    obtain ⟨a, b⟩ := wakeB_stay x hy.reach hR hn
    exact .inr ⟨⟨by omega, by rw [a]; exact hR⟩, Nat.le_of_eq b, fun h => by rw [a] at h; exact h⟩
  · intro j ⟨hij, hR⟩ hL ⟨e, he, ht, hne⟩
    rcases wakeB_own (x.next_some he) ht hne (x.inv hy.reach j) hR with h | ⟨h1, h2⟩
    · left
      refine ⟨j, hij, by omega, ?_⟩
      rcases h with h | h <;> rw [he, h] <;> simp
    · right
      rw [if_neg hL] at h2
      exact ⟨⟨by omega, h1⟩, h2⟩
  · intro j ⟨hij, hR⟩ hL ⟨e, he, ht, hne⟩
    rcases wakeB_own (x.next_some he) ht hne (x.inv hy.reach j) hR with h | ⟨h1, h2⟩
    · left
      refine ⟨j, hij, by omega, ?_⟩
      rcases h with h | h <;> rw [he, h] <;> simp
    · right
      rw [if_pos hL] at h2
      exact ⟨⟨by omega, h1⟩, h2⟩
  · intro i' h
    exact hy.muRel t i' h
  · intro j ⟨_, hR⟩ _
    obtain ⟨j', h1, h2, _⟩ := next_move x hy.weak (wakeB_ready hR)
    exact ⟨j', h1, h2⟩

theorem inWake_cases {x : Thr} (h : inWake x = true) :
    x.loc.wakeB = true ∨ x.loc = .sLd ∨ (x.loc.spinLoop = true ∧ x.cont = .sig) := by
  unfold inWake at h
  cases hl : x.loc <;> simp_all [Loc.wakeB, Loc.spinLoop]

theorem spin_ready {s : State} {t : Tid} (h : (s.thr t).loc.spinLoop = true) : Ready s t := by
  refine ⟨?_, ?_, ?_⟩ <;> cases hl : (s.thr t).loc <;> simp_all [Loc.spinLoop, Loc.foreign, Loc.asleep]

/-- A waker in the test-and-set loop gets the spinlock: it reaches phase B. -/
theorem spin_sig_acquires (x : Exec cfg s0) (hy : Hyps x) {t : Tid} {i : Nat}
    (hl : ((x.ρ i).thr t).loc.spinLoop = true) (hc : ((x.ρ i).thr t).cont = .sig) :
    ∃ j, i ≤ j ∧ ((x.ρ j).thr t).loc.wakeB = true := by
  have key : ∀ d, (∃ j, i ≤ j ∧ ((x.ρ j).thr t).loc.wakeB = true) ∨
      (((x.ρ (i + d)).thr t).loc.spinLoop = true ∧ ((x.ρ (i + d)).thr t).cont = .sig) := by
    intro d
    induction d with
    | zero => exact .inr ⟨hl, hc⟩
    | succ d ih =>
      rcases ih with h | ⟨h1, h2⟩
      · exact .inl h
      · by_cases hm : Moves x t (i + d)
        · obtain ⟨e, he, ht, hne⟩ := hm
          rcases spin_sig_own (x.next_some he) ht hne h1 h2 with h | h
          · exact .inr h
          · exact .inl ⟨i + d + 1, by omega, h⟩
        · have := frozen x hm (spin_ready h1)
          right
          rw [show i + (d + 1) = i + d + 1 by omega, this]
          exact ⟨h1, h2⟩
  obtain ⟨j, hj, hns⟩ := spin_exits x hy.reach hy.weak hy.spin t i
  obtain ⟨d, rfl⟩ : ∃ d, j = i + d := ⟨j - i, by omega⟩
  rcases key d with h | ⟨h, _⟩
  · exact h
  · rw [h] at hns; cases hns

/-- (1) Every nsync_cv_signal / nsync_cv_broadcast call returns. -/
theorem waker_returns (x : Exec cfg s0) (hy : Hyps x) {t : Tid} {i : Nat}
    (hw : inWake ((x.ρ i).thr t) = true) :
    ∃ j, i ≤ j ∧ (x.σ j = some (.retSignal t) ∨ x.σ j = some (.retBroadcast t)) := by
  rcases inWake_cases hw with h | h | ⟨h1, h2⟩
  · exact wakerB_returns x hy h
  · have hrd : Ready (x.ρ i) t := by
      refine ⟨?_, ?_, ?_⟩ <;> simp [h, Loc.foreign, Loc.asleep]
    obtain ⟨j, hj, ⟨e, he, ht, hne⟩, hthr⟩ := next_move x hy.weak hrd
    rcases sLd_own (x.next_some he) ht hne (by rw [hthr]; exact h) with h' | ⟨h1, h2⟩
    · obtain ⟨j', h3, h4⟩ := wakerB_returns x hy (t := t) (i := j + 1) (by simp [h', Loc.wakeB])
      exact ⟨j', by omega, h4⟩
    · obtain ⟨j1, h3, h4⟩ := spin_sig_acquires x hy (t := t) (i := j + 1) (by simp [h1, Loc.spinLoop]) h2
      obtain ⟨j', h5, h6⟩ := wakerB_returns x hy h4
      exact ⟨j', by omega, h6⟩
  · obtain ⟨j1, h3, h4⟩ := spin_sig_acquires x hy h1 h2
    obtain ⟨j', h5, h6⟩ := wakerB_returns x hy h4
    exact ⟨j', by omega, h6⟩

end NsyncVerif.CvFix
