/-
  Layer `CvFix`, liveness: `WaitHyps` for a concrete execution that ends quiescent.  A record that no
  event of a trace mentions stays idle (`idle_stable`, `run_idle`), so the hypotheses that quantify
  over all records (`TransferFair`, `PostKept`) reduce to decidable facts about the finitely many
  records of the trace.
-/
import NsyncVerif.Proofs.CvFixFairWaitDone

namespace NsyncVerif.CvFix

/-- The record an event names. -/
def Event.rid : Event → Option Rid
  | .recLd _ _ r _ | .recSt _ _ r _ _ | .recCas _ _ r _ _ _ _ | .wInit _ r | .nwInit _ r
  | .fLd _ r _ _ | .fSt _ r _ _ | .fCas _ r _ _ _ _ _ => some r
  | _ => none

/-- An idle record stays idle under every event that does not name it. -/
theorem idle_stable {cfg : Config} {s s' : State} {e : Event} {r : Rid} (htr : Tr cfg s e s')
    (hi : Inv s) (hst : (s.recs r).stat = .idle) (hne : e.rid ≠ some r) : (s'.recs r).stat = .idle := by
  have other : ∀ (q : Rid) (v : Rec) (s1 : State), r ≠ q → s1.recs = s.recs →
      ((s1.setRec q v).recs r).stat = .idle := by
    intro q v s1 hq h1; simp only [setRec_recs, h1]; rw [if_neg hq]; exact hst
  have keep : ∀ (q : Rid) (v : Rec) (s1 : State), (r = q → v.stat = .idle) → s1.recs = s.recs →
      ((s1.setRec q v).recs r).stat = .idle := by
    intro q v s1 hq h1; simp only [setRec_recs, h1]
    split
    · rename_i h; exact hq h
    · exact hst
  cases htr with
  | same e h hna => exact hst
  | tick ns h => exact hst
  | semOther e sem' h hopen => exact hst
  | loc h => exact hst
  | acq t0 exp new obs o n hl0 hexp hw he ho hn hnew =>
    rw [afterAcquire_recs]
    · exact hst
    · intro hm; have := (hi.a.qMem _).mp hm; rw [hst] at this; cases this
    · intro hc he'
      have hp := ((hi.a.thr t0).prep (by simp [waitPrep, hl0, show (s.thr t0).cont = .waitEnq from hc])).1
      rw [← he', hst] at hp; cases hp
  | relWait t0 new obs n hl0 hh hnew hn hsp =>
    exact keep _ _ { s with word := n, holder := none, seq := s.seq + 1 } (fun h => by rw [← h]; exact hst) rfl
  | relWait2 t0 new obs n hl0 hh hnew hn hsp => exact hst
  | relSig t0 site new obs n hl0 hs hh hnew hn hsp => exact hst
  | relEnq t0 new obs n hl0 hh hnew hn hsp =>
    exact keep _ _ { s with word := n, holder := none, seq := s.seq + 1 } (fun h => by rw [← h]; exact hst) rfl
  | relDeq t0 new obs n hl0 hh hnew hn hsp =>
    exact keep _ _ { s with word := n, holder := none } (fun h => by rw [← h, hst]) rfl
  | relDeqW t0 new obs n hl0 hh hnew hn hsp => exact hst
  | relDbg t0 new obs n hl0 hh hnew hn hsp => exact hst
  | wHeadExit t0 q y hy hl0 hr hw =>
    exact keep _ _ { s with bad := s.bad || (s.recs q).stat.registered } (fun _ => rfl) rfl
  | wCmpEq t0 q obs hl0 hr ho he =>
    exact other _ _ { s with queue := s.queue.erase q, bad := s.bad || decide ((s.recs q).stat ≠ RStat.queued) }
      (fun h => hne (by rw [h]; rfl)) rfl
  | deqLdQueued t0 q obs hl0 hr hw hq =>
    exact other _ _ { s with queue := s.queue.erase q } (fun h => hne (by rw [h]; rfl)) rfl
  | deqSpinExit t0 q hl0 hr hw => exact other _ _ s (fun h => hne (by rw [h]; rfl)) rfl
  | wSt1 t0 q obs hl0 hm hst0 => exact other _ _ s (fun h => hne (by rw [h]; rfl)) rfl
  | wClr t0 q obs hl0 hr => exact other _ _ s (fun h => hne (by rw [h]; rfl)) rfl
  | wake t0 q obs hl0 hr => exact other _ _ s (fun h => hne (by rw [h]; rfl)) rfl
  | enqSt t0 q obs hl0 hm hst0 ho he =>
    exact other _ _ { s with queue := s.queue ++ [q] } (fun h => hne (by rw [h]; rfl)) rfl
  | deqSt t0 q obs hl0 hr => exact other _ _ s (fun h => hne (by rw [h]; rfl)) rfl
  | wRmCasOk t0 q exp new obs hl0 hr hn ho he => exact other _ _ s (fun h => hne (by rw [h]; rfl)) rfl
  | sRcCasOk t0 site q exp new obs hl0 hr hn ho he =>
    exact other _ _ s (fun h => hne (by rw [h]; rfl)) rfl
  | muMode t0 obs lt hl0 hlt => exact keep _ _ s (fun h => by rw [← h]; exact hst) rfl
  | wwCasOk t0 exp new obs f rest hl0 hlist =>
    dsimp only
    split
    · rename_i hc
      exfalso
      have hm := transferSet_subset _ _ _ _ (List.contains_iff_mem.mp hc)
      have := (hi.a.lMem t0 _).mp hm
      rw [hst] at this; cases this
    · exact hst
  | semVWake t0 k q q' hl0 hc =>
    exact keep _ _ { s with sem := updS s.sem k (vCount cfg (s.sem k)) } (fun h => by rw [← h]; exact hst) rfl
  | semPdRetOkW t0 k hl0 => exact hst
  | semPdRetOkC t0 k hl0 => exact hst
  | wInit t0 q h hm hst0 => exact other _ _ s (fun h => hne (by rw [h]; rfl)) rfl
  | nwInit t0 q h hm hst0 => exact other _ _ s (fun h => hne (by rw [h]; rfl)) rfl
  | fStW t0 q new h hf => exact other _ _ s (fun h => hne (by rw [h]; rfl)) rfl
  | fCasOk t0 q exp new obs h hf hn ho he => exact other _ _ s (fun h => hne (by rw [h]; rfl)) rfl

/-- A record that a trace from a reachable state never names stays idle. -/
theorem run_idle {cfg : Config} {r : Rid} : ∀ (evs : List Event) (s s' : State), Reachable cfg s →
    (s.recs r).stat = .idle → (∀ e ∈ evs, e.rid ≠ some r) → run cfg s evs = .ok s' →
    (s'.recs r).stat = .idle := by
  intro evs
  induction evs with
  | nil => intro s s' _ h _ hr; simp only [run, Except.ok.injEq] at hr; subst hr; exact h
  | cons e es ih =>
    intro s s' hreach h hne hr
    simp only [run] at hr
    cases hs : step cfg s e with
    | error m => rw [hs] at hr; cases hr
    | ok s1 =>
      rw [hs] at hr
      exact ih s1 s' (reachable_step hreach hs)
        (idle_stable (step_tr hs) (inv_reachable hreach) h (hne e (by simp)))
        (fun e' he' => hne e' (by simp [he'])) hr

/-- All records the events of the list name are pooled waiters `w k` with `k < n`. -/
def ridsBelow (n : Nat) (evs : List Event) : Bool :=
  evs.all fun e => match e.rid with
    | some (.w k) => decide (k < n)
    | some _ => true
    | none => true

theorem ridsBelow_ne {n : Nat} {evs : List Event} (h : ridsBelow n evs = true) {k : Nat}
    (hk : n ≤ k) : ∀ e ∈ evs, e.rid ≠ some (.w k) := by
  intro e he hte
  have := List.all_eq_true.1 h e he
  rw [hte] at this
  have h3 : k < n := by simpa using this
  exact absurd h3 (Nat.not_lt.2 hk)

variable {cfg : Config}

/-- `WaitHyps` for a finite accepted trace from `init` followed by idling, in which all threads
    return and only the pooled waiters `w k`, `k < n`, are named: it is enough to check, for these
    finitely many records and the finitely many states of the trace, that none is ever transferred
    and that a woken and posted record whose owner sleeps has a positive count. -/
theorem waitHyps_of_trace (evs : List Event) (sf : State) (hrun : run cfg init evs = .ok sf)
    (hidle : ∀ t, (sf.thr t).loc = .idle) (n : Nat) (hrid : ridsBelow n evs = true)
    (hx : ∀ j, j ≤ evs.length → ∀ k, k < n →
      ((stateFrom cfg init (evs.take j)).recs (.w k)).stat ≠ .xfer)
    (hp : ∀ j, j ≤ evs.length → ∀ k, k < n →
      ((stateFrom cfg init (evs.take j)).recs (.w k)).stat = .woken →
      ((stateFrom cfg init (evs.take j)).recs (.w k)).posted = true →
      ((stateFrom cfg init (evs.take j)).thr ((stateFrom cfg init (evs.take j)).recs (.w k)).owner).loc.asleep = true →
      0 < (stateFrom cfg init (evs.take j)).sem k) :
    WaitHyps (traceExec cfg init evs sf hrun) := by
  have hr0 : Reachable cfg init := ⟨[], rfl⟩
  have hst : ∀ j, (traceExec cfg init evs sf hrun).ρ j = stateFrom cfg init (evs.take (min j evs.length)) := by
    intro j
    show stateFrom cfg init (evs.take j) = _
    by_cases h : j ≤ evs.length
    · rw [Nat.min_eq_left h]
    · rw [Nat.min_eq_right (by omega), stateFrom_all hrun (by omega), stateFrom_all hrun (Nat.le_refl _)]
  have htail : ∀ j, evs.length ≤ j → ∀ t, (((traceExec cfg init evs sf hrun).ρ j).thr t).loc = .idle := by
    intro j hj t; rw [(traceExec_tail hrun hj).1]; exact hidle t
  have hbig : ∀ j k, n ≤ k → (((traceExec cfg init evs sf hrun).ρ j).recs (.w k)).stat = .idle := by
    intro j k hk
    rw [hst]
    exact run_idle _ _ _ hr0 rfl
      (fun e he => ridsBelow_ne hrid hk e (List.mem_of_mem_take he)) (stateFrom_ok hrun _)
  have hq := hyps_of_quiescent (traceExec cfg init evs sf hrun) hr0 evs.length htail
  have leaves : ∀ t i, (((traceExec cfg init evs sf hrun).ρ i).thr t).loc ≠ .idle →
      ∃ j, i ≤ j ∧ (((traceExec cfg init evs sf hrun).ρ j).thr t).loc ≠
        (((traceExec cfg init evs sf hrun).ρ i).thr t).loc := by
    intro t i h
    exact ⟨max i evs.length, by omega, by rw [htail _ (by omega) t]; exact fun h' => h h'.symm⟩
  refine { toHyps := hq, sem := ?_, mutex := ?_, alloc := ?_, cancel := ?_, transfer := ?_,
           kept := ?_, finSp := ?_ }
  · intro t i h
    have := (h (max i evs.length) (by omega)).1
    rw [htail _ (by omega) t] at this; cases this
  · intro t i h
    exact leaves t i (by intro h'; rw [h'] at h; cases h)
  · intro t i h
    obtain ⟨j, h1, h2⟩ := leaves t i (by rw [h]; simp)
    exact ⟨j, h1, by rw [h] at h2; exact h2⟩
  · intro t i h
    exact leaves t i (by intro h'; rw [h'] at h; cases h)
  · intro k i h
    exfalso
    by_cases hk : k < n
    · rw [hst] at h; exact hx _ (Nat.min_le_right _ _) k hk h
    · rw [hbig i k (by omega)] at h; cases h
  · intro j k h1 h2 h3 _
    by_cases hk : k < n
    · rw [hst] at h1 h2 h3 ⊢; exact hp _ (Nat.min_le_right _ _) k hk h1 h2 h3
    · rw [hbig j k (by omega)] at h1; cases h1
  · intro t
    refine ⟨evs.length, fun j k hj he => ?_⟩
    rw [(traceExec_tail hrun hj).2] at he; cases he

end NsyncVerif.CvFix
