import NsyncVerif.Proofs.MuCInv11St
/-
  MuC, Inv11: API boundaries, condition evaluations, semaphores, environment; reachability of Inv10 and Inv11.
-/
namespace NsyncVerif.MuC

theorem reachable_inv10 {cfg : Cfg} {s : State} (h : Reachable cfg s) : Inv10 s :=
  reachable_induction (P := Inv10) inv10_init
    (fun _ _ _ hr hp hs =>
      have ha := reachable_inv_all hr
      inv10_step ha.1 ha.2.1 ha.2.2.1 (reachable_inv_all (reachable_step hr hs)).2.2.1 (reachable_inv9 hr) hp hs) s h

/-- the goal about `t`'s responsibility at an API boundary: it owns a share afterwards, or it was not responsible. -/
macro "resp_api" t:ident h1:ident heq:ident : tactic => `(tactic|
  (intro _ hr
   first
   | (right; left; simp [shareOf, tshare, setHeld, setFn, pcShare]; done)
   | (exfalso
      have hheld := ($h1).held_none (t := $t) (by rw [$heq:ident]; simp)
      rcases hr with a | a | a
      · (simp [shareOf, tshare, hheld, $heq:ident, pcShare] at a; try simp_all)
      · (revert a; not_strong $heq)
      · (rw [$heq:ident] at a; simp [PC.timedOut] at a))))

theorem inv11_stepCall {s s' : State} {t : Tid} {a : Api} (h1 : Inv1 s) (h : Inv11 s)
    (hs : stepCall s t a = .ok s') : Inv11 s' := by
  unfold stepCall at hs
  split at hs
  · rename_i heq
    cases a with
    | lock | rlock | trylock | rtrylock =>
      dsimp only at hs
      split at hs
      · cases hs; inv11_local t h1 h heq
      · cases hs
    | unlock | runlock | unlockNw =>
      dsimp only at hs
      split at hs
      · cases hs
        inv11_loc2 t h1 h heq
        · left; pc11 heq
        · intro _ _; right; left; simp [shareOf, tshare, setFn, pcShare]
      · cases hs
    | wait cnd dl note =>
      dsimp only at hs
      repeat' split at hs
      all_goals first
        | (cases hs; done)
        | (cases hs
           inv11_loc2 t h1 h heq
           · left; pc11 heq
           · intro _ _; right; left; simp [shareOf, tshare, setFn, pcShare])
  · cases hs

theorem inv11_stepRet {s s' : State} {t : Tid} {a : Api} {res : Res} (h1 : Inv1 s) (h : Inv11 s)
    (hs : stepRet s t a res = .ok s') : Inv11 s' := by
  unfold stepRet at hs
  split at hs
  all_goals first
    | (cases hs; done)
    | (rename_i heq
       repeat' split at hs
       all_goals first
         | (cases hs; done)
         | (cases hs
            try simp only [setHeld]
            inv11_loc2 t h1 h heq
            · left; pc11 heq
            · resp_api t h1 heq))
    | skip
  rename_i c cit cnd dl note o' heq
  repeat' split at hs
  all_goals first
    | (cases hs; done)
    | skip
  all_goals
    (cases hs
     cases hcw : c.w <;> simp only [dropW, setHeld] <;>
     (inv11_loc2 t h1 h heq
      · left; pc11 heq
      · resp_api t h1 heq))

theorem inv11_stepCond {s s' : State} {t : Tid} {fn : CFn} {k : Nat} {res : Bool} (h1 : Inv1 s)
    (h : Inv11 s) (hs : stepCond s t fn k res = .ok s') : Inv11 s' := by
  unfold stepCond at hs
  dsimp only at hs
  split at hs
  · rename_i c heq
    split at hs
    · cases hs
    · rename_i cd hcd
      split at hs
      · cases hs
      · split at hs
        · cases hs
        · cases hs
          rw [mwLoop_eq]
          simp only [loopPc]
          split
          · inv11_local t h1 h heq
          · inv11_local t h1 h heq
  · rename_i r sc heq
    have hok1 := h1.pcok t; rw [heq] at hok1
    split at hs
    · cases hs
    · split at hs
      · cases hs
      · split at hs
        · cases hs
        · split at hs
          · cases hs
          · obtain ⟨hf, p, hpc, hsc⟩ := afterEval_frame hs hok1.2.1
            exact Inv11.of_strong t (Or.inl (scanPc_unl (r := r) (late := sc.late) (by rw [hpc]; simpa using hsc)))
  · cases hs

/-- Nothing the invariant speaks about changes. -/
theorem Inv11.env {s s' : State} (h : Inv11 s) (hq : s'.queue = s.queue)
    (hwr : ∀ x, (s'.wr x).cond = (s.wr x).cond) (hd : s'.data = s.data) (hpc : s'.pc = s.pc)
    (hh : s'.held = s.held) (hw : s'.word = s.word) (hnv : s'.nwViol = s.nwViol) : Inv11 s' :=
  Inv11.localPc 0 h (fun k hk => (queued_congr hq (by intro u; rw [hpc]) k).1 hk) (fun x _ => hwr x) hd (by rw [hnv]; exact id)
    (by intro u _; rw [hpc]) (by intro u; rw [hh]) (by rw [hw]; exact id) (by rw [hpc]; exact fun _ a => Or.inl a)
    (by rw [hpc]; exact ⟨⟨id, id, fun k a b => Or.inl ⟨a, b⟩⟩, id, fun a => Or.inl a⟩)

theorem inv11_dataW {s : State} {t : Tid} {x : Nat} {v : Int} (h : Inv11 s) (ht : s.held t = some .W) :
    Inv11 { s with data := setFn s.data x v } := by
  have hQ : ∀ k, Queued { s with data := setFn s.data x v } k ↔ Queued s k := fun k => Iff.rfl
  refine ⟨?_, ?_, ?_⟩
  · intro hd
    obtain ⟨w, hw⟩ := h.hd hd
    exact ⟨w, hw⟩
  · intro u old ho hod
    obtain ⟨w, hw⟩ := h.hdm u old ho hod
    exact ⟨w, hw⟩
  · intro _ _
    exact ⟨t, Or.inl (by simp [shareOf, tshare, ht])⟩

theorem inv11_step {cfg : Cfg} {s s' : State} {e : Event} (h1 : Inv1 s) (h3 : Inv3 s) (h4 : Inv4 s) (h5 : Inv5 s) (h7 : Inv7 s)
    (h8 : Inv8 s) (h9 : Inv9 s) (h10 : Inv10 s) (h : Inv11 s) (hs : step cfg s e = .ok s') : Inv11 s' := by
  cases e with
  | call t a => exact inv11_stepCall h1 h hs
  | ret t a res => exact inv11_stepRet h1 h hs
  | ld t o loc obs => exact inv11_stepLd h1 h3 h hs
  | st t o loc new obs => exact inv11_stepSt h1 h3 h4 h hs
  | cas t o loc exp new obs ok =>
    have hs' : stepCas s t o loc exp new obs ok = .ok s' := hs
    cases hpc : s.pc t <;>
      first
      | exact inv11_stepCasA h1 h (by rw [hpc]; trivial) hs'
      | exact inv11_stepCasB h1 h3 h4 h5 h7 h8 h9 h10 h (by rw [hpc]; trivial) hs'
      | exact inv11_stepCasC h1 h3 h4 h (by rw [hpc]; trivial) hs'
      | (simp [stepCas, hpc] at hs')
  | cond t fn k res => exact inv11_stepCond h1 h hs
  | semPEnter t k =>
    simp only [step] at hs
    split at hs
    · rename_i heq; ld_case11 t h1 h heq hs
    · cases hs
  | semPRet t k =>
    simp only [step] at hs
    split at hs
    · rename_i heq; ld_case11 t h1 h heq hs
    · cases hs
  | semPdEnter t k dl =>
    simp only [step] at hs
    split at hs
    · rename_i heq; ld_case11 t h1 h heq hs
    · cases hs
  | semPdRet t k timedout =>
    simp only [step] at hs
    split at hs
    · rename_i heq; ld_case11 t h1 h heq hs
    · cases hs
  | semV t k =>
    simp only [step] at hs
    split at hs
    · rename_i r k' rest heq
      have hok := h1.pcok t; rw [heq] at hok
      split at hs
      · cases hs
      · cases hs
        rw [afterFin_eq]
        refine Inv11.localPc t h ?_ (by intro x _; simp [semPost, setFn]; split <;> simp_all) (by simp) (by simp)
          (by intro u hu; simp [setFn, hu]) (by intro u; simp [semPost]) (by simp [semPost]) ?_ ?_
        · intro x hx
          refine (queued_same (t := t) (by simp) (by intro u hu; simp [setFn, hu]) ?_ x).1 hx
          simp only [semPost_pc, setPc_pc, setFn_same, heq, finPc_scan]; rfl
        · intro o' ho; simp only [semPost_pc, setPc_pc, setFn_same, finPc_mtOld] at ho; cases ho
        · simp only [semPost_pc, setPc_pc, setFn_same, heq]
          refine ⟨⟨by simp [PC.unl], by simp [PC.woken], ?_⟩, by simp [pcShare], by simp [PC.timedOut]⟩
          intro x a _
          left
          exact ⟨by rw [finPc_waitRec]; exact a, finPc_hlRec r _ hok⟩
    · cases hs
  | envV k =>
    simp only [step] at hs; cases hs
    exact h.env (by simp) (by intro x; simp [semPost, setFn]; split <;> simp_all) (by simp) (by simp) (by simp [semPost]) (by simp [semPost])
      (by simp [semPost])
  | envSem k n =>
    simp only [step] at hs
    split at hs
    · cases hs; exact h.env rfl (by intro x; simp [setFn]; split <;> simp_all) rfl rfl rfl rfl rfl
    · cases hs
  | dataW t x v =>
    simp only [step] at hs
    split at hs
    · rename_i ht; cases hs; exact inv11_dataW h ht
    · cases hs
  | dataR t x v =>
    simp only [step] at hs
    split at hs
    · cases hs; exact h
    · cases hs
  | tick n =>
    simp only [step] at hs
    split at hs
    · cases hs; exact h.env rfl (fun _ => rfl) rfl rfl rfl rfl rfl
    · cases hs
  | noteSeen t =>
    simp only [step] at hs
    split at hs
    · rename_i heq; ld_case11 t h1 h heq hs
    · cases hs
  | noteNotify t =>
    simp only [step] at hs
    split at hs
    · rename_i heq; ld_case11 t h1 h heq hs
    · rename_i heq; ld_case11 t h1 h heq hs
    · cases hs

theorem reachable_inv11 {cfg : Cfg} {s : State} (h : Reachable cfg s) : Inv11 s :=
  reachable_induction (P := Inv11) inv11_init
    (fun _ _ _ hr hp hs =>
      have ha := reachable_inv_all hr
      inv11_step ha.1 ha.2.1 ha.2.2.1 ha.2.2.2.1 ha.2.2.2.2.2 (reachable_inv8 hr) (reachable_inv9 hr) (reachable_inv10 hr) hp hs) s h

end NsyncVerif.MuC
