/-
  Proofs/WaitNSem9.lean — the scan of the do-while of wait.c: `TI` across the end of a
  `ready_time (v, &nw[k])` call (`rtDone … .loop`), the start of a new scan after a successful P, and
  the landing lemmas for `loopNext`.
  The scan invariant of C11_no_oversleep is here: if the call reported "not ready" (`time > 0`) although the
  record's `waiting` is 0 and its object is ready, the object became ready after the decisive load — and then the
  token / pending post is already accounted for (`hk`); otherwise `min_ntime` becomes 0 and the loop is left.
-/
import NsyncVerif.Proofs.WaitNSem8

set_option linter.unusedSimpArgs false
set_option linter.unusedVariables false

namespace WaitN

/-! ### order on deadlines -/

theorem dle_refl (a : Deadline) : dle a a := by
  cases a <;> simp [dle, dlt]

theorem dle_of_dlt_dle {t m d : Deadline} (h1 : dlt t m = true) (h2 : dle m d) : dle t d := by
  cases t <;> cases m <;> cases d <;> simp [dle, dlt] at h1 h2 ⊢
  omega

theorem dle_trans {a b c : Deadline} (h1 : dle a b) (h2 : dle b c) : dle a c := by
  cases a <;> cases b <;> cases c <;> simp [dle, dlt] at h1 h2 ⊢
  omega

theorem dle_of_dlt {a b : Deadline} (h : dlt a b = true) : dle a b := by
  cases a <;> cases b <;> simp [dle, dlt] at h ⊢
  omega

theorem not_dlt_of_dlePast {time m : Deadline} (ht : dlePast time = false) (hm : dlePast m = true) : dlt time m = false := by
  cases time <;> cases m <;> simp [dlePast, dlt] at ht hm ⊢
  omega

/-- a deadline that has passed is below every later-or-equal one -/
theorem expiredB_of_dle {a b : Deadline} {now : Nat} (h : dle a b) (hb : expiredB b now = true) : expiredB a now = true := by
  cases a <;> cases b <;> simp [dle, dlt, expiredB] at h hb ⊢
  omega

/-! ### where `loopNext` lands -/

theorem seen_loopNext (s : State) {f : Frame} {k i : Nat} (hk : k ≤ i) (hi : i < f.count) : Seen s (loopNext f k) f i := by
  right
  have hkc : k < f.count := Nat.lt_of_le_of_lt hk hi
  unfold loopNext
  rw [if_pos hkc]
  obtain ⟨o, ho⟩ := objs_get_of_lt hkc
  rw [ho]
  cases o with
  | cv c => exact hk
  | ctr c => exact hk
  | note n =>
    show k < i ∨ (k = i ∧ ∀ n, f.objs[k]? = some (.note n) → ndSees s n .ld0)
    rcases Nat.lt_or_ge k i with h | h
    · exact .inl h
    · exact .inr ⟨by omega, fun _ _ => trivial⟩

theorem scanned_loopNext {f : Frame} {k k' : Nat} (hk : k ≤ f.count) (h : scanned (loopNext f k) f = some k') : k' = k := by
  unfold loopNext at h
  split at h
  · rename_i hkc
    obtain ⟨o, ho⟩ := objs_get_of_lt hkc
    rw [ho] at h
    cases o <;> simp [scanned] at h <;> exact h.symm
  · rename_i hkc
    have : k = f.count := by omega
    unfold scanEnd at h
    split at h
    · rw [scanned_none_of_notSleep (inSleep_deqNext f 0)] at h; cases h
    · simp [scanned] at h; omega

theorem loopNext_ne_pdEnter_of_past {f : Frame} {k : Nat} (h : dlePast f.min = true) : loopNext f k ≠ .wPdEnter := by
  unfold loopNext
  split
  · split <;> simp
  · unfold scanEnd; rw [if_pos h]
    unfold deqNext; split
    · split <;> simp
    · unfold finNext; split
      · simp
      · unfold relockNext; split <;> simp

/-- below the scan position only `min_ntime <= 0` counts as "seen" -/
theorem seen_below {s : State} {p : PC} {f : Frame} {k i : Nat} (hsc : scanned p f = some k) (hi : i < k)
    (h : Seen s p f i) : dlePast f.min = true := by
  rcases h with h | h
  · exact h
  · exfalso
    cases p with
    | wCvRT k0 => simp [scanned] at hsc; subst hsc; exact absurd h (by omega)
    | wCtrRT u k0 l =>
      cases u with
      | loop => simp [scanned] at hsc; subst hsc; exact absurd h (by omega)
      | _ => exact h
    | wND u k0 st =>
      cases u with
      | loop =>
        simp [scanned] at hsc; subst hsc
        rcases (show k0 < i ∨ (k0 = i ∧ ∀ n, f.objs[k0]? = some (.note n) → ndSees s n st) from h) with h | ⟨h, _⟩ <;> omega
      | _ => exact h
    | _ => exact h

theorem sReady_congr {s s' : State} {f f' : Frame} (hobj : s'.obj = s.obj) (hrcd : s'.rcd = s.rcd) (hnow : s'.now = s.now)
    (hobjs : f'.objs = f.objs) (hrecs : f'.recs = f.recs) (i : Nat) : sReady s' f' i ↔ sReady s f i := by
  unfold sReady noteReady ctrZero
  rw [hobj, hrcd, hnow, hobjs, hrecs]

theorem binStep_other {b : SemId → Bool} {t : Tid} {e : Ev} (hv : ∀ j, isV e j = false) (hp : ∀ j, isPret e j = false) :
    binStep b (.thr t e) = b := by
  funext j; simp [binStep, hv, hp]

/-! ### the end of a `ready_time (v, &nw[k])` call inside the do-while -/

theorem ti_rtDone_loop {s s' : State} {b : SemId → Bool} {t : Tid} {e : Ev} {k : Nat} {time : Deadline}
    (hr : Reachable s) (sb : SB s) (hs : stepThr s t e = .ok s') (ti : TI s b t)
    (hsl : inSleep (s.pc t) = true) (hsc : scanned (s.pc t) (s.fr t) = some k) (hlt : k < (s.fr t).count)
    (hnp : ∀ j, s.pc t ≠ .wPdWait j)
    (hk : dlePast time = false → ∀ r, (s.fr t).recs[k]? = some r → (s.rcd r).waiting = false → sReady s (s.fr t) k →
            Seen s (s.pc t) (s.fr t) k → dlePast (s.fr t).min = true)
    (htime : dlePast time = false → ∀ n, (s.fr t).objs[k]? = some (.note n) → time = (s.obj (.note n)).expiry)
    (h : rtDone s t .loop k time = .ok s') : TI s' (binStep b (.thr t e)) t := by
  have hil := inLoop_of_inSleep hsl (linv_of_reachable hr t)
  have hph := inPhase_of_inSleep hsl
  simp only [rtDone] at h
  -- the new frame
  generalize hf' : (if dlePast time = true then { s.fr t with min := some 0, who := some k, why := Why.readyAt k }
      else if dlt time (s.fr t).min = true then { s.fr t with min := time, who := some k } else s.fr t) = f' at h
  cases h
  have frecs : f'.recs = (s.fr t).recs := by subst hf'; split <;> (try split) <;> rfl
  have fobjs : f'.objs = (s.fr t).objs := by subst hf'; split <;> (try split) <;> rfl
  have fdl : f'.dl = (s.fr t).dl := by subst hf'; split <;> (try split) <;> rfl
  have fcount : f'.count = (s.fr t).count := by unfold Frame.count; rw [fobjs]
  have fmin1 : dlePast time = true → dlePast f'.min = true := by
    intro ht; subst hf'; rw [if_pos ht]; rfl
  have fmin2 : dlePast time = false → dlePast (s.fr t).min = true → f'.min = (s.fr t).min := by
    intro ht hm; subst hf'
    rw [if_neg (by rw [ht]; simp), if_neg (by rw [not_dlt_of_dlePast ht hm]; simp)]
  have fmin3 : dlePast time = false → dle f'.min (s.fr t).min ∧ dle f'.min time := by
    intro ht; subst hf'
    rw [if_neg (by rw [ht]; simp)]
    split
    · rename_i hd; exact ⟨dle_of_dlt hd, dle_refl _⟩
    · rename_i hd; exact ⟨dle_refl _, by simpa [dle] using hd⟩
  refine ti_move hr sb hs ti hph (by simpa using frecs) (by simpa using fobjs) (fun j hj => absurd hj (hnp j)) ?_ ?_ ?_ ?_
  · intro i r _ _ _; exact .inl (wrAt_of_inSleep hsl i)
  · intro _ i r _; exact wrAt_of_inSleep hsl i
  · intro hsl' i r hri hw' hrd
    simp only [setPc_pc, setPc_fr, setFr_fr, if_true, setPc_rcd, setFr_rcd] at hw' hrd ⊢
    have hi : i < (s.fr t).count := by
      have := (List.getElem?_eq_some_iff.1 hri).1
      rw [hil.full] at this; exact this
    by_cases ht : dlePast time = true
    · exact .inl (.inl (fmin1 ht))
    · have ht' : dlePast time = false := by simpa using ht
      rcases Nat.lt_or_ge k i with hki | hki
      · left
        have := seen_loopNext ((s.setFr t f').setPc t (loopNext f' (k + 1))) (f := f') (k := k + 1) (i := i) (by omega)
          (by rw [fcount]; exact hi)
        exact this
      · right
        refine ⟨hsl, fun hseen => ?_⟩
        have hm : dlePast (s.fr t).min = true := by
          rcases Nat.lt_or_ge i k with hik | hik
          · exact seen_below hsc hik hseen
          · have : i = k := by omega
            subst this
            have hrd0 : sReady s (s.fr t) i :=
              (sReady_congr (s' := (s.setFr t f').setPc t (loopNext f' (i + 1))) (s := s) rfl rfl rfl fobjs frecs i).1 hrd
            exact hk ht' r hri hw' hrd0 hseen
        left; rw [fmin2 ht' hm]; exact hm
  · intro k' hk' hm'
    simp only [setPc_pc, setPc_fr, setFr_fr, if_true, setPc_obj, setFr_obj] at hk' hm' ⊢
    have hk1 : k' = k + 1 := scanned_loopNext (by rw [fcount]; omega) hk'
    subst hk1
    have ht' : dlePast time = false := by
      cases ht : dlePast time with
      | false => rfl
      | true => rw [fmin1 ht] at hm'; cases hm'
    have hm0 : dlePast (s.fr t).min = false := by
      cases hm : dlePast (s.fr t).min with
      | false => rfl
      | true => rw [fmin2 ht' hm, hm] at hm'; cases hm'
    obtain ⟨h1, h2⟩ := ti.sd k hsc hm0
    obtain ⟨m1, m2⟩ := fmin3 ht'
    refine ⟨by rw [fdl]; exact dle_trans m1 h1, fun i n hi hn => ?_⟩
    rw [fobjs] at hn
    rcases Nat.lt_or_ge i k with hik | hik
    · exact dle_trans m1 (h2 i n hik hn)
    · have : i = k := by omega
      subst this
      rw [← htime ht' n hn]; exact m2

/-! ### a new scan after the P has consumed a token -/

theorem ti_startScan {s : State} {b' : SemId → Bool} {t : Tid} {b : SemId → Bool} {j n : Nat} (hr : Reachable s)
    (ti : TI s b t) (hpc : s.pc t = .wPdWait j) : TI (startScan (s.setSem j n) t) b' t := by
  have hl := linv_of_reachable hr t
  rw [hpc] at hl
  have hil : InLoop (s.fr t) := hl.1
  have hfull := hil.full
  refine ⟨fun i r hri hwr hw => ?_, fun hsl i r hri hw => ?_, fun k hk hm => ?_⟩
  · simp only [startScan, setPc_fr, setFr_fr, if_true, setPc_rcd, setFr_rcd, setSem_rcd, setSem_fr] at hri hw
    have := ti.wr i r hri (by rw [hpc]; simp [wrAt, inSleep]) hw
    exact (sReady_congr (s := s) (by simp [startScan]) (by simp [startScan]) (by simp [startScan])
      (by simp [startScan]) (by simp [startScan]) i).2 this
  · right; right
    simp only [startScan, setPc_fr, setFr_fr, if_true, setPc_pc, setSem_fr] at hri ⊢
    apply seen_loopNext _ (Nat.zero_le _)
    have := (List.getElem?_eq_some_iff.1 hri).1
    simp only [Frame.count]; rw [hfull] at this; exact this
  · simp only [startScan, setPc_fr, setFr_fr, if_true, setPc_pc, setSem_fr] at hk hm ⊢
    have hk0 : k = 0 := scanned_loopNext (Nat.zero_le _) hk
    subst hk0
    exact ⟨dle_refl _, fun i n hi _ => absurd hi (Nat.not_lt_zero _)⟩

end WaitN
