import NsyncVerif.Proofs.MuCTLWalk
/-
  MuC, facts about one step: the hint bits of the word (`WordTL`).
-/
namespace NsyncVerif.MuC

macro "word_tl" : tactic => `(tactic|
  (refine ⟨?_, ?_, ?_, ?_, ?_, ?_, ?_⟩ <;>
   (simp_all [PC.wwA, PC.sl?, PC.mtOld, PC.ok12, PC.finOf, PC.unl, PC.ok, PC.ok3, setFn, loopPc, finPc, Ret.pc, mwLoop_eq, afterFin_eq, afterWakes_eq,
      acqWord, addWord, relUncWord, relNwWord, subWord, enqWord, mwEnqWord, mtAcqWord, mtRelWord, finWord, Word.zero,
      SL.entry, SL.fromWait, SL.woken, addShare_wOwner, subShare_wOwner, pcShare]) <;> grind))

theorem wordTL_ld {s s' : State} {t : Tid} {o : Ord} {loc : Loc} {obs : Nat} (h1 : Inv1 s) (h3 : Inv3 s)
    (h : stepLd s t o loc obs = .ok s') : WordTL s s' t := by
  have hok := h1.pcok t
  have hok3 := h3.ok3 t
  walk_ld h => word_tl

end NsyncVerif.MuC
