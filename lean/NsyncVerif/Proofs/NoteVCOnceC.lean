/-
  Layer `Note`: "each `notified` flag is stored at most once".  Part C (invariant `InvF`): a thread
  that is about to store the flag of a note — at note.c/1 after NOTIFIED_TIME (n) > 0 under `n`'s
  lock, or at note.c/7 for the note it is creating — still finds that flag 0.

  Against a concurrent store by another thread: two threads at note.c/1 on the same note both hold
  that note's mutex (`LockInv`: impossible); a thread at note.c/7 is in the early creation phase of
  the note, which no other thread can have in an activation of `note_notify_child` (`InvE` for the
  inner activations; the outermost one is on the argument of an API call, a published note, or on
  the note the thread itself is creating); two threads cannot be creating the same note.
-/
import NsyncVerif.Proofs.NoteVCOnceB

set_option linter.unusedSimpArgs false

namespace Note

def NewPos.pre : NewPos → Bool
  | .lockCall | .lockRet | .ld | .st => true
  | _ => false

/-- The note whose flag the program counter has a claim about. -/
def PC.fnote : PC → Option NoteId
  | .chd .st (f :: _) _ => some f.note
  | .dl _ n _ (.newSelf _ _) => some n
  | .newP pos n _ _ => bif pos.pre then some n else none
  | _ => none

def FClaim (s : State) : PC → Prop
  | .chd .st (f :: _) _ => (s.notes f.note).notified = false
  | .dl pos n nt (.newSelf _ _) => pos.late = true → nt.pos → (s.notes n).notified = false
  | .newP pos n _ _ => pos.pre = true → (s.notes n).notified = false
  | _ => True

def InvF (s : State) : Prop := ∀ t, FClaim s (s.pc t)

theorem InvF.init : InvF Note.init := by intro t; simp [Note.init, FClaim]

theorem FClaim.of_flags {s s' : State} {pc : PC}
    (h : ∀ x, pc.fnote = some x → (s'.notes x).notified = (s.notes x).notified)
    (hc : FClaim s pc) : FClaim s' pc := by
  unfold FClaim at hc ⊢
  split
  · next f _ _ => rw [h f.note (by simp [PC.fnote])]; simpa [FClaim] using hc
  · next pos n nt _ _ =>
    intro h1 h2
    rw [h n (by simp [PC.fnote])]
    simp only [FClaim] at hc
    exact hc h1 h2
  · next pos n _ _ =>
    intro h1
    rw [h n (by simp only [PC.fnote, h1]; rfl)]
    simp only [FClaim] at hc
    exact hc h1
  · trivial

theorem NK.arg_of_not_new {nk : NK} {n : NoteId} (h : nk.isNew = false) : nk.arg n = some n := by
  cases nk with
  | ofApi => rfl
  | ofDeadline dk => cases dk <;> simp [NK.arg, DK.arg] at h ⊢

/-- The note of the innermost activation of `note_notify_child`: past its early creation phase, or
    the note of the outermost activation, which the thread is creating itself or which has been
    published. -/
theorem chd_head {s : State} (hr : Reachable s) {u : Tid} {pos : CPos} {f : Frame}
    {rest : List Frame} {top : Top} (hpc : s.pc u = .chd pos (f :: rest) top) :
    NE s f.note ∨ (s.pc u).creating = some f.note ∨ s.published f.note = true := by
  cases rest with
  | cons g gs =>
    left
    have := hr.invE.claim u
    rw [hpc] at this
    exact this.2 f (by simp [List.dropLast])
  | nil =>
    right
    have hL := hr.inv6.2.2.2.2.1.claim u
    rw [hpc] at hL
    have hf : f.note = top.n := by simpa using hL.2.2.1
    cases hn : top.k.isNew with
    | true => left; rw [hpc, hf]; simp [hn]
    | false =>
      right
      rw [hf]
      exact hr.arg_published (t := u) (by rw [hpc]; exact NK.arg_of_not_new hn)

/-- … hence not a note that ANOTHER thread is in the early phase of creating. -/
theorem chd_head_not_early {s : State} (hr : Reachable s) {u v : Tid} (huv : u ≠ v) {pos : CPos}
    {f : Frame} {rest : List Frame} {top : Top} (hpc : s.pc u = .chd pos (f :: rest) top)
    (hv : (s.pc v).early = some f.note) : False := by
  have hA := hr.inv6.1
  have hcv := early_creating hv
  rcases chd_head hr hpc with h | h | h
  · exact h.2 v hv
  · exact huv (hA.unique u v _ h hcv)
  · rw [(hA.creating v _ hcv).2] at h; cases h

/-- Thread `a` is at a store of the flag of `k`. -/
def Stores (s : State) (a : Tid) (k : NoteId) : Prop :=
  (∃ f rest top, s.pc a = .chd .st (f :: rest) top ∧ f.note = k) ∨
  (∃ p dl, s.pc a = .newP .st k p dl)

/-- No two threads are about to store the same flag. -/
theorem no_conflict {s : State} (hr : Reachable s) {a t : Tid} {k : NoteId} (hne : t ≠ a)
    (ha : Stores s a k) (ht : (s.pc t).fnote = some k) : False := by
  have hA := hr.inv6.1
  have hK := hr.inv6.2.2.2.2.2
  -- what `t` is doing
  have htc : (∃ f rest top, s.pc t = .chd .st (f :: rest) top ∧ f.note = k) ∨
      (s.pc t).early = some k := by
    cases hpc : s.pc t with
    | chd pos stk top =>
      rw [hpc] at ht
      cases pos <;> cases stk <;> simp [PC.fnote] at ht
      exact Or.inl ⟨_, _, _, rfl, ht⟩
    | dl pos n nt dk =>
      rw [hpc] at ht
      cases dk <;> simp [PC.fnote] at ht
      subst ht; right; rfl
    | newP pos n p dl =>
      rw [hpc] at ht
      simp only [PC.fnote] at ht
      cases hp : pos.pre with
      | false => rw [hp] at ht; cases ht
      | true =>
        rw [hp] at ht
        simp at ht; subst ht
        right
        cases pos <;> simp [NewPos.pre] at hp <;> rfl
    | _ => rw [hpc] at ht; simp [PC.fnote] at ht
  rcases ha with ⟨f', rest', top', hpa, hfa⟩ | ⟨p, dl, hpa⟩
  · rcases htc with ⟨f, rest, top, hpt, hft⟩ | hte
    · -- both hold the mutex of `k`
      have h1 : (s.notes k).lockHolder = some t :=
        (hK.iff k t).mpr (by rw [hpt, ← hft]; simp [PC.held])
      have h2 : (s.notes k).lockHolder = some a :=
        (hK.iff k a).mpr (by rw [hpa, ← hfa]; simp [PC.held])
      rw [h1] at h2
      exact hne (Option.some.inj h2)
    · exact chd_head_not_early hr (Ne.symm hne) hpa (hfa ▸ hte)
  · have hae : (s.pc a).early = some k := by rw [hpa]; rfl
    rcases htc with ⟨f, rest, top, hpt, hft⟩ | hte
    · exact chd_head_not_early hr hne hpt (hft ▸ hae)
    · exact hne (hA.unique t a k (early_creating hte) (early_creating hae))

theorem FClaim.afterDeadlinePc {s : State} {n : NoteId} {nt : Dl} {dk : DK}
    (h : nt.pos → dk.isNew = true → (s.notes n).notified = false) :
    FClaim s (Note.afterDeadlinePc n nt dk) := by
  cases dk with
  | newSelf par dl =>
    simp only [Note.afterDeadlinePc]
    split
    · next hp =>
      cases par with
      | none => trivial
      | some p => intro _; exact h hp rfl
    · trivial
  | _ => simp only [Note.afterDeadlinePc] <;> (try split) <;> trivial

theorem FClaim.afterNotifyPc (s : State) (n : NoteId) (nk : NK) :
    FClaim s (Note.afterNotifyPc n nk) := by
  cases nk with
  | ofApi => trivial
  | ofDeadline dk => exact FClaim.afterDeadlinePc (fun h => absurd h (by simp [Dl.pos]))

theorem FClaim.childReturnPc (s : State) (f : Frame) (rest : List Frame) (top : Top) :
    FClaim s (Note.childReturnPc f rest top) := by
  unfold Note.childReturnPc
  cases rest with
  | cons g gs => trivial
  | nil => cases top.par <;> trivial

theorem FClaim.childWakeNextPc (s s1 : State) (f : Frame) (rest : List Frame) (top : Top) :
    FClaim s (Note.childWakeNextPc s1 f rest top) := by
  unfold Note.childWakeNextPc
  split
  · trivial
  · unfold childLoopStartPc; split <;> trivial

theorem FClaim.childLoopStartPc (s : State) (cs : List NoteId) (f : Frame) (rest : List Frame)
    (top : Top) : FClaim s (Note.childLoopStartPc cs f rest top) := by
  unfold Note.childLoopStartPc; split <;> trivial

theorem FClaim.freeLoopStartPc (s : State) (cs : List NoteId) (n : NoteId) (par : Option NoteId) :
    FClaim s (Note.freeLoopStartPc cs n par) := by
  cases cs <;> trivial

theorem ntime_pos_flag {s : State} {n : NoteId} (h : (s.notes n).ntime.pos) :
    (s.notes n).notified = false := by
  cases hf : (s.notes n).notified with
  | false => rfl
  | true => simp [NoteRec.ntime, hf, Dl.pos] at h

theorem FClaim.dl_of {s : State} {pos : DPos} {n : NoteId} {nt : Dl} {dk : DK}
    (h : pos.late = true → nt.pos → (s.notes n).notified = false) : FClaim s (.dl pos n nt dk) := by
  cases dk <;> first | trivial | exact h

theorem FClaim.dl_get {s : State} {pos : DPos} {n : NoteId} {nt : Dl} {dk : DK}
    (hc : FClaim s (.dl pos n nt dk)) (hl : pos.late = true) (hp : nt.pos) (hn : dk.isNew = true) :
    (s.notes n).notified = false := by
  cases dk <;> simp at hn
  exact hc hl hp

theorem FClaim.dl_early {s : State} {pos : DPos} {n : NoteId} {nt : Dl} {dk : DK}
    (h : pos.late = false) : FClaim s (.dl pos n nt dk) :=
  FClaim.dl_of (fun hl => by rw [h] at hl; cases hl)

theorem FClaim.dl_carry {s : State} {pos pos' : DPos} {n : NoteId} {nt : Dl} {dk : DK}
    (hl : pos.late = true) (hc : FClaim s (.dl pos n nt dk)) : FClaim s (.dl pos' n nt dk) := by
  cases dk <;> first | trivial | exact fun _ hp => hc hl hp

theorem FClaim.afterDeadlinePc_zero (s : State) (n : NoteId) (dk : DK) :
    FClaim s (Note.afterDeadlinePc n (some 0) dk) :=
  FClaim.afterDeadlinePc (fun h => absurd h (fun h' => h' rfl))

theorem FClaim.afterDeadlinePc_of {s : State} {pos : DPos} {n : NoteId} {nt : Dl} {dk : DK}
    (hl : pos.late = true) (hc : FClaim s (.dl pos n nt dk)) :
    FClaim s (Note.afterDeadlinePc n nt dk) :=
  FClaim.afterDeadlinePc (fun hp hn => FClaim.dl_get hc hl hp hn)

/-- The claim of the acting thread's new program counter, in the OLD state (the flags change only
    at a store event, whose new program counter has no claim). -/
theorem FClaim.actor {s s' : State} {e : Event} (hs : step s e = .ok s') (a : Tid)
    (ha : e.actor = some a) (hc : FClaim s (s.pc a)) : FClaim s (s'.pc a) := by
  cases e
  all_goals step_cases hs
  all_goals simp only [Event.actor, Option.some.injEq, reduceCtorEq] at ha
  all_goals (try subst ha)
  all_goals (try (rw [‹s.pc _ = _›] at hc))
  all_goals (try (simp only [setPc_pc, upd_same, afterDeadline_pc, afterNotify_pc, childReturn_pc,
    childWakeNext_pc, childScanStart_pc, freeLoopStart_pc, enterChild_pc, leave_pc, addUser_pc, markCalled_pc,
    markFreeing_pc, setAfter_pc, pushObs_pc, publish_pc, delUser_pc, markBorn_pc, allocNote_pc]))
  all_goals (try trivial)
  all_goals (try (exact FClaim.afterNotifyPc _ _ _))
  all_goals (try (exact FClaim.childReturnPc _ _ _ _))
  all_goals (try (exact FClaim.childWakeNextPc _ _ _ _ _))
  all_goals (try (exact FClaim.childLoopStartPc _ _ _ _ _))
  all_goals (try (exact FClaim.freeLoopStartPc _ _ _ _))
  all_goals (try (exact hc))
  all_goals (try (rw [‹s.pc _ = _›]; trivial))
  all_goals (try (exact FClaim.dl_early rfl))
  all_goals (try (exact FClaim.dl_of (fun _ hp => ntime_pos_flag hp)))
  all_goals (try (exact FClaim.dl_carry rfl hc))
  all_goals (try (exact FClaim.afterDeadlinePc_zero _ _ _))
  all_goals (try (exact FClaim.afterDeadlinePc_of rfl hc))
  all_goals (try (exact ntime_pos_flag (by assumption)))
  all_goals (try (intro h; cases h; done))

theorem step_invF {s s' : State} {e : Event} (hr : Reachable s) (hF : InvF s)
    (hs : step s e = .ok s') : InvF s' := by
  intro t
  by_cases hst : ∃ a site o k n ob, e = .stNote a site o k n ob
  · -- a store: the storer's new program counter has no claim; nobody else's claim is about `k`
    obtain ⟨a, site, o, k, n, ob, he⟩ := hst
    subst he
    obtain ⟨_, _, _, _, hsite⟩ := stNote_ok hs
    have hsto : Stores s a k := by
      rcases hsite with ⟨_, f, rest, top, h1, h2, _⟩ | ⟨_, p, dl, h1, _⟩
      · exact Or.inl ⟨f, rest, top, h1, h2⟩
      · exact Or.inr ⟨p, dl, h1⟩
    by_cases hta : t = a
    · subst hta
      rcases hsite with ⟨_, f, rest, top, _, _, h3⟩ | ⟨_, p, dl, _, h3⟩
      · rw [h3]; exact FClaim.childWakeNextPc _ _ _ _ _
      · rw [h3]; intro h; cases h
    · rw [step_pc_other hs t (by simp [Event.actor]; exact fun h => hta h.symm)]
      refine FClaim.of_flags ?_ (hF t)
      intro x hx
      by_cases hxk : x = k
      · subst hxk; exact absurd hx (fun hx => no_conflict hr hta hsto hx)
      · exact flag_frame hr hs x (fun _ _ _ _ _ h => by cases h; exact hxk rfl)
  · have hfl : ∀ x, (s'.notes x).notified = (s.notes x).notified :=
      fun x => flag_frame hr hs x (fun a site o n ob h => hst ⟨a, site, o, x, n, ob, h⟩)
    refine FClaim.of_flags (fun x _ => hfl x) ?_
    by_cases ha : e.actor = some t
    · exact FClaim.actor hs t ha (hF t)
    · rw [step_pc_other hs t ha]; exact hF t

theorem Reachable.invF {s : State} (h : Reachable s) : InvF s := by
  refine Reachable.induction (P := InvF) InvF.init ?_ s h
  intro s e s' hr hi hs
  exact step_invF hr hi hs

/-- AT MOST ONE STORE: an accepted store to `note<k>.notified` finds the flag 0. -/
theorem stNote_flag_false {s s' : State} {t : Tid} {site : Site} {o : Ord} {k : NoteId} {n ob : Nat}
    (hr : Reachable s) (hs : step s (.stNote t site o k n ob) = .ok s') :
    (s.notes k).notified = false ∧ ob = 0 := by
  obtain ⟨_, _, _, hob, hsite⟩ := stNote_ok hs
  have hF := hr.invF t
  have : (s.notes k).notified = false := by
    rcases hsite with ⟨_, f, rest, top, h1, h2, _⟩ | ⟨_, p, dl, h1, _⟩
    · rw [h1] at hF; rw [← h2]; exact hF
    · rw [h1] at hF; exact hF rfl
  exact ⟨this, by rw [hob, this]; rfl⟩

end Note
