/-
  Proofs/WaitNReady6.lean — `TF` is preserved by the caller's own steps, part 2:
  counter_ready_time and nsync_note_notified_deadline_.
-/
import NsyncVerif.Proofs.WaitNReady5

set_option linter.unusedSimpArgs false
set_option linter.unusedVariables false

namespace WaitN

theorem ne_enq_of_pc {s : State} {t : Tid} {p : PC} (hpc : s.pc t = p)
    (h : ∀ i, p ≠ .wEnq i (.store true) ∧ p ≠ .wEnqCv i .store) :
    ∀ i, s.pc t ≠ .wEnq i (.store true) ∧ s.pc t ≠ .wEnqCv i .store := by
  rw [hpc]; exact h

theorem tf_stepCtrRT {s s' : State} {t : Tid} {u : Use} {i : Nat} {l : Bool} {e : Ev} (c : Ctx s t)
    (hpc : s.pc t = .wCtrRT u i l) (h : stepCtrRT s t u i l e = .ok s') : TF s' (s'.pc t) (s'.fr t) := by
  have hl : LInv (.wCtrRT u i l) (s.fr t) := hpc ▸ c.linv
  have htf : TF s (.wCtrRT u i l) (s.fr t) := hpc ▸ c.tf
  have hc : inCall (s.pc t) = true := by rw [hpc]; rfl
  have st := own_stable c hc (mono_stepCtrRT hpc h) (ne_enq_of_pc hpc (fun _ => ⟨by simp, by simp⟩))
  unfold stepCtrRT at h
  split at h
  · rename_i k hk
    dsimp only at h
    split at h
    · -- store waited
      split at h
      · cases h
        simp only [setPc_pc, setPc_fr, setObj_fr, if_true]
        exact tf_ctr_move st htf (by intro c' hc'; rw [hk] at hc'; cases hc'; simp)
      · simp at h
    · -- load value
      rename_i k' obs
      split at h
      · rename_i hg
        refine tf_rtDone hl htf (.inl ⟨_, rfl, ?_⟩) ?_ ?_ ?_ ?_ h
        · intro hu; subst hu; simp [LInv] at hl
        · intro hu c' hc'
          subst hu
          simp only [TF] at htf
          exact htf.2 trivial i c' (Nat.lt_succ_self i) hc'
        · intro hd
          have hobs : obs = 0 := by
            by_cases h0 : obs = 0
            · exact h0
            · simp [h0, dlePast] at hd
          unfold sReady; rw [hk]
          refine ⟨by rw [← hg.2]; exact hobs, ?_⟩
          cases u with
          | poll => simp only [TF] at htf; exact htf.2 trivial i k (Nat.lt_succ_self i) hk
          | loop => simp only [TF] at htf; exact htf.1 i k (lt_count_of_get hk) hk
          | deq => simp [LInv] at hl
        · intro hd
          left
          by_cases h0 : obs = 0
          · simp [h0, dlePast] at hd
          · simp [h0]
        · intro _ n hn; rw [hk] at hn; cases hn
      · simp at h
    · exact tf_dflt c h
  · simp at h

theorem flag_of_obs {b : Bool} {obs : Nat} (h : obs = b2n b) (h0 : obs ≠ 0) : b = true := by
  cases b <;> simp_all

set_option hygiene false in
/-- the program counter moves inside nsync_note_notified_deadline_ -/
macro "nd_mv" t:term : tactic =>
  `(tactic| (cases h; simp only [setPc_pc, setPc_fr, setObj_fr, if_true]; exact tf_nd_move st htf $t))

theorem tf_stepND {s s' : State} {t : Tid} {u : Use} {i : Nat} {st0 : NDst} {e : Ev} (c : Ctx s t)
    (hpc : s.pc t = .wND u i st0) (h : stepND s t u i st0 e = .ok s') : TF s' (s'.pc t) (s'.fr t) := by
  have hl : LInv (.wND u i st0) (s.fr t) := hpc ▸ c.linv
  have htf : TF s (.wND u i st0) (s.fr t) := hpc ▸ c.tf
  have hc : inCall (s.pc t) = true := by rw [hpc]; rfl
  have hne := ne_enq_of_pc hpc (fun _ => ⟨by simp, by simp⟩)
  have st := own_stable c hc (mono_stepND hpc h) hne
  have hnd : NDFat s (s.fr t) i st0 := by
    cases u <;> simp only [TF] at htf
    · exact htf.2
    · exact htf.2.2
    · exact htf.2.2
  have hnote : isNoteAt (s.fr t) i := by
    cases u <;> simp only [LInv] at hl
    · exact hl.2.2
    · exact hl.2
    · exact hl.2.2.2.1
  -- what a finished call needs
  have hrt : ∀ {time : Deadline} {s1 : State},
      (dlePast time = true → sReady s (s.fr t) i) →
      (dlePast time = false → time = none ∨ ∃ n, (s.fr t).objs[i]? = some (.note n) ∧ time = (s.obj (.note n)).expiry) →
      (u = .deq → ∀ n, (s.fr t).objs[i]? = some (.note n) → (s.fr t).why = .readyAt i → noteNotif s n) →
      rtDone s t u i time = .ok s1 → TF s1 (s1.pc t) (s1.fr t) := by
    intro time s1 h1 h2 h3 h4
    exact tf_rtDone hl htf (.inr ⟨_, rfl⟩)
      (by intro _ c' hc'; obtain ⟨n, hn⟩ := hnote; rw [hn] at hc'; cases hc') h1 h2 h3 h4
  unfold stepND at h
  split at h
  · rename_i n hoi
    have flagReady : (s.obj (.note n)).flag = true → sReady s (s.fr t) i := by
      intro hf; unfold sReady; rw [hoi]; exact .inl hf
    have flagNotif : (s.obj (.note n)).flag = true → u = .deq →
        ∀ n', (s.fr t).objs[i]? = some (.note n') → (s.fr t).why = .readyAt i → noteNotif s n' := by
      intro hf _ n' hn' _; rw [hoi] at hn'; cases hn'; exact .inl hf
    have hndn : NDF s n st0 := hnd n hoi
    have mk : ∀ {s1 : State} {b : NDst}, NDF s1 n b → NDFat s1 (s.fr t) i b := by
      intro s1 b hb n' hn'; rw [hoi] at hn'; cases hn'; exact hb
    dsimp only at h
    split at h
    · -- ld0
      split at h
      · rename_i n' obs
        split at h
        · rename_i hg
          split at h
          · rename_i hobs
            have hf := flag_of_obs hg.2 hobs
            exact hrt (fun _ => flagReady hf) (by intro hd; simp [dlePast] at hd) (flagNotif hf) h
          · nd_mv (mk trivial)
        · simp at h
      · exact tf_dflt c h
    · -- lockCall
      split at h
      · split at h
        · nd_mv (mk trivial)
        · simp at h
      · exact tf_dflt c h
    · -- lockWait
      split at h
      · split at h
        · nd_mv (mk trivial)
        · simp at h
      · exact tf_dflt c h
    · -- ld1
      split at h
      · rename_i n' obs
        split at h
        · rename_i hg
          nd_mv (mk (by intro ho; simp at ho; exact flag_of_obs hg.2 ho))
        · simp at h
      · exact tf_dflt c h
    · -- unlockCall obs
      split at h
      · split at h
        · nd_mv (mk (by intro ho; simpa using hndn ho))
        · simp at h
      · exact tf_dflt c h
    · -- unlockWait obs
      rename_i obs
      split at h
      · split at h
        · rename_i hobs
          have hf := hndn hobs
          exact hrt (fun _ => flagReady hf) (by intro hd; simp [dlePast] at hd) (flagNotif hf) h
        · split at h
          · rename_i hd
            refine hrt (fun _ => ?_) (fun h' => by rw [h'] at hd; cases hd) ?_ h
            · unfold sReady; rw [hoi]; exact .inr (expiredB_of_dlePast _ hd)
            · intro _ n' hn' _; rw [hoi] at hn'; cases hn'; exact .inr hd
          · nd_mv (mk trivial)
      · exact tf_dflt c h
    · -- now
      split at h
      · rename_i ns
        split at h
        · rename_i hns
          split at h
          · nd_mv (mk trivial)
          · rename_i hex
            subst hns
            refine hrt (fun hd => ?_) (fun _ => .inr ⟨n, hoi, rfl⟩) ?_ h
            · exact absurd (expiredB_of_dlePast _ hd) hex
            · intro hu n' hn' hw
              rw [hoi] at hn'; cases hn'
              subst hu
              simp only [TF, LInv] at htf hl
              rcases htf.2.1.why i hw with h1 | ⟨_, _, h3⟩
              · rw [List.getElem?_eq_none (by rw [hl.2.1]; exact Nat.le_refl _)] at h1; cases h1
              · unfold sReady at h3; rw [hoi] at h3
                rcases h3 with h3 | h3
                · exact .inl h3
                · exact absurd h3 hex
        · simp at h
      · exact tf_dflt c h
    · -- nfLockCall
      split at h
      · split at h
        · nd_mv (mk trivial)
        · simp at h
      · exact tf_dflt c h
    · -- nfLockWait
      split at h
      · split at h
        · nd_mv (mk trivial)
        · simp at h
      · exact tf_dflt c h
    · -- nfLd0
      split at h
      · rename_i n' obs
        split at h
        · rename_i hg
          by_cases hobs : obs ≠ 0
          · rw [if_pos hobs] at h
            nd_mv (mk (flag_of_obs hg.2 hobs))
          · rw [if_neg hobs] at h
            nd_mv (mk trivial)
        · simp at h
      · exact tf_dflt c h
    · -- nfLd1
      split at h
      · split at h
        · nd_mv (mk trivial)
        · simp at h
      · exact tf_dflt c h
    · -- nfStore
      split at h
      · split at h
        · nd_mv (mk (by simp [NDF]))
        · simp at h
      · exact tf_dflt c h
    · -- nfWake
      split at h
      · split at h
        · split at h
          · nd_mv (mk (by simpa [NDF] using hndn))
          · simp at h
        · exact tf_stepOpen c hc hne h
      · exact tf_stepOpen c hc hne h
    · -- nfUnlockCall
      split at h
      · split at h
        · nd_mv (mk (by simpa [NDF] using hndn))
        · simp at h
      · exact tf_dflt c h
    · -- nfUnlockWait
      split at h
      · have hf : (s.obj (.note n)).flag = true := hndn
        exact hrt (fun _ => flagReady hf) (by intro hd; simp [dlePast] at hd) (flagNotif hf) h
      · exact tf_dflt c h
  · simp at h

end WaitN
