/-
  Layer `Pool`: preservation of the location invariant `LInv` by each kind of move of a struct.
-/
import NsyncVerif.Proofs.PoolInv

namespace Pool

variable {free : List Wid} {loc : Wid → Loc} {tr : Tid → Option Wid} {nalloc : Nat}
  {inuse reserved : Wid → Bool} {ptw : Tid → Option Wid}

/-- `rel new`, list non-empty: pop the first struct. -/
theorem LInv_pop {rest : List Wid} {t : Tid} {q : Wid}
    (hi : LInv (q :: rest) loc tr nalloc inuse reserved ptw) (ht : tr t = none) :
    LInv rest (upd loc q (.transit t)) (upd tr t (some q)) nalloc inuse reserved ptw := by
  obtain ⟨h1, h2, h3, h4, h5, h6, h7, h8⟩ := hi
  have hq : loc q = .free := (h2 q).1 (by simp)
  have hnq : q ∉ rest := (List.nodup_cons.1 h1).1
  have hnd : rest.Nodup := (List.nodup_cons.1 h1).2
  constructor
  · exact hnd
  · intro x; simp only [upd_apply]; grind
  · intro u x; simp only [upd_apply]; grind
  · intro x; simp only [upd_apply]; grind
  · intro x; simp only [upd_apply]; grind
  · intro u x; simp only [upd_apply]; grind
  · intro u x; simp only [upd_apply]; grind
  · grind

/-- `rel free` / `rel destroy`: push the carried struct. -/
theorem LInv_push {t : Tid} {w : Wid}
    (hi : LInv free loc tr nalloc inuse reserved ptw) (ht : tr t = some w) :
    LInv (w :: free) (upd loc w .free) (upd tr t none) nalloc inuse reserved ptw := by
  have hw : loc w = .transit t := (hi.locTr t w).1 ht
  obtain ⟨h1, h2, h3, h4, h5, h6, h7, h8⟩ := hi
  constructor
  · grind [List.nodup_cons]
  · intro x; simp only [upd_apply]; grind
  · intro u x; simp only [upd_apply]; grind
  · intro x; simp only [upd_apply]; grind
  · intro x; simp only [upd_apply]; grind
  · intro u x; simp only [upd_apply]; grind
  · intro u x; simp only [upd_apply]; grind
  · grind

/-- `malloc`: a fresh struct appears, carried by the allocating thread. -/
theorem LInv_malloc {t : Tid}
    (hi : LInv free loc tr nalloc inuse reserved ptw) (ht : tr t = none) :
    LInv free (upd loc nalloc (.transit t)) (upd tr t (some nalloc)) (nalloc + 1)
      inuse reserved ptw := by
  obtain ⟨h1, h2, h3, h4, h5, h6, h7, h8⟩ := hi
  have hw : loc nalloc = .unalloc := (h4 nalloc).2 (Nat.le_refl _)
  constructor
  · exact h1
  · intro x; simp only [upd_apply]; grind
  · intro u x; simp only [upd_apply]; grind
  · intro x; simp only [upd_apply]; grind
  · intro x; simp only [upd_apply]; grind
  · intro u x; simp only [upd_apply]; grind
  · intro u x; simp only [upd_apply]; grind
  · grind

/-- store of site 5: `w->flags = 0` on the struct being initialised (both bits were clear). -/
theorem LInv_stRc {t : Tid} {w : Wid}
    (hi : LInv free loc tr nalloc inuse reserved ptw) (ht : tr t = some w) :
    LInv free loc tr nalloc (upd inuse w false) (upd reserved w false) ptw := by
  have hw : loc w = .transit t := (hi.locTr t w).1 ht
  obtain ⟨h1, h2, h3, h4, h5, h6, h7, h8⟩ := hi
  constructor
  · exact h1
  · exact h2
  · exact h3
  · exact h4
  · intro x; simp only [upd_apply]; grind
  · exact h6
  · intro u x; simp only [upd_apply]; grind
  · intro x; simp only [upd_apply]; grind

/-- fast path of `new`: the reserved idle struct is handed out. -/
theorem LInv_retFast {t : Tid} {w : Wid}
    (hi : LInv free loc tr nalloc inuse reserved ptw) (hp : ptw t = some w)
    (hu : inuse w = false) :
    LInv free (upd loc w (.held t)) tr nalloc (upd inuse w true) reserved ptw := by
  obtain ⟨h1, h2, h3, h4, h5, h6, h7, h8⟩ := hi
  have hw : loc w = .resIdle t := by grind
  constructor
  · exact h1
  · intro x; simp only [upd_apply]; grind
  · intro u x; simp only [upd_apply]; grind
  · intro x; simp only [upd_apply]; grind
  · intro x; simp only [upd_apply]; grind
  · intro u x; simp only [upd_apply]; grind
  · intro u x; simp only [upd_apply]; grind
  · exact h8

/-- pool path of `new`, first call of the thread: the carried struct is reserved and handed out. -/
theorem LInv_retReserve {t : Tid} {w : Wid}
    (hi : LInv free loc tr nalloc inuse reserved ptw) (ht : tr t = some w) (hp : ptw t = none) :
    LInv free (upd loc w (.held t)) (upd tr t none) nalloc (upd inuse w true)
      (upd reserved w true) (upd ptw t (some w)) := by
  have hw : loc w = .transit t := (hi.locTr t w).1 ht
  obtain ⟨h1, h2, h3, h4, h5, h6, h7, h8⟩ := hi
  constructor
  · exact h1
  · intro x; simp only [upd_apply]; grind
  · intro u x; simp only [upd_apply]; grind
  · intro x; simp only [upd_apply]; grind
  · intro x; simp only [upd_apply]; grind
  · intro u x; simp only [upd_apply]; grind
  · intro u x; simp only [upd_apply]; grind
  · intro x; simp only [upd_apply]; grind

/-- pool path of `new`, the thread already has a reserved struct (in use): plain hand-out. -/
theorem LInv_retPlain {t : Tid} {w : Wid}
    (hi : LInv free loc tr nalloc inuse reserved ptw) (ht : tr t = some w) :
    LInv free (upd loc w (.held t)) (upd tr t none) nalloc (upd inuse w true) reserved ptw := by
  have hw : loc w = .transit t := (hi.locTr t w).1 ht
  obtain ⟨h1, h2, h3, h4, h5, h6, h7, h8⟩ := hi
  constructor
  · exact h1
  · intro x; simp only [upd_apply]; grind
  · intro u x; simp only [upd_apply]; grind
  · intro x; simp only [upd_apply]; grind
  · intro x; simp only [upd_apply]
    by_cases hx : x = w
    · simp [hx]
    · simp only [hx, if_false]; exact h5 x
  · intro u x; simp only [upd_apply]; grind
  · intro u x; simp only [upd_apply]; grind
  · exact h8

/-- `free` of the thread's reserved struct: it becomes reserved-idle. -/
theorem LInv_freeRes {t : Tid} {w : Wid}
    (hi : LInv free loc tr nalloc inuse reserved ptw) (hw : loc w = .held t)
    (hr : reserved w = true) :
    LInv free (upd loc w (.resIdle t)) tr nalloc (upd inuse w false) reserved ptw := by
  obtain ⟨h1, h2, h3, h4, h5, h6, h7, h8⟩ := hi
  have hp : ptw t = some w := by
    obtain ⟨u, hu⟩ := h8 w hr
    have := (h7 u w hu).2
    grind
  constructor
  · exact h1
  · intro x; simp only [upd_apply]; grind
  · intro u x; simp only [upd_apply]; grind
  · intro x; simp only [upd_apply]; grind
  · intro x; simp only [upd_apply]; grind
  · intro u x; simp only [upd_apply]; grind
  · intro u x; simp only [upd_apply]; grind
  · exact h8

/-- `free` of a pooled struct: the thread carries it to the list. -/
theorem LInv_freePool {t : Tid} {w : Wid}
    (hi : LInv free loc tr nalloc inuse reserved ptw) (hw : loc w = .held t)
    (hr : reserved w = false) (ht : tr t = none) :
    LInv free (upd loc w (.transit t)) (upd tr t (some w)) nalloc (upd inuse w false)
      reserved ptw := by
  obtain ⟨h1, h2, h3, h4, h5, h6, h7, h8⟩ := hi
  constructor
  · exact h1
  · intro x; simp only [upd_apply]; grind
  · intro u x; simp only [upd_apply]; grind
  · intro x; simp only [upd_apply]; grind
  · intro x; simp only [upd_apply]; grind
  · intro u x; simp only [upd_apply]; grind
  · intro u x; simp only [upd_apply]; grind
  · exact h8

/-- thread exit: the reserved idle struct loses its reservation and is carried to the list. -/
theorem LInv_exit {t : Tid} {w : Wid}
    (hi : LInv free loc tr nalloc inuse reserved ptw) (hp : ptw t = some w)
    (hu : inuse w = false) (ht : tr t = none) :
    LInv free (upd loc w (.transit t)) (upd tr t (some w)) nalloc inuse
      (upd reserved w false) (upd ptw t none) := by
  obtain ⟨h1, h2, h3, h4, h5, h6, h7, h8⟩ := hi
  have hw : loc w = .resIdle t := by grind
  constructor
  · exact h1
  · intro x; simp only [upd_apply]; grind
  · intro u x; simp only [upd_apply]; grind
  · intro x; simp only [upd_apply]; grind
  · intro x; simp only [upd_apply]; grind
  · intro u x; simp only [upd_apply]; grind
  · intro u x; simp only [upd_apply]; grind
  · intro x; simp only [upd_apply]; grind

end Pool
