/-
  Proofs/WaitNReady2.lean — objects of calls in flight are known; the steps of other threads keep the
  readiness facts of a caller; `TF` does not read the lazily bound semaphore.
-/
import NsyncVerif.Proofs.WaitNReady

set_option linter.unusedSimpArgs false
set_option linter.unusedVariables false

namespace WaitN

/-- the objects of every call in flight exist -/
def Known (s : State) : Prop := ∀ t, inCall (s.pc t) = true → ∀ o ∈ (s.fr t).objs, (s.obj o).known = true

theorem known_of_reachable {s : State} (h : Reachable s) : Known s := by
  refine reachable_induction (P := Known) ?_ ?_ h
  · intro t hc; simp [init, inCall] at hc
  · intro s s' e hr ih hs
    cases e with
    | tick ns =>
      simp only [step] at hs
      split at hs
      · cases hs; exact ih
      · simp at hs
    | thr u ev =>
      simp only [step] at hs
      have m := mono_stepThr hs
      rcases quiet_or_structural hs with q | st
      · intro t hc o ho
        rw [q.inCall] at hc; rw [q.objs] at ho
        exact m.known o (ih t hc o ho)
      · cases st with
        | call mu dl objs nested hpc hne hk hs' =>
          subst hs'
          intro t hc o ho
          by_cases ht : t = u
          · subst ht
            simp only [setPc_fr, setFr_fr, if_true, Frame.new] at ho
            simp only [setPc_obj, setFr_obj]
            exact List.all_eq_true.1 hk o ho |> fun h => by simpa using h
          · simp only [setPc_pc, setPc_fr, setFr_fr, ht, if_false] at hc ho
            simpa using ih t hc o ho
        | init i r oid hpc hoid hdead hi hs' =>
          subst hs'
          intro t hc o ho
          have hc' : inCall (s.pc t) = true := by
            by_cases ht : t = u
            · subst ht; rw [hpc]; rfl
            · simpa [ht] using hc
          have ho' : o ∈ (s.fr t).objs := by
            by_cases ht : t = u
            · subst ht; simpa using ho
            · simpa [ht] using ho
          simpa using ih t hc' o ho'
        | free hpc hs' =>
          subst hs'
          intro t hc o ho
          have hc' : inCall (s.pc t) = true := by
            by_cases ht : t = u
            · subst ht; rw [hpc]; rfl
            · simpa [ht] using hc
          have ho' : o ∈ (s.fr t).objs := by
            by_cases ht : t = u
            · subst ht; simpa using ho
            · simpa [ht] using ho
          simpa using ih t hc' o ho'
        | ret r0 hpc hs' =>
          subst hs'
          intro t hc o ho
          by_cases ht : t = u
          · subst ht; simp [inCall] at hc
          · simp only [setPc_pc, setPc_fr, setFr_fr, kill_fr, kill_pc, ht, if_false] at hc ho
            simpa using ih t hc o ho

/-- `Mono` for the stepping thread `u` gives `Stable` for a frame whose records `u` does not enqueue -/
theorem stable_of_mono {s s' : State} {u : Tid} {f : Frame} (m : Mono s s' u)
    (hk : ∀ o ∈ f.objs, (s.obj o).known = true)
    (hw : f.frees = 0 → ∀ r ∈ f.recs, ∀ i, (s.pc u = .wEnq i (.store true) ∨ s.pc u = .wEnqCv i .store) →
            (s.fr u).recs[i]? ≠ some r) : Stable (f.frees = 0) s s' f := by
  refine ⟨fun o ho => m.expiry o (hk o ho), fun o ho hc hf => m.flag o hc (hk o ho) hf,
          fun k ho hz hf => m.zero k (hk _ ho) hz hf, m.now, ?_⟩
  intro hf r hr hwf
  cases hw' : (s'.rcd r).waiting with
  | false => rfl
  | true =>
    obtain ⟨i, hpc, hri⟩ := m.wtrue r hwf hw'
    exact absurd hri (hw hf r hr i hpc)

/-- a step of another thread keeps the facts of thread t stable -/
theorem stable_of_other {s s' : State} {t u : Tid} (hne : t ≠ u) (ho : Own s) (hkn : Known s)
    (hlu : LInv (s.pc u) (s.fr u)) (hc : inCall (s.pc t) = true) (m : Mono s s' u) :
    Stable ((s.fr t).frees = 0) s s' (s.fr t) := by
  apply stable_of_mono m (hkn t hc)
  intro hf r hr i hpc hri
  have h1 := (ho.own t r hc hf hr).2
  have hcu : inCall (s.pc u) = true := by rcases hpc with h | h <;> rw [h] <;> rfl
  have hfu : (s.fr u).frees = 0 := by
    rcases hpc with h | h <;> rw [h] at hlu <;> exact hlu.1.frees
  have h2 := (ho.own u r hcu hfu (List.mem_of_getElem? hri)).2
  exact hne (h1.symm.trans h2)

/-! `TF` does not read the lazily bound semaphore -/

theorem sReady_sem (s : State) (f : Frame) (v) (k : Nat) : sReady s { f with sem := v } k ↔ sReady s f k := Iff.rfl
theorem Waited_sem (s : State) (f : Frame) (v) (n : Nat) : Waited s { f with sem := v } n ↔ Waited s f n := Iff.rfl
theorem NDFat_sem (s : State) (f : Frame) (v) (i : Nat) (st) : NDFat s { f with sem := v } i st ↔ NDFat s f i st := Iff.rfl
theorem LoopF_sem (s : State) (f : Frame) (v) : LoopF s { f with sem := v } ↔ LoopF s f :=
  ⟨fun a => { a with }, fun a => { a with }⟩
theorem DeqF_sem (s : State) (f : Frame) (v) : DeqF s { f with sem := v } ↔ DeqF s f :=
  ⟨fun a => { a with }, fun a => { a with }⟩
theorem PostF_sem (s : State) (f : Frame) (v) : PostF s { f with sem := v } ↔ PostF s f :=
  ⟨fun a => { a with }, fun a => { a with }⟩
theorem EnqF_sem (s : State) (f : Frame) (v) (i : Nat) (st) : EnqF s { f with sem := v } i st ↔ EnqF s f i st := by
  cases st <;> rfl
theorem DeqStF_sem (s : State) (f : Frame) (v) (j : Nat) (st) : DeqStF s { f with sem := v } j st ↔ DeqStF s f j st := by
  cases st <;> rfl
theorem CvDeqF_sem (s : State) (f : Frame) (v) (j : Nat) (st) : CvDeqF s { f with sem := v } j st ↔ CvDeqF s f j st := by
  cases st <;> rfl

theorem TF_sem (s : State) (p : PC) (f : Frame) (v) : TF s p { f with sem := v } ↔ TF s p f := by
  cases p with
  | wCtrRT u i l => cases u <;> simp only [TF, Waited_sem, LoopF_sem, Frame.count]
  | wND u i st => cases u <;> simp only [TF, Waited_sem, LoopF_sem, DeqF_sem, NDFat_sem, Frame.count]
  | _ => simp only [TF, Waited_sem, LoopF_sem, DeqF_sem, PostF_sem, EnqF_sem, DeqStF_sem, CvDeqF_sem, sReady_sem,
                    Frame.count]

theorem TF.same {s : State} {p : PC} {f g : Frame} (h : frSame f g) (a : TF s p f) : TF s p g := by
  rw [h]; exact (TF_sem s p f _).2 a

/-- the facts of thread t survive a step of another thread u -/
theorem tf_other {s s' : State} {t u : Tid} {e : Ev} (hne : t ≠ u) (ho : Own s) (hkn : Known s)
    (hl : ∀ x, LInv (s.pc x) (s.fr x)) (h : TF s (s.pc t) (s.fr t)) (hs : stepThr s u e = .ok s') :
    TF s' (s'.pc t) (s'.fr t) := by
  obtain ⟨h1, _, _, h4⟩ := others_stepThr hs t hne
  rw [h1]
  apply TF.same h4
  by_cases hc : inCall (s.pc t) = true
  · exact tf_stable (stable_of_other hne ho hkn (hl u) hc (mono_stepThr hs)) (frees_of_linv (hl t)) h
  · cases hp : s.pc t <;> simp [hp, inCall] at hc <;> simp [TF]

end WaitN
