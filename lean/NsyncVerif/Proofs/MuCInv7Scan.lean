import NsyncVerif.Proofs.MuCInv7Ld
/-
  MuC, MU_ALL_FALSE: the plain code of the scan of unlock_slow keeps `set_on_release & MU_ALL_FALSE`
  only as long as every waiter it has left behind was found (or is known by its same_condition ring)
  to have a false condition.  Stated for an arbitrary predicate `G` on waiter records that the scan
  does not change.
-/
namespace NsyncVerif.MuC

/-- `set_on_release` still has MU_ALL_FALSE ⇒ the unlocker holds the writer bit and everything on
    `waiters` and on `new_waiters` before p satisfies `G`. -/
def SafOk (G : Wid → Prop) (sc : Scan) : Prop :=
  sc.saf = true → ∀ k, k ∈ sc.done ++ sc.passed → sc.late = true ∧ G k

def ScanAt7 (G : Wid → Prop) (s' : State) (t : Tid) : Prop :=
  (∀ sc', (s'.pc t).scan? = some sc' → SafOk G sc') ∧
  (∀ sc', (s'.pc t).reScan = some sc' → sc'.saf = true → sc'.todo = []) ∧
  (∀ f, (s'.pc t).finOf = some f → f.cAf = !f.saf ∧ (f.saf = true → ∀ k, k ∈ s'.queue → f.late = true ∧ G k))

def ScanRes.goodS (sc : Scan) : ScanRes → Prop
  | .eval _ sc' => sc'.saf = true → sc.saf = true ∧ sc'.passed = sc.passed
  | .remove _ sc' => sc'.saf = true → sc.saf = true ∧ sc'.passed = sc.passed
  | .iterEnd sc' => sc'.saf = true → sc.saf = true ∧ sc'.passed = sc.passed ∧ sc'.todo = []
  | .panic => True

theorem ScanRes.goodS_of_false {sc sc0 : Scan} {r : ScanRes} (h : r.goodS sc) (hf : sc.saf = false) : r.goodS sc0 := by
  cases r <;> simp_all [ScanRes.goodS]

theorem scanGo_saf (wr : Wid → WRec) (l : List Wid) (sc : Scan) : (scanGo wr l sc).goodS sc := by
  induction l generalizing sc with
  | nil => simp [scanGo, ScanRes.goodS]
  | cons k rest ih =>
    unfold scanGo
    split
    · simp [ScanRes.goodS]
    · split
      · split
        · simp [ScanRes.goodS]
        · trivial
      · by_cases hw : sc.wt = none ∨ (wr k).lType = .R
        · simp [wakeOrPass, hw, ScanRes.goodS]
        · simp only [wakeOrPass, hw, if_false]
          exact ScanRes.goodS_of_false (ih { sc with todo := rest, passed := sc.passed ++ [k], sww := true, saf := false }) rfl

theorem pickup_saf {s : State} {sc sc2 : Scan} (h : (pickup s sc).2 = some sc2) : sc2.saf = sc.saf := by
  unfold pickup at h
  split at h
  · cases h
  · simp only [Option.some.injEq] at h; subst h; rfl

theorem scanAt7_scan {G : Wid → Prop} {s : State} {t : Tid} {p : PC} {sc : Scan} (hp : p.scan? = some sc) (hok : SafOk G sc)
    (hre : ∀ sc', p.reScan = some sc' → sc'.saf = true → sc'.todo = []) (hfin : p.finOf = none) : ScanAt7 G (setPc s t p) t := by
  refine ⟨?_, ?_, ?_⟩
  · intro sc' h; simp only [setPc_pc, setFn_same, hp, Option.some.injEq] at h; subst h; exact hok
  · intro sc' h; simp only [setPc_pc, setFn_same] at h; exact hre sc' h
  · intro f h; simp only [setPc_pc, setFn_same, hfin] at h; cases h

/-- `pickup`, then either the final CAS or the next iteration. -/
theorem pickup_saf_none {G : Wid → Prop} {s s1 : State} {sc : Scan} (t : Tid) (r : Ret) (hp : pickup s sc = (s1, none))
    (hok : SafOk G sc) (htodo : sc.saf = true → sc.todo = []) : ScanAt7 G (toFin s1 t r sc) t := by
  have e2 : (pickup s sc).2 = none := by rw [hp]
  have e1 : s1 = (pickup s sc).1 := by rw [hp]
  obtain ⟨_, hq1⟩ := pickup_none' e2
  refine ⟨?_, ?_, ?_⟩
  · intro sc' h; simp [toFin, PC.scan?] at h
  · intro sc' h; simp [toFin, PC.reScan] at h
  · intro f h
    simp only [toFin, setPc_pc, setFn_same, PC.finOf, Option.some.injEq] at h
    subst h
    refine ⟨by simp [mkFin], ?_⟩
    intro hsaf k hk
    have hsaf' : sc.saf = true := by simpa [mkFin] using hsaf
    simp only [toFin, setPc_queue] at hk
    rw [e1, hq1, htodo hsaf', List.append_nil] at hk
    have := hok hsaf' k hk
    simpa [mkFin] using this

theorem pickup_saf_some {G : Wid → Prop} {s s1 : State} {sc sc2 : Scan} (hp : pickup s sc = (s1, some sc2))
    (hok : SafOk G sc) (htodo : sc.saf = true → sc.todo = []) : SafOk G sc2 := by
  have e2 : (pickup s sc).2 = some sc2 := by rw [hp]
  obtain ⟨_, hd, hpa, _, _, _⟩ := pickup_some' e2
  have hs := pickup_saf e2
  have hl := (pickup_some e2).1
  intro hsaf k hk
  rw [hs] at hsaf
  rw [hd, hpa, htodo hsaf, List.append_nil, List.append_nil] at hk
  rw [hl]
  exact hok hsaf k hk

theorem scanRun_saf (G : Wid → Prop) : ∀ (n : Nat) (s : State) (t : Tid) (r : Ret) (sc : Scan) (s' : State),
    scanRun n s t r sc = .ok s' → SafOk G sc → ScanAt7 G s' t := by
  intro n
  induction n with
  | zero => intro s t r sc s' h; simp [scanRun] at h
  | succ n ih =>
    intro s t r sc s' h hok
    unfold scanRun at h
    have hl := scanGo_lists s.wr sc.todo sc
    have hg := scanGo_spec s.wr sc.todo sc
    have hs := scanGo_saf s.wr sc.todo sc
    split at h
    · cases h
    · rename_i k sc' heq
      rw [heq] at hl hg hs
      simp only [Except.ok.injEq] at h; subst h
      refine scanAt7_scan rfl ?_ (by intro sc2 h2; simp [PC.reScan] at h2) rfl
      intro hsaf x hx
      obtain ⟨a, b⟩ := hs hsaf
      rw [hl.1, b] at hx
      rw [hg.1]
      exact hok a x hx
    · rename_i k sc' heq
      rw [heq] at hl hg hs
      simp only [Except.ok.injEq] at h; subst h
      refine scanAt7_scan rfl ?_ (by intro sc2 h2; simp [PC.reScan] at h2) rfl
      intro hsaf x hx
      obtain ⟨a, b⟩ := hs hsaf
      rw [hl.1, b] at hx
      rw [hg.1]
      exact hok a x hx
    · rename_i sc' heq
      rw [heq] at hl hg hs
      have hok' : SafOk G sc' := by
        intro hsaf x hx
        obtain ⟨a, b, _⟩ := hs hsaf
        rw [hl.1, b] at hx
        rw [hg.1]
        exact hok a x hx
      have htodo : sc'.saf = true → sc'.todo = [] := fun hsaf => (hs hsaf).2.2
      split at h
      · simp only [Except.ok.injEq] at h; subst h
        refine scanAt7_scan rfl hok' ?_ rfl
        intro sc2 h2 hsaf
        simp only [PC.reScan, Option.some.injEq] at h2
        subst h2; exact htodo hsaf
      · split at h
        · rename_i s1 hp
          simp only [Except.ok.injEq] at h; subst h
          exact pickup_saf_none t r hp hok' htodo
        · rename_i s1 sc2 hp
          have hok2 := pickup_saf_some hp hok' htodo
          split at h
          · simp only [Except.ok.injEq] at h; subst h
            exact scanAt7_scan rfl hok2 (by intro sc3 h3; simp [PC.reScan] at h3) rfl
          · exact ih _ t r sc2 s' h hok2

theorem afterPickup_saf {G : Wid → Prop} {s : State} {sc0 : Scan} {t : Tid} {r : Ret} {s' : State}
    (h : afterPickup (pickup s sc0) t r sc0 = .ok s') (hok : SafOk G sc0) (htodo : sc0.saf = true → sc0.todo = []) :
    ScanAt7 G s' t := by
  unfold afterPickup at h
  split at h
  · rename_i s1 hp
    simp only [Except.ok.injEq] at h; subst h
    exact pickup_saf_none t r hp hok htodo
  · rename_i s1 sc2 hp
    have hok2 := pickup_saf_some hp hok htodo
    split at h
    · simp only [Except.ok.injEq] at h; subst h
      exact scanAt7_scan rfl hok2 (by intro sc3 h3; simp [PC.reScan] at h3) rfl
    · exact scanRun_saf G _ _ t r sc2 s' h hok2

theorem afterEval_saf {G : Wid → Prop} {s : State} {sc : Scan} {t : Tid} {r : Ret} {res : Bool} {s' : State}
    (h : afterEval s t r sc res = .ok s') (hok : SafOk G sc) (hlate : sc.late = true)
    (hfalse : res = false → ∀ k rest, sc.todo = k :: rest → ∀ x, x ∈ (skipPast s.wr sc.passed k rest).1 → x ∈ sc.passed ∨ G x) :
    ScanAt7 G s' t := by
  unfold afterEval at h
  split at h
  · cases h
  · rename_i k rest hk
    split at h
    · rename_i hres
      have hres' : res = false := by simpa using hres
      refine scanRun_saf G 3 s t r _ s' h ?_
      intro hsaf x hx
      simp only [List.mem_append] at hx
      rcases hx with hx | hx
      · exact hok hsaf x (List.mem_append_left _ hx)
      · rcases hfalse hres' k rest hk x hx with e | e
        · exact hok hsaf x (List.mem_append_right _ e)
        · exact ⟨hlate, e⟩
    · by_cases hw : sc.wt = none ∨ (s.wr k).lType = .R
      · simp only [wakeOrPass, hw, if_true, Except.ok.injEq] at h
        subst h
        refine scanAt7_scan rfl ?_ (by intro sc2 h2; simp [PC.reScan] at h2) rfl
        intro hsaf x hx
        exact hok hsaf x hx
      · simp only [wakeOrPass, hw, if_false] at h
        refine scanRun_saf G 3 s t r _ s' h ?_
        intro hsaf; cases hsaf

end NsyncVerif.MuC
