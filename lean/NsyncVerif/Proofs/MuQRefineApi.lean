import NsyncVerif.Proofs.MuQRefineLd
/-
  MuQ refinement, part 2: API boundaries, semaphore operations, environment events.
-/
namespace NsyncVerif.MuQ

theorem abs_setPcHeld (s : State) (t : Tid) (p : PC) (h' : Option Mode) :
    abs { setPc s t p with held := setFn s.held t h' } =
      { abs s with ts := setFn (abs s).ts t (tshare h' p), ro := setFn (abs s).ro t (role p) } := by
  simp only [abs, setPc, AState.mk.injEq, true_and]
  constructor <;> funext u <;> simp only [setFn] <;> split <;> simp_all

theorem refines_quietHeld {cfg : Cfg} (s : State) (t : Tid) (p : PC) (h' : Option Mode)
    (hsh : tshare h' p = tshare (s.held t) (s.pc t)) (hr : role p = role (s.pc t)) :
    Refines cfg s { setPc s t p with held := setFn s.held t h' } := by
  left
  rw [abs_setPcHeld]
  have h1 : tshare h' p = (abs s).ts t := by simp [abs, hsh]
  have h2 : role p = (abs s).ro t := by simp [abs, hr]
  rw [h1, h2, setFn_self, setFn_self]

theorem side_setPcHeld {s : State} (t : Tid) (p : PC) (h' : Option Mode) (hk : PcOk s) (hh : HeldIdle s)
    (hp : p.ok) (hi : h' = none ∨ p = .idle) :
    PcOk { setPc s t p with held := setFn s.held t h' } ∧ HeldIdle { setPc s t p with held := setFn s.held t h' } := by
  constructor
  · intro u; simp only [setPc, setFn]; split
    · exact hp
    · exact hk u
  · intro u hu; simp only [setPc, setFn] at hu ⊢; split
    · rename_i h; subst h; simp at hu; rcases hi with hi | hi
      · exact absurd hi hu
      · exact hi
    · rename_i h; simp [h] at hu; exact hh u hu

theorem stepCall_refines {cfg : Cfg} {s s' : State} {t : Tid} {a : Api}
    (hk : PcOk s) (hh : HeldIdle s) (h : stepCall s t a = .ok s') :
    Refines cfg s s' ∧ PcOk s' ∧ HeldIdle s' := by
  unfold stepCall at h
  cases hp : s.pc t <;> simp only [hp] at h <;> try (cases h; done)
  cases a <;> simp only at h <;> split at h <;> try (cases h; done)
  all_goals cases h
  all_goals rename_i hx
  · exact ⟨refines_quiet s t _ (by simp [hp, pcShare]) (by simp [hp, role]), side_setPc t _ hk hh (by simp [PC.ok]) (Or.inl hx)⟩
  · exact ⟨refines_quiet s t _ (by simp [hp, pcShare]) (by simp [hp, role]), side_setPc t _ hk hh (by simp [PC.ok]) (Or.inl hx)⟩
  · exact ⟨refines_quiet s t _ (by simp [hp, pcShare]) (by simp [hp, role]), side_setPc t _ hk hh (by simp [PC.ok]) (Or.inl hx)⟩
  · exact ⟨refines_quiet s t _ (by simp [hp, pcShare]) (by simp [hp, role]), side_setPc t _ hk hh (by simp [PC.ok]) (Or.inl hx)⟩
  · exact ⟨refines_quietHeld s t _ _ (by simp [hp, hx, tshare, pcShare]) (by simp [hp, role]), side_setPcHeld t _ _ hk hh (by simp [PC.ok]) (Or.inl rfl)⟩
  · exact ⟨refines_quietHeld s t _ _ (by simp [hp, hx, tshare, pcShare]) (by simp [hp, role]), side_setPcHeld t _ _ hk hh (by simp [PC.ok]) (Or.inl rfl)⟩

theorem stepRet_refines {cfg : Cfg} {s s' : State} {t : Tid} {a : Api} {res : Option Bool}
    (hk : PcOk s) (hh : HeldIdle s) (h : stepRet s t a res = .ok s') :
    Refines cfg s s' ∧ PcOk s' ∧ HeldIdle s' := by
  unfold stepRet at h
  split at h
  all_goals try (cases h; done)
  all_goals rename_i hp
  all_goals have hnone : s.held t = none := held_none_of_active hh (by rw [hp]; simp)
  · cases h
    exact ⟨refines_quietHeld s t _ _ (by simp [hp, hnone, tshare, pcShare]) (by simp [hp, role]), side_setPcHeld t _ _ hk hh (by simp [PC.ok]) (Or.inr rfl)⟩
  · cases h
    exact ⟨refines_quietHeld s t _ _ (by simp [hp, hnone, tshare, pcShare]) (by simp [hp, role]), side_setPcHeld t _ _ hk hh (by simp [PC.ok]) (Or.inr rfl)⟩
  · split at h <;> try (cases h; done)
    cases h
    rename_i r r' _ hr
    refine ⟨refines_quietHeld s t _ _ ?_ (by simp [hp, role]), side_setPcHeld t _ _ hk hh (by simp [PC.ok]) (Or.inr rfl)⟩
    cases r' <;> simp [hp, hnone, tshare, pcShare]
  · split at h <;> try (cases h; done)
    cases h
    rename_i r r' _ hr
    refine ⟨refines_quietHeld s t _ _ ?_ (by simp [hp, role]), side_setPcHeld t _ _ hk hh (by simp [PC.ok]) (Or.inr rfl)⟩
    cases r' <;> simp [hp, hnone, tshare, pcShare]
  · cases h
    refine ⟨?_, side_setPc t _ hk hh (by simp [PC.ok]) (Or.inr rfl)⟩
    left; rw [abs_setPc]
    have h1 : tshare (s.held t) PC.idle = (abs s).ts t := by simp [abs, hp, hnone, tshare, pcShare]
    have h2 : role PC.idle = (abs s).ro t := by simp [abs, hp, role]
    rw [h1, h2, setFn_self, setFn_self]
  · cases h
    refine ⟨?_, side_setPc t _ hk hh (by simp [PC.ok]) (Or.inr rfl)⟩
    left; rw [abs_setPc]
    have h1 : tshare (s.held t) PC.idle = (abs s).ts t := by simp [abs, hp, hnone, tshare, pcShare]
    have h2 : role PC.idle = (abs s).ro t := by simp [abs, hp, role]
    rw [h1, h2, setFn_self, setFn_self]

end NsyncVerif.MuQ

namespace NsyncVerif.MuQ

/-- Side conditions when only `pc t` (to a non-idle `p`), and fields other than `pc`/`held` change. -/
theorem side_of_pc {s s' : State} (t : Tid) (p : PC) (hk : PcOk s) (hh : HeldIdle s)
    (hpc : s'.pc = setFn s.pc t p) (hheld : s'.held = s.held)
    (hp : p.ok) (hi : s.held t = none) : PcOk s' ∧ HeldIdle s' := by
  constructor
  · intro u; rw [hpc]; simp only [setFn]; split
    · exact hp
    · exact hk u
  · intro u hu; rw [hheld] at hu; rw [hpc]; simp only [setFn]; split
    · rename_i h; subst h; exact absurd hi hu
    · exact hh u hu

theorem side_same {s s' : State} (hk : PcOk s) (hh : HeldIdle s)
    (hpc : s'.pc = s.pc) (hheld : s'.held = s.held) : PcOk s' ∧ HeldIdle s' := by
  constructor
  · intro u; rw [hpc]; exact hk u
  · intro u hu; rw [hheld] at hu; rw [hpc]; exact hh u hu

theorem ts_setFn (s : State) (t : Tid) (p : PC) (hsh : pcShare p = pcShare (s.pc t)) :
    (fun u => tshare (s.held u) (setFn s.pc t p u)) = fun u => tshare (s.held u) (s.pc u) := by
  funext u; simp only [setFn]; split
  · rename_i h; subst h; simp [tshare, hsh]
  · rfl

theorem ro_setFn (s : State) (t : Tid) (p : PC) :
    (fun u => role (setFn s.pc t p u)) = setFn (fun u => role (s.pc u)) t (role p) := by
  funext u; simp only [setFn]; split <;> rfl

theorem astep_cast {cfg : Cfg} {a b b' : AState} (h : AStep cfg a b) (e : b' = b) : AStep cfg a b' := e ▸ h

theorem stepSem_refines {cfg : Cfg} {s s' : State} {e : Event}
    (hk : PcOk s) (hh : HeldIdle s) (h : step cfg s e = .ok s')
    (he : e.isSem = true ∨ e.tid = none) :
    Refines cfg s s' ∧ PcOk s' ∧ HeldIdle s' := by
  cases e <;> simp [Event.isSem, Event.tid] at he
  case semPEnter t k =>
    simp only [step] at h
    cases hp : s.pc t <;> simp only [hp] at h <;> try (cases h; done)
    have hnone : s.held t = none := held_none_of_active hh (by rw [hp]; simp)
    split at h <;> try (cases h; done)
    cases h
    have hkt := hk t; simp only [hp, PC.ok] at hkt
    exact ⟨refines_quiet s t _ (by simp [hp, pcShare]) (by simp [hp, role]), side_setPc t _ hk hh (by simpa [PC.ok] using hkt) (Or.inl hnone)⟩
  case semPRet t k =>
    simp only [step] at h
    cases hp : s.pc t <;> simp only [hp] at h <;> try (cases h; done)
    rename_i c
    have hnone : s.held t = none := held_none_of_active hh (by rw [hp]; simp)
    split at h; · cases h
    split at h; · cases h
    rename_i hw hs
    simp only [Decidable.not_not] at hw
    cases h
    have hkt := hk t; simp only [hp, PC.ok] at hkt
    refine ⟨?_, side_of_pc t (.lsWaitLd c) hk hh rfl rfl (by simpa [PC.ok] using hkt) hnone⟩
    right
    have := AStep.pRet (cfg := cfg) (abs s) t c k (by simp [abs_ro, hp, role]) hw (by simpa [abs] using hs)
    refine astep_cast this ?_
    simp only [abs, setPc, AState.mk.injEq, true_and]
    exact ⟨ts_setFn s t _ (by simp [hp, pcShare]), ro_setFn s t _⟩
  case semV t k =>
    simp only [step] at h
    cases hp : s.pc t <;> simp only [hp] at h <;> try (cases h; done)
    rename_i l k' r
    have hnone : s.held t = none := held_none_of_active hh (by rw [hp]; simp)
    split at h; · cases h
    rename_i hkk; simp only [Decidable.not_not] at hkk; subst hkk
    cases h
    have hside : PcOk (semPost cfg (afterFin s t l r) k) ∧ HeldIdle (semPost cfg (afterFin s t l r) k) := by
      cases r with
      | nil => exact side_of_pc t (.ulRet l) hk hh rfl rfl (by simp [PC.ok]) hnone
      | cons k2 r2 => exact side_of_pc t (.usWakeSt l k2 r2) hk hh rfl rfl (by simp [PC.ok]) hnone
    refine ⟨?_, hside⟩
    right
    have := AStep.post (cfg := cfg) (abs s) t k r (by simp [abs_ro, hp, role])
    refine astep_cast this ?_
    cases r with
    | nil =>
      simp only [abs, semPost, afterFin, setPc, AState.semPost, roleAfter, AState.mk.injEq, true_and]
      exact ⟨ts_setFn s t _ (by simp [hp, pcShare]), ro_setFn s t _⟩
    | cons k2 r2 =>
      simp only [abs, semPost, afterFin, setPc, AState.semPost, roleAfter, AState.mk.injEq, true_and]
      exact ⟨ts_setFn s t _ (by simp [hp, pcShare]), ro_setFn s t _⟩
  case envV k =>
    simp only [step] at h; cases h
    exact ⟨Or.inr (AStep.envV (abs s) k), side_same hk hh rfl rfl⟩
  case envSem k n =>
    simp only [step] at h
    split at h <;> try (cases h; done)
    rename_i ho
    cases h
    exact ⟨Or.inr (AStep.envSem (abs s) k n (by simpa [abs] using ho)), side_same hk hh rfl rfl⟩

theorem stepSt_refines {cfg : Cfg} {s s' : State} {t : Tid} {o : Ord} {loc : Loc} {new obs : Nat}
    (hk : PcOk s) (hh : HeldIdle s) (h : stepSt s t o loc new obs = .ok s') :
    Refines cfg s s' ∧ PcOk s' ∧ HeldIdle s' := by
  have hkt := hk t
  unfold stepSt at h
  cases hp : s.pc t <;> simp only [hp] at h hkt <;> try (cases h; done)
  all_goals have hnone : s.held t = none := held_none_of_active hh (by rw [hp]; simp)
  case lsSt c =>
    cases loc <;> simp only at h <;> try (cases h; done)
    rename_i k
    split at h; · cases h
    split at h; · cases h
    split at h; · cases h
    split at h; · cases h
    rename_i _ _ hobs hq
    cases hw : c.w with
    | none =>
      simp only [hw] at h
      split at h; · cases h
      split at h; · cases h
      rename_i hown hwt
      simp only [Decidable.not_not] at hown
      cases h
      refine ⟨?_, side_of_pc t (.lsRelLd { c with w := some k }) hk hh rfl rfl ?_ hnone⟩
      · right
        have := AStep.adopt (cfg := cfg) (abs s) t c k (by simp [abs_ro, hp, role]) hw (by simpa [abs] using hq)
          (by simpa [abs] using hown) (by simpa [abs] using hwt)
        refine astep_cast this ?_
        simp only [abs, setPc, AState.mk.injEq, true_and]
        exact ⟨ts_setFn s t _ (by simp [hp, pcShare]), ro_setFn s t _⟩
      · simp only [PC.ok] at hkt ⊢; exact ⟨hkt.1, rfl⟩
    | some k' =>
      simp only [hw] at h
      split at h; · cases h
      rename_i hkk; simp only [Decidable.not_not] at hkk; subst hkk
      cases h
      refine ⟨?_, side_of_pc t (.lsRelLd c) hk hh rfl rfl ?_ hnone⟩
      · right
        have := AStep.requeue (cfg := cfg) (abs s) t c k (by simp [abs_ro, hp, role]) hw (by simpa [abs] using hq)
        refine astep_cast this ?_
        simp only [abs, setPc, AState.mk.injEq, true_and]
        exact ⟨ts_setFn s t _ (by simp [hp, pcShare]), ro_setFn s t _⟩
      · simp only [PC.ok] at hkt ⊢; exact ⟨hkt.1, by simp [hw]⟩
  case usWakeSt l k r =>
    split at h; · cases h
    split at h; · cases h
    split at h; · cases h
    split at h; · cases h
    cases h
    refine ⟨?_, side_of_pc t (.usWakeV l k r) hk hh rfl rfl (by simp [PC.ok]) hnone⟩
    right
    have := AStep.wakeStore (cfg := cfg) (abs s) t k r (by simp [abs_ro, hp, role])
    refine astep_cast this ?_
    simp only [abs, setPc, AState.mk.injEq, true_and]
    exact ⟨ts_setFn s t _ (by simp [hp, pcShare]), ro_setFn s t _⟩

end NsyncVerif.MuQ
