/-
  Layer `Note`, invariant family L (locking discipline): which note mutexes a program counter
  holds, the "parent before child" order in which they are taken, and the agreement between the
  program counters and the abstract mutexes.

  The order is the static one: `a` is strictly above `b` iff `a ≠ b` was on the path from `b` to the
  root when `b` was created (`ancEver`).  It is fixed at creation, so it is insensitive to
  re-parenting by `nsync_note_free` and to stale `parent` locals.
-/
import NsyncVerif.Proofs.NoteInvX2

set_option linter.unusedSimpArgs false

namespace Note

/-- Strictly above in the creation order. -/
def Lt (s : State) (a b : NoteId) : Prop := Above s a b ∧ a ≠ b

/-- The activations of `note_notify_child`, innermost first: every note is strictly below the
    note of the enclosing activation. -/
def ChainStk (s : State) : List Frame → Prop
  | [] => True
  | [_] => True
  | f :: g :: rest => Lt s g.note f.note ∧ ChainStk s (g :: rest)

/-- The child a loop position is working on. -/
@[simp] def CPos.cur : CPos → Option NoteId
  | .lockChild c | .lockChildRet c | .unlockChild c | .unlockChildRet c => some c
  | _ => none

@[simp] def FPos.hasChild : FPos → Bool
  | .lockChild | .lockChildRet | .unlockChild | .unlockChildRet => true
  | _ => false

/-- What a program counter knows (family L). -/
def LClaim (s : State) : PC → Prop
  | .nfy _ n par _ => ∀ p, par = some p → Lt s p n
  | .chd pos stk top =>
    (∀ p, top.par = some p → Lt s p top.n) ∧ ChainStk s stk ∧
    stk.getLast?.map Frame.note = some top.n ∧
    (∀ c f, pos.cur = some c → stk.head? = some f → Lt s f.note c)
  | .fr pos n par c _ =>
    (s.notes n).allocated = true ∧ (∀ p, par = some p → Lt s p n) ∧
    (pos.hasChild = true → Lt s n c)
  | _ => True

/-- Locks held according to the program counter. -/
def PC.held : PC → List NoteId
  | .dl pos n _ _ =>
    match pos with
    | .ld2 | .unlockCall => [n]
    | _ => []
  | .nfy pos n par _ =>
    match pos with
    | .ld | .tryCall | .tryRet | .sUnlockCall | .unlockPRet | .unlockCall => [n]
    | .sLockNCall | .sLockNRet => par.toList
    | .unlockPCall => n :: par.toList
    | _ => []
  | .chd pos stk top =>
    match pos with
    | .waitRet false => (stk.tail.map Frame.note) ++ top.par.toList
    | .unlockChild c => c :: (stk.map Frame.note ++ top.par.toList)
    | _ => stk.map Frame.note ++ top.par.toList
  | .newP pos _ p _ =>
    match pos with
    | .ld | .st | .unlockCall => [p]
    | _ => []
  | .fr pos n par c _ =>
    match pos with
    | .tryCall | .tryRet | .sUnlockCall | .unlockPRet | .unlockCall => [n]
    | .sLockNCall | .sLockNRet => par.toList
    | .lockChild | .lockChildRet | .unlockChildRet | .waitCall | .unlockPCall | .waitRet true =>
      n :: par.toList
    | .unlockChild => c :: n :: par.toList
    | .waitRet false => par.toList
    | _ => []
  | .wt pos n _ _ =>
    match pos with
    | .eLd | .eSt _ | .eUnlockCall | .qLd | .qSt | .qUnlockCall _ => [n]
    | _ => []
  | _ => []

/-- The lock a thread is waiting for (inside `nsync_mu_lock`, or re-acquiring in
    WAIT_FOR_NO_CHILDREN). -/
def PC.wants : PC → Option NoteId
  | .dl .lockRet n _ _ => some n
  | .nfy .lockRet n _ _ | .nfy .sLockNRet n _ _ => some n
  | .nfy .sLockPRet _ par _ => par
  | .chd (.lockChildRet c) _ _ => some c
  | .chd (.waitRet false) stk _ => stk.head?.map Frame.note
  | .newP .lockRet _ p _ => some p
  | .fr .lockRet n _ _ _ | .fr .sLockNRet n _ _ _ | .fr (.waitRet false) n _ _ _ => some n
  | .fr .sLockPRet _ par _ _ => par
  | .fr .lockChildRet _ _ c _ => some c
  | .wt .eLockRet n _ _ | .wt .qLockRet n _ _ => some n
  | _ => none

structure InvL (s : State) : Prop where
  claim : ∀ t, LClaim s (s.pc t)
  /-- the creation order is antisymmetric -/
  anti : ∀ a b, a ∈ s.ancEver b → b ∈ s.ancEver a → a = b
  children : ∀ p c, c ∈ (s.notes p).children → p ≠ c
  parent : ∀ p c, (s.notes c).parent = some p → p ≠ c

theorem InvL.init : InvL Note.init := by
  refine ⟨?_, ?_, ?_, ?_⟩ <;> simp [Note.init, LClaim, NoteRec.blank]

theorem Lt.trans {s : State} (hL : InvL s) {a b c : NoteId} (h1 : Lt s a b) (h2 : Lt s b c) :
    Lt s a c := by
  refine ⟨Above.trans h1.1 h2.1, ?_⟩
  intro hac
  subst hac
  exact h2.2 (hL.anti b a h2.1.1 h1.1.1)

theorem Lt.irrefl {s : State} {a : NoteId} (h : Lt s a a) : False := h.2 rfl

theorem Lt.asymm {s : State} (hL : InvL s) {a b : NoteId} (h1 : Lt s a b) (h2 : Lt s b a) :
    False := h1.2 (hL.anti a b h1.1.1 h2.1.1)

theorem Lt.stable {s s' : State} {e : Event} (hS : InvS s) (hs : step s e = .ok s')
    {a b : NoteId} (h : Lt s a b) : Lt s' a b := ⟨Above.stable hS hs h.1, h.2⟩

theorem ChainStk.stable {s s' : State} {e : Event} (hS : InvS s) (hs : step s e = .ok s')
    {stk : List Frame} (h : ChainStk s stk) : ChainStk s' stk := by
  induction stk with
  | nil => trivial
  | cons f rest ih =>
    cases rest with
    | nil => trivial
    | cons g gs => exact ⟨Lt.stable hS hs h.1, ih h.2⟩

theorem LClaim.stable {s s' : State} {e : Event} (hS : InvS s) (hs : step s e = .ok s') {pc : PC}
    (hc : LClaim s pc) : LClaim s' pc := by
  cases pc with
  | nfy pos n par nk => exact fun p hp => Lt.stable hS hs (hc p hp)
  | chd pos stk top =>
    obtain ⟨h1, h2, h3, h4⟩ := hc
    exact ⟨fun p hp => Lt.stable hS hs (h1 p hp), ChainStk.stable hS hs h2, h3,
      fun c f hc' hf => Lt.stable hS hs (h4 c f hc' hf)⟩
  | fr pos n par c nx =>
    exact ⟨(step_stable hs).alloc n hc.1, fun p hp => Lt.stable hS hs (hc.2.1 p hp),
      fun hh => Lt.stable hS hs (hc.2.2 hh)⟩
  | _ => trivial

/-! ### Claims of the control transfers -/

theorem LClaim.childReturnPc {s : State} {pos : CPos} {f : Frame} {rest : List Frame} {top : Top}
    (hc : LClaim s (.chd pos (f :: rest) top)) : LClaim s (Note.childReturnPc f rest top) := by
  obtain ⟨h1, h2, h3, _⟩ := hc
  unfold Note.childReturnPc
  cases rest with
  | cons g gs =>
    refine ⟨h1, h2.2, by simpa [List.getLast?_cons_cons] using h3, ?_⟩
    intro c f' hc' hf'
    simp only [CPos.cur, Option.some.injEq] at hc'
    simp only [List.head?_cons, Option.some.injEq] at hf'
    subst hc' hf'
    exact h2.1
  | nil =>
    have hf : f.note = top.n := by simpa using h3
    cases hp : top.par with
    | some p => exact fun q hq => h1 q (hp ▸ hq)
    | none => exact fun q hq => by cases hq

/-- The innermost activation moves on with the same stack, possibly selecting the child `c`. -/
theorem LClaim.chdMove {s : State} (hS : InvS s) (hL : InvL s) {pos pos' : CPos} {f f' : Frame}
    {rest : List Frame} {top : Top} (hc : LClaim s (.chd pos (f :: rest) top))
    (hf : f'.note = f.note) (hch : ∀ c, pos'.cur = some c → c ∈ (s.notes f.note).children) :
    LClaim s (.chd pos' (f' :: rest) top) := by
  obtain ⟨h1, h2, h3, _⟩ := hc
  refine ⟨h1, ?_, ?_, ?_⟩
  · cases rest with
    | nil => trivial
    | cons g gs => exact ⟨hf ▸ h2.1, h2.2⟩
  · cases rest with
    | nil => simpa [hf] using h3
    | cons g gs => simpa [List.getLast?_cons_cons] using h3
  · intro c f'' hc' hf''
    simp only [List.head?_cons, Option.some.injEq] at hf''
    subst hf''
    rw [hf]
    exact ⟨hS.children _ _ (hch c hc'), hL.children _ _ (hch c hc')⟩

theorem LClaim.childLoopStartPc {s : State} (hS : InvS s) (hL : InvL s) {pos : CPos} {f : Frame}
    {rest : List Frame} {top : Top} (hc : LClaim s (.chd pos (f :: rest) top)) :
    LClaim s (Note.childLoopStartPc (s.notes f.note).children f rest top) := by
  unfold Note.childLoopStartPc
  split
  · exact LClaim.chdMove hS hL hc rfl (by simp)
  · next c cs hcs =>
    refine LClaim.chdMove hS hL hc rfl ?_
    intro c' hc'
    simp only [CPos.cur, Option.some.injEq] at hc'
    subst hc'; rw [hcs]; simp

theorem LClaim.childWakeNextPc {s s1 : State} (hS : InvS s) (hL : InvL s) {pos : CPos} {f : Frame}
    {rest : List Frame} {top : Top} (hc : LClaim s (.chd pos (f :: rest) top))
    (h1 : (s1.notes f.note).children = (s.notes f.note).children) :
    LClaim s (Note.childWakeNextPc s1 f rest top) := by
  unfold Note.childWakeNextPc
  split
  · exact LClaim.chdMove hS hL hc rfl (by simp)
  · rw [h1]; exact LClaim.childLoopStartPc hS hL hc

theorem LClaim.freeLoopStartPc {s : State} (hS : InvS s) (hL : InvL s) {n : NoteId}
    {par : Option NoteId} {cs : List NoteId} (hcs : cs = (s.notes n).children)
    (ha : (s.notes n).allocated = true)
    (hp : ∀ p, par = some p → Lt s p n) : LClaim s (Note.freeLoopStartPc cs n par) := by
  subst hcs
  unfold Note.freeLoopStartPc
  split
  · exact ⟨ha, hp, by simp⟩
  · next c cs hcs =>
    have hm : c ∈ (s.notes n).children := by rw [hcs]; simp
    exact ⟨ha, hp, fun _ => ⟨hS.children n c hm, hL.children n c hm⟩⟩

theorem LClaim.afterDeadlinePc (s : State) (n : NoteId) (nt : Dl) (dk : DK) :
    LClaim s (Note.afterDeadlinePc n nt dk) := by
  cases dk <;> simp only [Note.afterDeadlinePc] <;> (try split) <;> (try split) <;>
    first | trivial | (intro p hp; cases hp)

theorem LClaim.afterNotifyPc (s : State) (n : NoteId) (nk : NK) :
    LClaim s (Note.afterNotifyPc n nk) := by
  cases nk with
  | ofApi => trivial
  | ofDeadline dk => exact LClaim.afterDeadlinePc s n (some 0) dk

/-- Entering `note_notify_child (n, par)`. -/
theorem LClaim.enter {s : State} {n : NoteId} {par : Option NoteId} {nk : NK}
    (h : ∀ p, par = some p → Lt s p n) :
    LClaim s (.chd .ld [⟨n, none⟩] ⟨n, par, nk⟩) :=
  ⟨h, trivial, rfl, fun c f hc _ => by simp at hc⟩

/-- A child has been locked and is not disconnecting: a new activation. -/
theorem LClaim.push {s : State} {c : NoteId} {stk : List Frame} {top : Top}
    (hc : LClaim s (.chd (.lockChildRet c) stk top)) :
    LClaim s (.chd .ld (⟨c, none⟩ :: stk) top) := by
  obtain ⟨h1, h2, h3, h4⟩ := hc
  cases stk with
  | nil => simp at h3
  | cons f rest =>
    refine ⟨h1, ⟨h4 c f rfl rfl, h2⟩, by simpa [List.getLast?_cons_cons] using h3, ?_⟩
    intro c' f' hc' _
    simp at hc'

/-! ### Distinctness of the locks held -/

theorem ChainStk.above_head {s : State} (hL : InvL s) {f : Frame} {rest : List Frame}
    (h : ChainStk s (f :: rest)) : ∀ g ∈ rest, Lt s g.note f.note := by
  induction rest generalizing f with
  | nil => intro g hg; cases hg
  | cons g gs ih =>
    intro x hx
    rcases List.mem_cons.mp hx with hx | hx
    · subst hx; exact h.1
    · exact Lt.trans hL (ih h.2 x hx) h.1

/-- Every lock held by a thread inside `note_notify_child` besides the innermost note is strictly
    above the innermost note. -/
theorem LClaim.above_head {s : State} (hL : InvL s) {pos : CPos} {f : Frame} {rest : List Frame}
    {top : Top} (hc : LClaim s (.chd pos (f :: rest) top)) :
    ∀ x, x ∈ rest.map Frame.note ++ top.par.toList → Lt s x f.note := by
  obtain ⟨h1, h2, h3, _⟩ := hc
  intro x hx
  rcases List.mem_append.mp hx with hx | hx
  · obtain ⟨g, hg, rfl⟩ := List.mem_map.mp hx
    exact ChainStk.above_head hL h2 g hg
  · cases hp : top.par with
    | none => rw [hp] at hx; cases hx
    | some p =>
      rw [hp] at hx
      simp only [Option.toList, List.mem_singleton] at hx
      subst hx
      have hpn := h1 x hp
      cases rest with
      | nil =>
        have : f.note = top.n := by simpa using h3
        rw [this]; exact hpn
      | cons g gs =>
        have hlast : ∃ l, l ∈ g :: gs ∧ l.note = top.n := by
          simp only [List.getLast?_cons_cons] at h3
          cases hl : (g :: gs).getLast? with
          | none => rw [hl] at h3; cases h3
          | some l =>
            rw [hl] at h3
            exact ⟨l, List.mem_of_getLast? hl, by simpa using h3⟩
        obtain ⟨l, hl, hln⟩ := hlast
        exact Lt.trans hL (hln ▸ hpn) (ChainStk.above_head hL h2 l hl)

/-- … and strictly above the child the loop is working on. -/
theorem LClaim.above_cur {s : State} (hL : InvL s) {pos : CPos} {stk : List Frame}
    {top : Top} (hc : LClaim s (.chd pos stk top)) {c : NoteId} (hcur : pos.cur = some c) :
    ∀ x, x ∈ stk.map Frame.note ++ top.par.toList → Lt s x c := by
  cases stk with
  | nil => have := hc.2.2.1; simp at this
  | cons f rest =>
    have hfc := hc.2.2.2 c f hcur rfl
    intro x hx
    simp only [List.map_cons, List.cons_append, List.mem_cons] at hx
    rcases hx with hx | hx
    · subst hx; exact hfc
    · exact Lt.trans hL (LClaim.above_head hL hc x hx) hfc

/-! ### Locks held at the targets of the control transfers -/

@[simp] theorem held_afterDeadlinePc (n : NoteId) (nt : Dl) (dk : DK) :
    (Note.afterDeadlinePc n nt dk).held = [] := by
  cases dk <;> simp only [Note.afterDeadlinePc] <;> (try split) <;> (try split) <;> rfl

@[simp] theorem held_afterNotifyPc (n : NoteId) (nk : NK) :
    (Note.afterNotifyPc n nk).held = [] := by
  cases nk with
  | ofApi => rfl
  | ofDeadline dk => exact held_afterDeadlinePc n (some 0) dk

theorem held_childReturnPc (f : Frame) (rest : List Frame) (top : Top)
    (h : (f :: rest).getLast?.map Frame.note = some top.n) :
    (Note.childReturnPc f rest top).held = (f :: rest).map Frame.note ++ top.par.toList := by
  unfold Note.childReturnPc
  cases rest with
  | cons g gs => rfl
  | nil =>
    have hf : f.note = top.n := by simpa using h
    cases hp : top.par with
    | some p => simp [PC.held, hp, hf]
    | none => simp [PC.held, hp, hf]

@[simp] theorem held_childLoopStartPc (cs : List NoteId) (f : Frame) (rest : List Frame)
    (top : Top) :
    (Note.childLoopStartPc cs f rest top).held = (f :: rest).map Frame.note ++ top.par.toList := by
  cases cs <;> rfl

@[simp] theorem held_childWakeNextPc (s : State) (f : Frame) (rest : List Frame) (top : Top) :
    (Note.childWakeNextPc s f rest top).held = (f :: rest).map Frame.note ++ top.par.toList := by
  unfold Note.childWakeNextPc
  split
  · rfl
  · exact held_childLoopStartPc _ f rest top

@[simp] theorem held_freeLoopStartPc (cs : List NoteId) (n : NoteId) (par : Option NoteId) :
    (Note.freeLoopStartPc cs n par).held = n :: par.toList := by
  cases cs <;> rfl

end Note
