import NsyncVerif.Proofs.MuCFairRec
/-
  MuC: `InvRC` for stores and compare-and-swap steps.
-/
namespace NsyncVerif.MuC

theorem invRC_stepSt {s s' : State} {t : Tid} {o : Ord} {loc : Loc} {new obs : Nat} (h4 : Inv4 s) (h : InvRC s)
    (hs : stepSt s t o loc new obs = .ok s') : InvRC s' := by
  unfold stepSt at hs
  split at hs
  · -- lsSt
    rename_i c heq
    dsimp only at hs
    repeat' split at hs
    all_goals first
      | (cases hs; done)
      | skip
    iterate 2
      · rename_i k _ _ _ _ _ hcw hown hwait _
        simp only [Decidable.not_not, Bool.not_eq_true] at hown hwait
        cases hs
        refine InvRC.restore t k h (by intro x hx; simp [enqLast, enqFirst, cond_of_merge, setFn, hx])
          ?_ (by intro u hu; simp [enqLast, enqFirst, setFn, hu]) (by intro k' c' hl; simp [enqLast, enqFirst, PC.condRec] at hl)
        intro u _ e; have := h4.own u k e; rw [hown] at this; cases this
    iterate 2
      · rename_i k _ _ _ _ _ k' hcw hkk hwait _
        simp only [Decidable.not_not, Bool.not_eq_true] at hkk hwait
        subst hkk
        cases hs
        have hmem : k ∈ (s.pc t).ws := by rw [heq]; simp [PC.ws, SL.ws, hcw]
        have hown := h4.own t k hmem
        refine InvRC.restore t k h (by intro x hx; simp [enqLast, enqFirst, cond_of_merge, setFn, hx])
          ?_ (by intro u hu; simp [enqLast, enqFirst, setFn, hu]) (by intro k' c' hl; simp [enqLast, enqFirst, PC.condRec] at hl)
        intro u hu e; have := h4.own u k e; rw [hown] at this; cases this; exact hu rfl
  · rename_i heq; ld_caseRC t h heq hs
  · -- mwStW
    rename_i c heq
    dsimp only at hs
    repeat' split at hs
    all_goals first
      | (cases hs; done)
      | skip
    · cases hs
      rename_i k _ _ _ _ _ hcw hown hwait
      simp only [Decidable.not_not, Bool.not_eq_true] at hown hwait
      refine InvRC.restore t k h (by intro x hx; simp [setFn, hx])
        ?_ (by intro u hu; simp [setFn, hu]) ?_
      · intro u _ e; have := h4.own u k e; rw [hown] at this; cases this
      · intro k' c' hl
        simp [PC.condRec] at hl
        exact ⟨hl.1.symm, by simp [setFn, hl.2]⟩
    · cases hs
      rename_i k _ _ _ _ _ k' hcw hkk hwait
      simp only [Decidable.not_not, Bool.not_eq_true] at hkk hwait
      subst hkk
      have hmem : k ∈ (s.pc t).ws := by rw [heq]; simp [PC.ws, hcw]
      have hown := h4.own t k hmem
      refine InvRC.restore t k h (by intro x hx; simp [setFn, hx])
        ?_ (by intro u hu; simp [setFn, hu]) ?_
      · intro u hu e; have := h4.own u k e; rw [hown] at this; cases this; exact hu rfl
      · intro k' c' hl
        simp [PC.condRec, hcw] at hl
        exact ⟨hl.1.symm, by simp [setFn, hl.2]⟩
  · rename_i heq; ld_caseRC t h heq hs
  · rename_i heq; ld_caseRC t h heq hs
  · cases hs

/-- A step that ends in the plain code of the scan. -/
theorem InvRC.scan {s s0 s' : State} {r : Ret} {late : Bool} (t : Tid) (h : InvRC s)
    (hlo : LnkOnly s0 s') (hwr : ∀ x, (s0.wr x).cond = (s.wr x).cond)
    (hpc : ∀ u, u ≠ t → s'.pc u = s.pc u) (hmw : (s.pc t).condRec = r.condRec) (hp : ScanPc r late (s'.pc t)) : InvRC s' := by
  refine InvRC.local t h (fun x => ((hlo x).2.2.2.2.1).trans (hwr x)) hpc ?_
  intro k c hl; rw [hp.condRec, ← hmw] at hl; exact hl

theorem invRC_stepCasA {s s' : State} {t : Tid} {o : Ord} {loc : Loc} {exp new obs : Nat} {ok : Bool} (h1 : Inv1 s) (h : InvRC s)
    (hp : match s.pc t with
      | .usCasGrab _ _ | .usRelCas _ _ _ | .usReCas _ _ _ | .usRcCas _ _ _ _ => True
      | _ => False)
    (hs : stepCas s t o loc exp new obs ok = .ok s') : InvRC s' := by
  unfold stepCas at hs
  split at hs
  all_goals try (rename_i heq; rw [heq] at hp; exact False.elim hp)
  all_goals try (rename_i hne; split at hp <;> first | exact False.elim hp | (exfalso; simp_all; done))
  · -- usCasGrab
    rename_i r old heq
    rcases casWordE_ok hs with ⟨hw, -, hs⟩ | ⟨-, -, rfl⟩
    · have hsc0 : Scan.ok { late := old.cond, tc := old.cond, done := [], passed := [], todo := [], wake := [], wt := none,
                            sww := false, saf := true } := fun h => h
      obtain ⟨hf, p, hpc, hsc⟩ := afterPickup_frame hs hsc0
      obtain ⟨hlo, -⟩ := afterPickup_lists hs
      exact InvRC.scan (late := old.cond) t h hlo (by intro x; simp)
        (by intro u hu; rw [hpc]; simp [setFn, hu])
        (by rw [heq]; rfl) (by rw [hpc]; simpa using hsc)
    · rc_local t h heq
  · rename_i r sc old heq
    have hok0 := h1.pcok t; rw [heq] at hok0
    rcases casWordE_ok hs with ⟨hw, -, hs⟩ | ⟨-, -, rfl⟩
    · obtain ⟨hf, p, hpc, hsc⟩ := scanRun_frame _ _ t r sc s' hs hok0.2
      obtain ⟨hlo, -⟩ := scanRun_lists _ _ t r sc s' hs
      exact InvRC.scan (late := sc.late) t h hlo (by intro x; simp)
        (by intro u hu; rw [hpc]; simp [setFn, hu])
        (by rw [heq]; rfl) (by rw [hpc]; simpa using hsc)
    · rc_local t h heq
  · rename_i r sc old heq
    have hok0 := h1.pcok t; rw [heq] at hok0
    rcases casWordE_ok hs with ⟨hw, -, hs⟩ | ⟨-, -, rfl⟩
    · obtain ⟨hf, p, hpc, hsc⟩ := afterPickup_frame hs hok0.2
      obtain ⟨hlo, -⟩ := afterPickup_lists hs
      exact InvRC.scan (late := sc.late) t h hlo (by intro x; simp)
        (by intro u hu; rw [hpc]; simp [setFn, hu])
        (by rw [heq]; rfl) (by rw [hpc]; simpa using hsc)
    · rc_local t h heq
  · rename_i r sc k old heq
    have hok0 := h1.pcok t; rw [heq] at hok0
    repeat' split at hs
    all_goals first
      | (cases hs; done)
      | skip
    · obtain ⟨hf, p, hpc, hsc⟩ := scanRun_frame _ _ t r sc s' hs hok0.2
      obtain ⟨hlo, -⟩ := scanRun_lists _ _ t r sc s' hs
      exact InvRC.scan (late := sc.late) t h hlo (by intro x; simp [setFn]; split <;> simp_all)
        (by intro u hu; rw [hpc]; simp [setFn, hu])
        (by rw [heq]; rfl) (by rw [hpc]; simpa using hsc)
    · cases hs; rc_local t h heq

macro "cas_caseRC" t:ident h:ident heq:ident hs:ident : tactic => `(tactic|
  (rcases casWord_ok $hs with ⟨hw, -, hs'⟩ | ⟨-, -, hs'⟩ <;> subst hs' <;>
    first
    | rc_local $t $h $heq
    | (split <;> rc_local $t $h $heq)
    | (split <;> first | rc_local $t $h $heq | (split <;> rc_local $t $h $heq))))

theorem invRC_stepCasB {s s' : State} {t : Tid} {o : Ord} {loc : Loc} {exp new obs : Nat} {ok : Bool} (h : InvRC s)
    (hp : match s.pc t with
      | .lkCas0 _ | .lkCas1 _ _ | .tryCas0 _ | .tryCas1 _ _ | .lsCasAcq _ _ | .lsCasEnq _ _ | .lsRelCas _ _
      | .ulCas0 _ _ | .ulCas1 _ _ _ => True
      | _ => False)
    (hs : stepCas s t o loc exp new obs ok = .ok s') : InvRC s' := by
  unfold stepCas at hs
  split at hs
  all_goals try (rename_i heq; rw [heq] at hp; exact False.elim hp)
  all_goals try (rename_i hne; split at hp <;> first | exact False.elim hp | (exfalso; simp_all; done))
  · rename_i heq; cas_caseRC t h heq hs   -- lkCas0
  · rename_i heq; cas_caseRC t h heq hs   -- lkCas1
  · rename_i heq; cas_caseRC t h heq hs   -- tryCas0
  · rename_i heq; cas_caseRC t h heq hs   -- tryCas1
  · -- lsCasAcq
    rename_i c old heq
    rcases casWord_ok hs with ⟨hw, -, hs'⟩ | ⟨-, -, hs'⟩ <;> subst hs'
    · cases hmw : c.mw with
      | none =>
        simp only []
        cases hcw : c.w with
        | none => simp only [dropW]; rc_local t h heq
        | some k => simp only [dropW]; rc_local t h heq
      | some m =>
        have hif : ∀ s1 : State, (if m.cond.isSome = true then setPc s1 t (PC.mwEval m) else mwLoop s1 t m true)
            = setPc s1 t (if m.cond.isSome = true then PC.mwEval m else loopPc m true) := by
          intro s1; split <;> simp [mwLoop_eq]
        simp only [hif]
        split <;> rc_local t h heq
    · rc_local t h heq
  · rename_i heq; cas_caseRC t h heq hs   -- lsCasEnq
  · rename_i heq; cas_caseRC t h heq hs   -- lsRelCas
  · rename_i heq; cas_caseRC t h heq hs   -- ulCas0
  · rename_i heq; cas_caseRC t h heq hs   -- ulCas1

end NsyncVerif.MuC
