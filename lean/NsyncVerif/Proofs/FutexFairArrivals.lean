/-
  Futex layer (C12), fair termination: finitely many calls ⇒ finitely many posts.

  `FiniteCalls` (the `FiniteArrivals` of C02: from some time on no P / P_with_deadline / V is
  called) implies `BoundedPosts`: after the last call every post is the CAS of a thread that was
  inside V before its CAS at that time, each such thread posts once, and there are finitely many of
  them (reachable states have finite support).
-/
import NsyncVerif.Proofs.FutexFairTrace

namespace NsyncVerif.Futex

set_option linter.unusedSimpArgs false
set_option linter.unusedVariables false

def Event.isCall : Event → Bool
  | .callP _ | .callPD _ _ | .callV _ => true
  | _ => false

/-- From some time on nobody calls P, P_with_deadline or V. -/
def FiniteCalls {s0 : State} (x : Exec s0) : Prop :=
  ∃ n, ∀ j e, n ≤ j → x.σ j = some e → e.isCall = false

/-- Number of threads `< b` inside V before their CAS. -/
def cntPre (s : State) : Nat → Nat
  | 0 => 0
  | b + 1 => cntPre s b + (if (s.pc b).vPre then 1 else 0)

/-- Without a call nobody enters the part of V before the CAS, and every post takes one thread out
    of it. -/
theorem step_nocall {s s' : State} {e : Event} (hs : step s e = .ok s') (hc : e.isCall = false) :
    (∀ t, (s'.pc t).vPre = true → (s.pc t).vPre = true) ∧
    (s'.posts = s.posts ∨
      (s'.posts = s.posts + 1 ∧ ∃ p, (s.pc p).vPre = true ∧ (s'.pc p).vPre = false)) := by
  cases e <;> simp only [Event.isCall] at hc <;> (try cases hc) <;>
    simp only [step] at hs <;> (repeat' split at hs) <;> (try simp at hs) <;> (try subst hs) <;>
    simp_all [setPc, PC.vPre] <;> grind

theorem cntPre_le {s s' : State} : ∀ b : Nat,
    (∀ t : Nat, t < b → (s'.pc t).vPre = true → (s.pc t).vPre = true) → cntPre s' b ≤ cntPre s b := by
  intro b
  induction b with
  | zero => intro _; exact Nat.le_refl _
  | succ b ih =>
    intro h
    have h1 := ih (fun t ht => h t (by omega))
    have h2 := h b (by omega)
    simp only [cntPre]
    cases ha : (s'.pc b).vPre <;> cases hb : (s.pc b).vPre <;> simp_all <;> omega

theorem cntPre_lt {s s' : State} {p : Nat} : ∀ b : Nat, p < b →
    (∀ t : Nat, t < b → (s'.pc t).vPre = true → (s.pc t).vPre = true) →
    (s.pc p).vPre = true → (s'.pc p).vPre = false → cntPre s' b + 1 ≤ cntPre s b := by
  intro b
  induction b with
  | zero => intro hp; omega
  | succ b ih =>
    intro hp h hs hs'
    simp only [cntPre]
    by_cases hpb : p = b
    · subst hpb
      have h1 := cntPre_le (s := s) (s' := s') p (fun t ht => h t (by omega))
      simp [hs, hs']; omega
    · have h1 := ih (by omega) (fun t ht => h t (by omega)) hs hs'
      have h2 := h b (by omega)
      cases ha : (s'.pc b).vPre <;> cases hb : (s.pc b).vPre <;> simp_all <;> omega

theorem finiteCalls_boundedPosts {s0 : State} (x : Exec s0) (hr : Reachable s0) (hc : FiniteCalls x) :
    BoundedPosts x := by
  obtain ⟨n, hn⟩ := hc
  obtain ⟨B, hB⟩ := (x.reach hr n).support
  -- threads `≥ B` are never inside V before the CAS after time `n`
  have key : ∀ d, (∀ t : Nat, ((x.ρ (n + d)).pc t).vPre = true → t < B) ∧
      (x.ρ (n + d)).posts + cntPre (x.ρ (n + d)) B ≤ (x.ρ n).posts + cntPre (x.ρ n) B := by
    intro d
    induction d with
    | zero =>
      refine ⟨fun t ht => ?_, Nat.le_refl _⟩
      apply Classical.byContradiction; intro hlt
      have ht' : ((x.ρ n).pc t).vPre = true := ht
      rw [hB t (by omega)] at ht'; cases ht'
    | succ d ih =>
      obtain ⟨h1, h2⟩ := ih
      cases hs : x.σ (n + d) with
      | none => rw [show n + (d + 1) = n + d + 1 by omega, x.next_none hs]; exact ⟨h1, h2⟩
      | some e =>
        obtain ⟨a, b⟩ := step_nocall (x.next_some hs) (hn (n + d) e (by omega) hs)
        rw [show n + (d + 1) = n + d + 1 by omega]
        refine ⟨fun t ht => h1 t (a t ht), ?_⟩
        rcases b with b | ⟨b, p, hp, hp'⟩
        · have := cntPre_le (s := x.ρ (n + d)) (s' := x.ρ (n + d + 1)) B (fun t _ ht => a t ht)
          omega
        · have := cntPre_lt (s := x.ρ (n + d)) (s' := x.ρ (n + d + 1)) B (h1 p hp) (fun t _ ht => a t ht) hp hp'
          omega
  refine ⟨(x.ρ n).posts + cntPre (x.ρ n) B, fun j => ?_⟩
  by_cases hj : n ≤ j
  · obtain ⟨d, rfl⟩ : ∃ d, j = n + d := ⟨j - n, by omega⟩
    have := (key d).2; omega
  · have := x.posts_mono (show j ≤ n by omega); omega

end NsyncVerif.Futex
