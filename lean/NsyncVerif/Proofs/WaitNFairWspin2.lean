/-
  Proofs/WaitNFairWspin2.lean — WaitN layer, liveness: a record in a signaller's wake list stays there until the
  signaller clears its `waiting` (`pend_persist`); the invariant `wspin_owned`.
-/
import NsyncVerif.Proofs.WaitNFairWspin

set_option linter.unusedSimpArgs false
set_option linter.unusedVariables false

namespace WaitN

theorem step_tick_eq {s s' : State} {ns : Nat} (h : step s (.tick ns) = .ok s') : s' = { s with now := ns } := by
  simp only [step] at h
  split at h
  · exact (Except.ok.inj h).symm
  · cases h

theorem wk_some {p : PC} {c : Nat} {l : List Rid} (h : wk p = some (c, l)) : ∃ bc, p = .sg c bc (.wake l) := by
  unfold wk at h
  split at h
  · simp only [Option.some.injEq, Prod.mk.injEq] at h
    obtain ⟨rfl, rfl⟩ := h
    exact ⟨_, rfl⟩
  · cases h

theorem pend_persist_sg {s s' : State} {u : Tid} {e : Ev} {c : Nat} {bc : Bool} {l : List Rid} {r : Rid}
    (hpc : s.pc u = .sg c bc (.wake l)) (hr : r ∈ pend (s.post u) l) (h : stepSg s u c bc (.wake l) e = .ok s') :
    (∃ c' l', wk (s'.pc u) = some (c', l') ∧ r ∈ pend (s'.post u) l') ∨ (s'.rcd r).waiting = false := by
  simp only [stepSg] at h
  split at h
  · -- the store
    rename_i _ _ _ r0 rest r' new obs hpost
    split at h
    · cases h
      rw [hpost] at hr
      simp only [pend] at hr
      by_cases hrr : r = r0
      · right; simp [hrr]
      · left
        refine ⟨c, r0 :: rest, by simp [hpc, wk], ?_⟩
        simp [pend]
        rcases List.mem_cons.1 hr with h1 | h1
        · exact absurd h1 hrr
        · exact h1
    · simp at h
  · -- the post
    rename_i _ _ _ r0 hd rest j hpost
    rw [hpost] at hr
    simp only [pend, List.tail_cons] at hr
    have hne : rest ≠ [] := List.ne_nil_of_mem hr
    split at h
    · cases h
      left
      exact ⟨c, rest, by simp [hne, wk], by simpa [pend] using hr⟩
    · simp at h
  · simp at h
  · left
    obtain ⟨h1, _, h3⟩ := dflt_keeps h
    exact ⟨c, _, by rw [h1, hpc]; rfl, by rw [h3]; exact hr⟩

/-- a step of the signaller itself: the record stays in its wake list, or its `waiting` has been cleared -/
theorem pend_persist {s s' : State} {u : Tid} {e : Ev} {c : Nat} {l : List Rid} {r : Rid}
    (hwk : wk (s.pc u) = some (c, l)) (hr : r ∈ pend (s.post u) l) (h : stepThr s u e = .ok s') :
    (∃ c' l', wk (s'.pc u) = some (c', l') ∧ r ∈ pend (s'.post u) l') ∨ (s'.rcd r).waiting = false := by
  obtain ⟨bc, hpc⟩ := wk_some hwk
  unfold stepThr at h
  rw [hpc] at h
  exact pend_persist_sg hpc hr h

/-- a record whose owner is in the wait loop of cv_dequeue with `waiting` still set is in a signaller's wake list -/
def WS (s : State) : Prop :=
  ∀ t j r, s.pc t = .wDeqCv j .wspin → (s.fr t).recs[j]? = some r → (s.rcd r).waiting = true →
    ∃ u c l, wk (s.pc u) = some (c, l) ∧ r ∈ pend (s.post u) l

theorem frSame_recs' {f g : Frame} (h : frSame f g) : g.recs = f.recs := by rw [h]

/-- the thread stayed in the wait loop over this step (of thread `v`): the invariant is preserved -/
theorem ws_stay {s s' : State} {v t : Tid} {e : Ev} {j : Nat} {r : Rid} (hr : Reachable s) (hws : WS s)
    (hs : stepThr s v e = .ok s') (hpc : s.pc t = .wDeqCv j .wspin) (hrec : (s.fr t).recs[j]? = some r)
    (hwt' : (s'.rcd r).waiting = true) :
    ∃ u c l, wk (s'.pc u) = some (c, l) ∧ r ∈ pend (s'.post u) l := by
  have own := own_of_reachable hr
  have hlt := linv_of_reachable hr t
  rw [hpc] at hlt
  have hct : inCall (s.pc t) = true := by rw [hpc]; rfl
  have hmem : r ∈ (s.fr t).recs := List.mem_of_getElem? hrec
  have hw : (s.rcd r).waiting = true := by
    cases hw0 : (s.rcd r).waiting with
    | true => rfl
    | false =>
      exfalso
      obtain ⟨i, hi, hri⟩ := (mono_stepThr (t := v) hs).wtrue r hw0 hwt'
      have hlv := linv_of_reachable hr v
      have hvt : v = t := by
        rcases hi with hi | hi
        · rw [hi] at hlv
          exact owner_unique own (by rw [hi]; rfl) hlv.1.frees (List.mem_of_getElem? hri) hct hlt.1.frees hmem
        · rw [hi] at hlv
          exact owner_unique own (by rw [hi]; rfl) hlv.1.frees (List.mem_of_getElem? hri) hct hlt.1.frees hmem
      subst hvt
      rcases hi with hi | hi <;> (rw [hpc] at hi; cases hi)
  obtain ⟨u, c, l, hwk, hp⟩ := hws t j r hpc hrec hw
  by_cases huv : u = v
  · subst huv
    rcases pend_persist hwk hp hs with h | h
    · obtain ⟨c', l', h1, h2⟩ := h; exact ⟨u, c', l', h1, h2⟩
    · rw [h] at hwt'; cases hwt'
  · obtain ⟨h1, _, h3, _⟩ := others_stepThr hs u huv
    exact ⟨u, c, l, by rw [h1]; exact hwk, by rw [h3]; exact hp⟩

theorem ws_step {s s' : State} {ev : Event} (hr : Reachable s) (hws : WS s) (hs : step s ev = .ok s') : WS s' := by
  intro t j r hpc' hrec' hwt'
  cases ev with
  | tick ns =>
    rw [(step_tick_eq hs)] at hpc' hrec' hwt' ⊢
    exact hws t j r hpc' hrec' hwt'
  | thr v e =>
    have hs' : stepThr s v e = .ok s' := hs
    by_cases hv : v = t
    · subst hv
      rcases enter_wspin hs' (by rw [hpc']; rfl) with ⟨_, hsame⟩ | ⟨j0, hst, c, r0, ho, hr0, hnq, hqeq, hfr, hrcd, hpcw⟩
      · -- it was in the loop already
        have hpc : s.pc v = .wDeqCv j .wspin := by rw [← hsame]; exact hpc'
        have hfs : frSame (s.fr v) (s'.fr v) := by
          rcases prog_stepThr (linv_of_reachable hr v) hs' with h | h | ⟨ho, _, h | h | h | h | h | h⟩
          · rw [hpc] at h; cases h
          · rw [hpc'] at h; cases h
          · exact h.2.2
          · exfalso; simp [rk, hpc, hpc', rank, count_eq ho] at h
          · rw [hpc] at h; cases h.1
          · obtain ⟨k, hk, _⟩ := h; rw [hpc] at hk; cases hk
          · rw [hpc] at h; cases h.1
          · rw [hpc] at h; exact h.1.elim
        rw [frSame_recs' hfs] at hrec'
        exact ws_stay hr hws hs' hpc hrec' hwt'
      · -- it enters the loop
        rw [hpc'] at hpcw
        cases hpcw
        have hr' := reachable_step hr hs
        have own' := own_of_reachable hr'
        have hl' := linv_of_reachable hr' v
        rw [hpc'] at hl'
        have hc' : inCall (s'.pc v) = true := by rw [hpc']; rfl
        have hlive := (own'.own v r hc' hl'.1.frees (List.mem_of_getElem? hrec')).1
        have hidx := own'.idx v j r hc' hl'.1.frees hrec'
        rw [hfr] at hrec' hidx
        rw [hr0] at hrec'; cases hrec'
        rw [ho] at hidx
        have hobj : (s'.rcd r).obj = .cv c := (Option.some.inj hidx).symm
        rcases (qinv_of_reachable hr').qi.q3 r hlive hwt' with h | h
        · rw [hobj, hqeq] at h; exact absurd h hnq
        · exact h
    · obtain ⟨h1, _, _, h4⟩ := others_stepThr hs' t (fun h => hv h.symm)
      rw [h1] at hpc'
      rw [frSame_recs' h4] at hrec'
      exact ws_stay hr hws hs' hpc' hrec' hwt'

theorem ws_of_reachable {s : State} (h : Reachable s) : WS s := by
  refine reachable_induction (P := WS) ?_ (fun s s' e hr hp hs => ws_step hr hp hs) h
  intro t j r hpc
  simp [init] at hpc

/-- In the wait loop of cv_dequeue, while `waiting` is still set, a signaller owns the record. -/
theorem wspin_owned {s : State} {t : Tid} {j : Nat} {r : Rid} (hr : Reachable s) (hpc : s.pc t = .wDeqCv j .wspin)
    (hrec : (s.fr t).recs[j]? = some r) (hw : (s.rcd r).waiting = true) :
    ∃ u c l, wk (s.pc u) = some (c, l) ∧ r ∈ pend (s.post u) l :=
  ws_of_reachable hr t j r hpc hrec hw

end WaitN
