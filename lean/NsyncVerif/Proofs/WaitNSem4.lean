/-
  Proofs/WaitNSem4.lean — `ClrEff` for every step function.
-/
import NsyncVerif.Proofs.WaitNSem3

set_option linter.unusedSimpArgs false
set_option linter.unusedVariables false

namespace WaitN

theorem clr_stepSg {s s' : State} {t : Tid} {c : Nat} {bc : Bool} {st : SgSt} {e : Ev}
    (hpc : s.pc t = .sg c bc st) (h : stepSg s t c bc st e = .ok s') : ClrEff s s' t := by
  unfold stepSg at h
  split_ok h
  all_goals try clr_leaf2 h
  -- wake_waiters: ATM_STORE_REL (&p_nw->waiting, 0)
  cases h; intro x hx1 hx2
  simp only [setPost_rcd, setRec_rcd, ite_rec_waiting] at hx2
  split at hx2
  · rename_i hxr; subst hxr
    exact .inl ⟨by simp, .inl ⟨c, bc, _, hpc, ‹s.post t = none›, by simp⟩⟩
  · rw [hx1] at hx2; cases hx2

theorem clr_stepCtrRT {s s' : State} {t : Tid} {u : Use} {i : Nat} {l : Bool} {e : Ev}
    (h : stepCtrRT s t u i l e = .ok s') : ClrEff s s' t := by
  unfold stepCtrRT at h
  split_ok h <;> clr_leaf2 h

theorem clr_stepND {s s' : State} {t : Tid} {u : Use} {i : Nat} {st : NDst} {e : Ev}
    (h : stepND s t u i st e = .ok s') : ClrEff s s' t := by
  unfold stepND at h
  split_ok h <;> clr_leaf2 h

theorem clr_stepEnqCv {s s' : State} {t : Tid} {i : Nat} {st : CvEnqSt} {e : Ev}
    (h : stepEnqCv s t i st e = .ok s') : ClrEff s s' t := by
  unfold stepEnqCv at h
  split_ok h <;> clr_leaf2 h

theorem clr_stepEnq {s s' : State} {t : Tid} {i : Nat} {st : EnqSt} {e : Ev}
    (hpc : s.pc t = .wEnq i st) (h : stepEnq s t i st e = .ok s') : ClrEff s s' t := by
  unfold stepEnq at h
  split_ok h
  all_goals try clr_leaf2 h
  all_goals (cases h; intro x hx1 hx2; simp only [setPc_rcd, setPost_rcd, setRec_rcd, setObj_rcd, setFr_rcd, setSem_rcd, ownerRemove_rcd, ite_rec_waiting] at hx2; split at hx2)
  all_goals first
    | (rw [hx1] at hx2; cases hx2; done)
    | (rename_i hxr; subst hxr
       exact .inr (.inl ⟨i, .inr (.inr ⟨_, hpc⟩), ‹_›⟩))

theorem clr_stepDeqCv {s s' : State} {t : Tid} {j : Nat} {st : CvDeqSt} {e : Ev}
    (hpc : s.pc t = .wDeqCv j st) (h : stepDeqCv s t j st e = .ok s') : ClrEff s s' t := by
  unfold stepDeqCv at h
  split_ok h
  all_goals try clr_leaf2 h
  all_goals (cases h; intro x hx1 hx2; simp only [setPc_rcd, setPost_rcd, setRec_rcd, setObj_rcd, setFr_rcd, setSem_rcd, ownerRemove_rcd, ite_rec_waiting] at hx2; split at hx2)
  all_goals first
    | (rw [hx1] at hx2; cases hx2; done)
    | (rename_i hxr; subst hxr
       exact .inr (.inl ⟨j, .inl hpc, ‹_›⟩))

theorem clr_stepDeq {s s' : State} {t : Tid} {j : Nat} {st : DeqSt} {e : Ev}
    (hpc : s.pc t = .wDeq j st) (h : stepDeq s t j st e = .ok s') : ClrEff s s' t := by
  unfold stepDeq at h
  split_ok h
  all_goals try clr_leaf2 h
  all_goals (cases h; intro x hx1 hx2; simp only [setPc_rcd, setPost_rcd, setRec_rcd, setObj_rcd, setFr_rcd, setSem_rcd, ownerRemove_rcd, ite_rec_waiting] at hx2; split at hx2)
  all_goals first
    | (rw [hx1] at hx2; cases hx2; done)
    | (rename_i hxr; subst hxr
       exact .inr (.inl ⟨j, .inr (.inl ⟨_, hpc⟩), ‹_›⟩))

theorem clr_stepAlloc {s s' : State} {t : Tid} {e : Ev} (h : stepAlloc s t e = .ok s') : ClrEff s s' t := by
  unfold stepAlloc at h
  split_ok h <;> clr_leaf2 h

theorem clr_stepInit {s s' : State} {t : Tid} {i : Nat} {e : Ev} (h : stepInit s t i e = .ok s') : ClrEff s s' t := by
  unfold stepInit at h
  split_ok h
  all_goals try clr_leaf2 h
  all_goals (cases h; intro x hx1 hx2; simp only [setPc_rcd, setPost_rcd, setRec_rcd, setObj_rcd, setFr_rcd, setSem_rcd, ownerRemove_rcd, ite_rec_waiting] at hx2; split at hx2)
  all_goals first
    | (rw [hx1] at hx2; cases hx2; done)
    | (rename_i hxr; subst hxr; exact .inr (.inr (by simp_all)))

theorem clr_stepUnlockMu {s s' : State} {t : Tid} {e : Ev} (h : stepUnlockMu s t e = .ok s') : ClrEff s s' t := by
  unfold stepUnlockMu at h
  split_ok h <;> clr_leaf2 h

theorem clr_stepCvRT {s s' : State} {t : Tid} {j : Nat} {e : Ev} (h : stepCvRT s t j e = .ok s') : ClrEff s s' t := by
  unfold stepCvRT at h
  split_ok h <;> clr_leaf2 h

theorem clr_stepPdEnter {s s' : State} {t : Tid} {e : Ev} (h : stepPdEnter s t e = .ok s') : ClrEff s s' t := by
  unfold stepPdEnter at h
  split_ok h <;> clr_leaf2 h

theorem clr_stepPdWait {s s' : State} {t : Tid} {j : SemId} {e : Ev} (h : stepPdWait s t j e = .ok s') : ClrEff s s' t := by
  unfold stepPdWait at h
  split_ok h <;> clr_leaf2 h

theorem clr_stepFree {s s' : State} {t : Tid} {e : Ev} (h : stepFree s t e = .ok s') : ClrEff s s' t := by
  unfold stepFree at h
  split_ok h <;> clr_leaf2 h

theorem clr_stepRelock {s s' : State} {t : Tid} {e : Ev} (h : stepRelock s t e = .ok s') : ClrEff s s' t := by
  unfold stepRelock at h
  split_ok h <;> clr_leaf2 h

theorem clr_stepRet {s s' : State} {t : Tid} {r : Nat} {e : Ev} (h : stepRet s t r e = .ok s') : ClrEff s s' t := by
  unfold stepRet at h
  split_ok h <;> clr_leaf2 h

theorem clr_stepIdle {s s' : State} {t : Tid} {e : Ev} (h : stepIdle s t e = .ok s') : ClrEff s s' t := by
  unfold stepIdle at h
  split_ok h <;> clr_leaf2 h

theorem clr_stepThr {s s' : State} {t : Tid} {e : Ev} (h : stepThr s t e = .ok s') : ClrEff s s' t := by
  unfold stepThr at h
  split at h <;> rename_i hpc
  · exact clr_stepIdle h
  · simp at h
  · exact clr_stepSg hpc h
  · exact clr_stepCtrRT h
  · exact clr_stepND h
  · exact clr_stepEnqCv h
  · exact clr_stepEnq hpc h
  · exact clr_stepDeqCv hpc h
  · exact clr_stepDeq hpc h
  · exact clr_stepAlloc h
  · exact clr_stepInit h
  · exact clr_stepUnlockMu h
  · exact clr_stepCvRT h
  · exact clr_stepPdEnter h
  · exact clr_stepPdWait h
  · exact clr_stepFree h
  · exact clr_stepRelock h
  · exact clr_stepRet h

end WaitN
