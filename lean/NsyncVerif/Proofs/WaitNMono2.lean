/-
  Proofs/WaitNMono2.lean — `Mono` for every step function.
-/
import NsyncVerif.Proofs.WaitNMono

set_option linter.unusedSimpArgs false

namespace WaitN

macro "mono_leaf" h:ident : tactic =>
  `(tactic| first
    | exact mono_dflt $h
    | exact mono_rtDone $h
    | exact mono_deqDone $h
    | exact mono_afterEnq $h
    | exact mono_spinAcq $h
    | (cases $h:ident; first
        | exact Mono.refl _ _
        | mono_eq
        | exact mono_startScan _ _
        | (refine Mono.trans_eq (mono_postSem ‹postSem _ _ _ = some _›) ?_ ?_ ?_ <;> (first | rfl | (simp; done)))
        | (refine Mono.trans_eq (mono_bindSem ‹bindSem _ _ _ = some _›) ?_ ?_ ?_ <;> (first | rfl | (simp; done)))
        | (mono_tac; done)))

theorem mono_proto {s s' : State} {t : Tid} {e : Ev} (h : proto s t e = .ok s') : Mono s s' t := by
  unfold proto at h
  split_ok h <;> mono_leaf h

theorem mono_stepOpen {s s' : State} {t : Tid} {e : Ev} (h : stepOpen s t e = .ok s') : Mono s s' t := by
  unfold stepOpen at h
  split_ok h <;> first | exact mono_proto h | mono_leaf h

macro "mono_leaf2" h:ident : tactic =>
  `(tactic| first
    | mono_leaf $h
    | exact mono_stepOpen $h
    | exact mono_proto $h
    | (refine Mono.trans_eq ?_ rfl rfl rfl; mono_leaf $h)
    | (cases $h:ident; mono_tac; done)
    | (have hsh := shared_deqDone $h; refine Mono.trans_eq (s1 := _) ?_ hsh.1 hsh.2.1 hsh.2.2; mono_tac; done)
    | (have hsh := shared_afterEnq $h; refine Mono.trans_eq (s1 := _) ?_ hsh.1 hsh.2.1 hsh.2.2; mono_tac; done)
    | (have hsh := shared_rtDone $h; refine Mono.trans_eq (s1 := _) ?_ hsh.1 hsh.2.1 hsh.2.2; mono_tac; done))

theorem mono_stepSg {s s' : State} {t : Tid} {c : Nat} {bc : Bool} {st : SgSt} {e : Ev}
    (hpc : s.pc t = .sg c bc st) (h : stepSg s t c bc st e = .ok s') : Mono s s' t := by
  unfold stepSg at h
  split_ok h <;> mono_leaf2 h

theorem mono_stepCtrRT {s s' : State} {t : Tid} {u : Use} {i : Nat} {l : Bool} {e : Ev}
    (hpc : s.pc t = .wCtrRT u i l) (h : stepCtrRT s t u i l e = .ok s') : Mono s s' t := by
  unfold stepCtrRT at h
  split_ok h <;> mono_leaf2 h

theorem mono_stepND {s s' : State} {t : Tid} {u : Use} {i : Nat} {st : NDst} {e : Ev}
    (hpc : s.pc t = .wND u i st) (h : stepND s t u i st e = .ok s') : Mono s s' t := by
  unfold stepND at h
  split_ok h <;> mono_leaf2 h

theorem mono_stepEnqCv {s s' : State} {t : Tid} {i : Nat} {st : CvEnqSt} {e : Ev}
    (hpc : s.pc t = .wEnqCv i st) (h : stepEnqCv s t i st e = .ok s') : Mono s s' t := by
  unfold stepEnqCv at h
  split_ok h <;> mono_leaf2 h

theorem mono_stepEnq {s s' : State} {t : Tid} {i : Nat} {st : EnqSt} {e : Ev}
    (hpc : s.pc t = .wEnq i st) (h : stepEnq s t i st e = .ok s') : Mono s s' t := by
  unfold stepEnq at h
  split_ok h <;> mono_leaf2 h

theorem mono_stepDeqCv {s s' : State} {t : Tid} {j : Nat} {st : CvDeqSt} {e : Ev}
    (hpc : s.pc t = .wDeqCv j st) (h : stepDeqCv s t j st e = .ok s') : Mono s s' t := by
  unfold stepDeqCv at h
  split_ok h <;> mono_leaf2 h

theorem mono_stepDeq {s s' : State} {t : Tid} {j : Nat} {st : DeqSt} {e : Ev}
    (hpc : s.pc t = .wDeq j st) (h : stepDeq s t j st e = .ok s') : Mono s s' t := by
  unfold stepDeq at h
  split_ok h <;> mono_leaf2 h

theorem mono_stepAlloc {s s' : State} {t : Tid}  {e : Ev}
    (hpc : s.pc t = .wAlloc) (h : stepAlloc s t e = .ok s') : Mono s s' t := by
  unfold stepAlloc at h
  split_ok h <;> mono_leaf2 h

theorem mono_stepInit {s s' : State} {t : Tid} {i : Nat} {e : Ev}
    (hpc : s.pc t = .wInit i) (h : stepInit s t i e = .ok s') : Mono s s' t := by
  unfold stepInit at h
  split_ok h <;> mono_leaf2 h

theorem mono_stepUnlockMu {s s' : State} {t : Tid}  {e : Ev}
    (hpc : s.pc t = .wUnlock) (h : stepUnlockMu s t e = .ok s') : Mono s s' t := by
  unfold stepUnlockMu at h
  split_ok h <;> mono_leaf2 h

theorem mono_stepCvRT {s s' : State} {t : Tid} {j : Nat} {e : Ev}
    (hpc : s.pc t = .wCvRT j) (h : stepCvRT s t j e = .ok s') : Mono s s' t := by
  unfold stepCvRT at h
  split_ok h <;> mono_leaf2 h

theorem mono_stepPdEnter {s s' : State} {t : Tid}  {e : Ev}
    (hpc : s.pc t = .wPdEnter) (h : stepPdEnter s t e = .ok s') : Mono s s' t := by
  unfold stepPdEnter at h
  split_ok h <;> mono_leaf2 h

theorem mono_stepPdWait {s s' : State} {t : Tid} {j : SemId} {e : Ev}
    (hpc : s.pc t = .wPdWait j) (h : stepPdWait s t j e = .ok s') : Mono s s' t := by
  unfold stepPdWait at h
  split_ok h <;> mono_leaf2 h

theorem mono_stepFree {s s' : State} {t : Tid}  {e : Ev}
    (hpc : s.pc t = .wFree) (h : stepFree s t e = .ok s') : Mono s s' t := by
  unfold stepFree at h
  split_ok h <;> mono_leaf2 h

theorem mono_stepRelock {s s' : State} {t : Tid}  {e : Ev}
    (hpc : s.pc t = .wRelock) (h : stepRelock s t e = .ok s') : Mono s s' t := by
  unfold stepRelock at h
  split_ok h <;> mono_leaf2 h

theorem mono_stepRet {s s' : State} {t : Tid} {r : Nat} {e : Ev}
    (hpc : s.pc t = .wRet r) (h : stepRet s t r e = .ok s') : Mono s s' t := by
  unfold stepRet at h
  split_ok h <;> mono_leaf2 h

theorem mono_stepIdle {s s' : State} {t : Tid}  {e : Ev}
    (hpc : s.pc t = .idle) (h : stepIdle s t e = .ok s') : Mono s s' t := by
  unfold stepIdle at h
  split_ok h <;> mono_leaf2 h

theorem mono_stepThr {s s' : State} {t : Tid} {e : Ev} (h : stepThr s t e = .ok s') : Mono s s' t := by
  unfold stepThr at h
  split at h <;> rename_i hpc
  · exact mono_stepIdle hpc h
  · simp at h
  · exact mono_stepSg hpc h
  · exact mono_stepCtrRT hpc h
  · exact mono_stepND hpc h
  · exact mono_stepEnqCv hpc h
  · exact mono_stepEnq hpc h
  · exact mono_stepDeqCv hpc h
  · exact mono_stepDeq hpc h
  · exact mono_stepAlloc hpc h
  · exact mono_stepInit hpc h
  · exact mono_stepUnlockMu hpc h
  · exact mono_stepCvRT hpc h
  · exact mono_stepPdEnter hpc h
  · exact mono_stepPdWait hpc h
  · exact mono_stepFree hpc h
  · exact mono_stepRelock hpc h
  · exact mono_stepRet hpc h

end WaitN
