/-
Layer `Dll` (C17): arbitrary operation sequences on arbitrarily many disjoint lists.

Abstract state `Spec`: a sequence `List Addr` for every list id (`LId = Nat`, unboundedly many
lists) plus the set of free (self-linked, in no list) elements.
Concrete state `Conc`: the model heap plus one handle per list id.
`Inv C A` says that every handle represents its abstract sequence simultaneously, that the
sequences are pairwise disjoint, and that every free element is a singleton ring in no list.
`Inv.step` shows that every contract-abiding operation preserves `Inv`.
-/
import NsyncVerif.Proofs.DllSpec
import NsyncVerif.Proofs.DllTraverse

namespace Dll

abbrev LId := Nat

/-- Abstract state. -/
structure Spec where
  lists : LId → List Addr
  free : Addr → Prop

/-- Concrete state. -/
structure Conc where
  heap : Heap
  handle : LId → Addr

/-- Operations a client performs (as `mu.c`, `cv.c`, … do): initialise an element, insert a free
element first/last, remove an element, move a whole list to the front/back of another one
(the multi-element use of `make_first`/`make_last`, i.e. a genuine splice of two rings). -/
inductive Op where
  | init (e : Addr) (container : Nat)
  | makeFirst (lid : LId) (e : Addr)
  | makeLast (lid : LId) (e : Addr)
  | remove (lid : LId) (e : Addr)
  | makeFirstAll (lid lid' : LId)
  | makeLastAll (lid lid' : LId)
  | splice (lid : LId) (p : Addr) (lid' : LId) (n : Addr)

/-- Function update. -/
def upd {α : Type} (f : LId → α) (i : LId) (v : α) : LId → α := fun j => if j = i then v else f j

@[simp] theorem upd_same {α : Type} (f : LId → α) (i : LId) (v : α) : upd f i v i = v := by
  simp [upd]

theorem upd_other {α : Type} (f : LId → α) {i j : LId} (v : α) (h : j ≠ i) : upd f i v j = f j := by
  simp [upd, h]

/-- The documented contract of each operation, on the abstract state. -/
def Op.Ok (A : Spec) : Op → Prop
  | .init e _ => e ≠ 0 ∧ ∀ i, e ∉ A.lists i
  | .makeFirst _ e => A.free e
  | .makeLast _ e => A.free e
  | .remove lid e => e ∈ A.lists lid
  | .makeFirstAll lid lid' => lid ≠ lid'
  | .makeLastAll lid lid' => lid ≠ lid'
  | .splice lid p lid' n => lid ≠ lid' ∧ p ∈ A.lists lid ∧ n ∈ A.lists lid'

/-- Abstract semantics: plain list operations. -/
def Spec.apply (A : Spec) : Op → Spec
  | .init e _ => { A with free := fun a => a = e ∨ A.free a }
  | .makeFirst lid e =>
    { lists := upd A.lists lid (e :: A.lists lid), free := fun a => a ≠ e ∧ A.free a }
  | .makeLast lid e =>
    { lists := upd A.lists lid (A.lists lid ++ [e]), free := fun a => a ≠ e ∧ A.free a }
  | .remove lid e =>
    { lists := upd A.lists lid ((A.lists lid).erase e), free := fun a => a = e ∨ A.free a }
  | .makeFirstAll lid lid' =>
    { A with lists := upd (upd A.lists lid (A.lists lid' ++ A.lists lid)) lid' [] }
  | .makeLastAll lid lid' =>
    { A with lists := upd (upd A.lists lid (A.lists lid ++ A.lists lid')) lid' [] }
  | .splice lid p lid' n =>
    -- all of list `lid'`, starting at `n` and wrapping around, goes right after `p`
    -- ("after" the last element is the front: the lists are circular)
    let xs := A.lists lid
    let ys := rotateTo n (A.lists lid')
    let new := if xs.getLast? = some p then ys ++ xs else insertAfter p ys xs
    { A with lists := upd (upd A.lists lid new) lid' [] }

/-- Concrete semantics: the calls into the model of `dll.c`. -/
def Conc.apply (C : Conc) : Op → Conc
  | .init e c => { C with heap := Dll.init C.heap e c }
  | .makeFirst lid e =>
    let r := Dll.makeFirst C.heap (C.handle lid) e
    { heap := r.1, handle := upd C.handle lid r.2 }
  | .makeLast lid e =>
    let r := Dll.makeLast C.heap (C.handle lid) e
    { heap := r.1, handle := upd C.handle lid r.2 }
  | .remove lid e =>
    let r := Dll.remove C.heap (C.handle lid) e
    { heap := r.1, handle := upd C.handle lid r.2 }
  | .makeFirstAll lid lid' =>
    let r := Dll.makeFirst C.heap (C.handle lid) (Dll.first C.heap (C.handle lid'))
    { heap := r.1, handle := upd (upd C.handle lid r.2) lid' 0 }
  | .makeLastAll lid lid' =>
    let r := Dll.makeLast C.heap (C.handle lid) (Dll.last C.heap (C.handle lid'))
    { heap := r.1, handle := upd (upd C.handle lid r.2) lid' 0 }
  | .splice _ p lid' n =>
    { heap := Dll.spliceAfter C.heap p n, handle := upd C.handle lid' 0 }

/-- The representation relation, for all lists simultaneously. -/
structure Inv (C : Conc) (A : Spec) : Prop where
  repr : ∀ i, Repr C.heap (C.handle i) (A.lists i)
  disj : ∀ i j, i ≠ j → ∀ a ∈ A.lists i, a ∉ A.lists j
  free : ∀ a, A.free a → Ring C.heap [a] ∧ ∀ i, a ∉ A.lists i

theorem init_next (H : Heap) (e c x : Addr) :
    (init H e c).next x = if x = e then e else H.next x := by
  simp [init, Heap.setNext, Heap.setPrev, Heap.setContainer]

theorem init_prev (H : Heap) (e c x : Addr) :
    (init H e c).prev x = if x = e then e else H.prev x := by
  simp [init, Heap.setNext, Heap.setPrev, Heap.setContainer]

theorem init_container (H : Heap) (e c x : Addr) :
    (init H e c).container x = if x = e then c else H.container x := by
  simp [init, Heap.setNext, Heap.setPrev, Heap.setContainer]

/-- Frame condition shared by all cases: `H'` agrees with `H` outside `W` (the written cells). -/
def AgreeOutside (H H' : Heap) (W : Addr → Prop) : Prop :=
  ∀ x, ¬ W x → H'.next x = H.next x ∧ H'.prev x = H.prev x

theorem Repr.frame_outside {H H' : Heap} {W : Addr → Prop} {l : Addr} {xs : List Addr}
    (h : Repr H l xs) (hag : AgreeOutside H H' W) (hd : ∀ x ∈ xs, ¬ W x) : Repr H' l xs :=
  h.frame (fun x hx => hag x (hd x hx))

theorem Ring.frame_outside {H H' : Heap} {W : Addr → Prop} {xs : List Addr}
    (h : Ring H xs) (hag : AgreeOutside H H' W) (hd : ∀ x ∈ xs, ¬ W x) : Ring H' xs :=
  h.frame (fun x hx => hag x (hd x hx))

theorem Inv.step_init {C : Conc} {A : Spec} (hinv : Inv C A) {e : Addr} {c : Nat}
    (hok : (Op.init e c).Ok A) : Inv (C.apply (.init e c)) (A.apply (.init e c)) := by
  obtain ⟨he0, hnot⟩ := hok
  have hag : AgreeOutside C.heap (init C.heap e c) (fun x => x = e) := by
    intro x hx
    simp only [init_next, init_prev, hx, if_false, and_self]
  refine ⟨?_, hinv.disj, ?_⟩
  · intro i
    exact (hinv.repr i).frame_outside hag (fun x hx h => hnot i (h ▸ hx))
  · intro a ha
    rcases ha with rfl | ha
    · refine ⟨(ring_singleton _ _).mpr ⟨he0, ?_, ?_⟩, hnot⟩
      · simp [Conc.apply, init_next]
      · simp [Conc.apply, init_prev]
    · by_cases hae : a = e
      · subst hae
        refine ⟨(ring_singleton _ _).mpr ⟨he0, ?_, ?_⟩, hnot⟩
        · simp [Conc.apply, init_next]
        · simp [Conc.apply, init_prev]
      · exact ⟨(hinv.free a ha).1.frame_outside hag (by simpa using hae), (hinv.free a ha).2⟩

/-- Generic step for the four inserting operations: list `lid` absorbs the ring `es`, which
is either a free singleton or the whole list `lid'`. -/
theorem Inv.step_insert {C : Conc} {A : Spec} (hinv : Inv C A)
    (lid : LId) (es new : List Addr) (H' : Heap) (l' : Addr)
    (lists' : LId → List Addr) (handle' : LId → Addr) (free' : Addr → Prop)
    (hrepr : Repr H' l' new)
    (hmem : ∀ x, x ∈ new ↔ x ∈ A.lists lid ∨ x ∈ es)
    (hag : AgreeOutside C.heap H' (fun x => x ∈ A.lists lid ∨ x ∈ es))
    (hlid : lists' lid = new ∧ handle' lid = l')
    (hother : ∀ j, j ≠ lid →
      (lists' j = A.lists j ∧ handle' j = C.handle j ∧ ∀ x ∈ es, x ∉ A.lists j) ∨
      (lists' j = [] ∧ handle' j = 0))
    (hfree : ∀ a, free' a → A.free a ∧ a ∉ es) :
    Inv { heap := H', handle := handle' } { lists := lists', free := free' } := by
  refine ⟨?_, ?_, ?_⟩
  · intro i
    by_cases hi : i = lid
    · subst hi; simp only [hlid.1, hlid.2]; exact hrepr
    · rcases hother i hi with ⟨h1, h2, h3⟩ | ⟨h1, h2⟩
      · simp only [h1, h2]
        refine (hinv.repr i).frame_outside hag ?_
        intro x hx hw
        rcases hw with hw | hw
        · exact hinv.disj i lid hi x hx hw
        · exact h3 x hw hx
      · simp only [h1, h2]; exact (repr_nil _ _).mpr rfl
  · intro i j hij a ha haj
    simp only at ha haj
    by_cases hi : i = lid
    · subst hi
      have hj : j ≠ i := fun h => hij h.symm
      rw [hlid.1, hmem] at ha
      rcases hother j hj with ⟨h1, _, h3⟩ | ⟨h1, _⟩
      · rw [h1] at haj
        rcases ha with ha | ha
        · exact hinv.disj i j hij a ha haj
        · exact h3 a ha haj
      · rw [h1] at haj; simp at haj
    · rcases hother i hi with ⟨h1, _, h3⟩ | ⟨h1, _⟩
      · rw [h1] at ha
        by_cases hj : j = lid
        · subst hj
          rw [hlid.1, hmem] at haj
          rcases haj with haj | haj
          · exact hinv.disj i j hij a ha haj
          · exact h3 a haj ha
        · rcases hother j hj with ⟨g1, _, _⟩ | ⟨g1, _⟩
          · rw [g1] at haj; exact hinv.disj i j hij a ha haj
          · rw [g1] at haj; simp at haj
      · rw [h1] at ha; simp at ha
  · intro a ha
    obtain ⟨hfa, hnes⟩ := hfree a ha
    obtain ⟨hr, hnot⟩ := hinv.free a hfa
    refine ⟨hr.frame_outside hag ?_, ?_⟩
    · intro x hx hw
      simp only [List.mem_singleton] at hx
      subst hx
      rcases hw with hw | hw
      · exact hnot lid hw
      · exact hnes hw
    · intro i
      simp only
      by_cases hi : i = lid
      · subst hi
        rw [hlid.1, hmem]
        exact fun h => h.elim (hnot i) hnes
      · rcases hother i hi with ⟨h1, _, _⟩ | ⟨h1, _⟩
        · rw [h1]; exact hnot i
        · rw [h1]; simp

/-! ### Moving a whole list (`make_first (l, first (l2))`, `make_last (l, last (l2))`) -/

theorem makeFirstAll_spec {H : Heap} {l l2 : Addr} {xs ys : List Addr}
    (hr : Repr H l xs) (hr2 : Repr H l2 ys) (hd : ∀ x ∈ ys, x ∉ xs) :
    Repr (makeFirst H l (first H l2)).1 (makeFirst H l (first H l2)).2 (ys ++ xs) := by
  cases ys with
  | nil => rw [first_nil hr2, makeFirst_null]; simpa using hr
  | cons f t => rw [first_cons hr2]; exact makeFirst_spec hr (hr2.ring (by simp)).1 hd

theorem makeFirstAll_frame {H : Heap} {l l2 : Addr} {xs ys : List Addr}
    (hr : Repr H l xs) (hr2 : Repr H l2 ys) :
    AgreeOutside H (makeFirst H l (first H l2)).1 (fun x => x ∈ xs ∨ x ∈ ys) := by
  intro x hx
  cases ys with
  | nil => rw [first_nil hr2, makeFirst_null]; exact ⟨rfl, rfl⟩
  | cons f t =>
    rw [first_cons hr2]
    exact makeFirst_frame hr (hr2.ring (by simp)).1 (by simp) (fun h => hx (Or.inl h))
      (fun h => hx (Or.inr h))

theorem makeLastAll_spec {H : Heap} {l l2 : Addr} {xs ys : List Addr}
    (hr : Repr H l xs) (hr2 : Repr H l2 ys) (hd : ∀ x ∈ ys, x ∉ xs) :
    Repr (makeLast H l (last H l2)).1 (makeLast H l (last H l2)).2 (xs ++ ys) := by
  rcases list_nil_or_snoc ys with rfl | ⟨t, z, rfl⟩
  · rw [last_nil hr2, makeLast_null]; simpa using hr
  · rw [last_concat hr2]; exact makeLast_spec hr (hr2.ring (by simp)).1 hd

theorem makeLastAll_frame {H : Heap} {l l2 : Addr} {xs ys : List Addr}
    (hr : Repr H l xs) (hr2 : Repr H l2 ys) :
    AgreeOutside H (makeLast H l (last H l2)).1 (fun x => x ∈ xs ∨ x ∈ ys) := by
  intro x hx
  rcases list_nil_or_snoc ys with rfl | ⟨t, z, rfl⟩
  · rw [last_nil hr2, makeLast_null]; exact ⟨rfl, rfl⟩
  · rw [last_concat hr2]
    exact makeLast_frame hr (hr2.ring (by simp)).1 (by simp) (fun h => hx (Or.inl h))
      (fun h => hx (Or.inr h))

/-! ### One step -/

theorem Inv.step_remove {C : Conc} {A : Spec} (hinv : Inv C A) {lid : LId} {e : Addr}
    (hok : (Op.remove lid e).Ok A) :
    Inv (C.apply (.remove lid e)) (A.apply (.remove lid e)) := by
  have he : e ∈ A.lists lid := hok
  have hr := hinv.repr lid
  have hag : AgreeOutside C.heap (remove C.heap (C.handle lid) e).1 (fun x => x ∈ A.lists lid) :=
    fun x hx => remove_frame' hr he hx
  refine ⟨?_, ?_, ?_⟩
  · intro i
    by_cases hi : i = lid
    · subst hi
      simp only [Conc.apply, Spec.apply, upd_same]
      exact remove_spec hr he
    · simp only [Conc.apply, Spec.apply, upd_other _ _ hi]
      exact (hinv.repr i).frame_outside hag (fun x hx => hinv.disj i lid hi x hx)
  · intro i j hij a ha haj
    simp only [Spec.apply] at ha haj
    have ha' : a ∈ A.lists i := by
      by_cases hi : i = lid
      · subst hi; rw [upd_same] at ha; exact List.mem_of_mem_erase ha
      · rwa [upd_other _ _ hi] at ha
    have haj' : a ∈ A.lists j := by
      by_cases hj : j = lid
      · subst hj; rw [upd_same] at haj; exact List.mem_of_mem_erase haj
      · rwa [upd_other _ _ hj] at haj
    exact hinv.disj i j hij a ha' haj'
  · intro a ha
    have hsub : ∀ i x, x ∈ (A.apply (.remove lid e)).lists i → x ∈ A.lists i := by
      intro i x hx
      simp only [Spec.apply] at hx
      by_cases hi : i = lid
      · subst hi; rw [upd_same] at hx; exact List.mem_of_mem_erase hx
      · rwa [upd_other _ _ hi] at hx
    rcases ha with rfl | ha
    · refine ⟨(remove_singleton hr he).1, ?_⟩
      intro i hmem
      by_cases hi : i = lid
      · subst hi
        simp only [Spec.apply, upd_same] at hmem
        exact (remove_singleton hr he).2 hmem
      · exact hinv.disj i lid hi a (hsub i a hmem) he
    · obtain ⟨hring, hnot⟩ := hinv.free a ha
      refine ⟨hring.frame_outside hag ?_, fun i h => hnot i (hsub i a h)⟩
      intro x hx
      simp only [List.mem_singleton] at hx
      subst hx
      exact hnot lid

/-- Every contract-abiding operation preserves the representation invariant. -/
theorem Inv.step {C : Conc} {A : Spec} (hinv : Inv C A) (op : Op) (hok : op.Ok A) :
    Inv (C.apply op) (A.apply op) := by
  cases op with
  | init e c => exact hinv.step_init hok
  | remove lid e => exact hinv.step_remove hok
  | makeFirst lid e =>
    have hfe : A.free e := hok
    obtain ⟨hring, hnot⟩ := hinv.free e hfe
    refine hinv.step_insert lid [e] (e :: A.lists lid) _ _ _ _ _
      (makeFirst_spec (hinv.repr lid) hring (by simpa using hnot lid)) ?_ ?_ ⟨upd_same .., upd_same ..⟩ ?_ ?_
    · intro x; simp; grind
    · intro x hx
      exact makeFirst_frame (hinv.repr lid) hring (by simp) (fun h => hx (Or.inl h))
        (fun h => hx (Or.inr h))
    · intro j hj
      exact Or.inl ⟨upd_other _ _ hj, upd_other _ _ hj, by simpa using hnot j⟩
    · intro a ha; exact ⟨ha.2, by simpa using ha.1⟩
  | makeLast lid e =>
    have hfe : A.free e := hok
    obtain ⟨hring, hnot⟩ := hinv.free e hfe
    refine hinv.step_insert lid [e] (A.lists lid ++ [e]) _ _ _ _ _
      (makeLast_spec (t := []) (hinv.repr lid) hring (by simpa using hnot lid)) ?_ ?_
      ⟨upd_same .., upd_same ..⟩ ?_ ?_
    · intro x; simp
    · intro x hx
      exact makeLast_frame (hinv.repr lid) hring (by simp) (fun h => hx (Or.inl h))
        (fun h => hx (Or.inr h))
    · intro j hj
      exact Or.inl ⟨upd_other _ _ hj, upd_other _ _ hj, by simpa using hnot j⟩
    · intro a ha; exact ⟨ha.2, by simpa using ha.1⟩
  | makeFirstAll lid lid' =>
    have hne : lid ≠ lid' := hok
    refine hinv.step_insert lid (A.lists lid') (A.lists lid' ++ A.lists lid) _ _ _ _ _
      (makeFirstAll_spec (hinv.repr lid) (hinv.repr lid') (hinv.disj lid' lid (Ne.symm hne)))
      ?_ (makeFirstAll_frame (hinv.repr lid) (hinv.repr lid')) ?_ ?_ ?_
    · intro x; simp; grind
    · exact ⟨by rw [upd_other _ _ hne, upd_same], by rw [upd_other _ _ hne, upd_same]⟩
    · intro j hj
      by_cases hj' : j = lid'
      · subst hj'; exact Or.inr ⟨upd_same .., upd_same ..⟩
      · exact Or.inl ⟨by rw [upd_other _ _ hj', upd_other _ _ hj],
          by rw [upd_other _ _ hj', upd_other _ _ hj], hinv.disj lid' j (Ne.symm hj')⟩
    · intro a ha; exact ⟨ha, (hinv.free a ha).2 lid'⟩
  | makeLastAll lid lid' =>
    have hne : lid ≠ lid' := hok
    refine hinv.step_insert lid (A.lists lid') (A.lists lid ++ A.lists lid') _ _ _ _ _
      (makeLastAll_spec (hinv.repr lid) (hinv.repr lid') (hinv.disj lid' lid (Ne.symm hne)))
      ?_ (makeLastAll_frame (hinv.repr lid) (hinv.repr lid')) ?_ ?_ ?_
    · intro x; simp
    · exact ⟨by rw [upd_other _ _ hne, upd_same], by rw [upd_other _ _ hne, upd_same]⟩
    · intro j hj
      by_cases hj' : j = lid'
      · subst hj'; exact Or.inr ⟨upd_same .., upd_same ..⟩
      · exact Or.inl ⟨by rw [upd_other _ _ hj', upd_other _ _ hj],
          by rw [upd_other _ _ hj', upd_other _ _ hj], hinv.disj lid' j (Ne.symm hj')⟩
    · intro a ha; exact ⟨ha, (hinv.free a ha).2 lid'⟩
  | splice lid p lid' n =>
    obtain ⟨hne, hp, hn⟩ : lid ≠ lid' ∧ p ∈ A.lists lid ∧ n ∈ A.lists lid' := hok
    have hr2 := ((hinv.repr lid').ring (List.ne_nil_of_mem hn)).1
    have hd := hinv.disj lid' lid (Ne.symm hne)
    refine hinv.step_insert lid (A.lists lid') _ _ _ _ _ _
      (splice_spec' (hinv.repr lid) hr2 hp hn hd) ?_ ?_ ?_ ?_ ?_
    · intro x
      obtain ⟨as, bs, hxs, hpas⟩ := List.eq_append_cons_of_mem hp
      split
      · simp only [List.mem_append, mem_rotateTo hn]; grind
      · rw [hxs, insertAfter_split _ _ hpas, ← hxs]
        have : x ∈ A.lists lid ↔ x ∈ as ++ p :: bs := by rw [hxs]
        simp only [List.mem_append, List.mem_cons, mem_rotateTo hn] at this ⊢
        grind
    · intro x hx
      exact splice_frame' (hinv.repr lid) hr2 hp hn (fun h => hx (Or.inl h)) (fun h => hx (Or.inr h))
    · exact ⟨by rw [upd_other _ _ hne, upd_same], upd_other _ _ hne⟩
    · intro j hj
      by_cases hj' : j = lid'
      · subst hj'; exact Or.inr ⟨upd_same .., upd_same ..⟩
      · exact Or.inl ⟨by rw [upd_other _ _ hj', upd_other _ _ hj],
          upd_other _ _ hj', hinv.disj lid' j (Ne.symm hj')⟩
    · intro a ha; exact ⟨ha, (hinv.free a ha).2 lid'⟩

/-! ### Sequences of operations -/


def Spec.run (A : Spec) (ops : List Op) : Spec := ops.foldl Spec.apply A
def Conc.run (C : Conc) (ops : List Op) : Conc := ops.foldl Conc.apply C

/-- Every operation of the sequence respects its contract in the state it is applied to. -/
def OkSeq (A : Spec) : List Op → Prop
  | [] => True
  | op :: ops => op.Ok A ∧ OkSeq (A.apply op) ops

theorem OkSeq.take {A : Spec} {ops : List Op} (h : OkSeq A ops) (k : Nat) : OkSeq A (ops.take k) := by
  induction ops generalizing A k with
  | nil => simpa using h
  | cons op ops ih =>
    cases k with
    | zero => simp [OkSeq]
    | succ k => exact ⟨h.1, ih h.2 k⟩

/-- Unbounded induction over the operation list. -/
theorem Inv.run {C : Conc} {A : Spec} (hinv : Inv C A) (ops : List Op) (hok : OkSeq A ops) :
    Inv (C.run ops) (A.run ops) := by
  induction ops generalizing C A with
  | nil => exact hinv
  | cons op ops ih => exact ih (hinv.step op hok.1) hok.2

/-- The state before anything happened: arbitrary (uninitialised) memory, all lists empty,
no element initialised. -/
def Spec.empty : Spec := { lists := fun _ => [], free := fun _ => False }
def Conc.empty (H : Heap) : Conc := { heap := H, handle := fun _ => 0 }

theorem Inv.empty (H : Heap) : Inv (Conc.empty H) Spec.empty :=
  ⟨fun _ => (repr_nil _ _).mpr rfl, fun _ _ _ _ h => by simp [Spec.empty] at h, fun _ h => h.elim⟩

end Dll
