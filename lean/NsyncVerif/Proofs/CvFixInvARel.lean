/-
  Layer `CvFix` (cv.c with the repair of F3; adapted from the `Cv` file of the same name): structural invariant — releases of the spinlock.
-/
import NsyncVerif.Proofs.CvFixInvAOther

namespace NsyncVerif.CvFix

/-- Generic release: the holder `t` stores its `old` word; record statuses, flags and owners, the
    queue and all lists are unchanged; the new frame of `t` is outside the critical section. -/
theorem invA_release {s s' : State} {t : Tid} (hi : InvA s) (hh : s.holder = some t)
    (hsp : s'.word.spin = false) (hne : s'.word.ne = (s.thr t).old.ne) (hhold : s'.holder = none)
    (hq : s'.queue = s.queue) (hthr : ∀ u, u ≠ t → s'.thr u = s.thr u)
    (hx1 : (s'.thr t).loc.holds = false) (hx2 : (s'.thr t).list = (s.thr t).list)
    (hrec : ∀ q, (s'.recs q).stat = (s.recs q).stat ∧ (s'.recs q).waiting = (s.recs q).waiting ∧
                 (s'.recs q).owner = (s.recs q).owner)
    (ht : TInvA s' t)
    (hb : ¬ ((s'.thr t).loc = .sRcLd ∨ (s'.thr t).loc = .sRcCas ∨ (s'.thr t).loc = .sRel)) : InvA s' := by
  have hth := (hi.hold t).mp hh
  have hnot : ∀ u, u ≠ t → (s.thr u).loc.holds = false := by
    intro u hu
    cases hb' : (s.thr u).loc.holds
    · rfl
    · exact absurd (hi.holder_unique hth hb') hu
  obtain ⟨a1, a2, a3, a4, a5, a6, a7, a8, a9, a10, a11, a12⟩ := hi
  constructor
  · rw [hsp, hhold]; rfl
  · intro u
    rw [hhold]
    by_cases hu : u = t
    · subst hu; simp [hx1]
    · rw [hthr u hu]; simp [hnot u hu]
  · intro u e; rw [hhold] at e; cases e
  · intro _; rw [hne, hq]; exact (a3 t hh).2
  · rw [hq]; exact a5
  · intro r; rw [hq, (hrec r).1]; exact a6 r
  · intro r; rw [(hrec r).1, (hrec r).2.1]; exact a7 r
  · intro u
    by_cases hu : u = t
    · subst hu; rw [hx2]; exact a8 u
    · rw [hthr u hu]; exact a8 u
  · intro u r
    rw [(hrec r).1]
    by_cases hu : u = t
    · subst hu; rw [hx2]; exact a9 u r
    · rw [hthr u hu]; exact a9 u r
  · intro u
    by_cases hu : u = t
    · subst hu; exact ht
    · refine tinvA_other (a10 u) (hthr u hu) ?_ ?_
      · intro q _ hq'
        exact RecOK.of_stat (hrec q).2.2 (hrec q).1 hq'
      · intro _ q e; rw [(hrec q).1]; exact e
  · intro u hb1 hb2
    by_cases hu : u = t
    · subst hu; exact absurd hb2 hb
    · rw [hthr u hu] at hb1 hb2
      have := hnot u hu
      rcases hb2 with hb2 | hb2 | hb2 <;> simp [hb2, Loc.holds] at this
  · intro r; rw [(hrec r).1, (hrec r).2.1]; exact a12 r

theorem word_of_dec {new : Nat} {n old : Word} (hnew : new = old.enc) (hn : Word.dec? new = some n) : n = old := by
  have := dec_enc hn
  rw [hnew] at this
  exact enc_inj this

set_option hygiene false in
macro "tinv_t" hl:ident : tactic =>
  `(tactic| (
     have ht := hi.thr t
     obtain ⟨t1, t2, t3, t4, t5, t6, t7, t8, t9, t10, t11, t12⟩ := ht
     simp only [waitLive, waitPrep, inWaitN, Loc.wakePhase, Loc.holds, $hl:ident] at t1 t2 t3 t4 t5 t8 t9 t10 t11 t12
     constructor <;> simp [waitLive, waitPrep, inWaitN, Loc.wakePhase, Loc.holds] <;> simp_all))

theorem invA_relWait2 {s : State} (hi : InvA s) (t : Tid) (new : Nat) (n : Word) (hl : (s.thr t).loc = .wRel2)
    (hh : s.holder = some t) (hnew : new = (s.thr t).old.enc) (hn : Word.dec? new = some n) (hsp : n.spin = false) :
    InvA ({ s with word := n, holder := none }.setThr t { s.thr t with loc := .wTail }) := by
  have e := word_of_dec hnew hn
  refine invA_release (t := t) hi hh hsp (by simp [e]) rfl rfl (fun u hu => by simp [hu]) (by simp [Loc.holds])
    (by simp) (fun q => ⟨rfl, rfl, rfl⟩) ?_ (by simp)
  tinv_t hl

/-- The release store of emit_cv_state (debug.c/7). -/
theorem invA_relDbg {s : State} (hi : InvA s) (t : Tid) (new : Nat) (n : Word) (hl : (s.thr t).loc = .dWalk)
    (hh : s.holder = some t) (hnew : new = (s.thr t).old.enc) (hn : Word.dec? new = some n) (hsp : n.spin = false) :
    InvA ({ s with word := n, holder := none }.setThr t { s.thr t with loc := .dRet }) := by
  have e := word_of_dec hnew hn
  refine invA_release (t := t) hi hh hsp (by simp [e]) rfl rfl (fun u hu => by simp [hu]) (by simp [Loc.holds])
    (by simp) (fun q => ⟨rfl, rfl, rfl⟩) ?_ (by simp)
  tinv_t hl

theorem invA_relWait {s : State} (hi : InvA s) (t : Tid) (new : Nat) (n : Word) (hl : (s.thr t).loc = .wRel)
    (hh : s.holder = some t) (hnew : new = (s.thr t).old.enc) (hn : Word.dec? new = some n) (hsp : n.spin = false) :
    InvA ({ s with word := n, holder := none, seq := s.seq + 1 }.setRec (s.thr t).r
            { s.recs (s.thr t).r with pub := true, enqSeq := s.seq }
          |>.setThr t { s.thr t with loc := .wUnlock }) := by
  have e := word_of_dec hnew hn
  refine invA_release (t := t) hi hh hsp (by simp [e]) rfl rfl (fun u hu => by simp [hu]) (by simp [Loc.holds])
    (by simp) (fun q => by simp; split <;> simp_all) ?_ (by simp)
  tinv_t hl
  all_goals (intro r hr; split <;> simp_all)

theorem invA_relEnq {s : State} (hi : InvA s) (t : Tid) (new : Nat) (n : Word) (hl : (s.thr t).loc = .nEnqRel)
    (hh : s.holder = some t) (hnew : new = (s.thr t).old.enc) (hn : Word.dec? new = some n) (hsp : n.spin = false) :
    InvA ({ s with word := n, holder := none, seq := s.seq + 1 }.setRec (s.thr t).r
            { s.recs (s.thr t).r with pub := true, enqSeq := s.seq }
          |>.setThr t { s.thr t with loc := .nOut }) := by
  have e := word_of_dec hnew hn
  refine invA_release (t := t) hi hh hsp (by simp [e]) rfl rfl (fun u hu => by simp [hu]) (by simp [Loc.holds])
    (by simp) (fun q => by simp; split <;> simp_all) ?_ (by simp)
  tinv_t hl
  all_goals (intro r hr; split <;> simp_all)


theorem wakeEntry_cases (s : State) (l : List Rid) :
    (l = [] ∧ wakeEntry s l = .kRet) ∨ (l ≠ [] ∧ (wakeEntry s l = .wwMuLd ∨ wakeEntry s l = .wwStore)) := by
  unfold wakeEntry
  cases l with
  | nil => simp
  | cons f rest => simp; intro _; exact (Classical.em _).symm

theorem invA_relSig {s : State} (hi : InvA s) (t : Tid) (new : Nat) (n : Word) (hl : (s.thr t).loc = .sRel)
    (hh : s.holder = some t) (hnew : new = if (s.thr t).bcast then 0 else (s.thr t).old.enc)
    (hn : Word.dec? new = some n) (hsp : n.spin = false) :
    InvA ({ s with word := n, holder := none }.setThr t { s.thr t with loc := wakeEntry s (s.thr t).list }) := by
  have e : n = (s.thr t).old := by
    by_cases hb : (s.thr t).bcast = true
    · have hq := hi.bq t hb (.inr (.inr hl))
      obtain ⟨o1, o2⟩ := hi.old t hh
      have : (s.thr t).old = ⟨false, false⟩ := by
        cases ho : (s.thr t).old with
        | mk sp ne =>
          rw [ho] at o1 o2
          simp at o1
          cases ne
          · simp [o1]
          · simp [hq] at o2
      rw [if_pos hb] at hnew
      subst hnew
      simp [Word.dec?] at hn
      rw [this, ← hn]
    · rw [if_neg hb] at hnew
      exact word_of_dec hnew hn
  rcases wakeEntry_cases s (s.thr t).list with ⟨hl0, hw⟩ | ⟨hl0, hw | hw⟩
  all_goals
    rw [hw]
    refine invA_release (t := t) hi hh hsp (by simp [e]) rfl rfl (fun u hu => by simp [hu]) (by simp [Loc.holds])
      (by simp) (fun q => ⟨rfl, rfl, rfl⟩) ?_ (by simp)
    tinv_t hl

theorem invA_relDeq {s : State} (hi : InvA s) (t : Tid) (new : Nat) (n : Word) (hl : (s.thr t).loc = .nDeqRel)
    (hh : s.holder = some t) (hnew : new = (s.thr t).old.enc) (hn : Word.dec? new = some n) (hsp : n.spin = false) :
    InvA ({ s with word := n, holder := none }.setRec (s.thr t).r
            { s.recs (s.thr t).r with
                stat := match (s.recs (s.thr t).r).stat with | .listed u => RStat.listed u | _ => RStat.idle }
          |>.setThr t { s.thr t with loc := .nOut, mine := (s.thr t).mine.erase (s.thr t).r }) := by
  have e := word_of_dec hnew hn
  have hth := (hi.hold t).mp hh
  have hnot : ∀ u, u ≠ t → (s.thr u).loc.holds = false := by
    intro u hu
    cases hb' : (s.thr u).loc.holds
    · rfl
    · exact absurd (hi.holder_unique hth hb') hu
  have ht := hi.thr t
  obtain ⟨t1, t2, t3, t4, t5, t6, t7, t8, t9, t10, t11, t12⟩ := ht
  simp only [waitLive, waitPrep, inWaitN, Loc.wakePhase, Loc.holds, hl] at t1 t2 t3 t4 t5 t8 t9 t10 t11 t12
  obtain ⟨hrm, hrq⟩ := t10 (.inr trivial)
  obtain ⟨rnm, rown, rni, rnp⟩ := t6 _ hrm
  -- the new status of the record
  have hst : ∀ q, ((if q = (s.thr t).r then
        { s.recs (s.thr t).r with
            stat := match (s.recs (s.thr t).r).stat with | .listed u => RStat.listed u | _ => RStat.idle }
      else s.recs q).stat = (s.recs q).stat) ∨
      (q = (s.thr t).r ∧ (∀ u, (s.recs q).stat ≠ .listed u) ∧
        (if q = (s.thr t).r then
          { s.recs (s.thr t).r with
              stat := match (s.recs (s.thr t).r).stat with | .listed u => RStat.listed u | _ => RStat.idle }
         else s.recs q).stat = .idle) := by
    intro q
    by_cases hq : q = (s.thr t).r
    · subst hq
      simp only [if_true]
      cases hs : (s.recs (s.thr t).r).stat <;> simp
    · simp [hq]
  obtain ⟨a1, a2, a3, a4, a5, a6, a7, a8, a9, a10, a11, a12⟩ := hi
  constructor
  · simp [hsp]
  · intro u
    by_cases hu : u = t
    · subst hu; simp [Loc.holds]
    · simp [hu, hnot u hu]
  · intro u e; simp at e
  · intro _; simp [e]; exact (a3 t hh).2
  · exact a5
  · intro q
    simp only [setThr_queue, setRec_queue, setThr_recs, setRec_recs]
    rcases hst q with h | ⟨h1, h2, h3⟩
    · rw [h]; exact a6 q
    · rw [h3]; subst h1
      simp; intro hm; exact hrq ((a6 _).mp hm)
  · intro q
    simp only [setThr_recs, setRec_recs]
    rcases hst q with h | ⟨h1, h2, h3⟩
    · intro hq'
      rw [h] at hq'
      have := a7 q hq'
      by_cases hq : q = (s.thr t).r
      · subst hq; simpa using this
      · simpa [hq] using this
    · rw [h3]; simp
  · intro u
    by_cases hu : u = t
    · subst hu; simp; exact a8 u
    · simp [hu]; exact a8 u
  · intro u q
    have key : q ∈ (s.thr u).list ↔
        (if q = (s.thr t).r then
          { s.recs (s.thr t).r with
              stat := match (s.recs (s.thr t).r).stat with | .listed u => RStat.listed u | _ => RStat.idle }
         else s.recs q).stat = .listed u := by
      rcases hst q with h | ⟨h1, h2, h3⟩
      · rw [h]; exact a9 u q
      · rw [h3]; simp; intro hm; exact h2 u ((a9 u q).mp hm)
    by_cases hu : u = t
    · subst hu; simpa using key
    · simpa [hu] using key
  · intro u
    by_cases hu : u = t
    · subst hu
      constructor <;> simp [waitLive, waitPrep, inWaitN, Loc.wakePhase, Loc.holds]
      · exact t1 trivial
      · intro q hq
        have hne : q ≠ (s.thr u).r := fun e => by
          subst e; exact (List.Nodup.mem_erase_iff t7).mp hq |>.1 rfl
        have := t6 q (List.mem_of_mem_erase hq)
        simpa [hne] using this
      · exact t7.erase _
    · refine tinvA_other (a10 u) (by simp [hu]) ?_ ?_
      · intro q ho hq'
        have hne : q ≠ (s.thr t).r := fun e => by subst e; rw [rown] at ho; exact hu ho.symm
        simp only [setThr_recs, setRec_recs, hne, if_false]
        exact RecOK.rfl' hq'
      · intro hb; rw [hnot u hu] at hb; cases hb
  · intro u hb1 hb2
    by_cases hu : u = t
    · subst hu; simp at hb2
    · simp [hu] at hb1 hb2
      have := hnot u hu
      rcases hb2 with hb2 | hb2 | hb2 <;> simp [hb2, Loc.holds] at this
  · intro q
    simp only [setThr_recs, setRec_recs]
    rcases hst q with h | ⟨h1, h2, h3⟩
    · intro hq'
      rw [h] at hq'
      have := a12 q hq'
      by_cases hq : q = (s.thr t).r
      · subst hq; simpa using this
      · simpa [hq] using this
    · rw [h3]; simp

theorem invA_relDeqW {s : State} (hi : InvA s) (t : Tid) (new : Nat) (n : Word) (hl : (s.thr t).loc = .nDeqRelW)
    (hh : s.holder = some t) (hnew : new = (s.thr t).old.enc) (hn : Word.dec? new = some n) (hsp : n.spin = false) :
    InvA ({ s with word := n, holder := none }.setThr t { s.thr t with loc := .nDeqSpin }) := by
  have e := word_of_dec hnew hn
  refine invA_release (t := t) hi hh hsp (by simp [e]) rfl rfl (fun u hu => by simp [hu]) (by simp [Loc.holds])
    (by simp) (fun q => ⟨rfl, rfl, rfl⟩) ?_ (by simp)
  tinv_t hl

/-- The wait loop of the repaired cv_dequeue observes `waiting == 0`: the record leaves the cv. -/
theorem invA_deqSpinExit {s : State} (hi : InvA s) (t : Tid) (r : Rid) (hl : (s.thr t).loc = .nDeqSpin)
    (hr : r = (s.thr t).r) :
    InvA (s.setRec r
            { s.recs r with stat := match (s.recs r).stat with | .listed u => RStat.listed u | _ => RStat.idle }
          |>.setThr t { s.thr t with loc := .nOut, mine := (s.thr t).mine.erase r }) := by
  subst hr
  have hnh : s.holder ≠ some t := by
    intro e; have := (hi.hold t).mp e; simp [hl, Loc.holds] at this
  have ht := hi.thr t
  obtain ⟨t1, t2, t3, t4, t5, t6, t7, t8, t9, t10, t11, t12⟩ := ht
  simp only [waitLive, waitPrep, inWaitN, Loc.wakePhase, Loc.holds, hl] at t1 t2 t3 t4 t5 t8 t9 t10 t11 t12
  obtain ⟨hrm, hrq⟩ := t12 (.inr trivial)
  obtain ⟨rnm, rown, rni, rnp⟩ := t6 _ hrm
  have hst : ∀ q, ((if q = (s.thr t).r then
        { s.recs (s.thr t).r with
            stat := match (s.recs (s.thr t).r).stat with | .listed u => RStat.listed u | _ => RStat.idle }
      else s.recs q).stat = (s.recs q).stat) ∨
      (q = (s.thr t).r ∧ (∀ u, (s.recs q).stat ≠ .listed u) ∧
        (if q = (s.thr t).r then
          { s.recs (s.thr t).r with
              stat := match (s.recs (s.thr t).r).stat with | .listed u => RStat.listed u | _ => RStat.idle }
         else s.recs q).stat = .idle) := by
    intro q
    by_cases hq : q = (s.thr t).r
    · subst hq
      simp only [if_true]
      cases hs : (s.recs (s.thr t).r).stat <;> simp
    · simp [hq]
  obtain ⟨a1, a2, a3, a4, a5, a6, a7, a8, a9, a10, a11, a12⟩ := hi
  constructor
  · simpa using a1
  · intro u
    by_cases hu : u = t
    · subst hu; simp [Loc.holds]; exact hnh
    · simp [hu]; exact a2 u
  · intro u e
    have hu : u ≠ t := by intro e'; subst e'; exact hnh (by simpa using e)
    simp [hu]; exact a3 u (by simpa using e)
  · simpa using a4
  · exact a5
  · intro q
    simp only [setThr_queue, setRec_queue, setThr_recs, setRec_recs]
    rcases hst q with h | ⟨h1, h2, h3⟩
    · rw [h]; exact a6 q
    · rw [h3]; subst h1
      simp; intro hm; exact hrq ((a6 _).mp hm)
  · intro q
    simp only [setThr_recs, setRec_recs]
    rcases hst q with h | ⟨h1, h2, h3⟩
    · intro hq'
      rw [h] at hq'
      have := a7 q hq'
      by_cases hq : q = (s.thr t).r
      · subst hq; simpa using this
      · simpa [hq] using this
    · rw [h3]; simp
  · intro u
    by_cases hu : u = t
    · subst hu; simp; exact a8 u
    · simp [hu]; exact a8 u
  · intro u q
    have key : q ∈ (s.thr u).list ↔
        (if q = (s.thr t).r then
          { s.recs (s.thr t).r with
              stat := match (s.recs (s.thr t).r).stat with | .listed u => RStat.listed u | _ => RStat.idle }
         else s.recs q).stat = .listed u := by
      rcases hst q with h | ⟨h1, h2, h3⟩
      · rw [h]; exact a9 u q
      · rw [h3]; simp; intro hm; exact h2 u ((a9 u q).mp hm)
    by_cases hu : u = t
    · subst hu; simpa using key
    · simpa [hu] using key
  · intro u
    by_cases hu : u = t
    · subst hu
      constructor <;> simp [waitLive, waitPrep, inWaitN, Loc.wakePhase, Loc.holds]
      · exact t1 trivial
      · intro q hq
        have hne : q ≠ (s.thr u).r := fun e => by
          subst e; exact (List.Nodup.mem_erase_iff t7).mp hq |>.1 rfl
        have := t6 q (List.mem_of_mem_erase hq)
        simpa [hne] using this
      · exact t7.erase _
    · refine tinvA_other (a10 u) (by simp [hu]) ?_ ?_
      · intro q ho hq'
        have hne : q ≠ (s.thr t).r := fun e => by subst e; rw [rown] at ho; exact hu ho.symm
        simp only [setThr_recs, setRec_recs, hne, if_false]
        exact RecOK.rfl' hq'
      · intro _ q e
        have hne : q ≠ (s.thr t).r := fun e' => by subst e'; exact hrq e
        simpa [hne] using e
  · intro u hb1 hb2
    by_cases hu : u = t
    · subst hu; simp at hb2
    · simp [hu] at hb1 hb2
      simpa using a11 u hb1 hb2
  · intro q
    simp only [setThr_recs, setRec_recs]
    rcases hst q with h | ⟨h1, h2, h3⟩
    · intro hq'
      rw [h] at hq'
      have := a12 q hq'
      by_cases hq : q = (s.thr t).r
      · subst hq; simpa using this
      · simpa [hq] using this
    · rw [h3]; simp

end NsyncVerif.CvFix
