/-
  Layer `Note` × vector clocks (property C03, note edge): definitions.

  The Note acceptor (`Model/Note.lean`: the current /repo/internal/note.c, i.e. after the repair of
  the defects F5 and F4 / F7, + the nsync_wait_n path of nsync_note_wait) is run in lock-step with the generic
  vector-clock machine `NsyncVerif.VC`.  The events of the acceptor carry the memory order each
  atomic operation REQUESTS in the log, and the acceptor rejects every atomic event whose order is
  not the one of the ATM_* macro at that site (`noteSiteOrd`, `step_orders`).  The machine is fed
  exactly the atomics on `note<k>.notified` and `nw<r>.waiting`, each with that order (all of them
  are loads or plain stores: note.c contains no CAS).  NOTHING else contributes an edge: not the
  note mutexes (lock / unlock / trylock / mu_wait events are invisible to the machine), not the
  semaphores, not the clock reads, not the interleaving.

  `PState` = acceptor state × clock state × ghosts:
    `cc t`     clock of thread `t` at its latest API `call` event;
    `capi t`   that call;
    `sets k`   the stores `notified := 1` performed on note `k` so far, OLDEST FIRST: who, the
               storer's clock just before the store, its clock at its API call, that call, and the
               `notify (n)` activation it belongs to (`top`; `none` for the store of
               nsync_note_new, note.c/7);
    `saw t k`  `i+1` iff, during its current API call, thread `t` performed an acquire load of
               `note<k>.notified` that read 1 from the store `(sets k)[i]`, or performed that store
               itself (latest such event); `0` otherwise;
    `zsaw t k` during its current API call thread `t` evaluated NOTIFIED_TIME (k) to zero by reading
               `expiry_time == 0` with the flag still 0 (a note created with a zero deadline on
               its path: notified from birth, nobody ever notifies it).
-/
import NsyncVerif.Proofs.NoteLock
import NsyncVerif.Proofs.VC

set_option linter.unusedSimpArgs false

namespace Note
open NsyncVerif

/-! ### the declared order of every site -/

/-- The order the ATM_* macro at each site of note.c / wait.c requests.  `<file>/<k>/<function>`:
    `k` = ordinal of the macro EXPANSION in that translation unit (the harness numbers them with
    `__COUNTER__`, so the six uses of NOTIFIED_TIME count: NOTIFIED_TIME (n) is
    `ATM_LOAD_ACQ (&(n_)->notified) != 0 ? nsync_time_zero : (n_)->expiry_time`, common.h:212).
    Source lines are those of the current /repo/internal/note.c (after the repair of F4 / F7). -/
def noteSiteOrd : Site → Ord
  | .childLd => .acq    -- note.c/0   note.c:109  t = NOTIFIED_TIME (n)                  (note_notify_child)
  | .childSt => .rel    -- note.c/1   note.c:113  ATM_STORE_REL (&n->notified, 1)        <- the notifier's store
  | .childWake => .rel  -- note.c/2   note.c:117  ATM_STORE_REL (&nw->waiting, 0)
  | .notifyLd => .acq   -- note.c/3   note.c:149  t = NOTIFIED_TIME (n)                  (notify)
  | .dlLd1 => .acq      -- note.c/4   note.c:175  if (ATM_LOAD_ACQ (&n->notified) != 0)  <- the observer's fast path
  | .dlLd2 => .acq      -- note.c/5   note.c:179  ntime = NOTIFIED_TIME (n)              (nsync_note_notified_deadline_)
  | .newLd => .acq      -- note.c/6   note.c:219  NOTIFIED_TIME (parent)                 (nsync_note_new)
  | .newSt => .rel      -- note.c/7   note.c:228  ATM_STORE_REL (&n->notified, 1)        <- born notified (F5 repair)
  | .enqLd => .acq      -- note.c/8   note.c:315  ntime = NOTIFIED_TIME (n)              (note_enqueue)
  | .enqSt1 => .rlx     -- note.c/9   note.c:318  ATM_STORE (&nw->waiting, 1)
  | .enqSt0 => .rlx     -- note.c/10  note.c:321  ATM_STORE (&nw->waiting, 0)
  | .deqLd => .acq      -- note.c/11  note.c:334  ntime = NOTIFIED_TIME (n)              (note_dequeue)
  | .deqSt => .rlx      -- note.c/12  note.c:337  ATM_STORE (&nw->waiting, 0)
  | .waitInit => .rlx   -- wait.c/0   wait.c:54   ATM_STORE (&nw[i].waiting, 0)
  | .other => .rlx      -- never accepted on a note location

def Site.all : List Site :=
  [.childLd, .childSt, .childWake, .notifyLd, .dlLd1, .dlLd2, .newLd, .newSt, .enqLd, .enqSt1,
   .enqSt0, .deqLd, .deqSt, .waitInit]

theorem Site.mem_all (s : Site) (h : s ≠ .other) : s ∈ Site.all := by
  cases s <;> simp [Site.all] at h ⊢

/-- `<file>/<k>/<function>` as in the event log. -/
def noteSiteName : Site → String
  | .childLd => "note.c/0/note_notify_child"
  | .childSt => "note.c/1/note_notify_child"
  | .childWake => "note.c/2/note_notify_child"
  | .notifyLd => "note.c/3/notify"
  | .dlLd1 => "note.c/4/nsync_note_notified_deadline_"
  | .dlLd2 => "note.c/5/nsync_note_notified_deadline_"
  | .newLd => "note.c/6/nsync_note_new"
  | .newSt => "note.c/7/nsync_note_new"
  | .enqLd => "note.c/8/note_enqueue"
  | .enqSt1 => "note.c/9/note_enqueue"
  | .enqSt0 => "note.c/10/note_enqueue"
  | .deqLd => "note.c/11/note_dequeue"
  | .deqSt => "note.c/12/note_dequeue"
  | .waitInit => "wait.c/0/nsync_wait_n"
  | .other => "?"

def ordStr : Ord → String
  | .rlx => "rlx" | .acq => "acq" | .rel => "rel" | .ar => "ar"

/-- The table `noteSiteOrd` as data: (site name as in the event log, declared order). -/
def noteSiteOrdTable : List (String × String) :=
  Site.all.map (fun s => (noteSiteName s, ordStr (noteSiteOrd s)))

/-- kind of operation at the site: `ld` or `st` (note.c has no CAS) -/
def Site.op : Site → String
  | .childSt | .childWake | .newSt | .enqSt1 | .enqSt0 | .deqSt | .waitInit => "st"
  | _ => "ld"

/-- The ATM_* macro that requests order `o` for an operation of kind `op`. -/
def macroOf (op : String) (o : Ord) : String :=
  if op == "ld" then (match o with | .rlx => "ATM_LOAD" | .acq => "ATM_LOAD_ACQ" | _ => "?")
  else (match o with | .rlx => "ATM_STORE" | .rel => "ATM_STORE_REL" | _ => "?")

/-- Where the macro of a site is written in the source: the sites that use NOTIFIED_TIME have
    their ATM_* macro in the body of that macro in common.h (one entry `("common.h", "(macro)", …)`
    of the regenerated table); the others are the direct ATM_* call sites of note.c / wait.c, in
    source order (`j` = index among the entries of that file).  (file, j, function, location) -/
def Site.src : Site → String × Nat × String × String
  | .childLd | .notifyLd | .dlLd2 | .newLd | .enqLd | .deqLd =>
    ("common.h", 0, "(macro)", "&(n_)->notified")
  | .childSt => ("note.c", 0, "note_notify_child", "&n->notified")
  | .childWake => ("note.c", 1, "note_notify_child", "&nw->waiting")
  | .dlLd1 => ("note.c", 2, "nsync_note_notified_deadline_", "&n->notified")
  | .newSt => ("note.c", 3, "nsync_note_new", "&n->notified")
  | .enqSt1 => ("note.c", 4, "note_enqueue", "&nw->waiting")
  | .enqSt0 => ("note.c", 5, "note_enqueue", "&nw->waiting")
  | .deqSt => ("note.c", 6, "note_dequeue", "&nw->waiting")
  | .waitInit => ("wait.c", 0, "nsync_wait_n", "&nw[i].waiting")
  | .other => ("?", 0, "?", "?")

/-- (file, index among the ATM_* entries of that file, function, macro the model assumes there,
    location expression) -/
def noteSiteRows : List (String × Nat × String × String × String) :=
  Site.all.map (fun s => (s.src.1, s.src.2.1, s.src.2.2.1, macroOf s.op (noteSiteOrd s), s.src.2.2.2))

/-- Does a site table `gen` ((file, function, macro, location) in source order, as regenerated in
    `NsyncVerif.Gen.sites`) have, at every site the Note product uses, the function, the macro (hence
    the memory order) and the location that `noteSiteOrd` assumes — and no further ATM_* call site in
    note.c (7 direct sites; in particular no load of `nw->waiting` and no CAS), exactly one in wait.c
    and exactly one macro body in common.h (NOTIFIED_TIME)?  Intended use:
    `theorem note_sites_tie : Note.noteSitesAgree Gen.sites = true := by decide`. -/
def noteSitesAgree (gen : List (String × String × String × String)) : Bool :=
  noteSiteRows.all (fun row =>
    match (gen.filter (fun g => g.1 == row.1))[row.2.1]? with
    | some g => g.2.1 == row.2.2.1 && g.2.2.1 == row.2.2.2.1 && g.2.2.2 == row.2.2.2.2
    | none => false)
  && (gen.filter (fun g => g.1 == "note.c")).length == 7
  && (gen.filter (fun g => g.1 == "wait.c")).length == 1
  && (gen.filter (fun g => g.1 == "common.h")).length == 1

/-! ### projection to the clock machine -/

def toOrd : Ord → VC.Ord
  | .rlx => .rlx | .acq => .acq | .rel => .rel | .ar => .ar

/-- Atomic locations of the machine. -/
inductive VLoc where
  /-- `note<k>.notified` -/
  | notified (k : NoteId)
  /-- `nw<r>.waiting` -/
  | waiting (r : Rid)
  deriving DecidableEq, Repr

/-- The clock-machine operation of an event: the atomics on `notified` and `waiting`, with the order
    the event declares.  Everything else (in particular every operation on a note mutex and every
    semaphore operation) is invisible to the machine. -/
def evVC : Event → Option (VC.AEv VLoc)
  | .ld t _ o k _ => some ⟨t, .ld, toOrd o, .notified k⟩
  | .stNote t _ o k _ _ => some ⟨t, .st, toOrd o, .notified k⟩
  | .stW t _ o r _ _ => some ⟨t, .st, toOrd o, .waiting r⟩
  | _ => none

def vstep (m : VC.St VLoc) (e : Event) : VC.St VLoc :=
  match evVC e with
  | some a => VC.step m a
  | none => m

/-- The clocks of an event list: happens-before as far as the declared orders give it. -/
def clocks (evs : List Event) : VC.St VLoc := VC.run VC.St.init (evs.filterMap evVC)

/-! ### the product -/

/-- One store `notified := 1`. -/
structure Setter where
  /-- the storing thread -/
  who : Tid
  /-- its clock just before the store -/
  clk : VC.Clock
  /-- its clock at the `call` event of the API call during which it stores -/
  callc : VC.Clock
  /-- that API call -/
  api : Option ApiCall
  /-- `some ⟨n, par, k⟩`: the store is note.c/1 inside the activation `notify (n)` (`k`: entered
      from nsync_note_notify, or from a call of nsync_note_notified_deadline_ that found the deadline
      passed); `none`: the store is note.c/7 (nsync_note_new, parent already notified) -/
  top : Option Top

def topOf : PC → Option Top
  | .chd _ _ top => some top
  | _ => none

structure PState where
  s : State
  m : VC.St VLoc
  cc : Tid → VC.Clock
  capi : Tid → Option ApiCall
  sets : NoteId → List Setter
  saw : Tid → NoteId → Nat
  zsaw : Tid → NoteId → Bool

def pinit : PState :=
  { s := init, m := VC.St.init, cc := fun _ => VC.Clock.bot, capi := fun _ => none,
    sets := fun _ => [], saw := fun _ _ => 0, zsaw := fun _ _ => false }

def newSetter (p : PState) (t : Tid) : Setter :=
  ⟨t, p.m.vc t, p.cc t, p.capi t, topOf (p.s.pc t)⟩

def gCc (p : PState) : Event → Tid → VC.Clock
  | .call t _ => fun u => if u = t then p.m.vc t else p.cc u
  | _ => p.cc

def gCapi (p : PState) : Event → Tid → Option ApiCall
  | .call t a => fun u => if u = t then some a else p.capi u
  | _ => p.capi

def gSets (p : PState) : Event → NoteId → List Setter
  | .stNote t _ _ k _ _ => fun x => if x = k then p.sets x ++ [newSetter p t] else p.sets x
  | _ => p.sets

def gSaw (p : PState) : Event → Tid → NoteId → Nat
  | .call t _ => fun u x => if u = t then 0 else p.saw u x
  | .ld t _ _ k _ =>
    fun u x => if u = t ∧ x = k ∧ (p.s.notes k).notified = true then (p.sets k).length else p.saw u x
  | .stNote t _ _ k _ _ => fun u x => if u = t ∧ x = k then (p.sets k).length + 1 else p.saw u x
  | _ => p.saw

def gZsaw (p : PState) : Event → Tid → NoteId → Bool
  | .call t _ => fun u x => if u = t then false else p.zsaw u x
  | .ld t _ _ k _ =>
    fun u x => if u = t ∧ x = k ∧ (p.s.notes k).notified = false ∧ (p.s.notes k).expiry = some 0
      then true else p.zsaw u x
  | _ => p.zsaw

def pstep (p : PState) (e : Event) : Except String PState :=
  match step p.s e with
  | .error msg => .error msg
  | .ok s' =>
    .ok { s := s', m := vstep p.m e, cc := gCc p e, capi := gCapi p e, sets := gSets p e,
          saw := gSaw p e, zsaw := gZsaw p e }

def prun (p : PState) : List Event → Except String PState
  | [] => .ok p
  | e :: es =>
    match pstep p e with
    | .ok p' => prun p' es
    | .error m => .error m

def PReachable (p : PState) : Prop := ∃ evs, prun pinit evs = .ok p

/-! ### basic facts about the product -/

theorem pstep_ok {p p' : PState} {e : Event} (h : pstep p e = .ok p') :
    step p.s e = .ok p'.s ∧ p'.m = vstep p.m e ∧ p'.cc = gCc p e ∧ p'.capi = gCapi p e ∧
    p'.sets = gSets p e ∧ p'.saw = gSaw p e ∧ p'.zsaw = gZsaw p e := by
  unfold pstep at h
  split at h
  · cases h
  · cases h; exact ⟨by assumption, rfl, rfl, rfl, rfl, rfl, rfl⟩

theorem pstep_s {p p' : PState} {e : Event} (h : pstep p e = .ok p') : step p.s e = .ok p'.s :=
  (pstep_ok h).1

theorem pstep_total {p : PState} {e : Event} {s' : State} (h : step p.s e = .ok s') :
    ∃ p', pstep p e = .ok p' ∧ p'.s = s' := by
  unfold pstep; rw [h]; exact ⟨_, rfl, rfl⟩

theorem prun_append (p : PState) (a b : List Event) :
    prun p (a ++ b) = match prun p a with | .ok p' => prun p' b | .error m => .error m := by
  induction a generalizing p with
  | nil => simp [prun]
  | cons e es ih =>
    simp only [List.cons_append, prun]
    cases pstep p e with
    | ok p' => simp [ih]
    | error m => simp

theorem PReachable.start : PReachable pinit := ⟨[], rfl⟩

theorem PReachable.next {p p' : PState} {e : Event} (h : PReachable p) (hs : pstep p e = .ok p') :
    PReachable p' := by
  obtain ⟨evs, h⟩ := h
  refine ⟨evs ++ [e], ?_⟩
  rw [prun_append, h]
  simp [prun, hs]

/-- Induction over reachable product states. -/
theorem PReachable.induction {P : PState → Prop} (h0 : P pinit)
    (hstep : ∀ p e p', PReachable p → P p → pstep p e = .ok p' → P p') :
    ∀ p, PReachable p → P p := by
  intro p ⟨evs, h⟩
  suffices ∀ (evs : List Event) (p0 : PState), PReachable p0 → P p0 → ∀ p, prun p0 evs = .ok p → P p from
    this evs pinit PReachable.start h0 p h
  intro evs
  induction evs with
  | nil => intro p0 _ hp p h; simp [prun] at h; exact h ▸ hp
  | cons e es ih =>
    intro p0 hr hp p h
    simp only [prun] at h
    cases hs : pstep p0 e with
    | ok p1 => rw [hs] at h; exact ih p1 (hr.next hs) (hstep p0 e p1 hr hp hs) p h
    | error m => rw [hs] at h; simp at h

/-- the acceptor component of a reachable product state is a reachable acceptor state -/
theorem PReachable.s {p : PState} (h : PReachable p) : Reachable p.s := by
  refine PReachable.induction (P := fun p => Reachable p.s) Reachable.start ?_ p h
  intro p e p' _ hr hs
  exact hr.next (pstep_s hs)

/-- every accepted event list has a product run with the same acceptor state -/
theorem prun_total {p : PState} {evs : List Event} {s : State} (h : run p.s evs = .ok s) :
    ∃ p', prun p evs = .ok p' ∧ p'.s = s := by
  induction evs generalizing p with
  | nil => simp [run] at h; exact ⟨p, rfl, h⟩
  | cons e es ih =>
    simp only [run] at h
    cases hs : step p.s e with
    | ok s1 =>
      rw [hs] at h
      obtain ⟨p1, hp1, hs1⟩ := pstep_total hs
      obtain ⟨p', hp', hs'⟩ := ih (p := p1) (by rw [hs1]; exact h)
      exact ⟨p', by simp [prun, hp1, hp'], hs'⟩
    | error m => rw [hs] at h; cases h

/-- the machine component is the clock machine run over the projected atomics of the event list -/
theorem prun_m {p p' : PState} {evs : List Event} (h : prun p evs = .ok p') :
    p'.m = VC.run p.m (evs.filterMap evVC) := by
  induction evs generalizing p with
  | nil => simp [prun] at h; subst h; rfl
  | cons e es ih =>
    simp only [prun] at h
    cases hs : pstep p e with
    | ok p1 =>
      rw [hs] at h
      rw [ih h, (pstep_ok hs).2.1]
      unfold vstep
      cases hev : evVC e with
      | none => simp [List.filterMap_cons, hev]
      | some a => simp [List.filterMap_cons, hev, VC.run]
    | error m => rw [hs] at h; cases h

end Note
