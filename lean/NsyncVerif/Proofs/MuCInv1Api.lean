import NsyncVerif.Proofs.MuCInv1Cas3
import NsyncVerif.Proofs.MuCInv1St
/-
  MuC, first invariant group: API boundaries, condition evaluations, semaphore and environment steps;
  the invariant in every reachable state.
-/
namespace NsyncVerif.MuC

/-- A step of thread `t` that may change `held t` and `pc t` but not the share of `t`. -/
theorem Inv1.api {s s' : State} (t : Tid) (h : Inv1 s)
    (hw : s'.word.wlock = s.word.wlock) (hr : s'.word.readers = s.word.readers)
    (ho : s'.wOwner = s.wOwner) (hro : s'.rOwners = s.rOwners)
    (hho : ∀ u, u ≠ t → s'.held u = s.held u) (hpo : ∀ u, u ≠ t → s'.pc u = s.pc u)
    (hsh : shareOf s' t = shareOf s t) (hok : (s'.pc t).ok)
    (hidle : s'.held t ≠ none → s'.pc t = .idle) : Inv1 s' := by
  refine ⟨h.lock.same hw hr ho hro ?_, ?_, ?_⟩
  · intro u
    by_cases hu : u = t
    · subst hu; exact hsh
    · simp [shareOf, hho u hu, hpo u hu]
  · intro u
    by_cases hu : u = t
    · subst hu; exact hok
    · rw [hpo u hu]; exact h.pcok u
  · intro u hu
    by_cases hut : u = t
    · subst hut; exact hidle hu
    · rw [hho u hut] at hu; rw [hpo u hut]; exact h.hidle u hu

theorem inv1_stepCas {s s' : State} {t : Tid} {o : Ord} {loc : Loc} {exp new obs : Nat} {ok : Bool} (h : Inv1 s)
    (hs : stepCas s t o loc exp new obs ok = .ok s') : Inv1 s' := by
  cases hpc : s.pc t <;>
    first
    | exact inv1_stepCas1 h (by rw [hpc]; trivial) hs
    | exact inv1_stepCas2 h (by rw [hpc]; trivial) hs
    | exact inv1_stepCas3 h (by rw [hpc]; trivial) hs
    | (simp [stepCas, hpc] at hs)

theorem inv1_stepCall {s s' : State} {t : Tid} {a : Api} (h : Inv1 s)
    (hs : stepCall s t a = .ok s') : Inv1 s' := by
  unfold stepCall at hs
  split at hs
  · rename_i heq
    cases a <;> dsimp only at hs
    all_goals (repeat' split at hs)
    all_goals first
      | (cases hs; done)
      | (cases hs
         refine Inv1.api t h (by simp) (by simp) (by simp) (by simp) (by intro u hu; simp [setFn, hu])
           (by intro u hu; simp [setFn, hu]) ?_ ?_ ?_
         · simp_all [shareOf, tshare, pcShare, setFn]
         · simp [PC.ok, MW.ok]
         · simp_all [setFn])
  · cases hs

theorem inv1_stepRet {s s' : State} {t : Tid} {a : Api} {res : Res} (h : Inv1 s)
    (hs : stepRet s t a res = .ok s') : Inv1 s' := by
  unfold stepRet at hs
  split at hs
  all_goals first
    | (cases hs; done)
    | (rename_i heq
       have hheld := h.held_none (t := t) (by rw [heq]; simp)
       repeat' split at hs
       all_goals first
         | (cases hs; done)
         | (cases hs
            refine Inv1.api t h (by simp) (by simp) (by simp) (by simp) (by intro u hu; simp [setFn, hu])
              (by intro u hu; simp [setFn, hu]) ?_ ?_ ?_
            · simp_all [shareOf, tshare, pcShare, setFn]
            · simp [PC.ok]
            · simp [setFn]))

theorem inv1_stepCond {s s' : State} {t : Tid} {fn : CFn} {k : Nat} {res : Bool} (h : Inv1 s)
    (hs : stepCond s t fn k res = .ok s') : Inv1 s' := by
  unfold stepCond at hs
  dsimp only at hs
  split at hs
  · rename_i c heq
    repeat' split at hs
    all_goals first
      | (cases hs; done)
      | (cases hs; inv1_local t h heq)
  · rename_i r sc heq
    have hok0 := h.pcok t; rw [heq] at hok0
    repeat' split at hs
    all_goals first
      | (cases hs; done)
      | skip
    obtain ⟨hf, p, hpc, hsc⟩ := afterEval_frame hs hok0.2.1
    refine Inv1.scan_same (late := sc.late) t h (by rw [heq]; simp) hok0.1 (by rw [heq]; rfl)
      (by rw [hf.word]) (by rw [hf.word]) hf.wOwner hf.rOwners hf.held (setFn_pc_other hpc) ?_
    rw [hpc]; simpa using hsc
  · cases hs

theorem inv1_step {cfg : Cfg} {s s' : State} {e : Event} (h : Inv1 s)
    (hs : step cfg s e = .ok s') : Inv1 s' := by
  cases e with
  | call t a => exact inv1_stepCall h hs
  | ret t a res => exact inv1_stepRet h hs
  | ld t o loc obs => exact inv1_stepLd h hs
  | st t o loc new obs => exact inv1_stepSt h hs
  | cas t o loc exp new obs ok => exact inv1_stepCas h hs
  | cond t fn k res => exact inv1_stepCond h hs
  | semPEnter t k =>
    simp only [step] at hs
    split at hs
    · rename_i heq; ld_case t h heq hs
    · cases hs
  | semPRet t k =>
    simp only [step] at hs
    split at hs
    · rename_i heq; ld_case t h heq hs
    · cases hs
  | semPdEnter t k dl =>
    simp only [step] at hs
    split at hs
    · rename_i heq; ld_case t h heq hs
    · cases hs
  | semPdRet t k timedout =>
    simp only [step] at hs
    split at hs
    · rename_i heq; ld_case t h heq hs
    · cases hs
  | semV t k =>
    simp only [step] at hs
    split at hs
    · rename_i r k' rest heq
      split at hs
      · cases hs
      · cases hs
        rw [afterFin_eq]
        have hok := h.pcok t; rw [heq] at hok
        refine Inv1.local t h (by simp) (by simp) (by simp) (by simp) (by simp)
          (by intro u hu; simp [setFn, hu]) (by rw [heq]; simp) ?_ ?_
        · simp only [semPost_pc, setPc_pc, setFn_same]
          cases rest <;> (simp [finPc, PC.ok]; try cases r <;> simp_all [Ret.pc, PC.ok, Ret.ok, MW.inner])
        · simp only [semPost_pc, setPc_pc, setFn_same, heq]
          cases rest <;> (simp [finPc, pcShare]; try cases r <;> simp_all [Ret.pc, pcShare, PC.ok, Ret.ok, MW.inner])
    · cases hs
  | envV k =>
    simp only [step] at hs; cases hs
    exact h.env (by simp) (by simp) (by simp) (by simp) (by simp) (by simp)
  | envSem k n =>
    simp only [step] at hs
    split at hs
    · cases hs; exact h.env rfl rfl rfl rfl rfl rfl
    · cases hs
  | dataW t x v =>
    simp only [step] at hs
    split at hs
    · cases hs; exact h.env rfl rfl rfl rfl rfl rfl
    · cases hs
  | dataR t x v =>
    simp only [step] at hs
    split at hs
    · cases hs; exact h
    · cases hs
  | tick n =>
    simp only [step] at hs
    split at hs
    · cases hs; exact h.env rfl rfl rfl rfl rfl rfl
    · cases hs
  | noteSeen t =>
    simp only [step] at hs
    split at hs
    · rename_i heq; ld_case t h heq hs
    · cases hs
  | noteNotify t =>
    simp only [step] at hs
    split at hs
    · rename_i heq; ld_case t h heq hs
    · rename_i heq; ld_case t h heq hs
    · cases hs

theorem inv1_init : Inv1 init := by
  refine ⟨⟨?_, ?_, ?_, rfl, rfl, fun h => by cases h⟩, ?_, ?_⟩
  · intro t; simp [init, shareOf, tshare, pcShare]
  · intro t; simp [init, shareOf, tshare, pcShare]
  · simp [init]
  · intro t; simp [init, PC.ok]
  · intro t ht; rfl

theorem reachable_inv1 {cfg : Cfg} {s : State} (h : Reachable cfg s) : Inv1 s :=
  reachable_induction (P := Inv1) inv1_init (fun _ _ _ _ hp hs => inv1_step hp hs) s h

end NsyncVerif.MuC
