/-
  Proofs/WaitNReady.lean — the readiness facts nsync_wait_n relies on (a note stays notified / expired,
  a counter stays at zero once a wait has been called, a record whose `waiting` was cleared stays
  cleared) and the per-program-point facts `TF` that tie the ghost `why` and the `ready` index to them.
  This file: definitions, stability under `Mono`, and preservation by the steps of other threads.
-/
import NsyncVerif.Proofs.WaitNMono2

set_option linter.unusedSimpArgs false

namespace WaitN

theorem expiredB_mono {d : Deadline} {a b : Nat} (h : a ≤ b) (e : expiredB d a = true) : expiredB d b = true := by
  cases d with
  | none => simp [expiredB] at e
  | some x => simp only [expiredB, decide_eq_true_eq] at *; omega

theorem expiredB_of_dlePast {d : Deadline} (now : Nat) (h : dlePast d = true) : expiredB d now = true := by
  cases d with
  | none => simp [dlePast] at h
  | some x => simp only [dlePast, expiredB, decide_eq_true_eq] at *; omega

/-- the note is notified or its deadline has passed: `nsync_note_notified_deadline_` treats it as ready
    (it notifies the note itself when the deadline has passed) -/
def noteReady (s : State) (n : Nat) : Prop :=
  (s.obj (.note n)).flag = true ∨ expiredB (s.obj (.note n)).expiry s.now = true

/-- NOTIFIED_TIME (n) <= 0 : notified, or created with a deadline that is not after time zero -/
def noteNotif (s : State) (n : Nat) : Prop :=
  (s.obj (.note n)).flag = true ∨ dlePast (s.obj (.note n)).expiry = true

def ctrZero (s : State) (c : Nat) : Prop := (s.obj (.ctr c)).value = 0 ∧ (s.obj (.ctr c)).flag = true

theorem noteReady_of_notif {s : State} {n : Nat} (h : noteNotif s n) : noteReady s n :=
  h.elim .inl (fun h => .inr (expiredB_of_dlePast _ h))

/-- object k of the frame is ready for good -/
def sReady (s : State) (f : Frame) (k : Nat) : Prop :=
  match f.objs[k]? with
  | some (.note n) => noteReady s n
  | some (.ctr c) => ctrZero s c
  | some (.cv _) => ∃ r, f.recs[k]? = some r ∧ (s.rcd r).waiting = false
  | none => False

/-- counter_ready_time has been called on every counter among the first n objects -/
def Waited (s : State) (f : Frame) (n : Nat) : Prop :=
  ∀ k c, k < n → f.objs[k]? = some (.ctr c) → (s.obj (.ctr c)).flag = true

/-- inside nsync_note_notified_deadline_ on note n -/
def NDF (s : State) (n : Nat) : NDst → Prop
  | .unlockCall obs | .unlockWait obs => obs = true → (s.obj (.note n)).flag = true
  | .nfWake | .nfUnlockCall | .nfUnlockWait => (s.obj (.note n)).flag = true
  | _ => True

def NDFat (s : State) (f : Frame) (i : Nat) (st : NDst) : Prop :=
  ∀ n, f.objs[i]? = some (.note n) → NDF s n st

structure LoopF (s : State) (f : Frame) : Prop where
  whoNone : f.who = none → f.min = f.dl
  whoSome : ∀ k, f.who = some k → dlePast f.min = false →
              ∃ n, f.objs[k]? = some (.note n) ∧ f.min = (s.obj (.note n)).expiry
  why : ∀ k, f.why = .readyAt k → sReady s f k
  noTmo : f.why ≠ .timeout

structure DeqF (s : State) (f : Frame) : Prop where
  tmo : f.why = .timeout → expiredB f.dl s.now = true
  why : ∀ k, f.why = .readyAt k →
          f.deqRes[k]? = some false ∨ (f.deqRes.length ≤ k ∧ k < f.recs.length ∧ sReady s f k)
  rdy : f.ready < f.count → ¬ isCvAt f f.ready → sReady s f f.ready

structure PostF (s : State) (f : Frame) : Prop where
  tmo : f.why = .timeout → expiredB f.dl s.now = true
  why : ∀ k, f.why = .readyAt k → f.deqRes[k]? = some false
  rdy : f.ready < f.count → ¬ isCvAt f f.ready → sReady s f f.ready
  /-- the first poll loop never reports a condition variable (cv_ready_time without a record: no deadline) -/
  cvr : f.ready < f.count → isCvAt f f.ready → f.recs ≠ []

/-- the dequeue call on object j will return / has returned `res` -/
def ResF (s : State) (f : Frame) (j : Nat) (res : Bool) : Prop :=
  (f.why = .readyAt j → res = false) ∧ (res = false → sReady s f j)

def EnqF (s : State) (f : Frame) (i : Nat) : EnqSt → Prop
  | .store false | .unlockCall false | .unlockWait false => sReady s f i
  | _ => True

def DeqStF (s : State) (f : Frame) (j : Nat) : DeqSt → Prop
  | .lockCall | .lockWait | .load => ∀ n, f.objs[j]? = some (.note n) → f.why = .readyAt j → noteNotif s n
  | .loadW res | .store res | .unlockCall res | .unlockWait res => ResF s f j res

def CvDeqF (s : State) (f : Frame) (j : Nat) : CvDeqSt → Prop
  | .store => f.why ≠ .readyAt j
  | .release res => f.why = .readyAt j → res = false
  | _ => True

/-- facts at each program point of a caller about the shared state -/
def TF (s : State) (p : PC) (f : Frame) : Prop :=
  match p with
  | .wCtrRT .poll i l => Waited s f i ∧ (l = true → Waited s f (i + 1))
  | .wND .poll i st => Waited s f i ∧ NDFat s f i st
  | .wAlloc | .wInit _ | .wEnqCv _ _ => Waited s f f.count
  | .wEnq i st => Waited s f f.count ∧ EnqF s f i st
  | .wUnlock => Waited s f f.count ∧ (∀ k, f.why = .readyAt k → sReady s f k) ∧ f.why ≠ .timeout
  | .wCvRT _ | .wCtrRT .loop _ _ | .wPdEnter | .wPdWait _ => Waited s f f.count ∧ LoopF s f
  | .wND .loop i st => Waited s f f.count ∧ LoopF s f ∧ NDFat s f i st
  | .wDeqCv j st => Waited s f f.count ∧ DeqF s f ∧ CvDeqF s f j st
  | .wND .deq j st => Waited s f f.count ∧ DeqF s f ∧ NDFat s f j st
  | .wDeq j st => Waited s f f.count ∧ DeqF s f ∧ DeqStF s f j st
  | .wFree | .wRelock | .wRet _ => PostF s f
  | _ => True

/-! ### stability -/

/-- the part of the state `TF` reads, related by a step that does not touch the thread's own records -/
structure Stable (W : Prop) (s s' : State) (f : Frame) : Prop where
  expiry : ∀ o ∈ f.objs, (s'.obj o).expiry = (s.obj o).expiry
  flag : ∀ o ∈ f.objs, o.isCv = false → (s.obj o).flag = true → (s'.obj o).flag = true
  zero : ∀ k, .ctr k ∈ f.objs → (s.obj (.ctr k)).value = 0 → (s.obj (.ctr k)).flag = true → (s'.obj (.ctr k)).value = 0
  now : s.now ≤ s'.now
  wfalse : W → ∀ r ∈ f.recs, (s.rcd r).waiting = false → (s'.rcd r).waiting = false

theorem mem_objs_of_get {f : Frame} {k : Nat} {o : ObjId} (h : f.objs[k]? = some o) : o ∈ f.objs :=
  List.mem_of_getElem? h

theorem noteReady_stable {W : Prop} {s s' : State} {f : Frame} {n k : Nat} (st : Stable W s s' f) (hk : f.objs[k]? = some (.note n))
    (h : noteReady s n) : noteReady s' n := by
  have hm := mem_objs_of_get hk
  rcases h with h | h
  · exact .inl (st.flag _ hm rfl h)
  · right; rw [st.expiry _ hm]; exact expiredB_mono st.now h

theorem noteNotif_stable {W : Prop} {s s' : State} {f : Frame} {n k : Nat} (st : Stable W s s' f) (hk : f.objs[k]? = some (.note n))
    (h : noteNotif s n) : noteNotif s' n := by
  have hm := mem_objs_of_get hk
  rcases h with h | h
  · exact .inl (st.flag _ hm rfl h)
  · right; rw [st.expiry _ hm]; exact h

theorem ctrZero_stable {W : Prop} {s s' : State} {f : Frame} {c k : Nat} (st : Stable W s s' f) (hk : f.objs[k]? = some (.ctr c))
    (h : ctrZero s c) : ctrZero s' c := by
  have hm := mem_objs_of_get hk
  exact ⟨st.zero c hm h.1 h.2, st.flag _ hm rfl h.2⟩

theorem sReady_stable {W : Prop} {s s' : State} {f : Frame} {k : Nat} (st : Stable W s s' f) (hc : W ∨ ¬ isCvAt f k)
    (h : sReady s f k) : sReady s' f k := by
  unfold sReady at *
  split at h
  · rename_i n hk; exact noteReady_stable st hk h
  · rename_i c hk; exact ctrZero_stable st hk h
  · rename_i c hk
    obtain ⟨r, hr, hw⟩ := h
    rcases hc with hc | hc
    · exact ⟨r, hr, st.wfalse hc r (List.mem_of_getElem? hr) hw⟩
    · exact absurd ⟨c, hk⟩ hc
  · exact h

theorem waited_stable {W : Prop} {s s' : State} {f : Frame} {n : Nat} (st : Stable W s s' f) (h : Waited s f n) : Waited s' f n := by
  intro k c hk ho
  exact st.flag _ (mem_objs_of_get ho) rfl (h k c hk ho)

theorem ndf_stable {W : Prop} {s s' : State} {f : Frame} {i : Nat} {st0 : NDst} (st : Stable W s s' f) (h : NDFat s f i st0) :
    NDFat s' f i st0 := by
  intro n hn
  have := h n hn
  have hm := mem_objs_of_get hn
  cases st0 <;> simp only [NDF] at this ⊢ <;> first | trivial | (intro ho; exact st.flag _ hm rfl (this ho)) | exact st.flag _ hm rfl this

theorem loopF_stable {W : Prop} {s s' : State} {f : Frame} (st : Stable W s s' f) (hf : W) (h : LoopF s f) : LoopF s' f := by
  refine ⟨h.whoNone, ?_, fun k hk => sReady_stable st (.inl hf) (h.why k hk), h.noTmo⟩
  intro k hk hm
  obtain ⟨n, hn, he⟩ := h.whoSome k hk hm
  exact ⟨n, hn, by rw [st.expiry _ (mem_objs_of_get hn)]; exact he⟩

theorem deqF_stable {W : Prop} {s s' : State} {f : Frame} (st : Stable W s s' f) (hf : W) (h : DeqF s f) : DeqF s' f := by
  refine ⟨fun ht => expiredB_mono st.now (h.tmo ht), ?_, fun h1 h2 => sReady_stable st (.inl hf) (h.rdy h1 h2)⟩
  intro k hk
  rcases h.why k hk with h1 | ⟨h1, h2, h3⟩
  · exact .inl h1
  · exact .inr ⟨h1, h2, sReady_stable st (.inl hf) h3⟩

theorem postF_stable {W : Prop} {s s' : State} {f : Frame} (st : Stable W s s' f) (h : PostF s f) : PostF s' f :=
  ⟨fun ht => expiredB_mono st.now (h.tmo ht), h.why, fun h1 h2 => sReady_stable st (.inr h2) (h.rdy h1 h2), h.cvr⟩

/-- program points at which the frame's records may already be dead -/
def PostPc (p : PC) : Bool :=
  match p with
  | .wRelock | .wRet _ | .idle | .sg _ _ _ | .stuck => true
  | _ => false

theorem frees_of_linv {p : PC} {f : Frame} (hl : LInv p f) : PostPc p = true ∨ f.frees = 0 := by
  cases p with
  | wCtrRT u i l => cases u <;> simp only [LInv] at hl <;> first | exact .inr hl.1.frees | exact hl.elim
  | wND u i st0 => cases u <;> simp only [LInv] at hl <;> exact .inr hl.1.frees
  | idle | stuck | sg _ _ _ | wRelock | wRet _ => exact .inl rfl
  | _ => simp only [LInv] at hl; exact .inr hl.1.frees

theorem tf_stable {W : Prop} {s s' : State} {p : PC} {f : Frame} (st : Stable W s s' f)
    (hfr0 : PostPc p = true ∨ W) (h : TF s p f) : TF s' p f := by
  have hW : PostPc p = false → W := fun hp => hfr0.elim (fun h => by rw [hp] at h; cases h) id
  cases p with
  | wCtrRT u i l =>
    cases u <;> simp only [TF] at h ⊢
    · exact ⟨waited_stable st h.1, fun hl => waited_stable st (h.2 hl)⟩
    · exact ⟨waited_stable st h.1, loopF_stable st (hW rfl) h.2⟩
  | wND u i st0 =>
    cases u <;> simp only [TF] at h ⊢
    · exact ⟨waited_stable st h.1, ndf_stable st h.2⟩
    · exact ⟨waited_stable st h.1, loopF_stable st (hW rfl) h.2.1, ndf_stable st h.2.2⟩
    · exact ⟨waited_stable st h.1, deqF_stable st (hW rfl) h.2.1, ndf_stable st h.2.2⟩
  | wAlloc => exact waited_stable st h
  | wInit i => exact waited_stable st h
  | wEnqCv i st0 => exact waited_stable st h
  | wEnq i st0 =>
    have hfr := hW rfl
    refine ⟨waited_stable st h.1, ?_⟩
    have := h.2
    cases st0 with
    | store b => cases b <;> simp only [EnqF] at this ⊢; exact sReady_stable st (.inl hfr) this
    | unlockCall b => cases b <;> simp only [EnqF] at this ⊢; exact sReady_stable st (.inl hfr) this
    | unlockWait b => cases b <;> simp only [EnqF] at this ⊢; exact sReady_stable st (.inl hfr) this
    | _ => trivial
  | wUnlock => exact ⟨waited_stable st h.1, fun k hk => sReady_stable st (.inl (hW rfl)) (h.2.1 k hk), h.2.2⟩
  | wCvRT j => exact ⟨waited_stable st h.1, loopF_stable st (hW rfl) h.2⟩
  | wPdEnter => exact ⟨waited_stable st h.1, loopF_stable st (hW rfl) h.2⟩
  | wPdWait j => exact ⟨waited_stable st h.1, loopF_stable st (hW rfl) h.2⟩
  | wDeqCv j st0 => exact ⟨waited_stable st h.1, deqF_stable st (hW rfl) h.2.1, h.2.2⟩
  | wDeq j st0 =>
    have hfr := hW rfl
    refine ⟨waited_stable st h.1, deqF_stable st hfr h.2.1, ?_⟩
    have := h.2.2
    cases st0 with
    | lockCall => intro n hn hw; exact noteNotif_stable st hn (this n hn hw)
    | lockWait => intro n hn hw; exact noteNotif_stable st hn (this n hn hw)
    | load => intro n hn hw; exact noteNotif_stable st hn (this n hn hw)
    | loadW res => exact ⟨this.1, fun hr => sReady_stable st (.inl hfr) (this.2 hr)⟩
    | store res => exact ⟨this.1, fun hr => sReady_stable st (.inl hfr) (this.2 hr)⟩
    | unlockCall res => exact ⟨this.1, fun hr => sReady_stable st (.inl hfr) (this.2 hr)⟩
    | unlockWait res => exact ⟨this.1, fun hr => sReady_stable st (.inl hfr) (this.2 hr)⟩
  | wFree => exact postF_stable st h
  | wRelock => exact postF_stable st h
  | wRet r => exact postF_stable st h
  | idle => trivial
  | stuck => trivial
  | sg c bc st0 => trivial

theorem Stable.of_eq {s s' : State} {f : Frame} (ho : s'.obj = s.obj) (hr : s'.rcd = s.rcd) (hn : s'.now = s.now) :
    Stable True s s' f := by
  refine ⟨fun _ _ => by rw [ho], fun _ _ _ h => by rw [ho]; exact h, fun _ _ h1 _ => by rw [ho]; exact h1,
          by rw [hn]; exact Nat.le_refl _, fun _ _ _ h => by rw [hr]; exact h⟩

theorem Stable.congr_right {W : Prop} {s s' s1 : State} {f : Frame} (st : Stable W s s' f)
    (ho : s1.obj = s'.obj) (hr : s1.rcd = s'.rcd) (hn : s1.now = s'.now) : Stable W s s1 f :=
  ⟨fun o h => by rw [ho]; exact st.expiry o h, fun o h1 h2 h3 => by rw [ho]; exact st.flag o h1 h2 h3,
   fun k h1 h2 h3 => by rw [ho]; exact st.zero k h1 h2 h3, by rw [hn]; exact st.now,
   fun hW r h1 h2 => by rw [hr]; exact st.wfalse hW r h1 h2⟩

/-- `TF` only reads flag / value / expiry of objects, `waiting` of records, and the clock -/
theorem tf_congr {s s' : State} {p : PC} {f : Frame} (ho : s'.obj = s.obj) (hr : s'.rcd = s.rcd) (hn : s'.now = s.now)
    (h : TF s p f) : TF s' p f := by
  exact tf_stable (Stable.of_eq ho hr hn) (.inr trivial) h

end WaitN
