/-
  Proofs/CounterFairLock.lean — Counter layer, fair release: with finitely many API calls,
  counter_mu is acquired only finitely often (`lrank`), and under weak fairness it is eventually
  free for ever (`lock_eventually_free`).
-/
import NsyncVerif.Proofs.CounterFairExec

namespace Counter

variable {s0 : State}

theorem mono_le {f : Nat → Nat} {n0 : Nat} (h : ∀ j, n0 ≤ j → f (j + 1) ≤ f j) :
    ∀ d, f (n0 + d) ≤ f n0 := by
  intro d
  induction d with
  | zero => exact Nat.le_refl _
  | succ d ih => have := h (n0 + d) (by omega); rw [show n0 + (d + 1) = n0 + d + 1 by omega]; omega

/-- A non-increasing sequence of naturals is eventually constant. -/
theorem mono_stabilizes (f : Nat → Nat) : ∀ (m n0 : Nat), f n0 ≤ m → (∀ j, n0 ≤ j → f (j + 1) ≤ f j) →
    ∃ n, n0 ≤ n ∧ ∀ j, n ≤ j → f j = f n := by
  intro m
  induction m with
  | zero =>
    intro n0 hm h
    refine ⟨n0, Nat.le_refl _, fun j hj => ?_⟩
    obtain ⟨d, rfl⟩ : ∃ d, j = n0 + d := ⟨j - n0, by omega⟩
    have := mono_le h d; omega
  | succ m ih =>
    intro n0 hm h
    by_cases hex : ∃ j, n0 ≤ j ∧ f j < f n0
    · obtain ⟨j, hj, hlt⟩ := hex
      obtain ⟨n, hn, hc⟩ := ih j (by omega) (fun j' hj' => h j' (by omega))
      exact ⟨n, by omega, hc⟩
    · refine ⟨n0, Nat.le_refl _, fun j hj => ?_⟩
      obtain ⟨d, rfl⟩ : ∃ d, j = n0 + d := ⟨j - n0, by omega⟩
      have h1 := mono_le h d
      have h2 : ¬ f (n0 + d) < f n0 := fun hlt => hex ⟨n0 + d, by omega, hlt⟩
      omega

/-- Finitely many "eventually for ever" hold together eventually for ever. -/
theorem eventually_list {P : Tid → Nat → Prop} (n0 : Nat) : ∀ (L : List Tid),
    (∀ t ∈ L, ∃ n, n0 ≤ n ∧ ∀ j, n ≤ j → P t j) →
    ∃ n, n0 ≤ n ∧ ∀ t ∈ L, ∀ j, n ≤ j → P t j := by
  intro L
  induction L with
  | nil => intro _; exact ⟨n0, Nat.le_refl _, fun t ht => by cases ht⟩
  | cons u L ih =>
    intro h
    obtain ⟨n1, h1, hP1⟩ := h u (by simp)
    obtain ⟨n2, h2, hP2⟩ := ih (fun t ht => h t (by simp [ht]))
    refine ⟨max n1 n2, by omega, fun t ht j hj => ?_⟩
    rcases List.mem_cons.1 ht with rfl | ht'
    · exact hP1 j (by omega)
    · exact hP2 t ht' j (by omega)

/-- only finitely many threads are inside a call -/
theorem finite_support {s : State} (h : Reachable s) : ∃ L : List Tid, ∀ t, t ∉ L → s.pc t = .idle := by
  refine Reachable.induct (P := fun s => ∃ L : List Tid, ∀ t, t ∉ L → s.pc t = .idle) ?_ ?_ h
  · exact ⟨[], fun t _ => rfl⟩
  · rintro s e s' hr ⟨L, hL⟩ hs
    cases e with
    | tick ns =>
      simp only [step] at hs
      split at hs
      · cases hs; exact ⟨L, hL⟩
      · cases hs
    | thr t ev =>
      have f := facts_stepThr (inv_of_reachable hr) hs
      refine ⟨t :: L, fun u hu => ?_⟩
      have h1 : u ≠ t := fun h => hu (by simp [h])
      have h2 : u ∉ L := fun h => hu (by simp [h])
      rw [f.others u h1]; exact hL u h2

/-- after the last arrival: `lrank` does not grow, an acquisition decreases it, nobody leaves `idle` -/
theorem lrank_step (x : Exec s0) (hr : Reachable s0) {n : Nat}
    (hn : ∀ j t e, n ≤ j → x.σ j = some (.thr t e) → e.isCall = false) {j : Nat} (hj : n ≤ j) (t : Tid) :
    lrank ((x.ρ (j + 1)).pc t) ≤ lrank ((x.ρ j).pc t)
    ∧ (holds ((x.ρ j).pc t) = false → holds ((x.ρ (j + 1)).pc t) = true →
        lrank ((x.ρ (j + 1)).pc t) < lrank ((x.ρ j).pc t))
    ∧ ((x.ρ j).pc t = .idle → (x.ρ (j + 1)).pc t = .idle) := by
  by_cases hm : Moves x t j
  · obtain ⟨e, h1, g, _⟩ := moves_prog x hr hm
    have hc := hn j t e hj h1
    refine ⟨g.lrk hc, fun a b => (g.acq a b).1, fun hi => ?_⟩
    apply Classical.byContradiction; intro hne
    have := g.call hi hne; rw [hc] at this; cases this
  · have := not_moves_eq hm
    rw [this]
    exact ⟨Nat.le_refl _, fun a b => (by rw [a] at b; cases b), fun h => h⟩

/-- with finitely many arrivals, counter_mu is acquired only finitely often -/
theorem no_acq_eventually (x : Exec s0) (hr : Reachable s0) (ha : FiniteArrivals x) :
    ∃ n1, ∀ j, n1 ≤ j → ∀ t, holds ((x.ρ j).pc t) = false → holds ((x.ρ (j + 1)).pc t) = false := by
  obtain ⟨n, hn⟩ := ha
  obtain ⟨L, hL⟩ := finite_support (x.reach hr n)
  have hidle : ∀ t, t ∉ L → ∀ d, (x.ρ (n + d)).pc t = .idle := by
    intro t ht d
    induction d with
    | zero => exact hL t ht
    | succ d ih => exact (lrank_step x hr hn (j := n + d) (by omega) t).2.2 ih
  obtain ⟨n1, h1, hP⟩ := eventually_list
    (P := fun t j => holds ((x.ρ j).pc t) = false → holds ((x.ρ (j + 1)).pc t) = false) n L (by
      intro t _
      obtain ⟨nt, h1, h2⟩ := mono_stabilizes (fun j => lrank ((x.ρ j).pc t)) _ n (Nat.le_refl _)
        (fun j hj => (lrank_step x hr hn hj t).1)
      refine ⟨nt, h1, fun j hj a => ?_⟩
      cases hb : holds ((x.ρ (j + 1)).pc t) with
      | false => rfl
      | true =>
        have := (lrank_step x hr hn (j := j) (by omega) t).2.1 a hb
        have e1 := h2 j hj
        have e2 := h2 (j + 1) (by omega)
        omega)
  refine ⟨n1, fun j hj t a => ?_⟩
  by_cases ht : t ∈ L
  · exact hP t ht j hj a
  · obtain ⟨d, hd⟩ : ∃ d, j + 1 = n + d := ⟨j + 1 - n, by omega⟩
    rw [hd, hidle t ht d]; rfl

/-- if counter_mu is acquired only finitely often then, under weak fairness, it is eventually free
    for ever -/
theorem lock_free_of_no_acq (x : Exec s0) (hr : Reachable s0) (hf : WeakFair x)
    (h : ∃ n1, ∀ j, n1 ≤ j → ∀ t, holds ((x.ρ j).pc t) = false → holds ((x.ρ (j + 1)).pc t) = false) :
    ∃ n2, ∀ j, n2 ≤ j → (x.ρ j).sh.lockHolder = none := by
  obtain ⟨n1, hacq⟩ := h
  have hinv : ∀ j, Inv (x.ρ j) := fun j => inv_of_reachable (x.reach hr j)
  -- free stays free
  have hstay : ∀ j, n1 ≤ j → (x.ρ j).sh.lockHolder = none → (x.ρ (j + 1)).sh.lockHolder = none := by
    intro j hj h0
    cases h1 : (x.ρ (j + 1)).sh.lockHolder with
    | none => rfl
    | some u =>
      have a := holds_of_holder (hinv (j + 1)) h1
      have b : holds ((x.ρ j).pc u) = false := by
        cases hb : holds ((x.ρ j).pc u) with
        | false => rfl
        | true => have := holder_of_holds (hinv j) hb; rw [h0] at this; cases this
      rw [hacq j hj u b] at a; cases a
  have hex : ∃ j, n1 ≤ j ∧ (x.ρ j).sh.lockHolder = none := by
    apply Classical.byContradiction
    intro hno
    have hsome : ∀ j, n1 ≤ j → (x.ρ j).sh.lockHolder ≠ none := fun j hj h => hno ⟨j, hj, h⟩
    cases h0 : (x.ρ n1).sh.lockHolder with
    | none => exact hsome n1 (Nat.le_refl _) h0
    | some u =>
      have hall : ∀ d, (x.ρ (n1 + d)).sh.lockHolder = some u := by
        intro d
        induction d with
        | zero => exact h0
        | succ d ih =>
          cases h1 : (x.ρ (n1 + (d + 1))).sh.lockHolder with
          | none => exact absurd h1 (hsome _ (by omega))
          | some u' =>
            by_cases hu : u' = u
            · rw [hu]
            · exfalso
              have a := holds_of_holder (hinv (n1 + d + 1)) h1
              have b : holds ((x.ρ (n1 + d)).pc u') = false := by
                cases hb : holds ((x.ρ (n1 + d)).pc u') with
                | false => rfl
                | true =>
                  have := holder_of_holds (hinv (n1 + d)) hb
                  rw [ih] at this; cases this; exact absurd rfl hu
              rw [hacq (n1 + d) (by omega) u' b] at a; cases a
      have hh := holds_of_holder (hinv n1) h0
      obtain ⟨j', h1, h2⟩ := holder_releases x hr hf u _ n1 hh (Nat.le_refl _)
      obtain ⟨d, rfl⟩ : ∃ d, j' = n1 + d := ⟨j' - n1, by omega⟩
      have := holds_of_holder (hinv (n1 + d)) (hall d)
      rw [h2] at this; cases this
  obtain ⟨n2, h1, h2⟩ := hex
  refine ⟨n2, fun j hj => ?_⟩
  obtain ⟨d, rfl⟩ : ∃ d, j = n2 + d := ⟨j - n2, by omega⟩
  induction d with
  | zero => exact h2
  | succ d ih => exact hstay (n2 + d) (by omega) (ih (by omega))

/-- … and, under weak fairness, it is eventually free for ever. -/
theorem lock_eventually_free (x : Exec s0) (hr : Reachable s0) (hf : WeakFair x) (ha : FiniteArrivals x) :
    ∃ n2, ∀ j, n2 ≤ j → (x.ρ j).sh.lockHolder = none :=
  lock_free_of_no_acq x hr hf (no_acq_eventually x hr ha)

end Counter
