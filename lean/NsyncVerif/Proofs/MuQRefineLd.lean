import NsyncVerif.Proofs.MuQAbs
/-
  MuQ refinement, part 1: helper lemmas; loads, calls, returns, P-enter (pc-only transitions).
-/
namespace NsyncVerif.MuQ

def Refines (cfg : Cfg) (s s' : State) : Prop := abs s' = abs s ∨ AStep cfg (abs s) (abs s')

theorem abs_setPc (s : State) (t : Tid) (p : PC) :
    abs (setPc s t p) = { abs s with ts := setFn (abs s).ts t (tshare (s.held t) p),
                                     ro := setFn (abs s).ro t (role p) } := by
  simp only [abs, setPc, AState.mk.injEq, true_and]
  constructor <;> funext u <;> simp only [setFn] <;> split <;> simp_all

theorem abs_setPc_sameShare (s : State) (t : Tid) (p : PC)
    (hsh : pcShare p = pcShare (s.pc t)) :
    abs (setPc s t p) = { abs s with ro := setFn (abs s).ro t (role p) } := by
  rw [abs_setPc]
  have : tshare (s.held t) p = (abs s).ts t := by simp [abs, tshare, hsh]
  rw [this, setFn_self]

theorem refines_quiet {cfg : Cfg} (s : State) (t : Tid) (p : PC)
    (hsh : pcShare p = pcShare (s.pc t)) (hr : role p = role (s.pc t)) :
    Refines cfg s (setPc s t p) := by
  left
  rw [abs_setPc_sameShare s t p hsh]
  have : role p = (abs s).ro t := by simp [abs, hr]
  rw [this, setFn_self]

theorem refines_ro {cfg : Cfg} (s : State) (t : Tid) (p : PC)
    (hsh : pcShare p = pcShare (s.pc t))
    (h : AStep cfg (abs s) { abs s with ro := setFn (abs s).ro t (role p) }) :
    Refines cfg s (setPc s t p) := by
  right; rw [abs_setPc_sameShare s t p hsh]; exact h

theorem abs_ro (s : State) (t : Tid) : (abs s).ro t = role (s.pc t) := rfl
theorem abs_ts (s : State) (t : Tid) : (abs s).ts t = tshare (s.held t) (s.pc t) := rfl

/-- Side conditions after a pc-only transition. -/
theorem side_setPc {s : State} (t : Tid) (p : PC) (hk : PcOk s) (hh : HeldIdle s)
    (hp : p.ok) (hi : s.held t = none ∨ p = .idle) : PcOk (setPc s t p) ∧ HeldIdle (setPc s t p) := by
  constructor
  · intro u; simp only [setPc, setFn]; split
    · exact hp
    · exact hk u
  · intro u hu; simp only [setPc, setFn] at hu ⊢; split
    · rename_i h; subst h; rcases hi with hi | hi
      · exact absurd hi hu
      · exact hi
    · exact hh u hu

theorem held_none_of_active {s : State} (hh : HeldIdle s) {t : Tid} (h : s.pc t ≠ .idle) : s.held t = none := by
  cases hx : s.held t with
  | none => rfl
  | some m => exact absurd (hh t (by simp [hx])) h

theorem stepLd_refines {cfg : Cfg} {s s' : State} {t : Tid} {o : Ord} {loc : Loc} {obs : Nat}
    (hk : PcOk s) (hh : HeldIdle s) (h : stepLd s t o loc obs = .ok s') :
    Refines cfg s s' ∧ PcOk s' ∧ HeldIdle s' := by
  have hkt := hk t
  unfold stepLd at h
  cases hp : s.pc t <;> simp only [hp] at h hkt <;> try (cases h; done)
  all_goals have hnone : s.held t = none := held_none_of_active hh (by rw [hp]; simp)
  case lkLd l =>
    have h := ldWord_ok h; subst h
    split
    · refine ⟨refines_ro s t _ (by simp [hp, pcShare]) ?_, side_setPc t _ hk hh ?_ (Or.inl hnone)⟩
      · exact AStep.enterSlow (abs s) t l (by simp [abs_ro, hp, role]) (by simp [abs_ts, hp, hnone, tshare, pcShare])
      · simp [PC.ok, SL.ok, SL.entry, longWaitThreshold]
    · refine ⟨refines_quiet s t _ (by simp [hp, pcShare]) (by simp [hp, role]), side_setPc t _ hk hh ?_ (Or.inl hnone)⟩
      simp_all [PC.ok]
  case tryLd l =>
    have h := ldWord_ok h; subst h
    split
    · exact ⟨refines_quiet s t _ (by simp [hp, pcShare]) (by simp [hp, role]), side_setPc t _ hk hh (by simp [PC.ok]) (Or.inl hnone)⟩
    · refine ⟨refines_quiet s t _ (by simp [hp, pcShare]) (by simp [hp, role]), side_setPc t _ hk hh ?_ (Or.inl hnone)⟩
      simp_all [PC.ok]
  case lsLd c =>
    have h := ldWord_ok h; subst h
    split
    · refine ⟨refines_quiet s t _ (by simp [hp, pcShare]) (by simp [hp, role]), side_setPc t _ hk hh ?_ (Or.inl hnone)⟩
      simp_all [PC.ok]
    · split
      · refine ⟨refines_quiet s t _ (by simp [hp, pcShare]) (by simp [hp, role]), side_setPc t _ hk hh ?_ (Or.inl hnone)⟩
        simp_all [PC.ok]
      · exact ⟨refines_quiet s t _ (by simp [hp, pcShare]) (by simp [hp, role]), side_setPc t _ hk hh (by simp_all [PC.ok]) (Or.inl hnone)⟩
  case lsRelLd c =>
    have h := ldWord_ok h; subst h
    exact ⟨refines_quiet s t _ (by simp [hp, pcShare]) (by simp [hp, role]), side_setPc t _ hk hh (by simp_all [PC.ok]) (Or.inl hnone)⟩
  case lsWaitLd c =>
    cases hw : c.w with
    | none => simp [hw] at h
    | some k =>
      simp only [hw] at h
      split at h; · cases h
      split at h; · cases h
      split at h; · cases h
      split at h
      · cases h
        refine ⟨refines_ro s t _ (by simp [hp, pcShare]) ?_, side_setPc t _ hk hh (by simp_all [PC.ok]) (Or.inl hnone)⟩
        exact AStep.loopWait (abs s) t c k (by simp [abs_ro, hp, role]) hw (by simp_all [abs])
      · cases h
        refine ⟨refines_ro s t _ (by simp [hp, pcShare]) ?_, side_setPc t _ hk hh ?_ (Or.inl hnone)⟩
        · exact AStep.loopWoken (abs s) t c k (by simp [abs_ro, hp, role]) hw (by simp_all [abs])
        · exact ⟨SL.ok_woken hkt.1, by simp [SL.woken, hw]⟩
  case ulLd l =>
    cases l
    · simp only at h
      split at h; · cases h
      have h := ldWord_ok h; subst h
      split
      · exact ⟨refines_quiet s t _ (by simp [hp, pcShare]) (by simp [hp, role]), side_setPc t _ hk hh (by simp [PC.ok]) (Or.inl hnone)⟩
      · refine ⟨refines_quiet s t _ (by simp [hp, pcShare]) (by simp [hp, role]), side_setPc t _ hk hh ?_ (Or.inl hnone)⟩
        simp_all [PC.ok, hasShare]
    · simp only at h
      split at h; · cases h
      have h := ldWord_ok h; subst h
      split
      · exact ⟨refines_quiet s t _ (by simp [hp, pcShare]) (by simp [hp, role]), side_setPc t _ hk hh (by simp [PC.ok]) (Or.inl hnone)⟩
      · refine ⟨refines_quiet s t _ (by simp [hp, pcShare]) (by simp [hp, role]), side_setPc t _ hk hh ?_ (Or.inl hnone)⟩
        simp_all [PC.ok, hasShare]
  case usLd l =>
    split at h; · cases h
    have h := ldWord_ok h; subst h
    split
    · refine ⟨refines_quiet s t _ (by simp [hp, pcShare]) (by simp [hp, role]), side_setPc t _ hk hh ?_ (Or.inl hnone)⟩
      simp_all [PC.ok]
    · split
      · refine ⟨refines_quiet s t _ (by simp [hp, pcShare]) (by simp [hp, role]), side_setPc t _ hk hh ?_ (Or.inl hnone)⟩
        simp_all [PC.ok]
      · exact ⟨refines_quiet s t _ (by simp [hp, pcShare]) (by simp [hp, role]), side_setPc t _ hk hh (by simp [PC.ok]) (Or.inl hnone)⟩
  case usRcLd l sc k =>
    split at h; · cases h
    split at h; · cases h
    cases h
    exact ⟨refines_quiet s t _ (by simp [hp, pcShare]) (by simp [hp, role]), side_setPc t _ hk hh (by simp [PC.ok]) (Or.inl hnone)⟩
  case usFinLd l f =>
    have h := ldWord_ok h; subst h
    exact ⟨refines_quiet s t _ (by simp [hp, pcShare]) (by simp [hp, role]), side_setPc t _ hk hh (by simp [PC.ok]) (Or.inl hnone)⟩

end NsyncVerif.MuQ
