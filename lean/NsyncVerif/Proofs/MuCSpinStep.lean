import NsyncVerif.Proofs.MuCSpin
/-
  MuC: (I_spin) is preserved by loads, stores, API boundaries, semaphore and environment steps.
-/
namespace NsyncVerif.MuC

macro "inv3_local" t:ident h:ident heq:ident : tactic => `(tactic|
  (have hok := ($h).ok3 $t
   rw [$heq:ident] at hok
   refine Inv3.local $t $h (by simp) (by simp) (by intro u hu; simp [setFn, hu]) ?_ ?_
   · (simp_all [PC.spin, loopPc, finPc, Ret.pc]) <;> grind
   · (simp_all [PC.ok3, loopPc, finPc, Ret.pc]) <;> grind))

macro "ld_case3" t:ident h:ident heq:ident hs:ident : tactic => `(tactic|
  (try dsimp only at $hs:ident
   try simp only [ldWord, ldWaiting] at $hs:ident
   repeat' split at $hs:ident
   all_goals first
     | (cases $hs:ident; done)
     | (cases $hs:ident; inv3_local $t $h $heq)
     | (cases $hs:ident; split <;> inv3_local $t $h $heq)))

theorem inv3_stepLd {s s' : State} {t : Tid} {o : Ord} {loc : Loc} {obs : Nat} (h : Inv3 s)
    (hs : stepLd s t o loc obs = .ok s') : Inv3 s' := by
  unfold stepLd at hs
  split at hs
  all_goals first
    | (rename_i heq; ld_case3 t h heq hs)
    | skip

theorem inv3_stepSt {s s' : State} {t : Tid} {o : Ord} {loc : Loc} {new obs : Nat} (h : Inv3 s)
    (hs : stepSt s t o loc new obs = .ok s') : Inv3 s' := by
  unfold stepSt at hs
  split at hs
  all_goals first
    | (rename_i heq; ld_case3 t h heq hs)
    | skip
  -- mtStRel: the release store gives the spinlock up
  rename_i c old ok heq
  have hok0 := h.ok3 t
  rw [heq] at hok0
  dsimp only at hs
  repeat' split at hs
  all_goals first
    | (cases hs; done)
    | (cases hs
       refine Inv3.give t h (by rw [heq]; rfl) ?_ (by simp) (by intro u hu; simp [setFn, hu]) (by simp [PC.spin]) (by simp [PC.ok3])
       simp [mtRelWord]; (repeat' split) <;> simpa [PC.ok3] using hok0)

end NsyncVerif.MuC
