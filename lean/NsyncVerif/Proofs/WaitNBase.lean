/-
  Proofs/WaitNBase.lean — projection lemmas for the state-update functions of Model/WaitN.lean,
  monotonicity of deadlines, and `run`/`Reachable` plumbing.
-/
import NsyncVerif.Model.WaitN

namespace WaitN

section proj
variable (s : State)

@[simp] theorem setObj_obj (o : ObjId) (v : Obj) (i : ObjId) : (s.setObj o v).obj i = if i = o then v else s.obj i := rfl
@[simp] theorem setObj_rcd (o : ObjId) (v : Obj) : (s.setObj o v).rcd = s.rcd := rfl
@[simp] theorem setObj_sem (o : ObjId) (v : Obj) : (s.setObj o v).sem = s.sem := rfl
@[simp] theorem setObj_semUser (o : ObjId) (v : Obj) : (s.setObj o v).semUser = s.semUser := rfl
@[simp] theorem setObj_pc (o : ObjId) (v : Obj) : (s.setObj o v).pc = s.pc := rfl
@[simp] theorem setObj_fr (o : ObjId) (v : Obj) : (s.setObj o v).fr = s.fr := rfl
@[simp] theorem setObj_mc (o : ObjId) (v : Obj) : (s.setObj o v).mc = s.mc := rfl
@[simp] theorem setObj_post (o : ObjId) (v : Obj) : (s.setObj o v).post = s.post := rfl
@[simp] theorem setObj_now (o : ObjId) (v : Obj) : (s.setObj o v).now = s.now := rfl

@[simp] theorem setRec_rcd (r : Rid) (v : Rec) (i : Rid) : (s.setRec r v).rcd i = if i = r then v else s.rcd i := rfl
@[simp] theorem setRec_obj (r : Rid) (v : Rec) : (s.setRec r v).obj = s.obj := rfl
@[simp] theorem setRec_sem (r : Rid) (v : Rec) : (s.setRec r v).sem = s.sem := rfl
@[simp] theorem setRec_semUser (r : Rid) (v : Rec) : (s.setRec r v).semUser = s.semUser := rfl
@[simp] theorem setRec_pc (r : Rid) (v : Rec) : (s.setRec r v).pc = s.pc := rfl
@[simp] theorem setRec_fr (r : Rid) (v : Rec) : (s.setRec r v).fr = s.fr := rfl
@[simp] theorem setRec_mc (r : Rid) (v : Rec) : (s.setRec r v).mc = s.mc := rfl
@[simp] theorem setRec_post (r : Rid) (v : Rec) : (s.setRec r v).post = s.post := rfl
@[simp] theorem setRec_now (r : Rid) (v : Rec) : (s.setRec r v).now = s.now := rfl

@[simp] theorem setSem_sem (j n i : Nat) : (s.setSem j n).sem i = if i = j then n else s.sem i := rfl
@[simp] theorem setSem_obj (j n : Nat) : (s.setSem j n).obj = s.obj := rfl
@[simp] theorem setSem_rcd (j n : Nat) : (s.setSem j n).rcd = s.rcd := rfl
@[simp] theorem setSem_semUser (j n : Nat) : (s.setSem j n).semUser = s.semUser := rfl
@[simp] theorem setSem_pc (j n : Nat) : (s.setSem j n).pc = s.pc := rfl
@[simp] theorem setSem_fr (j n : Nat) : (s.setSem j n).fr = s.fr := rfl
@[simp] theorem setSem_mc (j n : Nat) : (s.setSem j n).mc = s.mc := rfl
@[simp] theorem setSem_post (j n : Nat) : (s.setSem j n).post = s.post := rfl
@[simp] theorem setSem_now (j n : Nat) : (s.setSem j n).now = s.now := rfl

@[simp] theorem setSemUser_semUser (j : Nat) (u : Option Tid) (i : Nat) :
    (s.setSemUser j u).semUser i = if i = j then u else s.semUser i := rfl
@[simp] theorem setSemUser_obj (j : Nat) (u : Option Tid) : (s.setSemUser j u).obj = s.obj := rfl
@[simp] theorem setSemUser_rcd (j : Nat) (u : Option Tid) : (s.setSemUser j u).rcd = s.rcd := rfl
@[simp] theorem setSemUser_sem (j : Nat) (u : Option Tid) : (s.setSemUser j u).sem = s.sem := rfl
@[simp] theorem setSemUser_pc (j : Nat) (u : Option Tid) : (s.setSemUser j u).pc = s.pc := rfl
@[simp] theorem setSemUser_fr (j : Nat) (u : Option Tid) : (s.setSemUser j u).fr = s.fr := rfl
@[simp] theorem setSemUser_mc (j : Nat) (u : Option Tid) : (s.setSemUser j u).mc = s.mc := rfl
@[simp] theorem setSemUser_post (j : Nat) (u : Option Tid) : (s.setSemUser j u).post = s.post := rfl
@[simp] theorem setSemUser_now (j : Nat) (u : Option Tid) : (s.setSemUser j u).now = s.now := rfl

@[simp] theorem setPc_pc (t : Tid) (p : PC) (u : Tid) : (s.setPc t p).pc u = if u = t then p else s.pc u := rfl
@[simp] theorem setPc_obj (t : Tid) (p : PC) : (s.setPc t p).obj = s.obj := rfl
@[simp] theorem setPc_rcd (t : Tid) (p : PC) : (s.setPc t p).rcd = s.rcd := rfl
@[simp] theorem setPc_sem (t : Tid) (p : PC) : (s.setPc t p).sem = s.sem := rfl
@[simp] theorem setPc_semUser (t : Tid) (p : PC) : (s.setPc t p).semUser = s.semUser := rfl
@[simp] theorem setPc_fr (t : Tid) (p : PC) : (s.setPc t p).fr = s.fr := rfl
@[simp] theorem setPc_mc (t : Tid) (p : PC) : (s.setPc t p).mc = s.mc := rfl
@[simp] theorem setPc_post (t : Tid) (p : PC) : (s.setPc t p).post = s.post := rfl
@[simp] theorem setPc_now (t : Tid) (p : PC) : (s.setPc t p).now = s.now := rfl

@[simp] theorem setFr_fr (t : Tid) (f : Frame) (u : Tid) : (s.setFr t f).fr u = if u = t then f else s.fr u := rfl
@[simp] theorem setFr_obj (t : Tid) (f : Frame) : (s.setFr t f).obj = s.obj := rfl
@[simp] theorem setFr_rcd (t : Tid) (f : Frame) : (s.setFr t f).rcd = s.rcd := rfl
@[simp] theorem setFr_sem (t : Tid) (f : Frame) : (s.setFr t f).sem = s.sem := rfl
@[simp] theorem setFr_semUser (t : Tid) (f : Frame) : (s.setFr t f).semUser = s.semUser := rfl
@[simp] theorem setFr_pc (t : Tid) (f : Frame) : (s.setFr t f).pc = s.pc := rfl
@[simp] theorem setFr_mc (t : Tid) (f : Frame) : (s.setFr t f).mc = s.mc := rfl
@[simp] theorem setFr_post (t : Tid) (f : Frame) : (s.setFr t f).post = s.post := rfl
@[simp] theorem setFr_now (t : Tid) (f : Frame) : (s.setFr t f).now = s.now := rfl

@[simp] theorem setMc_mc (t : Tid) (m : MC) (u : Tid) : (s.setMc t m).mc u = if u = t then m else s.mc u := rfl
@[simp] theorem setMc_obj (t : Tid) (m : MC) : (s.setMc t m).obj = s.obj := rfl
@[simp] theorem setMc_rcd (t : Tid) (m : MC) : (s.setMc t m).rcd = s.rcd := rfl
@[simp] theorem setMc_sem (t : Tid) (m : MC) : (s.setMc t m).sem = s.sem := rfl
@[simp] theorem setMc_semUser (t : Tid) (m : MC) : (s.setMc t m).semUser = s.semUser := rfl
@[simp] theorem setMc_pc (t : Tid) (m : MC) : (s.setMc t m).pc = s.pc := rfl
@[simp] theorem setMc_fr (t : Tid) (m : MC) : (s.setMc t m).fr = s.fr := rfl
@[simp] theorem setMc_post (t : Tid) (m : MC) : (s.setMc t m).post = s.post := rfl
@[simp] theorem setMc_now (t : Tid) (m : MC) : (s.setMc t m).now = s.now := rfl

@[simp] theorem setPost_post (t : Tid) (p : Option Rid) (u : Tid) : (s.setPost t p).post u = if u = t then p else s.post u := rfl
@[simp] theorem setPost_obj (t : Tid) (p : Option Rid) : (s.setPost t p).obj = s.obj := rfl
@[simp] theorem setPost_rcd (t : Tid) (p : Option Rid) : (s.setPost t p).rcd = s.rcd := rfl
@[simp] theorem setPost_sem (t : Tid) (p : Option Rid) : (s.setPost t p).sem = s.sem := rfl
@[simp] theorem setPost_semUser (t : Tid) (p : Option Rid) : (s.setPost t p).semUser = s.semUser := rfl
@[simp] theorem setPost_pc (t : Tid) (p : Option Rid) : (s.setPost t p).pc = s.pc := rfl
@[simp] theorem setPost_fr (t : Tid) (p : Option Rid) : (s.setPost t p).fr = s.fr := rfl
@[simp] theorem setPost_mc (t : Tid) (p : Option Rid) : (s.setPost t p).mc = s.mc := rfl
@[simp] theorem setPost_now (t : Tid) (p : Option Rid) : (s.setPost t p).now = s.now := rfl

@[simp] theorem kill_rcd (l : List Rid) (r : Rid) :
    (s.kill l).rcd r = if r ∈ l then { s.rcd r with live := false } else s.rcd r := rfl
@[simp] theorem kill_obj (l : List Rid) : (s.kill l).obj = s.obj := rfl
@[simp] theorem kill_sem (l : List Rid) : (s.kill l).sem = s.sem := rfl
@[simp] theorem kill_semUser (l : List Rid) : (s.kill l).semUser = s.semUser := rfl
@[simp] theorem kill_pc (l : List Rid) : (s.kill l).pc = s.pc := rfl
@[simp] theorem kill_fr (l : List Rid) : (s.kill l).fr = s.fr := rfl
@[simp] theorem kill_mc (l : List Rid) : (s.kill l).mc = s.mc := rfl
@[simp] theorem kill_post (l : List Rid) : (s.kill l).post = s.post := rfl
@[simp] theorem kill_now (l : List Rid) : (s.kill l).now = s.now := rfl

@[simp] theorem ownerRemove_rcd (o : ObjId) (r i : Rid) :
    (ownerRemove s o r).rcd i = if i = r then { s.rcd r with waiting := false, unl := if r ∈ (s.obj o).queue then .owner else (s.rcd r).unl } else s.rcd i := rfl
@[simp] theorem ownerRemove_obj (o : ObjId) (r : Rid) (i : ObjId) :
    (ownerRemove s o r).obj i = if i = o then { s.obj o with queue := (s.obj o).queue.erase r } else s.obj i := rfl
@[simp] theorem ownerRemove_pc (o : ObjId) (r : Rid) : (ownerRemove s o r).pc = s.pc := rfl
@[simp] theorem ownerRemove_fr (o : ObjId) (r : Rid) : (ownerRemove s o r).fr = s.fr := rfl
@[simp] theorem ownerRemove_mc (o : ObjId) (r : Rid) : (ownerRemove s o r).mc = s.mc := rfl
@[simp] theorem ownerRemove_post (o : ObjId) (r : Rid) : (ownerRemove s o r).post = s.post := rfl
@[simp] theorem ownerRemove_sem (o : ObjId) (r : Rid) : (ownerRemove s o r).sem = s.sem := rfl
@[simp] theorem ownerRemove_semUser (o : ObjId) (r : Rid) : (ownerRemove s o r).semUser = s.semUser := rfl
@[simp] theorem ownerRemove_now (o : ObjId) (r : Rid) : (ownerRemove s o r).now = s.now := rfl

end proj

@[simp] theorem ite_rec_live {c : Prop} [Decidable c] (a b : Rec) : (if c then a else b).live = if c then a.live else b.live := by split <;> rfl
@[simp] theorem ite_rec_waiting {c : Prop} [Decidable c] (a b : Rec) : (if c then a else b).waiting = if c then a.waiting else b.waiting := by split <;> rfl
@[simp] theorem ite_rec_owner {c : Prop} [Decidable c] (a b : Rec) : (if c then a else b).owner = if c then a.owner else b.owner := by split <;> rfl
@[simp] theorem ite_rec_obj {c : Prop} [Decidable c] (a b : Rec) : (if c then a else b).obj = if c then a.obj else b.obj := by split <;> rfl
@[simp] theorem ite_rec_unl {c : Prop} [Decidable c] (a b : Rec) : (if c then a else b).unl = if c then a.unl else b.unl := by split <;> rfl
@[simp] theorem ite_rec_deqd {c : Prop} [Decidable c] (a b : Rec) : (if c then a else b).deqd = if c then a.deqd else b.deqd := by split <;> rfl
@[simp] theorem ite_obj_known {c : Prop} [Decidable c] (a b : Obj) : (if c then a else b).known = if c then a.known else b.known := by split <;> rfl
@[simp] theorem ite_obj_lock {c : Prop} [Decidable c] (a b : Obj) : (if c then a else b).lock = if c then a.lock else b.lock := by split <;> rfl
@[simp] theorem ite_obj_queue {c : Prop} [Decidable c] (a b : Obj) : (if c then a else b).queue = if c then a.queue else b.queue := by split <;> rfl
@[simp] theorem ite_obj_flag {c : Prop} [Decidable c] (a b : Obj) : (if c then a else b).flag = if c then a.flag else b.flag := by split <;> rfl
@[simp] theorem ite_obj_value {c : Prop} [Decidable c] (a b : Obj) : (if c then a else b).value = if c then a.value else b.value := by split <;> rfl
@[simp] theorem ite_obj_expiry {c : Prop} [Decidable c] (a b : Obj) : (if c then a else b).expiry = if c then a.expiry else b.expiry := by split <;> rfl

@[simp] theorem b2n_eq_zero (b : Bool) : (b2n b = 0) = (b = false) := by cases b <;> simp [b2n]
@[simp] theorem b2n_true : b2n true = 1 := rfl
@[simp] theorem b2n_false : b2n false = 0 := rfl

theorem reject_ne_ok {m : String} {s' : State} : reject m = .ok s' → False := by
  intro h; cases h

@[simp] theorem reject_eq_ok (m : String) (s' : State) : (reject m = .ok s') = False := by
  simp [reject]

@[simp] theorem error_eq_ok (m : String) (s' : State) : ((Except.error m : R) = .ok s') = False := by
  simp

/-- split a hypothesis `h : <step function> = .ok s'` into its accepting branches -/
macro "split_ok" h:ident : tactic =>
  `(tactic| (repeat' (first | (split at $h:ident) | (dsimp only at $h:ident))) <;> (try (simp only [reject_eq_ok, error_eq_ok] at $h:ident)))

/-! ### frames of other threads: only the lazily bound semaphore may change -/

/-- equality of frames up to the lazily bound semaphore -/
def frSame (f g : Frame) : Prop := g = { f with sem := g.sem }

theorem frSame_refl (f : Frame) : frSame f f := rfl

theorem frSame_trans {f g h : Frame} (a : frSame f g) (b : frSame g h) : frSame f h := by
  unfold frSame at *
  rw [b, a]

/-! ### run / Reachable -/

theorem reachable_init : Reachable init := ⟨[], rfl⟩

theorem run_append {s : State} {es fs : List Event} {s' : State} (h : run s es = .ok s') :
    run s (es ++ fs) = run s' fs := by
  induction es generalizing s with
  | nil => simp only [run] at h; cases h; rfl
  | cons e es ih =>
    simp only [run, List.cons_append] at *
    split at h
    · rename_i s1 hs1
      exact ih h
    · cases h

theorem reachable_step {s s' : State} {e : Event} (h : Reachable s) (hs : step s e = .ok s') : Reachable s' := by
  obtain ⟨evs, hr⟩ := h
  refine ⟨evs ++ [e], ?_⟩
  rw [run_append hr]
  simp [run, hs]

/-- induction principle over reachable states -/
theorem reachable_induction {P : State → Prop} (h0 : P init)
    (hstep : ∀ s s' e, Reachable s → P s → step s e = .ok s' → P s') {s : State} (h : Reachable s) : P s := by
  obtain ⟨evs, hr⟩ := h
  suffices ∀ (evs : List Event) (s0 : State), Reachable s0 → P s0 → run s0 evs = .ok s → P s from
    this evs init reachable_init h0 hr
  intro evs
  induction evs with
  | nil => intro s0 _ p0 hr; simp only [run] at hr; cases hr; exact p0
  | cons e es ih =>
    intro s0 r0 p0 hr
    simp only [run] at hr
    split at hr
    · rename_i s1 hs1
      exact ih s1 (reachable_step r0 hs1) (hstep s0 s1 e r0 p0 hs1) hr
    · cases hr

end WaitN
