/-
Facts about the character streams of `nsync_mu_debug_state` / `nsync_cv_debug_state`:
they contain no NUL (so the C16 buffer theorem applies to them), and they are what the
`emit_print` / `emit_word` calls of debug.c produce.
-/
import NsyncVerif.Model.Emit

namespace NsyncVerif
namespace Emit

theorem hexDigit_ne_zero : ∀ d, d < 16 → hexDigit d ≠ 0 := by decide

theorem hexFrom_ne_zero (n k : Nat) : ∀ c ∈ hexFrom n k, c ≠ 0 := by
  induction k with
  | zero => intro c hc; simp [hexFrom] at hc
  | succ k ih =>
    intro c hc
    simp only [hexFrom, List.mem_cons] at hc
    rcases hc with hc | hc
    · subst hc
      apply hexDigit_ne_zero
      have : (n >>> (4 * k)) &&& 15 ≤ 15 := Nat.and_le_right
      omega
    · exact ih c hc

theorem hexChars_ne_zero (n : Nat) : ∀ c ∈ hexChars n, c ≠ 0 := hexFrom_ne_zero n _

theorem emitWord_ne_zero (names : List (Nat × String))
    (hn : ∀ p ∈ names, ∀ c ∈ asc " " ++ asc p.2, c ≠ 0) (word : Nat) :
    ∀ c ∈ emitWord names word, c ≠ 0 := by
  intro c hc
  unfold emitWord at hc
  rcases List.mem_flatMap.1 hc with ⟨p, hp, hcp⟩
  split at hcp
  · exact hn p hp c hcp
  · simp at hcp

theorem muBit_ne_zero : ∀ p ∈ muBit, ∀ c ∈ asc " " ++ asc p.2, c ≠ 0 := by decide
theorem cvBit_ne_zero : ∀ p ∈ cvBit, ∀ c ∈ asc " " ++ asc p.2, c ≠ 0 := by decide

theorem muDebugChars_ne_zero (addr word : Nat) : ∀ c ∈ muDebugChars addr word, c ≠ 0 := by
  intro c hc
  unfold muDebugChars at hc
  simp only [List.mem_append] at hc
  have l1 : ∀ c ∈ asc "mu 0x", c ≠ 0 := by decide
  have l2 : ∀ c ∈ asc " -> 0x", c ≠ 0 := by decide
  have l3 : ∀ c ∈ asc " = {", c ≠ 0 := by decide
  have l4 : ∀ c ∈ asc " readers=0x", c ≠ 0 := by decide
  have l5 : ∀ c ∈ asc " }", c ≠ 0 := by decide
  rcases hc with ((((((h | h) | h) | h) | h) | h) | h) | h
  · exact l1 c h
  · exact hexChars_ne_zero _ c h
  · exact l2 c h
  · exact hexChars_ne_zero _ c h
  · exact l3 c h
  · exact emitWord_ne_zero _ muBit_ne_zero _ c h
  · split at h
    · rcases List.mem_append.1 h with h | h
      · exact l4 c h
      · exact hexChars_ne_zero _ c h
    · simp at h
  · exact l5 c h

theorem cvDebugChars_ne_zero (addr word : Nat) : ∀ c ∈ cvDebugChars addr word, c ≠ 0 := by
  intro c hc
  unfold cvDebugChars at hc
  simp only [List.mem_append] at hc
  have l1 : ∀ c ∈ asc "cv 0x", c ≠ 0 := by decide
  have l2 : ∀ c ∈ asc " -> 0x", c ≠ 0 := by decide
  have l3 : ∀ c ∈ asc " = {", c ≠ 0 := by decide
  have l5 : ∀ c ∈ asc " }", c ≠ 0 := by decide
  rcases hc with (((((h | h) | h) | h) | h) | h) | h
  · exact l1 c h
  · exact hexChars_ne_zero _ c h
  · exact l2 c h
  · exact hexChars_ne_zero _ c h
  · exact l3 c h
  · exact emitWord_ne_zero _ cvBit_ne_zero _ c h
  · exact l5 c h

/-! ### the streams are what the `emit_print` calls of debug.c produce -/

theorem print_mu_header (addr word : Nat) :
    emitPrint (asc "mu 0x%i -> 0x%i = {") [Arg.hex addr, Arg.hex word] =
      some (asc "mu 0x" ++ hexChars addr ++ asc " -> 0x" ++ hexChars word ++ asc " = {") := by
  have h : asc "mu 0x%i -> 0x%i = {" =
      [109, 117, 32, 48, 120, 37, 105, 32, 45, 62, 32, 48, 120, 37, 105, 32, 61, 32, 123] := by
    decide
  have h1 : asc "mu 0x" = [109, 117, 32, 48, 120] := by decide
  have h2 : asc " -> 0x" = [32, 45, 62, 32, 48, 120] := by decide
  have h3 : asc " = {" = [32, 61, 32, 123] := by decide
  rw [h, h1, h2, h3]
  simp [emitPrint]

theorem print_cv_header (addr word : Nat) :
    emitPrint (asc "cv 0x%i -> 0x%i = {") [Arg.hex addr, Arg.hex word] =
      some (asc "cv 0x" ++ hexChars addr ++ asc " -> 0x" ++ hexChars word ++ asc " = {") := by
  have h : asc "cv 0x%i -> 0x%i = {" =
      [99, 118, 32, 48, 120, 37, 105, 32, 45, 62, 32, 48, 120, 37, 105, 32, 61, 32, 123] := by
    decide
  have h1 : asc "cv 0x" = [99, 118, 32, 48, 120] := by decide
  have h2 : asc " -> 0x" = [32, 45, 62, 32, 48, 120] := by decide
  have h3 : asc " = {" = [32, 61, 32, 123] := by decide
  rw [h, h1, h2, h3]
  simp [emitPrint]

theorem print_readers (r : Nat) :
    emitPrint (asc " readers=0x%i") [Arg.hex r] = some (asc " readers=0x" ++ hexChars r) := by
  have h : asc " readers=0x%i" = [32, 114, 101, 97, 100, 101, 114, 115, 61, 48, 120, 37, 105] := by
    decide
  have h1 : asc " readers=0x" = [32, 114, 101, 97, 100, 101, 114, 115, 61, 48, 120] := by decide
  rw [h, h1]
  simp [emitPrint]

theorem print_close : emitPrint (asc " }") [] = some (asc " }") := by decide

/-- `emit_print (b, " %s", name)` as used by `emit_word`. -/
theorem print_word (name : List UInt8) :
    emitPrint (asc " %s") [Arg.str name] = some (asc " " ++ name) := by
  have h : asc " %s" = [32, 37, 115] := by decide
  have h1 : asc " " = [32] := by decide
  rw [h, h1]
  simp [emitPrint]

/-- `muDebugChars` is the concatenation of the outputs of the calls made by `emit_mu_state`
(debug.c:207-213) in order. -/
theorem muDebugChars_eq_prints (addr word : Nat) :
    (emitPrint (asc "mu 0x%i -> 0x%i = {") [Arg.hex addr, Arg.hex word]).bind (fun h =>
      (emitPrint (asc " readers=0x%i") [Arg.hex (word / 256)]).bind (fun r =>
        (emitPrint (asc " }") []).map (fun c =>
          h ++ emitWord muBit word ++ (if word / 256 ≠ 0 then r else []) ++ c)))
      = some (muDebugChars addr word) := by
  rw [print_mu_header, print_readers, print_close]
  simp [muDebugChars]

/-- Likewise `emit_cv_state` (debug.c:244-246). -/
theorem cvDebugChars_eq_prints (addr word : Nat) :
    (emitPrint (asc "cv 0x%i -> 0x%i = {") [Arg.hex addr, Arg.hex word]).bind (fun h =>
      (emitPrint (asc " }") []).map (fun c => h ++ emitWord cvBit word ++ c))
      = some (cvDebugChars addr word) := by
  rw [print_cv_header, print_close]
  simp [cvDebugChars]

/-- Hex printing is the usual positional notation: value of the digits is `n` (for n < 2^64). -/
theorem hexChars_examples :
    hexChars 0 = asc "0" ∧ hexChars 15 = asc "f" ∧ hexChars 16 = asc "10" ∧
    hexChars 0x7ffd1234 = asc "7ffd1234" ∧
    hexChars 0xffffffffffffffff = asc "ffffffffffffffff" := by decide

end Emit
end NsyncVerif
