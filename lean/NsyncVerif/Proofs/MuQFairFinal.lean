import NsyncVerif.Proofs.MuQFairChain
/-
  MuQ, fair termination (C02): the state the execution settles in.

  `classify_final`   a thread that is in none of the classes emptied by the chain arguments is idle
                     holding nothing, or in its wait loop with its `waiting` flag still set.
  `final_quiescent`  in a reachable state all of whose threads are of these two kinds, nobody is in
                     the wait loop: a queued waiter always has a responsible party
                     (`ALive.resp`), and there is none left.  (`no_stuck_state` with "asleep"
                     weakened to "in the wait loop, flag set": the environment may post the
                     semaphore as often as it likes.)
-/
namespace NsyncVerif.MuQ

theorem stage_of_exit {s : State} {t : Tid} (h : 0 < exitRank (s.pc t)) : stage s t = 1 := by
  cases hp : s.pc t
  case tryRet l r => cases r <;> simp [hp, exitRank] at h <;> simp [stage, hp]
  all_goals (simp [hp, exitRank] at h <;> simp [stage, hp])

theorem stage_of_pre {W : Word} {s : State} {t : Tid} (h : 0 < preRank W (s.pc t)) : stage s t = 3 := by
  cases hp : s.pc t <;> simp [hp, preRank] at h <;> simp [stage, hp]

theorem stage_zero {s : State} {t : Tid} (h : stage s t = 0) : IdleHoldingNothing s t := by
  cases hp : s.pc t <;> simp [stage, hp] at h
  · exact ⟨hp, h⟩
  · rename_i l r; cases r <;> simp at h

theorem stage_of_ihn {s : State} {t : Tid} (h : IdleHoldingNothing s t) : stage s t = 0 :=
  stage_done h.1 h.2

theorem spin_not_idle {p : PC} (h : (role p).spin = true) : p ≠ .idle ∧ ∀ c, p ≠ .lsPRet c := by
  cases p <;> simp [role, Role.spin] at h <;> simp

/-- In the wait loop with the `waiting` flag set. -/
def LoopT (s : State) (t : Tid) : Prop :=
  ∃ c k, loopSL (s.pc t) = some c ∧ c.w = some k ∧ (s.wr k).waiting = true

theorem classify_final {W : Word} {s : State} {t : Tid} (hk : PcOk s)
    (h1 : exitRank (s.pc t) = 0) (h2 : (role (s.pc t)).spin = false) (h3 : preRank W (s.pc t) = 0)
    (h4 : stage s t ≠ 2) (h5 : ¬ LoopF s t) : IdleHoldingNothing s t ∨ LoopT s t := by
  have hok := hk t
  have loop : ∀ c, loopSL (s.pc t) = some c → c.w.isSome = true → LoopT s t := by
    intro c hc hw
    cases hwk : c.w with
    | none => rw [hwk] at hw; cases hw
    | some k =>
      cases hwt : (s.wr k).waiting with
      | true => exact ⟨c, k, hc, hwk, hwt⟩
      | false => exact absurd ⟨c, k, hc, hwk, hwt⟩ h5
  cases hp : s.pc t <;> rw [hp] at hok
  case idle =>
    left
    refine ⟨hp, ?_⟩
    cases hh : s.held t with
    | none => rfl
    | some m => simp [stage, hp, hh] at h4
  case lsWaitLd c => right; exact loop c (by simp [hp, loopSL]) hok.2
  case lsPEnter c => right; exact loop c (by simp [hp, loopSL]) hok.2
  case lsPRet c => right; exact loop c (by simp [hp, loopSL]) hok.2
  case tryRet l r => cases r <;> simp [hp, exitRank, stage] at h1 h4
  all_goals first
    | (simp [hp, exitRank] at h1; done)
    | (simp [hp, role, Role.spin] at h2; done)
    | (simp [hp, preRank] at h3; done)
    | (simp [hp, stage] at h4; done)
    | (simp [hp, preRank] at h3; split at h3 <;> omega)

theorem final_quiescent {cfg : Cfg} {s : State} (hr : Reachable cfg s)
    (hall : ∀ t, IdleHoldingNothing s t ∨ LoopT s t) : ∀ t, IdleHoldingNothing s t := by
  have inv := reachable_inv hr
  have hside := reachable_side hr
  have loopRole : ∀ u c, loopSL (s.pc u) = some c → role (s.pc u) = .slow c .loopLd ∨ role (s.pc u) = .slow c .loopP := by
    intro u c hc
    cases hp : s.pc u <;> simp [hp, loopSL] at hc <;> subst hc <;> simp [role]
  have rol : ∀ u, role (s.pc u) = .quiet ∨ ∃ c ph, role (s.pc u) = .slow c ph ∧ ph.inLoop = true ∧ LoopT s u := by
    intro u
    rcases hall u with ⟨h1, _⟩ | hl
    · left; rw [h1]; rfl
    · right
      obtain ⟨c, k, hc, _, _⟩ := id hl
      rcases loopRole u c hc with h | h
      · exact ⟨c, .loopLd, h, rfl, hl⟩
      · exact ⟨c, .loopP, h, rfl, hl⟩
  have noWake : ∀ u k, k ∉ (role (s.pc u)).wake := by
    intro u k hk
    rcases rol u with h1 | ⟨c, ph, h1, _, _⟩ <;> rw [h1] at hk <;> simp [Role.wake] at hk
  have queued : ∀ k, (s.wr k).waiting = true → k ∈ s.queue := by
    intro k hk
    rcases inv.queue.wt k hk with h | ⟨u, hu⟩
    · exact h
    · exact absurd hu (noWake u k)
  intro t
  rcases hall t with h1 | ⟨c, k, hc, hw, hwt⟩
  · exact h1
  · exfalso
    have hk := queued k hwt
    rcases responsible hr hk with ⟨u, hu⟩ | ⟨u, hu⟩ | ⟨u, hu⟩
    · rcases hall u with ⟨h1, h2⟩ | ⟨c1, k1, hc1, _, _⟩
      · apply hu; simp [shareOf, tshare, h1, h2, pcShare]
      · have hne : s.pc u ≠ .idle := by intro h; rw [h] at hc1; simp [loopSL] at hc1
        have hn : s.held u = none := held_none_of_active hside.2 hne
        apply hu
        cases hp : s.pc u <;> simp [hp, loopSL] at hc1 <;> simp [shareOf, tshare, hn, hp, pcShare]
    · obtain ⟨c1, ph, hro, hx⟩ := hu
      rcases rol u with h1 | ⟨c2, ph2, h1, hin, c3, k3, hc3, hw3, hwt3⟩
      · rw [h1] at hro; cases hro
      · rw [h1] at hro
        simp only [Role.slow.injEq] at hro
        obtain ⟨rfl, rfl⟩ := hro
        rcases hx with ⟨hx, _⟩ | ⟨_, k4, hw4, hk4⟩
        · subst hx; cases hin
        · rcases loopRole u c3 hc3 with h | h <;> rw [h1] at h <;> simp only [Role.slow.injEq] at h <;>
            obtain ⟨rfl, _⟩ := h <;> rw [hw3] at hw4 <;> cases hw4 <;> exact hk4 (queued k3 hwt3)
    · rcases hu with ⟨sc, hro⟩ | ⟨f, hro⟩ <;> rcases rol u with h1 | ⟨c1, ph, h1, _, _⟩ <;> rw [h1] at hro <;> cases hro

end NsyncVerif.MuQ
