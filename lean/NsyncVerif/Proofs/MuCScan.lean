import NsyncVerif.Proofs.MuCProj
/-
  MuC: what the plain code of the scan of unlock_slow (`scanRun`, `afterPickup`, `afterEval`) leaves
  unchanged, and at which program points it stops.
-/
namespace NsyncVerif.MuC

/-- Where unlock_slow returns to. -/
def Ret.pc : Ret → PC
  | .ul l nw => .ulRet l nw
  | .mw c => .mwWaitLd c

def finPc (r : Ret) : List Wid → PC
  | [] => r.pc
  | k :: rest => .usWakeSt r k rest

def loopPc (c : MW) (cit : Bool) : PC :=
  if c.outc = .ok ∧ cit = false then .mwStW c else .mwRet c cit

theorem afterWakes_eq (s : State) (t : Tid) (r : Ret) : afterWakes s t r = setPc s t r.pc := by
  cases r <;> rfl

theorem afterFin_eq (s : State) (t : Tid) (r : Ret) (l : List Wid) : afterFin s t r l = setPc s t (finPc r l) := by
  cases l with
  | nil => exact afterWakes_eq s t r
  | cons k rest => rfl

theorem mwLoop_eq (s : State) (t : Tid) (c : MW) (cit : Bool) : mwLoop s t c cit = setPc s t (loopPc c cit) := by
  unfold mwLoop loopPc; split <;> rfl

@[simp] theorem setPc_pc (s : State) (t : Tid) (p : PC) : (setPc s t p).pc = setFn s.pc t p := rfl
@[simp] theorem toFin_pc (s : State) (t : Tid) (r : Ret) (sc : Scan) :
    (toFin s t r sc).pc = setFn s.pc t (.usFinLd r (mkFin sc s.queue.isEmpty)) := rfl
@[simp] theorem afterWakes_pc (s : State) (t : Tid) (r : Ret) : (afterWakes s t r).pc = setFn s.pc t r.pc := by
  rw [afterWakes_eq]; rfl
@[simp] theorem afterFin_pc (s : State) (t : Tid) (r : Ret) (l : List Wid) :
    (afterFin s t r l).pc = setFn s.pc t (finPc r l) := by rw [afterFin_eq]; rfl
@[simp] theorem mwLoop_pc (s : State) (t : Tid) (c : MW) (cit : Bool) :
    (mwLoop s t c cit).pc = setFn s.pc t (loopPc c cit) := by rw [mwLoop_eq]; rfl

@[simp] theorem addShare_wOwner_W (s : State) (t : Tid) : (addShare s t .W).wOwner = some t := rfl
@[simp] theorem addShare_wOwner_R (s : State) (t : Tid) : (addShare s t .R).wOwner = s.wOwner := rfl
@[simp] theorem addShare_rOwners_W (s : State) (t : Tid) : (addShare s t .W).rOwners = s.rOwners := rfl
@[simp] theorem addShare_rOwners_R (s : State) (t : Tid) : (addShare s t .R).rOwners = t :: s.rOwners := rfl
@[simp] theorem subShare_wOwner_W (s : State) (t : Tid) : (subShare s t .W).wOwner = none := rfl
@[simp] theorem subShare_wOwner_R (s : State) (t : Tid) : (subShare s t .R).wOwner = s.wOwner := rfl
@[simp] theorem subShare_rOwners_W (s : State) (t : Tid) : (subShare s t .W).rOwners = s.rOwners := rfl
@[simp] theorem subShare_rOwners_R (s : State) (t : Tid) : (subShare s t .R).rOwners = s.rOwners.erase t := rfl
@[simp] theorem setHeld_held (s : State) (t : Tid) (m : Option Mode) : (setHeld s t m).held = setFn s.held t m := rfl

/-- Everything but `wr`, `queue` and `pc` is unchanged. -/
structure Frame (s s' : State) : Prop where
  word : s'.word = s.word
  data : s'.data = s.data
  cargs : s'.cargs = s.cargs
  now : s'.now = s.now
  held : s'.held = s.held
  wOwner : s'.wOwner = s.wOwner
  rOwners : s'.rOwners = s.rOwners
  sp : s'.sp = s.sp
  secStart : s'.secStart = s.secStart
  nwViol : s'.nwViol = s.nwViol

theorem Frame.refl (s : State) : Frame s s := ⟨rfl, rfl, rfl, rfl, rfl, rfl, rfl, rfl, rfl, rfl⟩

theorem Frame.trans {a b c : State} (h1 : Frame a b) (h2 : Frame b c) : Frame a c :=
  ⟨h2.word.trans h1.word, h2.data.trans h1.data, h2.cargs.trans h1.cargs, h2.now.trans h1.now,
   h2.held.trans h1.held, h2.wOwner.trans h1.wOwner, h2.rOwners.trans h1.rOwners, h2.sp.trans h1.sp,
   h2.secStart.trans h1.secStart, h2.nwViol.trans h1.nwViol⟩

theorem frame_removeLinks (s : State) (p : Option Wid) (k : Wid) (n : Option Wid) : Frame s (removeLinks s p k n) :=
  ⟨by simp, by simp, by simp, by simp, by simp, by simp, by simp, by simp, by simp, by simp⟩

theorem frame_pickup (s : State) (sc : Scan) : Frame s (pickup s sc).1 :=
  ⟨by simp, by simp, by simp, by simp, by simp, by simp, by simp, by simp, by simp, by simp⟩

theorem Frame.setPc {s s1 : State} (h : Frame s s1) (t : Tid) (p : PC) : Frame s (setPc s1 t p) :=
  ⟨h.word, h.data, h.cargs, h.now, h.held, h.wOwner, h.rOwners, h.sp, h.secStart, h.nwViol⟩

theorem frame_setPc (s : State) (t : Tid) (p : PC) : Frame s (setPc s t p) :=
  ⟨rfl, rfl, rfl, rfl, rfl, rfl, rfl, rfl, rfl, rfl⟩

/-- Relations between the locals of the scan that hold at every program point. -/
def Scan.ok (sc : Scan) : Prop := sc.tc = true → sc.late = true

/-- The program points at which the plain code of the scan stops. -/
def ScanPc (r : Ret) (late : Bool) : PC → Prop
  | .usEval r' sc => r' = r ∧ sc.late = late ∧ sc.tc = true ∧ sc.todo ≠ [] ∧ sc.ok
  | .usRcLd r' sc _ | .usReLd r' sc | .usRelLd r' sc => r' = r ∧ sc.late = late ∧ sc.ok
  | .usFinLd r' f => r' = r ∧ f.late = late
  | _ => False

theorem wakeOrPass_inl {wr : Wid → WRec} {k : Wid} {rest : List Wid} {sc : Scan} {res : ScanRes}
    (h : wakeOrPass wr k rest sc = .inl res) :
    ∃ sc', res = .remove k sc' ∧ sc'.late = sc.late ∧ sc'.tc = sc.tc := by
  unfold wakeOrPass at h
  split at h
  · simp only [Sum.inl.injEq] at h; exact ⟨_, h.symm, rfl, rfl⟩
  · cases h

theorem wakeOrPass_inr {wr : Wid → WRec} {k : Wid} {rest : List Wid} {sc sc' : Scan}
    (h : wakeOrPass wr k rest sc = .inr sc') : sc'.late = sc.late ∧ sc'.tc = sc.tc ∧ sc'.todo = rest := by
  unfold wakeOrPass at h
  split at h
  · cases h
  · simp only [Sum.inr.injEq] at h; subst h; exact ⟨rfl, rfl, rfl⟩

/-- What `scanGo` started with locals `sc` can return. -/
def ScanRes.good (sc : Scan) : ScanRes → Prop
  | .eval _ sc' => sc'.late = sc.late ∧ sc'.tc = sc.tc ∧ sc.tc = true ∧ sc'.todo ≠ []
  | .remove _ sc' => sc'.late = sc.late ∧ sc'.tc = sc.tc
  | .iterEnd sc' => sc'.late = sc.late ∧ sc'.tc = sc.tc
  | .panic => True

theorem ScanRes.good_of_eq {sc sc0 : Scan} {r : ScanRes} (h : r.good sc) (h1 : sc.late = sc0.late) (h2 : sc.tc = sc0.tc) :
    r.good sc0 := by
  cases r <;> simp_all [ScanRes.good]

/-- `scanGo` changes neither `late` nor `tc`. -/
theorem scanGo_spec (wr : Wid → WRec) (l : List Wid) (sc : Scan) : (scanGo wr l sc).good sc := by
  induction l generalizing sc with
  | nil => simp [scanGo, ScanRes.good]
  | cons k rest ih =>
    unfold scanGo
    split
    · simp [ScanRes.good]
    · split
      · split
        · rename_i h; simp [ScanRes.good, h]
        · trivial
      · split
        · rename_i res h
          obtain ⟨sc', rfl, h1, h2⟩ := wakeOrPass_inl h
          exact ⟨h1, h2⟩
        · rename_i sc' h
          obtain ⟨h1, h2, _⟩ := wakeOrPass_inr h
          exact ScanRes.good_of_eq (ih sc') h1 h2

theorem pickup_some {s : State} {sc sc2 : Scan} (h : (pickup s sc).2 = some sc2) :
    sc2.late = sc.late ∧ (sc2.tc = true → sc.tc = true) := by
  unfold pickup at h
  split at h
  · cases h
  · simp only [Option.some.injEq] at h; subst h
    refine ⟨rfl, ?_⟩
    intro h; simp only [Bool.and_eq_true] at h; exact h.1.1

theorem scanRun_frame : ∀ (n : Nat) (s : State) (t : Tid) (r : Ret) (sc : Scan) (s' : State),
    scanRun n s t r sc = .ok s' → sc.ok →
    Frame s s' ∧ ∃ p, s'.pc = setFn s.pc t p ∧ ScanPc r sc.late p := by
  intro n
  induction n with
  | zero => intro s t r sc s' h; simp [scanRun] at h
  | succ n ih =>
    intro s t r sc s' h hok
    unfold scanRun at h
    have hsp := scanGo_spec s.wr sc.todo sc
    split at h
    · cases h
    · rename_i k sc' heq
      rw [heq] at hsp
      simp only [Except.ok.injEq] at h; subst h
      refine ⟨frame_setPc _ _ _, _, rfl, ?_⟩
      exact ⟨rfl, hsp.1, hsp.2.1 ▸ hsp.2.2.1, hsp.2.2.2, fun _ => hsp.1 ▸ hok hsp.2.2.1⟩
    · rename_i k sc' heq
      rw [heq] at hsp
      simp only [Except.ok.injEq] at h; subst h
      refine ⟨(frame_removeLinks _ _ _ _).setPc _ _, PC.usRcLd r sc' k, by simp, ?_⟩
      exact ⟨rfl, hsp.1, fun h => hsp.1 ▸ hok (hsp.2 ▸ h)⟩
    · rename_i sc' heq
      rw [heq] at hsp
      have hok' : sc'.ok := fun h => hsp.1 ▸ hok (hsp.2 ▸ h)
      split at h
      · simp only [Except.ok.injEq] at h; subst h
        exact ⟨frame_setPc _ _ _, _, rfl, rfl, hsp.1, hok'⟩
      · have hfr := frame_pickup s sc'
        split at h
        · rename_i s1 hp
          simp only [Except.ok.injEq] at h; subst h
          have : s1 = (pickup s sc').1 := by rw [hp]
          subst this
          refine ⟨hfr.setPc _ _, PC.usFinLd r (mkFin sc' (pickup s sc').1.queue.isEmpty), by simp [toFin], rfl, ?_⟩
          simp [mkFin, hsp.1]
        · rename_i s1 sc2 hp
          have e1 : s1 = (pickup s sc').1 := by rw [hp]
          have e2 : (pickup s sc').2 = some sc2 := by rw [hp]
          obtain ⟨hl, htc⟩ := pickup_some e2
          have hok2 : sc2.ok := fun h => hl ▸ hok' (htc h)
          subst e1
          split at h
          · simp only [Except.ok.injEq] at h; subst h
            refine ⟨hfr.setPc _ _, PC.usRelLd r sc2, by simp, rfl, ?_, hok2⟩
            rw [hl, hsp.1]
          · obtain ⟨f2, p, hp2, hsc⟩ := ih _ t r sc2 s' h hok2
            refine ⟨hfr.trans f2, p, ?_, ?_⟩
            · rw [hp2]; simp
            · rw [hl, hsp.1] at hsc; exact hsc

theorem afterPickup_frame {s : State} {sc0 : Scan} {t : Tid} {r : Ret} {s' : State}
    (h : afterPickup (pickup s sc0) t r sc0 = .ok s') (hok : sc0.ok) :
    Frame s s' ∧ ∃ p, s'.pc = setFn s.pc t p ∧ ScanPc r sc0.late p := by
  have hfr := frame_pickup s sc0
  unfold afterPickup at h
  split at h
  · rename_i s1 hp
    simp only [Except.ok.injEq] at h; subst h
    have : s1 = (pickup s sc0).1 := by rw [hp]
    subst this
    exact ⟨hfr.setPc _ _, PC.usFinLd r (mkFin sc0 (pickup s sc0).1.queue.isEmpty), by simp [toFin], rfl, by simp [mkFin]⟩
  · rename_i s1 sc2 hp
    have e1 : s1 = (pickup s sc0).1 := by rw [hp]
    have e2 : (pickup s sc0).2 = some sc2 := by rw [hp]
    obtain ⟨hl, htc⟩ := pickup_some e2
    have hok2 : sc2.ok := fun h => hl ▸ hok (htc h)
    subst e1
    split at h
    · simp only [Except.ok.injEq] at h; subst h
      exact ⟨hfr.setPc _ _, PC.usRelLd r sc2, by simp, rfl, hl, hok2⟩
    · obtain ⟨f2, p, hp2, hsc⟩ := scanRun_frame _ _ t r sc2 s' h hok2
      refine ⟨hfr.trans f2, p, ?_, ?_⟩
      · rw [hp2]; simp
      · rw [hl] at hsc; exact hsc

theorem afterEval_frame {s : State} {sc : Scan} {t : Tid} {r : Ret} {res : Bool} {s' : State}
    (h : afterEval s t r sc res = .ok s') (hok : sc.ok) :
    Frame s s' ∧ ∃ p, s'.pc = setFn s.pc t p ∧ ScanPc r sc.late p := by
  unfold afterEval at h
  split at h
  · cases h
  · rename_i k rest hk
    split at h
    · exact scanRun_frame 3 s t r { sc with passed := (skipPast s.wr sc.passed k rest).1, todo := (skipPast s.wr sc.passed k rest).2 } s' h hok
    · split at h
      · rename_i k' sc' hw
        obtain ⟨sc'', he, h1, h2⟩ := wakeOrPass_inl hw
        simp only [ScanRes.remove.injEq] at he
        obtain ⟨rfl, rfl⟩ := he
        simp only [Except.ok.injEq] at h; subst h
        refine ⟨(frame_removeLinks _ _ _ _).setPc _ _, PC.usRcLd r sc' k', by simp, rfl, h1, fun h => h1 ▸ hok (h2 ▸ h)⟩
      · cases h
      · rename_i sc' hw
        obtain ⟨h1, h2, _⟩ := wakeOrPass_inr hw
        have := scanRun_frame _ _ t r sc' s' h (fun h => h1 ▸ hok (h2 ▸ h))
        rw [h1] at this; exact this

end NsyncVerif.MuC
