/-
  Futex layer (C12), fair termination: single-step facts (who changes what).
-/
import NsyncVerif.Proofs.FutexFairDefs

namespace NsyncVerif.Futex

set_option linter.unusedSimpArgs false
set_option linter.unusedVariables false

/-- Split the acceptor's step into its accepted cases. -/
macro "step_cases" : tactic => `(tactic|
  (simp only [step] at *
   repeat' split at *
   all_goals (try simp at *)
   all_goals (try subst_vars)))

/-- A thread's program point changes only when it moves. -/
theorem step_pc_other {s s' : State} {e : Event} {t : Tid} (hs : step s e = .ok s')
    (hne : e.tid ≠ some t) : s'.pc t = s.pc t := by
  cases e <;> simp only [Event.tid, ne_eq, Option.some.injEq] at hne <;> step_cases <;>
    simp only [setPc] <;> grind

theorem step_owner {s s' : State} {e : Event} {o : Tid} (hs : step s e = .ok s')
    (ho : s.owner = some o) : s'.owner = some o := by
  cases e <;> step_cases <;> grind

theorem step_now_mono {s s' : State} {e : Event} (hs : step s e = .ok s') : s.now ≤ s'.now := by
  cases e <;> step_cases <;> grind

/-- A thread inside P / P_with_deadline stays inside it until it returns. -/
theorem step_waiter_stays {s s' : State} {e : Event} {t : Tid} (hs : step s e = .ok s')
    (hw : (s.pc t).isWaiter = true) : s'.pc t = .idle ∨ (s'.pc t).isWaiter = true := by
  by_cases he : e.tid = some t
  · cases e <;> simp only [Event.tid, Option.some.injEq, reduceCtorEq] at he <;> step_cases <;>
      simp only [setPc] at * <;> grind [PC.isWaiter]
  · rw [step_pc_other hs he]; exact Or.inr hw

/-- A thread inside V stays inside it until it returns. -/
theorem step_poster_stays {s s' : State} {e : Event} {t : Tid} (hs : step s e = .ok s')
    (hw : (s.pc t).isPoster = true) : s'.pc t = .idle ∨ (s'.pc t).isPoster = true := by
  by_cases he : e.tid = some t
  · cases e <;> simp only [Event.tid, Option.some.injEq, reduceCtorEq] at he <;> step_cases <;>
      simp only [setPc] at * <;> grind [PC.isPoster]
  · rw [step_pc_other hs he]; exact Or.inr hw

/-- The counters only grow, and the word changes only together with one of them. -/
theorem step_counters {s s' : State} {e : Event} (hs : step s e = .ok s') :
    s.posts ≤ s'.posts ∧ s.takes ≤ s'.takes ∧
    (s'.word ≠ s.word → s.posts + s.takes < s'.posts + s'.takes) := by
  cases e <;> step_cases <;> grind

/-- Only the waiter decrements the word. -/
theorem step_word_other {s s' : State} {e : Event} {o : Tid} (hi : Inv s) (hs : step s e = .ok s')
    (hw : (s.pc o).isWaiter = true) (hne : e.tid ≠ some o) : s.word ≤ s'.word := by
  have h3 := hi.nonOwner
  cases e <;> simp only [Event.tid, ne_eq, Option.some.injEq] at hne <;> step_cases <;>
    grind [PC.isWaiter]

/-- Nobody enters `vWake` without making the word positive. -/
theorem step_enter_vWake {s s' : State} {e : Event} {t : Tid} (hs : step s e = .ok s')
    (h0 : s.pc t ≠ .vWake) (h1 : s'.pc t = .vWake) : 0 < s'.word := by
  cases e <;> step_cases <;> simp only [setPc] at * <;> grind

/-- The only step of a thread at `vWake` is the futex wake, which marks the sleeper woken. -/
theorem step_vWake_own {s s' : State} {e : Event} {p : Tid} (hs : step s e = .ok s')
    (he : e.tid = some p) (hp : s.pc p = .vWake) : s'.sleeper = markWoken s.sleeper := by
  cases e <;> simp only [Event.tid, Option.some.injEq, reduceCtorEq] at he <;> step_cases <;> grind

/-- While the waiter does not move the kernel's record of it changes only by being marked woken … -/
theorem step_sleeper_other {s s' : State} {e : Event} {o : Tid} (hi : Inv s) (hs : step s e = .ok s')
    (hw : (s.pc o).isWaiter = true) (hne : e.tid ≠ some o) :
    s'.sleeper = s.sleeper ∨ (s'.sleeper = markWoken s.sleeper ∧ ∃ p, s.pc p = .vWake) := by
  have h3 := hi.nonOwner
  cases e <;> simp only [Event.tid, ne_eq, Option.some.injEq] at hne <;> step_cases <;>
    grind [PC.isWaiter]

end NsyncVerif.Futex
