import NsyncVerif.Props.C06
import NsyncVerif.Proofs.MuCFairExec
import NsyncVerif.Proofs.MuCFairKeep3
import NsyncVerif.Proofs.MuCFairRec3
/-
  MuC, fair termination: the reduction of `C06_fair_termination_full` to "the execution settles"
  (`C06_fair_quiescence_or_sleepers_full`), through `C06_no_stuck_state`.
-/
namespace NsyncVerif.MuC

variable {cfg : Cfg} {s0 : State}

/-- The deadline of a timed P is not later than the deadline of the call, in every reachable state. -/
theorem reachable_okD {s : State} (h : Reachable cfg s) : ∀ t, (s.pc t).okD :=
  reachable_induction (P := fun s => ∀ t, (s.pc t).okD) (fun t => by simp [init, PC.okD])
    (fun _ _ _ hr hp hs t => (keep_step (reachable_inv1 hr) hs t).2.2 (hp t)) s h

theorem dlLe_none {d : Option Int} (h : dlLe none d = true) : d = none := by
  cases d with
  | none => rfl
  | some _ => simp [dlLe] at h

/-- One time step of an execution keeps every thread's call. -/
theorem exec_keep (x : Exec cfg s0) (hr : Reachable cfg s0) (t : Tid) (j : Nat) :
    CallKeep ((x.ρ j).pc t) ((x.ρ (j + 1)).pc t) := by
  cases h : x.σ j with
  | none => rw [x.next_none h]; exact CallKeep.refl _
  | some e => exact keep_step (reachable_inv1 (x.reach hr j)) (x.next_some h) t

/-- While the thread does not return it stays inside the same call. -/
theorem call_persist (x : Exec cfg s0) (hr : Reachable cfg s0) (t : Tid) (i : Nat) : ∀ d,
    (∀ j, i ≤ j → j ≤ i + d → (x.ρ j).pc t ≠ .idle) →
    (∀ c, ((x.ρ i).pc t).mw = some c → ∃ c', ((x.ρ (i + d)).pc t).mw = some c' ∧ c.same c') ∧
    (((x.ρ i).pc t).mw = none → ((x.ρ (i + d)).pc t).mw = none) := by
  intro d
  induction d with
  | zero => intro _; exact ⟨fun c h => ⟨c, h, c.same_refl⟩, id⟩
  | succ d ih =>
    intro hni
    obtain ⟨a, b⟩ := ih (fun j h1 h2 => hni j h1 (by omega))
    have hk := exec_keep x hr t (i + d)
    have hn1 : (x.ρ (i + d + 1)).pc t ≠ .idle := hni (i + d + 1) (by omega) (by omega)
    have hn0 : (x.ρ (i + d)).pc t ≠ .idle := hni (i + d) (by omega) (by omega)
    refine ⟨?_, ?_⟩
    · intro c hc
      obtain ⟨c1, h1, s1⟩ := a c hc
      rcases hk.1 c1 h1 with e | ⟨c2, h2, s2⟩
      · exact absurd e hn1
      · exact ⟨c2, h2, MW.same_trans s1 s2⟩
    · intro hc
      rcases hk.2.1 hn0 (b hc) with e | e
      · exact absurd e hn1
      · exact e

theorem call_persist' (x : Exec cfg s0) (hr : Reachable cfg s0) (t : Tid) {i j : Nat} (hij : i ≤ j)
    (hni : ∀ j', i ≤ j' → (x.ρ j').pc t ≠ .idle) :
    (∀ c, ((x.ρ i).pc t).mw = some c → ∃ c', ((x.ρ j).pc t).mw = some c' ∧ c.same c') ∧
    (((x.ρ i).pc t).mw = none → ((x.ρ j).pc t).mw = none) := by
  obtain ⟨d, rfl⟩ : ∃ d, j = i + d := ⟨j - i, by omega⟩
  exact call_persist x hr t i d (fun j' h1 _ => hni j' h1)

/-- In a settled execution a thread that never returns sleeps, at every late time, in a P without deadline of
    nsync_mu_wait whose call has no deadline and a condition that is false on the data. -/
theorem settled_sleeper (x : Exec cfg s0) (hr : Reachable cfg s0) (hc : ContractKept x) {n : Nat} (hs : SettledFrom x n)
    {t : Tid} {J : Nat} (hJ : n ≤ J) (hni : (x.ρ J).pc t ≠ .idle) :
    ∃ c cd, (x.ρ J).pc t = .mwPdRet c none ∧ c.cond = some cd ∧ evalCond (x.ρ J).data cd = false ∧ c.dl = none := by
  have hrJ := x.reach hr J
  have hq := hs J hJ
  rcases hq t with ⟨a, _⟩ | ha
  · exact absurd a hni
  · obtain ⟨c, k, cd, h1, h2, _, h4, h5⟩ := C06_no_stuck_state cfg (x.ρ J) hrJ hq (hc J) t ha
    refine ⟨c, cd, h1, ?_, h5, ?_⟩
    · rw [← reachable_pd_cond hrJ h1 h2]; exact h4
    · have := reachable_okD hrJ t
      rw [h1] at this
      exact dlLe_none this

/-- THE REDUCTION: if the execution settles (every thread eventually idle holding nothing or asleep, for ever),
    every call returns, nsync_mu_wait_with_deadline under the proviso `MustReturn`. -/
theorem fair_termination_of_settled (x : Exec cfg s0) (hr : Reachable cfg s0) (hc : ContractKept x)
    (hn : NoteHonoured x) {n : Nat} (hs : SettledFrom x n) (t : Tid) (i : Nat) (hm : MustReturn x t i) :
    ∃ j, i ≤ j ∧ (x.ρ j).pc t = .idle := by
  apply Classical.byContradiction
  intro hne
  have hni : ∀ j, i ≤ j → (x.ρ j).pc t ≠ .idle := fun j hj e => hne ⟨j, hj, e⟩
  have sleeper : ∀ J, i ≤ J → n ≤ J → ∃ c cd, (x.ρ J).pc t = .mwPdRet c none ∧ c.cond = some cd ∧
      evalCond (x.ρ J).data cd = false ∧ c.dl = none :=
    fun J h1 h2 => settled_sleeper x hr hc hs h2 (hni J h1)
  obtain ⟨cJ, cdJ, hpJ, hcJ, _, hdJ⟩ := sleeper (max i n) (by omega) (by omega)
  have hp := call_persist' x hr t (show i ≤ max i n by omega) hni
  cases hmw : ((x.ρ i).pc t).mw with
  | none =>
    have := hp.2 hmw
    rw [hpJ] at this; simp [PC.mw] at this
  | some c0 =>
    obtain ⟨c', h1, hsame⟩ := hp.1 c0 hmw
    rw [hpJ] at h1; simp only [PC.mw, Option.some.injEq] at h1; subst h1
    rcases hm c0 hmw with hdl | ⟨j, c1, hij, hmw1, hsaw⟩ | hcond
    · exact hdl (hsame.2.1 ▸ hdJ)
    · -- the note was seen at time j: from then on `saw`, but the thread sleeps in a P
      obtain ⟨c2, cd2, hp2, _, _, _⟩ := sleeper (max j n) (by omega) (by omega)
      have hp' := call_persist' x hr t (show j ≤ max j n by omega) (fun j' h => hni j' (by omega))
      obtain ⟨c3, h3, hs3⟩ := hp'.1 c1 hmw1
      rw [hp2] at h3; simp only [PC.mw, Option.some.injEq] at h3; subst h3
      have := hn.1 (max j n) t c2 none hp2
      rw [hs3.2.2.2 hsaw] at this; cases this
    · -- the condition is true from some time on, but the sleeper's condition is false
      obtain ⟨n', hn'⟩ := hcond cdJ (hsame.1 ▸ hcJ)
      obtain ⟨c2, cd2, hp2, hc2, hf2, _⟩ := sleeper (max (max i n) n') (by omega) (by omega)
      have hp' := call_persist' x hr t (show i ≤ max (max i n) n' by omega) hni
      obtain ⟨c3, h3, hs3⟩ := hp'.1 c0 hmw
      rw [hp2] at h3; simp only [PC.mw, Option.some.injEq] at h3; subst h3
      have e : cd2 = cdJ := by
        have : some cd2 = some cdJ := by rw [← hc2, hs3.1, ← hsame.1, hcJ]
        exact Option.some.inj this
      rw [e, hn' _ (by omega)] at hf2; cases hf2

end NsyncVerif.MuC
