/-
  Proofs/WaitNLocalStep3.lean — thread-local invariant: the step functions of the waitable calls.
-/
import NsyncVerif.Proofs.WaitNLocalStep2

set_option linter.unusedSimpArgs false

namespace WaitN

theorem linv_stepSg {s s' : State} {t : Tid} {c : Nat} {bc : Bool} {st : SgSt} {e : Ev}
    (hpc : s.pc t = .sg c bc st) (h : stepSg s t c bc st e = .ok s') : LInv (s'.pc t) (s'.fr t) := by
  have hinv : LInv (s.pc t) (s.fr t) := by rw [hpc]; trivial
  unfold stepSg at h
  split_ok h
  all_goals first
    | exact (keeps_dflt h).linv hinv
    | exact linv_spinAcq hinv (fun _ => by simp [LInv]) (by simp [LInv]) h
    | (cases h; simp [LInv]; done)
    | (cases h; exact Keeps.linv (by first | exact Keeps.refl _ _ | keeps_simp) hinv)
    | (cases h; simp only [setPc_pc, if_true]; split <;> trivial)

theorem lt_count_of_get {f : Frame} {i : Nat} {o : ObjId} (h : f.objs[i]? = some o) : i < f.count := by
  rcases Nat.lt_or_ge i f.count with h' | h'
  · exact h'
  · unfold Frame.count at h'; rw [List.getElem?_eq_none h'] at h; cases h

theorem linv_rtDone_nd {s s' : State} {t : Tid} {u : Use} {i : Nat} {st : NDst} {time : Deadline}
    (hinv : LInv (.wND u i st) (s.fr t)) (h : rtDone s t u i time = .ok s') : LInv (s'.pc t) (s'.fr t) := by
  cases u
  · simp only [LInv] at hinv
    obtain ⟨n, hn⟩ := hinv.2.2
    exact linv_rtDone_poll hinv.1 hinv.2.1 (lt_count_of_get hn) h
  · exact linv_rtDone_loop hinv.1 h
  · exact linv_rtDone_deq hinv h

theorem linv_rtDone_ctr {s s' : State} {t : Tid} {u : Use} {i : Nat} {l : Bool} {time : Deadline}
    (hinv : LInv (.wCtrRT u i l) (s.fr t)) (h : rtDone s t u i time = .ok s') : LInv (s'.pc t) (s'.fr t) := by
  cases u
  · simp only [LInv] at hinv
    obtain ⟨n, hn⟩ := hinv.2.2
    exact linv_rtDone_poll hinv.1 hinv.2.1 (lt_count_of_get hn) h
  · exact linv_rtDone_loop hinv.1 h
  · exact absurd hinv (by simp [LInv])

theorem linv_stepCtrRT {s s' : State} {t : Tid} {u : Use} {i : Nat} {l : Bool} {e : Ev}
    (hpc : s.pc t = .wCtrRT u i l) (hinv : LInv (.wCtrRT u i l) (s.fr t))
    (h : stepCtrRT s t u i l e = .ok s') : LInv (s'.pc t) (s'.fr t) := by
  have hinv0 : LInv (s.pc t) (s.fr t) := by rw [hpc]; exact hinv
  unfold stepCtrRT at h
  split_ok h
  all_goals first
    | exact (keeps_dflt h).linv hinv0
    | (cases h; simp only [setPc_pc, setPc_fr, setObj_fr, if_true]; exact linv_ctrRT hinv)
    | exact linv_rtDone_ctr (s := s.setObj _ _) hinv h
    | exact linv_rtDone_ctr hinv h

theorem linv_stepND {s s' : State} {t : Tid} {u : Use} {i : Nat} {st : NDst} {e : Ev}
    (hpc : s.pc t = .wND u i st) (hinv : LInv (.wND u i st) (s.fr t))
    (h : stepND s t u i st e = .ok s') : LInv (s'.pc t) (s'.fr t) := by
  have hinv0 : LInv (s.pc t) (s.fr t) := by rw [hpc]; exact hinv
  unfold stepND at h
  split_ok h
  all_goals first
    | exact (keeps_dflt h).linv hinv0
    | exact (keeps_stepOpen h).linv hinv0
    | (cases h; simp only [setPc_pc, setPc_fr, setObj_fr, if_true]; exact linv_nd hinv)
    | exact linv_rtDone_nd (s := s.setObj _ _) hinv h
    | exact linv_rtDone_nd hinv h

theorem linv_stepEnqCv {s s' : State} {t : Tid} {i : Nat} {st : CvEnqSt} {e : Ev}
    (hpc : s.pc t = .wEnqCv i st) (hinv : LInv (.wEnqCv i st) (s.fr t))
    (h : stepEnqCv s t i st e = .ok s') : LInv (s'.pc t) (s'.fr t) := by
  have hinv0 : LInv (s.pc t) (s.fr t) := by rw [hpc]; exact hinv
  unfold stepEnqCv at h
  split_ok h
  all_goals first
    | exact (keeps_dflt h).linv hinv0
    | exact linv_spinAcq hinv0 (fun _ => linv_enqCv hinv) (linv_enqCv hinv) h
    | (cases h; simp only [setPc_pc, setPc_fr, setObj_fr, setRec_fr, if_true]; exact linv_enqCv hinv)
    | exact linv_afterEnq (s := s.setObj _ _) hinv.1 hinv.2.1 hinv.2.2.2 h

theorem linv_stepEnq {s s' : State} {t : Tid} {i : Nat} {st : EnqSt} {e : Ev}
    (hpc : s.pc t = .wEnq i st) (hinv : LInv (.wEnq i st) (s.fr t))
    (h : stepEnq s t i st e = .ok s') : LInv (s'.pc t) (s'.fr t) := by
  have hinv0 : LInv (s.pc t) (s.fr t) := by rw [hpc]; exact hinv
  unfold stepEnq at h
  split_ok h
  all_goals first
    | exact (keeps_dflt h).linv hinv0
    | (cases h; simp only [setPc_pc, setPc_fr, setObj_fr, setRec_fr, if_true]; exact linv_enq hinv)
    | exact linv_afterEnq hinv.1 hinv.2.1 hinv.2.2.2 h

theorem linv_stepDeqCv {s s' : State} {t : Tid} {j : Nat} {st : CvDeqSt} {e : Ev}
    (hpc : s.pc t = .wDeqCv j st) (hinv : LInv (.wDeqCv j st) (s.fr t))
    (h : stepDeqCv s t j st e = .ok s') : LInv (s'.pc t) (s'.fr t) := by
  have hinv0 : LInv (s.pc t) (s.fr t) := by rw [hpc]; exact hinv
  unfold stepDeqCv at h
  split_ok h
  all_goals first
    | exact (keeps_dflt h).linv hinv0
    | exact linv_spinAcq hinv0 (fun _ => linv_deqCv hinv) (linv_deqCv hinv) h
    | (cases h; simp only [setPc_pc, setPc_fr, setObj_fr, setRec_fr, ownerRemove_fr, if_true]; exact linv_deqCv hinv)
    | exact linv_deqDone (s := (s.setObj _ _).setRec _ _) hinv.1 hinv.2.1 hinv.2.2.1 hinv.2.2.2.2 h
    | exact linv_deqDone (s := s.setRec _ _) hinv.1 hinv.2.1 hinv.2.2.1 hinv.2.2.2.2 h
    | (cases h; exact hinv0)

theorem linv_stepDeq {s s' : State} {t : Tid} {j : Nat} {st : DeqSt} {e : Ev}
    (hpc : s.pc t = .wDeq j st) (hinv : LInv (.wDeq j st) (s.fr t))
    (h : stepDeq s t j st e = .ok s') : LInv (s'.pc t) (s'.fr t) := by
  have hinv0 : LInv (s.pc t) (s.fr t) := by rw [hpc]; exact hinv
  unfold stepDeq at h
  split_ok h
  all_goals first
    | exact (keeps_dflt h).linv hinv0
    | (cases h; simp only [setPc_pc, setPc_fr, setObj_fr, setRec_fr, ownerRemove_fr, if_true]; exact linv_deq hinv)
    | exact linv_deqDone hinv.1 hinv.2.1 hinv.2.2.1 hinv.2.2.2.2 h

end WaitN
