/-
  Layer `CvFix` (cv.c with the repair of F3; adapted from the `Cv` file of the same name): `step … = .ok s'` implies `Tr` — stores / CAS on record fields, mutex word, semaphores.
-/
import NsyncVerif.Proofs.CvFixTrStepRecLd

namespace NsyncVerif.CvFix

theorem tr_recSt {cfg : Config} {s s' : State} {t : Tid} {site : RSite} {r : Rid} {new obs : Nat}
    (h : stepRecSt s t site r new obs = .ok s') : Tr cfg s (.recSt t site r new obs) s' := by
  unfold stepRecSt at h
  dsimp only at h
  split at h
  · rename_i hl
    simp only [need_ok] at h
    obtain ⟨hm, hst, hn, _, h⟩ := h
    cases h; subst hn
    exact .wSt1 t r obs hl hm hst
  · rename_i hl
    simp only [need_ok] at h
    obtain ⟨hr, hn, _, h⟩ := h
    cases h; subst hn
    exact .wClr t r obs hl hr
  · rename_i hl
    simp only [need_ok] at h
    obtain ⟨hr, hn, _, h⟩ := h
    cases h; subst hn
    exact .wake t r obs hl hr
  · rename_i hl
    simp only [need_ok] at h
    obtain ⟨hm, hst, ⟨ho, he⟩, hn, _, h⟩ := h
    cases h; subst hn
    exact .enqSt t r obs hl hm hst ho he
  · rename_i hl
    simp only [need_ok] at h
    obtain ⟨hr, hn, _, h⟩ := h
    cases h; subst hn
    exact .deqSt t r obs hl hr
  · cases h

theorem tr_recCas {cfg : Config} {s s' : State} {t : Tid} {site : RSite} {r : Rid} {exp new obs : Nat}
    {ok : Bool} (h : stepRecCas s t site r exp new obs ok = .ok s') :
    Tr cfg s (.recCas t site r exp new obs ok) s' := by
  unfold stepRecCas at h
  dsimp only at h
  simp only [need_ok] at h
  obtain ⟨_, hn, ho, hok, h⟩ := h
  split at h
  · rename_i hl
    simp only [need_ok] at h
    obtain ⟨hr, h⟩ := h
    split at h
    · rename_i hk; cases h; subst hk
      exact .wRmCasOk t r exp new obs hl hr hn ho (by simpa using hok.symm)
    · rename_i hk; cases h
      have : ok = false := by simpa using hk
      subst this
      exact .loc (.wRmCasFail _ _ _ _ hl hr)
  · rename_i first hl
    simp only [need_ok] at h
    obtain ⟨_, hr, h⟩ := h
    split at h
    · rename_i hk; cases h; subst hk
      exact .sRcCasOk t _ r exp new obs hl hr hn ho (by simpa using hok.symm)
    · rename_i hk; cases h
      have : ok = false := by simpa using hk
      subst this
      exact .loc (.sRcCasFail _ _ _ _ _ hl hr)
  · rename_i hl
    simp only [need_ok] at h
    obtain ⟨_, hr, h⟩ := h
    split at h
    · rename_i hk; cases h; subst hk
      exact .sRcCasOk t _ r exp new obs hl hr hn ho (by simpa using hok.symm)
    · rename_i hk; cases h
      have : ok = false := by simpa using hk
      subst this
      exact .loc (.sRcCasFail _ _ _ _ _ hl hr)
  · cases h

theorem tr_muLd {cfg : Config} {s s' : State} {t : Tid} {site : MSite} {obs : Nat}
    (h : stepMuLd s t site obs = .ok s') : Tr cfg s (.muLd t site obs) s' := by
  unfold stepMuLd at h
  dsimp only at h
  split at h
  · rename_i hl
    simp only [need_ok] at h
    obtain ⟨_, _, h⟩ := h
    cases h
    refine .muMode t obs _ hl ?_
    split <;> simp
  · rename_i hl
    split at h
    · cases h
    · rename_i f rest hlist
      cases h
      exact .loc (.wwLd obs f rest hl hlist)
  · rename_i hl; cases h; exact .loc (.wwRelLd _ _ (.inl ⟨rfl, hl⟩))
  · rename_i hl; cases h; exact .loc (.wwRelLd _ _ (.inr ⟨rfl, hl⟩))
  · cases h

theorem tr_muCas {cfg : Config} {s s' : State} {t : Tid} {site : MSite} {exp new obs : Nat} {ok : Bool}
    (h : stepMuCas s t site exp new obs ok = .ok s') : Tr cfg s (.muCas t site exp new obs ok) s' := by
  unfold stepMuCas at h
  dsimp only at h
  simp only [need_ok] at h
  obtain ⟨_, _, h⟩ := h
  split at h
  · rename_i hl
    simp only [need_ok] at h
    obtain ⟨_, h⟩ := h
    split at h
    · rename_i hk; subst hk
      split at h
      · cases h
      · rename_i f rest hlist
        cases h
        exact .wwCasOk t exp new obs f rest hl hlist
    · rename_i hk; cases h
      have : ok = false := by simpa using hk
      subst this
      exact .loc (.wwCasFail _ _ _ hl)
  · rename_i hl
    simp only [need_ok] at h
    obtain ⟨_, h⟩ := h
    split at h
    · rename_i hk; subst hk; cases h
      exact .loc (.wwRelCasOk _ _ _ hl)
    · rename_i hk; cases h
      have : ok = false := by simpa using hk
      subst this
      exact .loc (.wwRelCasFail _ _ _ hl)
  · cases h

theorem setThr_self (s : State) (t : Tid) : s.setThr t (s.thr t) = s := by
  simp only [State.setThr]
  congr
  funext x; simp only [updT]; split <;> simp_all

theorem tr_semV {cfg : Config} {s s' : State} {t : Tid} {k : SemId}
    (h : stepSemV cfg s t k = .ok s') : Tr cfg s (.semV t k) s' := by
  unfold stepSemV at h
  dsimp only at h
  split at h
  · rename_i hl
    split at h
    · cases h
    · rename_i r q hc
      simp only [need_ok] at h
      obtain ⟨_, h⟩ := h
      cases h
      exact .semVWake t k r q hl hc
  · rename_i hl
    simp only [need_ok] at h
    obtain ⟨hopen, h⟩ := h
    cases h
    exact .semOther _ _ rfl (fun u hu => by simp only [Event.tid, Option.some.injEq] at hu; subst hu; exact hopen)

theorem tr_semPdEnter {cfg : Config} {s s' : State} {t : Tid} {k : SemId} {dl : Option Nat}
    (h : stepSemPdEnter s t k dl = .ok s') : Tr cfg s (.semPdEnter t k dl) s' := by
  unfold stepSemPdEnter at h
  dsimp only at h
  split at h
  · rename_i hl
    simp only [need_ok] at h
    obtain ⟨hk, hd, h⟩ := h
    cases h
    exact .loc (.semPdEnterW k dl hl hk hd)
  · rename_i hl
    simp only [need_ok] at h
    obtain ⟨hk, hd, h⟩ := h
    cases h
    exact .loc (.semPdEnterC k dl hl hk hd)
  · cases h; exact .same _ rfl rfl
  · cases h; exact .same _ rfl rfl
  · cases h

theorem tr_semPdRet {cfg : Config} {s s' : State} {t : Tid} {k : SemId} {to : Bool}
    (h : stepSemPdRet s t k to = .ok s') : Tr cfg s (.semPdRet t k to) s' := by
  unfold stepSemPdRet at h
  dsimp only at h
  split at h
  · rename_i hl
    simp only [need_ok] at h
    obtain ⟨_, h⟩ := h
    split at h
    · rename_i hto; subst hto
      simp only [need_ok] at h
      obtain ⟨htime, h⟩ := h
      cases h
      split at htime
      · rename_i d hd
        exact .loc (.semPdRetTimedW k d hl hd (by simpa using htime))
      · simp at htime
    · rename_i hto
      have : to = false := by simpa using hto
      subst this
      simp only [need_ok] at h
      cases h.2
      exact .semPdRetOkW t k hl
  · rename_i hl
    simp only [need_ok] at h
    obtain ⟨_, h⟩ := h
    split at h
    · rename_i hto; subst hto
      simp only [need_ok] at h
      obtain ⟨htime, h⟩ := h
      cases h
      split at htime
      · rename_i d hd
        exact .loc (.semPdRetTimedC k d hl hd (by simpa using htime))
      · simp at htime
    · rename_i hto
      have : to = false := by simpa using hto
      subst this
      simp only [need_ok] at h
      cases h.2
      exact .semPdRetOkC t k hl
  · rename_i hl
    split at h
    · cases h; exact .same _ rfl rfl
    · simp only [need_ok] at h; cases h.2
      exact .semOther _ _ rfl (fun u hu => by
        simp only [Event.tid, Option.some.injEq] at hu; subst hu; simp [hl, Loc.isOpen])
  · rename_i hl
    split at h
    · cases h; exact .same _ rfl rfl
    · simp only [need_ok] at h; cases h.2
      exact .semOther _ _ rfl (fun u hu => by
        simp only [Event.tid, Option.some.injEq] at hu; subst hu; simp [hl, Loc.isOpen])
  · cases h

end NsyncVerif.CvFix
