import NsyncVerif.Proofs.MuCInv7Reach
/-
  MuC: a step of thread `t` (or of the environment) changes neither the program point nor the
  client-visible ghost `held` of any other thread.
-/
namespace NsyncVerif.MuC

def SameOther (s s' : State) (t : Tid) : Prop := ∀ u, u ≠ t → s'.pc u = s.pc u ∧ s'.held u = s.held u

theorem scanRun_other : ∀ (n : Nat) (s : State) (t : Tid) (r : Ret) (sc : Scan) (s' : State),
    scanRun n s t r sc = .ok s' → SameOther s s' t := by
  intro n
  induction n with
  | zero => intro s t r sc s' h; simp [scanRun] at h
  | succ n ih =>
    intro s t r sc s' h
    unfold scanRun at h
    split at h
    · cases h
    · simp only [Except.ok.injEq] at h; subst h; intro u hu; simp [setFn, hu]
    · simp only [Except.ok.injEq] at h; subst h; intro u hu; simp [setFn, hu]
    · rename_i sc' heq
      split at h
      · simp only [Except.ok.injEq] at h; subst h; intro u hu; simp [setFn, hu]
      · split at h
        · rename_i s1 hp
          simp only [Except.ok.injEq] at h; subst h
          have e1 : s1 = (pickup s sc').1 := by rw [hp]
          subst e1
          intro u hu
          simp [toFin, setFn, hu, (frame_pickup s sc').held]
        · rename_i s1 sc2 hp
          have e1 : s1 = (pickup s sc').1 := by rw [hp]
          subst e1
          split at h
          · simp only [Except.ok.injEq] at h; subst h
            intro u hu
            simp [setFn, hu, (frame_pickup s sc').held]
          · have := ih _ t r sc2 s' h
            intro u hu
            obtain ⟨a, b⟩ := this u hu
            exact ⟨by rw [a]; simp, by rw [b, (frame_pickup s sc').held]⟩

theorem afterPickup_other {s : State} {sc0 : Scan} {t : Tid} {r : Ret} {s' : State}
    (h : afterPickup (pickup s sc0) t r sc0 = .ok s') : SameOther s s' t := by
  unfold afterPickup at h
  split at h
  · rename_i s1 hp
    simp only [Except.ok.injEq] at h; subst h
    have e1 : s1 = (pickup s sc0).1 := by rw [hp]
    subst e1
    intro u hu
    simp [toFin, setFn, hu, (frame_pickup s sc0).held]
  · rename_i s1 sc2 hp
    have e1 : s1 = (pickup s sc0).1 := by rw [hp]
    subst e1
    split at h
    · simp only [Except.ok.injEq] at h; subst h
      intro u hu
      simp [setFn, hu, (frame_pickup s sc0).held]
    · have := scanRun_other _ _ t r sc2 s' h
      intro u hu
      obtain ⟨a, b⟩ := this u hu
      exact ⟨by rw [a]; simp, by rw [b, (frame_pickup s sc0).held]⟩

theorem afterEval_other {s : State} {sc : Scan} {t : Tid} {r : Ret} {res : Bool} {s' : State}
    (h : afterEval s t r sc res = .ok s') : SameOther s s' t := by
  unfold afterEval at h
  split at h
  · cases h
  · split at h
    · exact scanRun_other _ _ t r _ s' h
    · split at h
      · simp only [Except.ok.injEq] at h; subst h; intro u hu; simp [setFn, hu]
      · cases h
      · exact scanRun_other _ _ t r _ s' h

macro "other_close" h:ident : tactic => `(tactic|
  first
  | (cases $h:ident; done)
  | (cases $h:ident; intro u hu
     (first
      | (simp [setFn, hu, mwLoop_eq, afterFin_eq, afterWakes_eq, dequeue, enqLast, enqFirst, setHeld, dropW]; done)
      | ((repeat' split) <;> simp [setFn, hu, mwLoop_eq, afterFin_eq, afterWakes_eq, dequeue, enqLast, enqFirst, setHeld, dropW] <;>
          (repeat' split) <;> simp_all [setFn]))))

theorem stepLd_other {s s' : State} {t : Tid} {o : Ord} {loc : Loc} {obs : Nat} (h : stepLd s t o loc obs = .ok s') :
    SameOther s s' t := by
  unfold stepLd at h
  split at h
  all_goals (try dsimp only at h)
  all_goals (try simp only [ldWord, ldWaiting] at h)
  all_goals (repeat' split at h)
  all_goals other_close h

theorem stepSt_other {s s' : State} {t : Tid} {o : Ord} {loc : Loc} {new obs : Nat} (h : stepSt s t o loc new obs = .ok s') :
    SameOther s s' t := by
  unfold stepSt at h
  split at h
  all_goals (try dsimp only at h)
  all_goals (repeat' split at h)
  all_goals other_close h

theorem stepCall_other {s s' : State} {t : Tid} {a : Api} (h : stepCall s t a = .ok s') : SameOther s s' t := by
  unfold stepCall at h
  split at h
  · cases a <;> dsimp only at h
    all_goals (repeat' split at h)
    all_goals other_close h
  · cases h

theorem stepRet_other {s s' : State} {t : Tid} {a : Api} {res : Res} (h : stepRet s t a res = .ok s') : SameOther s s' t := by
  unfold stepRet at h
  split at h
  all_goals (try dsimp only at h)
  all_goals (repeat' split at h)
  all_goals other_close h

theorem stepCond_other {s s' : State} {t : Tid} {fn : CFn} {k : Nat} {res : Bool} (h : stepCond s t fn k res = .ok s') :
    SameOther s s' t := by
  unfold stepCond at h
  dsimp only at h
  split at h
  · repeat' split at h
    all_goals other_close h
  · repeat' split at h
    all_goals first
      | (cases h; done)
      | exact afterEval_other h
  · cases h

end NsyncVerif.MuC
