import NsyncVerif.Proofs.MuCInv2Api
import NsyncVerif.Proofs.MuCQueueDefs
/-
  MuC, fair termination (C06 / C02 on a mutex with conditional critical sections): infinite executions, weak fairness,
  the hypotheses, and the statements (`def … : Prop`).  Pattern: Props/C02Progress.lean (model MuQ).
-/
namespace NsyncVerif.MuC

/-- An infinite execution from `s0`; `σ i = none` means that nobody moves at time `i`. -/
structure Exec (cfg : Cfg) (s0 : State) where
  ρ : Nat → State
  σ : Nat → Option Event
  start : ρ 0 = s0
  next : ∀ i, match σ i with
    | none => ρ (i + 1) = ρ i
    | some e => step cfg (ρ i) e = .ok (ρ (i + 1))

/-- Thread `t` is blocked in a semaphore P that can neither succeed (count 0) nor time out (no deadline, or the
    clock has not reached it).  (Intended: the only program points at which the acceptor accepts no event of the
    thread; the analogue of `C02_thread_enabled` is not proved for MuC.) -/
def AsleepOnSem (s : State) (t : Tid) : Prop :=
  (∃ c k, s.pc t = .lsPRet c ∧ c.w = some k ∧ (s.wr k).sem = 0) ∨
  (∃ c k dl, s.pc t = .mwPdRet c dl ∧ c.w = some k ∧ (s.wr k).sem = 0 ∧ ∀ d, dl = some d → s.now < d)

/-- The sleepers of `Quiescent` (Proofs/MuCQueueDefs.lean) are asleep in this sense. -/
theorem asleepOnSem_of_asleep {s : State} {t : Tid} (h : Asleep s t) : AsleepOnSem s t := by
  rcases h with ⟨c, k, a, b, d⟩ | ⟨c, k, a, b, d⟩
  · exact Or.inl ⟨c, k, a, b, d⟩
  · exact Or.inr ⟨c, k, none, a, b, d, fun _ h => by cases h⟩

/-- Accesses to the client's data.  The acceptor accepts a `dataR` of any thread at any time (it checks the value
    only); such an event is not a step of the library. -/
def Event.isData : Event → Bool
  | .dataW _ _ _ | .dataR _ _ _ => true
  | _ => false

/-- Weak fairness on each thread's next step: a thread that from time `i` on is inside a call and not asleep takes a
    step of the library (an event that is not a client data access) at some time `j ≥ i`. -/
def WeakFair {cfg : Cfg} {s0 : State} (x : Exec cfg s0) : Prop :=
  ∀ t i, (∀ j, i ≤ j → (x.ρ j).pc t ≠ .idle ∧ ¬ AsleepOnSem (x.ρ j) t) →
    ∃ j e, i ≤ j ∧ x.σ j = some e ∧ e.tid = some t ∧ e.isData = false

/-- Every thread that holds the mutex eventually makes a call (after the last arrival: unlock / runlock /
    unlock_without_wakeup — a holder can call nothing else but nsync_mu_wait, which is an arrival). -/
def HoldersRelease {cfg : Cfg} {s0 : State} (x : Exec cfg s0) : Prop :=
  ∀ t i, (x.ρ i).held t ≠ none → ∃ j a, i ≤ j ∧ x.σ j = some (.call t a)

/-- The calls that acquire (or re-acquire) the mutex. -/
def Event.isArrival : Event → Bool
  | .call _ .lock | .call _ .rlock | .call _ .trylock | .call _ .rtrylock | .call _ (.wait _ _ _) => true
  | _ => false

/-- Only finitely many lock / rlock / trylock / rtrylock / nsync_mu_wait calls arrive. -/
def FiniteArrivals {cfg : Cfg} {s0 : State} (x : Exec cfg s0) : Prop :=
  ∃ n, ∀ j e, n ≤ j → x.σ j = some e → e.isArrival = false

/-- A failed CAS on a `remove_count` (mu.c:243-245 in unlock_slow, mu_wait.c:100-104 after a timeout). -/
def Event.rcFail : Event → Bool
  | .cas _ _ (.rc _) _ _ _ false => true
  | _ => false

/-- Only finitely many CASes on `remove_count` fail (memory the mutex does not own; see Props/C02Progress.lean). -/
def FiniteRcFails {cfg : Cfg} {s0 : State} (x : Exec cfg s0) : Prop :=
  ∃ n, ∀ j e, n ≤ j → x.σ j = some e → e.rcFail = false

/-- A V on a semaphore from outside this mutex. -/
def Event.isEnvV : Event → Bool
  | .envV _ => true
  | _ => false

/-- Only finitely many semaphore posts come from outside the mutex.  (NEEDED in this model: a timed P whose
    deadline has passed may still return 0 when the count is non-zero, so a waiter that is posted spuriously again
    and again goes round mu_wait.c:240-255 for ever without ever taking the timeout.) -/
def FiniteEnvPosts {cfg : Cfg} {s0 : State} (x : Exec cfg s0) : Prop :=
  ∃ n, ∀ j e, n ≤ j → x.σ j = some e → e.isEnvV = false

def Event.isNoteSeen : Event → Bool
  | .noteSeen _ => true
  | _ => false

/-- nsync_sem_wait_with_cancel_ looks at its note once per call and is not inside a P once it has seen the note
    notified (sem_wait.c: it returns ECANCELED at once; notes are never un-notified; `MW.saw` is only set outside the
    P).  The acceptor does not enforce this (the traffic on the note is abstract: after a `noteSeen` it accepts a
    `semPdEnter`, and further `noteSeen`s), so it is a hypothesis on the execution. -/
def NoteHonoured {cfg : Cfg} {s0 : State} (x : Exec cfg s0) : Prop :=
  (∀ j t c dl, (x.ρ j).pc t = .mwPdRet c dl → c.saw = false) ∧
  (∀ j t c, (x.ρ j).pc t = .mwSem c → c.saw = true → x.σ j ≠ some (.noteSeen t))

/-- The contract of nsync_mu_unlock_without_wakeup is kept in every state. -/
def ContractKept {cfg : Cfg} {s0 : State} (x : Exec cfg s0) : Prop :=
  ∀ j, WithoutWakeupContract (x.ρ j)

/-- The clock passes every finite deadline a sleeper waits for. -/
def ClockAdvances {cfg : Cfg} {s0 : State} (x : Exec cfg s0) : Prop :=
  ∀ t i c d, (x.ρ i).pc t = .mwPdRet c (some d) →
    ∃ j, i ≤ j ∧ (d ≤ (x.ρ j).now ∨ (x.ρ j).pc t ≠ .mwPdRet c (some d))

/-- The proviso under which the call thread `t` is inside at time `i` has to return: every call but
    nsync_mu_wait_with_deadline unconditionally (`PC.mw = none`); nsync_mu_wait_with_deadline (locals `c`) if its
    deadline is finite, or at some time the call has seen its cancel note notified (`MW.saw`: `noteSeen` /
    `noteNotify`), or its condition — if any — is true on the protected data from some time on. -/
def MustReturn {cfg : Cfg} {s0 : State} (x : Exec cfg s0) (t : Tid) (i : Nat) : Prop :=
  ∀ c, ((x.ρ i).pc t).mw = some c →
    c.dl ≠ none ∨
    (∃ j c', i ≤ j ∧ ((x.ρ j).pc t).mw = some c' ∧ c'.saw = true) ∨
    (∀ cd, c.cond = some cd → ∃ n, ∀ j, n ≤ j → evalCond (x.ρ j).data cd = true)

/-- The hypotheses. -/
structure FairHyps {cfg : Cfg} {s0 : State} (x : Exec cfg s0) : Prop where
  reach : Reachable cfg s0
  fair : WeakFair x
  release : HoldersRelease x
  arrivals : FiniteArrivals x
  rcFails : FiniteRcFails x
  envPosts : FiniteEnvPosts x
  note : NoteHonoured x
  contract : ContractKept x
  clock : ClockAdvances x

/-- THE STATEMENT (with the two hypotheses `FiniteEnvPosts`, `NoteHonoured` the model needs on top of those asked for):
    every call returns, nsync_mu_wait_with_deadline under the proviso `MustReturn`.  NOT PROVED; see Props/C06Fair.lean. -/
def C06_fair_termination_full : Prop :=
  ∀ (cfg : Cfg) (s0 : State) (x : Exec cfg s0), FairHyps x →
    ∀ t i, MustReturn x t i → ∃ j, i ≤ j ∧ (x.ρ j).pc t = .idle

/-- From time `n` on every thread is idle holding nothing, or asleep (in the sense of `Quiescent`: in the P of
    lock_slow, or in a P without deadline of nsync_mu_wait, count 0). -/
def SettledFrom {cfg : Cfg} {s0 : State} (x : Exec cfg s0) (n : Nat) : Prop :=
  ∀ j, n ≤ j → Quiescent (x.ρ j)

/-- Stage (2): such an execution settles.  NOT PROVED (it is what is missing for `C06_fair_termination_full`:
    `C06_fair_termination_of_settled` derives the latter from it). -/
def C06_fair_quiescence_or_sleepers_full : Prop :=
  ∀ (cfg : Cfg) (s0 : State) (x : Exec cfg s0), FairHyps x → ∃ n, SettledFrom x n

end NsyncVerif.MuC
