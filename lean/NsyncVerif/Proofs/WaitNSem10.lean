/-
  Proofs/WaitNSem10.lean — `TI` is preserved by the caller's own steps inside the do-while, part 1:
  cv_ready_time, counter_ready_time, and nsync_note_notified_deadline_ as note_ready_time.
-/
import NsyncVerif.Proofs.WaitNSem9

set_option linter.unusedSimpArgs false
set_option linter.unusedVariables false

namespace WaitN

theorem sdat_of_scanned {s s' : State} {p p' : PC} {f : Frame} (hsc : scanned p' f = scanned p f)
    (he : ∀ n, .note n ∈ f.objs → (s'.obj (.note n)).expiry = (s.obj (.note n)).expiry)
    (h : SDat s p f) : SDat s' p' f := by
  intro k hk hm
  rw [hsc] at hk
  obtain ⟨h1, h2⟩ := h k hk hm
  refine ⟨h1, fun i n hi hn => ?_⟩
  rw [he n (List.mem_of_getElem? hn)]
  exact h2 i n hi hn

/-- a move between two program points of the same `ready_time (v, &nw[i])` call that keeps the frame -/
theorem ti_scan_go {s s' : State} {b : SemId → Bool} {t : Tid} {e : Ev}
    (hr : Reachable s) (sb : SB s) (hs : stepThr s t e = .ok s') (ti : TI s b t)
    (hsl : inSleep (s.pc t) = true) (hsl' : inSleep (s'.pc t) = true) (hnp : ∀ j, s.pc t ≠ .wPdWait j)
    (hfr : s'.fr t = s.fr t) (hsc : scanned (s'.pc t) (s.fr t) = scanned (s.pc t) (s.fr t))
    (hsee : ∀ i r, (s.fr t).recs[i]? = some r → (s'.rcd r).waiting = false → sReady s' (s.fr t) i →
              Seen s (s.pc t) (s.fr t) i → Seen s' (s'.pc t) (s.fr t) i) :
    TI s' (binStep b (.thr t e)) t := by
  have hph := inPhase_of_inSleep hsl
  have M := mono_stepThr hs
  have hkn := known_of_reachable hr t (inCall_of_inPhase hph)
  have hexp : ∀ n, .note n ∈ (s.fr t).objs → (s'.obj (.note n)).expiry = (s.obj (.note n)).expiry :=
    fun n hn => M.expiry _ (hkn _ hn)
  refine ti_move hr sb hs ti hph (by rw [hfr]) (by rw [hfr]) (fun j hj => absurd hj (hnp j)) ?_ ?_ ?_ ?_
  · intro i r _ _ _; exact .inl (wrAt_of_inSleep hsl i)
  · intro _ i r _; exact wrAt_of_inSleep hsl i
  · intro _ i r hri hw' hrd
    rw [hfr] at hrd ⊢
    exact .inr ⟨hsl, hsee i r hri hw' hrd⟩
  · rw [hfr]; exact sdat_of_scanned hsc hexp ti.sd

/-! ### cv_ready_time (v, &nw[j]) -/

theorem ti_stepCvRT {s s' : State} {b : SemId → Bool} {t : Tid} {e : Ev} {j : Nat}
    (hr : Reachable s) (sb : SB s) (hs : stepThr s t e = .ok s') (ti : TI s b t)
    (hpc : s.pc t = .wCvRT j) (h : stepCvRT s t j e = .ok s') : TI s' (binStep b (.thr t e)) t := by
  have hl : LInv (.wCvRT j) (s.fr t) := hpc ▸ linv_of_reachable hr t
  obtain ⟨c, hcv⟩ := hl.2
  unfold stepCvRT at h
  split at h
  · rename_i r' obs r hrj
    split at h
    · rename_i hg
      refine ti_rtDone_loop hr sb hs ti (by rw [hpc]; rfl) (by rw [hpc]; rfl) (lt_count_of_get hcv)
        (by rw [hpc]; simp) ?_ ?_ h
      · intro ht r0 hr0 hw0 _ _
        exfalso
        rw [hrj] at hr0; cases hr0
        have h0 : obs ≠ 0 := by
          intro h0; simp [h0, dlePast] at ht
        rw [hg.2, hw0] at h0; exact h0 rfl
      · intro _ n hn; rw [hcv] at hn; cases hn
    · simp at h
  · exact ti_keeps hr sb hs (keeps_dflt h) ti

/-! ### counter_ready_time (v, &nw[i]) -/

theorem ti_stepCtrRT_loop {s s' : State} {b : SemId → Bool} {t : Tid} {e : Ev} {i : Nat} {l : Bool}
    (hr : Reachable s) (sb : SB s) (hs : stepThr s t e = .ok s') (ti : TI s b t)
    (hpc : s.pc t = .wCtrRT .loop i l) (h : stepCtrRT s t .loop i l e = .ok s') : TI s' (binStep b (.thr t e)) t := by
  have hl : LInv (.wCtrRT .loop i l) (s.fr t) := hpc ▸ linv_of_reachable hr t
  obtain ⟨c, hctr⟩ := hl.2
  have Kd : dflt s t e = .ok s' → TI s' (binStep b (.thr t e)) t := fun h => ti_keeps hr sb hs (keeps_dflt h) ti
  unfold stepCtrRT at h
  rw [hctr] at h
  dsimp only at h
  split_ok h
  all_goals first
    | exact Kd h
    | skip
  · -- ATM_STORE (&c->waited, 1)
    cases h
    refine ti_scan_go hr sb hs ti (by rw [hpc]; rfl) (by simp [inSleep]) (by rw [hpc]; simp) rfl
      (by rw [hpc]; simp [scanned]) ?_
    intro i' r _ _ _ hseen
    rw [hpc] at hseen
    simp only [setPc_pc, if_true]
    rcases hseen with h1 | h1
    · exact .inl h1
    · exact .inr h1
  · -- ATM_LOAD_ACQ (&c->value) observed 0
    exact ti_rtDone_loop hr sb hs ti (by rw [hpc]; rfl) (by rw [hpc]; rfl) (lt_count_of_get hctr)
      (by rw [hpc]; simp) (fun ht => by simp [dlePast] at ht) (fun ht => by simp [dlePast] at ht) h
  · -- … observed a non-zero value
    rename_i k' obs hg h0
    refine ti_rtDone_loop hr sb hs ti (by rw [hpc]; rfl) (by rw [hpc]; rfl) (lt_count_of_get hctr)
      (by rw [hpc]; simp) ?_ ?_ h
    · intro ht r0 _ _ hrd _
      exfalso
      unfold sReady at hrd
      rw [hctr] at hrd
      exact h0 (by rw [hg.2]; exact hrd.1)
    · intro _ n hn; rw [hctr] at hn; cases hn

end WaitN
