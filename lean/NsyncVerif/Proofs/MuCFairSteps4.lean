import NsyncVerif.Proofs.MuCFairSteps3
import NsyncVerif.Proofs.MuCFairStraight2
/-
  MuC, fair termination, steps A and B along an execution: after the last arrival every thread's stage is
  non-increasing and freezes; it does not freeze at 2 (`HoldersRelease`); and a thread whose stage has frozen is never
  again past a point of no return (a return point, inside a try-lock, in the wake-up loop of a release).
-/
namespace NsyncVerif.MuC

variable {cfg : Cfg} {s0 : State}

/-- No arrival from time `n0` on. -/
def NoArrivals (x : Exec cfg s0) (n0 : Nat) : Prop := ∀ j e, n0 ≤ j → x.σ j = some e → e.isArrival = false

theorem stage_mono (x : Exec cfg s0) (hr : Reachable cfg s0) {n0 : Nat} (hna : NoArrivals x n0) (t : Tid) (j : Nat)
    (hj : n0 ≤ j) : stage (x.ρ (j + 1)) t ≤ stage (x.ρ j) t := by
  cases h : x.σ j with
  | none => rw [x.next_none h]; exact Nat.le_refl _
  | some e => exact stage_step (x.reach hr j) (x.next_some h) (hna j e hj h) t

theorem stage_mono_le (x : Exec cfg s0) (hr : Reachable cfg s0) {n0 : Nat} (hna : NoArrivals x n0) (t : Tid) {i j : Nat}
    (hi : n0 ≤ i) (hij : i ≤ j) : stage (x.ρ j) t ≤ stage (x.ρ i) t := by
  obtain ⟨d, rfl⟩ : ∃ d, j = i + d := ⟨j - i, by omega⟩
  exact mono_le (f := fun j => stage (x.ρ j) t) (n0 := i) (fun j hj => stage_mono x hr hna t j (by omega)) d

/-- Step A: after the last arrival every thread's stage freezes. -/
theorem stage_freezes (x : Exec cfg s0) (hr : Reachable cfg s0) {n0 : Nat} (hna : NoArrivals x n0) (t : Tid) :
    ∃ n, n0 ≤ n ∧ ∀ j, n ≤ j → stage (x.ρ j) t = stage (x.ρ n) t :=
  mono_stabilizes (fun j => stage (x.ρ j) t) 3 n0 (stage_le_three _ _) (fun j hj => stage_mono x hr hna t j hj)

/-- … and not at 2: a thread that idles holding the mutex calls a release. -/
theorem frozen_not_two (x : Exec cfg s0) (_hr : Reachable cfg s0) (hh : HoldersRelease x) {n0 : Nat} (hna : NoArrivals x n0)
    (t : Tid) {n : Nat} (hn : n0 ≤ n) (hfr : ∀ j, n ≤ j → stage (x.ρ j) t = stage (x.ρ n) t) : stage (x.ρ n) t ≠ 2 := by
  intro h2
  have hidle : ∀ j, n ≤ j → (x.ρ j).pc t = .idle ∧ (x.ρ j).held t ≠ none := by
    intro j hj
    have := hfr j hj; rw [h2] at this
    unfold stage stagePc at this
    split at this
    · rename_i hi
      split at this
      · rename_i hs; exact ⟨hi, fun e => by rw [e] at hs; cases hs⟩
      · omega
    · split at this <;> omega
  obtain ⟨j, a, hj, hσ⟩ := hh t n (hidle n (Nat.le_refl _)).2
  have hs := x.next_some hσ
  have hna' := hna j _ (by omega) hσ
  have hi := (hidle j hj).1
  have hnext := hfr (j + 1) (by omega)
  rw [h2] at hnext
  -- the call is a release: the thread is inside it afterwards, stage 1
  simp only [step, stepCall, hi] at hs
  cases a <;> simp [Event.isArrival] at hna' <;> dsimp only at hs
  all_goals (split at hs)
  all_goals first
    | (cases hs; done)
    | (simp only [Except.ok.injEq] at hs; rw [← hs] at hnext; simp [stage, stagePc, setFn, PC.rel] at hnext)

/-- Step B: a thread whose stage has frozen is never again at a point of no return. -/
theorem frozen_no_return_point (x : Exec cfg s0) (hr : Reachable cfg s0) (hf : WeakFair x) (hh : HoldersRelease x)
    {n0 : Nat} (hna : NoArrivals x n0) (t : Tid) {n : Nat} (hn : n0 ≤ n)
    (hfr : ∀ j, n ≤ j → stage (x.ρ j) t = stage (x.ρ n) t) (j : Nat) (hj : n ≤ j) :
    ¬ retPc ((x.ρ j).pc t) ∧ ¬ tryPc ((x.ρ j).pc t) ∧ ∀ l nw, ¬ wakePc (.ul l nw) ((x.ρ j).pc t) := by
  have hnot2 := frozen_not_two x hr hh hna t hn hfr
  -- a thread inside a call that becomes idle changes its stage
  have key : (x.ρ j).pc t ≠ .idle → (∃ j', j ≤ j' ∧ (x.ρ j').pc t = .idle) → False := by
    intro hni ⟨j', hjj, hi⟩
    have e1 := hfr j hj
    have e2 := hfr j' (by omega)
    have h13 : stage (x.ρ j) t = 1 ∨ stage (x.ρ j) t = 3 := by
      unfold stage stagePc; rw [if_neg hni]; split <;> simp
    have h02 : stage (x.ρ j') t = 0 ∨ stage (x.ρ j') t = 2 := by
      unfold stage stagePc; rw [if_pos hi]; split <;> simp
    rw [e1] at h13; rw [e2] at h02
    rcases h13 with a | a <;> rcases h02 with b | b <;> omega
  refine ⟨fun h => ?_, fun h => ?_, fun l nw h => ?_⟩
  · exact key (by cases hp : (x.ρ j).pc t <;> simp [retPc, hp] at h <;> simp) (fair_ret x hf t j h)
  · exact key (by cases hp : (x.ρ j).pc t <;> simp [tryPc, hp] at h <;> simp) (fair_trylock x hf t j h)
  · exact key (by cases hp : (x.ρ j).pc t <;> simp [wakePc, hp] at h <;> simp) (fair_past_release x hf t l nw j h)

end NsyncVerif.MuC
