/-
  Layer `CvFix` (cv.c with the repair of F3; adapted from the `Cv` file of the same name): the invariant behind C05 (timeouts, cancellation, no second sleep).
-/
import NsyncVerif.Proofs.CvFixBasic

namespace NsyncVerif.CvFix

/-- Program points inside nsync_sem_wait_with_cancel_. -/
def Loc.inSem : Loc → Bool
  | .wSemEnter | .wSemRet | .cPre | .cWait | .cPost => true
  | _ => false

/-- Per-thread facts about `sem_outcome` / `outcome`. -/
structure TInvC (now : Nat) (x : Thr) : Prop where
  sem0 : x.loc.inSem = true → x.semOut = .ok
  timed : x.semOut = .timedOut → ∃ d, x.dl = some d ∧ d ≤ now
  canc : x.semOut = .cancelled → x.sawNote = true
  out : x.out = .ok ∨ x.out = x.semOut
  semRet : x.loc = .wSemRet → x.semDl = x.dl
  post : x.loc = .cPost → x.cTimed = true → ∃ d, x.semDl = some d ∧ d ≤ now

def InvC (s : State) : Prop := ∀ t, TInvC s.now (s.thr t)

theorem tinvC_fresh (now : Nat) (x : Thr) (l : Loc) (h : l.inSem = false) : TInvC now (x.fresh l) := by
  constructor <;> simp_all [Thr.fresh] <;> (intro hl; subst hl; simp [Loc.inSem] at h)

theorem tinvC_mono {now now' : Nat} {x : Thr} (h : TInvC now x) (hn : now ≤ now') : TInvC now' x := by
  obtain ⟨h1, h2, h3, h4, h5, h6⟩ := h
  refine ⟨h1, ?_, h3, h4, h5, ?_⟩
  · intro e; obtain ⟨d, hd, hle⟩ := h2 e; exact ⟨d, hd, by omega⟩
  · intro e1 e2; obtain ⟨d, hd, hle⟩ := h6 e1 e2; exact ⟨d, hd, by omega⟩

theorem tinvC_settle {now : Nat} {x y : Thr} (h : TInvC now x) (hs : Settle x y) :
    (y.loc.inSem = true → y.semOut = .ok) ∧ (y.semOut = .timedOut → ∃ d, y.dl = some d ∧ d ≤ now) ∧
    (y.semOut = .cancelled → y.sawNote = true) ∧ (y.out = .ok ∨ y.out = y.semOut) ∧
    (y.loc ≠ .cPost) ∧ (y.loc = .wSemRet → y.semDl = y.dl) := by
  obtain ⟨h1, h2, h3, h4, h5, h6⟩ := h
  cases hs with
  | id n1 n2 => exact ⟨h1, h2, h3, h4, n2, h5⟩
  | pre hl hn =>
    have := h1 (by simp [hl, Loc.inSem])
    refine ⟨by simp [Loc.inSem], by simp, by simp [hn], ?_, by simp, by simp⟩
    rcases h4 with h4 | h4
    · exact .inl h4
    · left; simpa [this] using h4
  | postOk hl ht =>
    have := h1 (by simp [hl, Loc.inSem])
    refine ⟨by simp [Loc.inSem], by simp, by simp, ?_, by simp, by simp⟩
    rcases h4 with h4 | h4
    · exact .inl h4
    · left; simpa [this] using h4
  | postCancel hl ht hc hn =>
    have := h1 (by simp [hl, Loc.inSem])
    refine ⟨by simp [Loc.inSem], by simp, by simp [hn], ?_, by simp, by simp⟩
    rcases h4 with h4 | h4
    · exact .inl h4
    · left; simpa [this] using h4
  | postTimed hl ht hc hd =>
    have := h1 (by simp [hl, Loc.inSem])
    obtain ⟨d, hd1, hd2⟩ := h6 hl ht
    refine ⟨by simp [Loc.inSem], ?_, by simp, ?_, by simp, by simp⟩
    · intro _; exact ⟨d, by rw [← hd]; exact hd1, hd2⟩
    · rcases h4 with h4 | h4
      · exact .inl h4
      · left; simpa [this] using h4

/-- Local transitions preserve the per-thread invariant. -/
theorem tinvC_ltr {s : State} {t : Tid} {e : Event} {x' : Thr} (hi : TInvC s.now (s.thr t))
    (h : LTr s t e x') : TInvC s.now x' := by
  have ⟨h1, h2, h3, h4, h5, h6⟩ := hi
  cases h with
  | callWait gen dl note hl => constructor <;> simp [Thr.fresh, Loc.inSem]
  | retWait res hl hr => exact tinvC_fresh _ _ _ rfl
  | callSignal hl => constructor <;> simp [Thr.fresh, Loc.inSem]
  | callBroadcast hl => constructor <;> simp [Thr.fresh, Loc.inSem]
  | retSignal hl hb => exact tinvC_fresh _ _ _ rfl
  | retBroadcast hl hb => exact tinvC_fresh _ _ _ rfl
  | callWaitN hl => exact tinvC_fresh _ _ _ rfl
  | retWaitN hl hm => constructor <;> simp [Thr.fresh, Loc.inSem]
  | wHeadStay r obs hl hr ho hz =>
    split
    · rename_i hso
      constructor <;> simp_all [Loc.inSem]
      · split <;> simp
    · constructor <;> simp_all [Loc.inSem]
  | wChk y r obs hy hl hr ho hso =>
    obtain ⟨g1, g2, g3, g4, g5, g6⟩ := tinvC_settle hi hy
    split <;> constructor <;> simp_all [Loc.inSem]
  | wTail y r obs hy hl hr ho =>
    obtain ⟨g1, g2, g3, g4, g5, g6⟩ := tinvC_settle hi hy
    constructor <;> simp_all [Loc.inSem]
  | spinLd site obs hl ho =>
    split <;> constructor <;> simp_all [Loc.inSem] <;> grind [Loc.inSem]
  | spinLdN obs hl ho =>
    split <;> constructor <;> simp_all [Loc.inSem]
  | sigLd site obs hl hs ho =>
    split <;> constructor <;> simp_all [Loc.inSem]
  | semPdEnterW k dl hl hk hd => constructor <;> simp_all [Loc.inSem]
  | semPdEnterC k dl hl hk hd => constructor <;> simp_all [Loc.inSem]
  | semPdRetTimedW k d hl hd hn =>
    have e := h5 hl
    have e2 : (s.thr t).dl = some d := by rw [← e]; exact hd
    constructor <;> simp_all [Loc.inSem]
  | semPdRetTimedC k d hl hd hn =>
    constructor <;> simp_all [Loc.inSem]
  | noteSeen hl => constructor <;> simp_all [Loc.inSem]
  | noteNotify hl ht => constructor <;> simp_all [Loc.inSem]
  | callDebug k hl => constructor <;> simp [Thr.fresh, Loc.inSem]
  | retDebug k hl hk => exact tinvC_fresh _ _ _ rfl
  | dbgLd obs hl ho => split <;> constructor <;> simp_all [Loc.inSem]
  | _ => constructor <;> simp_all [Loc.inSem] <;> grind [Loc.inSem]

end NsyncVerif.CvFix

namespace NsyncVerif.CvFix

theorem tinvC_upd {now : Nat} {x x' : Thr} (h : TInvC now x) (hso : x'.semOut = x.semOut) (hdl : x'.dl = x.dl)
    (hsn : x'.sawNote = x.sawNote) (hout : x'.out = x.out) (hloc : x'.loc.inSem = false) : TInvC now x' := by
  obtain ⟨h1, h2, h3, h4, h5, h6⟩ := h
  constructor
  · intro e; rw [hloc] at e; cases e
  · rw [hso, hdl]; exact h2
  · rw [hso, hsn]; exact h3
  · rw [hso, hout]; exact h4
  · intro e; rw [e] at hloc; cases hloc
  · intro e; rw [e] at hloc; cases hloc

/-- Generic shape of a non-local transition as far as `InvC` is concerned: one thread gets a new
    frame, the clock does not move. -/
theorem invC_of_frame {s s' : State} {t : Tid} (hi : InvC s) (hnow : s'.now = s.now)
    (hoth : ∀ u, u ≠ t → s'.thr u = s.thr u) (ht : TInvC s.now (s'.thr t)) : InvC s' := by
  intro u
  rw [hnow]
  by_cases hu : u = t
  · subst hu; exact ht
  · rw [hoth u hu]; exact hi u

def FrameC (x x' : Thr) : Prop :=
  x' = x ∨ (x'.semOut = x.semOut ∧ x'.dl = x.dl ∧ x'.sawNote = x.sawNote ∧ x'.out = x.out ∧ x'.loc.inSem = false)

theorem invC_of_frameC {s s' : State} (hi : InvC s) (hnow : s'.now = s.now)
    (h : ∀ u, FrameC (s.thr u) (s'.thr u)) : InvC s' := by
  intro u
  rw [hnow]
  rcases h u with h | ⟨a1, a2, a3, a4, a5⟩
  · rw [h]; exact hi u
  · exact tinvC_upd (hi u) a1 a2 a3 a4 a5

theorem invC_init : InvC init := by
  intro t
  constructor <;> simp [init, Loc.inSem]

theorem invC_tr {cfg : Config} {s s' : State} {e : Event} (hi : InvC s) (h : Tr cfg s e s') : InvC s' := by
  cases h with
  | same e h => exact hi
  | tick ns h => intro t; exact tinvC_mono (hi t) h
  | loc h =>
    rename_i t x'
    exact invC_of_frame (t := t) hi rfl (fun u hu => by simp [hu]) (by simpa using tinvC_ltr (hi t) h)
  | acq t exp new obs o n hl hexp hw he ho hn hnew =>
    refine invC_of_frame (t := t) hi (afterAcquire_now _ _ _) (fun u hu => afterAcquire_thr_other _ _ _ _ hu) ?_
    obtain ⟨a1, a2, a3, a4, a5⟩ := afterAcquire_thr_self { s with word := n, holder := some t } t { s.thr t with old := o }
    refine tinvC_upd (hi t) a1 a2 a3 a4 ?_
    rcases a5 with a5 | a5 | a5 | a5 | a5 | a5 <;> rw [a5] <;> rfl
  | semOther e sem' h => exact hi
  | wwCasOk t exp new obs f rest hl hlist =>
    refine invC_of_frame (t := t) hi rfl (fun u hu => by simp [hu]) ?_
    simp
    exact tinvC_upd (hi t) rfl rfl rfl rfl rfl
  | semPdRetOkC t k hl =>
    refine invC_of_frame (t := t) hi rfl (fun u hu => by simp [hu]) ?_
    have ⟨h1, h2, h3, h4, h5, h6⟩ := hi t
    have := h1 (by simp [hl, Loc.inSem])
    simp
    constructor <;> simp_all [Loc.inSem]
  | wClr t r obs hl hr =>
    refine invC_of_frame (t := t) hi rfl (fun u hu => by simp [hu]) ?_
    have ⟨h1, h2, h3, h4, h5, h6⟩ := hi t
    simp
    constructor <;> simp_all [Loc.inSem]
  | wSt1 t r obs hl hm hst =>
    refine invC_of_frame (t := t) hi rfl (fun u hu => by simp [hu]) ?_
    simp
    split <;> exact tinvC_upd (hi t) rfl rfl rfl rfl rfl
  | relSig t site new obs n hl hs hh hnew hn hsp =>
    refine invC_of_frame (t := t) hi rfl (fun u hu => by simp [hu]) ?_
    simp
    refine tinvC_upd (hi t) rfl rfl rfl rfl ?_
    simp only [wakeEntry]
    split
    · rfl
    · split <;> rfl
  | semVWake t k r q hl hc =>
    refine invC_of_frame (t := t) hi rfl (fun u hu => by simp [hu]) ?_
    simp
    refine tinvC_upd (hi t) rfl rfl rfl rfl ?_
    simp only; split <;> rfl
  | sRcCasOk t site r exp new obs hl hr hn ho he =>
    refine invC_of_frame (t := t) hi rfl (fun u hu => by simp [hu]) ?_
    simp
    refine tinvC_upd (hi t) rfl rfl rfl rfl ?_
    simp only; split <;> rfl
  | wInit t r hl hm hst => exact fun u => hi u
  | nwInit t r hl hm hst => exact fun u => hi u
  | fStW t r new hl hf => exact fun u => hi u
  | fCasOk t r exp new obs hl hf hn ho he => exact fun u => hi u
  | wHeadExit t r y hy hl hr hw =>
    subst hy
    refine invC_of_frame (t := t) hi rfl (fun u hu => by simp [hu]) ?_
    simp
    exact tinvC_upd (hi t) rfl rfl rfl rfl rfl
  | _ =>
    refine invC_of_frameC hi rfl (fun u => ?_)
    simp
    split
    · rename_i hu; subst hu; exact .inr ⟨rfl, rfl, rfl, rfl, rfl⟩
    · exact .inl rfl

theorem invC_reachable {cfg : Config} {s : State} (h : Reachable cfg s) : InvC s :=
  reachable_induct (P := InvC) invC_init (fun _ _ _ hi htr => invC_tr hi htr) s h

/-- What an accepted `ret` of a cv wait says about the returning thread. -/
theorem retWait_accepted {cfg : Config} {s s' : State} {t : Tid} {res : Outcome}
    (hs : step cfg s (.retWait t res) = .ok s') :
    ((s.thr t).loc = .wRet ∨ (s.thr t).loc = .wRelocking) ∧ res = (s.thr t).out := by
  simp only [step] at hs
  obtain ⟨hok, _⟩ := stepRet_ok hs
  simpa using hok


end NsyncVerif.CvFix
