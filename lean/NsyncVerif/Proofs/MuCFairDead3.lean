import NsyncVerif.Proofs.MuCFairDead2
/-
  MuC: the refutations.  In `deadExec` every hypothesis of `C06_fair_termination_full` holds, thread 4 is inside
  nsync_mu_wait_with_deadline with the FINITE deadline 5 (so the proviso `MustReturn` holds), thread 0 is inside
  nsync_mu_lock — and neither ever returns.  In the dead state nobody is responsible.
-/
namespace NsyncVerif.MuC

set_option maxRecDepth 4096
set_option linter.unusedSimpArgs false

theorem dead_must4 : MustReturn deadExec 4 865 := by
  intro c hc
  have h : ((deadExec.ρ 865).pc 4).mw.map (·.dl) = some (some 5) := by decide
  rw [hc] at h
  simp only [Option.map_some, Option.some.injEq] at h
  left; rw [h]; simp

theorem dead_must0 : MustReturn deadExec 0 865 := by
  intro c hc
  have h : ((deadExec.ρ 865).pc 0).mw = none := by decide
  rw [h] at hc; cases hc

theorem dead_never4 (j : Nat) (hj : 865 ≤ j) : (deadExec.ρ j).pc 4 ≠ .idle := by
  have := lasso_from dead_run dead_loop dead_hp (fun s => !decide (s.pc 4 = .idle)) 865 (by decide)
    (dead_loop_all _ (by decide)) j hj
  show ((lassoExec ⟨false⟩ traceDead deadLoop deadA dead_run dead_loop dead_hp).ρ j).pc 4 ≠ .idle
  simpa using this

theorem dead_never0 (j : Nat) (hj : 865 ≤ j) : (deadExec.ρ j).pc 0 ≠ .idle := by
  have := lasso_from dead_run dead_loop dead_hp (fun s => !decide (s.pc 0 = .idle)) 865 (by decide)
    (dead_loop_all _ (by decide)) j hj
  show ((lassoExec ⟨false⟩ traceDead deadLoop deadA dead_run dead_loop dead_hp).ρ j).pc 0 ≠ .idle
  simpa using this

/-- What the two threads are inside. -/
theorem dead_calls : deadExec.σ 50 = some (.call 4 (.wait (some { fn := .eq, k := 0, var := 0, val := 1, hasEq := false }) (some 5) false)) ∧
    (∃ c, (deadExec.ρ 865).pc 4 = .mwLd244 c ∧ c.dl = some 5 ∧ c.so = .timedout) ∧
    (∃ c, deadA.pc 0 = .lsPRet c ∧ c.mw = none ∧ c.lwl = true ∧ c.w = some 0) ∧
    deadA.queue = [0] ∧ (deadA.wr 0).sem = 0 ∧ encode deadA.word = 116 ∧ deadA.word.lw = true ∧
    deadA.word.wlock = false ∧ deadA.word.readers = 0 ∧ deadA.word.spin = false ∧ deadA.word.desig = false := by
  refine ⟨by decide, ?_, ?_, by decide, by decide, by decide, by decide, by decide, by decide, by decide, by decide⟩
  · have h : (match (deadExec.ρ 865).pc 4 with | .mwLd244 c => decide (c.dl = some 5) && decide (c.so = .timedout) | _ => false) = true := by
      decide
    cases hp : (deadExec.ρ 865).pc 4 <;> rw [hp] at h <;> try (cases h; done)
    rename_i c
    simp only [Bool.and_eq_true, decide_eq_true_eq] at h
    exact ⟨c, rfl, h.1, h.2⟩
  · have h : (match deadA.pc 0 with | .lsPRet c => decide (c.mw = none) && c.lwl && decide (c.w = some 0) | _ => false) = true := by
      decide
    cases hp : deadA.pc 0 <;> rw [hp] at h <;> try (cases h; done)
    rename_i c
    simp only [Bool.and_eq_true, decide_eq_true_eq] at h
    exact ⟨c, rfl, h.1.1, h.1.2, h.2⟩

/-- A thread spinning in mu_try_acquire_after_timeout_or_cancel (before it has taken the spinlock). -/
def PC.mtSpin : PC → Bool
  | .mtLd _ | .mtCasAcq _ _ | .mtCasWW _ _ => true
  | _ => false

theorem idle_no_resp {s : State} {t : Tid} (hp : s.pc t = .idle) (hh : s.held t = none) :
    ¬ (shareOf s t ≠ none ∨ (s.pc t).unl = true ∨ (s.pc t).wakeL ≠ [] ∨
      (InFlight s t ∧ (s.pc t).mtSpin = false ∧ (s.pc t).timedOut = false)) := by
  rintro (h | h | h | ⟨h, _⟩)
  · exact h (by simp [shareOf, tshare, hh, hp, pcShare])
  · rw [hp] at h; cases h
  · rw [hp] at h; exact h rfl
  · rcases h with h | ⟨k, h, _⟩
    · rw [hp] at h; cases h
    · rw [hp] at h; cases h

/-- In the dead state MU_LONG_WAIT is set, the spinlock is free — and nobody who does not wait for the bit is responsible
    for the queued long waiter. -/
theorem dead_no_resp (t : Tid) :
    ¬ (shareOf deadA t ≠ none ∨ (deadA.pc t).unl = true ∨ (deadA.pc t).wakeL ≠ [] ∨
      (InFlight deadA t ∧ (deadA.pc t).mtSpin = false ∧ (deadA.pc t).timedOut = false)) := by
  by_cases ht : t < 5
  · match t, ht with
    | 0, _ =>
      have h1 : shareOf deadA 0 = none := by decide
      have h2 : (deadA.pc 0).unl = false := by decide
      have h3 : (deadA.pc 0).wakeL = [] := by decide
      have h4 : (deadA.pc 0).woken = false := by decide
      have h5 : (deadA.pc 0).waitRec = some 0 := by decide
      have h6 : (0 : Wid) ∈ deadA.queue := by decide
      rintro (h | h | h | ⟨h, _⟩)
      · exact h h1
      · rw [h2] at h; cases h
      · exact h h3
      · rcases h with h | ⟨k, a, _, b⟩
        · rw [h4] at h; cases h
        · rw [h5] at a; cases a; exact b (Or.inl h6)
    | 1, _ => exact idle_no_resp (by decide) (by decide)
    | 2, _ => exact idle_no_resp dead_thread2.1 dead_thread2.2
    | 3, _ => exact idle_no_resp (by decide) (by decide)
    | 4, _ =>
      have h1 : shareOf deadA 4 = none := by decide
      have h2 : (deadA.pc 4).unl = false := by decide
      have h3 : (deadA.pc 4).wakeL = [] := by decide
      have h4 : (deadA.pc 4).mtSpin = true := by decide
      rintro (h | h | h | ⟨_, h, _⟩)
      · exact h h1
      · rw [h2] at h; cases h
      · exact h h3
      · rw [h4] at h; cases h
  · have := untouched_stateAt dead_run dead_T ht traceDead.length
    rw [stateAt_ge dead_run (Nat.le_refl _)] at this
    exact idle_no_resp this.1 this.2

end NsyncVerif.MuC
