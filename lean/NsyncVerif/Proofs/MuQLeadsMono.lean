import NsyncVerif.Proofs.MuQLeads
/-
  MuQ, leads-to (C02): robustness of the first component of the measure.

  `stage_step_le`: NO accepted step of ANY thread (or of the environment) increases the stage of
  any thread, except the `call` of an acquiring operation (which takes the caller from 0 to 3).
  Hence along every execution Σ stage grows only by new arrivals.
-/
namespace NsyncVerif.MuQ

def Event.isAcqCall : Event → Bool
  | .call _ .lock | .call _ .rlock | .call _ .trylock | .call _ .rtrylock => true
  | _ => false

def stagePc : PC → Nat
  | .idle => 0
  | .lkRet _ => 2
  | .tryRet _ true => 2
  | .tryRet _ false => 1
  | .ulCas0 _ | .ulLd _ | .ulCas1 _ _ | .usLd _ | .usCasUnc _ _ | .usCasGrab _ _ => 2
  | .ulRet _ | .usRcLd _ _ _ | .usRcCas _ _ _ _ | .usFinLd _ _ | .usFinCas _ _ _ => 1
  | .usWakeSt _ _ _ | .usWakeV _ _ _ => 1
  | _ => 3

theorem stage_eq {s : State} {t : Tid} (h : s.pc t ≠ .idle) : stage s t = stagePc (s.pc t) := by
  cases hp : s.pc t <;> simp [stage, stagePc, hp] at h ⊢
  rename_i l r; cases r <;> rfl

theorem scanAdvance_stage (s : State) (t : Tid) (l : Mode) (sc : Scan) :
    stagePc ((scanAdvance s t l sc).pc t) = 1 ∧ (scanAdvance s t l sc).pc t ≠ .idle := by
  simp only [scanAdvance]; split <;> simp [setPc, stagePc]

theorem afterFin_stage (s : State) (t : Tid) (l : Mode) (w : List Wid) :
    stagePc ((afterFin s t l w).pc t) = 1 ∧ (afterFin s t l w).pc t ≠ .idle := by
  cases w <;> simp [afterFin, setPc, stagePc]

/-- Inside a call: the stage of the stepping thread does not increase. -/
theorem stagePc_step {cfg : Cfg} {s s' : State} {e : Event} {t : Tid}
    (h : step cfg s e = .ok s') (he : e.tid = some t)
    (hc : ∀ a, e ≠ .call t a) (hr : ∀ a res, e ≠ .ret t a res) :
    s.pc t ≠ .idle ∧ s'.pc t ≠ .idle ∧ stagePc (s'.pc t) ≤ stagePc (s.pc t) := by
  cases e <;> simp only [Event.tid, Option.some.injEq, reduceCtorEq] at he <;> try subst he
  case call t a => exact absurd rfl (hc a)
  case ret t a res => exact absurd rfl (hr a res)
  case ld t o loc obs =>
    simp only [step, stepLd] at h
    cases hp : s.pc t <;> simp only [hp] at h <;> try (cases h; done)
    case ulLd l =>
      cases l <;> simp only at h <;> split at h <;> try (cases h; done)
      all_goals (have h' := ldWord_ok h; subst h'; split <;> simp [setPc, stagePc])
    all_goals repeat' split at h
    all_goals first
      | (cases h; done)
      | (have h' := ldWord_ok h; subst h'; repeat' split
         all_goals simp [setPc, stagePc])
      | (cases h; simp [setPc, stagePc])
  case st t o loc new obs =>
    simp only [step, stepSt] at h
    cases hp : s.pc t <;> simp only [hp] at h <;> try (cases h; done)
    all_goals repeat' split at h
    all_goals first | (cases h; done) | (cases h; simp [setPc, stagePc])
  case cas t o loc exp new obs ok =>
    simp only [step, stepCas] at h
    cases hp : s.pc t <;> simp only [hp] at h <;> try (cases h; done)
    case usRcCas l sc k old =>
      repeat' split at h
      all_goals first | (cases h; done) | skip
      · cases h
        obtain ⟨a, b⟩ := scanAdvance_stage s t l sc
        exact ⟨by simp, b, by rw [a]; simp [stagePc]⟩
      · cases h; simp [setPc, stagePc]
    case usCasGrab l old =>
      rcases casWord_ok h with ⟨hw, _, rfl⟩ | ⟨_, _, rfl⟩
      · obtain ⟨a, b⟩ := scanAdvance_stage (subShare { s with word := grabWord l old, sp := some t } t l) t l
          { wake := [], todo := s.queue, wt := none, sww := false, saf := true }
        exact ⟨by simp, b, by rw [a]; simp [stagePc]⟩
      · simp [setPc, stagePc]
    case usFinCas l f old =>
      rcases casWord_ok h with ⟨hw, _, rfl⟩ | ⟨_, _, rfl⟩
      · obtain ⟨a, b⟩ := afterFin_stage { s with word := finWord f old, sp := none } t l f.wake
        exact ⟨by simp, b, by rw [a]; simp [stagePc]⟩
      · simp [setPc, stagePc]
    case tryCas1 l old =>
      rcases casWord_ok h with ⟨hw, _, rfl⟩ | ⟨_, _, rfl⟩ <;> simp [setPc, stagePc]
    all_goals
      rcases casWord_ok h with ⟨hw, _, rfl⟩ | ⟨_, _, rfl⟩ <;> simp [setPc, stagePc]
  case semPEnter t k =>
    simp only [step] at h
    cases hp : s.pc t <;> simp only [hp] at h <;> try (cases h; done)
    split at h <;> try (cases h; done)
    cases h; simp [setPc, stagePc]
  case semPRet t k =>
    simp only [step] at h
    cases hp : s.pc t <;> simp only [hp] at h <;> try (cases h; done)
    repeat' split at h
    all_goals first | (cases h; done) | (cases h; simp [setPc, stagePc])
  case semV t k =>
    simp only [step] at h
    cases hp : s.pc t <;> simp only [hp] at h <;> try (cases h; done)
    split at h <;> try (cases h; done)
    cases h
    rename_i l k' r _
    obtain ⟨a, b⟩ := afterFin_stage s t l r
    exact ⟨by simp, by simpa [semPost] using b, by simp only [semPost]; rw [a]; simp [stagePc]⟩

/-- No accepted step increases anybody's stage, except the call of an acquiring operation. -/
theorem stage_step_le {cfg : Cfg} {s s' : State} {e : Event} (hr : Reachable cfg s)
    (h : step cfg s e = .ok s') (hna : e.isAcqCall = false) (t : Tid) : stage s' t ≤ stage s t := by
  by_cases he : e.tid = some t
  case neg =>
    rw [stage_congr (step_pc_other h he) (step_held_other h he)]; exact Nat.le_refl _
  have hside := reachable_side hr
  by_cases hcall : ∃ a, e = .call t a
  · obtain ⟨a, rfl⟩ := hcall
    simp only [step, stepCall] at h
    cases hp : s.pc t <;> simp only [hp] at h <;> try (cases h; done)
    cases a <;> simp only at h <;> first | (simp [Event.isAcqCall] at hna; done) | skip
    all_goals (split at h <;> try (cases h; done))
    all_goals (rename_i hh; cases h; simp [stage, setPc, hp, hh])
  by_cases hret : ∃ a res, e = .ret t a res
  · obtain ⟨a, res, rfl⟩ := hret
    simp only [step, stepRet] at h
    split at h <;> try (cases h; done)
    all_goals rename_i hp
    all_goals try (split at h <;> try (cases h; done))
    all_goals cases h
    all_goals try (simp [stage, setPc, hp]; done)
    · rename_i r _ _; cases r <;> simp [stage, setPc, hp]
    · rename_i r _ _; cases r <;> simp [stage, setPc, hp]
    · have hnone : s.held t = none := held_none_of_active hside.2 (by rw [hp]; simp)
      simp [stage, setPc, hp, hnone]
    · have hnone : s.held t = none := held_none_of_active hside.2 (by rw [hp]; simp)
      simp [stage, setPc, hp, hnone]
  · obtain ⟨h1, h2, h3⟩ := stagePc_step h he (fun a ha => hcall ⟨a, ha⟩) (fun a res ha => hret ⟨a, res, ha⟩)
    rw [stage_eq h1, stage_eq h2]; exact h3

/-- Along every accepted event list without acquisition calls the stage of every thread is
    non-increasing (whoever moves, whatever the environment posts). -/
theorem stage_run_le {cfg : Cfg} : ∀ (evs : List Event) (s s' : State), Reachable cfg s →
    run cfg s evs = .ok s' → (∀ e ∈ evs, e.isAcqCall = false) → ∀ t, stage s' t ≤ stage s t := by
  intro evs
  induction evs with
  | nil => intro s s' _ h _ t; simp [run] at h; subst h; exact Nat.le_refl _
  | cons e es ih =>
    intro s s' hr h hna t
    simp only [run] at h
    split at h
    · rename_i s1 hs1
      have h1 := stage_step_le hr hs1 (hna e (by simp)) t
      have h2 := ih s1 s' (reachable_step hr hs1) h (fun e' he' => hna e' (by simp [he'])) t
      omega
    · cases h

theorem RunP.all_step {cfg : Cfg} {P : State → Event → Prop} {s s' : State} {evs : List Event}
    (h : RunP cfg P s evs s') {Q : Event → Prop}
    (hq : ∀ s e s', P s e → step cfg s e = .ok s' → Q e) : ∀ e ∈ evs, Q e := by
  induction h with
  | nil s => intro e he; cases he
  | cons hp hs _ ih =>
    intro e he
    rcases List.mem_cons.1 he with rfl | he
    · exact hq _ _ _ hp hs
    · exact ih e he

/-- A step of a thread that is not idle-holding-nothing is not the call of an acquiring operation
    (the acceptor rejects lock / rlock / trylock / rtrylock of a mutex the caller holds). -/
theorem noNewCall_not_acqCall {cfg : Cfg} {s s' : State} {e : Event}
    (hq : ∃ u, e.tid = some u ∧ ¬ IdleHoldingNothing s u) (h : step cfg s e = .ok s') :
    e.isAcqCall = false ∧ e.tid ≠ none := by
  obtain ⟨u, hu, hn⟩ := hq
  refine ⟨?_, by rw [hu]; intro h; cases h⟩
  cases e <;> try rfl
  rename_i t a
  simp only [Event.tid, Option.some.injEq] at hu; subst hu
  simp only [step, stepCall] at h
  cases hp : s.pc t <;> simp only [hp] at h <;> try (cases h; done)
  cases a <;> simp only at h <;> split at h <;> try (cases h; done)
  all_goals first | rfl | (rename_i hh; exact absurd ⟨hp, hh⟩ hn)

end NsyncVerif.MuQ
