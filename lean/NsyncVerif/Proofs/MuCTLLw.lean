import NsyncVerif.Proofs.MuCTLWord3
/-
  MuC, facts about one step: the hint bits of the word (`LwTL`).
-/
namespace NsyncVerif.MuC

macro "lw_tl" : tactic => `(tactic|
  (refine ⟨?_, ?_⟩ <;>
   (simp_all [PC.mtOld, PC.ok, PC.ok3, setFn, loopPc, finPc, Ret.pc, mwLoop_eq, afterFin_eq, afterWakes_eq, blocked,
      acqWord, addWord, relUncWord, relNwWord, subWord, enqWord, mwEnqWord, mtAcqWord, mtRelWord, finWord, grabWord, Word.zero,
      SL.entry, SL.fromWait, SL.woken]) <;> grind))

theorem lwTL_ld {s s' : State} {t : Tid} {o : Ord} {loc : Loc} {obs : Nat} (h1 : Inv1 s) (h3 : Inv3 s)
    (h : stepLd s t o loc obs = .ok s') : LwTL s s' t := by
  have hok := h1.pcok t
  have hok3 := h3.ok3 t
  walk_ld h => lw_tl

end NsyncVerif.MuC
