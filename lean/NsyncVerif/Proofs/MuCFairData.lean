import NsyncVerif.Proofs.MuCInv2Api
/-
  MuC: the protected data change only by a `dataW` event (which needs `held = some .W`).
-/
namespace NsyncVerif.MuC

macro "data_local" : tactic => `(tactic|
  first
  | (simp [enqLast, enqFirst, dequeue, dropW, setHeld, toFin, afterFin_eq, afterWakes_eq, mwLoop_eq]; done)
  | (simp [enqLast, enqFirst, dequeue, dropW, setHeld, toFin, afterFin_eq, afterWakes_eq, mwLoop_eq] <;> (repeat' split) <;> simp))

macro "ld_caseD" hs:ident : tactic => `(tactic|
  (try dsimp only at $hs:ident
   try simp only [ldWord, ldWaiting, casWord] at $hs:ident
   repeat' split at $hs:ident
   all_goals first
     | (cases $hs:ident; done)
     | (cases $hs:ident; data_local)
     | (cases $hs:ident; split <;> data_local)))

theorem data_stepLd {s s' : State} {t : Tid} {o : Ord} {loc : Loc} {obs : Nat}
    (hs : stepLd s t o loc obs = .ok s') : s'.data = s.data := by
  unfold stepLd at hs
  split at hs
  all_goals first
    | (ld_caseD hs)
    | skip

theorem data_stepSt {s s' : State} {t : Tid} {o : Ord} {loc : Loc} {new obs : Nat}
    (hs : stepSt s t o loc new obs = .ok s') : s'.data = s.data := by
  unfold stepSt at hs
  split at hs
  all_goals first
    | (ld_caseD hs)
    | skip

theorem data_stepCasA {s s' : State} {t : Tid} {o : Ord} {loc : Loc} {exp new obs : Nat} {ok : Bool} (h1 : Inv1 s)
    (hp : match s.pc t with
      | .usCasGrab _ _ | .usRelCas _ _ _ | .usReCas _ _ _ | .usRcCas _ _ _ _ => True
      | _ => False)
    (hs : stepCas s t o loc exp new obs ok = .ok s') : s'.data = s.data := by
  unfold stepCas at hs
  split at hs
  all_goals try (rename_i heq; rw [heq] at hp; exact False.elim hp)
  all_goals try (rename_i hne; split at hp <;> first | exact False.elim hp | (exfalso; simp_all; done))
  · rename_i r old heq
    rcases casWordE_ok hs with ⟨hw, -, hs⟩ | ⟨-, -, rfl⟩
    · have hsc0 : Scan.ok { late := old.cond, tc := old.cond, done := [], passed := [], todo := [], wake := [], wt := none,
                            sww := false, saf := true } := fun h => h
      exact (afterPickup_frame hs hsc0).1.data.trans (by simp)
    · simp
  · rename_i r sc old heq
    have hok0 := h1.pcok t; rw [heq] at hok0
    rcases casWordE_ok hs with ⟨hw, -, hs⟩ | ⟨-, -, rfl⟩
    · exact (scanRun_frame _ _ t r sc s' hs hok0.2).1.data
    · simp
  · rename_i r sc old heq
    have hok0 := h1.pcok t; rw [heq] at hok0
    rcases casWordE_ok hs with ⟨hw, -, hs⟩ | ⟨-, -, rfl⟩
    · exact (afterPickup_frame hs hok0.2).1.data
    · simp
  · rename_i r sc k old heq
    have hok0 := h1.pcok t; rw [heq] at hok0
    repeat' split at hs
    all_goals first
      | (cases hs; done)
      | skip
    · exact (scanRun_frame _ _ t r sc s' hs hok0.2).1.data
    · cases hs; simp

macro "cas_caseD" hs:ident : tactic => `(tactic|
  (rcases casWord_ok $hs with ⟨hw, -, hs'⟩ | ⟨-, -, hs'⟩ <;> subst hs' <;> data_local))

theorem data_stepCasB {s s' : State} {t : Tid} {o : Ord} {loc : Loc} {exp new obs : Nat} {ok : Bool}
    (hp : match s.pc t with
      | .lkCas0 _ | .lkCas1 _ _ | .tryCas0 _ | .tryCas1 _ _ | .lsCasAcq _ _ | .lsCasEnq _ _ | .lsRelCas _ _
      | .ulCas0 _ _ | .ulCas1 _ _ _ => True
      | _ => False)
    (hs : stepCas s t o loc exp new obs ok = .ok s') : s'.data = s.data := by
  unfold stepCas at hs
  split at hs
  all_goals try (rename_i heq; rw [heq] at hp; exact False.elim hp)
  all_goals try (rename_i hne; split at hp <;> first | exact False.elim hp | (exfalso; simp_all; done))
  all_goals (cas_caseD hs)

theorem data_stepCasC {s s' : State} {t : Tid} {o : Ord} {loc : Loc} {exp new obs : Nat} {ok : Bool}
    (hp : match s.pc t with
      | .usCasUnc _ _ | .usFinCas _ _ _ | .mwEnqCas _ _ | .mwRelCas _ _ _ | .mtCasAcq _ _ | .mtCasWW _ _ | .mtRmCas _ _ _ => True
      | _ => False)
    (hs : stepCas s t o loc exp new obs ok = .ok s') : s'.data = s.data := by
  unfold stepCas at hs
  split at hs
  all_goals try (rename_i heq; rw [heq] at hp; exact False.elim hp)
  all_goals try (rename_i hne; split at hp <;> first | exact False.elim hp | (exfalso; simp_all; done))
  · cas_caseD hs
  · cas_caseD hs
  · split at hs
    · cases hs
    · cas_caseD hs
  · cas_caseD hs
  · cas_caseD hs
  · cas_caseD hs
  · ld_caseD hs

theorem data_stepCas {s s' : State} {t : Tid} {o : Ord} {loc : Loc} {exp new obs : Nat} {ok : Bool} (h1 : Inv1 s)
    (hs : stepCas s t o loc exp new obs ok = .ok s') : s'.data = s.data := by
  cases hpc : s.pc t <;>
    first
    | exact data_stepCasA h1 (by rw [hpc]; trivial) hs
    | exact data_stepCasB (by rw [hpc]; trivial) hs
    | exact data_stepCasC (by rw [hpc]; trivial) hs
    | (simp [stepCas, hpc] at hs)

theorem data_stepCond {s s' : State} {t : Tid} {fn : CFn} {k : Nat} {res : Bool} (h1 : Inv1 s)
    (hs : stepCond s t fn k res = .ok s') : s'.data = s.data := by
  unfold stepCond at hs
  dsimp only at hs
  split at hs
  · repeat' split at hs
    all_goals first
      | (cases hs; done)
      | (cases hs; data_local)
  · rename_i r sc heq
    have hok0 := h1.pcok t; rw [heq] at hok0
    repeat' split at hs
    all_goals first
      | (cases hs; done)
      | skip
    exact (afterEval_frame hs hok0.2.1).1.data
  · cases hs

/-- The protected data change only by a `dataW`. -/
theorem data_step {cfg : Cfg} {s s' : State} {e : Event} (h1 : Inv1 s) (hs : step cfg s e = .ok s')
    (hw : ∀ t x v, e ≠ .dataW t x v) : s'.data = s.data := by
  cases e with
  | call t a =>
    simp only [step, stepCall] at hs
    split at hs
    · cases a <;> dsimp only at hs
      all_goals (repeat' split at hs)
      all_goals first
        | (cases hs; done)
        | (cases hs; data_local)
    · cases hs
  | ret t a res =>
    simp only [step, stepRet] at hs
    split at hs
    all_goals first
      | (cases hs; done)
      | (repeat' split at hs
         all_goals first
           | (cases hs; done)
           | (cases hs; data_local)
           | (cases hs; rename_i c _ _ _ _ _; cases c.w <;> data_local))
  | ld t o loc obs => exact data_stepLd hs
  | st t o loc new obs => exact data_stepSt hs
  | cas t o loc exp new obs ok => exact data_stepCas h1 hs
  | cond t fn k res => exact data_stepCond h1 hs
  | dataW t x v => exact absurd rfl (hw t x v)
  | semPEnter t k | semPRet t k | semPdEnter t k dl | semPdRet t k b | semV t k | noteSeen t | noteNotify t
  | envV k | envSem k n | dataR t x v | tick n =>
    simp only [step] at hs
    repeat' split at hs
    all_goals first
      | (cases hs; done)
      | (cases hs; data_local)

end NsyncVerif.MuC
