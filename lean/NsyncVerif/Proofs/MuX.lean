import NsyncVerif.Model.MuX
/-
  Inductive invariant of the exclusion protocol MuX and its preservation by every accepted step.
-/
namespace NsyncVerif.MuX

structure Inv (s : State) : Prop where
  wl : (decode s.word).wlock = s.w.isSome
  rd : (decode s.word).readers = s.rs.length
  nd : s.rs.Nodup
  wx : s.w.isSome = true → s.rs = []
  spn : (decode s.word).spin = s.sp.isSome
  heldW : ∀ t, s.held t = .W → s.w = some t
  heldR : ∀ t, s.held t = .R → t ∈ s.rs
  annW : ∀ t, s.ann t = .W → s.w = some t
  annR : ∀ t, s.ann t = .R → t ∈ s.rs

theorem inv_init : Inv init := by
  constructor <;> simp [init, decode]

/-- What a classified lock delta says about the two decoded words. -/
theorem lockDelta_spec {o n : Word} {d : LockDelta} (h : lockDelta o n = some d) :
    match d with
    | .same => o.wlock = n.wlock ∧ o.readers = n.readers
    | .addW => o.wlock = false ∧ n.wlock = true ∧ o.readers = 0 ∧ n.readers = 0
    | .addR => o.wlock = false ∧ n.wlock = false ∧ n.readers = o.readers + 1
    | .subW => o.wlock = true ∧ n.wlock = false ∧ o.readers = 0 ∧ n.readers = 0
    | .subR => o.wlock = false ∧ n.wlock = false ∧ o.readers = n.readers + 1
    | .r2w => o.wlock = false ∧ n.wlock = true ∧ o.readers = 1 ∧ n.readers = 0
    | .w2r => o.wlock = true ∧ n.wlock = false ∧ o.readers = 0 ∧ n.readers = 1 := by
  unfold lockDelta at h
  repeat' split at h
  all_goals (first | (cases h; simp_all) | simp at h)

theorem spinDelta_spec (o n : Word) :
    match spinDelta o n with
    | .same => o.spin = n.spin
    | .set => o.spin = false ∧ n.spin = true
    | .clear => o.spin = true ∧ n.spin = false := by
  unfold spinDelta
  cases ho : o.spin <;> cases hn : n.spin <;> simp

theorem shareOf_none {s : State} {t : Tid} (h : shareOf s t = .none) : s.w ≠ some t ∧ t ∉ s.rs := by
  unfold shareOf at h
  split at h
  · cases h
  · split at h
    · cases h
    · exact ⟨by assumption, by assumption⟩

theorem mayChange_spec {s : State} {t : Tid} (h : mayChangeShare s t = true) :
    s.held t = .none ∧ s.ann t = .none := by
  unfold mayChangeShare at h
  simp at h
  exact h

/-- The lock-bit part of a legal write preserves the lock-bit invariants. -/
theorem lockPart_inv {s : State} (hi : Inv s) {t : Tid} {new : Nat} {d : LockDelta}
    (hd : lockDelta (decode s.word) (decode new) = some d) {w' : Option Tid} {rs' : List Tid}
    (hr : lockPart s t d = .ok (w', rs')) :
    (decode new).wlock = w'.isSome ∧ (decode new).readers = rs'.length ∧ rs'.Nodup ∧
    (w'.isSome = true → rs' = []) ∧
    (∀ u, s.held u = .W → w' = some u) ∧ (∀ u, s.held u = .R → u ∈ rs') ∧
    (∀ u, s.ann u = .W → w' = some u) ∧ (∀ u, s.ann u = .R → u ∈ rs') := by
  have hs := lockDelta_spec hd
  have hwl := hi.wl
  have hrd := hi.rd
  cases d with
  | same =>
    simp [lockPart] at hr hs
    obtain ⟨rfl, rfl⟩ := hr
    exact ⟨by rw [← hs.1]; exact hi.wl, by rw [← hs.2]; exact hi.rd, hi.nd, hi.wx, hi.heldW, hi.heldR, hi.annW, hi.annR⟩
  | addW =>
    simp at hs
    simp only [lockPart] at hr
    split at hr
    · simp at hr
      obtain ⟨rfl, rfl⟩ := hr
      have hw : s.w = none := by
        cases hsw : s.w with
        | none => rfl
        | some x => rw [hsw, hs.1] at hwl; simp at hwl
      have hrs : s.rs = [] := by
        have : s.rs.length = 0 := by rw [← hrd]; exact hs.2.2.1
        exact List.eq_nil_of_length_eq_zero this
      refine ⟨by simp [hs.2.1], by rw [hrs]; simp [hs.2.2.2], hi.nd, fun _ => hrs, ?_, hi.heldR, ?_, hi.annR⟩
      · intro u hu; have := hi.heldW u hu; rw [hw] at this; cases this
      · intro u hu; have := hi.annW u hu; rw [hw] at this; cases this
    · cases hr
  | addR =>
    simp at hs
    simp only [lockPart] at hr
    split at hr
    · rename_i hsh
      simp at hr
      obtain ⟨rfl, rfl⟩ := hr
      have hno := shareOf_none hsh
      have hw : s.w = none := by
        cases hsw : s.w with
        | none => rfl
        | some x => rw [hsw, hs.1] at hwl; simp at hwl
      refine ⟨by rw [hw]; simp [hs.2.1], by simp [hs.2.2, hrd], List.nodup_cons.mpr ⟨hno.2, hi.nd⟩, by rw [hw]; simp, ?_, ?_, ?_, ?_⟩
      · intro u hu; have := hi.heldW u hu; rw [hw] at this; cases this
      · intro u hu; exact List.mem_cons_of_mem _ (hi.heldR u hu)
      · intro u hu; have := hi.annW u hu; rw [hw] at this; cases this
      · intro u hu; exact List.mem_cons_of_mem _ (hi.annR u hu)
    · cases hr
  | subW =>
    simp at hs
    simp only [lockPart] at hr
    split at hr
    · rename_i hc
      simp at hr
      obtain ⟨rfl, rfl⟩ := hr
      obtain ⟨hwt, hmc⟩ := hc
      have hm := mayChange_spec hmc
      have hrs : s.rs = [] := hi.wx (by rw [hwt]; rfl)
      refine ⟨by simp [hs.2.1], by rw [hrs]; simp [hs.2.2.2], hi.nd, by simp, ?_, hi.heldR, ?_, hi.annR⟩
      · intro u hu
        have := hi.heldW u hu; rw [hwt] at this
        have : u = t := by injection this with h; exact h.symm
        subst this; rw [hm.1] at hu; cases hu
      · intro u hu
        have := hi.annW u hu; rw [hwt] at this
        have : u = t := by injection this with h; exact h.symm
        subst this; rw [hm.2] at hu; cases hu
    · cases hr
  | subR =>
    simp at hs
    simp only [lockPart] at hr
    split at hr
    · rename_i hc
      simp at hr
      obtain ⟨rfl, rfl⟩ := hr
      obtain ⟨htm, hmc⟩ := hc
      have hm := mayChange_spec hmc
      have hw : s.w = none := by
        cases hsw : s.w with
        | none => rfl
        | some x => rw [hsw, hs.1] at hwl; simp at hwl
      have hlen : (s.rs.erase t).length = s.rs.length - 1 := List.length_erase_of_mem htm
      have hpos : 0 < s.rs.length := List.length_pos_of_mem htm
      refine ⟨by rw [hw]; simp [hs.2.1], by omega, hi.nd.erase t, by rw [hw]; simp, ?_, ?_, ?_, ?_⟩
      · intro u hu; have := hi.heldW u hu; rw [hw] at this; cases this
      · intro u hu
        have hne : u ≠ t := by intro h; subst h; rw [hm.1] at hu; cases hu
        exact (List.mem_erase_of_ne hne).mpr (hi.heldR u hu)
      · intro u hu; have := hi.annW u hu; rw [hw] at this; cases this
      · intro u hu
        have hne : u ≠ t := by intro h; subst h; rw [hm.2] at hu; cases hu
        exact (List.mem_erase_of_ne hne).mpr (hi.annR u hu)
    · cases hr
  | r2w =>
    simp at hs
    simp only [lockPart] at hr
    split at hr
    · rename_i hc
      simp at hr
      obtain ⟨rfl, rfl⟩ := hr
      obtain ⟨htm, hmc⟩ := hc
      have hm := mayChange_spec hmc
      have hw : s.w = none := by
        cases hsw : s.w with
        | none => rfl
        | some x => rw [hsw, hs.1] at hwl; simp at hwl
      have hlen1 : s.rs.length = 1 := by rw [← hrd]; exact hs.2.2.1
      have hrs : s.rs = [t] := by
        match hrs : s.rs, hlen1, htm with
        | [x], _, hm' => simp at hm'; rw [hm']
      have her : s.rs.erase t = [] := by rw [hrs]; simp
      refine ⟨by simp [hs.2.1], by rw [her]; simp [hs.2.2.2], hi.nd.erase t, fun _ => her, ?_, ?_, ?_, ?_⟩
      · intro u hu; have := hi.heldW u hu; rw [hw] at this; cases this
      · intro u hu
        have := hi.heldR u hu; rw [hrs] at this; simp at this; subst this
        rw [hm.1] at hu; cases hu
      · intro u hu; have := hi.annW u hu; rw [hw] at this; cases this
      · intro u hu
        have := hi.annR u hu; rw [hrs] at this; simp at this; subst this
        rw [hm.2] at hu; cases hu
    · cases hr
  | w2r =>
    simp at hs
    simp only [lockPart] at hr
    split at hr
    · rename_i hc
      simp at hr
      obtain ⟨rfl, rfl⟩ := hr
      obtain ⟨hwt, hmc⟩ := hc
      have hm := mayChange_spec hmc
      have hrs : s.rs = [] := hi.wx (by rw [hwt]; rfl)
      refine ⟨by simp [hs.2.1], by rw [hrs]; simp [hs.2.2.2], by rw [hrs]; simp, by simp, ?_, ?_, ?_, ?_⟩
      · intro u hu
        have := hi.heldW u hu; rw [hwt] at this
        have : u = t := by injection this with h; exact h.symm
        subst this; rw [hm.1] at hu; cases hu
      · intro u hu; have := hi.heldR u hu; rw [hrs] at this; cases this
      · intro u hu
        have := hi.annW u hu; rw [hwt] at this
        have : u = t := by injection this with h; exact h.symm
        subst this; rw [hm.2] at hu; cases hu
      · intro u hu; have := hi.annR u hu; rw [hrs] at this; cases this
    · cases hr

theorem applyWrite_inv {s s' : State} {t : Tid} {new : Nat} {ord : Ord} {rmw : Bool} (hi : Inv s)
    (h : applyWrite s t new ord rmw = .ok s') : Inv s' := by
  unfold applyWrite at h
  simp only at h
  split at h
  · cases h
  · rename_i ld hld
    split at h
    · cases h
    · rename_i w' rs' hr1
      have hp := lockPart_inv hi hld hr1
      obtain ⟨p1, p2, p3, p4, p5, p6, p7, p8⟩ := hp
      have hsd := spinDelta_spec (decode s.word) (decode new)
      split at h
      · cases h
      · split at h
        · cases h
        · split at h
          · rename_i hsame
            rw [hsame] at hsd
            cases h
            exact ⟨p1, p2, p3, p4, by simp only; rw [← hsd]; exact hi.spn, p5, p6, p7, p8⟩
          · rename_i hset
            rw [hset] at hsd
            split at h
            · cases h
              exact ⟨p1, p2, p3, p4, by simp [hsd.2], p5, p6, p7, p8⟩
            · cases h
          · rename_i hclr
            rw [hclr] at hsd
            split at h
            · cases h
              exact ⟨p1, p2, p3, p4, by simp [hsd.2], p5, p6, p7, p8⟩
            · cases h

theorem setFn_same {α : Type} (f : Tid → α) (t : Tid) (v : α) : setFn f t v t = v := by simp [setFn]
theorem setFn_other {α : Type} (f : Tid → α) {t u : Tid} (v : α) (h : u ≠ t) : setFn f t v u = f u := by
  simp [setFn, h]

theorem shareOf_W {s : State} {t : Tid} (h : shareOf s t = .W) : s.w = some t := by
  unfold shareOf at h
  split at h
  · assumption
  · split at h <;> cases h

theorem shareOf_R {s : State} {t : Tid} (h : shareOf s t = .R) : t ∈ s.rs := by
  unfold shareOf at h
  split at h
  · cases h
  · split at h
    · assumption
    · cases h

/-- Changing only the API-level ghosts preserves the invariant as long as the new ghosts are
    backed by the owners. -/
theorem inv_ghost {s : State} (hi : Inv s) (call' : Tid → Option (Call × Share)) (held' ann' : Tid → Share)
    (hW : ∀ u, held' u = .W → s.w = some u) (hR : ∀ u, held' u = .R → u ∈ s.rs)
    (aW : ∀ u, ann' u = .W → s.w = some u) (aR : ∀ u, ann' u = .R → u ∈ s.rs) :
    Inv { s with call := call', held := held', ann := ann' } :=
  ⟨hi.wl, hi.rd, hi.nd, hi.wx, hi.spn, hW, hR, aW, aR⟩

theorem setFn_elim {α : Type} {f : Tid → α} {t u : Tid} {v x : α} (h : setFn f t v u = x) :
    (u = t ∧ v = x) ∨ (u ≠ t ∧ f u = x) := by
  unfold setFn at h
  split at h
  · left; exact ⟨by assumption, h⟩
  · right; exact ⟨by assumption, h⟩

theorem step_inv {s s' : State} {e : Ev} (hi : Inv s) (h : step s e = .ok s') : Inv s' := by
  cases e with
  | ld t v => simp [step] at h; split at h <;> cases h; exact hi
  | casFail t exp obs => simp [step] at h; split at h <;> cases h; exact hi
  | cas t exp new ord =>
    simp only [step] at h
    split at h
    · split at h
      · cases h
      · exact applyWrite_inv hi h
    · cases h
  | st t new ord =>
    simp only [step] at h
    split at h
    · split at h
      · cases h
      · split at h
        · exact applyWrite_inv hi h
        · cases h
    · cases h
  | call t c =>
    simp only [step] at h
    split at h
    · cases h
    · cases c with
      | acq l tr =>
        simp only at h
        split at h
        · cases h; exact inv_ghost hi _ _ _ hi.heldW hi.heldR hi.annW hi.annR
        · cases h
      | rel l =>
        simp only at h
        split at h
        · cases h
          refine inv_ghost hi _ _ _ ?_ ?_ hi.annW hi.annR
          · intro u hu
            rcases setFn_elim hu with ⟨_, hv⟩ | ⟨_, hv⟩
            · cases hv
            · exact hi.heldW u hv
          · intro u hu
            rcases setFn_elim hu with ⟨_, hv⟩ | ⟨_, hv⟩
            · cases hv
            · exact hi.heldR u hv
        · cases h
      | wait =>
        simp only at h
        split at h
        · cases h
          refine inv_ghost hi _ _ _ ?_ ?_ hi.annW hi.annR
          · intro u hu
            rcases setFn_elim hu with ⟨_, hv⟩ | ⟨_, hv⟩
            · cases hv
            · exact hi.heldW u hv
          · intro u hu
            rcases setFn_elim hu with ⟨_, hv⟩ | ⟨_, hv⟩
            · cases hv
            · exact hi.heldR u hv
        · cases h
      | observe =>
        simp only at h
        cases h; exact inv_ghost hi _ _ _ hi.heldW hi.heldR hi.annW hi.annR
  | ret t ok =>
    simp only [step] at h
    split at h
    · cases h
    · rename_i l tr m hc
      split at h
      · split at h
        · rename_i hsh
          cases h
          refine inv_ghost hi _ _ _ ?_ ?_ hi.annW hi.annR
          · intro u hu
            rcases setFn_elim hu with ⟨hut, hv⟩ | ⟨_, hv⟩
            · subst hut
              cases l with
              | W => exact shareOf_W hsh.1
              | R => cases hv
            · exact hi.heldW u hv
          · intro u hu
            rcases setFn_elim hu with ⟨hut, hv⟩ | ⟨_, hv⟩
            · subst hut
              cases l with
              | W => cases hv
              | R => exact shareOf_R hsh.1
            · exact hi.heldR u hv
        · cases h
      · split at h
        · cases h; exact inv_ghost hi _ _ _ hi.heldW hi.heldR hi.annW hi.annR
        · cases h
    · split at h
      · cases h; exact inv_ghost hi _ _ _ hi.heldW hi.heldR hi.annW hi.annR
      · cases h
    · rename_i m hc
      split at h
      · rename_i hsh
        cases h
        refine inv_ghost hi _ _ _ ?_ ?_ hi.annW hi.annR
        · intro u hu
          rcases setFn_elim hu with ⟨hut, hv⟩ | ⟨_, hv⟩
          · subst hut; rw [hv] at hsh; exact shareOf_W hsh.1
          · exact hi.heldW u hv
        · intro u hu
          rcases setFn_elim hu with ⟨hut, hv⟩ | ⟨_, hv⟩
          · subst hut; rw [hv] at hsh; exact shareOf_R hsh.1
          · exact hi.heldR u hv
      · cases h
    · split at h
      · cases h; exact inv_ghost hi _ _ _ hi.heldW hi.heldR hi.annW hi.annR
      · cases h
  | annAcq t l =>
    simp only [step] at h
    split at h
    · cases h
    split at h
    · rename_i hsh
      cases h
      refine inv_ghost hi _ _ _ hi.heldW hi.heldR ?_ ?_
      · intro u hu
        rcases setFn_elim hu with ⟨hut, hv⟩ | ⟨_, hv⟩
        · subst hut
          cases l with
          | W => exact shareOf_W hsh.1
          | R => cases hv
        · exact hi.annW u hv
      · intro u hu
        rcases setFn_elim hu with ⟨hut, hv⟩ | ⟨_, hv⟩
        · subst hut
          cases l with
          | W => cases hv
          | R => exact shareOf_R hsh.1
        · exact hi.annR u hv
    · cases h
  | annRel t l =>
    simp only [step] at h
    split at h
    · cases h
    split at h
    · cases h
      refine inv_ghost hi _ _ _ hi.heldW hi.heldR ?_ ?_
      · intro u hu
        rcases setFn_elim hu with ⟨_, hv⟩ | ⟨_, hv⟩
        · cases hv
        · exact hi.annW u hv
      · intro u hu
        rcases setFn_elim hu with ⟨_, hv⟩ | ⟨_, hv⟩
        · cases hv
        · exact hi.annR u hv
    · cases h

theorem run_inv {s s' : State} {evs : List Ev} (hi : Inv s) (h : run s evs = .ok s') : Inv s' := by
  induction evs generalizing s with
  | nil => simp [run] at h; cases h; exact hi
  | cons e es ih =>
    simp only [run] at h
    split at h
    · rename_i s1 hs1; exact ih (step_inv hi hs1) h
    · cases h

theorem reachable_inv {s : State} (h : Reachable s) : Inv s := by
  obtain ⟨evs, he⟩ := h
  exact run_inv inv_init he

end NsyncVerif.MuX
