/-
  Layer `CvFix`, liveness: one-step facts.  What a step of ANOTHER thread leaves alone (`tr_other`,
  `hold_other`), and the rank of a critical section of the cv spinlock (`rkH`): every step of the
  holder decreases it or releases the spinlock.
-/
import NsyncVerif.Proofs.CvFixFairDefs

namespace NsyncVerif.CvFix

/-- A step of another thread (or a tick) does not change the frame of `t`. -/
theorem tr_other {cfg : Config} {s s' : State} {e : Event} (h : Tr cfg s e s') {t : Tid}
    (hne : e.tid ≠ some t) : s'.thr t = s.thr t := by
  cases h with
  | same e h hna => rfl
  | tick ns h => rfl
  | loc h =>
    rename_i t0 x'
    have := ltr_tid h
    have h0 : t ≠ t0 := by intro e0; subst e0; exact hne this
    simp [h0]
  | acq t0 exp new obs o n hl hexp hw he ho hn hnew =>
    have h0 : t ≠ t0 := by intro e0; subst e0; exact hne rfl
    exact afterAcquire_thr_other _ _ _ _ h0
  | semOther e sem' h hopen => rfl
  | wwCasOk t0 exp new obs f rest hl hlist =>
    have h0 : t ≠ t0 := by intro e0; subst e0; exact hne rfl
    simp [h0]
  | wInit t0 r h hm hst => rfl
  | nwInit t0 r h hm hst => rfl
  | fStW t0 r new h hf => rfl
  | fCasOk t0 r exp new obs h hf hn ho he => rfl
  | _ =>
    simp only [Event.tid, ne_eq, Option.some.injEq] at hne
    simp [Ne.symm hne]

/-! ### the critical sections of the cv spinlock -/

/-- Number of steps the holder `t` of the spinlock still has to take, at most, before it releases. -/
def rkH (s : State) (t : Tid) : Nat :=
  match (s.thr t).loc with
  | .wEnq => 2 | .wRel => 1
  | .wChk2 => 7 | .wCmp => 6 | .wRmLd => 5 | .wRmCas => 4 | .wClr => 3 | .wRel2 => 1
  | .sRcLd => 2 * (s.thr t).todo.length + 2 | .sRcCas => 2 * (s.thr t).todo.length + 1 | .sRel => 1
  | .nLocked => 4 | .nEnqRel => 1 | .nDeqSt => 2 | .nDeqRel => 1 | .nDeqRelW => 1
  | .dWalk => 2 * (s.queue.length - (s.thr t).dIdx) + 2
  | .dRc => 2 * (s.queue.length - (s.thr t).dIdx) + 1
  | _ => 0

/-- The pending `remove_count` CAS of `t` is going to fail: the value it loaded is no longer there.
    (This never happens in a reachable state; rather than proving that, the rank `rkS` below pays for
    the one extra round.) -/
def casBad (s : State) (t : Tid) : Bool :=
  match (s.thr t).loc with
  | .wRmCas => (s.thr t).casExp != (s.recs (s.thr t).r).rc
  | .sRcCas =>
    match (s.thr t).todo.head? with
    | some r => (s.thr t).casExp != (s.recs r).rc
    | none => false
  | _ => false

/-- The rank of a critical section. -/
def rkS (s : State) (t : Tid) : Nat := rkH s t + (if casBad s t then 3 else 0)

theorem hold_ltr {s : State} {t : Tid} {e : Event} {x' : Thr} (h : LTr s t e x')
    (hh : (s.thr t).loc.holds = true)
    (hnf : ∀ site r exp new obs, e = .recCas t site r exp new obs false → casBad s t = true) :
    x'.loc.holds = true ∧ rkS (s.setThr t x') t < rkS s t := by
  cases h with
  | retWait res hl hr => rcases hl with hl | hl <;> simp [hl, Loc.holds] at hh
  | spinLd site obs hl ho => rcases hl with ⟨_, hl⟩ | ⟨_, hl⟩ <;> simp [hl, Loc.holds] at hh
  | wwRelLd site obs hl => rcases hl with ⟨_, hl⟩ | ⟨_, hl⟩ <;> simp [hl, Loc.holds] at hh
  | noteSeen hl => rcases hl with hl | hl | hl <;> simp [hl, Loc.holds] at hh
  | wChk y r obs hy hl hr ho hso => cases hy <;> simp_all [Loc.holds]
  | wTail y r obs hy hl hr ho => cases hy <;> simp_all [Loc.holds]
  | wChk2 r obs hl hr ho =>
    by_cases hz : obs = 0 <;> simp [hl, hz, Loc.holds, rkH, rkS, casBad]
  | wRmCasFail r exp new obs hl hr =>
    have := hnf _ _ _ _ _ rfl
    simp [hl, Loc.holds, rkH, rkS, casBad, this]
    simp [casBad, hl] at this
    simp [this]
  | sRcCasFail site r exp new obs hl hr =>
    have := hnf _ _ _ _ _ rfl
    simp [hl, Loc.holds, rkH, rkS, casBad, this]
    simp [casBad, hl, hr] at this
    simp [this, hr]
  | dbgRc r obs hl hq ho =>
    have hlt : (s.thr t).dIdx < s.queue.length := by
      apply Classical.byContradiction; intro hn
      rw [List.getElem?_eq_none (by omega)] at hq; cases hq
    simp [hl, Loc.holds, rkH, rkS, casBad]; omega
  | wRmLd r obs hl hr ho => simp [hl, Loc.holds, rkH, rkS, casBad, ho, hr]
  | rcLd site r obs hl hs hr ho => simp [hl, Loc.holds, rkH, rkS, casBad, ho, hr]
  | _ => simp_all [Loc.holds, rkH, rkS, casBad]

/-- A failing `remove_count` CAS: what the acceptor checked. -/
theorem recCas_fail {cfg : Config} {s s' : State} {t : Tid} {site : RSite} {r : Rid} {exp new obs : Nat}
    (h : step cfg s (.recCas t site r exp new obs false) = .ok s') :
    exp = (s.thr t).casExp ∧ obs = (s.recs r).rc ∧ obs ≠ exp ∧
    (((s.thr t).loc = .wRmCas ∧ r = (s.thr t).r) ∨
     ((s.thr t).loc = .sRcCas ∧ (s.thr t).todo.head? = some r)) := by
  simp only [step, stepRecCas, need_ok] at h
  obtain ⟨h1, _, h3, h4, h5⟩ := h
  have hne : obs ≠ exp := by simpa using h4
  refine ⟨h1, h3, hne, ?_⟩
  split at h5
  · rename_i hl; simp only [need_ok] at h5; exact .inl ⟨hl, h5.1⟩
  · rename_i hl; simp only [need_ok] at h5; exact .inr ⟨hl, h5.2.1⟩
  · rename_i hl; simp only [need_ok] at h5; exact .inr ⟨hl, h5.2.1⟩
  · cases h5

/-- A thread that holds the spinlock performs only atomic operations (and the no-op `noteSeen`). -/
theorem nonatomic_not_holding {cfg : Config} {s s' : State} {e : Event} {t : Tid}
    (h : step cfg s e = .ok s') (ht : e.tid = some t) (hna : e.isAtomic = false)
    (hne : e ≠ .noteSeen t) : (s.thr t).loc.holds = false := by
  cases hh : (s.thr t).loc.holds
  · rfl
  · exfalso
    cases e <;> simp only [Event.isAtomic, Bool.true_eq_false] at hna <;>
      simp only [Event.tid, Option.some.injEq, reduceCtorEq] at ht <;> replace ht := ht.symm <;> subst ht
    all_goals (first
      | (exact hne rfl)
      | (simp only [step, stepCall, stepRet, need_ok, decide_eq_true_eq] at h
         (try obtain ⟨hl, _⟩ := h)
         all_goals (first
           | (rcases hl with ⟨hl | hl, _⟩ <;> simp [hl, Loc.holds] at hh)
           | (obtain ⟨hl, _⟩ := hl; simp [hl, Loc.holds] at hh)
           | (simp [hl, Loc.holds] at hh; done)
           | (simp only [stepSemV, stepSemPdEnter, stepSemPdRet] at h
              split at h <;> (try simp only [need_ok] at h) <;>
                (first | (simp_all [Loc.holds, Loc.isOpen]; done)
                       | (cases hloc : (s.thr t).loc <;> simp_all [Loc.holds, Loc.isOpen])))
           | (cases hloc : (s.thr t).loc <;> simp_all [Loc.holds, Loc.isOpen]))))

theorem fresh_loc (x : Thr) (l : Loc) : (x.fresh l).loc = l := rfl

/-- At a program point inside cv.c / debug.c (`isOpen = false`) the only non-atomic events of the
    thread that the acceptor accepts are the API return, the release mark, the semaphore operations
    of the wait and the V of a waker (and the no-op `noteSeen`): each of them changes the program
    point. -/
theorem nonatomic_closed {cfg : Config} {s s' : State} {e : Event} {t : Tid}
    (h : step cfg s e = .ok s') (ht : e.tid = some t) (hna : e.isAtomic = false)
    (hne : e ≠ .noteSeen t) (hop : (s.thr t).loc.isOpen = false) :
    (s'.thr t).loc ≠ (s.thr t).loc := by
  cases e <;> simp only [Event.isAtomic, Bool.true_eq_false] at hna <;>
    simp only [Event.tid, Option.some.injEq, reduceCtorEq] at ht <;> replace ht := ht.symm <;> subst ht
  case noteSeen => exact absurd rfl hne
  case callWait => simp only [step] at h; rw [(stepCall_ok h).1] at hop; cases hop
  case callSignal => simp only [step] at h; rw [(stepCall_ok h).1] at hop; cases hop
  case callBroadcast => simp only [step] at h; rw [(stepCall_ok h).1] at hop; cases hop
  case callWaitN => simp only [step] at h; rw [(stepCall_ok h).1] at hop; cases hop
  case callDebug => simp only [step] at h; rw [(stepCall_ok h).1] at hop; cases hop
  case retWait =>
    simp only [step] at h; rw [(stepRet_ok h).2]; intro he
    simp only [setThr_thr, if_true, fresh_loc] at he; rw [← he] at hop; cases hop
  case retSignal =>
    simp only [step] at h; rw [(stepRet_ok h).2]; intro he
    simp only [setThr_thr, if_true, fresh_loc] at he; rw [← he] at hop; cases hop
  case retBroadcast =>
    simp only [step] at h; rw [(stepRet_ok h).2]; intro he
    simp only [setThr_thr, if_true, fresh_loc] at he; rw [← he] at hop; cases hop
  case retDebug =>
    simp only [step] at h; rw [(stepRet_ok h).2]; intro he
    simp only [setThr_thr, if_true, fresh_loc] at he; rw [← he] at hop; cases hop
  case retWaitN => simp only [step, need_ok] at h; rw [h.1] at hop; cases hop
  case relMark =>
    simp only [step, need_ok] at h; obtain ⟨hl, _, h⟩ := h; cases h
    simp [hl]
  case lockMark => simp only [step, need_ok] at h; rw [h.1] at hop; cases hop
  case relockSlow => simp only [step, need_ok] at h; rw [h.1] at hop; cases hop
  case nret =>
    simp only [step] at h
    split at h
    · rename_i hl; rw [hl] at hop; cases hop
    · rename_i hl; rw [hl] at hop; cases hop
    · cases h
  case semPdEnter =>
    simp only [step, stepSemPdEnter] at h
    split at h
    · rename_i hl; simp only [need_ok] at h; obtain ⟨_, _, h⟩ := h; cases h; simp [hl]
    · rename_i hl; rw [hl] at hop; cases hop
    · rename_i hl; rw [hl] at hop; cases hop
    · rename_i hl; rw [hl] at hop; cases hop
    · cases h
  case semPdRet =>
    simp only [step, stepSemPdRet] at h
    split at h
    · rename_i hl; simp only [need_ok] at h; obtain ⟨_, h⟩ := h
      split at h <;> simp only [need_ok] at h <;> obtain ⟨_, h⟩ := h <;> cases h <;> simp [hl]
    · rename_i hl; rw [hl] at hop; cases hop
    · rename_i hl; rw [hl] at hop; cases hop
    · rename_i hl; rw [hl] at hop; cases hop
    · cases h
  case semPEnter => simp only [step, need_ok] at h; rw [h.1] at hop; cases hop
  case semPRet => simp only [step, need_ok] at h; rw [h.1] at hop; cases hop
  case semV =>
    simp only [step, stepSemV] at h
    split at h
    · rename_i hl
      split at h
      · cases h
      · simp only [need_ok] at h; obtain ⟨_, h⟩ := h; cases h
        simp only [setThr_thr, if_true, hl]
        split <;> simp
    · simp only [need_ok] at h; rw [h.1] at hop; cases hop
  case wInit => simp only [step, need_ok] at h; rw [h.1] at hop; cases hop
  case nwInit => simp only [step, need_ok] at h; rw [h.1] at hop; cases hop
  case fLd => simp only [step, need_ok] at h; rw [h.1] at hop; cases hop
  case fSt => simp only [step, need_ok] at h; rw [h.1] at hop; cases hop
  case fCas => simp only [step, need_ok] at h; rw [h.1] at hop; cases hop
  case noteNotify => simp only [step, need_ok] at h; rw [h.1.1] at hop; cases hop

theorem holds_not_open {l : Loc} (h : l.holds = true) : l.isOpen = false := by
  cases l <;> simp_all [Loc.holds, Loc.isOpen]

/-- Every step of the holder of the spinlock releases it or decreases the rank. -/
theorem hold_own {cfg : Config} {s s' : State} {e : Event} {t : Tid}
    (hs : step cfg s e = .ok s') (ht : e.tid = some t) (hne : e ≠ .noteSeen t) (hi : Inv s)
    (hh : s.holder = some t) :
    s'.holder = none ∨ (s'.holder = some t ∧ rkS s' t < rkS s t) := by
  have hl := (hi.a.hold t).mp hh
  have htr := step_tr hs
  cases htr with
  | same e h hna => rw [nonatomic_not_holding hs ht hna hne] at hl; cases hl
  | tick ns h => simp [Event.tid] at ht
  | semOther e sem' h hopen => have := hopen t ht; rw [holds_not_open hl] at this; cases this
  | loc h =>
    rename_i t0 x'
    have := ltr_tid h
    rw [ht] at this; cases this
    have hnf : ∀ site r exp new obs, e = .recCas t site r exp new obs false → casBad s t = true := by
      intro site r exp new obs he
      subst he
      obtain ⟨h1, h2, h3, h4⟩ := recCas_fail hs
      rcases h4 with ⟨h5, h6⟩ | ⟨h5, h6⟩
      · subst h6; simp [casBad, h5, ← h1, ← h2]; omega
      · simp [casBad, h5, h6, ← h1, ← h2]; omega
    obtain ⟨a, b⟩ := hold_ltr h hl hnf
    exact .inr ⟨hh, b⟩
  | wInit t0 r h hm hst =>
    simp only [Event.tid, Option.some.injEq] at ht; subst ht
    rw [holds_not_open hl] at h; cases h
  | nwInit t0 r h hm hst =>
    simp only [Event.tid, Option.some.injEq] at ht; subst ht
    rw [h] at hl; simp [Loc.holds] at hl
  | fStW t0 r new h hf =>
    simp only [Event.tid, Option.some.injEq] at ht; subst ht
    rw [holds_not_open hl] at h; cases h
  | fCasOk t0 r exp new obs h hf hn ho he =>
    simp only [Event.tid, Option.some.injEq] at ht; subst ht
    rw [holds_not_open hl] at h; cases h
  | sRcCasOk t0 site r exp new obs h hr hn ho he =>
    simp only [Event.tid, Option.some.injEq] at ht; subst ht
    right
    cases htd : (s.thr t0).todo with
    | nil => rw [htd] at hr; cases hr
    | cons a l =>
      refine ⟨hh, ?_⟩
      by_cases hz : l.isEmpty = true <;> simp [rkS, rkH, casBad, h, htd, hz] <;> omega
  | _ =>
    simp only [Event.tid, Option.some.injEq] at ht
    replace ht := ht.symm
    subst ht
    first
      | (left; rfl)
      | (right; simp_all [rkS, rkH, casBad, Loc.holds]; done)
      | (right; simp_all [rkS, rkH, casBad, Loc.holds]; omega)
      | (simp_all [Loc.holds]; done)

theorem foreignOk_stat {rc : Rec} (h : foreignOk rc = true) : rc.stat = .idle ∨ rc.stat = .xfer := by
  unfold foreignOk at h; split at h <;> simp_all

/-- While `t` holds the spinlock a step of anybody else leaves the holder, the queue and the
    `remove_count` of every record that is registered and not transferred alone. -/
theorem hold_other_core {cfg : Config} {s s' : State} {e : Event} {t : Tid} (htr : Tr cfg s e s')
    (hne : e.tid ≠ some t) (hi : Inv s) (hh : s.holder = some t) :
    s'.holder = some t ∧ s'.queue = s.queue ∧
    ∀ r, (s.recs r).stat ≠ .idle → (s.recs r).stat ≠ .xfer → (s'.recs r).rc = (s.recs r).rc := by
  have hnh : ∀ t0, t0 ≠ t → (s.thr t0).loc.holds = false := by
    intro t0 h0
    cases hq : (s.thr t0).loc.holds
    · rfl
    · have := (hi.a.hold t0).mpr hq; rw [hh] at this; cases this; exact absurd rfl h0
  cases htr with
  | same e h hna => exact ⟨hh, rfl, fun _ _ _ => rfl⟩
  | tick ns h => exact ⟨hh, rfl, fun _ _ _ => rfl⟩
  | semOther e sem' h hopen => exact ⟨hh, rfl, fun _ _ _ => rfl⟩
  | loc h => exact ⟨hh, rfl, fun _ _ _ => rfl⟩
  | acq t0 exp new obs o n hl hexp hw he ho hn hnew =>
    exfalso
    have hev := (hi.a.thr t0).casEven hl
    have hsp := enc_even_spin (w := s.word) (by rw [← hw, he, hexp]; exact hev)
    have := hi.a.spin; rw [hsp, hh] at this; cases this
  | wInit t0 r h hm hst =>
    refine ⟨hh, rfl, fun q h1 _ => ?_⟩
    simp only [setRec_recs]; split
    · rename_i e0; subst e0; exact absurd hst h1
    · rfl
  | fCasOk t0 r exp new obs h hf hn ho he =>
    refine ⟨hh, rfl, fun q h1 h2 => ?_⟩
    simp only [setRec_recs]; split
    · rename_i e0; subst e0; rcases foreignOk_stat hf with h3 | h3
      · exact absurd h3 h1
      · exact absurd h3 h2
    · rfl
  | wwCasOk t0 exp new obs f rest hl hlist =>
    refine ⟨hh, rfl, fun q _ _ => ?_⟩
    dsimp only; split <;> rfl
  | _ =>
    simp only [Event.tid, ne_eq, Option.some.injEq] at hne
    first
      | (exfalso; have := hnh _ hne; simp_all [Loc.holds]; done)
      | (refine ⟨hh, rfl, fun q _ _ => ?_⟩; simp only [setRec_recs, setThr_recs]
         all_goals ((try split) <;> (try subst_vars) <;> simp))

/-- … and so the rank of the critical section. -/
theorem hold_other {cfg : Config} {s s' : State} {e : Event} {t : Tid} (hs : step cfg s e = .ok s')
    (hne : e.tid ≠ some t) (hi : Inv s) (hh : s.holder = some t) :
    s'.holder = some t ∧ rkS s' t = rkS s t := by
  have htr := step_tr hs
  obtain ⟨h1, h2, h3⟩ := hold_other_core htr hne hi hh
  have h4 := tr_other htr hne
  refine ⟨h1, ?_⟩
  have hk : rkH s' t = rkH s t := by simp only [rkH, h4, h2]
  have hb : casBad s' t = casBad s t := by
    simp only [casBad, h4]
    split
    · rename_i hl
      have hst := (hi.a.thr t).selfO (.inr (.inl hl))
      rw [h3 _ (by rw [hst]; simp) (by rw [hst]; simp)]
    · rename_i hl
      split
      · rename_i r hr
        have hm := ((hi.b.thr t).todoL r (head_mem' hr)).1
        have hst := (hi.a.lMem t r).mp hm
        rw [h3 _ (by rw [hst]; simp) (by rw [hst]; simp)]
      · rfl
    · rfl
  simp only [rkS, hk, hb]

/-- `noteSeen` outside sem_wait.c is a no-op. -/
theorem noteSeen_same {cfg : Config} {s s' : State} {t : Tid} (hs : step cfg s (.noteSeen t) = .ok s')
    (h1 : (s.thr t).loc.inCancel = false) (h2 : (s.thr t).loc ≠ .cWait) : s' = s := by
  simp only [step] at hs
  split at hs
  · rename_i hl; simp [hl, Loc.inCancel] at h1
  · rename_i hl; exact absurd hl h2
  · rename_i hl; simp [hl, Loc.inCancel] at h1
  · cases hs; rfl

/-- `noteSeen` changes nothing but the flag `sawNote` of its thread. -/
theorem noteSeen_thr {cfg : Config} {s s' : State} {t : Tid} (hs : step cfg s (.noteSeen t) = .ok s') :
    s' = s ∨ s' = s.setThr t { s.thr t with sawNote := true } := by
  simp only [step] at hs
  split at hs <;> cases hs <;> simp

end NsyncVerif.CvFix
