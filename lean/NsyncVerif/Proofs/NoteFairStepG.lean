/-
  Layer `Note`, fair termination: every own step of a thread inside a call — leaf or not —
  decreases the rank `rankG` (`own_step_gen`), with the same exception as for leaf calls (the load
  of the wait loop that finds the flag unset), provided no note is allocated any more and the step
  is not an adoption.
-/
import NsyncVerif.Proofs.NoteFairPotG

set_option linter.unusedSimpArgs false

namespace Note

/-- The inner part of the rank. -/
def restR (s : State) (t : Tid) : Nat × (Nat × Nat) :=
  (phG (s.pc t), (wG s (s.pc t), mn s (s.pc t)))

/-- What an own step does to the rank. -/
def GoodG (B : Nat) (s s' : State) (t : Tid) : Prop :=
  s'.pc t = .idle ∨ PG B s' < PG B s ∨ RestLt (restR s' t) (restR s t) ∨
    ∃ n nt r wdl, s.pc t = .dl .ld1 n nt (.ready2 r wdl) ∧ (s.notes n).notified = false

@[simp] theorem ch_setPc (s : State) (t : Tid) (p : PC) : (s.setPc t p).ch = s.ch := by
  funext j; simp [State.ch, State.setPc, State.leave, State.delUser, State.setPc, State.modNote, upd_apply]; (try (split <;> simp_all))
@[simp] theorem ch_acquire (s : State) (k : NoteId) (t : Tid) : (s.acquire k t).ch = s.ch := by
  funext j; simp [State.ch, State.acquire, State.leave, State.delUser, State.setPc, State.modNote, upd_apply]; (try (split <;> simp_all))
@[simp] theorem ch_release (s : State) (k : NoteId) : (s.release k).ch = s.ch := by
  funext j; simp [State.ch, State.release, State.leave, State.delUser, State.setPc, State.modNote, upd_apply]; (try (split <;> simp_all))
@[simp] theorem ch_incDisc (s : State) (k : NoteId) : (s.incDisc k).ch = s.ch := by
  funext j; simp [State.ch, State.incDisc, State.leave, State.delUser, State.setPc, State.modNote, upd_apply]; (try (split <;> simp_all))
@[simp] theorem ch_decDisc (s : State) (k : NoteId) : (s.decDisc k).ch = s.ch := by
  funext j; simp [State.ch, State.decDisc, State.leave, State.delUser, State.setPc, State.modNote, upd_apply]; (try (split <;> simp_all))
@[simp] theorem ch_setAdopted (s : State) (k : NoteId) (b : Bool) : (s.setAdopted k b).ch = s.ch := by
  funext j; simp [State.ch, State.setAdopted, State.leave, State.delUser, State.setPc, State.modNote, upd_apply]; (try (split <;> simp_all))
@[simp] theorem ch_setWaiters (s : State) (k : NoteId) (ws : List Rid) : (s.setWaiters k ws).ch = s.ch := by
  funext j; simp [State.ch, State.setWaiters, State.leave, State.delUser, State.setPc, State.modNote, upd_apply]; (try (split <;> simp_all))
@[simp] theorem ch_setNotified (s : State) (k : NoteId) : (s.setNotified k).ch = s.ch := by
  funext j; simp [State.ch, State.setNotified, State.leave, State.delUser, State.setPc, State.modNote, upd_apply]; (try (split <;> simp_all))
@[simp] theorem ch_setExpiry (s : State) (k : NoteId) (d : Dl) : (s.setExpiry k d).ch = s.ch := by
  funext j; simp [State.ch, State.setExpiry, State.leave, State.delUser, State.setPc, State.modNote, upd_apply]; (try (split <;> simp_all))
@[simp] theorem ch_markFreed (s : State) (k : NoteId) : (s.markFreed k).ch = s.ch := by
  funext j; simp [State.ch, State.markFreed, State.leave, State.delUser, State.setPc, State.modNote, upd_apply]; (try (split <;> simp_all))
@[simp] theorem ch_addUser (s : State) (n : NoteId) (t : Tid) : (s.addUser n t).ch = s.ch := by
  funext j; simp [State.ch, State.addUser, State.leave, State.delUser, State.setPc, State.modNote, upd_apply]; (try (split <;> simp_all))
@[simp] theorem ch_delUser (s : State) (n : NoteId) (t : Tid) : (s.delUser n t).ch = s.ch := by
  funext j; simp [State.ch, State.delUser, State.leave, State.delUser, State.setPc, State.modNote, upd_apply]; (try (split <;> simp_all))
@[simp] theorem ch_markFreeing (s : State) (n : NoteId) : (s.markFreeing n).ch = s.ch := by
  funext j; simp [State.ch, State.markFreeing, State.leave, State.delUser, State.setPc, State.modNote, upd_apply]; (try (split <;> simp_all))
@[simp] theorem ch_markCalled (s : State) (n : NoteId) : (s.markCalled n).ch = s.ch := by
  funext j; simp [State.ch, State.markCalled, State.leave, State.delUser, State.setPc, State.modNote, upd_apply]; (try (split <;> simp_all))
@[simp] theorem ch_markBorn (s : State) (n : NoteId) : (s.markBorn n).ch = s.ch := by
  funext j; simp [State.ch, State.markBorn, State.leave, State.delUser, State.setPc, State.modNote, upd_apply]; (try (split <;> simp_all))
@[simp] theorem ch_publish (s : State) (n : NoteId) : (s.publish n).ch = s.ch := by
  funext j; simp [State.ch, State.publish, State.leave, State.delUser, State.setPc, State.modNote, upd_apply]; (try (split <;> simp_all))
@[simp] theorem ch_setAfter (s : State) (t : Tid) (b : Bool) : (s.setAfter t b).ch = s.ch := by
  funext j; simp [State.ch, State.setAfter, State.leave, State.delUser, State.setPc, State.modNote, upd_apply]; (try (split <;> simp_all))
@[simp] theorem ch_pushObs (s : State) (o : Obs) : (s.pushObs o).ch = s.ch := by
  funext j; simp [State.ch, State.pushObs, State.leave, State.delUser, State.setPc, State.modNote, upd_apply]; (try (split <;> simp_all))
@[simp] theorem ch_setNow (s : State) (v : Nat) : (s.setNow v).ch = s.ch := by
  funext j; simp [State.ch, State.setNow, State.leave, State.delUser, State.setPc, State.modNote, upd_apply]; (try (split <;> simp_all))
@[simp] theorem ch_leave (s : State) (t : Tid) (n : NoteId) : (s.leave t n).ch = s.ch := by
  funext j; simp [State.ch, State.leave, State.leave, State.delUser, State.setPc, State.modNote, upd_apply]; (try (split <;> simp_all))
@[simp] theorem ch_clearParent (s : State) (c : NoteId) : (s.clearParent c).ch = s.ch := by
  funext j; simp [State.ch, State.clearParent, State.leave, State.delUser, State.setPc, State.modNote, upd_apply]; (try (split <;> simp_all))
@[simp] theorem ch_modRec (s : State) (r : Rid) (f : WRec → WRec) : (s.modRec r f).ch = s.ch := rfl
@[simp] theorem ch_afterDeadline (s : State) (t : Tid) (n : NoteId) (nt : Dl) (k : DK) :
    (afterDeadline s t n nt k).ch = s.ch := by
  funext j; simp [State.ch]
@[simp] theorem ch_afterNotify (s : State) (t : Tid) (n : NoteId) (k : NK) :
    (afterNotify s t n k).ch = s.ch := by
  funext j; simp [State.ch]
@[simp] theorem ch_enterChild (s : State) (t : Tid) (n : NoteId) (par : Option NoteId) (k : NK) :
    (enterChild s t n par k).ch = s.ch := rfl
@[simp] theorem ch_childWakeNext (s : State) (t : Tid) (f : Frame) (rest : List Frame) (top : Top) :
    (childWakeNext s t f rest top).ch = s.ch := by
  funext j; simp [State.ch]
@[simp] theorem ch_childScanStart (s : State) (t : Tid) (f : Frame) (rest : List Frame) (top : Top) :
    (childScanStart s t f rest top).ch = s.ch := by
  funext j; simp [State.ch]
@[simp] theorem ch_freeLoopStart (s : State) (t : Tid) (n : NoteId) (par : Option NoteId) :
    (freeLoopStart s t n par).ch = s.ch := by
  funext j; simp [State.ch]

theorem chd_cons {s : State} (hr : Reachable s) {t : Tid} {pos : CPos} {stk : List Frame} {top : Top}
    (hpc : s.pc t = .chd pos stk top) : ∃ f rest, stk = f :: rest := by
  cases stk with
  | nil => exact absurd hpc (hr.inv6.2.2.2.2.1.chd_ne_nil t _ _)
  | cons f rest => exact ⟨f, rest, rfl⟩

/-! ### helper lemmas -/

theorem rest_afterDeadlinePc (s' : State) (n : NoteId) (nt : Dl) (k : DK) :
    phG (afterDeadlinePc n nt k) = 0 ∧ wG s' (afterDeadlinePc n nt k) = mj (afterDeadlinePc n nt k) := by
  cases k <;> simp only [afterDeadlinePc] <;> (repeat' split) <;> exact ⟨rfl, rfl⟩

theorem rest_afterNotifyPc (s' : State) (n : NoteId) (k : NK) :
    phG (afterNotifyPc n k) = 0 ∧ wG s' (afterNotifyPc n k) = mj (afterNotifyPc n k) := by
  cases k with
  | ofApi => exact ⟨rfl, rfl⟩
  | ofDeadline k => exact rest_afterDeadlinePc s' n (some 0) k

theorem restLt_mj {s s' : State} {p' p : PC} (h1 : phG p' = 0 ∧ wG s' p' = mj p')
    (h2 : phG p = 0 ∧ wG s p = mj p) (hlt : mj p' < mj p) :
    RestLt (phG p', (wG s' p', mn s' p')) (phG p, (wG s p, mn s p)) := by
  rw [h1.1, h1.2, h2.1, h2.2]; exact Or.inr ⟨rfl, Or.inl hlt⟩

theorem phG_freeLoopStartPc (cs : List NoteId) (n : NoteId) (par : Option NoteId) :
    phG (freeLoopStartPc cs n par) = 0 := by cases cs <;> rfl

theorem phG_childReturnPc (f : Frame) (rest : List Frame) (top : Top) :
    phG (childReturnPc f rest top) = 0 := by
  unfold childReturnPc
  cases rest with
  | cons g r => rfl
  | nil => cases top.par <;> rfl

theorem mn_childReturnPc_gen (s : State) (f : Frame) (rest : List Frame) (top : Top) :
    mn s (childReturnPc f rest top) = 0 := by
  unfold childReturnPc
  cases rest with
  | cons g r => rfl
  | nil => cases top.par <;> rfl

theorem chd_head_alloc {s : State} (hr : Reachable s) {t : Tid} {pos : CPos} {f : Frame}
    {rest : List Frame} {top : Top} (hpc : s.pc t = .chd pos (f :: rest) top) :
    (s.notes f.note).allocated = true := by
  have := hr.inv6.2.1.claim t
  rw [hpc] at this
  exact this.2.2.2.2.1

/-- Returning from an activation of `note_notify_child`. -/
theorem pop_lt {ch' ch : NoteId → List NoteId}
    (hmono : ∀ k nx, sufLen (ch' k) nx ≤ sufLen (ch k) nx) (f : Frame) (rest : List Frame)
    (top : Top) (hv : Nat) (h1 : 1 ≤ hv) :
    wGc ch' (childReturnPc f rest top) < top.k.after + 4 + hv + outerW ch rest := by
  unfold childReturnPc
  cases rest with
  | nil =>
    simp only [outerW]
    split <;> simp [wGc, mj, NPos.rk] <;> omega
  | cons g r =>
    simp only [wGc, headW, outerW]
    have h2 := outerW_mono hmono r
    have h3 := hmono g.note g.next
    have : KK * (sufLen (ch' g.note) g.next + 1) ≤ KK * (sufLen (ch g.note) g.next + 1) :=
      Nat.mul_le_mul_left _ (by omega)
    omega

theorem ch_childReturn_mono (s : State) (t : Tid) (f : Frame) (rest : List Frame) (top : Top) :
    ∀ k nx, sufLen ((childReturn s t f rest top).ch k) nx ≤ sufLen (s.ch k) nx := by
  intro k nx
  simp only [State.ch, childReturn_f_children]
  split
  · exact sufLen_erase _ _ _
  · exact Nat.le_refl _

/-- Starting the scan of the children. -/
theorem scanStart_lt (ch : NoteId → List NoteId) (f : Frame) (rest : List Frame) (top : Top) :
    ∀ cs, ch f.note = cs → cs.Nodup →
      wGc ch (childLoopStartPc cs f rest top) <
        top.k.after + 4 + (KK * (cs.length + 1) + 3) + outerW ch rest := by
  intro cs hcs hn
  cases cs with
  | nil => simp [childLoopStartPc, wGc, headW, KK]
  | cons c cs' =>
    simp only [childLoopStartPc, wGc, headW, hcs, sufLen_head hn, List.length_cons]
    simp [KK]; omega

theorem phG_childLoopStartPc (cs : List NoteId) (f : Frame) (rest : List Frame) (top : Top) :
    phG (childLoopStartPc cs f rest top) = 0 := by cases cs <;> rfl

theorem mn_childLoopStartPc (s : State) (cs : List NoteId) (f : Frame) (rest : List Frame) (top : Top) :
    mn s (childLoopStartPc cs f rest top) = 0 := by cases cs <;> rfl

/-- The next position of the wake loop. -/
theorem wakeNext_restLt (s s1 : State) (t : Tid) (f : Frame) (rest : List Frame) (top : Top)
    (hch : s1.ch = s.ch) (hw : (s1.notes f.note).waiters = (s.notes f.note).waiters)
    (hn : (s.ch f.note).Nodup) (hne : (s.notes f.note).waiters ≠ [] ∨ True) (m0 : Nat)
    (hm0 : m0 = 2 * (s.notes f.note).waiters.length) :
    RestLt (phG (childWakeNextPc s1 f rest top),
        (wG (childWakeNext s1 t f rest top) (childWakeNextPc s1 f rest top),
         mn (childWakeNext s1 t f rest top) (childWakeNextPc s1 f rest top)))
      (0, (top.k.after + 4 + (KK * ((s.ch f.note).length + 1) + 3) + outerW s.ch rest, m0)) := by
  have hch' : (childWakeNext s1 t f rest top).ch = s.ch := by rw [ch_childWakeNext, hch]
  unfold childWakeNextPc
  cases hws : (s1.notes f.note).waiters with
  | nil =>
    simp only
    rw [phG_childLoopStartPc]
    refine Or.inr ⟨rfl, Or.inl ?_⟩
    have hc : (s1.notes f.note).children = s.ch f.note := by
      have := congrFun hch f.note; simpa [State.ch] using this
    show wG _ _ < _
    unfold wG
    rw [hch', hc]
    exact scanStart_lt s.ch f rest top _ rfl hn
  | cons r ws =>
    simp only
    refine Or.inr ⟨rfl, Or.inr ⟨?_, ?_⟩⟩
    · dsimp only
      unfold wG
      rw [hch']
      rfl
    · simp only [mn, childWakeNext_f_waiters, if_true, hws, List.tail_cons]
      rw [hm0, ← hw, hws]
      simp; omega

theorem chd_next_restLt {s : State} (hr : Reachable s) {c p : NoteId} {f : Frame}
    {rest : List Frame} {top : Top} (hf : f.next = some p) (hp : p ∈ (s.notes f.note).children)
    (s' : State) (hch : s'.ch = s.ch) :
    RestLt (phG (.chd (.lockChild p) (⟨f.note, nextAfter (s.notes f.note).children p⟩ :: rest) top),
        (wG s' (.chd (.lockChild p) (⟨f.note, nextAfter (s.notes f.note).children p⟩ :: rest) top),
         mn s' (.chd (.lockChild p) (⟨f.note, nextAfter (s.notes f.note).children p⟩ :: rest) top)))
      (phG (.chd (.unlockChildRet c) (f :: rest) top),
        (wG s (.chd (.unlockChildRet c) (f :: rest) top),
         mn s (.chd (.unlockChildRet c) (f :: rest) top))) := by
  have := sufLen_next (hr.invForest.nodup f.note) hp
  have hc : ∀ k, (s'.notes k).children = (s.notes k).children := by
    intro k; have := congrFun hch k; simpa [State.ch] using this
  refine Or.inr ⟨rfl, Or.inl ?_⟩
  simp only [wG, wGc, headW, hch, hf, State.ch, hc]
  simp only [KK]; omega

theorem fr_next_restLt {s : State} (hr : Reachable s) {n c0 p : NoteId} {par : Option NoteId}
    (hp : p ∈ (s.notes n).children) (s' : State) (hch : s'.ch = s.ch) :
    RestLt (phG (.fr .lockChild n par p (nextAfter (s.notes n).children p)),
        (wG s' (.fr .lockChild n par p (nextAfter (s.notes n).children p)),
         mn s' (.fr .lockChild n par p (nextAfter (s.notes n).children p))))
      (phG (.fr .unlockChildRet n par c0 (some p)),
        (wG s (.fr .unlockChildRet n par c0 (some p)),
         mn s (.fr .unlockChildRet n par c0 (some p)))) := by
  have := sufLen_next (hr.invForest.nodup n) hp
  have hc : ∀ k, (s'.notes k).children = (s.notes k).children := by
    intro k; have := congrFun hch k; simpa [State.ch] using this
  refine Or.inr ⟨rfl, Or.inl ?_⟩
  simp only [wG, wGc, frW, hch, State.ch, hc]
  simp only [KK]; omega

theorem fr_drop_restLt (s s' : State) {n c : NoteId} {nx par : Option NoteId}
    (h : s'.ch n = (s.ch n).erase c) :
    RestLt (phG (.fr .unlockChild n par c nx),
        (wG s' (.fr .unlockChild n par c nx), mn s' (.fr .unlockChild n par c nx)))
      (phG (.fr .lockChildRet n par c nx),
        (wG s (.fr .lockChildRet n par c nx), mn s (.fr .lockChildRet n par c nx))) := by
  have := sufLen_erase (s.ch n) c nx
  refine Or.inr ⟨rfl, Or.inl ?_⟩
  simp only [wG, wGc, frW, h]
  simp only [KK]; omega

macro "rg_simp" : tactic => `(tactic| (
  simp only [GoodG, restR, setPc_pc, upd_same, afterDeadline_pc, afterNotify_pc, childReturn_pc,
    childWakeNext_pc, childScanStart_pc, freeLoopStart_pc, enterChild_pc, leave_pc, addUser_pc,
    markCalled_pc, markFreeing_pc, setAfter_pc, pushObs_pc, publish_pc, delUser_pc, modRec_pc,
    modNote_pc, markBorn_pc, setNow_pc, allocNote_pc, acquire_pc, release_pc, incDisc_pc,
    decDisc_pc, setWaiters_pc, setAdopted_pc, setExpiry_pc, setNotified_pc, markFreed_pc,
    eraseChild_pc, clearParent_pc, link_pc, unlink_pc, newExpiry_pc] at *))

macro "rg_dec" : tactic => `(tactic| (
  right; right; left
  simp [*, RestLt, Lex2, LexLt, wG, wGc, phG, frW, headW, outerW, mj, mn, DPos.rk, NPos.rk, CPos.rk,
    NewPos.rk, FPos.rk, W0Pos.rk, WPos.rk, DK.after, NK.after, KK]
  try omega))

theorem ownG_lockRet {s s' : State} {t : Tid}  (B : Nat) (hs : step s (.lockRet t) = .ok s')
    (hp : s.pc t ≠ .idle) (hr : Reachable s) (hB : ∀ k, (s.notes k).allocated = true → k < B)
    (hm : NoMalloc s) (hna : ¬ Adopts s (.lockRet t)) : GoodG B s s' t := by
  have hs0 := hs
  step_cases hs
  all_goals rg_simp
  all_goals (try (rg_dec; done))
  all_goals (try (exact absurd ‹s.pc t = PC.idle› hp))
  all_goals (try (
    obtain ⟨f, rest, rfl⟩ := chd_cons hr ‹s.pc t = PC.chd _ _ _›
    rg_dec; done))
  -- nsync_note_free starts its first scan
  · right; right; left; rw [‹s.pc t = _›]
    exact Or.inl (by rw [phG_freeLoopStartPc]; exact Nat.zero_lt_one)
  · right; right; left; rw [‹s.pc t = _›]
    exact Or.inl (by rw [phG_freeLoopStartPc]; exact Nat.zero_lt_one)
  -- adoption by the parent: excluded
  · exact absurd ⟨t, _, _, _, _, rfl, ‹s.pc t = _›, ‹_ = 0›⟩ hna
  -- a parentless note drops the child
  · right; right; left; rw [‹s.pc t = _›]
    exact fr_drop_restLt _ _ (by simp [State.ch])

theorem ownG_lockCall {s s' : State} {t : Tid} {k : NoteId} (B : Nat) (hs : step s (.lockCall t k) = .ok s')
    (hp : s.pc t ≠ .idle) (hr : Reachable s) (hB : ∀ k, (s.notes k).allocated = true → k < B)
    (hm : NoMalloc s) (hna : ¬ Adopts s (.lockCall t k)) : GoodG B s s' t := by
  have hs0 := hs
  step_cases hs
  all_goals rg_simp
  all_goals (try (rg_dec; done))
  all_goals (try (exact absurd ‹s.pc t = PC.idle› hp))
  all_goals (try (
    obtain ⟨f, rest, rfl⟩ := chd_cons hr ‹s.pc t = PC.chd _ _ _›
    rg_dec; done))

theorem ownG_unlockCall {s s' : State} {t : Tid} {k : NoteId} (B : Nat) (hs : step s (.unlockCall t k) = .ok s')
    (hp : s.pc t ≠ .idle) (hr : Reachable s) (hB : ∀ k, (s.notes k).allocated = true → k < B)
    (hm : NoMalloc s) (hna : ¬ Adopts s (.unlockCall t k)) : GoodG B s s' t := by
  have hs0 := hs
  step_cases hs
  all_goals rg_simp
  all_goals (try (rg_dec; done))
  all_goals (try (exact absurd ‹s.pc t = PC.idle› hp))
  all_goals (try (
    obtain ⟨f, rest, rfl⟩ := chd_cons hr ‹s.pc t = PC.chd _ _ _›
    rg_dec; done))

theorem ownG_unlockRet {s s' : State} {t : Tid}  (B : Nat) (hs : step s (.unlockRet t) = .ok s')
    (hp : s.pc t ≠ .idle) (hr : Reachable s) (hB : ∀ k, (s.notes k).allocated = true → k < B)
    (hm : NoMalloc s) (hna : ¬ Adopts s (.unlockRet t)) : GoodG B s s' t := by
  have hs0 := hs
  step_cases hs
  all_goals rg_simp
  all_goals (try (rg_dec; done))
  all_goals (try (exact absurd ‹s.pc t = PC.idle› hp))
  all_goals (try (
    obtain ⟨f, rest, rfl⟩ := chd_cons hr ‹s.pc t = PC.chd _ _ _›
    rg_dec; done))
  · right; right; left; rw [‹s.pc t = _›]
    exact restLt_mj (rest_afterDeadlinePc _ _ _ _) ⟨rfl, rfl⟩ (mj_after_lt_dl _ _ _ _ _ (by decide))
  · right; right; left; rw [‹s.pc t = _›]
    exact restLt_mj (rest_afterNotifyPc _ _ _) ⟨rfl, rfl⟩ (mj_afterNotify_lt _ _ _)
  · right; right; left; rw [‹s.pc t = _›]
    exact chd_next_restLt hr (by assumption) (by assumption) _ (by simp)
  · right; right; left; rw [‹s.pc t = _›]
    exact fr_next_restLt hr (by assumption) _ (by simp)

theorem ownG_tryCall {s s' : State} {t : Tid} {k : NoteId} (B : Nat) (hs : step s (.tryCall t k) = .ok s')
    (hp : s.pc t ≠ .idle) (hr : Reachable s) (hB : ∀ k, (s.notes k).allocated = true → k < B)
    (hm : NoMalloc s) (hna : ¬ Adopts s (.tryCall t k)) : GoodG B s s' t := by
  have hs0 := hs
  step_cases hs
  all_goals rg_simp
  all_goals (try (rg_dec; done))
  all_goals (try (exact absurd ‹s.pc t = PC.idle› hp))
  all_goals (try (
    obtain ⟨f, rest, rfl⟩ := chd_cons hr ‹s.pc t = PC.chd _ _ _›
    rg_dec; done))

theorem ownG_tryRet {s s' : State} {t : Tid} {ok : Bool} (B : Nat) (hs : step s (.tryRet t ok) = .ok s')
    (hp : s.pc t ≠ .idle) (hr : Reachable s) (hB : ∀ k, (s.notes k).allocated = true → k < B)
    (hm : NoMalloc s) (hna : ¬ Adopts s (.tryRet t ok)) : GoodG B s s' t := by
  have hs0 := hs
  step_cases hs
  all_goals rg_simp
  all_goals (try (rg_dec; done))
  all_goals (try (exact absurd ‹s.pc t = PC.idle› hp))
  all_goals (try (
    obtain ⟨f, rest, rfl⟩ := chd_cons hr ‹s.pc t = PC.chd _ _ _›
    rg_dec; done))
  · right; right; left; rw [‹s.pc t = _›]
    exact Or.inl (by rw [phG_freeLoopStartPc]; exact Nat.zero_lt_one)

theorem ownG_waitCall {s s' : State} {t : Tid} {k : NoteId} (B : Nat) (hs : step s (.waitCall t k) = .ok s')
    (hp : s.pc t ≠ .idle) (hr : Reachable s) (hB : ∀ k, (s.notes k).allocated = true → k < B)
    (hm : NoMalloc s) (hna : ¬ Adopts s (.waitCall t k)) : GoodG B s s' t := by
  have hs0 := hs
  step_cases hs
  all_goals rg_simp
  all_goals (try (rg_dec; done))
  all_goals (try (exact absurd ‹s.pc t = PC.idle› hp))
  all_goals (try (
    obtain ⟨f, rest, rfl⟩ := chd_cons hr ‹s.pc t = PC.chd _ _ _›
    rg_dec; done))

theorem ownG_waitRet {s s' : State} {t : Tid}  (B : Nat) (hs : step s (.waitRet t) = .ok s')
    (hp : s.pc t ≠ .idle) (hr : Reachable s) (hB : ∀ k, (s.notes k).allocated = true → k < B)
    (hm : NoMalloc s) (hna : ¬ Adopts s (.waitRet t)) : GoodG B s s' t := by
  have hs0 := hs
  step_cases hs
  all_goals rg_simp
  all_goals (try (rg_dec; done))
  all_goals (try (exact absurd ‹s.pc t = PC.idle› hp))
  all_goals (try (
    obtain ⟨f, rest, rfl⟩ := chd_cons hr ‹s.pc t = PC.chd _ _ _›
    rg_dec; done))
  -- note_notify_child returns
  · right; right; left; rw [‹s.pc t = _›]
    rw [phG_childReturnPc, mn_childReturnPc_gen]
    have hmono := ch_childReturn_mono (s.acquire (‹Frame›).note t) t ‹Frame› ‹List Frame› ‹Top›
    rw [ch_acquire] at hmono
    exact Or.inr ⟨rfl, Or.inl (pop_lt hmono _ _ _ 1 (Nat.le_refl _))⟩
  -- rescan: a `children_adopted` mark is cleared
  · right; left
    have hpc := ‹s.pc t = _›
    refine PG_lt_adopted B hr hs0 hm hna (hB _ (chd_head_alloc hr hpc)) ?_ (by simp)
    have hwd := ‹NoteRec.waitDone _ = true›
    simp only [NoteRec.waitDone, Bool.or_eq_true, decide_eq_true_eq] at hwd
    exact hwd.resolve_left ‹¬ _ = []›
  · right; right; left; rw [‹s.pc t = _›]
    rw [phG_childReturnPc, mn_childReturnPc_gen]
    have hmono := ch_childReturn_mono (s.acquire (‹Frame›).note t) t ‹Frame› ‹List Frame› ‹Top›
    rw [ch_acquire] at hmono
    exact Or.inr ⟨rfl, Or.inl (pop_lt hmono _ _ _ 1 (Nat.le_refl _))⟩
  · right; left
    have hpc := ‹s.pc t = _›
    refine PG_lt_adopted B hr hs0 hm hna (hB _ (chd_head_alloc hr hpc)) ?_ (by simp)
    have hwd := ‹NoteRec.waitDone _ = true›
    simp only [NoteRec.waitDone, Bool.or_eq_true, decide_eq_true_eq] at hwd
    exact hwd.resolve_left ‹¬ _ = []›
  · right; left
    have hcl := hr.inv6.2.2.2.2.1.claim t
    rw [‹s.pc t = _›] at hcl
    refine PG_lt_adopted B hr hs0 hm hna (hB _ hcl.1) ?_ (by simp)
    have hwd := ‹NoteRec.waitDone _ = true›
    simp only [NoteRec.waitDone, Bool.or_eq_true, decide_eq_true_eq] at hwd
    exact hwd.resolve_left ‹¬ _ = []›
  · right; left
    have hcl := hr.inv6.2.2.2.2.1.claim t
    rw [‹s.pc t = _›] at hcl
    refine PG_lt_adopted B hr hs0 hm hna (hB _ hcl.1) ?_ (by simp)
    have hwd := ‹NoteRec.waitDone _ = true›
    simp only [NoteRec.waitDone, Bool.or_eq_true, decide_eq_true_eq] at hwd
    exact hwd.resolve_left ‹¬ _ = []›

theorem ownG_ld {s s' : State} {t : Tid} {site : Site} {ord : Ord} {k : NoteId} {obs : Nat} (B : Nat) (hs : step s (.ld t site ord k obs) = .ok s')
    (hp : s.pc t ≠ .idle) (hr : Reachable s) (hB : ∀ k, (s.notes k).allocated = true → k < B)
    (hm : NoMalloc s) (hna : ¬ Adopts s (.ld t site ord k obs)) : GoodG B s s' t := by
  have hs0 := hs
  step_cases hs
  all_goals rg_simp
  all_goals (try (rg_dec; done))
  all_goals (try (exact absurd ‹s.pc t = PC.idle› hp))
  all_goals (try (
    obtain ⟨f, rest, rfl⟩ := chd_cons hr ‹s.pc t = PC.chd _ _ _›
    rg_dec; done))
  · right; right; left; rw [‹s.pc t = _›]
    exact restLt_mj (rest_afterDeadlinePc _ _ _ _) ⟨rfl, rfl⟩ (mj_ld1_flag _ _ _)
  · rename_i n nt dk _ _ _ _ _ _
    cases dk with
    | ready2 r wdl => right; right; right; exact ⟨_, _, _, _, ‹s.pc t = _›, by simpa using ‹¬ (s.notes n).notified = true›⟩
    | _ => rg_dec
  · right; right; left; rw [‹s.pc t = _›]
    rw [phG_childReturnPc, mn_childReturnPc_gen]
    have hmono := ch_childReturn_mono s t ‹Frame› ‹List Frame› ‹Top›
    exact Or.inr ⟨rfl, Or.inl (pop_lt hmono _ _ _ 5 (by decide))⟩

theorem ownG_stNote {s s' : State} {t : Tid} {site : Site} {ord : Ord} {k : NoteId} {new obs : Nat} (B : Nat) (hs : step s (.stNote t site ord k new obs) = .ok s')
    (hp : s.pc t ≠ .idle) (hr : Reachable s) (hB : ∀ k, (s.notes k).allocated = true → k < B)
    (hm : NoMalloc s) (hna : ¬ Adopts s (.stNote t site ord k new obs)) : GoodG B s s' t := by
  have hs0 := hs
  step_cases hs
  all_goals rg_simp
  all_goals (try (rg_dec; done))
  all_goals (try (exact absurd ‹s.pc t = PC.idle› hp))
  all_goals (try (
    obtain ⟨f, rest, rfl⟩ := chd_cons hr ‹s.pc t = PC.chd _ _ _›
    rg_dec; done))
  -- the flag is stored
  · right; left
    have hpc := ‹s.pc t = _›
    have hf := hr.invF t
    rw [hpc] at hf
    obtain ⟨_, _, hk, _⟩ := ‹_ = Site.childSt ∧ _›
    subst hk
    exact PG_lt_flag B hr hs0 hm hna (hB _ ‹_›) ‹_› hf (by simp)

theorem ownG_stW {s s' : State} {t : Tid} {site : Site} {ord : Ord} {r : Rid} {new obs : Nat} (B : Nat) (hs : step s (.stW t site ord r new obs) = .ok s')
    (hp : s.pc t ≠ .idle) (hr : Reachable s) (hB : ∀ k, (s.notes k).allocated = true → k < B)
    (hm : NoMalloc s) (hna : ¬ Adopts s (.stW t site ord r new obs)) : GoodG B s s' t := by
  have hs0 := hs
  step_cases hs
  all_goals rg_simp
  all_goals (try (rg_dec; done))
  all_goals (try (exact absurd ‹s.pc t = PC.idle› hp))
  all_goals (try (
    obtain ⟨f, rest, rfl⟩ := chd_cons hr ‹s.pc t = PC.chd _ _ _›
    rg_dec; done))

theorem ownG_ret {s s' : State} {t : Tid} {r : ApiRet} (B : Nat) (hs : step s (.ret t r) = .ok s')
    (hp : s.pc t ≠ .idle) (hr : Reachable s) (hB : ∀ k, (s.notes k).allocated = true → k < B)
    (hm : NoMalloc s) (hna : ¬ Adopts s (.ret t r)) : GoodG B s s' t := by
  have hs0 := hs
  step_cases hs
  all_goals rg_simp
  all_goals (try (rg_dec; done))
  all_goals (try (exact absurd ‹s.pc t = PC.idle› hp))
  all_goals (try (
    obtain ⟨f, rest, rfl⟩ := chd_cons hr ‹s.pc t = PC.chd _ _ _›
    rg_dec; done))

theorem ownG_waitnCall {s s' : State} {t : Tid} {d : Dl} (B : Nat) (hs : step s (.waitnCall t d) = .ok s')
    (hp : s.pc t ≠ .idle) (hr : Reachable s) (hB : ∀ k, (s.notes k).allocated = true → k < B)
    (hm : NoMalloc s) (hna : ¬ Adopts s (.waitnCall t d)) : GoodG B s s' t := by
  have hs0 := hs
  step_cases hs
  all_goals rg_simp
  all_goals (try (rg_dec; done))
  all_goals (try (exact absurd ‹s.pc t = PC.idle› hp))
  all_goals (try (
    obtain ⟨f, rest, rfl⟩ := chd_cons hr ‹s.pc t = PC.chd _ _ _›
    rg_dec; done))

theorem ownG_waitnRet {s s' : State} {t : Tid} {rd : Nat} (B : Nat) (hs : step s (.waitnRet t rd) = .ok s')
    (hp : s.pc t ≠ .idle) (hr : Reachable s) (hB : ∀ k, (s.notes k).allocated = true → k < B)
    (hm : NoMalloc s) (hna : ¬ Adopts s (.waitnRet t rd)) : GoodG B s s' t := by
  have hs0 := hs
  step_cases hs
  all_goals rg_simp
  all_goals (try (rg_dec; done))
  all_goals (try (exact absurd ‹s.pc t = PC.idle› hp))
  all_goals (try (
    obtain ⟨f, rest, rfl⟩ := chd_cons hr ‹s.pc t = PC.chd _ _ _›
    rg_dec; done))

theorem ownG_now {s s' : State} {t : Tid} {v : Nat} (B : Nat) (hs : step s (.now t v) = .ok s')
    (hp : s.pc t ≠ .idle) (hr : Reachable s) (hB : ∀ k, (s.notes k).allocated = true → k < B)
    (hm : NoMalloc s) (hna : ¬ Adopts s (.now t v)) : GoodG B s s' t := by
  have hs0 := hs
  step_cases hs
  all_goals rg_simp
  all_goals (try (rg_dec; done))
  all_goals (try (exact absurd ‹s.pc t = PC.idle› hp))
  all_goals (try (
    obtain ⟨f, rest, rfl⟩ := chd_cons hr ‹s.pc t = PC.chd _ _ _›
    rg_dec; done))
  · right; right; left; rw [‹s.pc t = _›]
    exact restLt_mj (rest_afterDeadlinePc _ _ _ _) ⟨rfl, rfl⟩ (mj_after_lt_dl _ _ _ _ _ (by decide))

theorem ownG_semV {s s' : State} {t : Tid} {sem : Nat} (B : Nat) (hs : step s (.semV t sem) = .ok s')
    (hp : s.pc t ≠ .idle) (hr : Reachable s) (hB : ∀ k, (s.notes k).allocated = true → k < B)
    (hm : NoMalloc s) (hna : ¬ Adopts s (.semV t sem)) : GoodG B s s' t := by
  have hs0 := hs
  step_cases hs
  all_goals rg_simp
  all_goals (try (rg_dec; done))
  all_goals (try (exact absurd ‹s.pc t = PC.idle› hp))
  all_goals (try (
    obtain ⟨f, rest, rfl⟩ := chd_cons hr ‹s.pc t = PC.chd _ _ _›
    rg_dec; done))
  · right; right; left; rw [‹s.pc t = _›]
    exact wakeNext_restLt s _ t _ _ _ (by simp) (by simp) (hr.invForest.nodup _) (Or.inr trivial)
      _ rfl

theorem ownG_pdEnter {s s' : State} {t : Tid} {sem : Nat} {d : Dl} (B : Nat) (hs : step s (.pdEnter t sem d) = .ok s')
    (hp : s.pc t ≠ .idle) (hr : Reachable s) (hB : ∀ k, (s.notes k).allocated = true → k < B)
    (hm : NoMalloc s) (hna : ¬ Adopts s (.pdEnter t sem d)) : GoodG B s s' t := by
  have hs0 := hs
  step_cases hs
  all_goals rg_simp
  all_goals (try (rg_dec; done))
  all_goals (try (exact absurd ‹s.pc t = PC.idle› hp))
  all_goals (try (
    obtain ⟨f, rest, rfl⟩ := chd_cons hr ‹s.pc t = PC.chd _ _ _›
    rg_dec; done))

theorem ownG_pdRet {s s' : State} {t : Tid} {sem : Nat} {b : Bool} (B : Nat) (hs : step s (.pdRet t sem b) = .ok s')
    (hp : s.pc t ≠ .idle) (hr : Reachable s) (hB : ∀ k, (s.notes k).allocated = true → k < B)
    (hm : NoMalloc s) (hna : ¬ Adopts s (.pdRet t sem b)) : GoodG B s s' t := by
  have hs0 := hs
  step_cases hs
  all_goals rg_simp
  all_goals (try (rg_dec; done))
  all_goals (try (exact absurd ‹s.pc t = PC.idle› hp))
  all_goals (try (
    obtain ⟨f, rest, rfl⟩ := chd_cons hr ‹s.pc t = PC.chd _ _ _›
    rg_dec; done))

theorem ownG_malloc {s s' : State} {t : Tid} {res : Option NoteId} (B : Nat) (hs : step s (.malloc t res) = .ok s')
    (hp : s.pc t ≠ .idle) (hr : Reachable s) (hB : ∀ k, (s.notes k).allocated = true → k < B)
    (hm : NoMalloc s) (hna : ¬ Adopts s (.malloc t res)) : GoodG B s s' t := by
  have hs0 := hs
  step_cases hs
  all_goals rg_simp
  all_goals (try (rg_dec; done))
  all_goals (try (exact absurd ‹s.pc t = PC.idle› hp))
  all_goals (try (
    obtain ⟨f, rest, rfl⟩ := chd_cons hr ‹s.pc t = PC.chd _ _ _›
    rg_dec; done))

theorem ownG_free {s s' : State} {t : Tid} {k : NoteId} (B : Nat) (hs : step s (.free t k) = .ok s')
    (hp : s.pc t ≠ .idle) (hr : Reachable s) (hB : ∀ k, (s.notes k).allocated = true → k < B)
    (hm : NoMalloc s) (hna : ¬ Adopts s (.free t k)) : GoodG B s s' t := by
  have hs0 := hs
  step_cases hs
  all_goals rg_simp
  all_goals (try (rg_dec; done))
  all_goals (try (exact absurd ‹s.pc t = PC.idle› hp))
  all_goals (try (
    obtain ⟨f, rest, rfl⟩ := chd_cons hr ‹s.pc t = PC.chd _ _ _›
    rg_dec; done))

end Note
