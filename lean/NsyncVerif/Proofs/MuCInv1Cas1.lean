import NsyncVerif.Proofs.MuCInv1Tac
/-
  MuC, first invariant group: the CAS steps of lock / trylock / lock_slow / unlock.
-/
namespace NsyncVerif.MuC

theorem blocked_W_false {ign : Bool} {w : Word} (h : blocked .W ign w = false) : w.wlock = false ∧ w.readers = 0 := by
  simp [blocked] at h; exact ⟨h.1.1, h.1.2⟩

theorem blocked_R_false {ign : Bool} {w : Word} (h : blocked .R ign w = false) : w.wlock = false := by
  simp [blocked] at h; exact h.1

/-- An acquiring CAS `word → acqWord l clear lwl word` by a thread without a share. -/
theorem LockInv.acquire {s s' : State} {t : Tid} {l : Mode} {ign clear lwl : Bool} (h : LockInv s)
    (hn : shareOf s t = none) (hb : blocked l ign s.word = false)
    (hw : s'.word = acqWord l clear lwl s.word)
    (ho : s'.wOwner = (addShare s t l).wOwner) (hro : s'.rOwners = (addShare s t l).rOwners)
    (h5 : shareOf s' t = some l) (h6 : ∀ u, u ≠ t → shareOf s' u = shareOf s u) : LockInv s' := by
  cases l with
  | W =>
    obtain ⟨b1, b2⟩ := blocked_W_false hb
    exact h.acquireW hn b1 b2 (by rw [hw]; rfl) (by rw [hw]; exact b2) ho hro h5 h6
  | R =>
    have b1 := blocked_R_false hb
    exact h.acquireR hn b1 (by rw [hw]; exact b1) (by rw [hw]; rfl) ho hro h5 h6

/-- A releasing CAS that takes the share `l` of thread `t` out of the word. -/
theorem LockInv.release {s s' : State} {t : Tid} {l : Mode} (h : LockInv s)
    (ht : shareOf s t = some l)
    (h1 : s'.word.wlock = (subWord l s.word).wlock) (h2 : s'.word.readers = (subWord l s.word).readers)
    (ho : s'.wOwner = (subShare s t l).wOwner) (hro : s'.rOwners = (subShare s t l).rOwners)
    (h5 : shareOf s' t = none) (h6 : ∀ u, u ≠ t → shareOf s' u = shareOf s u) : LockInv s' := by
  cases l with
  | W =>
    exact h.releaseW ht h1 h2 ho hro h5 h6
  | R =>
    exact h.releaseR ht h1 h2 ho hro h5 h6

theorem inv1_stepCas1 {s s' : State} {t : Tid} {o : Ord} {loc : Loc} {exp new obs : Nat} {ok : Bool} (h : Inv1 s)
    (hp : match s.pc t with
      | .lkCas0 _ | .lkCas1 _ _ | .tryCas0 _ | .tryCas1 _ _ | .lsCasAcq _ _ | .lsCasEnq _ _ | .lsRelCas _ _
      | .ulCas0 _ _ | .ulCas1 _ _ _ => True
      | _ => False)
    (hs : stepCas s t o loc exp new obs ok = .ok s') : Inv1 s' := by
  unfold stepCas at hs
  split at hs
  all_goals try (rename_i heq; rw [heq] at hp; exact False.elim hp)
  all_goals try (rename_i hne; split at hp <;> first | exact False.elim hp | (exfalso; simp_all; done))
  · -- lkCas0
    rename_i l heq
    rcases casWord_ok hs with ⟨hw, -, rfl⟩ | ⟨-, -, rfl⟩
    · inv1_step t h heq
      refine h.lock.acquire (l := l) (ign := false) (clear := false) (lwl := false) (by sh_old t h heq) (by rw [hw]; cases l <;> rfl)
        (by simp [hw]; cases l <;> rfl) (by cases l <;> rfl) (by cases l <;> rfl) (by sh_new t h heq) (by sh_oth)
    · inv1_local t h heq
  · -- lkCas1
    rename_i l old heq
    have hok0 := h.pcok t; rw [heq] at hok0
    rcases casWord_ok hs with ⟨hw, -, rfl⟩ | ⟨-, -, rfl⟩
    · inv1_step t h heq
      refine h.lock.acquire (l := l) (ign := false) (clear := false) (lwl := false) (by sh_old t h heq) (by rw [hw]; exact hok0)
        (by simp [hw]) (by cases l <;> rfl) (by cases l <;> rfl) (by sh_new t h heq) (by sh_oth)
    · inv1_local t h heq
  · -- tryCas0
    rename_i l heq
    rcases casWord_ok hs with ⟨hw, -, rfl⟩ | ⟨-, -, rfl⟩
    · inv1_step t h heq
      refine h.lock.acquire (l := l) (ign := false) (clear := false) (lwl := false) (by sh_old t h heq) (by rw [hw]; cases l <;> rfl)
        (by simp [hw]; cases l <;> rfl) (by cases l <;> rfl) (by cases l <;> rfl) (by sh_new t h heq) (by sh_oth)
    · inv1_local t h heq
  · -- tryCas1
    rename_i l old heq
    have hok0 := h.pcok t; rw [heq] at hok0
    rcases casWord_ok hs with ⟨hw, -, rfl⟩ | ⟨-, -, rfl⟩
    · inv1_step t h heq
      refine h.lock.acquire (l := l) (ign := false) (clear := false) (lwl := false) (by sh_old t h heq) (by rw [hw]; exact hok0)
        (by simp [hw]) (by cases l <;> rfl) (by cases l <;> rfl) (by sh_new t h heq) (by sh_oth)
    · inv1_local t h heq
  · -- lsCasAcq
    rename_i c old heq
    have hok0 := h.pcok t; rw [heq] at hok0
    rcases casWord_ok hs with ⟨hw, -, rfl⟩ | ⟨-, -, rfl⟩
    · cases hmw : c.mw with
      | none =>
        inv1_step t h heq
        refine h.lock.acquire (l := c.l) (ign := c.ign) (clear := c.clear) (lwl := c.lwl) (by sh_old t h heq) (by rw [hw]; exact hok0.2)
          (by simp [hw]) (by cases c.l <;> simp) (by cases c.l <;> simp) (by sh_new t h heq) (by sh_oth)
      | some m =>
        have hif : ∀ s1 : State, (if m.cond.isSome = true then setPc s1 t (PC.mwEval m) else mwLoop s1 t m true)
            = setPc s1 t (if m.cond.isSome = true then PC.mwEval m else loopPc m true) := by
          intro s1; split <;> simp [mwLoop_eq]
        simp only [hif]
        have hml : c.l = m.l := by simp [PC.ok, SL.okL, hmw] at hok0; exact hok0.1.2.2
        have hmok : m.ok := by simp [PC.ok, SL.okL, hmw] at hok0; exact hok0.1.1
        refine Inv1.step t h (by simp) (by intro u hu; simp [setFn, hu]) (by rw [heq]; simp) ?_ ?_
        · simp only [addShare_pc, setPc_pc, setFn_same]
          split
          · exact hmok
          · simp only [loopPc]; split
            · rename_i hc; exact absurd hc.2 (by simp)
            · exact ⟨hmok, by simp⟩
        · refine h.lock.acquire (l := c.l) (ign := c.ign) (clear := c.clear) (lwl := c.lwl) (by sh_old t h heq) (by rw [hw]; exact hok0.2)
            (by simp [hw]) (by cases c.l <;> simp) (by cases c.l <;> simp) ?_ (by sh_oth)
          have hheld := h.held_none (t := t) (by rw [heq]; simp)
          simp only [shareOf, addShare_held, setPc_held, hheld, tshare, addShare_pc, setPc_pc, setFn_same]
          split
          · simp [pcShare, hml]
          · simp only [loopPc]; split <;> simp [pcShare, hml]
    · inv1_local t h heq
  · -- lsCasEnq
    rename_i c old heq
    rcases casWord_ok hs with ⟨hw, -, rfl⟩ | ⟨-, -, rfl⟩
    · refine Inv1.local t h (by simp [hw, enqWord]) (by simp [hw, enqWord]) (by simp) (by simp) (by simp)
        (by intro u hu; simp [setFn, hu]) (by rw [heq]; simp) ?_ (by rw [heq]; simp [pcShare])
      have hok := h.pcok t; rw [heq] at hok; simpa [PC.ok] using hok
    · inv1_local t h heq
  · -- lsRelCas
    rename_i c old heq
    rcases casWord_ok hs with ⟨hw, -, rfl⟩ | ⟨-, -, rfl⟩
    · refine Inv1.local t h (by simp [hw]) (by simp [hw]) (by simp) (by simp) (by simp)
        (by intro u hu; simp [setFn, hu]) (by rw [heq]; simp) ?_ (by rw [heq]; simp [pcShare])
      have hok := h.pcok t; rw [heq] at hok; simpa [PC.ok] using hok
    · inv1_local t h heq
  · -- ulCas0
    rename_i l nwk heq
    rcases casWord_ok hs with ⟨hw, -, rfl⟩ | ⟨-, -, rfl⟩
    · inv1_step t h heq
      refine h.lock.release (l := l) (by sh_old t h heq) (by simp [hw]; cases l <;> rfl) (by simp [hw]; cases l <;> rfl)
        (by cases l <;> rfl) (by cases l <;> rfl) (by sh_new t h heq) (by sh_oth)
    · inv1_local t h heq
  · -- ulCas1
    rename_i l nwk old heq
    rcases casWord_ok hs with ⟨hw, -, rfl⟩ | ⟨-, -, rfl⟩
    · inv1_step t h heq
      refine h.lock.release (l := l) (by sh_old t h heq) ?_ ?_
        (by cases l <;> rfl) (by cases l <;> rfl) (by sh_new t h heq) (by sh_oth)
      · simp [hw]; cases nwk <;> cases l <;> rfl
      · simp [hw]; cases nwk <;> cases l <;> rfl
    · inv1_local t h heq

end NsyncVerif.MuC
