/-
  Layer `Note`, waiter records (the `nw<r>` part of the model, the `wait_n` path of
  `nsync_note_wait`): how one accepted step changes a note's `waiters` list and a waiter record.
-/
import NsyncVerif.Proofs.NoteInvJ

set_option linter.unusedSimpArgs false

namespace Note

/-- The waiter record a continuation of `nsync_note_notified_deadline_` belongs to. -/
def DK.rid : DK → Option Rid
  | .ready2 r _ | .dequeue r _ => some r
  | _ => none

def NK.rid : NK → Option Rid
  | .ofApi => none
  | .ofDeadline k => k.rid

/-- The waiter record of the `nsync_note_wait` call the thread is in (once the record exists), with
    the note waited for. -/
def PC.rid : PC → Option (Rid × NoteId)
  | .dl _ n _ k => k.rid.map (fun r => (r, n))
  | .nfy _ n _ k => k.rid.map (fun r => (r, n))
  | .chd _ _ top => top.k.rid.map (fun r => (r, top.n))
  | .wt _ n _ r => some (r, n)
  | _ => none

/-- The thread is inside the wait loop of `nsync_wait_n` on record `r` (after `note_enqueue`
    released the note's mutex, before the decision to dequeue). -/
def DK.loopRid : DK → Option Rid
  | .ready2 r _ => some r
  | _ => none

def NK.loopRid : NK → Option Rid
  | .ofApi => none
  | .ofDeadline k => k.loopRid

def WPos.inLoop : WPos → Bool
  | .eUnlockCall | .eUnlockRet | .pdEnter _ | .pdRet _ => true
  | _ => false

/-- About to sleep / asleep on the semaphore. -/
def WPos.sleeps : WPos → Bool
  | .pdEnter _ | .pdRet _ => true
  | _ => false

def PC.loopRid : PC → Option Rid
  | .dl _ _ _ k => k.loopRid
  | .nfy _ _ _ k => k.loopRid
  | .chd _ _ top => top.k.loopRid
  | .wt p _ _ r => bif p.inLoop then some r else none
  | _ => none

/-- The thread is about to sleep / asleep on the semaphore of record `r`, or has computed a
    positive `ready_time` for the note and is on its way to the semaphore: positions that are
    reached only with a record that has really been queued. -/
def PC.mustQ : PC → Option Rid
  | .dl pos _ nt k => if pos.late = true ∧ nt.pos then k.loopRid else none
  | .wt p _ _ r => bif p.sleeps then some r else none
  | _ => none

/-- The thread is inside the loop of `note_notify_child (d, …)` that wakes the waiters of `d`
    (note.c:90-95): it holds `d->note_mu`, has stored the flag, and has unlinked a record whose
    `waiting` word / semaphore it is about to write. -/
def WakeLoop (pc : PC) (d : NoteId) : Prop :=
  ∃ pos f rest top r, pc = .chd pos (f :: rest) top ∧ f.note = d ∧ (pos = .wake r ∨ pos = .semV r)

theorem WakeLoop.active {pc : PC} {d : NoteId} (h : WakeLoop pc d) : Active pc d := by
  obtain ⟨pos, f, rest, top, r, rfl, hf, hp⟩ := h
  rcases hp with rfl | rfl <;> exact Or.inl ⟨hf, rfl⟩

theorem Dl.min_zero_right (a : Dl) : Dl.min a (some 0) = some 0 := by
  cases a with
  | none => simp [Dl.min, Dl.lt]
  | some x =>
    by_cases h : 0 < x
    · simp [Dl.min, Dl.lt, h]
    · have : x = 0 := by omega
      subst this; simp [Dl.min, Dl.lt]

theorem Dl.pos_of_min_pos {a b : Dl} (h : (Dl.min a b).pos) : b.pos := by
  intro hb
  subst hb
  exact h (Dl.min_zero_right a)

/-- The note whose first waiter the thread unlinks with its next step (note.c:91-92). -/
def PC.pops : PC → Option NoteId
  | .chd .st (f :: _) _ => some f.note
  | .chd (.semV _) (f :: _) _ => some f.note
  | _ => none

/-- The waiter record the thread writes with its next step. -/
def PC.touch : PC → Option Rid
  | .chd (.wake r) _ _ | .chd (.semV r) _ _ => some r
  | .wt (.eSt _) _ _ r | .wt .qSt _ _ r | .wt (.pdEnter _) _ _ r => some r
  | _ => none

/-! ### How a step changes a `waiters` list -/

/-- Close the "unchanged" alternative of `step_waiters`. -/
macro "nrel_wsame" : tactic => `(tactic| (
  left
  refine ⟨?_, fun a ha => ?_⟩
  · first | rfl | simp [*]
  · simp only [Event.actor, Option.some.injEq, reduceCtorEq] at ha
    try (subst ha; simp [*, PC.pops]; done)))

theorem step_waiters {s s' : State} {e : Event} (hs : step s e = .ok s') (d : NoteId) :
    ((s'.notes d).waiters = (s.notes d).waiters ∧
      ∀ a, e.actor = some a → (s.pc a).pops ≠ some d) ∨
    (∃ a wdl r, e.actor = some a ∧ s.pc a = .wt .eLd d wdl r ∧ (s.notes d).notified = false ∧
      (s'.notes d).waiters = (s.notes d).waiters ++ [r] ∧ s'.pc a = .wt (.eSt true) d wdl r) ∨
    (∃ a wdl r, e.actor = some a ∧ s.pc a = .wt .qLd d wdl r ∧ (s.notes d).notified = false ∧
      (s'.notes d).waiters = (s.notes d).waiters.erase r ∧ s'.pc a = .wt .qSt d wdl r) ∨
    (∃ a pos f rest top, e.actor = some a ∧ s.pc a = .chd pos (f :: rest) top ∧ f.note = d ∧
      (pos = .st ∨ ∃ r, pos = .semV r) ∧ (s'.notes d).waiters = (s.notes d).waiters.tail ∧
      (∀ r ws, (s.notes d).waiters = r :: ws → s'.pc a = .chd (.wake r) (f :: rest) top)) ∨
    (∃ a, e.actor = some a ∧ (s.notes d).allocated = false ∧ (s'.notes d).waiters = []) := by
  have hflag : ∀ k, (s.notes k).ntime.pos → (s.notes k).notified = false := by
    intro k h
    cases hk : (s.notes k).notified with
    | false => rfl
    | true => exact absurd h (by simp [NoteRec.ntime, hk, Dl.pos])
  cases e
  all_goals step_cases hs
  all_goals (try (nrel_wsame; done))
  all_goals (repeat' split)
  all_goals (try (nrel_wsame; done))
  -- note_enqueue appends the record
  · rename_i n wdl r hpc hpos _ _ _ hk
    by_cases hd : d = n
    · subst hd
      right; left
      exact ⟨_, wdl, r, rfl, hpc, hflag _ hpos, by simp, by simp⟩
    · refine Or.inl ⟨by simp [hd], fun a ha => ?_⟩
      simp only [Event.actor, Option.some.injEq] at ha
      subst ha
      simp [*, PC.pops]
      try (exact fun h => hd h.symm)
  -- note_dequeue removes it
  · rename_i n wdl r hpc hpos _ _ _ hk
    by_cases hd : d = n
    · subst hd
      right; right; left
      exact ⟨_, wdl, r, rfl, hpc, hflag _ hpos, by simp, by simp⟩
    · refine Or.inl ⟨by simp [hd], fun a ha => ?_⟩
      simp only [Event.actor, Option.some.injEq] at ha
      subst ha
      simp [*, PC.pops]
      try (exact fun h => hd h.symm)
  -- the store of the flag: the first waiter is unlinked
  · rename_i f rest top hpc _ hk _
    by_cases hd : d = f.note
    · subst hd
      right; right; right; left
      refine ⟨_, _, f, rest, top, rfl, hpc, rfl, Or.inl rfl, by simp, ?_⟩
      intro r ws hw
      simp [childWakeNextPc, hw]
    · refine Or.inl ⟨by simp [hd], fun a ha => ?_⟩
      simp only [Event.actor, Option.some.injEq] at ha
      subst ha
      simp [*, PC.pops]
      try (exact fun h => hd h.symm)
  -- after a V: the next waiter is unlinked
  · rename_i r0 f rest top hpc _
    by_cases hd : d = f.note
    · subst hd
      right; right; right; left
      refine ⟨_, _, f, rest, top, rfl, hpc, rfl, Or.inr ⟨r0, rfl⟩, by simp, ?_⟩
      intro r ws hw
      simp [childWakeNextPc, hw]
    · refine Or.inl ⟨by simp [hd], fun a ha => ?_⟩
      simp only [Event.actor, Option.some.injEq] at ha
      subst ha
      simp [*, PC.pops]
      try (exact fun h => hd h.symm)
  -- malloc
  · rename_i p hfresh
    by_cases hd : d = p
    · subst hd
      right; right; right; right
      exact ⟨_, rfl, hfresh, by simp [NoteRec.blank]⟩
    · refine Or.inl ⟨by simp [hd], fun a ha => ?_⟩
      simp only [Event.actor, Option.some.injEq] at ha
      subst ha
      simp [*, PC.pops]
      try (exact fun h => hd h.symm)

end Note
