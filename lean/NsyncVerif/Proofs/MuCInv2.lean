import NsyncVerif.Proofs.MuCInv1Api
/-
  MuC: the second invariant group — facts about the locals of nsync_mu_wait_with_deadline that depend
  on the clock and on the client data: a recorded timeout implies that the deadline has been reached;
  the `condition_is_true` with which the call is about to return is the value of the condition on
  the current data.
-/
namespace NsyncVerif.MuC

def Ret.mw? : Ret → Option MW
  | .ul _ _ => none
  | .mw c => some c

/-- The locals of the nsync_mu_wait_with_deadline call in progress (also while it is inside
    lock_slow / unlock_slow). -/
def PC.mw : PC → Option MW
  | .lsLd c | .lsCasAcq c _ | .lsCasEnq c _ | .lsSt c | .lsRelLd c | .lsRelCas c _ | .lsWaitLd c | .lsPEnter c | .lsPRet c => c.mw
  | .usLd r | .usCasUnc r _ | .usCasGrab r _ | .usRelLd r _ | .usRelCas r _ _ | .usEval r _ | .usRcLd r _ _ | .usRcCas r _ _ _
  | .usReLd r _ | .usReCas r _ _ | .usFinLd r _ | .usFinCas r _ _ | .usWakeSt r _ _ | .usWakeV r _ _ => r.mw?
  | .mwLd0 c | .mwEval c | .mwStW c | .mwRcLd c | .mwEnqLd c | .mwEnqCas c _ | .mwRelLd c | .mwRelCas c _ _ | .mwWaitLd c
  | .mwSem c | .mwPdRet c _ | .mwNotify c | .mwLd244 c | .mwLd255 c | .mwRet c _
  | .mtLd c | .mtCasAcq c _ | .mtCasWW c _ | .mtLdWk c _ | .mtLdW c _ | .mtLdRc c _ | .mtRmLd c _ | .mtRmCas c _ _ | .mtStW c _ | .mtStRel c _ _ => some c
  | _ => none

/-- A recorded timeout implies that the deadline has been reached. -/
def TimeOk (now : Int) (c : MW) : Prop :=
  (c.so = .timedout → ∃ d, c.dl = some d ∧ d ≤ now) ∧ (c.outc = .timedout → ∃ d, c.dl = some d ∧ d ≤ now)

def PC.ok2 (data : Nat → Int) (now : Int) (p : PC) : Prop :=
  (∀ c, p.mw = some c → TimeOk now c) ∧ (∀ c cit, p = .mwRet c cit → cit = evalOpt data c.cond)

def Inv2 (s : State) : Prop := ∀ t, (s.pc t).ok2 s.data s.now

theorem Inv2.local {s s' : State} (t : Tid) (h : Inv2 s) (hd : s'.data = s.data) (hn : s'.now = s.now)
    (hpc : ∀ u, u ≠ t → s'.pc u = s.pc u) (hok : (s'.pc t).ok2 s.data s.now) : Inv2 s' := by
  intro u
  rw [hd, hn]
  by_cases hu : u = t
  · subst hu; exact hok
  · rw [hpc u hu]; exact h u

theorem ScanPc.mw {r : Ret} {late : Bool} {p : PC} (h : ScanPc r late p) : p.mw = r.mw? := by
  cases p <;> simp [ScanPc] at h <;> simp [PC.mw, h]

theorem ScanPc.not_ret {r : Ret} {late : Bool} {p : PC} (h : ScanPc r late p) (c : MW) (cit : Bool) : p ≠ .mwRet c cit := by
  cases p <;> simp [ScanPc] at h <;> simp

/-- A step that ends in the plain code of the scan. -/
theorem Inv2.scan {s s' : State} {r : Ret} {late : Bool} (t : Tid) (h : Inv2 s) (hd : s'.data = s.data) (hn : s'.now = s.now)
    (hpc : ∀ u, u ≠ t → s'.pc u = s.pc u) (hmw : (s.pc t).mw = r.mw?) (hp : ScanPc r late (s'.pc t)) : Inv2 s' := by
  refine Inv2.local t h hd hn hpc ⟨?_, ?_⟩
  · intro c hc; rw [hp.mw, ← hmw] at hc; exact (h t).1 c hc
  · intro c cit hc; exact absurd hc (hp.not_ret c cit)

/-- Close a goal `Inv2 s'` for a step of thread `t` that changes neither data nor clock. -/
macro "inv2_local" t:ident h:ident heq:ident : tactic => `(tactic|
  (have hok := $h $t
   rw [$heq:ident] at hok
   refine Inv2.local $t $h (by simp) (by simp) (by intro u hu; simp [setFn, hu]) ?_
   (simp_all [PC.ok2, PC.mw, Ret.mw?, TimeOk, SL.entry, SL.fromWait, SL.woken, loopPc, finPc, Ret.pc, evalOpt]) <;> grind))

macro "ld_case2" t:ident h:ident heq:ident hs:ident : tactic => `(tactic|
  (try dsimp only at $hs:ident
   try simp only [ldWord, ldWaiting, casWord] at $hs:ident
   repeat' split at $hs:ident
   all_goals first
     | (cases $hs:ident; done)
     | (cases $hs:ident; inv2_local $t $h $heq)
     | (cases $hs:ident; split <;> inv2_local $t $h $heq)))

theorem inv2_stepLd {s s' : State} {t : Tid} {o : Ord} {loc : Loc} {obs : Nat} (h : Inv2 s)
    (hs : stepLd s t o loc obs = .ok s') : Inv2 s' := by
  unfold stepLd at hs
  split at hs
  all_goals first
    | (rename_i heq; ld_case2 t h heq hs)
    | skip

theorem inv2_stepSt {s s' : State} {t : Tid} {o : Ord} {loc : Loc} {new obs : Nat} (h : Inv2 s)
    (hs : stepSt s t o loc new obs = .ok s') : Inv2 s' := by
  unfold stepSt at hs
  split at hs
  all_goals first
    | (rename_i heq; ld_case2 t h heq hs)
    | skip

end NsyncVerif.MuC
