import NsyncVerif.Proofs.MuCInv10Reach
/-
  MuC: somebody is responsible for every queued waiter whose condition is true (I_resp), and
  MU_DESIG_WAKER is never set without an unlocker mid-scan or a woken thread in flight.
-/
namespace NsyncVerif.MuC

/-- lock_slow after a wake-up: the next acquire / enqueue CAS clears MU_DESIG_WAKER. -/
def PC.woken : PC → Bool
  | .lsLd c | .lsCasAcq c _ | .lsCasEnq c _ => c.clear
  | _ => false

/-- nsync_mu_wait after a timeout / cancellation has been recorded: the thread spins (mu_wait.c:240-258,
    mu_try_acquire_after_timeout_or_cancel) until it is woken or has taken the mutex itself. -/
def PC.timedOut : PC → Bool
  | .mwLd244 _ | .mtLd _ | .mtCasAcq _ _ | .mtCasWW _ _ | .mtLdWk _ _ => true
  | .mwLd255 c | .mwWaitLd c => decide (c.so ≠ .ok) && !c.hl
  | _ => false

/-- A thread that has been taken off the queue (or is being woken) and has not yet re-contended. -/
def InFlight (s : State) (t : Tid) : Prop :=
  (s.pc t).woken = true ∨ ∃ k, (s.pc t).waitRec = some k ∧ (s.pc t).hlRec = none ∧ ¬ Queued s k

def StrongResp (s : State) (t : Tid) : Prop := (s.pc t).unl = true ∨ InFlight s t

/-- Responsible: owns a share (it will release), is an unlocker mid-scan, is in flight, or is spinning
    after a timeout. -/
def RespT (s : State) (t : Tid) : Prop := shareOf s t ≠ none ∨ StrongResp s t ∨ (s.pc t).timedOut = true

/-- Some queued waiter has a condition that is true on the current data. -/
def NeedC (s : State) : Prop := ∃ k c, Queued s k ∧ (s.wr k).cond = some c ∧ evalCond s.data c = true

structure Inv11 (s : State) : Prop where
  hd : s.word.desig = true → ∃ t, StrongResp s t
  hdm : ∀ t old, (s.pc t).mtOld = some old → old.desig = true → ∃ u, StrongResp s u
  nm : s.nwViol = false → NeedC s → ∃ t, RespT s t

/-- What `t`'s move from `p` to `p'` keeps of its being in flight / mid-scan. -/
def PC.srKeep (p p' : PC) : Prop :=
  (p.unl = true → p'.unl = true) ∧ (p.woken = true → p'.woken = true) ∧
  (∀ k, p.waitRec = some k → p.hlRec = none → (p'.waitRec = some k ∧ p'.hlRec = none) ∨ p'.woken = true)

theorem strongResp_keep {s s' : State} {t : Tid} (hQ : ∀ k, Queued s' k → Queued s k) (hk : (s.pc t).srKeep (s'.pc t))
    (h : StrongResp s t) : StrongResp s' t := by
  rcases h with a | a | ⟨k, h1, h2, h3⟩
  · exact Or.inl (hk.1 a)
  · exact Or.inr (Or.inl (hk.2.1 a))
  · rcases hk.2.2 k h1 h2 with ⟨b, c⟩ | b
    · exact Or.inr (Or.inr ⟨k, b, c, fun e => h3 (hQ k e)⟩)
    · exact Or.inr (Or.inl b)

theorem strongResp_other {s s' : State} {u : Tid} (hQ : ∀ k, Queued s' k → Queued s k) (hpc : s'.pc u = s.pc u)
    (h : StrongResp s u) : StrongResp s' u := by
  refine strongResp_keep hQ ?_ h
  rw [hpc]
  exact ⟨id, id, fun k a b => Or.inl ⟨a, b⟩⟩

theorem respT_other {s s' : State} {u : Tid} (hQ : ∀ k, Queued s' k → Queued s k) (hpc : s'.pc u = s.pc u) (hh : s'.held u = s.held u)
    (h : RespT s u) : RespT s' u := by
  rcases h with a | a | a
  · left; simpa [shareOf, hpc, hh] using a
  · exact Or.inr (Or.inl (strongResp_other hQ hpc a))
  · exact Or.inr (Or.inr (by rw [hpc]; exact a))

/-- A step of `t` that leaves lists, conditions and data alone. -/
theorem Inv11.local {s s' : State} (t : Tid) (h : Inv11 s)
    (hQ : ∀ k, Queued s' k → Queued s k)
    (hcnd : ∀ x, Queued s' x → (s'.wr x).cond = (s.wr x).cond)
    (hd : s'.data = s.data) (hnv : s'.nwViol = false → s.nwViol = false)
    (hpc : ∀ u, u ≠ t → s'.pc u = s.pc u) (hheld : ∀ u, u ≠ t → s'.held u = s.held u)
    (hdes : s'.word.desig = true → s.word.desig = true ∨ ∃ u old, (s.pc u).mtOld = some old ∧ old.desig = true)
    (hmt : ∀ old, (s'.pc t).mtOld = some old → (s.pc t).mtOld = some old ∨ s.word = old)
    (hstr : (s.pc t).srKeep (s'.pc t) ∨
      (StrongResp s t → s'.word.desig = false ∧ (∀ u, (s.pc u).mtOld = none) ∧ (s'.pc t).mtOld = none))
    (hresp : s.nwViol = false → RespT s t →
      (StrongResp s t ∧ (s.pc t).srKeep (s'.pc t)) ∨ shareOf s' t ≠ none ∨ (s'.pc t).timedOut = true ∨
      (s'.pc t).woken = true ∨ ¬ NeedC s ∨ ∃ u, u ≠ t ∧ RespT s u) : Inv11 s' := by
  have hstr' : StrongResp s t → StrongResp s' t ∨
      (s'.word.desig = false ∧ (∀ u, (s.pc u).mtOld = none) ∧ (s'.pc t).mtOld = none) := by
    intro a
    rcases hstr with b | b
    · exact Or.inl (strongResp_keep hQ b a)
    · exact Or.inr (b a)
  refine ⟨?_, ?_, ?_⟩
  · intro hd'
    have key : ∃ w, StrongResp s w := by
      rcases hdes hd' with a | ⟨u, old, a, b⟩
      · exact h.hd a
      · exact h.hdm u old a b
    obtain ⟨w, hw⟩ := key
    by_cases e : w = t
    · subst e
      rcases hstr' hw with a | ⟨a, _⟩
      · exact ⟨w, a⟩
      · rw [a] at hd'; cases hd'
    · exact ⟨w, strongResp_other hQ (hpc w e) hw⟩
  · intro u old ho hod
    have key : ∃ w, StrongResp s w := by
      by_cases e : u = t
      · subst e
        rcases hmt old ho with a | a
        · exact h.hdm u old a hod
        · exact h.hd (by rw [a]; exact hod)
      · rw [hpc u e] at ho; exact h.hdm u old ho hod
    obtain ⟨w, hw⟩ := key
    by_cases e : w = t
    · subst e
      rcases hstr' hw with a | ⟨_, a, b⟩
      · exact ⟨w, a⟩
      · by_cases e' : u = w
        · subst e'; rw [b] at ho; cases ho
        · rw [hpc u e', a u] at ho; cases ho
    · exact ⟨w, strongResp_other hQ (hpc w e) hw⟩
  · intro hnv' hneed
    have hneed0 : NeedC s := by
      obtain ⟨k, c, h1, h2, h3⟩ := hneed
      exact ⟨k, c, hQ k h1, by rw [← hcnd k h1]; exact h2, by rw [← hd]; exact h3⟩
    obtain ⟨w, hw⟩ := h.nm (hnv hnv') hneed0
    by_cases e : w = t
    · subst e
      rcases hresp (hnv hnv') hw with ⟨a, b⟩ | a | a | a | a | ⟨u, hu, a⟩
      · exact ⟨w, Or.inr (Or.inl (strongResp_keep hQ b a))⟩
      · exact ⟨w, Or.inl a⟩
      · exact ⟨w, Or.inr (Or.inr a)⟩
      · exact ⟨w, Or.inr (Or.inl (Or.inr (Or.inl a)))⟩
      · exact absurd hneed0 a
      · exact ⟨u, respT_other hQ (hpc u hu) (hheld u hu) a⟩
    · exact ⟨w, respT_other hQ (hpc w e) (hheld w e) hw⟩

/-- What `t`'s move from `p` to `p'` keeps of its being responsible (the client ghost `held` unchanged). -/
def PC.rKeep (p p' : PC) : Prop :=
  p.srKeep p' ∧ (pcShare p ≠ none → pcShare p' ≠ none) ∧
  (p.timedOut = true → p'.timedOut = true ∨ p'.woken = true ∨ pcShare p' ≠ none)

theorem respT_keep {s s' : State} {t : Tid} (hQ : ∀ k, Queued s' k → Queued s k) (hh : s'.held t = s.held t)
    (hk : (s.pc t).rKeep (s'.pc t)) (h : RespT s t) : RespT s' t := by
  rcases h with a | a | a
  · left
    unfold shareOf tshare at a ⊢
    rw [hh]
    cases hm : s.held t with
    | some m => simp
    | none => rw [hm] at a; exact hk.2.1 a
  · exact Or.inr (Or.inl (strongResp_keep hQ hk.1 a))
  · rcases hk.2.2 a with b | b | b
    · exact Or.inr (Or.inr b)
    · exact Or.inr (Or.inl (Or.inr (Or.inl b)))
    · left
      unfold shareOf tshare
      cases hm : s'.held t with
      | some m => simp
      | none => exact b

/-- `Inv11.local` with the facts about `t` stated on its program points. -/
theorem Inv11.localPc {s s' : State} (t : Tid) (h : Inv11 s)
    (hQ : ∀ k, Queued s' k → Queued s k)
    (hcnd : ∀ x, Queued s' x → (s'.wr x).cond = (s.wr x).cond)
    (hd : s'.data = s.data) (hnv : s'.nwViol = false → s.nwViol = false)
    (hpc : ∀ u, u ≠ t → s'.pc u = s.pc u) (hheld : ∀ u, s'.held u = s.held u)
    (hdes : s'.word.desig = true → s.word.desig = true)
    (hmt : ∀ old, (s'.pc t).mtOld = some old → (s.pc t).mtOld = some old ∨ s.word = old)
    (hk : (s.pc t).rKeep (s'.pc t)) : Inv11 s' :=
  Inv11.local t h hQ hcnd hd hnv hpc (fun u _ => hheld u) (fun a => Or.inl (hdes a)) hmt (Or.inl hk.1)
    (fun _ a => by
      have hsh : pcShare (s'.pc t) ≠ none → shareOf s' t ≠ none := by
        intro b
        unfold shareOf tshare
        cases hm : s'.held t with
        | some m => simp
        | none => exact b
      rcases a with a | a | a
      · right; left
        unfold shareOf tshare at a ⊢
        rw [hheld t]
        cases hm : s.held t with
        | some m => simp
        | none => rw [hm] at a; exact hk.2.1 a
      · exact Or.inl ⟨a, hk.1⟩
      · rcases hk.2.2 a with b | b | b
        · exact Or.inr (Or.inr (Or.inl b))
        · exact Or.inr (Or.inr (Or.inr (Or.inl b)))
        · exact Or.inr (Or.inl (hsh b)))

/-- Somebody is mid-scan or in flight: nothing to show. -/
theorem Inv11.of_strong {s : State} (w : Tid) (hw : StrongResp s w) : Inv11 s :=
  ⟨fun _ => ⟨w, hw⟩, fun _ _ _ _ => ⟨w, hw⟩, fun _ _ => ⟨w, Or.inr (Or.inl hw)⟩⟩

theorem holder_of_locked {s : State} (h1 : Inv1 s) (hw : s.word.wlock = true ∨ s.word.readers ≠ 0) : ∃ u, shareOf s u ≠ none := by
  rcases hw with hw | hw
  · have := h1.lock.wl; rw [hw] at this
    cases ho : s.wOwner with
    | none => rw [ho] at this; cases this
    | some u => exact ⟨u, by rw [(h1.lock.wown u).1 ho]; simp⟩
  · have := h1.lock.rd
    cases hr : s.rOwners with
    | nil => rw [hr] at this; exact absurd this hw
    | cons u _ => exact ⟨u, by rw [(h1.lock.rown u).1 (by rw [hr]; simp)]; simp⟩

theorem other_of_many_readers {s : State} (h1 : Inv1 s) (hr : 1 < s.word.readers) (t : Tid) :
    ∃ u, u ≠ t ∧ shareOf s u ≠ none := by
  have hrd := h1.lock.rd
  have hnd := h1.lock.nodup
  have hsh : ∀ u, u ∈ s.rOwners → shareOf s u ≠ none := fun u hu => by rw [(h1.lock.rown u).1 hu]; simp
  cases hro : s.rOwners with
  | nil => rw [hro] at hrd; simp at hrd; omega
  | cons a l =>
    cases l with
    | nil => rw [hro] at hrd; simp at hrd; omega
    | cons b l' =>
      rw [hro] at hnd
      by_cases e : a = t
      · refine ⟨b, ?_, hsh b (by rw [hro]; simp)⟩
        intro e'; rw [e, e'] at hnd; simp at hnd
      · exact ⟨a, e, hsh a (by rw [hro]; simp)⟩

theorem other_reader {s : State} (h1 : Inv1 s) {t : Tid} (ht : shareOf s t = some .R) (hr : s.word.readers ≠ 1) :
    ∃ u, u ≠ t ∧ shareOf s u ≠ none := by
  have hmem := (h1.lock.rown t).2 ht
  have hrd := h1.lock.rd
  have : s.rOwners.length ≠ 0 := by
    intro e; rw [List.length_eq_zero_iff] at e; rw [e] at hmem; cases hmem
  exact other_of_many_readers h1 (by omega) t

theorem mtOld_share {p : PC} {old : Word} (h : p.mtOld = some old) : pcShare p = some .W := by
  cases p <;> simp [PC.mtOld] at h <;> rfl

theorem no_mtOld_of_unlocked {s : State} (h1 : Inv1 s) (hw : s.word.wlock = false) (u : Tid) : (s.pc u).mtOld = none := by
  cases ho : (s.pc u).mtOld with
  | none => rfl
  | some old =>
    have hne : s.pc u ≠ .idle := by intro e; rw [e] at ho; simp [PC.mtOld] at ho
    have hsh : shareOf s u = some .W := by rw [h1.share_eq hne]; exact mtOld_share ho
    have := h1.lock.wl
    rw [(h1.lock.wown u).2 hsh, hw] at this; cases this

theorem no_mtOld_of_nospin {s : State} (h3 : Inv3 s) (hw : s.word.spin = false) (u : Tid) : (s.pc u).mtOld = none := by
  cases ho : (s.pc u).mtOld with
  | none => rfl
  | some old =>
    have := spin_of_mtOld ho
    rw [h3.no_spin_of_free hw u] at this; cases this

theorem not_needC_of_condFalse {s : State} (h : ∀ k, Queued s k → CondFalse s s.data k) : ¬ NeedC s := by
  rintro ⟨k, c, hk, hc, he⟩
  obtain ⟨c', h1, h2⟩ := h k hk
  rw [hc] at h1; cases h1
  rw [he] at h2; cases h2

theorem not_needC_of_not_waiting {s : State} (h9 : Inv9 s) (hw : s.word.waiting = false) : ¬ NeedC s := by
  rintro ⟨k, c, hk, _⟩
  have := h9.w4 k hk; rw [hw] at this; cases this

/-- MU_ALL_FALSE seen by a thread that owns a share and is neither the client inside its section nor a
    writer about to release: every queued condition is false on the current data. -/
theorem af_all_false {s : State} (h1 : Inv1 s) (h7 : Inv7 s) {t : Tid} (ht : shareOf s t ≠ none)
    (hts : (s.pc t).susp = false) (htf : (s.pc t).firstW = false) (hth : s.held t = none)
    (haf : s.word.af = true) (hnv : s.nwViol = false) : ∀ k, Queued s k → CondFalse s s.data k := by
  have key : (∀ u, (s.pc u).susp = false) ∧ ¬ SecOpen s := by
    cases ho : s.wOwner with
    | none => exact ⟨no_susp_of_free h1 ho, not_secOpen_of_free h1 ho⟩
    | some w =>
      have hw := (h1.lock.wown w).1 ho
      have : t = w := h1.lock.writer_alone hw ht
      subst this
      exact ⟨no_susp_of_owner h1 ho hts, not_secOpen_of_owner h1 ho (by rw [hth]; simp) htf⟩
  intro k hk
  exact (h7.a1 haf k hk).2 hnv key.1 s.data (refData_of_closed key.2)

/-- A thread that is not itself in flight gives up its share: either nobody needs anything, or somebody
    else is responsible. -/
theorem resp_or_quiet {s : State} (h1 : Inv1 s) (h7 : Inv7 s) (h9 : Inv9 s) (h : Inv11 s) {t : Tid} (hns : ¬ StrongResp s t)
    (hnv : s.nwViol = false)
    (hc : s.word.waiting = false ∨ s.word.desig = true ∨ (∃ u, u ≠ t ∧ shareOf s u ≠ none) ∨
          (s.word.af = true ∧ shareOf s t ≠ none ∧ (s.pc t).susp = false ∧ (s.pc t).firstW = false ∧ s.held t = none)) :
    ¬ NeedC s ∨ ∃ u, u ≠ t ∧ RespT s u := by
  rcases hc with a | a | ⟨u, hu, a⟩ | ⟨a, b, c, d, e⟩
  · exact Or.inl (not_needC_of_not_waiting h9 a)
  · obtain ⟨w, hw⟩ := h.hd a
    refine Or.inr ⟨w, ?_, Or.inr (Or.inl hw)⟩
    intro e; subst e; exact hns hw
  · exact Or.inr ⟨u, hu, Or.inl a⟩
  · exact Or.inl (not_needC_of_condFalse (af_all_false h1 h7 b c d e a hnv))

theorem hlRec_of_waitRec {p : PC} {k : Wid} (h : p.waitRec = some k) : p.hlRec = none ∨ p.hlRec = some k := by
  cases p <;> simp only [PC.hlRec, PC.waitRec] at h ⊢ <;> first
    | (simp; done)
    | (split <;> simp_all; done)
    | (rename_i ok; cases ok <;> simp_all)

/-- The owner of a record on a wake list is in flight. -/
theorem inFlight_of_wake {s : State} (h4 : Inv4 s) (h9 : Inv9 s) {t : Tid} {k : Wid} (hk : k ∈ (s.pc t).wakeL) :
    ∃ u, (s.pc u).waitRec = some k ∧ (s.pc u).hlRec = none ∧ ¬ Queued s k := by
  obtain ⟨u, hu⟩ := h9.own k (Or.inr ⟨t, hk⟩)
  have hw := h4.wk t k hk
  refine ⟨u, hu, ?_, hw.2⟩
  rcases hlRec_of_waitRec hu with a | a
  · exact a
  · have := h9.hlf u k a; rw [hw.1] at this; cases this

theorem inv11_init : Inv11 init := by
  refine ⟨?_, ?_, ?_⟩
  · intro h; simp [init, Word.zero] at h
  · intro t old ho; simp [init, PC.mtOld] at ho
  · rintro _ ⟨k, c, hk, _⟩; simp [Queued, init, PC.scan?] at hk

end NsyncVerif.MuC
