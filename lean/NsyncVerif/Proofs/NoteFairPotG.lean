/-
  Layer `Note`, fair termination: the global potential `PG` never increases (as long as no note is
  allocated and no child is adopted), and decreases when a flag is stored or a `children_adopted`
  mark is cleared; the children list of a note whose mutex a thread holds is not changed by the
  other threads.
-/
import NsyncVerif.Proofs.NoteFairRankG

set_option linter.unusedSimpArgs false

namespace Note

/-- The step is the adoption of a child by the parent of the note being freed. -/
def Adopts (s : State) (e : Event) : Prop :=
  ∃ a n m c nx, e = .lockRet a ∧ s.pc a = .fr .lockChildRet n (some m) c nx ∧
    (s.notes c).disconnecting = 0

def NoMalloc (s : State) : Prop := ∀ a, (s.pc a).isMalloc = false

theorem PG_le {s s' : State} {e : Event} (B : Nat) (hr : Reachable s) (hs : step s e = .ok s')
    (hm : NoMalloc s) (hna : ¬ Adopts s e) : PG B s' ≤ PG B s := by
  have hst := step_stable hs
  unfold PG
  apply Nat.add_le_add
  · apply length_filter_le
    intro k hk
    simp only [Bool.and_eq_true, Bool.not_eq_true'] at hk ⊢
    have hal : (s.notes k).allocated = true := by
      rcases step_alloc hs k hk.1 with h | ⟨a, par, dl, _, hpc, _⟩
      · exact h
      · have := hm a; rw [hpc] at this; cases this
    refine ⟨hal, ?_⟩
    cases hn : (s.notes k).notified with
    | false => rfl
    | true => have := hst.flag k hal hn; rw [hk.2] at this; cases this
  · apply length_filter_le
    intro k hk
    cases h0 : (s.notes k).adopted with
    | true => rfl
    | false =>
      exfalso
      obtain ⟨a, n, c, nx, he, hpc, hd⟩ := step_adopted_set hs h0 hk
      exact hna ⟨a, n, k, c, nx, he, hpc, hd⟩

theorem PG_lt_flag {s s' : State} {e : Event} (B : Nat) (hr : Reachable s)
    (hs : step s e = .ok s') (hm : NoMalloc s) (hna : ¬ Adopts s e) {k : NoteId} (hk : k < B)
    (hal : (s.notes k).allocated = true) (h0 : (s.notes k).notified = false)
    (h1 : (s'.notes k).notified = true) : PG B s' < PG B s := by
  have hst := step_stable hs
  unfold PG
  apply Nat.add_lt_add_of_lt_of_le
  · refine length_filter_lt (a := k) ?_ (List.mem_range.mpr hk) (by simp [hal, h0]) (by simp [h1])
    intro j hj
    simp only [Bool.and_eq_true, Bool.not_eq_true'] at hj ⊢
    have hal' : (s.notes j).allocated = true := by
      rcases step_alloc hs j hj.1 with h | ⟨a, par, dl, _, hpc, _⟩
      · exact h
      · have := hm a; rw [hpc] at this; cases this
    refine ⟨hal', ?_⟩
    cases hn : (s.notes j).notified with
    | false => rfl
    | true => have := hst.flag j hal' hn; rw [hj.2] at this; cases this
  · apply length_filter_le
    intro j hj
    cases h0' : (s.notes j).adopted with
    | true => rfl
    | false =>
      exfalso
      obtain ⟨a, n, c, nx, he, hpc, hd⟩ := step_adopted_set hs h0' hj
      exact hna ⟨a, n, j, c, nx, he, hpc, hd⟩

theorem PG_lt_adopted {s s' : State} {e : Event} (B : Nat) (hr : Reachable s)
    (hs : step s e = .ok s') (hm : NoMalloc s) (hna : ¬ Adopts s e) {k : NoteId} (hk : k < B)
    (h0 : (s.notes k).adopted = true) (h1 : (s'.notes k).adopted = false) :
    PG B s' < PG B s := by
  have hst := step_stable hs
  unfold PG
  apply Nat.add_lt_add_of_le_of_lt
  · apply length_filter_le
    intro j hj
    simp only [Bool.and_eq_true, Bool.not_eq_true'] at hj ⊢
    have hal' : (s.notes j).allocated = true := by
      rcases step_alloc hs j hj.1 with h | ⟨a, par, dl, _, hpc, _⟩
      · exact h
      · have := hm a; rw [hpc] at this; cases this
    refine ⟨hal', ?_⟩
    cases hn : (s.notes j).notified with
    | false => rfl
    | true => have := hst.flag j hal' hn; rw [hj.2] at this; cases this
  · refine length_filter_lt (a := k) ?_ (List.mem_range.mpr hk) h0 h1
    intro j hj
    cases h0' : (s.notes j).adopted with
    | true => rfl
    | false =>
      exfalso
      obtain ⟨a, n, c, nx, he, hpc, hd⟩ := step_adopted_set hs h0' hj
      exact hna ⟨a, n, j, c, nx, he, hpc, hd⟩

theorem childUnlinks_parent {s : State} {f : Frame} {rest : List Frame} {top : Top} {j : NoteId}
    (h : childUnlinks s f rest top = some j) : j ∈ rest.map Frame.note ++ top.par.toList := by
  unfold childUnlinks at h
  split at h
  · next p hp =>
    split at h
    · cases h
      unfold frameParent at hp
      split at hp
      · cases hp; simp
      · rw [hp]; simp
    · cases h
  · cases h

theorem step_children_other {s s' : State} {e : Event} (hK : LockInv s) (hs : step s e = .ok s')
    {t : Tid} (ha : e.actor ≠ some t) {k : NoteId} (hh : (s.notes k).lockHolder = some t) :
    (s'.notes k).children = (s.notes k).children := by
  have hal := hK.alloc k t hh
  have hne : ∀ a n, ¬ a = t → n ∈ (s.pc a).held → ¬ k = n :=
    fun a n h1 h2 => held_ne hK hh h2 h1
  have hA : ∀ a n par c nx, s.pc a = .fr .lockChildRet n par c nx → ¬ a = t →
      ¬ k = n ∧ ∀ p, par = some p → ¬ k = p := by
    intro a n par c nx h h1
    refine ⟨hne a n h1 (by rw [h]; simp [PC.held]), fun p hp => ?_⟩
    subst hp
    exact hne a p h1 (by rw [h]; simp [PC.held])
  have hB : ∀ a pos f rest top j (s2 : State), s.pc a = .chd pos (f :: rest) top →
      (pos = .ld ∨ ∃ b, pos = .waitRet b) → childUnlinks s2 f rest top = some j → ¬ a = t →
      ¬ k = j := by
    intro a pos f rest top j s2 h hpos hu h1
    have hm := childUnlinks_parent hu
    refine hne a j h1 ?_
    rw [h]
    rcases hpos with rfl | ⟨b, rfl⟩
    · exact List.mem_cons_of_mem _ hm
    · cases b
      · exact hm
      · exact List.mem_cons_of_mem _ hm
  have hC : ∀ a b n p c nx, s.pc a = .fr (.waitRet b) n (some p) c nx → ¬ a = t → ¬ k = p := by
    intro a b n p c nx h h1
    refine hne a p h1 ?_
    rw [h]
    cases b <;> simp [PC.held]
  have hD : ∀ a n p dl, s.pc a = .newP .ld n p dl → ¬ a = t → ¬ k = p :=
    fun a n p dl h h1 => hne a p h1 (by rw [h]; simp [PC.held])
  cases e
  all_goals step_cases hs
  all_goals simp only [Event.actor, ne_eq, Option.some.injEq] at ha
  all_goals (try rfl)
  all_goals (try (simp; done))
  · simp only [childReturn_f_children]
    split
    · next h => exact absurd rfl (hB _ _ _ _ _ _ _ (by assumption) (Or.inl rfl) h ha)
    · rfl
  · simp [hD _ _ _ _ (by assumption) ha]
  · have := hA _ _ _ _ _ (by assumption) ha
    simp [this.1, this.2 _ rfl]
  · have := hA _ _ _ _ _ (by assumption) ha
    simp [this.1]
  · simp only [childReturn_f_children, acquire_f_children]
    split
    · next h => exact absurd rfl (hB _ _ _ _ _ _ _ (by assumption) (Or.inr ⟨_, rfl⟩) h ha)
    · rfl
  · simp only [childReturn_f_children, acquire_f_children]
    split
    · next h => exact absurd rfl (hB _ _ _ _ _ _ _ (by assumption) (Or.inr ⟨_, rfl⟩) h ha)
    · rfl
  · simp [hC _ _ _ _ _ _ (by assumption) ha]
  · simp [hC _ _ _ _ _ _ (by assumption) ha]
  · rename_i p hf
    have hne' : ¬ k = p := by
      intro h; subst h; rw [hal] at hf; cases hf
    simp [hne']

end Note
