/-
  Layer `Pool`: inversion lemmas of the acceptor (one per event kind) and run/reachability basics.
-/
import NsyncVerif.Model.Pool

namespace Pool

theorem need_ok {c : Prop} [Decidable c] {m : String} {k : Except String State} {s' : State}
    (h : need c m k = .ok s') : c ∧ k = .ok s' := by
  unfold need at h
  split at h
  · exact ⟨‹c›, h⟩
  · cases h

/-- `needs h with h1`: peel one `need` off `h : need c m k = .ok s'`. -/
macro "needs " h:ident " with " n:ident : tactic =>
  `(tactic| (have hh__ := need_ok $h; clear $h; have $n := hh__.1; have $h := hh__.2; clear hh__))

theorem step_ld {s s' : State} {t : Tid} {site obs : Nat}
    (h : step s (.ld t site obs) = .ok s') :
    obs = s.mu ∧ ∃ j, s' = { s with pc := upd s.pc t (afterLoad j obs) } ∧
      ((s.pc t = .idle ∧ j = .new ∧ site = 0 ∧ fast s t = none) ∨ (s.pc t = .spin0 j ∧ site = 0) ∨
       (s.pc t = .spinLd2 j ∧ site = 2)) := by
  simp only [step] at h
  needs h with h1
  refine ⟨h1, ?_⟩
  split at h
  · needs h with h2
    needs h with h3
    cases h
    exact ⟨.new, rfl, Or.inl ⟨‹_›, rfl, h2, h3⟩⟩
  · needs h with h2
    cases h
    exact ⟨_, rfl, Or.inr (Or.inl ⟨‹_›, h2⟩)⟩
  · needs h with h2
    cases h
    exact ⟨_, rfl, Or.inr (Or.inr ⟨‹_›, h2⟩)⟩
  · cases h

theorem step_cas {s s' : State} {t : Tid} {exp new obs : Nat} {ok : Bool}
    (h : step s (.cas t exp new obs ok) = .ok s') :
    ∃ j, s.pc t = .spinCas j exp ∧ new = exp ||| 1 ∧ obs = s.mu ∧ ok = decide (obs = exp) ∧
      ((ok = true ∧ s' = { s with mu := new, holder := some t, pc := upd s.pc t (.cs j) }) ∨
       (ok = false ∧ s' = { s with pc := upd s.pc t (.spinLd2 j) })) := by
  simp only [step] at h
  split at h
  · needs h with h1
    needs h with h2
    needs h with h3
    needs h with h4
    subst h1
    refine ⟨_, ‹_›, h2, h3, h4, ?_⟩
    split at h
    · cases h; exact Or.inl ⟨‹_›, rfl⟩
    · cases h; exact Or.inr ⟨by simpa using ‹¬ ok = true›, rfl⟩
  · cases h

theorem step_rel {s s' : State} {t : Tid} {fn : Fn} {obs : Nat}
    (h : step s (.rel t fn obs) = .ok s') :
    ∃ j, s.pc t = .cs j ∧ j.fn = fn ∧ obs = s.mu ∧
      ((j = .new ∧ s.free = [] ∧
          s' = { s with mu := 0, holder := none, pc := upd s.pc t .newMalloc }) ∨
       (∃ q rest, j = .new ∧ s.free = q :: rest ∧
          s' = { s with mu := 0, holder := none, free := rest, loc := upd s.loc q (.transit t),
                        pc := upd s.pc t (.newRet q) }) ∨
       (∃ w, (j = .free w ∨ j = .destroy w) ∧
          s' = { s with mu := 0, holder := none, free := w :: s.free, loc := upd s.loc w .free,
                        pc := upd s.pc t .idle })) := by
  simp only [step] at h
  split at h
  · needs h with h1
    needs h with h2
    refine ⟨_, ‹_›, h1, h2, ?_⟩
    split at h
    · split at h
      · cases h; exact Or.inl ⟨rfl, ‹_›, rfl⟩
      · cases h; exact Or.inr (Or.inl ⟨_, _, rfl, ‹_›, rfl⟩)
    · cases h; exact Or.inr (Or.inr ⟨_, Or.inl rfl, rfl⟩)
    · cases h; exact Or.inr (Or.inr ⟨_, Or.inr rfl, rfl⟩)
  · cases h

theorem step_malloc {s s' : State} {t : Tid} {w : Wid}
    (h : step s (.malloc t w) = .ok s') :
    s.pc t = .newMalloc ∧ w = s.nalloc ∧
      s' = { s with nalloc := s.nalloc + 1, loc := upd s.loc w (.transit t),
                    sem := upd s.sem w (some w), waiting := upd s.waiting w 0,
                    nwflags := upd s.nwflags w MUCV, inits := upd s.inits w (s.inits w + 1),
                    nwr := bump (bump (bump s.nwr w .sem) w .waiting) w .nwflags,
                    pc := upd s.pc t (.newInit w) } := by
  simp only [step] at h
  split at h
  · needs h with h1
    cases h
    exact ⟨‹_›, h1, rfl⟩
  · cases h

theorem step_mallocNull {s s' : State} {t : Tid} : step s (.mallocNull t) ≠ .ok s' := by
  simp [step]

theorem step_stRc {s s' : State} {t : Tid} {w : Wid} {obs : Nat}
    (h : step s (.stRc t w obs) = .ok s') :
    s.pc t = .newInit w ∧
      s' = { s with rc := upd s.rc w 0, reserved := upd s.reserved w false,
                    inuse := upd s.inuse w false, ready := upd s.ready w true,
                    nwr := bump s.nwr w .rc, pc := upd s.pc t (.newRet w) } := by
  simp only [step] at h
  split at h
  · needs h with h1
    cases h
    subst h1
    exact ⟨‹_›, rfl⟩
  · cases h

theorem step_ret {s s' : State} {t : Tid} {w : Wid}
    (h : step s (.ret t w) = .ok s') :
    (s.pc t = .idle ∧ fast s t = some w ∧
        s' = { s with inuse := upd s.inuse w true, loc := upd s.loc w (.held t) }) ∨
    (s.pc t = .newRet w ∧ s.ptw t = none ∧
        s' = { s with reserved := upd s.reserved w true, ptw := upd s.ptw t (some w),
                      inuse := upd s.inuse w true, loc := upd s.loc w (.held t),
                      pc := upd s.pc t .idle }) ∨
    (s.pc t = .newRet w ∧ (∃ r, s.ptw t = some r) ∧
        s' = { s with inuse := upd s.inuse w true, loc := upd s.loc w (.held t),
                      pc := upd s.pc t .idle }) := by
  simp only [step] at h
  split at h
  · needs h with h1
    cases h
    exact Or.inl ⟨‹_›, h1, rfl⟩
  · needs h with h1
    subst h1
    split at h
    · cases h; exact Or.inr (Or.inl ⟨‹_›, ‹_›, rfl⟩)
    · cases h; exact Or.inr (Or.inr ⟨‹_›, ⟨_, ‹_›⟩, rfl⟩)
  · cases h

theorem step_free {s s' : State} {t : Tid} {w : Wid}
    (h : step s (.free t w) = .ok s') :
    s.pc t = .idle ∧ s.loc w = .held t ∧ s.inuse w = true ∧
      ((s.reserved w = true ∧
          s' = { s with inuse := upd s.inuse w false, loc := upd s.loc w (.resIdle t) }) ∨
       (s.reserved w = false ∧
          s' = { s with inuse := upd s.inuse w false, loc := upd s.loc w (.transit t),
                        pc := upd s.pc t (.spin0 (.free w)) })) := by
  simp only [step] at h
  split at h
  · needs h with h1
    needs h with h2
    refine ⟨‹_›, h1, h2, ?_⟩
    split at h
    · cases h; exact Or.inl ⟨‹_›, rfl⟩
    · cases h; exact Or.inr ⟨by simpa using ‹¬ s.reserved w = true›, rfl⟩
  · cases h

theorem step_exit {s s' : State} {t : Tid}
    (h : step s (.exit t) = .ok s') :
    s.pc t = .idle ∧ ∃ w, s.ptw t = some w ∧ s.reserved w = true ∧ s.inuse w = false ∧
      s' = { s with reserved := upd s.reserved w false, ptw := upd s.ptw t none,
                    loc := upd s.loc w (.transit t), pc := upd s.pc t (.spin0 (.destroy w)) } := by
  simp only [step] at h
  split at h
  · split at h
    · needs h with h1
      cases h
      exact ⟨‹_›, _, ‹_›, h1.1, h1.2, rfl⟩
    · cases h
  · cases h

theorem step_use {s s' : State} {t : Tid} {w : Wid}
    (h : step s (.use t w) = .ok s') : s.loc w = .held t ∧ s' = s := by
  simp only [step] at h
  needs h with h1
  cases h
  exact ⟨h1, rfl⟩

theorem step_env {s s' : State} {w : Wid} {f : AFld} {obs new : Nat}
    (h : step s (.env w f obs new) = .ok s') :
    s.ready w = true ∧
      ((f = .rc ∧ obs = s.rc w ∧ s' = { s with rc := upd s.rc w new }) ∨
       (f = .waiting ∧ obs = s.waiting w ∧ s' = { s with waiting := upd s.waiting w new })) := by
  simp only [step] at h
  needs h with h1
  refine ⟨h1, ?_⟩
  split at h
  · needs h with h2
    cases h; exact Or.inl ⟨rfl, h2, rfl⟩
  · needs h with h2
    cases h; exact Or.inr ⟨rfl, h2, rfl⟩

/-! ### run -/

theorem run_nil (s : State) : run s [] = .ok s := rfl

theorem run_cons_ok {s s' : State} {e : Ev} {es : List Ev} (h : step s e = .ok s') :
    run s (e :: es) = run s' es := by
  simp [run, h]

theorem run_cons_inv {s s'' : State} {e : Ev} {es : List Ev} (h : run s (e :: es) = .ok s'') :
    ∃ s', step s e = .ok s' ∧ run s' es = .ok s'' := by
  simp only [run] at h
  split at h
  · exact ⟨_, ‹_›, h⟩
  · cases h

theorem run_append {s s'' : State} {es fs : List Ev} (h : run s (es ++ fs) = .ok s'') :
    ∃ s', run s es = .ok s' ∧ run s' fs = .ok s'' := by
  induction es generalizing s with
  | nil => exact ⟨s, rfl, h⟩
  | cons e es ih =>
    obtain ⟨s1, h1, h2⟩ := run_cons_inv h
    obtain ⟨s', h3, h4⟩ := ih h2
    exact ⟨s', by rw [run_cons_ok h1]; exact h3, h4⟩

theorem run_append_ok {s s' s'' : State} {es fs : List Ev} (h1 : run s es = .ok s')
    (h2 : run s' fs = .ok s'') : run s (es ++ fs) = .ok s'' := by
  induction es generalizing s with
  | nil => cases h1; exact h2
  | cons e es ih =>
    obtain ⟨s1, h3, h4⟩ := run_cons_inv h1
    rw [List.cons_append, run_cons_ok h3]
    exact ih h4

theorem Reachable.init : Reachable init := ⟨[], rfl⟩

theorem Reachable.step {s s' : State} {e : Ev} (hr : Reachable s) (h : step s e = .ok s') :
    Reachable s' := by
  obtain ⟨evs, h0⟩ := hr
  exact ⟨evs ++ [e], run_append_ok h0 (by rw [run_cons_ok h]; rfl)⟩

theorem Reachable.run {s s' : State} {es : List Ev} (hr : Reachable s) (h : run s es = .ok s') :
    Reachable s' := by
  obtain ⟨evs, h0⟩ := hr
  exact ⟨evs ++ es, run_append_ok h0 h⟩

/-- Induction principle: a property that holds initially and is preserved by accepted steps holds
    in every reachable state. -/
theorem Reachable.induct {P : State → Prop} (h0 : P Pool.init)
    (hs : ∀ s s' e, Reachable s → P s → Pool.step s e = .ok s' → P s') :
    ∀ s, Reachable s → P s := by
  intro s ⟨evs, h⟩
  suffices H : ∀ (evs : List Ev) (s0 : State), Reachable s0 → P s0 → Pool.run s0 evs = .ok s → P s from
    H evs _ Reachable.init h0 h
  intro evs
  induction evs with
  | nil => intro s0 _ hp h; cases h; exact hp
  | cons e es ih =>
    intro s0 hr hp h
    obtain ⟨s1, h1, h2⟩ := run_cons_inv h
    exact ih s1 (hr.step h1) (hs _ _ _ hr hp h1) h2

end Pool
