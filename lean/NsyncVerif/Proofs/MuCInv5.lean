import NsyncVerif.Proofs.MuCQMono
/-
  MuC: meaning of MU_CONDITION — if the bit is clear no queued waiter has a condition.
-/
namespace NsyncVerif.MuC

/-- `old_word` of mu_try_acquire_after_timeout_or_cancel once the spinlock and the writer bit are held:
    the release store of mu_wait.c:108/113 writes a word built from it. -/
def PC.mtOld : PC → Option Word
  | .mtLdW _ o | .mtLdRc _ o | .mtRmLd _ o | .mtRmCas _ o _ | .mtStW _ o | .mtStRel _ o _ => some o
  | _ => none

/-- Between the store `waiting := 1` and the release CAS of mu_wait: the record and the condition of the call. -/
def PC.limboC : PC → Option (Wid × Option Cond)
  | .mwRcLd c | .mwEnqLd c | .mwEnqCas c _ | .mwRelLd c | .mwRelCas c _ _ => c.w.map (fun k => (k, c.cond))
  | _ => none

structure Inv5 (s : State) : Prop where
  h1 : ∀ k, Queued s k → (s.wr k).cond ≠ none → s.word.cond = true
  h2 : ∀ t old, (s.pc t).mtOld = some old → ∀ k, Queued s k → (s.wr k).cond ≠ none → old.cond = true
  h3 : ∀ t k c, (s.pc t).limboC = some (k, c) → (s.wr k).cond = c

theorem Inv5.local {s s' : State} (t : Tid) (h : Inv5 s)
    (hQ : ∀ k, Queued s' k → Queued s k)
    (hcnd : ∀ x, (s'.wr x).cond = (s.wr x).cond)
    (hw : s.word.cond = true → s'.word.cond = true)
    (hpc : ∀ u, u ≠ t → s'.pc u = s.pc u)
    (hmt : ∀ old, (s'.pc t).mtOld = some old → (s.pc t).mtOld = some old ∨ s.word = old)
    (hlc : ∀ k c, (s'.pc t).limboC = some (k, c) → (s.pc t).limboC = some (k, c)) : Inv5 s' := by
  refine ⟨?_, ?_, ?_⟩
  · intro k hk hc
    rw [hcnd] at hc; exact hw (h.h1 k (hQ k hk) hc)
  · intro u old ho k hk hc
    rw [hcnd] at hc
    by_cases hu : u = t
    · subst hu
      rcases hmt old ho with e1 | e1
      · exact h.h2 u old e1 k (hQ k hk) hc
      · rw [← e1]; exact h.h1 k (hQ k hk) hc
    · rw [hpc u hu] at ho; exact h.h2 u old ho k (hQ k hk) hc
  · intro u k c hl
    rw [hcnd]
    by_cases hu : u = t
    · subst hu; exact h.h3 u k c (hlc k c hl)
    · rw [hpc u hu] at hl; exact h.h3 u k c hl

theorem Inv5.env {s s' : State} (h : Inv5 s) (hq : s'.queue = s.queue) (hwr : ∀ x, (s'.wr x).cond = (s.wr x).cond)
    (hw : s'.word.cond = s.word.cond) (hpc : s'.pc = s.pc) : Inv5 s' := by
  have hQ : ∀ k, Queued s' k ↔ Queued s k := fun k => by simp only [Queued, hq, hpc]
  refine ⟨?_, ?_, ?_⟩
  · intro k hk hc; rw [hw]; rw [hwr] at hc; exact h.h1 k ((hQ k).1 hk) hc
  · intro u old ho k hk hc; rw [hpc] at ho; rw [hwr] at hc; exact h.h2 u old ho k ((hQ k).1 hk) hc
  · intro u k c hl; rw [hpc] at hl; rw [hwr]; exact h.h3 u k c hl

/-- `Queued` is unchanged by a step that leaves queue and scan locals alone. -/
theorem queued_same {s s' : State} {t : Tid} (hq : s'.queue = s.queue) (hpc : ∀ u, u ≠ t → s'.pc u = s.pc u)
    (hsc : (s'.pc t).scan? = (s.pc t).scan?) (k : Wid) : Queued s' k ↔ Queued s k := by
  refine queued_congr hq ?_ k
  intro u; by_cases hu : u = t
  · subst hu; exact hsc
  · rw [hpc u hu]

/-- `s.word.cond → s'.word.cond` for the word updates that keep or set MU_CONDITION -/
macro "word_cond" : tactic => `(tactic|
  first
  | (simp; done)
  | (simp_all [acqWord, addWord, relUncWord, relNwWord, subWord, Word.zero, enqWord, mwEnqWord, mtAcqWord, grabWord]; done)
  | (simp_all [acqWord, addWord, relUncWord, relNwWord, subWord, Word.zero, enqWord, mwEnqWord, mtAcqWord, grabWord] <;>
      (repeat' split) <;> simp_all))

/-- steps that change neither the lists nor any condition -/
macro "inv5_local" t:ident h:ident heq:ident : tactic => `(tactic|
  (refine Inv5.local $t $h ?_ ?_ ?_ ?_ ?_ ?_
   · intro k hk
     exact (queued_same (t := $t) (by simp) (by intro u hu; simp [setFn, hu])
        (by rw [$heq:ident]; simp [setFn, PC.scan?, loopPc, finPc, Ret.pc] <;> (repeat' split) <;> simp [PC.scan?]) k).1 hk
   · intro x; (simp [setFn]) <;> (try split) <;> simp_all
   · word_cond
   · intro u hu; simp [setFn, hu]
   · intro old ho
     left
     rw [$heq:ident]
     (simp_all [PC.mtOld, setFn, loopPc, finPc, Ret.pc]) <;> grind
   · intro k c hl
     rw [$heq:ident]
     (simp_all [PC.limboC, setFn, loopPc, finPc, Ret.pc]) <;> grind))

macro "ld_case5" t:ident h:ident heq:ident hs:ident : tactic => `(tactic|
  (try dsimp only at $hs:ident
   try simp only [ldWord, ldWaiting] at $hs:ident
   repeat' split at $hs:ident
   all_goals first
     | (cases $hs:ident; done)
     | (cases $hs:ident; inv5_local $t $h $heq)
     | (cases $hs:ident; split <;> inv5_local $t $h $heq)))

theorem inv5_stepLd {s s' : State} {t : Tid} {o : Ord} {loc : Loc} {obs : Nat} (h : Inv5 s)
    (hs : stepLd s t o loc obs = .ok s') : Inv5 s' := by
  unfold stepLd at hs
  split at hs
  all_goals first
    | (rename_i heq; ld_case5 t h heq hs)
    | skip
  -- mtLdRc: the waiter removes itself
  rename_i c old heq
  dsimp only at hs
  repeat' split at hs
  all_goals first
    | (cases hs; done)
    | (cases hs; inv5_local t h heq)
    | skip
  rename_i k hk _ _ _ _ hmem
  cases hs
  have hlo : LnkOnly s (setPc (dequeue s k) t (PC.mtRmLd c old)) := lnkOnly_removeLinks _ _ _ _
  refine Inv5.local t h ?_ (fun x => (hlo x).2.2.2.2.1) (by simp [dequeue]) (by intro u hu; simp [dequeue, setFn, hu]) ?_ ?_
  · intro x hx
    refine queued_mono (s := s) ?_ ?_ hx
    · intro y hy; simp [dequeue] at hy; exact List.mem_of_mem_erase hy
    · intro u; by_cases hu : u = t
      · subst hu; simp [heq, PC.scan?]
      · simp [dequeue, setFn, hu]
  · intro o' ho; left; rw [heq]; simpa [PC.mtOld] using ho
  · intro k' c' hl; simp [PC.limboC] at hl

end NsyncVerif.MuC
