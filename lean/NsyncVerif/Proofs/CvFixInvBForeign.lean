/-
  Layer `CvFix` (cv.c with the repair of F3; adapted from the `Cv` file of the same name): protocol invariant — foreign accesses and initialisations (idle or transferred
  records), `remove_count++` by signal/broadcast, the transfer step, and the unlinking step.
-/
import NsyncVerif.Proofs.CvFixInvBRec2

namespace NsyncVerif.CvFix

/-- A record that is idle or transferred changes `waiting` / `remove_count` (never downwards while
    transferred) / owner-while-idle / fields the invariant ignores. -/
theorem invB_foreign {s : State} (hi : InvB s) (ha : InvA s) (r : Rid) (v : Rec)
    (hf : foreignOk (s.recs r) = true) (hst : v.stat = (s.recs r).stat) (hunl : v.unl = (s.recs r).unl)
    (hrc : (s.recs r).stat = .xfer → (s.recs r).rc ≤ v.rc) : InvB (s.setRec r v) := by
  have hcases : (s.recs r).stat = .idle ∨ (s.recs r).stat = .xfer := by
    unfold foreignOk at hf; split at hf <;> simp_all
  obtain ⟨b1, b2, b3, b4, b5, b6, b7, b8⟩ := hi
  constructor
  · intro q u
    by_cases hq : q = r
    · subst hq; simp [hst]; intro h; rcases hcases with c | c <;> rw [c] at h <;> cases h
    · simp [hq]; exact b1 q u
  · intro q
    by_cases hq : q = r
    · subst hq; simp [hst]; intro h; rcases hcases with c | c <;> rw [c] at h <;> cases h
    · simp [hq]; exact b2 q
  · intro q
    by_cases hq : q = r
    · subst hq; simp [hst]; exact b3 q
    · simp [hq]; exact b3 q
  · intro q
    by_cases hq : q = r
    · subst hq; simp [hst, hunl]; exact b4 q
    · simp [hq]; exact b4 q
  · intro q
    by_cases hq : q = r
    · subst hq; simp [hst, hunl]; exact b5 q
    · simp [hq]; exact b5 q
  · intro q
    by_cases hq : q = r
    · subst hq; simp [hunl]; exact b6 q
    · simp [hq]; exact b6 q
  · intro u
    refine tinvB_other3 (b7 u) (ha.thr u) rfl ?_ ?_
    · intro q _ _
      by_cases hq : q = r
      · subst hq
        simp [hst]
        intro h; rcases hcases with c | c <;> rw [c] at h <;> cases h
      · simp [hq]
    · intro hs
      unfold SvOK
      by_cases hq : (s.thr u).r = r
      · simp only [setRec_recs, hq, if_true, setRec_thr, hst]
        rcases hcases with c | c
        · obtain ⟨_, _, lv⟩ := (ha.thr u).live (savedLoc_live hs)
          rw [hq, c] at lv; simp [RStat.live] at lv
        · rw [c]
          simp
          have := (b7 u).svX hs (.inl (by rw [hq]; exact c))
          rw [hq] at this
          have := hrc c
          omega
      · simp only [setRec_recs, hq, if_false, setRec_thr]
        exact ⟨(b7 u).svQ hs, (b7 u).svX hs, (b7 u).svL hs⟩
  · exact b8

end NsyncVerif.CvFix
