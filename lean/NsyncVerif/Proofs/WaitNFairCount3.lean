/-
  Proofs/WaitNFairCount3.lean — WaitN layer, liveness, token counting: generic facts (a non-increasing sequence of
  naturals is eventually constant; counting the elements of a list that satisfy a predicate; `post` has finite
  support), what stays constant while a caller is in its sleep loop, and "a waker that owes a post makes it".
-/
import NsyncVerif.Proofs.WaitNFairCount2

set_option linter.unusedSimpArgs false
set_option linter.unusedVariables false

namespace WaitN

variable {s0 : State}

theorem nat_stabilizes (f : Nat → Nat) : ∀ v a, f a = v → (∀ m, a ≤ m → f (m + 1) ≤ f m) →
    ∃ a2, a ≤ a2 ∧ ∀ m, a2 ≤ m → f m = f a2 := by
  intro v
  induction v using Nat.strongRecOn with
  | ind v ih =>
    intro a ha hmono
    by_cases hex : ∃ m, a ≤ m ∧ f m < v
    · obtain ⟨m, hm, hlt⟩ := hex
      obtain ⟨a2, h1, h2⟩ := ih (f m) hlt m rfl (fun m' hm' => hmono m' (by omega))
      exact ⟨a2, by omega, h2⟩
    · refine ⟨a, Nat.le_refl _, fun m hm => ?_⟩
      have hle : ∀ d, f (a + d) ≤ f a := by
        intro d
        induction d with
        | zero => exact Nat.le_refl _
        | succ d ihd => exact Nat.le_trans (hmono (a + d) (by omega)) ihd
      obtain ⟨d, rfl⟩ : ∃ d, m = a + d := ⟨m - a, by omega⟩
      have := hle d
      have h2 : ¬ f (a + d) < v := fun h => hex ⟨a + d, by omega, h⟩
      omega

theorem filter_len_le {α : Type} (p q : α → Bool) : ∀ l : List α, (∀ r ∈ l, q r = true → p r = true) →
    (l.filter q).length ≤ (l.filter p).length := by
  intro l
  induction l with
  | nil => intro _; simp
  | cons a l ih =>
    intro h
    have ih := ih (fun r hr => h r (List.mem_cons_of_mem _ hr))
    have ha := h a (List.mem_cons_self ..)
    simp only [List.filter_cons]
    cases hq : q a with
    | false => simp only [Bool.false_eq_true, if_false]; split <;> simp <;> omega
    | true => rw [ha hq]; simp; exact ih

theorem filter_len_lt {α : Type} (p q : α → Bool) : ∀ l : List α, (∀ r ∈ l, q r = true → p r = true) →
    (∃ r ∈ l, p r = true ∧ q r = false) → (l.filter q).length < (l.filter p).length := by
  intro l
  induction l with
  | nil => intro _ ⟨r, hr, _⟩; simp at hr
  | cons a l ih =>
    intro h ⟨r, hr, hp, hq⟩
    have hl := filter_len_le p q l (fun r hr => h r (List.mem_cons_of_mem _ hr))
    have ha := h a (List.mem_cons_self ..)
    simp only [List.filter_cons]
    rcases List.mem_cons.1 hr with rfl | hr'
    · rw [hp, hq]; simp; omega
    · have ih := ih (fun r hr => h r (List.mem_cons_of_mem _ hr)) ⟨r, hr', hp, hq⟩
      cases hqa : q a with
      | false => simp only [Bool.false_eq_true, if_false]; split <;> simp <;> omega
      | true => rw [ha hqa]; simp; exact ih

/-- only finitely many threads owe a post -/
theorem post_support {s : State} (h : Reachable s) : ∃ B, ∀ u, B ≤ u → s.post u = none := by
  refine reachable_induction (P := fun s => ∃ B, ∀ u, B ≤ u → s.post u = none) ⟨0, fun _ _ => rfl⟩ ?_ h
  intro s s' ev _ ⟨B, hB⟩ hs
  cases ev with
  | tick ns => rw [step_tick_eq hs]; exact ⟨B, hB⟩
  | thr v e =>
    refine ⟨max B (v + 1), fun u hu => ?_⟩
    have h1 : v + 1 ≤ u := Nat.le_trans (Nat.le_max_right _ _) hu
    have h2 : B ≤ u := Nat.le_trans (Nat.le_max_left _ _) hu
    have hne : u ≠ v := fun h => by rw [h] at h1; exact Nat.lt_irrefl _ h1
    rw [(others_stepThr (step_thr hs) u hne).2.2.1]
    exact hB u h2

/-- while the caller stays in its sleep loop its records and its semaphore stay -/
theorem sleep_const (x : Exec s0) (hr : Reachable s0) (t : Tid) (m : Nat) (h1 : inSleep ((x.ρ m).pc t) = true)
    (h2 : inSleep ((x.ρ (m + 1)).pc t) = true) :
    ((x.ρ (m + 1)).fr t).recs = ((x.ρ m).fr t).recs
    ∧ ∀ k, ((x.ρ m).fr t).sem = some k → ((x.ρ (m + 1)).fr t).sem = some k := by
  cases hs : x.σ m with
  | none => rw [x.next_none hs]; exact ⟨rfl, fun _ h => h⟩
  | some ev =>
    have hstep := x.next_some hs
    cases ev with
    | tick ns => rw [(step_tick hstep).1]; exact ⟨rfl, fun _ h => h⟩
    | thr v e =>
      have hst := step_thr hstep
      refine ⟨?_, fun k hk => ?_⟩
      · by_cases hv : v = t
        · subst hv
          rcases quiet_or_structural hst with q | st
          · exact q.recs v
          · cases st with
            | call mu dl objs nested hpc _ _ _ => rw [hpc] at h1; cases h1
            | init i r oid hpc _ _ _ _ => rw [hpc] at h1; cases h1
            | free hpc _ => rw [hpc] at h1; cases h1
            | ret r hpc _ => rw [hpc] at h1; cases h1
        · exact frSame_recs (others_stepThr hst t (fun h => hv h.symm)).2.2.2
      · rcases (bind_stepThr hst).1 t k hk with h | ⟨h, h'⟩
        · exact h
        · subst h; rw [h2] at h'; cases h'

/-- … and the `waiting` field of one of its records is not set again -/
theorem sleep_wfalse (x : Exec s0) (hr : Reachable s0) (t : Tid) (m : Nat) (h1 : inSleep ((x.ρ m).pc t) = true)
    {r : Rid} (hmem : r ∈ ((x.ρ m).fr t).recs) (hw' : ((x.ρ (m + 1)).rcd r).waiting = true) :
    ((x.ρ m).rcd r).waiting = true := by
  cases hs : x.σ m with
  | none => rw [x.next_none hs] at hw'; exact hw'
  | some ev =>
    have hstep := x.next_some hs
    cases ev with
    | tick ns => rw [(step_tick hstep).1] at hw'; exact hw'
    | thr v e =>
      cases hw : ((x.ρ m).rcd r).waiting with
      | true => rfl
      | false =>
        exfalso
        have hrm := x.reach hr m
        have own := own_of_reachable hrm
        have hil := inLoop_of_inSleep h1 (linv_of_reachable hrm t)
        obtain ⟨i, hi, hri⟩ := (mono_stepThr (t := v) (step_thr hstep)).wtrue r hw hw'
        have hlv := linv_of_reachable hrm v
        have hvt : v = t := by
          rcases hi with hi | hi
          · rw [hi] at hlv
            exact owner_unique own (by rw [hi]; rfl) hlv.1.frees (List.mem_of_getElem? hri) (inCall_of_inSleep h1) hil.frees hmem
          · rw [hi] at hlv
            exact owner_unique own (by rw [hi]; rfl) hlv.1.frees (List.mem_of_getElem? hri) (inCall_of_inSleep h1) hil.frees hmem
        subst hvt
        rcases hi with hi | hi <;> (rw [hi] at h1; cases h1)

/-- a waker that owes a post makes it -/
theorem ower_posts (x : Exec s0) (H : FairHyps x) (a : Nat) (u : Tid) (r : Rid) (hpost : (x.ρ a).post u = some r) :
    ∃ d, (x.ρ (a + d)).post u ≠ some r := by
  have hr := H.reach
  apply Classical.byContradiction
  intro hno
  have hall : ∀ d, (x.ρ (a + d)).post u = some r := fun d =>
    Classical.byContradiction (fun h => hno ⟨d, h⟩)
  have hpc : ∀ d, (x.ρ (a + d + 1)).pc u = (x.ρ (a + d)).pc u := by
    intro d
    cases hs : x.σ (a + d) with
    | none => rw [x.next_none hs]
    | some ev =>
      have hstep := x.next_some hs
      cases ev with
      | tick ns => rw [(step_tick hstep).1]
      | thr v e =>
        by_cases hv : v = u
        · subst hv; exact post_keeps_pc (x.reach hr _) (step_thr hstep) (hall d) (hall (d + 1))
        · exact (others_stepThr (step_thr hstep) u (fun h => hv h.symm)).1
  obtain ⟨j2, hj2, hm⟩ := H.weak u a (fun j' hj' => by
    obtain ⟨d, rfl⟩ : ∃ d, j' = a + d := ⟨j' - a, by omega⟩
    have hq6 := ((qinv_of_reachable (x.reach hr (a + d))).qi.q6 u (by rw [hall d]; simp)).2
    exact ⟨.inr (by rw [hall d]; simp), not_blocked_of_pc (blocking_of_opn hq6)⟩)
  obtain ⟨d, rfl⟩ : ∃ d, j2 = a + d := ⟨j2 - a, by omega⟩
  rcases hm with h | h
  · exact h (hpc d)
  · exact h (by rw [hall d]; exact hall (d + 1))

end WaitN
