import NsyncVerif.Gen.Sites
import NsyncVerif.Proofs.CvMuVC
/-
  Tie lemma (T-gen) for the cv-signal edge of C03, transferred waiters: the sites of mu.c, mu_wait.c,
  common.c and cv.c whose declared orders the composed chain uses (`transferSiteRows`) carry, in
  /repo's CURRENT source (regenerated table `Gen.sites`), the macro — hence the memory order — the
  chain assumes; and every plain store to a mutex word anywhere in the library is a release store.
  A weakened `ATM_CAS_RELACQ` in nsync_mu_unlock_slow_, a weakened `ATM_STORE_REL
  (&…->waiting, 0)` there, or a moved site makes this fail — also on paths no explored schedule
  reaches.
-/
namespace NsyncVerif.Tie
theorem transfer_sites_tie : NsyncVerif.CvMu.transferSitesAgree Gen.sites = true := by decide
theorem mu_word_stores_tie : NsyncVerif.CvMu.muWordStoresRel Gen.sites = true := by decide
end NsyncVerif.Tie
