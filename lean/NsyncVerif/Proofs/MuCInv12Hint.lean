import NsyncVerif.Proofs.MuCInv12Step
/-
  MuC, Inv12: the induction step, part 2 — the hint bits MU_WRITER_WAITING and MU_LONG_WAIT stay justified.
-/
namespace NsyncVerif.MuC

section step
variable {s s' : State} {t : Tid}

theorem inv12_mtw_step (a : Invs s) (tl : StepTL s s' t) (h : Inv12 s) (u : Tid) (old : Word)
    (ho : (s'.pc u).mtOld = some old) : s'.word.ww = false := by
  cases hww' : s'.word.ww with
  | false => rfl
  | true =>
    exfalso
    by_cases e : u = t
    · subst e
      rcases tl.wd.p8 old ho with b | b
      · have hww := h.mtw u old b
        rcases tl.wd.p3 hww' with c | ⟨_, c⟩ | ⟨f, c, _⟩
        · rw [hww] at c; cases c
        · have := a.i3.no_spin_of_free c u; rw [spin_of_mtOld b] at this; cases this
        · rw [finOf_mtOld c] at b; cases b
      · rw [b] at hww'; cases hww'
    · rw [(tl.oth u e).1] at ho
      have hww := h.mtw u old ho
      have hsp := spin_of_mtOld ho
      rcases tl.wd.p3 hww' with c | ⟨_, c⟩ | ⟨f, c, _⟩
      · rw [hww] at c; cases c
      · have := a.i3.no_spin_of_free c u; rw [hsp] at this; cases this
      · have := a.i3.others_no_spin (finOf_spin c) u e; rw [hsp] at this; cases this

theorem inv12_ok_step (tl : StepTL s s' t) (h : Inv12 s) (u : Tid) : (s'.pc u).ok12 := by
  by_cases e : u = t
  · subst e; exact tl.wd.p9 (h.ok u)
  · rw [(tl.oth u e).1]; exact h.ok u

/-- A thread between the acquiring CAS and the release store of mu_try_acquire_after_timeout_or_cancel holds the writer
    bit. -/
theorem wlock_of_mtOld (a : Invs s) {u : Tid} {old : Word} (h : (s.pc u).mtOld = some old) : s.word.wlock = true := by
  have hni : s.pc u ≠ .idle := by intro e; rw [e] at h; cases h
  have hsh : shareOf s u = some .W := by
    rw [a.i1.share_eq hni]
    cases hp : s.pc u <;> rw [hp] at h <;> simp [PC.mtOld] at h <;> rfl
  have := (a.i1.lock.wown u).2 hsh
  rw [a.i1.lock.wl, this]; rfl

theorem inv12_mtlw_step (a : Invs s) (tl : StepTL s s' t) (h : Inv12 s) (u : Tid) (old : Word)
    (ho : (s'.pc u).mtOld = some old) (hl : old.lw = true) : s'.word.lw = true := by
  by_cases e : u = t
  · subst e
    exact tl.lw.p12 old ho hl (fun hs => h.mtlw u old hs hl)
  · rw [(tl.oth u e).1] at ho
    have hlw := h.mtlw u old ho hl
    rcases tl.lw.p13 hlw with b | b | b
    · exact b
    · rw [wlock_of_mtOld a ho] at b; cases b
    · exfalso
      cases hm : (s.pc t).mtOld with
      | none => exact b hm
      | some o' =>
        have h1 := spin_of_mtOld hm
        have h2 := spin_of_mtOld ho
        have := a.i3.others_no_spin h1 u e
        rw [h2] at this; cases this

theorem inv12_lw_step (tl : StepTL s s' t) (h : Inv12 s) (hlw' : s'.word.lw = true) :
    ∃ u c, (s'.pc u).sl? = some c ∧ c.lwl = true := by
  rcases tl.wd.p6 hlw' with b | ⟨c, b1, b2⟩ | ⟨old, b1, b2⟩
  · obtain ⟨u, c, hu, hc⟩ := h.lw b
    by_cases e : u = t
    · subst e
      rcases tl.wd.p7 c hu hc with ⟨c', d1, d2⟩ | d
      · exact ⟨u, c', d1, d2⟩
      · rw [d] at hlw'; cases hlw'
    · exact ⟨u, c, by rw [(tl.oth u e).1]; exact hu, hc⟩
  · exact ⟨t, c, b1, b2⟩
  · -- a release store of mu_try_acquire_after_timeout_or_cancel that writes MU_LONG_WAIT: the bit was set all along
    obtain ⟨u, c, hu, hc⟩ := h.lw (h.mtlw t old b1 b2)
    by_cases e : u = t
    · subst e
      rcases tl.wd.p7 c hu hc with ⟨c', d1, d2⟩ | d
      · exact ⟨u, c', d1, d2⟩
      · rw [d] at hlw'; cases hlw'
    · exact ⟨u, c, by rw [(tl.oth u e).1]; exact hu, hc⟩

theorem inv12_rcn_step (a : Invs s) (tl : StepTL s s' t) (h : Inv12 s) (u : Tid) (k : Wid)
    (hu : (s'.pc u).lsRec = some k) : (s'.wr k).cond = none := by
  have key : ∀ v, (s.pc v).lsRec = some k → (s'.wr k).cond = none := by
    intro v hv
    rcases tl.rc.r3 k with b | ⟨b1, b2⟩
    · rw [b.2]; exact h.rcn v k hv
    · exfalso
      obtain ⟨_, c2, c3⟩ := tl.rc.r2 k b1 b2
      have hown := a.i4.own v k (lsRec_mem_ws hv)
      have hvt : v = t := by
        rcases c2 with c2 | c2
        · have := a.i4.own t k c2; rw [hown] at this; cases this; rfl
        · rw [hown] at c2; cases c2
      subst hvt
      rw [(lsRec_waitRec hv).1] at c3; cases c3
  by_cases e : u = t
  · subst e
    rcases tl.rc.r4 k hu with b | b
    · exact key u b
    · exact b
  · rw [(tl.oth u e).1] at hu; exact key u hu

/-- `WB` / `WB0` for a record that was queued and stays as it is. -/
theorem wb_keep (a : Invs s) (a' : Invs s') (tl : StepTL s s' t) {k : Wid} (hq : Queued s k) (hmt : (s.pc t).mtOld = none)
    (hl : (s.wr k).lType = .W) :
    (Queued s' k ∧ (s'.wr k).lType = .W ∧ (s'.wr k).cond = (s.wr k).cond) ∨ ∃ u, WJ s' u := by
  obtain ⟨⟨h1, h2⟩, h3⟩ := queued_keep a a' tl hq hmt
  rcases h3 with b | ⟨u, b1, b2, b3, b4⟩
  · exact Or.inl ⟨b, by rw [h1]; exact hl, h2⟩
  · exact Or.inr ⟨u, Or.inr ⟨k, b1, b2, by rw [b3]; exact hl, b4⟩⟩

theorem mtOld_none_of_ww (h : Inv12 s) (hww : s.word.ww = true) (u : Tid) : (s.pc u).mtOld = none := by
  cases ho : (s.pc u).mtOld with
  | none => rfl
  | some old => have := h.mtw u old ho; rw [hww] at this; cases this

theorem passedW_evalOpt {late : Bool} {k : Wid} (h : PassedW s late k) : evalOpt s.data (s.wr k).cond = true := by
  rcases h.2 with b | ⟨_, c, b1, b2⟩
  · rw [b]; rfl
  · rw [b1]; exact b2

theorem inv12_ww_step (a : Invs s) (a' : Invs s') (tl : StepTL s s' t) (h : Inv12 s) (hww' : s'.word.ww = true) :
    (∃ u, WJ s' u) ∨ WB s' := by
  rcases tl.wd.p3 hww' with hww | ⟨b, _⟩ | ⟨f, hf, hs⟩
  · rcases h.ww hww with ⟨u, hu⟩ | ⟨k, hq, hl, he⟩
    · exact Or.inl ⟨u, wj_keep a a' tl (fun old => h.mtw t old) hww hww' hu⟩
    · rcases wb_keep a a' tl hq (mtOld_none_of_ww h hww t) hl with ⟨b1, b2, b3⟩ | b
      · exact Or.inr ⟨k, b1, b2, by rw [b3, tl.data]; exact he⟩
      · exact Or.inl b
  · exact Or.inl ⟨t, Or.inl b⟩
  · obtain ⟨k, hk, hp⟩ := a.i10.swf t f hf hs
    rcases wb_keep a a' tl (Or.inl hk) (finOf_mtOld hf) hp.1 with ⟨b1, b2, b3⟩ | b
    · exact Or.inr ⟨k, b1, b2, by rw [b3, tl.data]; exact passedW_evalOpt hp⟩
    · exact Or.inl b

theorem inv12_wws_step (a : Invs s) (a' : Invs s') (tl : StepTL s s' t) (h : Inv12 s) (hww' : s'.word.ww = true)
    (hc' : ClientW s') : (∃ u, WJ s' u) ∨ WB0 s' := by
  obtain ⟨v, hv, hun⟩ := hc'
  obtain ⟨hv0, hun0⟩ := tl.wd.p10 v hv (fun e => by subst e; exact hun) hww'
  have hc : ClientW s := by
    refine ⟨v, hv0, ?_⟩
    by_cases e : v = t
    · subst e; exact hun0 rfl
    · rw [← (tl.oth v e).1]; exact hun
  rcases tl.wd.p3 hww' with hww | ⟨b, _⟩ | ⟨f, hf, hs⟩
  · rcases h.wws hww hc with ⟨u, hu⟩ | ⟨k, hq, hl, he⟩
    · exact Or.inl ⟨u, wj_keep a a' tl (fun old => h.mtw t old) hww hww' hu⟩
    · rcases wb_keep a a' tl hq (mtOld_none_of_ww h hww t) hl with ⟨b1, b2, b3⟩ | b
      · exact Or.inr ⟨k, b1, b2, by rw [b3]; exact he⟩
      · exact Or.inl b
  · exact Or.inl ⟨t, Or.inl b⟩
  · obtain ⟨k, hk, hp⟩ := a.i10.swf t f hf hs
    have hlate : f.late = false := by
      cases e : f.late with
      | false => rfl
      | true =>
        exfalso
        have hne : s.pc t ≠ .idle := by intro e'; rw [e'] at hf; simp [PC.finOf] at hf
        have hsh : shareOf s t = some .W := by rw [a.i1.share_eq hne]; exact finOf_share hf e
        have hown := (a.i1.lock.wown t).2 hsh
        rw [hv0] at hown; cases hown
        have := hun0 rfl
        rw [unl_of_fin hf] at this; cases this
    have hcn : (s.wr k).cond = none := by
      rcases hp.2 with b | ⟨b, _⟩
      · exact b
      · rw [hlate] at b; cases b
    rcases wb_keep a a' tl (Or.inl hk) (finOf_mtOld hf) hp.1 with ⟨b1, b2, b3⟩ | b
    · exact Or.inr ⟨k, b1, b2, by rw [b3]; exact hcn⟩
    · exact Or.inl b

end step

end NsyncVerif.MuC
