/-
  Layer `CvFix`, liveness (C04 / C05 fair wake-up and return): infinite executions of the CvFix
  acceptor, the enabledness / fairness notions, the hypotheses about the neighbouring layers, the
  FULL statements `C04_fair_wakeup_full` / `C05_fair_return_full`, and generic facts about `Exec`
  (first move after a given time, the use of weak fairness `fair_move`, the leads-to rule `leads`).

  The choice of the notions is justified in the header of `Props/C04Fair.lean`.
-/
import NsyncVerif.Props.C04Fix
import NsyncVerif.Props.C05CvFix
import NsyncVerif.Props.C16CvObserver

namespace NsyncVerif.CvFix

/-! ### executions -/

/-- An infinite execution from `s0`; `σ i = none` means that nobody moves at time `i`. -/
structure Exec (cfg : Config) (s0 : State) where
  ρ : Nat → State
  σ : Nat → Option Event
  start : ρ 0 = s0
  next : ∀ i, match σ i with
    | none => ρ (i + 1) = ρ i
    | some e => step cfg (ρ i) e = .ok (ρ (i + 1))

/-- Thread `t` takes a step at time `j`: any accepted event of `t` (a failed CAS and a load of a spin
    loop count as steps) except `noteSeen t`, the mark "the thread has observed its cancel note
    notified", which the acceptor accepts at every program point (outside sem_wait.c as a no-op):
    it is an observation about the note layer, not a step of cv.c. -/
def Moves {cfg : Config} {s0 : State} (x : Exec cfg s0) (t : Tid) (j : Nat) : Prop :=
  ∃ e, x.σ j = some e ∧ e.tid = some t ∧ e ≠ .noteSeen t

/-! ### program points -/

/-- The thread is blocked in the semaphore wait of a cv wait. -/
def Loc.asleep : Loc → Bool
  | .wSemRet | .cWait => true
  | _ => false

/-- The semaphore wait of `t` can return: the count of its semaphore is positive, or the deadline
    handed to the semaphore wait has been reached. -/
def CanWake (s : State) (t : Tid) : Prop :=
  (∃ k, (s.thr t).r = .w k ∧ 0 < s.sem k) ∨ (∃ d, (s.thr t).semDl = some d ∧ d ≤ s.now)

/-- Program points at which the thread executes code of ANOTHER layer, or of the client: the waiter
    pool (`wNew`: nsync_waiter_new_; `wExit`: nsync_waiter_free_ and the call of the lock function),
    the caller's mutex (`wUnlocking`, `wLocking`, `wRelocking`), the note code called by
    sem_wait.c (`cPre`, `cPost`), nsync_wait_n outside cv_enqueue / cv_dequeue (`nOut`).  At all of
    them the acceptor accepts any number of foreign accesses (`Loc.isOpen`), so "the thread moves"
    says nothing about its progress: whether it comes back is a hypothesis about that layer. -/
def Loc.foreign : Loc → Bool
  | .wNew | .wUnlocking | .wExit | .wLocking | .wRelocking | .cPre | .cPost | .nOut => true
  | _ => false

/-- Inside the mutex-word release loop of wake_waiters (cv.c:130-134). -/
def Loc.muRel : Loc → Bool
  | .wwRelLd | .wwRelCas | .wwRelLd2 => true
  | _ => false

/-- Inside the caller's mutex code, or about to call it after the wait loop. -/
def Loc.inMutex : Loc → Bool
  | .wUnlocking | .wExit | .wLocking | .wRelocking => true
  | _ => false

/-- Inside nsync_sem_wait_with_cancel_, outside the semaphore wait. -/
def Loc.inCancel : Loc → Bool
  | .cPre | .cPost => true
  | _ => false

/-- Inside nsync_cv_signal / nsync_cv_broadcast. -/
def inWake (x : Thr) : Bool :=
  match x.loc with
  | .sLd | .sRcLd | .sRcCas | .sRel | .wwMuLd | .wwMuCas | .wwRelLd | .wwRelCas | .wwRelLd2
  | .wwStore | .wwV | .kRet => true
  | .spLd0 | .spLd2 | .spCas => x.cont == .sig
  | _ => false

/-- Inside nsync_cv_wait_with_deadline[_generic]. -/
def inWait (x : Thr) : Bool :=
  waitLive x || waitPrep x ||
    (match x.loc with
     | .wNew | .wExit | .wLocking | .wRelocking | .wRet => true
     | _ => false)

/-! ### fairness and the hypotheses about the neighbouring layers -/

/-- `t` is inside a call, executes code of THIS layer (cv.c, the spin loop of common.c, debug.c), and
    is not inside the semaphore wait.  At such a program point the only accepted events of `t` are
    the next operation of that code (and the no-op `noteSeen t`). -/
def Ready (s : State) (t : Tid) : Prop :=
  (s.thr t).loc ≠ .idle ∧ (s.thr t).loc.foreign = false ∧ (s.thr t).loc.asleep = false

/-- Weak fairness on each thread's next step: a thread that from time `i` on is continuously
    `Ready` moves at some time `j ≥ i`. -/
def WeakFair {cfg : Config} {s0 : State} (x : Exec cfg s0) : Prop :=
  ∀ t i, (∀ j, i ≤ j → Ready (x.ρ j) t) → ∃ j, i ≤ j ∧ Moves x t j

/-- The semaphore layer (C12's guarantee "a post is never lost: a P whose post has been made
    eventually returns", and its timeout): no thread stays inside its semaphore wait for ever if from
    some time on the wait can return (`CanWake`: count positive, or deadline reached). -/
def SemFair {cfg : Config} {s0 : State} (x : Exec cfg s0) : Prop :=
  ∀ t i, (∀ j, i ≤ j → ((x.ρ j).thr t).loc.asleep = true ∧ CanWake (x.ρ j) t) → False

/-- Strong fairness of the acquisition of the cv spinlock (a test-and-set lock): no thread stays in
    `nsync_spin_test_and_set_` for ever while the spinlock is free again and again. -/
def SpinFair {cfg : Config} {s0 : State} (x : Exec cfg s0) : Prop :=
  ∀ t i, (∀ j, i ≤ j → ((x.ρ j).thr t).loc.spinLoop = true) →
    (∀ j, i ≤ j → ∃ j', j ≤ j' ∧ (x.ρ j').holder = none) → False

/-- wake_waiters releases the MUTEX's spinlock (which it took at cv.c:67) by a CAS loop on the mutex
    word (cv.c:130-134).  The mutex word is abstract in this layer (every observed value is
    accepted), so that the loop ends is a hypothesis: no thread stays in it for ever. -/
def MuRelFair {cfg : Config} {s0 : State} (x : Exec cfg s0) : Prop :=
  ∀ t i, (∀ j, i ≤ j → ((x.ρ j).thr t).loc.muRel = true) → False

/-- The caller's mutex (C02's guarantee, imported): a thread that is releasing it (`wUnlocking`),
    has left the wait loop (`wExit`) or is re-acquiring it (`wLocking`, `wRelocking`) eventually
    gets to its next program point. -/
def MutexFair {cfg : Config} {s0 : State} (x : Exec cfg s0) : Prop :=
  ∀ t i, ((x.ρ i).thr t).loc.inMutex = true → ∃ j, i ≤ j ∧ ((x.ρ j).thr t).loc ≠ ((x.ρ i).thr t).loc

/-- The waiter pool: nsync_waiter_new_ returns (the thread performs cv.c:196). -/
def AllocFair {cfg : Config} {s0 : State} (x : Exec cfg s0) : Prop :=
  ∀ t i, ((x.ρ i).thr t).loc = .wNew → ∃ j, i ≤ j ∧ ((x.ρ j).thr t).loc ≠ .wNew

/-- The note code called by nsync_sem_wait_with_cancel_ returns. -/
def CancelFair {cfg : Config} {s0 : State} (x : Exec cfg s0) : Prop :=
  ∀ t i, ((x.ρ i).thr t).loc.inCancel = true → ∃ j, i ≤ j ∧ ((x.ρ j).thr t).loc ≠ ((x.ρ i).thr t).loc

/-- sem_wait.c:40-50: a thread that has observed its cancel note notified does not start a
    semaphore wait (the acceptor, for which the note is flat, does not enforce this). -/
def NoSleepAfterNotify {cfg : Config} {s0 : State} (x : Exec cfg s0) : Prop :=
  ∀ j t k dl, x.σ j = some (.semPdEnter t k dl) → ((x.ρ j).thr t).loc = .cPre →
    ((x.ρ j).thr t).sawNote = false

/-- The note layer: a thread asleep in the semaphore wait of a cancellable wait whose note it has
    observed notified is woken (nsync_note_notify posts `nw.sem = &w->sem`). -/
def NoteWakes {cfg : Config} {s0 : State} (x : Exec cfg s0) : Prop :=
  ∀ t i, ((x.ρ i).thr t).loc = .cWait → ((x.ρ i).thr t).sawNote = true →
    ∃ j, i ≤ j ∧ ((x.ρ j).thr t).loc ≠ .cWait

/-- The clock passes every finite deadline a sleeper waits for. -/
def ClockAdvances {cfg : Config} {s0 : State} (x : Exec cfg s0) : Prop :=
  ∀ t i d, ((x.ρ i).thr t).loc.asleep = true → ((x.ρ i).thr t).semDl = some d →
    ∃ j, i ≤ j ∧ d ≤ (x.ρ j).now

/-- The mutex layer wakes a transferred waiter: a record with status `xfer` gets the foreign store
    `waiting := 0` and its V.  State form: from some time on, as long as the record is `xfer`, its
    `waiting` flag is 0 and, while its owner is asleep on the semaphore, the count is positive. -/
def TransferFair {cfg : Config} {s0 : State} (x : Exec cfg s0) : Prop :=
  ∀ k i, ((x.ρ i).recs (.w k)).stat = .xfer → ∃ j, i ≤ j ∧ ∀ j', j ≤ j' →
    ((x.ρ j').recs (.w k)).stat = .xfer →
      ((x.ρ j').recs (.w k)).waiting = false ∧
      (((x.ρ j').thr ((x.ρ j').recs (.w k)).owner).loc.asleep = true → 0 < (x.ρ j').sem k)

/-- A semaphore is private to its waiter: the V of a waker of this cv is not consumed by anybody
    but the owner of the record (the acceptor accepts `sem p_ret` on any semaphore from any thread
    outside cv.c).  State form: a woken and posted record whose owner is (still) asleep on the
    semaphore has a positive count. -/
def PostKept {cfg : Config} {s0 : State} (x : Exec cfg s0) : Prop :=
  ∀ j k, ((x.ρ j).recs (.w k)).stat = .woken → ((x.ρ j).recs (.w k)).posted = true →
    ((x.ρ j).thr ((x.ρ j).recs (.w k)).owner).loc.asleep = true →
    ((x.ρ j).thr ((x.ρ j).recs (.w k)).owner).r = .w k → 0 < (x.ρ j).sem k

/-- Every thread suffers only finitely many spurious returns of its semaphore wait (a return with 0
    while `waiting` is still 1: a stray V on its semaphore by another layer, or by a late waker of
    an earlier instance of the pooled waiter). -/
def FiniteSpurious {cfg : Config} {s0 : State} (x : Exec cfg s0) : Prop :=
  ∀ t, ∃ n, ∀ j k, n ≤ j → x.σ j = some (.semPdRet t k false) → ((x.ρ j).thr t).loc.asleep = true →
    ((x.ρ j).recs ((x.ρ j).thr t).r).waiting = false

/-- All hypotheses about the schedule and the neighbouring layers. -/
structure Hyps {cfg : Config} {s0 : State} (x : Exec cfg s0) : Prop where
  reach : Reachable cfg s0
  weak : WeakFair x
  spin : SpinFair x
  muRel : MuRelFair x

/-- … and those needed by a waiter. -/
structure WaitHyps {cfg : Config} {s0 : State} (x : Exec cfg s0) : Prop extends Hyps x where
  sem : SemFair x
  mutex : MutexFair x
  alloc : AllocFair x
  cancel : CancelFair x
  transfer : TransferFair x
  kept : PostKept x
  finSp : FiniteSpurious x

/-! ### the FULL statements -/

/-- The acquisition of the cv spinlock by signal (`b = false`) / broadcast (`b = true`) at time `i`. -/
def WakerAcquires {cfg : Config} {s0 : State} (x : Exec cfg s0) (t : Tid) (b : Bool) (i : Nat) : Prop :=
  (∃ exp new obs, x.σ i = some (.wordCas t exp new obs true)) ∧
    ((x.ρ i).thr t).cont = .sig ∧ ((x.ρ i).thr t).bcast = b

/-- `r` is eventually transferred to the mutex queue, or woken: some waker of this cv performs the V
    for it (`cur = some (r, _)` holds exactly between that waker's store `waiting := 0` into `r` and
    its V: invariant `InvE.curLoc`).  (Not "status `woken` and posted": the owner may see
    `waiting = 0` and leave before the V.) -/
def EventuallyWoken {cfg : Config} {s0 : State} (x : Exec cfg s0) (r : Rid) (i : Nat) : Prop :=
  ∃ j, i ≤ j ∧ (((x.ρ j).recs r).stat = .xfer ∨
    ∃ u q k, ((x.ρ j).thr u).cur = some (r, q) ∧ x.σ j = some (.semV u k))

/-- FULL statement of C04, liveness form.
    (1) every nsync_cv_signal / nsync_cv_broadcast call returns;
    (2) broadcast: every record on `pcv->waiters` when the broadcast takes the spinlock is
        eventually woken or transferred, and if it is the record of a cv wait (pooled waiter) its
        owner's call returns, with result 0 (`C04_outcome_partial`: it was unlinked by a waker);
    (3) signal: the same for every record of `sigSelect` (the first waiter; all readers if the
        first is a reader) — in particular for the first one: at least one. -/
def C04_fair_wakeup_full : Prop :=
  ∀ (cfg : Config) (s0 : State) (x : Exec cfg s0), WaitHyps x →
    (∀ t i, inWake ((x.ρ i).thr t) = true →
      ∃ j, i ≤ j ∧ (x.σ j = some (.retSignal t) ∨ x.σ j = some (.retBroadcast t))) ∧
    (∀ t i, WakerAcquires x t true i → ∀ r, r ∈ (x.ρ i).queue →
      EventuallyWoken x r i ∧
      (r.isMucv = true → ∃ j, i ≤ j ∧ x.σ j = some (.retWait ((x.ρ i).recs r).owner .ok))) ∧
    (∀ t i, WakerAcquires x t false i →
      (∀ f rest, (x.ρ i).queue = f :: rest → f ∈ sigSelect (x.ρ i).recs (x.ρ i).queue) ∧
      ∀ r, r ∈ sigSelect (x.ρ i).recs (x.ρ i).queue →
        EventuallyWoken x r i ∧
        (r.isMucv = true → ∃ j, i ≤ j ∧ x.σ j = some (.retWait ((x.ρ i).recs r).owner .ok)))

/-- The record of `t`'s wait has been unlinked by a waker ("covered by a wake-up"). -/
def Covered (s : State) (t : Tid) : Prop :=
  waitLive (s.thr t) = true ∧
    ((∃ u, (s.recs (s.thr t).r).stat = .listed u) ∨ (s.recs (s.thr t).r).stat = .woken ∨
     (s.recs (s.thr t).r).stat = .xfer)

/-- FULL statement of C05, liveness form: a cv wait returns
    (a) once the clock has passed its deadline, even if never signalled (finitely many spurious
        wake-ups), with result 0 or ETIMEDOUT;
    (b) once its thread has observed the cancel note notified (`noteSeen`, the model's cancel event),
        with result 0 or ECANCELED or ETIMEDOUT;
    (c) with neither: if it is ever covered by a wake-up, with result 0. -/
def C05_fair_return_full : Prop :=
  ∀ (cfg : Config) (s0 : State) (x : Exec cfg s0), WaitHyps x →
    (∀ t i d, inWait ((x.ρ i).thr t) = true → ((x.ρ i).thr t).dl = some d → d ≤ (x.ρ i).now →
      ∃ j res, i ≤ j ∧ x.σ j = some (.retWait t res) ∧ (res = .ok ∨ res = .timedOut ∨ res = .cancelled)) ∧
    (NoSleepAfterNotify x → NoteWakes x →
      ∀ t i, inWait ((x.ρ i).thr t) = true → ((x.ρ i).thr t).note = true →
        ((x.ρ i).thr t).sawNote = true → ∃ j res, i ≤ j ∧ x.σ j = some (.retWait t res)) ∧
    (∀ t i, Covered (x.ρ i) t → ∃ j, i ≤ j ∧ x.σ j = some (.retWait t .ok))

/-! ### generic facts -/

variable {cfg : Config} {s0 : State}

theorem Exec.next_none (x : Exec cfg s0) {i : Nat} (h : x.σ i = none) : x.ρ (i + 1) = x.ρ i := by
  have := x.next i; rw [h] at this; exact this

theorem Exec.next_some (x : Exec cfg s0) {i : Nat} {e : Event} (h : x.σ i = some e) :
    step cfg (x.ρ i) e = .ok (x.ρ (i + 1)) := by
  have := x.next i; rw [h] at this; exact this

theorem Exec.reach (x : Exec cfg s0) (hr : Reachable cfg s0) : ∀ i, Reachable cfg (x.ρ i) := by
  intro i
  induction i with
  | zero => rw [x.start]; exact hr
  | succ i ih =>
    cases h : x.σ i with
    | none => rw [x.next_none h]; exact ih
    | some e => exact reachable_step ih (x.next_some h)

/-- The first move of `t` at or after time `i`. -/
theorem first_move (x : Exec cfg s0) {t : Tid} : ∀ d i, Moves x t (i + d) →
    ∃ j, i ≤ j ∧ Moves x t j ∧ ∀ j', i ≤ j' → j' < j → ¬ Moves x t j' := by
  intro d
  induction d with
  | zero => intro i h; exact ⟨i, Nat.le_refl _, h, fun j' h1 h2 => by omega⟩
  | succ d ih =>
    intro i h
    by_cases hi : Moves x t i
    · exact ⟨i, Nat.le_refl _, hi, fun j' h1 h2 => by omega⟩
    · obtain ⟨j, h1, h2, h3⟩ := ih (i + 1) (by rw [show i + 1 + d = i + (d + 1) by omega]; exact h)
      refine ⟨j, by omega, h2, fun j' h4 h5 => ?_⟩
      by_cases hj : j' = i
      · subst hj; exact hi
      · exact h3 j' (by omega) h5

theorem first_move' (x : Exec cfg s0) {t : Tid} {i : Nat} (h : ∃ j, i ≤ j ∧ Moves x t j) :
    ∃ j, i ≤ j ∧ Moves x t j ∧ ∀ j', i ≤ j' → j' < j → ¬ Moves x t j' := by
  obtain ⟨j, hij, hm⟩ := h
  obtain ⟨d, rfl⟩ : ∃ d, j = i + d := ⟨j - i, by omega⟩
  exact first_move x d i hm

/-- Weak fairness enters the proofs only here: a thread that stays `Ready` as long as it does not
    move, moves. -/
theorem fair_move (x : Exec cfg s0) (hf : WeakFair x) {t : Tid} {i : Nat}
    (h : ∀ j, i ≤ j → (∀ j', i ≤ j' → j' < j → ¬ Moves x t j') → Ready (x.ρ j) t) :
    ∃ j, i ≤ j ∧ Moves x t j := by
  apply Classical.byContradiction
  intro hn
  have hnm : ∀ j, i ≤ j → ¬ Moves x t j := fun j hj hm => hn ⟨j, hj, hm⟩
  obtain ⟨j, hj, hm⟩ := hf t i (fun j hj => h j hj (fun j' h1 _ => hnm j' h1))
  exact hnm j hj hm

theorem stay_until (x : Exec cfg s0) {t : Tid} {R G : Nat → Prop} {rk : Nat → Nat}
    (hstay : ∀ j, R j → ¬ Moves x t j → G (j + 1) ∨ (R (j + 1) ∧ rk (j + 1) ≤ rk j)) {i : Nat} :
    ∀ d, (∀ j, i ≤ j → j < i + d → ¬ Moves x t j) → R i →
      (∃ j, i ≤ j ∧ G j) ∨ (R (i + d) ∧ rk (i + d) ≤ rk i) := by
  intro d
  induction d with
  | zero => intro _ h; exact .inr ⟨h, Nat.le_refl _⟩
  | succ d ih =>
    intro h hR
    rcases ih (fun j h1 h2 => h j h1 (by omega)) hR with hg | ⟨a, b⟩
    · exact .inl hg
    · rcases hstay (i + d) a (h (i + d) (by omega) (by omega)) with hg | ⟨a', b'⟩
      · exact .inl ⟨i + d + 1, by omega, hg⟩
      · exact .inr ⟨a', by rw [show i + (d + 1) = i + d + 1 by omega]; omega⟩

/-- Leads-to by a local rank: in the class of states `R` (indexed by time) thread `t` always moves
    again, steps of the others keep `R` and do not increase the rank, every step of `t` keeps `R` and
    decreases the rank — unless the goal `G` is reached.  Then `G` is reached. -/
theorem leads (x : Exec cfg s0) (t : Tid) (R G : Nat → Prop) (rk : Nat → Nat)
    (hstay : ∀ j, R j → ¬ Moves x t j → G (j + 1) ∨ (R (j + 1) ∧ rk (j + 1) ≤ rk j))
    (hmove : ∀ j, R j → Moves x t j → G (j + 1) ∨ (R (j + 1) ∧ rk (j + 1) < rk j))
    (hlive : ∀ j, R j → ∃ j', j ≤ j' ∧ Moves x t j') :
    ∀ i, R i → ∃ j, i ≤ j ∧ G j := by
  have key : ∀ m i, rk i ≤ m → R i → ∃ j, i ≤ j ∧ G j := by
    intro m
    induction m with
    | zero =>
      intro i hm hR
      obtain ⟨j', h1, h2, h3⟩ := first_move' x (hlive i hR)
      obtain ⟨d, rfl⟩ : ∃ d, j' = i + d := ⟨j' - i, by omega⟩
      rcases stay_until x hstay d h3 hR with hg | ⟨a, b⟩
      · exact hg
      · rcases hmove (i + d) a h2 with hg | ⟨_, c⟩
        · exact ⟨i + d + 1, by omega, hg⟩
        · omega
    | succ m ih =>
      intro i hm hR
      obtain ⟨j', h1, h2, h3⟩ := first_move' x (hlive i hR)
      obtain ⟨d, rfl⟩ : ∃ d, j' = i + d := ⟨j' - i, by omega⟩
      rcases stay_until x hstay d h3 hR with hg | ⟨a, b⟩
      · exact hg
      · rcases hmove (i + d) a h2 with hg | ⟨a', c⟩
        · exact ⟨i + d + 1, by omega, hg⟩
        · obtain ⟨j, hj, hG⟩ := ih (i + d + 1) (by omega) a'
          exact ⟨j, by omega, hG⟩
  intro i hR
  exact key (rk i) i (Nat.le_refl _) hR

end NsyncVerif.CvFix
