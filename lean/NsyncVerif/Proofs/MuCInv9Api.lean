import NsyncVerif.Proofs.MuCInv9St
/-
  MuC (I_wait): store steps.
-/
namespace NsyncVerif.MuC

/-- lock_slow queues the record `k` (reset to `rec`) of thread `t`, which holds the spinlock. -/
theorem Inv9.enq_slow {s E : State} (t : Tid) (k : Wid) (c' : SL) (rec : WRec) (h3 : Inv3 s) (h4 : Inv4 s) (h : Inv9 s)
    (hspin : (s.pc t).spin = true) (hpend : (s.pc t).enqPend = true) (hwrec : (s.pc t).waitRec = none)
    (hEq : ∀ x, x ∈ E.queue ↔ x = k ∨ x ∈ s.queue) (hEpc : E.pc = s.pc) (hEw : E.word = s.word)
    (hEwr : ∀ x, ((E.wr x).waiting = ((setFn s.wr k rec) x).waiting ∧ (E.wr x).lType = ((setFn s.wr k rec) x).lType ∧
      (E.wr x).sem = ((setFn s.wr k rec) x).sem))
    (hrw : rec.waiting = true) (hrl : rec.lType = c'.l) (hrs : rec.sem = (s.wr k).sem) (hcw : c'.w = some k)
    (hown : (s.wr k).owner = none ∨ (s.wr k).owner = some t) :
    Inv9 (setPc E t (.lsRelLd c')) := by
  have hsp := h3.others_no_spin hspin
  have hpcs : ∀ u, u ≠ t → (setPc E t (.lsRelLd c')).pc u = s.pc u := by
    intro u hu; simp [setFn, hu, hEpc]
  have hsc : ∀ u, ((setPc E t (.lsRelLd c')).pc u).scan? = (s.pc u).scan? := by
    intro u; by_cases e : u = t
    · subst e
      have : (s.pc u).scan? = none := by
        cases hp : s.pc u <;> rw [hp] at hpend <;> simp [PC.enqPend] at hpend <;> rfl
      rw [this]; simp [PC.scan?]
    · rw [hpcs u e]
  have hwkL : ∀ u, ((setPc E t (.lsRelLd c')).pc u).wakeL = (s.pc u).wakeL := by
    intro u; by_cases e : u = t
    · subst e
      have : (s.pc u).wakeL = [] := by
        cases hp : s.pc u <;> rw [hp] at hpend <;> simp [PC.enqPend] at hpend <;> rfl
      rw [this]; simp [PC.wakeL]
    · rw [hpcs u e]
  have hQ : ∀ x, Queued (setPc E t (.lsRelLd c')) x ↔ x = k ∨ Queued s x := by
    intro x
    simp only [Queued, hsc, setPc_queue, hEq]
    constructor
    · rintro ((a | a) | a)
      · exact Or.inl a
      · exact Or.inr (Or.inl a)
      · exact Or.inr (Or.inr a)
    · rintro (a | a | a)
      · exact Or.inl (Or.inl a)
      · exact Or.inl (Or.inr a)
      · exact Or.inr a
  have hother : ∀ u, u ≠ t → (s.pc u).waitRec ≠ some k := by
    intro u hu e
    have := h4.own u k (waitRec_mem_ws e)
    rcases hown with a | a
    · rw [a] at this; cases this
    · rw [a] at this; cases this; exact hu rfl
  have hww : s.word.waiting = true := h.w4p t hpend
  refine Inv9.core t (some k) h4 h ?_ ?_ ?_ ?_ ?_ ?_ ?_ hpcs ?_ ?_ ?_ ?_ ?_ ?_ ?_ ?_ ?_
  · intro _ _; simp [hEw, hww]
  · intro _ _; simp [hEw, hww]
  · intro u old ho
    by_cases e : u = t
    · subst e; simp [PC.mtOld] at ho
    · rw [hpcs u e] at ho
      have := spin_of_mtOld ho; rw [hsp u e] at this; cases this
  · rintro x (hx | ⟨u, hu⟩)
    · rcases (hQ x).1 hx with e | e
      · right; simp [PC.waitRec, hcw, e]
      · exact Or.inl (Or.inl e)
    · rw [hwkL] at hu; exact Or.inl (Or.inr ⟨u, hu⟩)
  · rintro x (hx | ⟨u, hu⟩) _ _
    · exact Or.inl ((hQ x).2 (Or.inr hx))
    · exact Or.inr ⟨u, by rw [hwkL]; exact hu⟩
  · intro x hx
    have hxk : x ≠ k := fun e => hx (by rw [e])
    have := hEwr x
    simp only [setPc_wr, setFn, hxk, if_false] at this ⊢
    exact ⟨this.1, this.2.1, by rw [this.2.2]; exact id⟩
  · intro u hu x e; have e' : k = x := by cases e; rfl
    rw [← e']; exact hother u hu
  · intro x hx; rw [hwrec] at hx; cases hx
  · intro x hx
    simp only [setPc_pc, setFn_same, PC.waitRec, hcw, Option.some.injEq] at hx
    have := hEwr x
    rw [← hx] at this ⊢
    simp only [setFn_same] at this
    simp only [setPc_wr, setPc_pc, setFn_same, PC.wmode]
    rw [this.2.1, hrl]
  · intro x hx _
    simp only [setPc_pc, setFn_same, PC.waitRec, hcw, Option.some.injEq] at hx
    exact Or.inl ((hQ x).2 (Or.inl hx.symm))
  · intro x hx; simp [PC.pwait] at hx
  · intro r x rest hv
    exfalso
    rw [hv] at hpend; simp [PC.enqPend] at hpend
  · intro k' l hk'; simp [PC.limboL] at hk'
  · intro u hu x l hl e
    have e' : k = x := by cases e; rfl
    rw [← e'] at hl
    have hmem : k ∈ (s.pc u).ws := limboL_mem_ws hl
    have := h4.own u k hmem
    rcases hown with a | a
    · rw [a] at this; cases this
    · rw [a] at this; cases this; exact hu rfl
  · intro x hx; simp [PC.hlRec] at hx
  · intro u hu x hx e
    have e' : k = x := by cases e; rfl
    rw [← e'] at hx
    have := h4.own u k (hlRec_mem_ws hx)
    rcases hown with a | a
    · rw [a] at this; cases this
    · rw [a] at this; cases this; exact hu rfl

theorem lnk3_mergeLinks (s : State) (p n : Option Wid) (x : Wid) :
    ((mergeLinks s p n).wr x).waiting = (s.wr x).waiting ∧ ((mergeLinks s p n).wr x).lType = (s.wr x).lType ∧
    ((mergeLinks s p n).wr x).sem = (s.wr x).sem := by
  have := lnkOnly_mergeLinks s p n x
  exact ⟨this.2.1, this.2.2.1, this.2.2.2.1⟩

/-- the record `k` of `t`, on no list and waited on by nobody, changes its contents; `t` moves between
    program points without a wait record -/
theorem Inv9.own_rec_step {s : State} (t : Tid) (k : Wid) (p : PC) (rec : WRec) (h4 : Inv4 s) (h : Inv9 s)
    (hown : (s.wr k).owner = none ∨ (s.wr k).owner = some t)
    (hwr0 : (s.pc t).waitRec = none) (hwr1 : p.waitRec = none) (hpw : p.pwait = none)
    (hsc : p.scan? = (s.pc t).scan?) (hwk : p.wakeL = (s.pc t).wakeL) (henq : p.enqPend = (s.pc t).enqPend)
    (hmt : p.mtOld = (s.pc t).mtOld) (hnv : ∀ r x rest, s.pc t ≠ .usWakeV r x rest)
    (hlim : ∀ x l, p.limboL = some (x, l) → (x = k ∧ rec.lType = l))
    (hhl : ∀ x, p.hlRec = some x → (x = k ∧ rec.waiting = false)) :
    Inv9 { setPc s t p with wr := setFn s.wr k rec } := by
  have hpcs : ∀ u, u ≠ t → ({ setPc s t p with wr := setFn s.wr k rec } : State).pc u = s.pc u := by
    intro u hu; simp [setFn, hu]
  have hother : ∀ u, u ≠ t → (s.pc u).waitRec ≠ some k := by
    intro u hu e
    have := h4.own u k (waitRec_mem_ws e)
    rcases hown with a | a
    · rw [a] at this; cases this
    · rw [a] at this; cases this; exact hu rfl
  have hQ : ∀ x, Queued ({ setPc s t p with wr := setFn s.wr k rec } : State) x ↔ Queued s x :=
    fun x => queued_same (s := s) (t := t) (by simp) hpcs (by simpa using hsc) x
  have hwkL : ∀ u, (({ setPc s t p with wr := setFn s.wr k rec } : State).pc u).wakeL = (s.pc u).wakeL := by
    intro u; by_cases e : u = t
    · subst e; simpa using hwk
    · rw [hpcs u e]
  have hL := listed_congr hQ hwkL
  refine Inv9.core t (some k) h4 h ?_ ?_ ?_ (fun x hx => Or.inl ((hL x).1 hx)) (fun x hx _ _ => (hL x).2 hx) ?_ ?_ hpcs ?_ ?_ ?_ ?_ ?_ ?_ ?_ ?_ ?_
  · intro x hx; exact h.w4 x ((hQ x).1 hx)
  · intro u hu
    by_cases e : u = t
    · subst e; simp only [setPc_pc, setFn_same, henq] at hu; exact h.w4p u hu
    · rw [hpcs u e] at hu; exact h.w4p u hu
  · intro u old ho x hx
    by_cases e : u = t
    · subst e; simp only [setPc_pc, setFn_same, hmt] at ho; exact h.w4m u old ho x ((hQ x).1 hx)
    · rw [hpcs u e] at ho; exact h.w4m u old ho x ((hQ x).1 hx)
  · intro x hx
    have hxk : x ≠ k := fun e => hx (by rw [e])
    simp [setFn, hxk]
  · intro u hu x e
    have e' : k = x := by cases e; rfl
    rw [← e']; exact hother u hu
  · intro x hx; rw [hwr0] at hx; cases hx
  · intro x hx; simp only [setPc_pc, setFn_same, hwr1] at hx; cases hx
  · intro x hx; simp only [setPc_pc, setFn_same, hwr1] at hx; cases hx
  · intro x hx; simp only [setPc_pc, setFn_same, hpw] at hx; cases hx
  · intro r x rest hv; exact absurd hv (hnv r x rest)
  · intro x l hx
    simp only [setPc_pc, setFn_same] at hx
    obtain ⟨rfl, e⟩ := hlim x l hx
    simp [setFn, e]
  · intro u hu x l hl e
    have e' : k = x := by cases e; rfl
    rw [← e'] at hl
    have := h4.own u k (limboL_mem_ws hl)
    rcases hown with a | a
    · rw [a] at this; cases this
    · rw [a] at this; cases this; exact hu rfl
  · intro x hx
    simp only [setPc_pc, setFn_same] at hx
    obtain ⟨rfl, e⟩ := hhl x hx
    simp [setFn, e]
  · intro u hu x hx e
    have e' : k = x := by cases e; rfl
    rw [← e'] at hx
    have := h4.own u k (hlRec_mem_ws hx)
    rcases hown with a | a
    · rw [a] at this; cases this
    · rw [a] at this; cases this; exact hu rfl

theorem mtRelWord_waiting (add : Option Mode) (old : Word) : (mtRelWord add old).waiting = old.waiting := by
  cases add with
  | none => rfl
  | some m => cases m <;> rfl

theorem inv9_stepSt {s s' : State} {t : Tid} {o : Ord} {loc : Loc} {new obs : Nat}
    (h1 : Inv1 s) (h3 : Inv3 s) (h4 : Inv4 s) (h : Inv9 s)
    (hs : stepSt s t o loc new obs = .ok s') : Inv9 s' := by
  unfold stepSt at hs
  split at hs
  · -- lsSt
    rename_i c heq
    have hspin : (s.pc t).spin = true := by rw [heq]; rfl
    have hpend : (s.pc t).enqPend = true := by rw [heq]; rfl
    have hwrec : (s.pc t).waitRec = none := by rw [heq]; rfl
    dsimp only at hs
    repeat' split at hs
    all_goals first
      | (cases hs; done)
      | skip
    iterate 2
      · rename_i k _ _ _ _ _ hcw hown hwait _
        simp only [Decidable.not_not, Bool.not_eq_true] at hown hwait
        cases hs
        first
        | exact Inv9.enq_slow (E := enqLast _ k) t k _ _ h3 h4 h hspin hpend hwrec (by intro x; simp [enqLast, or_comm]) (by simp [enqLast])
            (by simp [enqLast]) (fun x => lnk3_mergeLinks _ _ _ x) rfl rfl rfl rfl (Or.inl hown)
        | exact Inv9.enq_slow (E := enqFirst _ k) t k _ _ h3 h4 h hspin hpend hwrec (by intro x; simp [enqFirst]) (by simp [enqFirst])
            (by simp [enqFirst]) (fun x => lnk3_mergeLinks _ _ _ x) rfl rfl rfl rfl (Or.inl hown)
    iterate 2
      · rename_i k _ _ _ _ _ k' hcw hkk hwait _
        simp only [Decidable.not_not, Bool.not_eq_true] at hkk hwait
        subst hkk
        cases hs
        have hmem : k ∈ (s.pc t).ws := by rw [heq]; simp [PC.ws, SL.ws, hcw]
        have hown := h4.own t k hmem
        first
        | exact Inv9.enq_slow (E := enqLast _ k) t k _ _ h3 h4 h hspin hpend hwrec (by intro x; simp [enqLast, or_comm]) (by simp [enqLast])
            (by simp [enqLast]) (fun x => lnk3_mergeLinks _ _ _ x) rfl rfl rfl hcw (Or.inr hown)
        | exact Inv9.enq_slow (E := enqFirst _ k) t k _ _ h3 h4 h hspin hpend hwrec (by intro x; simp [enqFirst]) (by simp [enqFirst])
            (by simp [enqFirst]) (fun x => lnk3_mergeLinks _ _ _ x) rfl rfl rfl hcw (Or.inr hown)
  · -- usWakeSt: `waiting := 0`; the record leaves the wake list
    rename_i r k rest heq
    repeat' split at hs
    all_goals first
      | (cases hs; done)
      | skip
    cases hs
    have hpcs : ∀ u, u ≠ t → ({ setPc s t (PC.usWakeV r k rest) with wr := setFn s.wr k { s.wr k with waiting := false } } : State).pc u = s.pc u := by
      intro u hu; simp [setFn, hu]
    have hQ : ∀ x, Queued ({ setPc s t (PC.usWakeV r k rest) with wr := setFn s.wr k { s.wr k with waiting := false } } : State) x ↔ Queued s x :=
      fun x => queued_same (s := s) (t := t) (by simp) hpcs (by simp [heq, PC.scan?]) x
    have hwt : ∀ x, x ≠ k → ((setFn s.wr k { s.wr k with waiting := false }) x) = s.wr x := by
      intro x hx; simp [setFn, hx]
    have hLsub : ∀ x, Listed ({ setPc s t (PC.usWakeV r k rest) with wr := setFn s.wr k { s.wr k with waiting := false } } : State) x → Listed s x := by
      rintro x (hx | ⟨u, hu⟩)
      · exact Or.inl ((hQ x).1 hx)
      · by_cases e : u = t
        · subst e
          simp only [setPc_pc, setFn_same, PC.wakeL] at hu
          exact Or.inr ⟨u, by rw [heq]; simp [PC.wakeL, hu]⟩
        · rw [hpcs u e] at hu; exact Or.inr ⟨u, hu⟩
    have hLkeep : ∀ x, x ≠ k → Listed s x → Listed ({ setPc s t (PC.usWakeV r k rest) with wr := setFn s.wr k { s.wr k with waiting := false } } : State) x := by
      rintro x hxk (hx | ⟨u, hu⟩)
      · exact Or.inl ((hQ x).2 hx)
      · by_cases e : u = t
        · subst e
          rw [heq] at hu
          simp only [PC.wakeL, List.mem_cons] at hu
          rcases hu with a | a
          · exact absurd a hxk
          · exact Or.inr ⟨u, by simp [PC.wakeL, a]⟩
        · exact Or.inr ⟨u, by rw [hpcs u e]; exact hu⟩
    have hpw : ∀ {α : Type} (f : PC → α), f (PC.usWakeV r k rest) = f (PC.usWakeSt r k rest) → ∀ u,
        f (({ setPc s t (PC.usWakeV r k rest) with wr := setFn s.wr k { s.wr k with waiting := false } } : State).pc u) = f (s.pc u) := by
      intro α f hf u; by_cases e : u = t
      · subst e; simp only [setPc_pc, setFn_same]; rw [heq]; exact hf
      · rw [hpcs u e]
    refine ⟨?_, ?_, ?_, ?_, ?_, ?_, ?_, ?_, ?_⟩
    · intro u x hu
      rw [hpw PC.hlRec rfl u] at hu
      have := h.hlf u x hu
      show ((setFn s.wr k { s.wr k with waiting := false }) x).waiting = false
      simp only [setFn]; split <;> simp_all
    · intro u x l hu
      rw [hpw PC.limboL rfl u] at hu
      have := h.lim u x l hu
      show ((setFn s.wr k { s.wr k with waiting := false }) x).lType = l
      simp only [setFn]; split <;> simp_all
    · intro x hx; exact h.w4 x ((hQ x).1 hx)
    · intro u hu; rw [hpw PC.enqPend rfl u] at hu; exact h.w4p u hu
    · intro u old ho x hx; rw [hpw PC.mtOld rfl u] at ho; exact h.w4m u old ho x ((hQ x).1 hx)
    · intro x hx
      obtain ⟨u, hu⟩ := h.own x (hLsub x hx)
      exact ⟨u, by rw [hpw PC.waitRec rfl u]; exact hu⟩
    · intro u x hu
      rw [hpw PC.waitRec rfl u] at hu
      rw [hpw PC.wmode rfl u]
      have := h.lt u x hu
      show ((setFn s.wr k { s.wr k with waiting := false }) x).lType = _
      simp only [setFn]; split <;> simp_all
    · intro u x hu hwx
      rw [hpw PC.waitRec rfl u] at hu
      have hxk : x ≠ k := by
        intro e; subst e
        have : ((setFn s.wr x { s.wr x with waiting := false }) x).waiting = true := hwx
        simp [setFn] at this
      have hwx' : (s.wr x).waiting = true := by
        have : ((setFn s.wr k { s.wr k with waiting := false }) x).waiting = true := hwx
        rwa [hwt x hxk] at this
      exact hLkeep x hxk (h.w3 u x hu hwx')
    · intro u x hu hwx
      rw [hpw PC.pwait rfl u] at hu
      by_cases hxk : x = k
      · subst hxk
        exact Or.inr ⟨t, r, rest, by simp⟩
      · have hwx' : (s.wr x).waiting = false := by
          have : ((setFn s.wr k { s.wr k with waiting := false }) x).waiting = false := hwx
          rwa [hwt x hxk] at this
        rcases h.w1 u x hu hwx' with a | ⟨v, r', rest', hv⟩
        · left
          show ((setFn s.wr k { s.wr k with waiting := false }) x).sem ≠ 0
          rw [hwt x hxk]; exact a
        · right
          have hvt : v ≠ t := by intro e; subst e; rw [heq] at hv; cases hv
          exact ⟨v, r', rest', by rw [hpcs v hvt]; exact hv⟩
  · -- mwStW: the record, on no list, gets mode and condition of the call
    rename_i c heq
    dsimp only at hs
    repeat' split at hs
    all_goals first
      | (cases hs; done)
      | skip
    · rename_i k _ _ _ _ _ hcw hown hwait
      simp only [Decidable.not_not, Bool.not_eq_true] at hown hwait
      cases hs
      exact Inv9.own_rec_step t k _ _ h4 h (Or.inl hown) (by rw [heq]; rfl) rfl rfl (by rw [heq]; rfl) (by rw [heq]; rfl)
        (by rw [heq]; rfl) (by rw [heq]; rfl) (by intro r x rest hv; rw [heq] at hv; cases hv)
        (by intro x l hx; simp only [PC.limboL, Option.map_some, Option.some.injEq, Prod.mk.injEq] at hx; exact ⟨hx.1.symm, hx.2⟩)
        (by intro x hx; simp [PC.hlRec] at hx)
    · rename_i k _ _ _ _ _ k' hcw hkk hwait
      simp only [Decidable.not_not, Bool.not_eq_true] at hkk hwait
      subst hkk
      cases hs
      have hmem : k ∈ (s.pc t).ws := by rw [heq]; simp [PC.ws, hcw]
      exact Inv9.own_rec_step t k _ _ h4 h (Or.inr (h4.own t k hmem)) (by rw [heq]; rfl) rfl rfl (by rw [heq]; rfl) (by rw [heq]; rfl)
        (by rw [heq]; rfl) (by rw [heq]; rfl) (by intro r x rest hv; rw [heq] at hv; cases hv)
        (by intro x l hx; simp only [PC.limboL, hcw, Option.map_some, Option.some.injEq, Prod.mk.injEq] at hx; exact ⟨hx.1.symm, hx.2⟩)
        (by intro x hx; simp [PC.hlRec] at hx)
  · -- mtStW: the thread clears `waiting` of the record it has removed itself
    rename_i c old heq
    split at hs
    · cases hs
    · rename_i k hcw
      repeat' split at hs
      all_goals first
        | (cases hs; done)
        | skip
      cases hs
      have hmem : k ∈ (s.pc t).ws := by rw [heq]; simp [PC.ws, hcw]
      exact Inv9.own_rec_step t k _ _ h4 h (Or.inr (h4.own t k hmem)) (by rw [heq]; rfl) rfl rfl (by rw [heq]; rfl) (by rw [heq]; rfl)
        (by rw [heq]; rfl) (by rw [heq]; rfl) (by intro r x rest hv; rw [heq] at hv; cases hv)
        (by intro x l hx
            simp only [PC.limboL, hcw, Option.map_some, Option.some.injEq, Prod.mk.injEq] at hx
            refine ⟨hx.1.symm, ?_⟩
            have := h.lim t k c.l (by rw [heq]; simp [PC.limboL, hcw])
            rw [← hx.2]; exact this)
        (by intro x hx; simp only [PC.hlRec, hcw, Option.some.injEq] at hx; exact ⟨hx.symm, rfl⟩)
  · -- mtStRel: the word stored is built from `old_word`
    rename_i c old ok heq
    have hok1 := h1.pcok t; rw [heq] at hok1
    have hsp := h3.others_no_spin (t := t) (by rw [heq]; rfl)
    cases ok <;> dsimp only at hs
    · simp only [Bool.false_eq_true, if_false] at hs
      repeat' split at hs
      all_goals first
        | (cases hs; done)
        | skip
      all_goals
      (cases hs
       refine Inv9.core t none h4 h ?_ ?_ ?_ ?_ ?_ (fun x _ => by simp) (fun u _ x e => by cases e)
         (fun u hu => by simp [setFn, hu]) ?_ ?_ ?_ ?_ ?_ ?_ (fun u _ x l _ e => by cases e) ?_ (fun u _ x _ e => by cases e)
       · intro x hx
         have hx' : Queued s x := (queued_same (s := s) (t := t) (by simp) (by intro u hu; simp [setFn, hu]) (by simp [heq, PC.scan?]) x).1 hx
         have := h.w4m t old (by rw [heq]; rfl) x hx'
         simp [mtRelWord_waiting, this]
       · intro u hu
         by_cases e : u = t
         · subst e; simp [PC.enqPend] at hu
         · have hu' : (s.pc u).enqPend = true := by simpa [setFn, e] using hu
           have := spin_of_enqPend hu'; rw [hsp u e] at this; cases this
       · intro u old' ho x hx
         have hx' : Queued s x := (queued_same (s := s) (t := t) (by simp) (by intro u hu; simp [setFn, hu]) (by simp [heq, PC.scan?]) x).1 hx
         by_cases e : u = t
         · subst e; simp [PC.mtOld] at ho
         · have ho' : (s.pc u).mtOld = some old' := by simpa [setFn, e] using ho
           exact h.w4m u old' ho' x hx'
       · rintro x (hx | ⟨u, hu⟩)
         · exact Or.inl (Or.inl ((queued_same (s := s) (t := t) (by simp) (by intro u hu; simp [setFn, hu]) (by simp [heq, PC.scan?]) x).1 hx))
         · by_cases e : u = t
           · subst e; simp [PC.wakeL] at hu
           · exact Or.inl (Or.inr ⟨u, by simpa [setFn, e] using hu⟩)
       · rintro x (hx | ⟨u, hu⟩) _ _
         · exact Or.inl ((queued_same (s := s) (t := t) (by simp) (by intro u hu; simp [setFn, hu]) (by simp [heq, PC.scan?]) x).2 hx)
         · by_cases e : u = t
           · subst e; rw [heq] at hu; simp [PC.wakeL] at hu
           · exact Or.inr ⟨u, by simpa [setFn, e] using hu⟩
       · intro x hx _; rw [heq] at hx; simpa [PC.waitRec] using hx
       · intro x hx
         simp only [setPc_pc, setFn_same, PC.waitRec] at hx
         have := h.lt t x (by rw [heq]; simpa [PC.waitRec] using hx); rw [heq] at this; simpa [PC.wmode] using this
       · intro x hx hwx
         simp only [setPc_pc, setFn_same, PC.waitRec] at hx
         have := h.w3 t x (by rw [heq]; simpa [PC.waitRec] using hx) (by simpa using hwx)
         rcases this with a | ⟨u, hu⟩
         · exact Or.inl ((queued_same (s := s) (t := t) (by simp) (by intro u hu; simp [setFn, hu]) (by simp [heq, PC.scan?]) x).2 a)
         · have e : u ≠ t := by intro e; subst e; rw [heq] at hu; simp [PC.wakeL] at hu
           exact Or.inr ⟨u, by simpa [setFn, e] using hu⟩
       · intro x hx; simp [PC.pwait] at hx
       · intro r x rest hv; rw [heq] at hv; cases hv
       · intro x l hx; simp [PC.limboL] at hx
       · intro x hx
         simp only [setPc_pc, setFn_same, PC.hlRec] at hx
         exfalso; simp_all [PC.ok])
    · simp only [if_true] at hs
      repeat' split at hs
      all_goals first
        | (cases hs; done)
        | skip
      all_goals
      (cases hs
       refine Inv9.core t none h4 h ?_ ?_ ?_ ?_ ?_ (fun x _ => by simp) (fun u _ x e => by cases e)
         (fun u hu => by simp [setFn, hu]) ?_ ?_ ?_ ?_ ?_ ?_ (fun u _ x l _ e => by cases e) ?_ (fun u _ x _ e => by cases e)
       · intro x hx
         have hx' : Queued s x := (queued_same (s := s) (t := t) (by simp) (by intro u hu; simp [setFn, hu]) (by simp [heq, PC.scan?]) x).1 hx
         have := h.w4m t old (by rw [heq]; rfl) x hx'
         simp [mtRelWord_waiting, this]
       · intro u hu
         by_cases e : u = t
         · subst e; simp [PC.enqPend] at hu
         · have hu' : (s.pc u).enqPend = true := by simpa [setFn, e] using hu
           have := spin_of_enqPend hu'; rw [hsp u e] at this; cases this
       · intro u old' ho x hx
         have hx' : Queued s x := (queued_same (s := s) (t := t) (by simp) (by intro u hu; simp [setFn, hu]) (by simp [heq, PC.scan?]) x).1 hx
         by_cases e : u = t
         · subst e; simp [PC.mtOld] at ho
         · have ho' : (s.pc u).mtOld = some old' := by simpa [setFn, e] using ho
           exact h.w4m u old' ho' x hx'
       · rintro x (hx | ⟨u, hu⟩)
         · exact Or.inl (Or.inl ((queued_same (s := s) (t := t) (by simp) (by intro u hu; simp [setFn, hu]) (by simp [heq, PC.scan?]) x).1 hx))
         · by_cases e : u = t
           · subst e; simp [PC.wakeL] at hu
           · exact Or.inl (Or.inr ⟨u, by simpa [setFn, e] using hu⟩)
       · rintro x (hx | ⟨u, hu⟩) _ _
         · exact Or.inl ((queued_same (s := s) (t := t) (by simp) (by intro u hu; simp [setFn, hu]) (by simp [heq, PC.scan?]) x).2 hx)
         · by_cases e : u = t
           · subst e; rw [heq] at hu; simp [PC.wakeL] at hu
           · exact Or.inr ⟨u, by simpa [setFn, e] using hu⟩
       · intro x hx _; rw [heq] at hx; simpa [PC.waitRec] using hx
       · intro x hx
         simp only [setPc_pc, setFn_same, PC.waitRec] at hx
         have := h.lim t x c.l (by rw [heq]; simp [PC.limboL, hx]); simpa [PC.wmode] using this
       · intro x hx hwx
         simp only [setPc_pc, setFn_same, PC.waitRec] at hx
         have := h.hlf t x (by rw [heq]; simp [PC.hlRec, hx]); exfalso; simp_all
       · intro x hx; simp [PC.pwait] at hx
       · intro r x rest hv; rw [heq] at hv; cases hv
       · intro x l hx; simp [PC.limboL] at hx
       · intro x hx
         simp only [setPc_pc, setFn_same, PC.hlRec] at hx
         have := h.hlf t x (by rw [heq]; simpa [PC.hlRec] using hx); simpa using this)
  · cases hs

end NsyncVerif.MuC
