/- Proofs/CounterVCFactsB.lean — per-step facts for the vector-clock product, one lemma per program point (generated, uniform script). -/
import NsyncVerif.Proofs.CounterVC

namespace Counter

variable {s s' : State} {t : Tid} {e : Ev}

theorem vcfacts_w0Store {dl} (hi : Inv s) (hpc : s.pc t = .w0Store dl) (h : stepThr s t e = .ok s') : VCFacts s t e s' := by
  vcfacts_open
  all_goals vcfacts_tac

theorem vcfacts_w0Load {dl} (hi : Inv s) (hpc : s.pc t = .w0Load dl) (h : stepThr s t e = .ok s') : VCFacts s t e s' := by
  vcfacts_open
  all_goals vcfacts_tac

theorem vcfacts_wInit {dl} (hi : Inv s) (hpc : s.pc t = .wInit dl) (h : stepThr s t e = .ok s') : VCFacts s t e s' := by
  vcfacts_open
  all_goals vcfacts_tac

theorem vcfacts_wEnqLockCall {dl} {k} (hi : Inv s) (hpc : s.pc t = .wEnqLockCall dl k) (h : stepThr s t e = .ok s') : VCFacts s t e s' := by
  vcfacts_open
  all_goals vcfacts_tac

theorem vcfacts_wEnqLockWait {dl} {k} (hi : Inv s) (hpc : s.pc t = .wEnqLockWait dl k) (h : stepThr s t e = .ok s') : VCFacts s t e s' := by
  vcfacts_open
  all_goals vcfacts_tac

theorem vcfacts_wEnqLoad {dl} {k} (hi : Inv s) (hpc : s.pc t = .wEnqLoad dl k) (h : stepThr s t e = .ok s') : VCFacts s t e s' := by
  vcfacts_open
  all_goals vcfacts_tac

theorem vcfacts_wEnqStore {dl} {k} {v} (hi : Inv s) (hpc : s.pc t = .wEnqStore dl k v) (h : stepThr s t e = .ok s') : VCFacts s t e s' := by
  vcfacts_open
  all_goals vcfacts_tac

theorem vcfacts_wEnqUnlockCall {dl} {k} {enq} (hi : Inv s) (hpc : s.pc t = .wEnqUnlockCall dl k enq) (h : stepThr s t e = .ok s') : VCFacts s t e s' := by
  vcfacts_open
  all_goals vcfacts_tac

theorem vcfacts_wEnqUnlockWait {dl} {k} {enq} (hi : Inv s) (hpc : s.pc t = .wEnqUnlockWait dl k enq) (h : stepThr s t e = .ok s') : VCFacts s t e s' := by
  vcfacts_open
  all_goals vcfacts_tac

theorem vcfacts_wLoopStore {dl} {k} (hi : Inv s) (hpc : s.pc t = .wLoopStore dl k) (h : stepThr s t e = .ok s') : VCFacts s t e s' := by
  vcfacts_open
  all_goals vcfacts_tac

theorem vcfacts_wLoopLoad {dl} {k} (hi : Inv s) (hpc : s.pc t = .wLoopLoad dl k) (h : stepThr s t e = .ok s') : VCFacts s t e s' := by
  vcfacts_open
  all_goals vcfacts_tac

theorem vcfacts_wPdEnter {dl} {k} (hi : Inv s) (hpc : s.pc t = .wPdEnter dl k) (h : stepThr s t e = .ok s') : VCFacts s t e s' := by
  vcfacts_open
  all_goals vcfacts_tac

theorem vcfacts_wPdWait {dl} {k} {j} (hi : Inv s) (hpc : s.pc t = .wPdWait dl k j) (h : stepThr s t e = .ok s') : VCFacts s t e s' := by
  vcfacts_open
  all_goals vcfacts_tac

theorem vcfacts_wDeqLockCall {dl} {k} {tmo} (hi : Inv s) (hpc : s.pc t = .wDeqLockCall dl k tmo) (h : stepThr s t e = .ok s') : VCFacts s t e s' := by
  vcfacts_open
  all_goals vcfacts_tac

theorem vcfacts_wDeqLockWait {dl} {k} {tmo} (hi : Inv s) (hpc : s.pc t = .wDeqLockWait dl k tmo) (h : stepThr s t e = .ok s') : VCFacts s t e s' := by
  vcfacts_open
  all_goals vcfacts_tac

theorem vcfacts_wDeqLoadV {dl} {k} {tmo} (hi : Inv s) (hpc : s.pc t = .wDeqLoadV dl k tmo) (h : stepThr s t e = .ok s') : VCFacts s t e s' := by
  vcfacts_open
  all_goals vcfacts_tac

theorem vcfacts_wDeqLoadW {dl} {k} {tmo} {v} (hi : Inv s) (hpc : s.pc t = .wDeqLoadW dl k tmo v) (h : stepThr s t e = .ok s') : VCFacts s t e s' := by
  vcfacts_open
  all_goals vcfacts_tac

theorem vcfacts_wDeqStore {dl} {k} {tmo} {v} (hi : Inv s) (hpc : s.pc t = .wDeqStore dl k tmo v) (h : stepThr s t e = .ok s') : VCFacts s t e s' := by
  vcfacts_open
  all_goals vcfacts_tac

theorem vcfacts_wDeqUnlockCall {dl} {k} {tmo} {v} (hi : Inv s) (hpc : s.pc t = .wDeqUnlockCall dl k tmo v) (h : stepThr s t e = .ok s') : VCFacts s t e s' := by
  vcfacts_open
  all_goals vcfacts_tac

theorem vcfacts_wDeqUnlockWait {dl} {k} {tmo} {v} (hi : Inv s) (hpc : s.pc t = .wDeqUnlockWait dl k tmo v) (h : stepThr s t e = .ok s') : VCFacts s t e s' := by
  vcfacts_open
  all_goals vcfacts_tac

theorem vcfacts_wFinalLoad {dl} (hi : Inv s) (hpc : s.pc t = .wFinalLoad dl) (h : stepThr s t e = .ok s') : VCFacts s t e s' := by
  vcfacts_open
  all_goals vcfacts_tac

theorem vcfacts_wRet {dl} {r} (hi : Inv s) (hpc : s.pc t = .wRet dl r) (h : stepThr s t e = .ok s') : VCFacts s t e s' := by
  vcfacts_open
  all_goals vcfacts_tac

end Counter
