import NsyncVerif.Proofs.MuCInv7Call
/-
  MuC, MU_ALL_FALSE: returns, condition evaluations, client data, the rest; the invariant in every
  reachable state.
-/
namespace NsyncVerif.MuC

/-- A step that changes only semaphores / the clock / ownership of records. -/
theorem Inv7.env {s s' : State} (h : Inv7 s) (hq : s'.queue = s.queue) (hcnd : ∀ x, (s'.wr x).cond = (s.wr x).cond)
    (hd : s'.data = s.data) (hss : s'.secStart = s.secStart) (hnv : s'.nwViol = s.nwViol) (hh : s'.held = s.held)
    (hw : s'.word = s.word) (hpc : s'.pc = s.pc) : Inv7 s' := by
  refine Inv7.local 0 h ?_ (by rw [hq]; exact fun _ hk => hk) (fun x _ => hcnd x) hd (by rw [hnv]; exact id)
    (Or.inl ⟨by rw [hpc]; exact id, fun d hd' => refData_congr (secOpen_congr hh (by intro u; rw [hpc])) hd hss hd'⟩)
    (by rw [hw]; exact Or.inl) (by intro u _; rw [hpc]) (by rw [hpc]; exact fun _ e => e) (by rw [hpc]; exact fun _ e => e)
    (by rw [hpc]; exact fun _ e => e) (by rw [hpc]; exact fun _ e => Or.inl e) (by rw [hpc]; exact h.fst 0)
    (by rw [hpc, hw]; exact h.enq 0) (by rw [hpc]; exact id) (by rw [hw]; exact Or.inl)
  intro k hk
  exact (queued_congr hq (by intro u; rw [hpc]) k).1 hk

/-- No thread other than the client `t` that holds the mutex in write mode owns the writer bit. -/
theorem no_other_W {s : State} (h1 : Inv1 s) {t u : Tid} (ht : s.held t = some .W) (hu : pcShare (s.pc u) = some .W) : False := by
  have hidle := h1.hidle t (by rw [ht]; simp)
  by_cases e : u = t
  · subst e; rw [hidle] at hu; simp [pcShare] at hu
  · have hne : s.pc u ≠ .idle := by intro e'; rw [e'] at hu; simp [pcShare] at hu
    have h2 : shareOf s u = some .W := by rw [h1.share_eq hne]; exact hu
    have h3 : shareOf s t = some .W := by simp [shareOf, tshare, ht]
    exact e (h1.lock.writer_alone h3 (by rw [h2]; simp))

theorem share_of_mtOld {p : PC} {old : Word} (h : p.mtOld = some old) : pcShare p = some .W := by
  cases p <;> simp [PC.mtOld] at h <;> rfl

theorem share_of_scan_late {p : PC} {sc : Scan} (h : p.scan? = some sc) (hl : sc.late = true) : pcShare p = some .W := by
  cases p <;> simp [PC.scan?] at h <;> subst h <;> simp [pcShare, hl]

theorem share_of_fin_late {p : PC} {f : Fin} (h : p.finOf = some f) (hl : f.late = true) : pcShare p = some .W := by
  cases p <;> simp [PC.finOf] at h <;> subst h <;> simp [pcShare, hl]

theorem inv7_dataW {s : State} {t : Tid} {x : Nat} {v : Int} (h1 : Inv1 s) (h : Inv7 s) (ht : s.held t = some .W) :
    Inv7 { s with data := setFn s.data x v } := by
  have hopen : SecOpen s := ⟨t, Or.inl ht⟩
  have hopen' : SecOpen ({ s with data := setFn s.data x v } : State) := ⟨t, Or.inl ht⟩
  refine ⟨h.nl, h.fst, h.enq, ?_, ?_, ?_, h.re, ?_⟩
  · intro haf k hk
    obtain ⟨a, b⟩ := h.a1 haf k hk
    refine ⟨a, fun hnv hns d hd => ?_⟩
    rw [refData_open hopen' hd]
    exact b hnv hns s.secStart (refData_of_open hopen)
  · intro u old ho
    exact (no_other_W h1 ht (share_of_mtOld ho)).elim
  · intro u sc hu hsaf k hk
    obtain ⟨a, _⟩ := h.sc u sc hu hsaf k hk
    exact (no_other_W h1 ht (share_of_scan_late hu a)).elim
  · intro u f hu
    obtain ⟨a, b⟩ := h.fin u f hu
    refine ⟨a, fun hsaf k hk => ?_⟩
    obtain ⟨c, _⟩ := b hsaf k hk
    exact (no_other_W h1 ht (share_of_fin_late hu c)).elim

theorem held_none_of_pc {s : State} (h1 : Inv1 s) {t : Tid} {p : PC} (hp : s.pc t = p) (hn : p ≠ .idle) : s.held t = none :=
  h1.held_none (by rw [hp]; exact hn)

theorem owner_of_pcShare {s : State} (h1 : Inv1 s) {t : Tid} {p : PC} (hp : s.pc t = p) (hsh : pcShare p = some .W) :
    s.wOwner = some t := by
  refine (h1.lock.wown t).2 ?_
  have hn : s.pc t ≠ .idle := by intro e; rw [hp] at e; rw [e] at hsh; simp [pcShare] at hsh
  rw [h1.share_eq hn, hp]; exact hsh

/-- the client gets the mutex in write mode: the snapshot is taken -/
theorem ret_acq {s : State} (h1 : Inv1 s) {t : Tid} (s2 : State) (p : PC) (hp : s.pc t = p) (hsh : pcShare p = some .W)
    (hf : p.firstW = false) (hn : p ≠ .idle) (hh' : s2.held t = some .W) (hss : s2.secStart = s.data) (d : Nat → Int)
    (hd : RefData s2 d) : RefData s d :=
  refData_acquireW t h1 (owner_of_pcShare h1 hp hsh) (by rw [held_none_of_pc h1 hp hn]; simp) (by rw [hp]; exact hf) hh' hss hd

/-- the client gets the mutex in read mode, or nothing -/
theorem ret_same {s : State} (h1 : Inv1 s) {t : Tid} (s2 : State) (p : PC) (m : Option Mode) (hp : s.pc t = p) (hf : p.firstW = false)
    (hn : p ≠ .idle) (hm : m ≠ some .W) (hd : s2.data = s.data) (hss : s2.secStart = s.secStart)
    (hoth : ∀ u, u ≠ t → s2.held u = s.held u ∧ s2.pc u = s.pc u) (hh' : s2.held t = m) (hf' : (s2.pc t).firstW = false)
    (d : Nat → Int) (hd' : RefData s2 d) : RefData s d := by
  refine refData_same t hd hss hoth ?_ hd'
  rw [hh', hf', held_none_of_pc h1 hp hn, hp, hf]
  simp [hm]

theorem inv7_ret_lockW {s : State} {t : Tid} (h1 : Inv1 s) (h : Inv7 s) (heq : s.pc t = .lkRet .W) :
    Inv7 (setHeld (setPc s t .idle) t (some .W)) := by
  inv7_local' t h heq
  case hcnd => intro x _; rfl
  case ha1 =>
    left
    refine ⟨by rw [heq]; simp [PC.susp], ?_⟩
    exact ret_acq h1 _ _ heq rfl rfl (by simp) (by simp [setFn]) (by simp [setHeld])
  case haf => intro haf; left; exact haf
  case hcb => intro hcb; left; exact hcb

theorem inv7_ret_lockR {s : State} {t : Tid} (h1 : Inv1 s) (h : Inv7 s) (heq : s.pc t = .lkRet .R) :
    Inv7 (setHeld (setPc s t .idle) t (some .R)) := by
  inv7_local' t h heq
  case hcnd => intro x _; rfl
  case ha1 =>
    left
    refine ⟨by rw [heq]; simp [PC.susp], ?_⟩
    exact ret_same h1 _ _ (some .R) heq rfl (by simp) (by simp) rfl (by simp [setHeld]) (by intro u hu; simp [setFn, hu]) (by simp [setFn])
      (by simp [PC.firstW])
  case haf => intro haf; left; exact haf
  case hcb => intro hcb; left; exact hcb

theorem inv7_ret_tryW {s : State} {t : Tid} {r : Bool} (h1 : Inv1 s) (h : Inv7 s) (heq : s.pc t = .tryRet .W r) :
    Inv7 (setHeld (setPc s t .idle) t (if r then some .W else none)) := by
  inv7_local' t h heq
  case hcnd => intro x _; rfl
  case ha1 =>
    left
    refine ⟨by rw [heq]; simp [PC.susp], ?_⟩
    cases r with
    | true => exact ret_acq h1 _ _ heq rfl rfl (by simp) (by simp [setFn]) (by simp [setHeld])
    | false =>
      exact ret_same h1 _ _ none heq rfl (by simp) (by simp) rfl (by simp [setHeld]) (by intro u hu; simp [setFn, hu]) (by simp [setFn])
        (by simp [PC.firstW])
  case haf => intro haf; left; exact haf
  case hcb => intro hcb; left; exact hcb

theorem inv7_ret_tryR {s : State} {t : Tid} {r : Bool} (h1 : Inv1 s) (h : Inv7 s) (heq : s.pc t = .tryRet .R r) :
    Inv7 (setHeld (setPc s t .idle) t (if r then some .R else none)) := by
  inv7_local' t h heq
  case hcnd => intro x _; rfl
  case ha1 =>
    left
    refine ⟨by rw [heq]; simp [PC.susp], ?_⟩
    cases r with
    | true =>
      exact ret_same h1 _ _ (some .R) heq rfl (by simp) (by simp) rfl (by simp [setHeld]) (by intro u hu; simp [setFn, hu]) (by simp [setFn])
        (by simp [PC.firstW])
    | false =>
      exact ret_same h1 _ _ none heq rfl (by simp) (by simp) rfl (by simp [setHeld]) (by intro u hu; simp [setFn, hu]) (by simp [setFn])
        (by simp [PC.firstW])
  case haf => intro haf; left; exact haf
  case hcb => intro hcb; left; exact hcb

theorem inv7_ret_waitFirst {s : State} {t : Tid} {c : MW} {cit : Bool} (h1 : Inv1 s) (h : Inv7 s) (heq : s.pc t = .mwRet c cit)
    (hfirst : c.first = true) :
    Inv7 { setHeld (dropW (setPc s t .idle) c.w) t (some c.l) with secStart := s.secStart } := by
  have hok := h1.pcok t; rw [heq] at hok
  have hl : c.l = c.hm := hok.1.1
  cases hcw : c.w <;> simp only [dropW, setHeld] <;>
  (inv7_local' t h heq
   case hcnd => intro x _; simp [setFn]; try (split <;> simp_all)
   case ha1 =>
     left
     refine ⟨by rw [heq]; simp [PC.susp], ?_⟩
     intro d hd
     refine refData_same (s := s) t (by simp) (by simp) (by intro u hu; simp [setFn, hu]) ?_ hd
     rw [held_none_of_pc h1 heq (by simp), heq]
     cases hm : c.hm <;> simp [setFn, PC.firstW, hfirst, hl, hm]
   case haf => intro haf; left; exact haf
   case hcb => intro hcb; left; exact hcb)

theorem inv7_ret_waitLater {s : State} {t : Tid} {c : MW} {cit : Bool} (h1 : Inv1 s) (h : Inv7 s) (heq : s.pc t = .mwRet c cit)
    (hfirst : c.first = false) :
    Inv7 (setHeld (dropW (setPc s t .idle) c.w) t (some c.l)) := by
  cases hcw : c.w <;> simp only [dropW, setHeld] <;>
  (inv7_local' t h heq
   case hcnd => intro x _; simp [setFn]; try (split <;> simp_all)
   case ha1 =>
     left
     refine ⟨by rw [heq]; simp [PC.susp], ?_⟩
     cases hcl : c.l with
     | W =>
       exact ret_acq h1 _ _ heq (by simp [pcShare, hcl]) (by simp [PC.firstW, hfirst]) (by simp) (by simp [setFn]) (by simp)
     | R =>
       exact ret_same h1 _ _ (some .R) heq (by simp [PC.firstW, hfirst]) (by simp) (by simp) rfl (by simp) (by intro u hu; simp [setFn, hu])
         (by simp [setFn]) (by simp [PC.firstW])
   case haf => intro haf; left; exact haf
   case hcb => intro hcb; left; exact hcb)

theorem inv7_stepRet {s s' : State} {t : Tid} {a : Api} {res : Res} (h1 : Inv1 s) (h : Inv7 s)
    (hs : stepRet s t a res = .ok s') : Inv7 s' := by
  unfold stepRet at hs
  split at hs
  · rename_i heq; cases hs; exact inv7_ret_lockW h1 h heq
  · rename_i heq; cases hs; exact inv7_ret_lockR h1 h heq
  · rename_i heq
    split at hs
    · cases hs; exact inv7_ret_tryW h1 h heq
    · cases hs
  · rename_i heq
    split at hs
    · cases hs; exact inv7_ret_tryR h1 h heq
    · cases hs
  · rename_i heq; cases hs; inv7_local t h heq
  · rename_i heq; cases hs; inv7_local t h heq
  · rename_i heq; cases hs; inv7_local t h heq
  · rename_i c cit cnd dl note o' heq
    repeat' split at hs
    all_goals first
      | (cases hs; done)
      | (rename_i hfirst; cases hs
         first
         | exact inv7_ret_waitFirst h1 h heq hfirst
         | exact inv7_ret_waitLater h1 h heq (by simpa using hfirst))
  · cases hs

end NsyncVerif.MuC
