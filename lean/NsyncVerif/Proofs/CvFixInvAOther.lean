/-
  Layer `CvFix` (cv.c with the repair of F3; adapted from the `Cv` file of the same name): structural invariant — how the per-thread facts of the threads that do not act
  survive a change of records.
-/
import NsyncVerif.Proofs.CvFixInvALoc2

namespace NsyncVerif.CvFix

/-- A record keeps the facts that its owner's `TInvA` may rely on. -/
structure RecOK (a b : Rec) : Prop where
  owner : b.owner = a.owner
  idle : b.stat ≠ .idle
  prep : a.stat = .prep ↔ b.stat = .prep
  live : a.stat.live = true → b.stat.live = true
  selfO : a.stat = .selfOut → b.stat = .selfOut
  nq : a.stat ≠ .queued → b.stat ≠ .queued

theorem RecOK.rfl' {a : Rec} (h : a.stat ≠ .idle) : RecOK a a := ⟨rfl, h, Iff.rfl, id, id, id⟩

theorem RecOK.of_stat {a b : Rec} (ho : b.owner = a.owner) (hs : b.stat = a.stat) (h : a.stat ≠ .idle) :
    RecOK a b := by
  constructor <;> simp_all

/-- The thread `u` does not act, its frame is unchanged; the records it owns and that are not idle
    keep their status class; if `u` holds the spinlock no queued record is unqueued. -/
theorem tinvA_other {s s' : State} {u : Tid} (h : TInvA s u) (ht : s'.thr u = s.thr u)
    (hr : ∀ q, (s.recs q).owner = u → (s.recs q).stat ≠ .idle → RecOK (s.recs q) (s'.recs q))
    (hq : (s.thr u).loc.holds = true → ∀ q, (s.recs q).stat = .queued → (s'.recs q).stat = .queued) :
    TInvA s' u := by
  obtain ⟨t1, t2, t3, t4, t5, t6, t7, t8, t9, t10, t11, t12⟩ := h
  constructor <;> rw [ht]
  · exact t1
  · intro hp
    obtain ⟨a, b, c⟩ := t2 hp
    have := hr _ b (by rw [a]; simp)
    exact ⟨this.prep.mp a, this.owner.trans b, c⟩
  · intro hp
    obtain ⟨a, b, c⟩ := t3 hp
    have := hr _ a (by intro e; rw [e] at c; simp [RStat.live] at c)
    exact ⟨this.owner.trans a, b, this.live c⟩
  · intro hp
    have a := t4 hp
    apply hq _ _ a
    rcases hp with hp | hp <;> simp [hp, Loc.holds]
  · intro hp
    have a := t5 hp
    obtain ⟨o, _, lv⟩ := t3 (by rcases hp with hp | hp | hp <;> simp [waitLive, hp])
    exact (hr _ o (by rw [a]; simp)).selfO a
  · intro r hm
    obtain ⟨a, b, c, d⟩ := t6 r hm
    have := hr _ b c
    exact ⟨a, this.owner.trans b, this.idle, fun e => d (this.prep.mpr e)⟩
  · exact t7
  · exact t8
  · intro hp
    obtain ⟨a, b⟩ := t9 hp
    exact ⟨hq (by simp [hp, Loc.holds]) _ a, b⟩
  · intro hp
    obtain ⟨a, b⟩ := t10 hp
    obtain ⟨_, o, c, _⟩ := t6 _ a
    exact ⟨a, (hr _ o c).nq b⟩
  · exact t11
  · intro hp
    obtain ⟨a, b⟩ := t12 hp
    obtain ⟨_, o, c, _⟩ := t6 _ a
    exact ⟨a, (hr _ o c).nq b⟩

/-- Mutual exclusion: two holders are the same thread. -/
theorem InvA.holder_unique {s : State} (hi : InvA s) {t u : Tid} (ht : (s.thr t).loc.holds = true)
    (hu : (s.thr u).loc.holds = true) : u = t := by
  have a := (hi.hold t).mpr ht
  have b := (hi.hold u).mpr hu
  rw [a] at b; cases b; rfl

/-- Nobody holds the spinlock when the word has the spin bit clear. -/
theorem InvA.nobody_holds {s : State} (hi : InvA s) (h : s.word.spin = false) (u : Tid) :
    (s.thr u).loc.holds = false := by
  cases hb : (s.thr u).loc.holds
  · rfl
  · have := (hi.hold u).mpr hb
    have := hi.spin
    simp_all

end NsyncVerif.CvFix
