import NsyncVerif.Proofs.MuCInv10Cas
/-
  MuC, Inv10: enqueue steps, stores, API boundaries, condition evaluations, client data; reachability.
-/
namespace NsyncVerif.MuC

/-- `t`, holding the spinlock (or taking the free one), queues record `k`; lists of others unchanged. -/
theorem Inv10.enq_step {s s' : State} (t : Tid) (k : Wid) (h : Inv10 s)
    (hsp : ∀ u, u ≠ t → (s.pc u).spin = false)
    (hQ : ∀ x, Queued s' x → x = k ∨ Queued s x)
    (hwr : ∀ x, x ≠ k → (s'.wr x).lType = (s.wr x).lType ∧ (s'.wr x).cond = (s.wr x).cond)
    (hkq : ¬ Queued s k)
    (hd : s'.data = s.data)
    (hpc : ∀ u, u ≠ t → s'.pc u = s.pc u)
    (hpre : ∀ c, (s'.pc t).mwPre = some c → ∃ c0, (s.pc t).mwPre = some c0 ∧ c.cond = c0.cond)
    (hrel : ∀ c, (s'.pc t).mwRel = some c → c.w = some k ∧ (c.hadW = false → ∀ x, ¬ Queued s x))
    (hsc : (s'.pc t).scan? = none) (hfin : (s'.pc t).finOf = none) : Inv10 s' := by
  refine ⟨?_, ?_, ?_, ?_⟩
  · intro u c hu
    rw [hd]
    by_cases e : u = t
    · subst e
      obtain ⟨c0, h0, e0⟩ := hpre c hu
      rw [e0]; exact h.pcf u c0 h0
    · rw [hpc u e] at hu; exact h.pcf u c hu
  · intro u c k' hu hk hh x hx
    by_cases e : u = t
    · subst e
      obtain ⟨a, b⟩ := hrel c hu
      rw [a] at hk; cases hk
      rcases hQ x hx with e' | e'
      · exact e'
      · exact absurd e' (b hh x)
    · rw [hpc u e] at hu
      have := mwRel_spin hu; rw [hsp u e] at this; cases this
  · intro u sc hu hs
    by_cases e : u = t
    · subst e; rw [hsc] at hu; cases hu
    · rw [hpc u e] at hu
      obtain ⟨x, hx, hp⟩ := h.sww u sc hu hs
      have hxk : x ≠ k := by
        intro e'; subst e'
        exact hkq (Or.inr ⟨u, sc, hu, by
          simp only [Scan.lists, List.mem_append] at hx ⊢
          rcases hx with a | a
          · exact Or.inl (Or.inl a)
          · exact Or.inl (Or.inr a)⟩)
      exact ⟨x, hx, hp.congr (hwr x hxk).1 (hwr x hxk).2 hd⟩
  · intro u f hu
    by_cases e : u = t
    · subst e; rw [hfin] at hu; cases hu
    · rw [hpc u e] at hu
      have := fin_spin hu; rw [hsp u e] at this; cases this

theorem inv10_stepCasC {s s' : State} {t : Tid} {o : Ord} {loc : Loc} {exp new obs : Nat} {ok : Bool}
    (h3 : Inv3 s) (h4 : Inv4 s) (h9 : Inv9 s) (h : Inv10 s)
    (hp : match s.pc t with
      | .mwEnqCas _ _ => True
      | _ => False)
    (hs : stepCas s t o loc exp new obs ok = .ok s') : Inv10 s' := by
  unfold stepCas at hs
  split at hs
  all_goals try (rename_i heq; rw [heq] at hp; exact False.elim hp)
  all_goals try (rename_i hne; split at hp <;> first | exact False.elim hp | (exfalso; simp_all; done))
  rename_i c old heq
  split at hs
  · cases hs
  · rename_i k hcw
    have hok3 := h3.ok3 t; rw [heq] at hok3
    rcases casWord_ok hs with ⟨hw, -, rfl⟩ | ⟨-, -, rfl⟩
    · have hnospin := h3.no_spin_of_free (by rw [hw]; exact hok3)
      have hlimbo := h4.limbo t k (by rw [heq]; simp [PC.limbo, hcw])
      refine Inv10.enq_step t k h (fun u _ => hnospin u) ?_ ?_ hlimbo.2.1 (by split <;> simp [enqLast, enqFirst])
        (by intro u hu; split <;> simp [enqLast, enqFirst, setFn, hu]) ?_ ?_ (by split <;> simp [enqLast, enqFirst, PC.scan?])
        (by split <;> simp [enqLast, enqFirst, PC.finOf])
      · intro x hx
        rcases hx with hx | ⟨u, sc, h1, h2⟩
        · have : x = k ∨ x ∈ s.queue := by
            split at hx <;> simp [enqLast, enqFirst] at hx
            · rcases hx with e | e
              · exact Or.inr e
              · exact Or.inl e
            · exact hx
          rcases this with e | e
          · exact Or.inl e
          · exact Or.inr (Or.inl e)
        · right; right; refine ⟨u, sc, ?_, h2⟩
          by_cases hu : u = t
          · subst hu; split at h1 <;> simp [enqLast, enqFirst, PC.scan?] at h1
          · split at h1 <;> simpa [enqLast, enqFirst, setFn, hu] using h1
      · intro x _
        split <;> simp [enqLast, enqFirst, cond_of_merge, (lnk3_mergeLinks _ _ _ x).2.1]
      · intro c' hc'
        refine ⟨c, by rw [heq]; rfl, ?_⟩
        have : c' = { c with hadW := old.waiting, first := false } := by
          split at hc' <;> simpa [enqLast, enqFirst, PC.mwPre] using hc'.symm
        rw [this]
      · intro c' hc'
        have : c' = { c with hadW := old.waiting, first := false } := by
          split at hc' <;> simpa [enqLast, enqFirst, PC.mwRel] using hc'.symm
        rw [this]
        refine ⟨hcw, ?_⟩
        intro hh x hx
        have := h9.w4 x hx
        rw [hw] at this
        simp only at hh
        rw [this] at hh; cases hh
    · inv10_local t h heq

theorem inv10_stepSt {s s' : State} {t : Tid} {o : Ord} {loc : Loc} {new obs : Nat}
    (h3 : Inv3 s) (h4 : Inv4 s) (h : Inv10 s)
    (hs : stepSt s t o loc new obs = .ok s') : Inv10 s' := by
  unfold stepSt at hs
  split at hs
  · -- lsSt
    rename_i c heq
    have hsp := h3.others_no_spin (t := t) (by rw [heq]; rfl)
    dsimp only at hs
    repeat' split at hs
    all_goals first
      | (cases hs; done)
      | skip
    all_goals
      (first
       | (rename_i k _ _ _ _ _ k' hcw hkk hwait _
          simp only [Decidable.not_not, Bool.not_eq_true] at hkk hwait
          subst hkk)
       | (rename_i k _ _ _ _ _ hcw hown hwait _
          simp only [Decidable.not_not, Bool.not_eq_true] at hown hwait)
       cases hs
       have hnq : ¬ Queued s k := fun e => by have := h4.wait k e; rw [hwait] at this; cases this
       refine Inv10.enq_step t k h hsp ?_ ?_ hnq (by simp [enqLast, enqFirst]) (by intro u hu; simp [enqLast, enqFirst, setFn, hu])
         (by intro c' hc'; simp [PC.mwPre] at hc') (by intro c' hc'; simp [PC.mwRel] at hc') (by simp [PC.scan?]) (by simp [PC.finOf])
       · intro x hx
         rcases hx with hx | ⟨u, sc, h1, h2⟩
         · have : x = k ∨ x ∈ s.queue := by
             simp [enqLast, enqFirst] at hx
             first
             | (rcases hx with e | e
                · exact Or.inr e
                · exact Or.inl e)
             | exact hx
           rcases this with e | e
           · exact Or.inl e
           · exact Or.inr (Or.inl e)
         · right; right; refine ⟨u, sc, ?_, h2⟩
           by_cases hu : u = t
           · subst hu; simp [PC.scan?] at h1
           · simpa [enqLast, enqFirst, setFn, hu] using h1
       · intro x hx
         simp [enqLast, enqFirst, cond_of_merge, (lnk3_mergeLinks _ _ _ x).2.1, setFn, hx])
  · rename_i heq; ld_case10 t h heq hs
  · -- mwStW: the record is on no list
    rename_i c heq
    dsimp only at hs
    repeat' split at hs
    all_goals first
      | (cases hs; done)
      | skip
    all_goals
      (first
       | (rename_i k _ _ _ _ _ k' hcw hkk hwait
          simp only [Decidable.not_not, Bool.not_eq_true] at hkk hwait
          subst hkk)
       | (rename_i k _ _ _ _ _ hcw hown hwait
          simp only [Decidable.not_not, Bool.not_eq_true] at hown hwait)
       cases hs
       have hnq : ∀ x, Queued s x → x ≠ k := fun x hx e => by have := h4.wait x hx; rw [e, hwait] at this; cases this
       refine ⟨?_, ?_, ?_, ?_⟩
       · intro u c' hu
         by_cases e : u = t
         · subst e
           simp only [setPc_pc, setFn_same, PC.mwPre, Option.some.injEq] at hu
           have := h.pcf u c (by rw [heq]; rfl)
           rw [← hu]; simpa using this
         · have hu' : (s.pc u).mwPre = some c' := by simpa [setFn, e] using hu
           simpa using h.pcf u c' hu'
       · intro u c' k' hu hk hh x hx
         by_cases e : u = t
         · subst e; simp [PC.mwRel] at hu
         · have hu' : (s.pc u).mwRel = some c' := by simpa [setFn, e] using hu
           exact h.prel u c' k' hu' hk hh x ((queued_same (s := s) (t := t) (by simp) (by intro u hu; simp [setFn, hu]) (by simp [heq, PC.scan?]) x).1 hx)
       · intro u sc hu hs'
         have hu' : (s.pc u).scan? = some sc := by
           by_cases e : u = t
           · subst e; simp [PC.scan?] at hu
           · simpa [setFn, e] using hu
         obtain ⟨x, hx, hp⟩ := h.sww u sc hu' hs'
         have hxk : x ≠ k := hnq x (Or.inr ⟨u, sc, hu', by
           simp only [Scan.lists, List.mem_append] at hx ⊢
           rcases hx with a | a
           · exact Or.inl (Or.inl a)
           · exact Or.inl (Or.inr a)⟩)
         exact ⟨x, hx, hp.congr (by simp [setFn, hxk]) (by simp [setFn, hxk]) (by simp)⟩
       · intro u f hu hs'
         have hu' : (s.pc u).finOf = some f := by
           by_cases e : u = t
           · subst e; simp [PC.finOf] at hu
           · simpa [setFn, e] using hu
         obtain ⟨x, hx, hp⟩ := h.swf u f hu' hs'
         have hxk : x ≠ k := hnq x (Or.inl hx)
         exact ⟨x, by simpa using hx, hp.congr (by simp [setFn, hxk]) (by simp [setFn, hxk]) (by simp)⟩)
  · rename_i heq; ld_case10 t h heq hs
  · rename_i heq; ld_case10 t h heq hs
  · cases hs

theorem inv10_stepCall {s s' : State} {t : Tid} {a : Api} (h : Inv10 s)
    (hs : stepCall s t a = .ok s') : Inv10 s' := by
  unfold stepCall at hs
  split at hs
  · rename_i heq
    cases a <;> dsimp only at hs
    all_goals (repeat' split at hs)
    all_goals first
      | (cases hs; done)
      | (cases hs; inv10_local t h heq)
  · cases hs

theorem inv10_stepRet {s s' : State} {t : Tid} {a : Api} {res : Res} (h : Inv10 s)
    (hs : stepRet s t a res = .ok s') : Inv10 s' := by
  unfold stepRet at hs
  split at hs
  all_goals first
    | (cases hs; done)
    | (rename_i heq
       repeat' split at hs
       all_goals first
         | (cases hs; done)
         | (cases hs; inv10_local t h heq))
    | skip
  rename_i c cit cnd dl note o' heq
  repeat' split at hs
  all_goals first
    | (cases hs; done)
    | skip
  all_goals
    (cases hs
     cases hcw : c.w <;> simp only [dropW, setHeld] <;> inv10_local t h heq)

theorem inv10_stepCond {s s' : State} {t : Tid} {fn : CFn} {k : Nat} {res : Bool} (h1 : Inv1 s) (h4 : Inv4 s) (h4' : Inv4 s')
    (h : Inv10 s) (hs : stepCond s t fn k res = .ok s') : Inv10 s' := by
  unfold stepCond at hs
  dsimp only at hs
  split at hs
  · rename_i c heq
    split at hs
    · cases hs
    · rename_i cd hcd
      split at hs
      · cases hs
      · split at hs
        · cases hs
        · rename_i hres
          simp only [Decidable.not_not] at hres
          cases hs
          rw [mwLoop_eq]
          have hev : res = false → evalOpt s.data c.cond = false := by
            intro e; rw [hcd]; simp only [evalOpt]; rw [← hres, e]
          simp only [loopPc]
          split
          · rename_i hcase
            inv10_local t h heq
          · inv10_local t h heq
  · rename_i r sc heq
    have hok1 := h1.pcok t; rw [heq] at hok1
    split at hs
    · cases hs
    · rename_i k' rest htodo
      split at hs
      · cases hs
      · rename_i cd hcd
        split at hs
        · cases hs
        · split at hs
          · cases hs
          · rename_i hres
            simp only [Decidable.not_not] at hres
            obtain ⟨hf, p, hpc, hsc⟩ := afterEval_frame hs hok1.2.1
            obtain ⟨hlo, hperm⟩ := afterEval_lists hs
            have hwk := afterEval_wake hs
            have hpt : ScanPc r sc.late (s'.pc t) := by rw [hpc]; simpa using hsc
            have hlate : sc.late = true := hok1.2.1 hok1.2.2.1
            have hat := afterEval_sww (PW := fun x => PassedW s sc.late x) hs
              (fun s1 hl x a b => passedW_none hl _ x a b) (h.sww t sc (by rw [heq]; rfl)) (by
                intro htrue k2 rest2 htodo2 hlt
                rw [htodo] at htodo2
                simp only [List.cons.injEq] at htodo2
                obtain ⟨rfl, rfl⟩ := htodo2
                exact ⟨hlt, Or.inr ⟨hlate, cd, hcd, by rw [← hres, htrue]⟩⟩)
            refine Inv10.scan_step t r sc.late h h4' hat hpt (fun x => ⟨(hlo x).2.2.1, (hlo x).2.2.2.2.1⟩) (by rw [hf.data])
              (by intro u hu; rw [hpc]; simp [setFn, hu]) ?_ ?_ (by intro x hx; rw [heq] at hx; exact hwk x hx)
            · refine hperm.trans ?_
              simp [allOf, heq, PC.priv, PC.scan?, PC.wakeL]
            · intro u hu
              cases e : (s.pc u).unl with
              | false => rfl
              | true => exact absurd (h4.uniq u t e (by rw [heq]; rfl)) hu
  · cases hs

theorem share_of_mwPre {s : State} (h1 : Inv1 s) {u : Tid} {c : MW} (h : (s.pc u).mwPre = some c) : shareOf s u ≠ none := by
  have hne : s.pc u ≠ .idle := by intro e; rw [e] at h; simp [PC.mwPre] at h
  rw [h1.share_eq hne, mwPre_share h]; simp

theorem inv10_dataW {s : State} {t : Tid} {x : Nat} {v : Int} (h1 : Inv1 s) (h : Inv10 s) (ht : s.held t = some .W) :
    Inv10 { s with data := setFn s.data x v } := by
  have hsh : shareOf s t = some .W := by simp [shareOf, tshare, ht]
  have hidle := h1.hidle t (by rw [ht]; simp)
  refine ⟨?_, h.prel, ?_, ?_⟩
  · intro u c hu
    exfalso
    have := h1.lock.writer_alone hsh (share_of_mwPre h1 hu)
    subst this; rw [hidle] at hu; simp [PC.mwPre] at hu
  · intro u sc hu hs'
    obtain ⟨k, hk, hl, hc⟩ := h.sww u sc hu hs'
    refine ⟨k, hk, hl, ?_⟩
    rcases hc with a | ⟨a, _⟩
    · exact Or.inl a
    · exact (no_other_W h1 ht (share_of_scan_late hu a)).elim
  · intro u f hu hs'
    obtain ⟨k, hk, hl, hc⟩ := h.swf u f hu hs'
    refine ⟨k, hk, hl, ?_⟩
    rcases hc with a | ⟨a, _⟩
    · exact Or.inl a
    · exact (no_other_W h1 ht (share_of_fin_late hu a)).elim

theorem Inv10.env {s s' : State} (h : Inv10 s) (hq : s'.queue = s.queue)
    (hwr : ∀ x, (s'.wr x).lType = (s.wr x).lType ∧ (s'.wr x).cond = (s.wr x).cond) (hd : s'.data = s.data) (hpc : s'.pc = s.pc) :
    Inv10 s' :=
  Inv10.local 0 h (fun k hk => (queued_congr hq (by intro u; rw [hpc]) k).1 hk) hq hwr hd (by intro u _; rw [hpc])
    (by rw [hpc]; exact fun c hc => Or.inl ⟨c, hc, rfl⟩) (by rw [hpc]; exact fun c hc => ⟨c, hc, rfl, rfl⟩)
    (by rw [hpc]; exact fun _ e => e) (by rw [hpc]; exact fun _ e => e)

theorem inv10_step {cfg : Cfg} {s s' : State} {e : Event} (h1 : Inv1 s) (h3 : Inv3 s) (h4 : Inv4 s) (h4' : Inv4 s') (h9 : Inv9 s)
    (h : Inv10 s) (hs : step cfg s e = .ok s') : Inv10 s' := by
  cases e with
  | call t a => exact inv10_stepCall h hs
  | ret t a res => exact inv10_stepRet h hs
  | ld t o loc obs => exact inv10_stepLd h3 h hs
  | st t o loc new obs => exact inv10_stepSt h3 h4 h hs
  | cas t o loc exp new obs ok =>
    have hs' : stepCas s t o loc exp new obs ok = .ok s' := hs
    cases hpc : s.pc t <;>
      first
      | exact inv10_stepCasA h1 h3 h4 h4' h (by rw [hpc]; trivial) hs'
      | exact inv10_stepCasB h (by rw [hpc]; trivial) hs'
      | exact inv10_stepCasC h3 h4 h9 h (by rw [hpc]; trivial) hs'
      | (simp [stepCas, hpc] at hs')
  | cond t fn k res => exact inv10_stepCond h1 h4 h4' h hs
  | semPEnter t k =>
    simp only [step] at hs
    split at hs
    · rename_i heq; ld_case10 t h heq hs
    · cases hs
  | semPRet t k =>
    simp only [step] at hs
    split at hs
    · rename_i heq; ld_case10 t h heq hs
    · cases hs
  | semPdEnter t k dl =>
    simp only [step] at hs
    split at hs
    · rename_i heq; ld_case10 t h heq hs
    · cases hs
  | semPdRet t k timedout =>
    simp only [step] at hs
    split at hs
    · rename_i heq; ld_case10 t h heq hs
    · cases hs
  | semV t k =>
    simp only [step] at hs
    split at hs
    · rename_i r k' rest heq
      split at hs
      · cases hs
      · cases hs
        rw [afterFin_eq]
        refine Inv10.local t h ?_ (by simp) (by intro x; simp [semPost, setFn]; split <;> simp_all) (by simp)
          (by intro u hu; simp [setFn, hu]) ?_ ?_ ?_ ?_
        · intro x hx
          refine (queued_same (t := t) (by simp) (by intro u hu; simp [setFn, hu]) ?_ x).1 hx
          simp only [semPost_pc, setPc_pc, setFn_same, heq, finPc_scan]; rfl
        · intro c hc; simp only [semPost_pc, setPc_pc, setFn_same] at hc; cases rest <;> cases r <;> simp [finPc, Ret.pc, PC.mwPre] at hc
        · intro c hc; simp only [semPost_pc, setPc_pc, setFn_same] at hc; cases rest <;> cases r <;> simp [finPc, Ret.pc, PC.mwRel] at hc
        · intro sc hc; simp only [semPost_pc, setPc_pc, setFn_same, finPc_scan] at hc; cases hc
        · intro f hc; simp only [semPost_pc, setPc_pc, setFn_same, finPc_finOf] at hc; cases hc
    · cases hs
  | envV k =>
    simp only [step] at hs; cases hs
    exact h.env (by simp) (by intro x; simp [semPost, setFn]; split <;> simp_all) (by simp) (by simp)
  | envSem k n =>
    simp only [step] at hs
    split at hs
    · cases hs; exact h.env rfl (by intro x; simp [setFn]; split <;> simp_all) rfl rfl
    · cases hs
  | dataW t x v =>
    simp only [step] at hs
    split at hs
    · rename_i ht; cases hs; exact inv10_dataW h1 h ht
    · cases hs
  | dataR t x v =>
    simp only [step] at hs
    split at hs
    · cases hs; exact h
    · cases hs
  | tick n =>
    simp only [step] at hs
    split at hs
    · cases hs; exact h.env rfl (fun _ => ⟨rfl, rfl⟩) rfl rfl
    · cases hs
  | noteSeen t =>
    simp only [step] at hs
    split at hs
    · rename_i heq; ld_case10 t h heq hs
    · cases hs
  | noteNotify t =>
    simp only [step] at hs
    split at hs
    · rename_i heq; ld_case10 t h heq hs
    · rename_i heq; ld_case10 t h heq hs
    · cases hs

end NsyncVerif.MuC
