/-
  Layer `CvFix` (cv.c with the repair of F3; adapted from the `Cv` file of the same name): protocol invariant — transitions that only move the acting thread (releases of the
  spinlock, plain acquisitions, mutex mode, V, semaphore returns).
-/
import NsyncVerif.Proofs.CvFixInvBGen

namespace NsyncVerif.CvFix

set_option hygiene false in
macro "tB_facts" hl:ident : tactic =>
  `(tactic| (
     have hb := hi.thr t
     obtain ⟨b1, b2, b3, b4, b5, b6, b7, b8, b9, b10, b11, b12, b13, b14⟩ := hb
     have a3 := (ha.thr t).live
     simp only [savedLoc, waitLive, waitPrep, Loc.afterLoop, $hl:ident, true_imp_iff] at b1 b2 b3 b4 b5 b6 b7 b8 b9 b12 b13 b14 a3))

set_option hygiene false in
macro "tB_close" : tactic =>
  `(tactic| (
     constructor <;> simp [savedLoc, waitLive, waitPrep, Loc.afterLoop] <;> (try simp_all) <;>
       (first | done | (intro u hst; by_cases hut : u = t <;> simp_all) |
                (intro h0 u hst; by_cases hut : u = t <;> simp_all))))

theorem invB_relWait2 {s : State} (hi : InvB s) (ha : InvA s) (t : Tid) (n : Word) (hl : (s.thr t).loc = .wRel2) :
    InvB ({ s with word := n, holder := none }.setThr t { s.thr t with loc := .wTail }) := by
  tB_facts hl
  refine invB_frame (t := t) hi ha (fun u hu => by simp [hu]) (fun q => ⟨rfl, rfl, rfl, rfl⟩) rfl (by simp) ?_
  tB_close

theorem invB_relDbg {s : State} (hi : InvB s) (ha : InvA s) (t : Tid) (n : Word) (hl : (s.thr t).loc = .dWalk) :
    InvB ({ s with word := n, holder := none }.setThr t { s.thr t with loc := .dRet }) := by
  tB_facts hl
  refine invB_frame (t := t) hi ha (fun u hu => by simp [hu]) (fun q => ⟨rfl, rfl, rfl, rfl⟩) rfl (by simp) ?_
  tB_close

theorem invB_relWait {s : State} (hi : InvB s) (ha : InvA s) (t : Tid) (n : Word) (hl : (s.thr t).loc = .wRel) :
    InvB ({ s with word := n, holder := none, seq := s.seq + 1 }.setRec (s.thr t).r
            { s.recs (s.thr t).r with pub := true, enqSeq := s.seq }
          |>.setThr t { s.thr t with loc := .wUnlock }) := by
  tB_facts hl
  have a4 := (ha.thr t).enq (.inr hl)
  have hmine : (s.thr t).mine = [] := (ha.thr t).mine0 (by simp [inWaitN, hl])
  refine invB_frame (t := t) hi ha (fun u hu => by simp [hu])
    (fun q => by by_cases hq : q = (s.thr t).r <;> simp [hq]) rfl (by simp) ?_
  tB_close

theorem invB_relEnq {s : State} (hi : InvB s) (ha : InvA s) (t : Tid) (n : Word) (hl : (s.thr t).loc = .nEnqRel) :
    InvB ({ s with word := n, holder := none, seq := s.seq + 1 }.setRec (s.thr t).r
            { s.recs (s.thr t).r with pub := true, enqSeq := s.seq }
          |>.setThr t { s.thr t with loc := .nOut }) := by
  tB_facts hl
  have a9 := (ha.thr t).nEnq hl
  refine invB_frame (t := t) hi ha (fun u hu => by simp [hu])
    (fun q => by by_cases hq : q = (s.thr t).r <;> simp [hq]) rfl (by simp) ?_
  constructor <;> simp [savedLoc, waitLive, waitPrep, Loc.afterLoop] <;> (try simp_all)
  intro q hq
  by_cases hqr : q = (s.thr t).r
  · subst hqr; simp [a9.1]
  · simp [hqr]; intro h; exact absurd h (by have := b9 q hq; simpa using this)

theorem invB_relSig {s : State} (hi : InvB s) (ha : InvA s) (t : Tid) (n : Word) (hl : (s.thr t).loc = .sRel) :
    InvB ({ s with word := n, holder := none }.setThr t { s.thr t with loc := wakeEntry s (s.thr t).list }) := by
  tB_facts hl
  have htd : (s.thr t).todo = [] := by
    cases h : (s.thr t).todo with
    | nil => rfl
    | cons a l => have := b12 (by simp [h]); simp at this
  refine invB_frame (t := t) hi ha (fun u hu => by simp [hu]) (fun q => ⟨rfl, rfl, rfl, rfl⟩) rfl (by simp) ?_
  unfold wakeEntry
  cases hlist : (s.thr t).list with
  | nil => tB_close
  | cons f rest =>
    by_cases hc : (f.isMucv && (s.recs f).lt != .gen) = true
    · simp only [hc, if_true]
      simp at hc
      constructor <;> simp [savedLoc, waitLive, waitPrep, Loc.afterLoop, htd, hlist, hc.1]
      simp_all
    · simp only [hc, if_false]
      constructor <;> simp [savedLoc, waitLive, waitPrep, Loc.afterLoop, htd, hlist]
      simp_all

theorem invB_acq_plain {s : State} (hi : InvB s) (ha : InvA s) (t : Tid) (n : Word) (lnew : Loc)
    (hl : (s.thr t).loc = .spCas)
    (hc : (s.thr t).cont = .waitChk ∧ lnew = .wChk2 ∨ (s.thr t).cont = .waitn ∧ lnew = .nLocked ∨
      (s.thr t).cont = .dbg ∧ lnew = .dWalk) :
    InvB ({ s with word := n, holder := some t }.setThr t { s.thr t with old := s.word, loc := lnew }) := by
  tB_facts hl
  refine invB_frame (t := t) hi ha (fun u hu => by simp [hu]) (fun q => ⟨rfl, rfl, rfl, rfl⟩) rfl (by simp) ?_
  rcases hc with ⟨hc, rfl⟩ | ⟨hc, rfl⟩ | ⟨hc, rfl⟩
  · simp only [hc] at b1 b2 b3 b4 b5 b6 b7 a3
    tB_close
  · simp only [hc] at b1 b2 b3 b4 b5 b6 b7 a3
    tB_close
  · simp only [hc] at b1 b2 b3 b4 b5 b6 b7 a3
    tB_close

theorem invB_muMode {s : State} (hi : InvB s) (ha : InvA s) (t : Tid) (lt : LType) (hl : (s.thr t).loc = .wMode) :
    InvB (s.setRec (s.thr t).r { s.recs (s.thr t).r with lt := lt }
          |>.setThr t { s.thr t with loc := .spLd0, cont := .waitEnq, setNE := true }) := by
  tB_facts hl
  have hmine : (s.thr t).mine = [] := (ha.thr t).mine0 (by simp [inWaitN, hl])
  refine invB_frame (t := t) hi ha (fun u hu => by simp [hu])
    (fun q => by by_cases hq : q = (s.thr t).r <;> simp [hq]) rfl (by simp) ?_
  tB_close

theorem invB_semVWake {s : State} (hi : InvB s) (ha : InvA s) (t : Tid) (r : Rid) (sem' : SemId → Nat) (k : SemId)
    (p : Bool) (hl : (s.thr t).loc = .wwV) :
    InvB ({ s with sem := sem' }.setRec r { s.recs r with posted := p }
          |>.setThr t { s.thr t with cur := none, loc := if (s.thr t).list.isEmpty then .kRet else .wwStore }) := by
  tB_facts hl
  have hmine : (s.thr t).mine = [] := (ha.thr t).mine0 (by simp [inWaitN, hl])
  by_cases hz : (s.thr t).list.isEmpty = true <;> simp only [hz, if_true, if_false]
  all_goals
    refine invB_frame (t := t) hi ha (fun u hu => by simp [hu])
      (fun q => by by_cases hq : q = r <;> simp [hq]) rfl (by simp) ?_
    tB_close

theorem invB_semPdRetOkW {s : State} (hi : InvB s) (ha : InvA s) (t : Tid) (sem' : SemId → Nat)
    (hl : (s.thr t).loc = .wSemRet) :
    InvB ({ s with sem := sem' }.setThr t { s.thr t with loc := .wTail }) := by
  tB_facts hl
  refine invB_frame (t := t) hi ha (fun u hu => by simp [hu]) (fun q => ⟨rfl, rfl, rfl, rfl⟩) rfl (by simp) ?_
  tB_close

theorem invB_semPdRetOkC {s : State} (hi : InvB s) (ha : InvA s) (t : Tid) (sem' : SemId → Nat)
    (hl : (s.thr t).loc = .cWait) :
    InvB ({ s with sem := sem' }.setThr t { s.thr t with cTimed := false, loc := .cPost }) := by
  tB_facts hl
  refine invB_frame (t := t) hi ha (fun u hu => by simp [hu]) (fun q => ⟨rfl, rfl, rfl, rfl⟩) rfl (by simp) ?_
  tB_close

/-- `InvB` does not look at cv word, holder, queue, semaphores, clock, sequence numbers. -/
theorem invB_congr {s s' : State} (hi : InvB s) (ha : InvA s) (h4 : s'.recs = s.recs) (h5 : s'.thr = s.thr)
    (h7 : s'.bad = s.bad) : InvB s' := by
  refine invB_frame (t := 0) hi ha (fun u _ => by rw [h5]) (fun q => by rw [h4]; exact ⟨rfl, rfl, rfl, rfl⟩) h7
    (by rw [h5]) ?_
  exact tinvB_other (hi.thr 0) (ha.thr 0) (by rw [h5]) (fun v => by rw [h5])
    (fun q _ _ => by rw [h4]; exact ⟨rfl, rfl, rfl⟩)

end NsyncVerif.CvFix
