/-
  Proofs/WaitNFairRet.lean — WaitN layer, liveness: a call that reaches `idle` does so by its `ret nsync_wait_n`
  event (`returns_by_ret`), so that `C11_index_ready` / `C11_timeout` apply to the returned value.
-/
import NsyncVerif.Proofs.WaitNFairSig

set_option linter.unusedSimpArgs false
set_option linter.unusedVariables false

namespace WaitN

variable {s0 : State}

theorem ret_event {s s' : State} {t : Tid} {e : Ev} {r : Nat} (h : stepThr s t e = .ok s') (hpc : s.pc t = .wRet r)
    (hi : s'.pc t = .idle) : ∃ nested, e = .retWaitN r nested := by
  unfold stepThr at h
  rw [hpc] at h
  simp only [stepRet] at h
  split at h
  · rename_i r' nested
    split at h
    · rename_i hc; exact ⟨nested, by rw [hc.1]⟩
    · simp at h
  · rw [(dflt_keeps h).1, hpc] at hi; cases hi

/-- the first time at which the thread is idle again -/
theorem first_idle (x : Exec s0) (t : Tid) (i : Nat) (hi : (x.ρ i).pc t ≠ .idle) :
    ∀ d, (x.ρ (i + d)).pc t = .idle →
      ∃ k, i ≤ k ∧ (∀ k', i ≤ k' → k' ≤ k → (x.ρ k').pc t ≠ .idle) ∧ (x.ρ (k + 1)).pc t = .idle := by
  intro d
  induction d using Nat.strongRecOn with
  | ind d ih =>
    intro hd
    by_cases hex : ∃ d', d' < d ∧ (x.ρ (i + d')).pc t = .idle
    · obtain ⟨d', h1, h2⟩ := hex
      exact ih d' h1 h2
    · cases d with
      | zero => exact absurd hd hi
      | succ d =>
        refine ⟨i + d, by omega, fun k' h1 h2 h3 => ?_, hd⟩
        obtain ⟨d', rfl⟩ : ∃ d', k' = i + d' := ⟨k' - i, by omega⟩
        exact hex ⟨d', by omega, h3⟩

/-- A call that is idle again has returned by a `ret nsync_wait_n` event. -/
theorem returns_by_ret (x : Exec s0) (hr : Reachable s0) (t : Tid) (i j : Nat) (hij : i ≤ j)
    (hin : inCall ((x.ρ i).pc t) = true) (hj : (x.ρ j).pc t = .idle) :
    ∃ k r nested, i ≤ k ∧ k < j ∧ (∀ k', i ≤ k' → k' ≤ k → inCall ((x.ρ k').pc t) = true)
      ∧ x.σ k = some (.thr t (.retWaitN r nested)) ∧ (x.ρ (k + 1)).pc t = .idle := by
  have hi : (x.ρ i).pc t ≠ .idle := fun h => by rw [h] at hin; cases hin
  obtain ⟨d, rfl⟩ : ∃ d, j = i + d := ⟨j - i, by omega⟩
  obtain ⟨k, hk, hall, hk1⟩ := first_idle x t i hi d hj
  have hinc : ∀ d', i + d' ≤ k → inCall ((x.ρ (i + d')).pc t) = true := by
    intro d'
    induction d' with
    | zero => intro _; exact hin
    | succ d' ih =>
      intro h
      rw [show i + (d' + 1) = i + d' + 1 by omega, x.inCall_step t (i + d') (hall _ (by omega) (by omega)) (hall _ (by omega) (by omega))]
      exact ih (by omega)
  have hkin : inCall ((x.ρ k).pc t) = true := by
    obtain ⟨d', rfl⟩ : ∃ d', k = i + d' := ⟨k - i, by omega⟩
    exact hinc d' (Nat.le_refl _)
  have hklt : k < i + d := by
    apply Classical.byContradiction
    intro h
    exact hall (i + d) (by omega) (by omega) hj
  cases hs : x.σ k with
  | none => rw [x.next_none hs] at hk1; rw [hk1] at hkin; cases hkin
  | some ev =>
    have hstep := x.next_some hs
    cases ev with
    | tick ns => rw [(step_tick hstep).1] at hk1; rw [hk1] at hkin; cases hkin
    | thr v e =>
      by_cases hv : v = t
      · subst hv
        have hst := step_thr hstep
        rcases quiet_or_structural hst with q | st
        · have := q.inCall v; rw [hk1, hkin] at this; cases this
        · cases st with
          | call mu dl objs nested hpc _ _ _ => rw [hpc] at hkin; cases hkin
          | init i' r oid hpc _ _ _ hs' => rw [hs'] at hk1; simp at hk1; split at hk1 <;> cases hk1
          | free hpc hs' =>
            rw [hs'] at hk1; simp only [setPc_pc, if_pos] at hk1
            have := inCall_relockNext { (x.ρ k).fr v with frees := ((x.ρ k).fr v).frees + 1 }
            rw [hk1] at this; cases this
          | ret r hpc _ =>
            obtain ⟨nested, he⟩ := ret_event hst hpc hk1
            refine ⟨k, r, nested, hk, hklt, fun k' h1 h2 => ?_, by rw [← he]; exact hs, hk1⟩
            obtain ⟨d', rfl⟩ : ∃ d', k' = i + d' := ⟨k' - i, by omega⟩
            exact hinc d' h2
      · rw [(others_stepThr (step_thr hstep) t (fun h => hv h.symm)).1] at hk1
        rw [hk1] at hkin; cases hkin

end WaitN
