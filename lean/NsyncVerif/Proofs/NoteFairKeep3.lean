/-
  Layer `Note`, fair termination: a thread is "before the link" of a `nsync_note_new (parent, …)`
  only from the API entry on (`PC.isNewPre` is not entered by own steps): after the last arrival the
  number of such threads never increases, and every link decreases it.
-/
import NsyncVerif.Proofs.NoteFairKeep2

set_option linter.unusedSimpArgs false

namespace Note

def DK.isNewP : DK → Bool
  | .newSelf (some _) _ => true
  | _ => false

def NK.isNewP : NK → Bool
  | .ofDeadline k => k.isNewP
  | .ofApi => false

/-- Inside `nsync_note_new (parent, …)` before the new note is linked (or found not to be). -/
def PC.isNewPre : PC → Bool
  | .newMalloc (some _) _ => true
  | .dl _ _ _ k => k.isNewP
  | .nfy _ _ _ k => k.isNewP
  | .chd _ _ top => top.k.isNewP
  | .newP p _ _ _ =>
    (match p with
     | .lockCall | .lockRet | .ld => true
     | _ => false)
  | _ => false

theorem isNewPre_afterDeadlinePc (n : NoteId) (nt : Dl) (k : DK)
    (h : (afterDeadlinePc n nt k).isNewPre = true) : k.isNewP = true := by
  cases k with
  | newSelf par dl =>
    cases par with
    | none => simp only [afterDeadlinePc] at h; split at h <;> cases h
    | some p => rfl
  | _ => simp only [afterDeadlinePc] at h <;> (repeat' split at h) <;> cases h

theorem isNewPre_afterNotifyPc (n : NoteId) (k : NK) (h : (afterNotifyPc n k).isNewPre = true) :
    k.isNewP = true := by
  cases k with
  | ofApi => cases h
  | ofDeadline k => exact isNewPre_afterDeadlinePc n (some 0) k h

theorem isNewPre_childReturnPc (f : Frame) (rest : List Frame) (top : Top) :
    (childReturnPc f rest top).isNewPre = top.k.isNewP := by
  unfold childReturnPc
  cases rest with
  | cons g r => rfl
  | nil => cases top.par <;> rfl

theorem isNewPre_childLoopStartPc (cs : List NoteId) (f : Frame) (rest : List Frame) (top : Top) :
    (childLoopStartPc cs f rest top).isNewPre = top.k.isNewP := by cases cs <;> rfl

theorem isNewPre_childWakeNextPc (s : State) (f : Frame) (rest : List Frame) (top : Top) :
    (childWakeNextPc s f rest top).isNewPre = top.k.isNewP := by
  unfold childWakeNextPc
  split
  · rfl
  · exact isNewPre_childLoopStartPc _ _ _ _

theorem isNewPre_freeLoopStartPc (cs : List NoteId) (n : NoteId) (par : Option NoteId) :
    (freeLoopStartPc cs n par).isNewPre = false := by cases cs <;> rfl

/-- What an own step keeps. -/
def KeepPre (s s' : State) (t : Tid) : Prop :=
  (s'.pc t).isNewPre = true → (s.pc t).isNewPre = true

macro "kpre_simp" : tactic => `(tactic| (
  simp only [KeepPre, setPc_pc, upd_same, afterDeadline_pc, afterNotify_pc, childReturn_pc,
    childWakeNext_pc, childScanStart_pc, freeLoopStart_pc, enterChild_pc, leave_pc, addUser_pc,
    markCalled_pc, markFreeing_pc, setAfter_pc, pushObs_pc, publish_pc, delUser_pc, modRec_pc,
    modNote_pc, markBorn_pc, setNow_pc, allocNote_pc, acquire_pc, release_pc, incDisc_pc,
    decDisc_pc, setWaiters_pc, setAdopted_pc, setExpiry_pc, setNotified_pc, markFreed_pc,
    eraseChild_pc, clearParent_pc, link_pc, unlink_pc, newExpiry_pc] at *))

macro "kpre_close" : tactic => `(tactic| (
  intro hnl
  rw [‹Note.State.pc _ _ = _›]
  try simp only [isNewPre_childReturnPc, isNewPre_childLoopStartPc, isNewPre_childWakeNextPc,
    isNewPre_freeLoopStartPc] at hnl
  first
    | (simp [PC.isNewPre, NK.isNewP, DK.isNewP] at hnl; done)
    | (simp_all [PC.isNewPre, NK.isNewP, DK.isNewP]; done)
    | (exact isNewPre_afterDeadlinePc _ _ _ hnl)
    | (exact isNewPre_afterNotifyPc _ _ hnl)))

theorem kpre_lockRet {s s' : State} {t : Tid}  (hs : step s (.lockRet t) = .ok s')
    (hp : s.pc t ≠ .idle) : KeepPre s s' t := by
  step_cases hs
  all_goals kpre_simp
  all_goals (try (exact absurd ‹s.pc t = PC.idle› hp))
  all_goals (try (kpre_close; done))

theorem kpre_lockCall {s s' : State} {t : Tid} {k : NoteId} (hs : step s (.lockCall t k) = .ok s')
    (hp : s.pc t ≠ .idle) : KeepPre s s' t := by
  step_cases hs
  all_goals kpre_simp
  all_goals (try (exact absurd ‹s.pc t = PC.idle› hp))
  all_goals (try (kpre_close; done))

theorem kpre_unlockCall {s s' : State} {t : Tid} {k : NoteId} (hs : step s (.unlockCall t k) = .ok s')
    (hp : s.pc t ≠ .idle) : KeepPre s s' t := by
  step_cases hs
  all_goals kpre_simp
  all_goals (try (exact absurd ‹s.pc t = PC.idle› hp))
  all_goals (try (kpre_close; done))

theorem kpre_unlockRet {s s' : State} {t : Tid}  (hs : step s (.unlockRet t) = .ok s')
    (hp : s.pc t ≠ .idle) : KeepPre s s' t := by
  step_cases hs
  all_goals kpre_simp
  all_goals (try (exact absurd ‹s.pc t = PC.idle› hp))
  all_goals (try (kpre_close; done))

theorem kpre_tryCall {s s' : State} {t : Tid} {k : NoteId} (hs : step s (.tryCall t k) = .ok s')
    (hp : s.pc t ≠ .idle) : KeepPre s s' t := by
  step_cases hs
  all_goals kpre_simp
  all_goals (try (exact absurd ‹s.pc t = PC.idle› hp))
  all_goals (try (kpre_close; done))

theorem kpre_tryRet {s s' : State} {t : Tid} {ok : Bool} (hs : step s (.tryRet t ok) = .ok s')
    (hp : s.pc t ≠ .idle) : KeepPre s s' t := by
  step_cases hs
  all_goals kpre_simp
  all_goals (try (exact absurd ‹s.pc t = PC.idle› hp))
  all_goals (try (kpre_close; done))

theorem kpre_waitCall {s s' : State} {t : Tid} {k : NoteId} (hs : step s (.waitCall t k) = .ok s')
    (hp : s.pc t ≠ .idle) : KeepPre s s' t := by
  step_cases hs
  all_goals kpre_simp
  all_goals (try (exact absurd ‹s.pc t = PC.idle› hp))
  all_goals (try (kpre_close; done))

theorem kpre_waitRet {s s' : State} {t : Tid}  (hs : step s (.waitRet t) = .ok s')
    (hp : s.pc t ≠ .idle) : KeepPre s s' t := by
  step_cases hs
  all_goals kpre_simp
  all_goals (try (exact absurd ‹s.pc t = PC.idle› hp))
  all_goals (try (kpre_close; done))

theorem kpre_ld {s s' : State} {t : Tid} {site : Site} {ord : Ord} {k : NoteId} {obs : Nat} (hs : step s (.ld t site ord k obs) = .ok s')
    (hp : s.pc t ≠ .idle) : KeepPre s s' t := by
  step_cases hs
  all_goals kpre_simp
  all_goals (try (exact absurd ‹s.pc t = PC.idle› hp))
  all_goals (try (kpre_close; done))

theorem kpre_stNote {s s' : State} {t : Tid} {site : Site} {ord : Ord} {k : NoteId} {new obs : Nat} (hs : step s (.stNote t site ord k new obs) = .ok s')
    (hp : s.pc t ≠ .idle) : KeepPre s s' t := by
  step_cases hs
  all_goals kpre_simp
  all_goals (try (exact absurd ‹s.pc t = PC.idle› hp))
  all_goals (try (kpre_close; done))

theorem kpre_stW {s s' : State} {t : Tid} {site : Site} {ord : Ord} {r : Rid} {new obs : Nat} (hs : step s (.stW t site ord r new obs) = .ok s')
    (hp : s.pc t ≠ .idle) : KeepPre s s' t := by
  step_cases hs
  all_goals kpre_simp
  all_goals (try (exact absurd ‹s.pc t = PC.idle› hp))
  all_goals (try (kpre_close; done))

theorem kpre_ret {s s' : State} {t : Tid} {r : ApiRet} (hs : step s (.ret t r) = .ok s')
    (hp : s.pc t ≠ .idle) : KeepPre s s' t := by
  step_cases hs
  all_goals kpre_simp
  all_goals (try (exact absurd ‹s.pc t = PC.idle› hp))
  all_goals (try (kpre_close; done))

theorem kpre_waitnCall {s s' : State} {t : Tid} {d : Dl} (hs : step s (.waitnCall t d) = .ok s')
    (hp : s.pc t ≠ .idle) : KeepPre s s' t := by
  step_cases hs
  all_goals kpre_simp
  all_goals (try (exact absurd ‹s.pc t = PC.idle› hp))
  all_goals (try (kpre_close; done))

theorem kpre_waitnRet {s s' : State} {t : Tid} {rd : Nat} (hs : step s (.waitnRet t rd) = .ok s')
    (hp : s.pc t ≠ .idle) : KeepPre s s' t := by
  step_cases hs
  all_goals kpre_simp
  all_goals (try (exact absurd ‹s.pc t = PC.idle› hp))
  all_goals (try (kpre_close; done))

theorem kpre_now {s s' : State} {t : Tid} {v : Nat} (hs : step s (.now t v) = .ok s')
    (hp : s.pc t ≠ .idle) : KeepPre s s' t := by
  step_cases hs
  all_goals kpre_simp
  all_goals (try (exact absurd ‹s.pc t = PC.idle› hp))
  all_goals (try (kpre_close; done))

theorem kpre_semV {s s' : State} {t : Tid} {sem : Nat} (hs : step s (.semV t sem) = .ok s')
    (hp : s.pc t ≠ .idle) : KeepPre s s' t := by
  step_cases hs
  all_goals kpre_simp
  all_goals (try (exact absurd ‹s.pc t = PC.idle› hp))
  all_goals (try (kpre_close; done))

theorem kpre_pdEnter {s s' : State} {t : Tid} {sem : Nat} {d : Dl} (hs : step s (.pdEnter t sem d) = .ok s')
    (hp : s.pc t ≠ .idle) : KeepPre s s' t := by
  step_cases hs
  all_goals kpre_simp
  all_goals (try (exact absurd ‹s.pc t = PC.idle› hp))
  all_goals (try (kpre_close; done))

theorem kpre_pdRet {s s' : State} {t : Tid} {sem : Nat} {b : Bool} (hs : step s (.pdRet t sem b) = .ok s')
    (hp : s.pc t ≠ .idle) : KeepPre s s' t := by
  step_cases hs
  all_goals kpre_simp
  all_goals (try (exact absurd ‹s.pc t = PC.idle› hp))
  all_goals (try (kpre_close; done))

theorem kpre_malloc {s s' : State} {t : Tid} {res : Option NoteId} (hs : step s (.malloc t res) = .ok s')
    (hp : s.pc t ≠ .idle) : KeepPre s s' t := by
  step_cases hs
  all_goals kpre_simp
  all_goals (try (exact absurd ‹s.pc t = PC.idle› hp))
  all_goals (try (kpre_close; done))
  · intro h
    rw [‹s.pc t = _›]
    rename_i par _ _ _ _ _
    cases par with
    | none => cases h
    | some q => rfl

theorem kpre_free {s s' : State} {t : Tid} {k : NoteId} (hs : step s (.free t k) = .ok s')
    (hp : s.pc t ≠ .idle) : KeepPre s s' t := by
  step_cases hs
  all_goals kpre_simp
  all_goals (try (exact absurd ‹s.pc t = PC.idle› hp))
  all_goals (try (kpre_close; done))

/-- Own steps do not lead into the part of `nsync_note_new` before the link. -/
theorem own_keepPre {s s' : State} {e : Event} {t : Tid} (hs : step s e = .ok s')
    (ha : e.actor = some t) (hp : s.pc t ≠ .idle) (h : (s'.pc t).isNewPre = true) :
    (s.pc t).isNewPre = true := by
  cases e <;> simp only [Event.actor, Option.some.injEq, reduceCtorEq] at ha <;> subst ha
  · exfalso
    cases hpc : s.pc _ with
    | idle => exact hp hpc
    | _ => simp [step, hpc] at hs
  · exact kpre_ret hs hp h
  · exact kpre_ld hs hp h
  · exact kpre_stNote hs hp h
  · exact kpre_stW hs hp h
  · exact kpre_lockCall hs hp h
  · exact kpre_lockRet hs hp h
  · exact kpre_unlockCall hs hp h
  · exact kpre_unlockRet hs hp h
  · exact kpre_tryCall hs hp h
  · exact kpre_tryRet hs hp h
  · exact kpre_waitCall hs hp h
  · exact kpre_waitRet hs hp h
  · exact kpre_waitnCall hs hp h
  · exact kpre_waitnRet hs hp h
  · exact kpre_now hs hp h
  · exact kpre_semV hs hp h
  · exact kpre_pdEnter hs hp h
  · exact kpre_pdRet hs hp h
  · exact kpre_malloc hs hp h
  · exact kpre_free hs hp h

/-- … nor do steps of the others or of a thread outside any call (other than `call`). -/
theorem step_keepPre {s s' : State} {e : Event} {t : Tid} (hs : step s e = .ok s')
    (hc : ∀ a, e ≠ .call t a) (h : (s'.pc t).isNewPre = true) : (s.pc t).isNewPre = true := by
  by_cases ha : e.actor = some t
  · by_cases hp : s.pc t = .idle
    · rw [step_idle hs hp hc] at h; cases h
    · exact own_keepPre hs ha hp h
  · rw [step_pc_other hs t ha] at h; exact h

end Note
