/-
  Layer `Note`: the abstract mutexes agree with the program counters (`LockInv`): a note's mutex is
  held by thread `t` iff the program counter of `t` says so.
-/
import NsyncVerif.Proofs.NoteInvL3

set_option linter.unusedSimpArgs false

namespace Note

structure LockInv (s : State) : Prop where
  iff : ∀ k t, (s.notes k).lockHolder = some t ↔ k ∈ (s.pc t).held
  alloc : ∀ k t, (s.notes k).lockHolder = some t → (s.notes k).allocated = true

theorem LockInv.init : LockInv Note.init := by
  refine ⟨?_, ?_⟩ <;> simp [Note.init, PC.held, NoteRec.blank]

/-- A step of thread `a` does not change which locks another thread holds. -/
theorem step_lock_other {s s' : State} {e : Event} (hK : LockInv s) (hs : step s e = .ok s')
    (t : Tid) (ht : e.actor ≠ some t) (k : NoteId) :
    (s'.notes k).lockHolder = some t ↔ (s.notes k).lockHolder = some t := by
  cases e
  all_goals step_cases hs
  all_goals simp only [Event.actor, ne_eq, Option.some.injEq] at ht
  all_goals (try exact Iff.rfl)
  all_goals (try (simp; done))
  all_goals (repeat' split)
  all_goals (try (simp; done))
  all_goals (try (
    simp only [setPc_notes, acquire_f_lockHolder, release_f_lockHolder, incDisc_f_lockHolder,
      decDisc_f_lockHolder, link_f_lockHolder, unlink_f_lockHolder, eraseChild_f_lockHolder,
      clearParent_f_lockHolder, enterChild_notes, freeLoopStart_f_lockHolder, childReturn_f_lockHolder,
      setAdopted_f_lockHolder, childScanStart_f_lockHolder]
    (repeat' split) <;> simp_all <;> (intro h; exact ht (Option.some.inj h).symm)))
  · rename_i k0 hfresh
    simp only [setPc_notes, allocNote_f]
    split
    · next hk =>
      subst hk
      constructor
      · intro h; simp [NoteRec.blank] at h
      · intro h; have := hK.alloc k t h; rw [hfresh] at this; cases this
    · exact Iff.rfl

/-- The locks held by the acting thread after its step are those its new program counter says. -/
theorem LockInv.actor {s s' : State} {e : Event} (hK : LockInv s) (hN : InvN s) (hS : InvS s)
    (hL : InvL s) (hs : step s e = .ok s') (a : Tid) (ha : e.actor = some a) (k : NoteId) :
    (s'.notes k).lockHolder = some a ↔ k ∈ (s'.pc a).held := by
  have hl : ∀ k, (s.notes k).lockHolder = some a ↔ k ∈ (s.pc a).held := fun k => hK.iff k a
  have hc := hL.claim a
  have hcN := hN.claim a
  cases e
  all_goals step_cases hs
  all_goals simp only [Event.actor, Option.some.injEq, reduceCtorEq] at ha
  all_goals (try subst ha)
  all_goals (try (rw [‹s.pc _ = _›] at hc hcN; simp only [‹s.pc _ = _›] at hl))
  all_goals (try (simp only [setPc_pc, upd_same, afterDeadline_pc, afterNotify_pc, childReturn_pc,
    childWakeNext_pc, childScanStart_pc, freeLoopStart_pc, enterChild_pc, leave_pc, addUser_pc, markCalled_pc,
    markFreeing_pc, setAfter_pc, pushObs_pc, publish_pc, delUser_pc]))
  all_goals (try (simp only [held_childReturnPc _ _ _ hc.2.2.1]))
  all_goals (try (simp only [held_afterDeadlinePc, held_afterNotifyPc, held_childWakeNextPc,
    held_freeLoopStartPc, held_childLoopStartPc]))
  all_goals (try (simpa [PC.held] using hl k; done))
  all_goals (try (
    simp only [setPc_notes, acquire_f_lockHolder, release_f_lockHolder, incDisc_f_lockHolder,
      decDisc_f_lockHolder, link_f_lockHolder, unlink_f_lockHolder, eraseChild_f_lockHolder,
      clearParent_f_lockHolder, enterChild_notes, freeLoopStart_f_lockHolder, childReturn_f_lockHolder,
      setAdopted_f_lockHolder, childScanStart_f_lockHolder, childWakeNext_f_lockHolder, setNotified_f_lockHolder, afterDeadline_f_lockHolder,
      afterNotify_f_lockHolder, markBorn_notes,
      PC.held] at hl ⊢
    first
      | (split
         · next h => subst h; simp_all
         · next h => simpa [h] using hl k)
      | (simpa using hl k)
      | (simp_all; done)
      | grind))
  -- notify: unlock the parent
  · rename_i k0 _ n p nk _ _ _ hk
    subst hk
    have hne : k0 ≠ n := (hc k0 rfl).2
    simp only [setPc_notes, release_f_lockHolder, PC.held, Option.toList, List.mem_cons,
      List.mem_singleton, List.not_mem_nil, or_false] at hl ⊢
    split
    · next h => subst h; simp [hne]
    · next h => rw [hl k]; simp [h]
  -- note_notify_child: unlock a child
  · rename_i k0 _ c stk top _ _ _ hk
    subst hk
    have hab := LClaim.above_cur hL hc (c := k0) rfl
    simp only [setPc_notes, release_f_lockHolder, PC.held, List.mem_cons] at hl ⊢
    split
    · next h =>
      subst h
      constructor
      · intro h; cases h
      · intro h; exact absurd rfl (hab _ h).2
    · next h => rw [hl k]; simp [h]
  -- free: unlock a child
  · rename_i k0 _ n par c nx _ _ _ hk
    subst hk
    have h1 : n ≠ k0 := (hc.2.2 rfl).2
    have h2 : ∀ p, par = some p → p ≠ k0 :=
      fun p hp => (Lt.trans hL (hc.2.1 p hp) (hc.2.2 rfl)).2
    simp only [setPc_notes, release_f_lockHolder, PC.held, List.mem_cons] at hl ⊢
    split
    · next h =>
      subst h
      constructor
      · intro h; cases h
      · intro h
        rcases h with h | h
        · exact absurd h.symm h1
        · cases par with
          | none => cases h
          | some p =>
            simp only [Option.toList, List.mem_singleton] at h
            exact absurd h.symm (h2 p rfl)
    · next h => rw [hl k]; simp [h]
  -- free: unlock the parent
  · rename_i k0 _ n p c nx _ _ _ hk
    subst hk
    have hne : k0 ≠ n := (hc.2.1 k0 rfl).2
    simp only [setPc_notes, release_f_lockHolder, PC.held, Option.toList, List.mem_cons,
      List.mem_singleton, List.not_mem_nil, or_false] at hl ⊢
    split
    · next h => subst h; simp [hne]
    · next h => rw [hl k]; simp [h]
  -- note_notify_child: WAIT_FOR_NO_CHILDREN releases the lock
  · rename_i k0 _ f rest top _ hch _ _ hk
    subst hk
    have hab := LClaim.above_head hL hc
    have hd : (s.notes f.note).waitDone = false := by simpa using hch
    simp only [setPc_notes, release_f_lockHolder, hd, PC.held, List.map_cons, List.tail_cons,
      List.cons_append, List.mem_cons] at hl ⊢
    split
    · next h =>
      subst h
      constructor
      · intro h; cases h
      · intro h; exact absurd rfl (hab _ h).2
    · next h => rw [hl k]; simp [h]
  -- free: WAIT_FOR_NO_CHILDREN releases the lock
  · rename_i k0 _ n par c nx _ hch _ _ hk
    subst hk
    have hd : (s.notes k0).waitDone = false := by simpa using hch
    simp only [setPc_notes, release_f_lockHolder, hd, PC.held, List.mem_cons] at hl ⊢
    split
    · next h =>
      subst h
      constructor
      · intro h; cases h
      · intro h
        cases par with
        | none => cases h
        | some p =>
          simp only [Option.toList, List.mem_singleton] at h
          exact absurd h.symm (hc.2.1 p rfl).2
    · next h => rw [hl k]; simp [h]
  -- malloc
  · simp only [setPc_notes, allocNote_f, PC.held] at hl ⊢
    split
    · simp [NoteRec.blank]
    · simpa using hl k

theorem Lt.alloc_left {s : State} (hS : InvS s) {a b : NoteId} (h : Lt s a b) :
    (s.notes a).allocated = true := hS.anc b a h.1.1

theorem Lt.alloc_right {s : State} (hS : InvS s) {a b : NoteId} (h : Lt s a b) :
    (s.notes b).allocated = true := hS.alloc_of_anc h.1.1

/-- Every lock a program counter claims is the lock of an allocated note. -/
theorem held_alloc {s : State} (hN : InvN s) (hS : InvS s) (hL : InvL s) {t : Tid} {k : NoteId}
    (hk : k ∈ (s.pc t).held) : (s.notes k).allocated = true := by
  have hcN := hN.claim t
  have hcS := hS.claim t
  have hcL := hL.claim t
  cases hpc : s.pc t with
  | dl pos n nt dk =>
    rw [hpc] at hk hcN
    have : k = n := by cases pos <;> simp [PC.held] at hk <;> exact hk
    exact this ▸ hcN.1
  | nfy pos n par nk =>
    rw [hpc] at hk hcN hcL
    have : k = n ∨ par = some k := by
      cases pos <;> simp [PC.held] at hk <;> (try (left; exact hk)) <;> (try (right; exact hk))
        <;> exact hk
    rcases this with h | h
    · exact h ▸ hcN.1
    · exact (hcL k h).alloc_left hS
  | chd pos stk top =>
    rw [hpc] at hk hcN hcL
    cases stk with
    | nil => have := hcL.2.2.1; simp at this
    | cons f rest =>
      have hmem : (pos.cur = some k) ∨ k = f.note ∨ k ∈ rest.map Frame.note ++ top.par.toList := by
        cases pos with
        | waitRet b =>
          cases b
          · right; right; simpa [PC.held] using hk
          · simp only [PC.held, List.map_cons, List.cons_append, List.mem_cons] at hk
            right; exact hk
        | unlockChild c =>
          simp only [PC.held, List.map_cons, List.cons_append, List.mem_cons] at hk
          rcases hk with h | h
          · left; simp [h]
          · right; exact h
        | _ =>
          simp only [PC.held, List.map_cons, List.cons_append, List.mem_cons] at hk
          right; exact hk
      rcases hmem with h | h | h
      · exact (hcL.2.2.2 k f h rfl).alloc_right hS
      · exact h ▸ hcN.2.2.2.2.1
      · exact (LClaim.above_head hL hcL k h).alloc_left hS
  | newP pos n p dl =>
    rw [hpc] at hk hcS
    have : k = p := by cases pos <;> simp [PC.held] at hk <;> exact hk
    exact this ▸ hcS.2.1
  | fr pos n par c nx =>
    rw [hpc] at hk hcL
    have : k = n ∨ par = some k ∨ (pos = .unlockChild ∧ k = c) := by
      cases pos <;> simp [PC.held] at hk
      all_goals (first
        | (left; exact hk)
        | (right; left; exact hk)
        | (rcases hk with h | h
           · left; exact h
           · right; left; exact h)
        | (rcases hk with h | h | h
           · right; right; exact ⟨rfl, h⟩
           · left; exact h
           · right; left; exact h)
        | (rename_i b; cases b <;> simp at hk
           · right; left; exact hk
           · rcases hk with h | h
             · left; exact h
             · right; left; exact h))
    rcases this with h | h | ⟨h1, h2⟩
    · exact h ▸ hcL.1
    · exact (hcL.2.1 k h).alloc_left hS
    · subst h1 h2; exact (hcL.2.2 rfl).alloc_right hS
  | wt pos n wdl r =>
    rw [hpc] at hk hcN
    have : k = n := by cases pos <;> simp [PC.held] at hk <;> exact hk
    exact this ▸ hcN.1
  | _ => rw [hpc] at hk; simp [PC.held] at hk

theorem step_lockInv {s s' : State} {e : Event} (hK : LockInv s) (hN : InvN s) (hS : InvS s)
    (hL : InvL s) (hN' : InvN s') (hS' : InvS s') (hL' : InvL s')
    (hs : step s e = .ok s') : LockInv s' := by
  have hiff : ∀ k t, (s'.notes k).lockHolder = some t ↔ k ∈ (s'.pc t).held := by
    intro k t
    by_cases ha : e.actor = some t
    · exact LockInv.actor hK hN hS hL hs t ha k
    · rw [step_lock_other hK hs t ha k, step_pc_other hs t ha]; exact hK.iff k t
  exact ⟨hiff, fun k t h => held_alloc hN' hS' hL' ((hiff k t).mp h)⟩

/-- All invariant families, including the lock agreement, hold in every reachable state. -/
theorem Reachable.inv6 {s : State} (h : Reachable s) :
    InvA s ∧ InvN s ∧ InvS s ∧ InvX s ∧ InvL s ∧ LockInv s := by
  refine Reachable.induction
    (P := fun s => InvA s ∧ InvN s ∧ InvS s ∧ InvX s ∧ InvL s ∧ LockInv s)
    ⟨InvA.init, InvN.init, InvS.init, InvX.init, InvL.init, LockInv.init⟩ ?_ s h
  intro s e s' _ hi hs
  obtain ⟨hA, hN, hS, hX, hL, hK⟩ := hi
  have hN' := step_invN hA hN hs
  have hS' := step_invS hS hs
  have hL' := step_invL hS hN hL hs
  exact ⟨step_invA hA hs, hN', hS', step_invX hA hN hX hs, hL',
    step_lockInv hK hN hS hL hN' hS' hL' hs⟩

end Note
