/-
  Proofs/WaitNLocalInv.lean — thread-local invariant: the statements of wait.c between the waitable
  calls, and the invariant over all reachable states.
-/
import NsyncVerif.Proofs.WaitNLocalStep3

set_option linter.unusedSimpArgs false

namespace WaitN

theorem recKind_append {h : Option Nat} {l : List Rid} {r : Rid} (hl : ∀ x ∈ l, recKind h x) (hr : recKind h r) :
    ∀ x ∈ l ++ [r], recKind h x := by
  intro x hx
  rcases List.mem_append.1 hx with hx | hx
  · exact hl x hx
  · simp only [List.mem_singleton] at hx; subst hx; exact hr

theorem recKind_of_ridOk {r : Rid} {h : Option Nat} {i : Nat} (hk : ridOk r h i = true) : recKind h r := by
  unfold ridOk at hk
  unfold recKind
  split at hk <;> simp_all

theorem linv_stepAlloc {s s' : State} {t : Tid} {e : Ev}
    (hpc : s.pc t = .wAlloc) (hinv : LInv .wAlloc (s.fr t)) (h : stepAlloc s t e = .ok s') :
    LInv (s'.pc t) (s'.fr t) := by
  have hinv0 : LInv (s.pc t) (s.fr t) := by rw [hpc]; exact hinv
  unfold stepAlloc at h
  split_ok h
  all_goals first
    | exact (keeps_dflt h).linv hinv0
    | (cases h
       simp only [setPc_pc, setPc_fr, setFr_fr, if_true]
       simp only [LInv] at hinv
       obtain ⟨hf, hr, h4, hd⟩ := hinv
       apply linv_enqNext (res := true) _ _ (by simpa using hf.why) (by simp)
       · exact { heap := (by simp only [Frame.count] at h4 ⊢; exact (decide_eq_true h4).symm ▸ rfl),
                 mallocs := (by simp only [Frame.count] at h4 ⊢; simp [hf.mallocs, h4]),
                 kinds := (by intro r hr; simp only [hf.recs] at hr; cases hr), pos := hf.pos, dl := hd,
                 len := (by simp [hf.recs]), frees := hf.frees, unlocked := hf.unlocked, held := hf.held, ready := hr,
                 deqRes := hf.deqRes, min := hf.min, freed := hf.freed }
       · simp [hf.recs])

theorem linv_stepInit {s s' : State} {t : Tid} {i : Nat} {e : Ev}
    (hpc : s.pc t = .wInit i) (hinv : LInv (.wInit i) (s.fr t)) (h : stepInit s t i e = .ok s') :
    LInv (s'.pc t) (s'.fr t) := by
  have hinv0 : LInv (s.pc t) (s.fr t) := by rw [hpc]; exact hinv
  unfold stepInit at h
  split_ok h
  all_goals first
    | exact (keeps_dflt h).linv hinv0
    | (rename_i r new _ oid hoid hc hcv
       cases h
       simp only [setPc_pc, setPc_fr, setFr_fr, setRec_fr, if_true]
       simp only [LInv] at hinv
       obtain ⟨hp, hl, hi, hw⟩ := hinv
       have hp' : PreLoop { s.fr t with recs := (s.fr t).recs ++ [r] } :=
         { hp with kinds := recKind_append hp.kinds (recKind_of_ridOk hc.2.2.1),
                   len := by simp [Frame.count] at hi ⊢; omega }
       refine ⟨hp', by simp [hl], ?_, hw⟩
       cases oid <;> simp [ObjId.isCv] at hcv <;>
         first | exact ⟨_, hoid⟩ | exact .inl ⟨_, hoid⟩ | exact .inr ⟨_, hoid⟩)

theorem linv_stepUnlockMu {s s' : State} {t : Tid} {e : Ev}
    (hpc : s.pc t = .wUnlock) (hinv : LInv .wUnlock (s.fr t)) (h : stepUnlockMu s t e = .ok s') :
    LInv (s'.pc t) (s'.fr t) := by
  have hinv0 : LInv (s.pc t) (s.fr t) := by rw [hpc]; exact hinv
  unfold stepUnlockMu at h
  split_ok h
  all_goals first
    | exact (keeps_dflt h).linv hinv0
    | (cases h
       simp only [setPc_pc, setPc_fr, setFr_fr, if_true]
       simp only [LInv] at hinv
       obtain ⟨hp, hl, hm⟩ := hinv
       apply linv_loopNext
       exact { toAlloc := { hp.toAlloc with }, frees := hp.frees, unlocked := hm.symm, held := rfl, ready := hp.ready,
               deqRes := hp.deqRes, freed := hp.freed, full := hl,
               whyMin := by intro hmin; simp only at hmin; rw [hp.min, hp.dl] at hmin; cases hmin })

theorem linv_stepCvRT {s s' : State} {t : Tid} {j : Nat} {e : Ev}
    (hpc : s.pc t = .wCvRT j) (hinv : LInv (.wCvRT j) (s.fr t)) (h : stepCvRT s t j e = .ok s') :
    LInv (s'.pc t) (s'.fr t) := by
  have hinv0 : LInv (s.pc t) (s.fr t) := by rw [hpc]; exact hinv
  unfold stepCvRT at h
  split_ok h
  all_goals first
    | exact (keeps_dflt h).linv hinv0
    | exact linv_rtDone_loop hinv.1 h

theorem linv_stepPdEnter {s s' : State} {t : Tid} {e : Ev}
    (hpc : s.pc t = .wPdEnter) (hinv : LInv .wPdEnter (s.fr t)) (h : stepPdEnter s t e = .ok s') :
    LInv (s'.pc t) (s'.fr t) := by
  have hinv0 : LInv (s.pc t) (s.fr t) := by rw [hpc]; exact hinv
  unfold stepPdEnter at h
  split_ok h
  all_goals first
    | exact (keeps_dflt h).linv hinv0
    | (rename_i s1 hb
       cases h
       have k := keeps_bindSem (t := t) hb
       simp only [setPc_pc, setPc_fr, if_true]
       exact LInv.same k.2 hinv)

theorem linv_pdTimeout {f : Frame} (w : Why) (hw : w ≠ .none) (hinv : InLoop f) :
    LInv (deqNext { f with why := w } 0) { f with why := w } := by
  have hl : InLoop { f with why := w } := { hinv with whyMin := fun _ => hw }
  have hd := inDeq_of_inLoop hl hw
  exact linv_deqNext hd (by simp [hinv.deqRes]) hd.npos hinv.freed

theorem linv_stepPdWait {s s' : State} {t : Tid} {j : SemId} {e : Ev}
    (hpc : s.pc t = .wPdWait j) (hinv : LInv (.wPdWait j) (s.fr t)) (h : stepPdWait s t j e = .ok s') :
    LInv (s'.pc t) (s'.fr t) := by
  have hinv0 : LInv (s.pc t) (s.fr t) := by rw [hpc]; exact hinv
  unfold stepPdWait at h
  split_ok h
  all_goals first
    | exact (keeps_dflt h).linv hinv0
    | (cases h
       exact linv_startScan (s := s.setSem _ _) hinv.1)
    | (cases h
       simp only [setPc_pc, setPc_fr, setFr_fr, if_true]
       exact linv_pdTimeout _ (by simp) hinv.1)

theorem linv_stepFree {s s' : State} {t : Tid} {e : Ev}
    (hpc : s.pc t = .wFree) (hinv : LInv .wFree (s.fr t)) (h : stepFree s t e = .ok s') :
    LInv (s'.pc t) (s'.fr t) := by
  have hinv0 : LInv (s.pc t) (s.fr t) := by rw [hpc]; exact hinv
  unfold stepFree at h
  split_ok h
  all_goals first
    | exact (keeps_dflt h).linv hinv0
    | (cases h
       simp only [setPc_pc, setPc_fr, setFr_fr, kill_fr, if_true]
       simp only [LInv] at hinv
       obtain ⟨hd, hl, hh, hf⟩ := hinv
       have h4 : 4 < (s.fr t).count := by have := hd.heap; simpa [hh] using this
       have hpost : Post { s.fr t with frees := (s.fr t).frees + 1 } :=
         { toAlloc := { hd.toAlloc with }, frees := (by simp [hd.frees, hd.mallocs, h4]), unl := hd.unl,
           rdy := { hd.rdy with }, why := hd.why, dlen := hl, freed := hf, npos := hd.npos }
       exact linv_relockNext hpost hd.held)

theorem linv_stepRelock {s s' : State} {t : Tid} {e : Ev}
    (hpc : s.pc t = .wRelock) (hinv : LInv .wRelock (s.fr t)) (h : stepRelock s t e = .ok s') :
    LInv (s'.pc t) (s'.fr t) := by
  have hinv0 : LInv (s.pc t) (s.fr t) := by rw [hpc]; exact hinv
  unfold stepRelock at h
  split_ok h
  all_goals first
    | exact (keeps_dflt h).linv hinv0
    | (cases h
       simp only [setPc_pc, setPc_fr, setFr_fr, if_true]
       simp only [LInv] at hinv ⊢
       obtain ⟨hp, hu, hh⟩ := hinv
       refine ⟨trivial, .inr ⟨{ hp with rdy := { hp.rdy with } }, ?_⟩⟩
       simp [(hp.unl hu).1])

theorem linv_stepRet {s s' : State} {t : Tid} {r : Nat} {e : Ev}
    (hpc : s.pc t = .wRet r) (hinv : LInv (.wRet r) (s.fr t)) (h : stepRet s t r e = .ok s') :
    LInv (s'.pc t) (s'.fr t) := by
  have hinv0 : LInv (s.pc t) (s.fr t) := by rw [hpc]; exact hinv
  unfold stepRet at h
  split_ok h
  all_goals first
    | exact (keeps_dflt h).linv hinv0
    | (cases h; simp [LInv])

theorem linv_stepIdle {s s' : State} {t : Tid} {e : Ev}
    (hpc : s.pc t = .idle) (h : stepIdle s t e = .ok s') : LInv (s'.pc t) (s'.fr t) := by
  have hinv0 : LInv (s.pc t) (s.fr t) := by rw [hpc]; trivial
  unfold stepIdle at h
  split_ok h
  all_goals first
    | exact (keeps_dflt h).linv hinv0
    | exact (keeps_stepOpen h).linv hinv0
    | (cases h; simp [LInv]; done)
    | (cases h; refine Keeps.linv ?_ hinv0; keeps_simp)
    | (rename_i mu dl objs nested hc
       cases h
       simp only [setPc_pc, setPc_fr, setFr_fr, if_true]
       apply linv_pollNext
       · exact { recs := rfl, heap := rfl, mallocs := rfl, frees := rfl, unlocked := rfl, held := rfl, why := rfl,
                 deqRes := rfl, min := rfl, freed := rfl,
                 pos := by simp only [Frame.count, Frame.new]; exact List.length_pos_iff.2 hc.2.2.1 }
       · rfl)

theorem linv_stepThr {s s' : State} {t : Tid} {e : Ev} (hinv : LInv (s.pc t) (s.fr t))
    (h : stepThr s t e = .ok s') : LInv (s'.pc t) (s'.fr t) := by
  unfold stepThr at h
  split at h <;> rename_i hpc
  · exact linv_stepIdle hpc h
  · simp at h
  · exact linv_stepSg hpc h
  · exact linv_stepCtrRT hpc (hpc ▸ hinv) h
  · exact linv_stepND hpc (hpc ▸ hinv) h
  · exact linv_stepEnqCv hpc (hpc ▸ hinv) h
  · exact linv_stepEnq hpc (hpc ▸ hinv) h
  · exact linv_stepDeqCv hpc (hpc ▸ hinv) h
  · exact linv_stepDeq hpc (hpc ▸ hinv) h
  · exact linv_stepAlloc hpc (hpc ▸ hinv) h
  · exact linv_stepInit hpc (hpc ▸ hinv) h
  · exact linv_stepUnlockMu hpc (hpc ▸ hinv) h
  · exact linv_stepCvRT hpc (hpc ▸ hinv) h
  · exact linv_stepPdEnter hpc (hpc ▸ hinv) h
  · exact linv_stepPdWait hpc (hpc ▸ hinv) h
  · exact linv_stepFree hpc (hpc ▸ hinv) h
  · exact linv_stepRelock hpc (hpc ▸ hinv) h
  · exact linv_stepRet hpc (hpc ▸ hinv) h

/-- the thread-local invariant holds in every reachable state -/
theorem linv_of_reachable {s : State} (h : Reachable s) : ∀ t, LInv (s.pc t) (s.fr t) := by
  refine reachable_induction (P := fun s => ∀ t, LInv (s.pc t) (s.fr t)) ?_ ?_ h
  · intro t; trivial
  · intro s s' e _ ih hs t
    cases e with
    | tick ns =>
      simp only [step] at hs
      split at hs
      · cases hs; exact ih t
      · simp at hs
    | thr u ev =>
      simp only [step] at hs
      by_cases hu : t = u
      · subst hu; exact linv_stepThr (ih t) hs
      · obtain ⟨h1, _, _, h4⟩ := others_stepThr hs t hu
        rw [h1]; exact LInv.same h4 (ih t)

end WaitN
