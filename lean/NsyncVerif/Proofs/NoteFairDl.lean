/-
  Layer `Note`, fair termination of a `nsync_note_wait` with a finite deadline `w` of its own, ALL
  forests: if the clock passes every value (`ClockAdvances`) and the semaphore returns 0 only when
  it has been posted (`SemSound`), the wait returns, whether or not its note is ever notified
  (`dl_returns`).  If the flag is never set: a P that returns 0 is impossible (`PostedFlag`: a
  posted record belongs to a note whose flag is set), so the thread is no looper; once it has
  stopped for ever it is asleep with a deadline `≤ w` (`sleepOk`), which the clock passes.
-/
import NsyncVerif.Proofs.NoteFairDlKeep

set_option linter.unusedSimpArgs false

namespace Note

variable {s0 : State}

/-! ### two invariants -/

theorem sleepOk_step {s s' : State} {e : Event} {t : Tid} (hs : step s e = .ok s')
    (h : (s.pc t).sleepOk) : (s'.pc t).sleepOk := by
  by_cases ha : e.actor = some t
  · by_cases hp : s.pc t = .idle
    · by_cases hc : ∃ a, e = .call t a
      · obtain ⟨a, rfl⟩ := hc
        step_cases hs
        all_goals (simp [PC.sleepOk, upd_same])
      · rw [step_idle hs hp (fun a h => hc ⟨a, h⟩)]; trivial
    · exact (own_keepDl hs ha hp).1 h
  · rw [step_pc_other hs t ha]; exact h

theorem Reachable.sleepOk {s : State} (h : Reachable s) : ∀ t, (s.pc t).sleepOk := by
  refine Reachable.induction (P := fun s => ∀ t, (s.pc t).sleepOk) (fun t => trivial) ?_ s h
  intro s e s' _ ih hs t
  exact sleepOk_step hs (ih t)

/-- A posted waiter record belongs to a note whose flag is set. -/
def PostedFlag (s : State) : Prop :=
  ∀ r, (s.recs r).used = true → (s.recs r).posted ≠ 0 →
    (s.notes (s.recs r).note).notified = true

theorem Reachable.postedFlag {s : State} (h : Reachable s) : PostedFlag s := by
  refine Reachable.induction (P := PostedFlag) ?_ ?_ s h
  · intro r hu; simp [Note.init, WRec.blank] at hu
  · intro s e s' hr ih hs r hu' hp'
    have hst := step_stable hs
    have keep : (s.recs r).used = true → (s.recs r).posted ≠ 0 →
        (s'.recs r).note = (s.recs r).note → (s'.notes (s'.recs r).note).notified = true := by
      intro hu hp hn
      rw [hn]
      have hf := ih r hu hp
      exact hst.flag _ (hr.invA.flag _ hf) hf
    rcases step_recs hs r with ⟨h, _⟩ | ⟨_, _, _, _, _, _, h, _⟩ | ⟨a, f, rest, top, sem, _, hpc, h⟩ |
      ⟨_, _, _, _, _, _, h, _⟩ | ⟨_, _, _, _, _, _, h, _⟩ | ⟨_, _, _, _, _, h, _⟩ |
      ⟨_, _, _, _, _, _, _, h, _⟩
    · rw [h] at hu' hp'; exact keep hu' hp' (by rw [h])
    · rw [h] at hu' hp'; exact keep hu' hp' (by rw [h])
    · -- the V itself: the poster has stored the flag
      obtain ⟨hu, hn⟩ := hr.invR.unl a (.semV r) f rest top r hpc (Or.inr rfl)
      have hf : (s.notes f.note).notified = true :=
        hr.invAct.flag a f.note (by rw [hpc]; exact Or.inl ⟨rfl, rfl⟩)
      have : (s'.recs r).note = f.note := by rw [h]; exact hn
      rw [this]
      exact hst.flag _ (hr.invA.flag _ hf) hf
    · rw [h] at hp'; exact absurd rfl hp'
    · rw [h] at hu' hp'; exact keep hu' hp' (by rw [h])
    · rw [h] at hu' hp'; exact keep hu' hp' (by rw [h])
    · rw [h] at hu' hp'; exact keep hu' hp' (by rw [h])

/-! ### the wait loop -/

theorem loopStep_next {s s' : State} {e : Event} {t : Tid} {n : NoteId} {nt : Dl} {r : Rid}
    {wdl : Dl} (hs : step s e = .ok s') (ha : e.actor = some t)
    (hpc : s.pc t = .dl .ld1 n nt (.ready2 r wdl)) (hf : (s.notes n).notified = false) :
    s'.pc t = .dl .lockCall n none (.ready2 r wdl) := by
  cases e <;> simp only [Event.actor, Option.some.injEq, reduceCtorEq] at ha <;> subst ha
  all_goals (simp [step, stepRet, stepLd, stepStNote, stepStW, stepLockCall, stepLockRet,
    stepUnlockCall, stepUnlockRet, stepTryCall, stepTryRet, stepWaitCall, stepWaitRet, hpc,
    stepCall, hf] at hs)
  obtain ⟨_, _, _, _, hs⟩ := hs
  subst hs
  simp

theorem min_leNow {d nt : Dl} {w now : Nat} (hd : d = Dl.min (some w) nt) (h : w ≤ now) :
    d.leNow now = true := by
  subst hd
  cases nt with
  | none => simp [Dl.min, Dl.lt, Dl.leNow, h]
  | some y =>
    simp only [Dl.min, Dl.lt]
    by_cases hy : y < w
    · simp [hy, Dl.leNow]; omega
    · simp [hy, Dl.leNow, h]

/-- FAIR TERMINATION of a wait whose sleeps have deadlines that the clock passes. -/
theorem timed_returns (x : Exec s0) (hr : Reachable s0) (hw : WeakFair x) (hl : LockFair x)
    (hwt : WaitFair x) (hf : FiniteArrivals x) (hclk : ClockAdvances x) (hss : SemSound x)
    {t : Tid} {i : Nat} {n : NoteId} {wdl0 : Dl}
    (hwo : ((x.ρ i).pc t).waitOn = some (n, wdl0))
    (hsleep : ∀ T, i ≤ T → (∀ j, i ≤ j → j ≤ T → (x.ρ j).pc t ≠ .idle) →
      ∀ d n' wdl' r, (x.ρ T).pc t = .wt (.pdRet d) n' wdl' r →
      ∃ v, ∀ now, v ≤ now → d.leNow now = true) :
    ∃ j, i ≤ j ∧ (x.ρ j).pc t = .idle := by
  have hp : (x.ρ i).pc t ≠ .idle := by intro h; rw [h] at hwo; cases hwo
  by_cases hflag : ∃ j, ((x.ρ j).notes n).notified = true
  · refine fair_returns_all x hr hw hl hwt hf hp (fun n' wdl' h => ?_)
    rw [hwo] at h; cases h; exact hflag
  have hnf : ∀ j, ((x.ρ j).notes n).notified = false := by
    intro j
    cases h : ((x.ρ j).notes n).notified with
    | false => rfl
    | true => exact absurd ⟨j, h⟩ hflag
  apply Classical.byContradiction
  intro hnever
  have hne : ∀ j, i ≤ j → (x.ρ j).pc t ≠ .idle := fun j hj h => hnever ⟨j, hj, h⟩
  have hwc : ∀ j, i ≤ j → ((x.ρ j).pc t).waitOn = some (n, wdl0) := by
    intro j hj
    obtain ⟨d, rfl⟩ : ∃ d, j = i + d := ⟨j - i, by omega⟩
    rw [waitOn_const x d (fun j' h1 _ => hne j' h1)]; exact hwo
  have hy : GenHyps x := ⟨hr, hw, hl, hwt, hf, finiteWork x hr hw hf⟩
  -- no P of the thread returns 0
  have hnosp : ∀ j e, i ≤ j → x.σ j = some e → ¬ Spurious (x.ρ j) e t := by
    rintro j e hj he ⟨sem, d, n', wdl', r, rfl, hpc⟩
    have hrj := x.reach hr j
    have hpost := hss j t sem d n' wdl' r he hpc
    obtain ⟨hu, _, hn⟩ := hrj.invR.own t r n' (by rw [hpc]; rfl)
    have := hrj.postedFlag r hu hpost
    have hnn : n' = n := by
      have := hwc j hj; rw [hpc] at this
      simp only [PC.waitOn, Option.some.injEq, Prod.mk.injEq] at this
      exact this.1
    rw [hn, hnn, hnf j] at this
    cases this
  -- the phase never increases
  have hph : ∀ j, i ≤ j → ∀ d, ph2 ((x.ρ (j + d)).pc t) ≤ ph2 ((x.ρ j).pc t) := by
    intro j hj d
    induction d with
    | zero => exact Nat.le_refl _
    | succ d ih =>
      by_cases hm : Moves x t (j + d)
      · obtain ⟨e, he, ha⟩ := hm
        rcases (own_keepDl (x.next_some he) ha (hne (j + d) (by omega))).2 with h | h
        · exact Nat.le_trans h ih
        · exact absurd h (hnosp (j + d) e (by omega) he)
      · rw [show j + (d + 1) = j + d + 1 by omega, not_moves_pc x hm]; exact ih
  -- so the thread is no looper
  have hnl : ¬ Looper x t := by
    intro hloop
    obtain ⟨j1, hj1, ⟨e, he, ha⟩, n1, nt1, r1, wdl1, hpc1, hf1⟩ := hloop i
    have h1 := loopStep_next (x.next_some he) ha hpc1 hf1
    obtain ⟨j2, hj2, _, n2, nt2, r2, wdl2, hpc2, _⟩ := hloop (j1 + 1)
    obtain ⟨d, rfl⟩ : ∃ d, j2 = j1 + 1 + d := ⟨j2 - (j1 + 1), by omega⟩
    have := hph (j1 + 1) (by omega) d
    rw [hpc2, h1] at this
    simp [ph2, DK.kph] at this
  obtain ⟨i0, hi0⟩ : ∃ i0, ∀ j, i0 ≤ j → ¬ Acts x t j := by
    rcases hy.work t with h | h
    · exact h
    · exact absurd h hnl
  obtain ⟨T, hT, hC⟩ := classified x hy (max i i0)
  have hst : ∀ j, T ≤ j → ¬ Moves x t j :=
    fun j hj hm => hi0 j (by omega) ⟨hm, hne j (by omega)⟩
  have hpT := hne T (by omega)
  by_cases hsl : ∃ d n' wdl' r, (x.ρ T).pc t = .wt (.pdRet d) n' wdl' r
  · obtain ⟨d, n', wdl', r, hpc⟩ := hsl
    obtain ⟨v, hv⟩ := hsleep T (by omega) (fun j h1 _ => hne j h1) d n' wdl' r hpc
    obtain ⟨j1, hj1, hnow⟩ := hclk v T
    obtain ⟨j, hj, hm⟩ := hw t j1 (fun j hj => by
      have hpcj : (x.ρ j).pc t = .wt (.pdRet d) n' wdl' r := by
        rw [stuck_pc x hst (by omega : T ≤ j)]; exact hpc
      refine ready_gen (x.reach hr j) (by rw [hpcj]; simp) ?_ (by rw [hpcj]; rfl) ?_
      · intro m hm; rw [hpcj] at hm; cases hm
      · unfold SemReady
        rw [hpcj]
        right
        exact hv _ (Nat.le_trans hnow (x.stable_le hj).now))
    exact hst j (by omega) hm
  · obtain ⟨m, hwm, _⟩ := stuck_target x hy hst hpT
      (fun d n' wdl' r h => hsl ⟨d, n', wdl', r, h⟩)
    exact no_stuck_target x hy hC m t hst hwm

/-- FAIR TERMINATION of a wait with a finite deadline of its own. -/
theorem dl_returns (x : Exec s0) (hr : Reachable s0) (hw : WeakFair x) (hl : LockFair x)
    (hwt : WaitFair x) (hf : FiniteArrivals x) (hclk : ClockAdvances x) (hss : SemSound x)
    {t : Tid} {i : Nat} {n : NoteId} {w : Nat}
    (hwo : ((x.ρ i).pc t).waitOn = some (n, some w)) : ∃ j, i ≤ j ∧ (x.ρ j).pc t = .idle := by
  refine timed_returns x hr hw hl hwt hf hclk hss hwo ?_
  intro T hT hne d n' wdl' r hpc
  have hwc : ((x.ρ T).pc t).waitOn = some (n, some w) := by
    obtain ⟨e, rfl⟩ : ∃ e, T = i + e := ⟨T - i, by omega⟩
    rw [waitOn_const x e (fun j' h1 h2 => hne j' h1 h2)]; exact hwo
  rw [hpc] at hwc
  simp only [PC.waitOn, Option.some.injEq, Prod.mk.injEq] at hwc
  obtain ⟨_, rfl⟩ := hwc
  obtain ⟨nt, hd⟩ : ∃ nt, d = Dl.min (some w) nt := by
    have := (x.reach hr T).sleepOk t; rw [hpc] at this; exact this
  exact ⟨w, fun now h => min_leNow hd h⟩

end Note
