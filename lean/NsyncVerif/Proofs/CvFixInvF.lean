/-
  Layer `CvFix`: the invariant behind `C04_unlink_once` / `C04_outcome` for EVERY kind of record
  (pooled waiters and the `nsync_waiter_s` of nsync_wait_n): who unlinked the current instance,
  and what the repaired `cv_dequeue` is going to return (`was_queued`).
  Definitions and the generic preservation lemmas.
-/
import NsyncVerif.Proofs.CvFixInvEAll

namespace NsyncVerif.CvFix

/-- Program points inside `cv_dequeue` after its load of `nw->waiting`. -/
def Loc.deqPhase : Loc → Bool
  | .nDeqSt | .nDeqRel | .nDeqRelW | .nDeqSpin => true
  | _ => false

structure TInvF (s : State) (t : Tid) : Prop where
  /-- found in the queue and removed: `was_queued` will be 1, the instance unlinked itself -/
  wqSt : (s.thr t).loc = .nDeqSt → (s.thr t).wasQ = true ∧ (s.recs (s.thr t).r).unl = [Unl.self]
  /-- about to return -/
  wqRel : (s.thr t).loc = .nDeqRel →
    ((s.thr t).wasQ = true ∧ (s.recs (s.thr t).r).unl = [Unl.self] ∧ (s.recs (s.thr t).r).stat = .selfOut) ∨
    ((s.thr t).wasQ = false ∧ (∃ u, (s.recs (s.thr t).r).unl = [Unl.waker u]) ∧
      (s.recs (s.thr t).r).stat = .woken)
  /-- not found in the queue: a waker unlinked it; `was_queued` stays 0 -/
  wqW : (s.thr t).loc = .nDeqRelW ∨ (s.thr t).loc = .nDeqSpin →
    (s.thr t).wasQ = false ∧ ∃ u, (s.recs (s.thr t).r).unl = [Unl.waker u]

structure InvF (s : State) : Prop where
  unlS : ∀ r, (s.recs r).stat = .selfOut → (s.recs r).unl = [Unl.self]
  unlL : ∀ r u, (s.recs r).stat = .listed u → (s.recs r).unl = [Unl.waker u]
  unlW : ∀ r, (s.recs r).stat = .woken ∨ (s.recs r).stat = .xfer → ∃ u, (s.recs r).unl = [Unl.waker u]
  unl1 : ∀ r, (s.recs r).unl.length ≤ 1
  thr : ∀ t, TInvF s t

theorem invF_init : InvF init := by
  constructor <;> simp [init]
  intro t
  constructor <;> simp

/-- A thread outside the dequeue phase has nothing to show. -/
theorem tinvF_out {s : State} {t : Tid} (h : (s.thr t).loc.deqPhase = false) : TInvF s t := by
  constructor
  · intro e; rw [e] at h; simp [Loc.deqPhase] at h
  · intro e; rw [e] at h; simp [Loc.deqPhase] at h
  · intro e; rcases e with e | e <;> rw [e] at h <;> simp [Loc.deqPhase] at h

/-- A thread whose frame is unchanged keeps its facts if the unlinkers of its record are unchanged
    (and, just before the return, its status). -/
theorem tinvF_keep {s s' : State} {u : Tid} (h : TInvF s u) (ht : s'.thr u = s.thr u)
    (hu : (s.thr u).loc.deqPhase = true → (s'.recs (s.thr u).r).unl = (s.recs (s.thr u).r).unl)
    (hs : (s.thr u).loc = .nDeqRel → (s'.recs (s.thr u).r).stat = (s.recs (s.thr u).r).stat) :
    TInvF s' u := by
  obtain ⟨f1, f2, f3⟩ := h
  constructor <;> rw [ht]
  · intro e; rw [hu (by simp [e, Loc.deqPhase])]; exact f1 e
  · intro e; rw [hu (by simp [e, Loc.deqPhase]), hs e]; exact f2 e
  · intro e; rw [hu (by rcases e with e | e <;> simp [e, Loc.deqPhase])]; exact f3 e

/-- The record a thread is dequeuing is neither idle, nor being prepared, nor in the queue: no
    other thread's step changes its list of unlinkers. -/
theorem deq_rec_stat {s : State} (ha : InvA s) (u : Tid) (hd : (s.thr u).loc.deqPhase = true) :
    (s.recs (s.thr u).r).stat ≠ .idle ∧ (s.recs (s.thr u).r).stat ≠ .prep ∧ (s.recs (s.thr u).r).stat ≠ .queued := by
  have hm : (s.thr u).r ∈ (s.thr u).mine ∧ (s.recs (s.thr u).r).stat ≠ .queued := by
    cases hl : (s.thr u).loc <;> rw [hl] at hd <;> simp [Loc.deqPhase] at hd
    · exact (ha.thr u).nDeq (.inl hl)
    · exact (ha.thr u).nDeq (.inr hl)
    · exact (ha.thr u).nSpin (.inl hl)
    · exact (ha.thr u).nSpin (.inr hl)
  obtain ⟨_, _, h1, h2⟩ := (ha.thr u).mine _ hm.1
  exact ⟨h1, h2, hm.2⟩

/-- General assembly: the threads other than `t` keep their frames; a record's list of unlinkers
    changes only while the record is idle, being prepared or queued. -/
theorem invF_gen {s s' : State} {t : Tid} (ha : InvA s) (hf : InvF s)
    (hthr : ∀ u, u ≠ t → s'.thr u = s.thr u)
    (hstab : ∀ q, (s'.recs q).unl = (s.recs q).unl ∨ (s.recs q).stat = .idle ∨ (s.recs q).stat = .prep ∨
      (s.recs q).stat = .queued)
    (hstab2 : ∀ q, (s'.recs q).stat = (s.recs q).stat ∨ (s.recs q).stat = .idle ∨ (s.recs q).stat = .prep ∨
      (s.recs q).stat = .queued ∨ (∃ v, (s.recs q).stat = .listed v) ∨ (s.recs q).owner = t)
    (g1 : ∀ q, (s'.recs q).stat = .selfOut → (s'.recs q).unl = [Unl.self])
    (g2 : ∀ q u, (s'.recs q).stat = .listed u → (s'.recs q).unl = [Unl.waker u])
    (g3 : ∀ q, (s'.recs q).stat = .woken ∨ (s'.recs q).stat = .xfer → ∃ u, (s'.recs q).unl = [Unl.waker u])
    (g4 : ∀ q, (s'.recs q).unl.length ≤ 1)
    (ht : TInvF s' t) : InvF s' := by
  refine ⟨g1, g2, g3, g4, ?_⟩
  intro u
  by_cases hu : u = t
  · subst hu; exact ht
  · refine tinvF_keep (hf.thr u) (hthr u hu) ?_ ?_
    · intro hd
      obtain ⟨h1, h2, h3⟩ := deq_rec_stat ha u hd
      rcases hstab (s.thr u).r with h | h | h | h
      · exact h
      · exact absurd h h1
      · exact absurd h h2
      · exact absurd h h3
    · intro hl
      obtain ⟨h1, h2, h3⟩ := deq_rec_stat ha u (by simp [hl, Loc.deqPhase])
      have hown := ((ha.thr u).mine _ ((ha.thr u).nDeq (.inr hl)).1).2.1
      rcases hstab2 (s.thr u).r with h | h | h | h | ⟨v, h⟩ | h
      · exact h
      · exact absurd h h1
      · exact absurd h h2
      · exact absurd h h3
      · rcases (hf.thr u).wqRel hl with ⟨_, _, e⟩ | ⟨_, _, e⟩ <;> rw [e] at h <;> cases h
      · rw [hown] at h; exact absurd h hu

/-- No record changes status or unlinkers. -/
theorem invF_frame {s s' : State} {t : Tid} (ha : InvA s) (hf : InvF s)
    (hthr : ∀ u, u ≠ t → s'.thr u = s.thr u)
    (hrec : ∀ q, (s'.recs q).stat = (s.recs q).stat ∧ (s'.recs q).unl = (s.recs q).unl)
    (ht : TInvF s' t) : InvF s' := by
  refine invF_gen ha hf hthr (fun q => .inl (hrec q).2) (fun q => .inl (hrec q).1) ?_ ?_ ?_ ?_ ht
  · intro q; rw [(hrec q).1, (hrec q).2]; exact hf.unlS q
  · intro q u; rw [(hrec q).1, (hrec q).2]; exact hf.unlL q u
  · intro q; rw [(hrec q).1, (hrec q).2]; exact hf.unlW q
  · intro q; rw [(hrec q).2]; exact hf.unl1 q

/-- One record changes. -/
theorem invF_one {s s' : State} {t : Tid} {r : Rid} (ha : InvA s) (hf : InvF s)
    (hthr : ∀ u, u ≠ t → s'.thr u = s.thr u)
    (hrecs : ∀ q, q ≠ r → s'.recs q = s.recs q)
    (hstab : (s'.recs r).unl = (s.recs r).unl ∨ (s.recs r).stat = .idle ∨ (s.recs r).stat = .prep ∨
      (s.recs r).stat = .queued)
    (hstab2 : (s'.recs r).stat = (s.recs r).stat ∨ (s.recs r).stat = .idle ∨ (s.recs r).stat = .prep ∨
      (s.recs r).stat = .queued ∨ (∃ v, (s.recs r).stat = .listed v) ∨ (s.recs r).owner = t)
    (g1 : (s'.recs r).stat = .selfOut → (s'.recs r).unl = [Unl.self])
    (g2 : ∀ u, (s'.recs r).stat = .listed u → (s'.recs r).unl = [Unl.waker u])
    (g3 : (s'.recs r).stat = .woken ∨ (s'.recs r).stat = .xfer → ∃ u, (s'.recs r).unl = [Unl.waker u])
    (g4 : (s'.recs r).unl.length ≤ 1)
    (ht : TInvF s' t) : InvF s' := by
  refine invF_gen ha hf hthr ?_ ?_ ?_ ?_ ?_ ?_ ht
  · intro q
    by_cases hq : q = r
    · subst hq; exact hstab
    · rw [hrecs q hq]; exact .inl rfl
  · intro q
    by_cases hq : q = r
    · subst hq; exact hstab2
    · rw [hrecs q hq]; exact .inl rfl
  · intro q
    by_cases hq : q = r
    · subst hq; exact g1
    · rw [hrecs q hq]; exact hf.unlS q
  · intro q u
    by_cases hq : q = r
    · subst hq; exact g2 u
    · rw [hrecs q hq]; exact hf.unlL q u
  · intro q
    by_cases hq : q = r
    · subst hq; exact g3
    · rw [hrecs q hq]; exact hf.unlW q
  · intro q
    by_cases hq : q = r
    · subst hq; exact g4
    · rw [hrecs q hq]; exact hf.unl1 q

/-- The status of a wait_n record whose owner finds `waiting ≠ 0` … or `waiting = 0` at the load of
    cv_dequeue: never `selfOut`, never transferred, never idle. -/
theorem deq_entry_stat {s : State} (ha : InvA s) (hb : InvB s) (t : Tid) (r : Rid)
    (hl : (s.thr t).loc = .nLocked) (hr : r ∈ (s.thr t).mine) :
    (s.recs r).stat = .queued ∨ (∃ u, (s.recs r).stat = .listed u) ∨ (s.recs r).stat = .woken := by
  obtain ⟨hm, _, hni, hnp⟩ := (ha.thr t).mine r hr
  cases h : (s.recs r).stat with
  | idle => exact absurd h hni
  | prep => exact absurd h hnp
  | queued => exact .inl rfl
  | listed u => exact .inr (.inl ⟨u, rfl⟩)
  | xfer => have := hb.xferM r h; rw [hm] at this; cases this
  | woken => exact .inr (.inr rfl)
  | selfOut => have := ((hb.thr t).mineS r hr h).1; rw [hl] at this; simp at this

end NsyncVerif.CvFix
