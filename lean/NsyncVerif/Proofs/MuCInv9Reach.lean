import NsyncVerif.Proofs.MuCInv9Api
/-
  MuC (I_wait): API boundaries, condition evaluations, semaphore events; the invariant in every
  reachable state.
-/
namespace NsyncVerif.MuC

theorem inv9_stepCall {s s' : State} {t : Tid} {a : Api} (h4 : Inv4 s) (h : Inv9 s)
    (hs : stepCall s t a = .ok s') : Inv9 s' := by
  unfold stepCall at hs
  split at hs
  · rename_i heq
    cases a <;> dsimp only at hs
    all_goals (repeat' split at hs)
    all_goals first
      | (cases hs; done)
      | (cases hs; inv9_local t h4 h heq)
  · cases hs

theorem inv9_stepRet {s s' : State} {t : Tid} {a : Api} {res : Res} (h4 : Inv4 s) (h : Inv9 s)
    (hs : stepRet s t a res = .ok s') : Inv9 s' := by
  unfold stepRet at hs
  split at hs
  all_goals first
    | (cases hs; done)
    | (rename_i heq
       repeat' split at hs
       all_goals first
         | (cases hs; done)
         | (cases hs; inv9_local t h4 h heq))
    | skip
  rename_i c cit cnd dl note o' heq
  repeat' split at hs
  all_goals first
    | (cases hs; done)
    | skip
  all_goals
    (cases hs
     cases hcw : c.w <;> simp only [dropW, setHeld] <;> inv9_local t h4 h heq)

theorem inv9_stepCond {s s' : State} {t : Tid} {fn : CFn} {k : Nat} {res : Bool} (h1 : Inv1 s) (h4 : Inv4 s) (h4' : Inv4 s') (h : Inv9 s)
    (hs : stepCond s t fn k res = .ok s') : Inv9 s' := by
  unfold stepCond at hs
  dsimp only at hs
  split at hs
  · rename_i c heq
    repeat' split at hs
    all_goals first
      | (cases hs; done)
      | (cases hs; rw [mwLoop_eq]; simp only [loopPc]; split <;> inv9_local t h4 h heq)
  · rename_i r sc heq
    have hok1 := h1.pcok t; rw [heq] at hok1
    repeat' split at hs
    all_goals first
      | (cases hs; done)
      | skip
    obtain ⟨hf, p, hpc, hsc⟩ := afterEval_frame hs hok1.2.1
    obtain ⟨hlo, hperm⟩ := afterEval_lists hs
    have hwk := afterEval_wake hs
    have hpt : ScanPc r sc.late (s'.pc t) := by rw [hpc]; simpa using hsc
    refine Inv9.scan_step t h4 h4' h (fun x => ⟨(hlo x).2.1, (hlo x).2.2.1, (hlo x).2.2.2.1⟩)
      (by rw [hf.word]; exact id) (by intro u hu; rw [hpc]; simp [setFn, hu]) ?_ ?_
      (by intro x hx; rw [heq] at hx; exact hwk x hx) (by intro r' k' rest hv; rw [heq] at hv; cases hv)
      (scanPc_enqPend hpt) (scanPc_mtOld hpt) ?_ ?_ (scanPc_pwait hpt) (scanPc_limboL hpt) (scanPc_hlRec hpt)
    · refine hperm.trans ?_
      simp [allOf, heq, PC.priv, PC.scan?, PC.wakeL]
    · intro u hu
      cases e : (s.pc u).unl with
      | false => rfl
      | true => exact absurd (h4.uniq u t e (by rw [heq]; rfl)) hu
    · rw [scanPc_waitRec hpt, heq]; rfl
    · rw [scanPc_wmode hpt, heq]; rfl
  · cases hs

/-- P returns: the count of `t`'s own semaphore drops; `t` is no longer at the semaphore. -/
theorem Inv9.p_ret {s : State} (t : Tid) (k : Wid) (p : PC) (n : Nat) (h4 : Inv4 s) (h : Inv9 s)
    (hpw0 : (s.pc t).pwait = some k) (hpw : p.pwait = none)
    (hsc : p.scan? = (s.pc t).scan?) (hwk : p.wakeL = (s.pc t).wakeL) (henq : p.enqPend = (s.pc t).enqPend)
    (hmt : p.mtOld = (s.pc t).mtOld) (hrec : p.waitRec = (s.pc t).waitRec) (hwm : p.wmode = (s.pc t).wmode)
    (hlm : p.limboL = (s.pc t).limboL) (hhl : p.hlRec = (s.pc t).hlRec) :
    Inv9 { setPc s t p with wr := setFn s.wr k { s.wr k with sem := n } } := by
  have hpcs : ∀ u, u ≠ t → ({ setPc s t p with wr := setFn s.wr k { s.wr k with sem := n } } : State).pc u = s.pc u := by
    intro u hu; simp [setFn, hu]
  refine Inv9.sem_step t h rfl rfl (by intro x; simp only [setFn]; split <;> simp_all) hpcs (by simpa using hsc) (by simpa using hwk)
    (by simpa using henq) (by simpa using hmt) (by simpa using hrec) (by intro _; simpa using hwm) (by simpa using hlm) (by simpa using hhl) ?_
  intro u x hu hwx
  by_cases e : u = t
  · subst e; simp only [setPc_pc, setFn_same, hpw] at hu; cases hu
  · rw [hpcs u e] at hu
    have hxk : x ≠ k := by
      intro e'; subst e'
      exact e (waitRec_unique h4 (pwait_waitRec hu) (pwait_waitRec hpw0))
    have hwx' : (s.wr x).waiting = false := by
      have : ((setFn s.wr k { s.wr k with sem := n }) x).waiting = false := hwx
      simpa [setFn, hxk] using this
    rcases h.w1 u x hu hwx' with a | ⟨v, r, rest, hv⟩
    · left
      show ((setFn s.wr k { s.wr k with sem := n }) x).sem ≠ 0
      simpa [setFn, hxk] using a
    · right
      have hvt : v ≠ t := by
        intro e'; subst e'
        rw [hv] at hpw0; simp [PC.pwait] at hpw0
      exact ⟨v, r, rest, by rw [hpcs v hvt]; exact hv⟩

theorem inv9_step {cfg : Cfg} {s s' : State} {e : Event} (h1 : Inv1 s) (h3 : Inv3 s) (h4 : Inv4 s) (h4' : Inv4 s') (h : Inv9 s)
    (hs : step cfg s e = .ok s') : Inv9 s' := by
  cases e with
  | call t a => exact inv9_stepCall h4 h hs
  | ret t a res => exact inv9_stepRet h4 h hs
  | ld t o loc obs => exact inv9_stepLd h4 h hs
  | st t o loc new obs => exact inv9_stepSt h1 h3 h4 h hs
  | cas t o loc exp new obs ok =>
    have hs' : stepCas s t o loc exp new obs ok = .ok s' := hs
    cases hpc : s.pc t <;>
      first
      | exact inv9_stepCasA h1 h3 h4 h4' h (by rw [hpc]; trivial) hs'
      | exact inv9_stepCasB h1 h4 h (by rw [hpc]; trivial) hs'
      | exact inv9_stepCasC h1 h3 h4 h (by rw [hpc]; trivial) hs'
      | (simp [stepCas, hpc] at hs')
  | cond t fn k res => exact inv9_stepCond h1 h4 h4' h hs
  | semPEnter t k =>
    simp only [step] at hs
    split at hs
    · rename_i heq; ld_case9 t h4 h heq hs
    · cases hs
  | semPRet t k =>
    simp only [step] at hs
    split at hs
    · rename_i c heq
      repeat' split at hs
      all_goals first
        | (cases hs; done)
        | skip
      all_goals
        (rename_i hcw hsem hbin
         have hcw' : c.w = some k := Decidable.not_not.mp hcw
         cases hs
         exact Inv9.p_ret t k _ _ h4 h (by rw [heq]; simpa [PC.pwait] using hcw') rfl (by rw [heq]; rfl) (by rw [heq]; rfl)
           (by rw [heq]; rfl) (by rw [heq]; rfl) (by rw [heq]; rfl) (by rw [heq]; rfl) (by rw [heq]; rfl) (by rw [heq]; rfl))
    · cases hs
  | semPdEnter t k dl =>
    simp only [step] at hs
    split at hs
    · rename_i heq; ld_case9 t h4 h heq hs
    · cases hs
  | semPdRet t k timedout =>
    simp only [step] at hs
    split at hs
    · rename_i c dl heq
      have hok := h1.pcok t; rw [heq] at hok
      simp only [PC.ok, MW.inner] at hok
      split at hs
      · cases hs
      · rename_i hcw
        have hcw' : c.w = some k := Decidable.not_not.mp hcw
        split at hs
        · split at hs
          · cases hs
          · cases hs
            exact Inv9.p_ret t k _ _ h4 h (by rw [heq]; simpa [PC.pwait] using hcw') rfl (by rw [heq]; rfl) (by rw [heq]; rfl)
              (by rw [heq]; rfl) (by rw [heq]; rfl) (by rw [heq]; rfl) (by rw [heq]; rfl) (by rw [heq]; rfl)
              (by rw [heq]; simp [PC.hlRec, hok.2.1])
        · repeat' split at hs
          all_goals first
            | (cases hs; done)
            | (cases hs; inv9_local t h4 h heq)
    · cases hs
  | semV t k =>
    simp only [step] at hs
    split at hs
    · rename_i r k' rest heq
      have hok := h1.pcok t; rw [heq] at hok
      split at hs
      · cases hs
      · rename_i hkk
        simp only [Decidable.not_not] at hkk
        subst hkk
        cases hs
        rw [afterFin_eq]
        have hpcs : ∀ u, u ≠ t → (semPost cfg (setPc s t (finPc r rest)) k).pc u = s.pc u := by
          intro u hu; simp [setFn, hu]
        refine Inv9.sem_step t h (by simp) (by simp) (by intro x; simp only [semPost, setPc_wr, setFn]; split <;> simp_all) hpcs
          (by simp only [semPost_pc, setPc_pc, setFn_same, heq, finPc_scan]; rfl)
          (by simp only [semPost_pc, setPc_pc, setFn_same, heq, finPc_wakeL]; rfl)
          (by simp only [semPost_pc, setPc_pc, setFn_same, heq, finPc_enqPend]; rfl)
          (by simp only [semPost_pc, setPc_pc, setFn_same, heq, finPc_mtOld]; rfl)
          (by simp only [semPost_pc, setPc_pc, setFn_same, heq, finPc_waitRec]; rfl) ?_
          (by simp only [semPost_pc, setPc_pc, setFn_same, heq, finPc_limboL]; rfl)
          (by simp only [semPost_pc, setPc_pc, setFn_same, heq, finPc_hlRec r rest hok]; rfl) ?_
        · intro hne
          simp only [semPost_pc, setPc_pc, setFn_same, heq, PC.wmode]
          cases r with
          | ul l nw => rw [heq] at hne; simp [PC.waitRec, Ret.w?] at hne
          | mw c => cases rest <;> rfl
        · intro u x hu hwx
          have hwx' : (s.wr x).waiting = false := by
            have : ((semPost cfg (setPc s t (finPc r rest)) k).wr x).waiting = false := hwx
            simp only [semPost, setPc_wr, setFn] at this
            split at this <;> simp_all
          have hu' : (s.pc u).pwait = some x := by
            by_cases e : u = t
            · subst e; simp only [semPost_pc, setPc_pc, setFn_same, finPc_pwait] at hu; cases hu
            · rw [hpcs u e] at hu; exact hu
          by_cases hxk : x = k
          · subst hxk
            left
            simp only [semPost, setPc_wr, setFn_same]
            split <;> simp
          · rcases h.w1 u x hu' hwx' with a | ⟨v, r', rest', hv⟩
            · left
              simp only [semPost, setPc_wr, setFn, hxk, if_false]
              exact a
            · right
              have hvt : v ≠ t := by
                intro e'; subst e'; rw [heq] at hv
                simp only [PC.usWakeV.injEq] at hv
                exact hxk hv.2.1.symm
              exact ⟨v, r', rest', by rw [hpcs v hvt]; exact hv⟩
    · cases hs
  | envV k =>
    simp only [step] at hs; cases hs
    refine Inv9.sem_step 0 h (by simp) (by simp) (by intro x; simp only [semPost, setFn]; split <;> simp_all) (by intro u _; simp)
      (by simp) (by simp) (by simp) (by simp) (by simp) (by intro _; simp) (by simp) (by simp) ?_
    intro u x hu hwx
    have hwx' : (s.wr x).waiting = false := by
      have : ((semPost cfg s k).wr x).waiting = false := hwx
      simp only [semPost, setFn] at this
      split at this <;> simp_all
    rcases h.w1 u x (by simpa using hu) hwx' with a | ⟨v, r, rest, hv⟩
    · left
      simp only [semPost, setFn]
      split
      · rename_i e; subst e; split <;> simp_all
      · exact a
    · exact Or.inr ⟨v, r, rest, by simpa using hv⟩
  | envSem k n =>
    simp only [step] at hs
    split at hs
    · rename_i hown
      cases hs
      refine Inv9.sem_step 0 h rfl rfl (by intro x; simp only [setFn]; split <;> simp_all) (by intro u _; rfl)
        rfl rfl rfl rfl rfl (fun _ => rfl) rfl rfl ?_
      intro u x hu hwx
      have hxk : x ≠ k := by
        intro e; subst e
        have := h4.own u x (waitRec_mem_ws (pwait_waitRec hu))
        rw [hown] at this; cases this
      have hwx' : (s.wr x).waiting = false := by
        have : ((setFn s.wr k { s.wr k with sem := n }) x).waiting = false := hwx
        simpa [setFn, hxk] using this
      rcases h.w1 u x hu hwx' with a | b
      · left
        show ((setFn s.wr k { s.wr k with sem := n }) x).sem ≠ 0
        simpa [setFn, hxk] using a
      · exact Or.inr b
    · cases hs
  | dataW t x v =>
    simp only [step] at hs
    split at hs
    · cases hs
      exact Inv9.sem_step 0 h rfl rfl (fun _ => ⟨rfl, rfl⟩) (fun _ _ => rfl) rfl rfl rfl rfl rfl (fun _ => rfl) rfl rfl h.w1
    · cases hs
  | dataR t x v =>
    simp only [step] at hs
    split at hs
    · cases hs; exact h
    · cases hs
  | tick n =>
    simp only [step] at hs
    split at hs
    · cases hs
      exact Inv9.sem_step 0 h rfl rfl (fun _ => ⟨rfl, rfl⟩) (fun _ _ => rfl) rfl rfl rfl rfl rfl (fun _ => rfl) rfl rfl h.w1
    · cases hs
  | noteSeen t =>
    simp only [step] at hs
    split at hs
    · rename_i heq; ld_case9 t h4 h heq hs
    · cases hs
  | noteNotify t =>
    simp only [step] at hs
    split at hs
    · rename_i heq; ld_case9 t h4 h heq hs
    · rename_i heq; ld_case9 t h4 h heq hs
    · cases hs

theorem reachable_inv9 {cfg : Cfg} {s : State} (h : Reachable cfg s) : Inv9 s :=
  (reachable_induction (P := fun s => (Inv1 s ∧ Inv3 s ∧ Inv4 s) ∧ Inv9 s) ⟨⟨inv1_init, inv3_init, inv4_init⟩, inv9_init⟩
    (fun _ _ _ _ hp hs =>
      have h4' := inv4_step hp.1.1 hp.1.2.1 hp.1.2.2 hs
      ⟨⟨inv1_step hp.1.1 hs, inv3_step hp.1.1 hp.1.2.1 hs, h4'⟩, inv9_step hp.1.1 hp.1.2.1 hp.1.2.2 h4' hp.2 hs⟩) s h).2

end NsyncVerif.MuC
