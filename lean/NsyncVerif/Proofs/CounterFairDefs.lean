/-
  Proofs/CounterFairDefs.lean — Counter layer, fair release (C10, liveness form): infinite executions,
  weak fairness, the hypotheses; generic facts about executions; the invariant "the value an add is
  about to CAS is the current value" (`jinv_of_reachable`); the holder of counter_mu releases it
  (`holder_releases`).
-/
import NsyncVerif.Proofs.CounterFairStep

namespace Counter

/-- An infinite execution from `s0`; `σ i = none` means that nobody moves at time `i`. -/
structure Exec (s0 : State) where
  ρ : Nat → State
  σ : Nat → Option Event
  start : ρ 0 = s0
  next : ∀ i, match σ i with
    | none => ρ (i + 1) = ρ i
    | some e => step (ρ i) e = .ok (ρ (i + 1))

/-- Thread `t` executes the next operation of its own code at time `j` (its program point changes).
    Events of other layers that `t` emits and the acceptor skips (`Ev.other`, stray semaphore
    traffic, …) leave the program point where it is and do not count. -/
def Moves {s0 : State} (x : Exec s0) (t : Tid) (j : Nat) : Prop := (x.ρ (j + 1)).pc t ≠ (x.ρ j).pc t

/-- A thread that is not required to move: asleep in P-with-deadline on a semaphore whose count is 0
    before its deadline, or waiting for counter_mu while somebody holds it. -/
def Blocked (s : State) (t : Tid) : Prop :=
  (∃ dl k j, s.pc t = .wPdWait dl k j ∧ s.sh.sem j = 0 ∧ ¬ expired dl s.sh.now)
  ∨ (lockWaitPc (s.pc t) = true ∧ s.sh.lockHolder ≠ none)

/-- Weak fairness on each thread's next operation: a thread that from time `i` on is inside a call
    and not blocked executes its next operation at some time `j ≥ i`.  (The holder of counter_mu is
    never blocked.) -/
def WeakFair {s0 : State} (x : Exec s0) : Prop :=
  ∀ t i, (∀ j, i ≤ j → (x.ρ j).pc t ≠ .idle ∧ ¬ Blocked (x.ρ j) t) → ∃ j, i ≤ j ∧ Moves x t j

/-- Only finitely many API calls arrive. -/
def FiniteArrivals {s0 : State} (x : Exec s0) : Prop :=
  ∃ n, ∀ j t e, n ≤ j → x.σ j = some (.thr t e) → e.isCall = false

/-- The clock eventually reaches `d`. -/
def ClockAdvances {s0 : State} (x : Exec s0) (d : Int) : Prop := ∃ j, d ≤ ((x.ρ j).sh.now : Int)

/-- inside nsync_counter_wait -/
def inWait (p : PC) : Prop := 0 < wrank p

variable {s0 : State}

theorem Exec.next_none (x : Exec s0) {i : Nat} (h : x.σ i = none) : x.ρ (i + 1) = x.ρ i := by
  have := x.next i; rw [h] at this; exact this

theorem Exec.next_some (x : Exec s0) {i : Nat} {e : Event} (h : x.σ i = some e) :
    step (x.ρ i) e = .ok (x.ρ (i + 1)) := by
  have := x.next i; rw [h] at this; exact this

theorem Exec.reach (x : Exec s0) (hr : Reachable s0) : ∀ i, Reachable (x.ρ i) := by
  intro i
  induction i with
  | zero => rw [x.start]; exact hr
  | succ i ih =>
    cases h : x.σ i with
    | none => rw [x.next_none h]; exact ih
    | some e => exact reachable_step ih (x.next_some h)

/-- One step of an execution, classified. -/
theorem Exec.step_cases (x : Exec s0) (hr : Reachable s0) (j : Nat) :
    x.ρ (j + 1) = x.ρ j
    ∨ ((x.ρ (j + 1)).pc = (x.ρ j).pc ∧ (x.ρ j).sh.now ≤ (x.ρ (j + 1)).sh.now
        ∧ (x.ρ (j + 1)).sh = { (x.ρ j).sh with now := (x.ρ (j + 1)).sh.now })
    ∨ ∃ t e, x.σ j = some (.thr t e) ∧ Prog (x.ρ j) t e (x.ρ (j + 1)) ∧ StepFacts (x.ρ j) t e (x.ρ (j + 1)) := by
  cases h : x.σ j with
  | none => exact Or.inl (x.next_none h)
  | some ev =>
    have hs := x.next_some h
    cases ev with
    | tick ns =>
      right; left
      simp only [step] at hs
      split at hs
      · rename_i hle
        have hs' : _ = x.ρ (j + 1) := Except.ok.inj hs
        rw [← hs']; exact ⟨rfl, hle, rfl⟩
      · cases hs
    | thr t e =>
      right; right
      exact ⟨t, e, rfl, prog_stepThr hs, facts_stepThr (inv_of_reachable (x.reach hr j)) hs⟩

end Counter
