/-
  Proofs/WaitNSem7.lean — the invariants behind C11_no_oversleep / C11_sleep_deadline: definitions.
  * `SB`  the lazy binding call ↔ semaphore is consistent (`Frame.sem = some j → semUser j = the caller`; the
          caller inside the P has its semaphore bound).
  * `TI s b t` for a caller t (b = the binary-flavour semaphores):
      wr  a record whose enqueue has been decided and whose `waiting` is 0 belongs to a ready object
          (`sReady`: note notified / expired, counter at zero after a wait; for a cv this is the definition);
      os  inside the do-while of wait.c, for every record with `waiting = 0`: a token is available (in both
          semaphore flavours), or a V for the call's semaphore is pending in the hands of a waker, or the
          current scan will still see it (`Seen`) and leave with `min_ntime <= 0`;
      sd  `min_ntime <= abs_deadline` and `min_ntime <=` the expiry of every note already scanned.
-/
import NsyncVerif.Proofs.WaitNSem6

set_option linter.unusedSimpArgs false
set_option linter.unusedVariables false

namespace WaitN

structure SB (s : State) : Prop where
  b1 : ∀ t j, (s.fr t).sem = some j → s.semUser j = some t
  b3 : ∀ t j, s.pc t = .wPdWait j → (s.fr t).sem = some j

theorem sb_init : SB init := ⟨fun t j h => by simp [init, Frame.empty] at h, fun t j h => by simp [init] at h⟩

theorem sb_step {s s' : State} {u : Tid} {e : Ev} (sb : SB s) (h : stepThr s u e = .ok s') : SB s' := by
  obtain ⟨keep, bnew, user, pdw⟩ := bind_stepThr h
  have oth := others_stepThr h
  constructor
  · intro t j hj
    rcases bnew t j hj with h0 | ⟨_, h1⟩
    · have hu := sb.b1 t j h0
      rcases user j with h1 | ⟨h1, _⟩ | ⟨_, h2, h3⟩
      · rw [h1]; exact hu
      · rw [hu] at h1; cases h1
      · have := sb.b1 u j h2
        rw [hu] at this; cases this
        rw [h3] at hj; cases hj
    · exact h1
  · intro t j hj
    by_cases htu : t = u
    · subst htu
      rcases pdw j hj with h0 | h0
      · rcases keep t j (sb.b3 t j h0) with h1 | ⟨_, h1⟩
        · exact h1
        · rw [hj] at h1; cases h1
      · exact h0
    · rw [(oth t htu).1] at hj
      rcases keep t j (sb.b3 t j hj) with h1 | ⟨h1, _⟩
      · exact h1
      · exact absurd h1 htu

/-! ### definitions -/

/-- `a <= b` for deadlines (`none` = no deadline = +∞) -/
def dle (a b : Deadline) : Prop := dlt b a = false

/-- enqueue loop and do-while of wait.c -/
def inPhase : PC → Bool
  | .wInit _ | .wEnqCv _ _ | .wEnq _ _ | .wUnlock => true
  | p => inSleep p

/-- the `enqueue` call for object i has stored its decision -/
def wrAt : PC → Nat → Prop
  | .wInit _, _ => True
  | .wEnqCv k st, i => i < k ∨ (i = k ∧ st = .release)
  | .wEnq k st, i => i < k ∨ (i = k ∧ ∃ b, st = .unlockCall b ∨ st = .unlockWait b)
  | .wUnlock, _ => True
  | p, _ => inSleep p = true

theorem inPhase_of_wrAt {p : PC} {i : Nat} (h : wrAt p i) : inPhase p = true := by
  cases p <;> simp [wrAt, inPhase] at h ⊢ <;> first | exact h | skip

theorem inPhase_of_inSleep {p : PC} (h : inSleep p = true) : inPhase p = true := by
  cases p <;> simp [inSleep, inPhase] at h ⊢ <;> first | exact h | skip

theorem wrAt_of_inSleep {p : PC} (h : inSleep p = true) (i : Nat) : wrAt p i := by
  cases p <;> simp [inSleep, wrAt] at h ⊢ <;> first | exact h | skip

/-- the rest of nsync_note_notified_deadline_ (note n) will report the note as ready -/
def ndSees (s : State) (n : Nat) : NDst → Prop
  | .unlockCall obs | .unlockWait obs => obs = true ∨ expiredB (s.obj (.note n)).expiry s.now = true
  | .now => expiredB (s.obj (.note n)).expiry s.now = true
  | _ => True

/-- the current scan ends with `min_ntime <= 0`, or has yet to evaluate `ready_time (v, &nw[i])` -/
def Seen (s : State) (p : PC) (f : Frame) (i : Nat) : Prop :=
  dlePast f.min = true ∨
  match p with
  | .wCvRT k => k ≤ i
  | .wCtrRT .loop k _ => k ≤ i
  | .wND .loop k st => k < i ∨ (k = i ∧ ∀ n, f.objs[k]? = some (.note n) → ndSees s n st)
  | _ => False

/-- number of objects whose ready time the current scan has folded into `min_ntime` -/
def scanned (p : PC) (f : Frame) : Option Nat :=
  match p with
  | .wCvRT k | .wCtrRT .loop k _ | .wND .loop k _ => some k
  | .wPdEnter | .wPdWait _ => some f.count
  | _ => none

def SDat (s : State) (p : PC) (f : Frame) : Prop :=
  ∀ k, scanned p f = some k → dlePast f.min = false →
    dle f.min f.dl ∧ ∀ i n, i < k → f.objs[i]? = some (.note n) → dle f.min (s.obj (.note n)).expiry

/-- a token is available to t's P, under the counting and under the binary flavour -/
def Tok (s : State) (b : SemId → Bool) (t : Tid) : Prop :=
  ∃ j, (s.fr t).sem = some j ∧ 0 < s.sem j ∧ b j = true

/-- a waker has cleared one of t's records and its next semaphore operation is the V on t's semaphore -/
def InFlight (s : State) (t : Tid) : Prop := ∃ u r, s.post u = some r ∧ r ∈ (s.fr t).recs

structure TI (s : State) (b : SemId → Bool) (t : Tid) : Prop where
  wr : ∀ i r, (s.fr t).recs[i]? = some r → wrAt (s.pc t) i → (s.rcd r).waiting = false → sReady s (s.fr t) i
  os : inSleep (s.pc t) = true → ∀ i r, (s.fr t).recs[i]? = some r → (s.rcd r).waiting = false →
        Tok s b t ∨ InFlight s t ∨ Seen s (s.pc t) (s.fr t) i
  sd : SDat s (s.pc t) (s.fr t)

theorem scanned_none_of_notSleep {p : PC} {f : Frame} (h : inSleep p = false) : scanned p f = none := by
  cases p <;> simp [inSleep, scanned] at h ⊢
  all_goals (rename_i u _ _; cases u <;> simp [inSleep, scanned] at h ⊢)

theorem ti_of_notPhase {s : State} {b : SemId → Bool} {t : Tid} (h : inPhase (s.pc t) = false) : TI s b t := by
  have hs : inSleep (s.pc t) = false := by
    cases hp : s.pc t <;> simp [hp, inPhase] at h ⊢ <;> first | exact h | rfl
  refine ⟨fun i r _ hw _ => ?_, fun hsl => ?_, fun k hk => ?_⟩
  · rw [inPhase_of_wrAt hw] at h; cases h
  · rw [hs] at hsl; cases hsl
  · rw [scanned_none_of_notSleep hs] at hk; cases hk

/-- no record yet, and not in the do-while -/
theorem ti_of_nil {s : State} {b : SemId → Bool} {t : Tid} (h : (s.fr t).recs = []) (hs : inSleep (s.pc t) = false) :
    TI s b t := by
  refine ⟨fun i r hr _ _ => ?_, fun hsl => ?_, fun k hk => ?_⟩
  · rw [h] at hr; simp at hr
  · rw [hs] at hsl; cases hsl
  · rw [scanned_none_of_notSleep hs] at hk; cases hk

/-! ### what the invariants of the earlier files say at the program points of the two loops -/

theorem frSame_all {f g : Frame} (h : frSame f g) :
    g.recs = f.recs ∧ g.objs = f.objs ∧ g.min = f.min ∧ g.dl = f.dl ∧ g.freed = f.freed ∧ g.frees = f.frees := by
  unfold frSame at h
  rw [h]
  exact ⟨rfl, rfl, rfl, rfl, rfl, rfl⟩

theorem inLoop_of_inSleep {p : PC} {f : Frame} (h : inSleep p = true) (hl : LInv p f) : InLoop f := by
  cases p <;> simp [inSleep] at h
  · rename_i u i l; cases u <;> simp [inSleep] at h; exact hl.1
  · rename_i u i st; cases u <;> simp [inSleep] at h; exact hl.1
  · exact hl.1
  · exact hl.1
  · exact hl.1

theorem phase_facts {p : PC} {f : Frame} (h : inPhase p = true) (hl : LInv p f) :
    f.frees = 0 ∧ f.freed = false := by
  cases p <;> simp [inPhase, inSleep] at h
  · rename_i u i l; cases u <;> simp [inSleep] at h; exact ⟨hl.1.frees, hl.1.freed⟩
  · rename_i u i st; cases u <;> simp [inSleep] at h; exact ⟨hl.1.frees, hl.1.freed⟩
  all_goals exact ⟨hl.1.frees, hl.1.freed⟩

theorem waited_of_phase {s : State} {p : PC} {f : Frame} (h : inPhase p = true) (htf : TF s p f) :
    Waited s f f.count := by
  cases p <;> simp [inPhase, inSleep] at h
  · rename_i u i l; cases u <;> simp [inSleep] at h; exact htf.1
  · rename_i u i st; cases u <;> simp [inSleep] at h; exact htf.1
  · exact htf
  · exact htf
  · exact htf.1
  · exact htf.1
  · exact htf.1
  · exact htf.1
  · exact htf.1

/-- a ready non-cv object stays ready; for a cv `sReady` is `waiting = 0` of its record -/
theorem sReady_keep {s s' : State} {u : Tid} {f f' : Frame} (hobjs : f'.objs = f.objs)
    (hk : ∀ o ∈ f.objs, (s.obj o).known = true) (m : Mono s s' u) {i : Nat} {r : Rid}
    (hr : f'.recs[i]? = some r) (hw' : (s'.rcd r).waiting = false) (h : sReady s f i) : sReady s' f' i := by
  unfold sReady at h ⊢
  rw [hobjs]
  cases ho : f.objs[i]? with
  | none => rw [ho] at h; exact h
  | some o =>
    rw [ho] at h
    have hm := hk o (List.mem_of_getElem? ho)
    cases o with
    | cv c => simp only at h ⊢; exact ⟨r, hr, hw'⟩
    | note n =>
      simp only at h ⊢
      rcases h with h | h
      · exact .inl (m.flag _ rfl hm h)
      · right; rw [m.expiry _ hm]; exact expiredB_mono m.now h
    | ctr c =>
      simp only at h ⊢
      exact ⟨m.zero c hm h.1 h.2, m.flag _ rfl hm h.2⟩

end WaitN
