/-
  Layer `CvFix` × vector clocks: how a thread gets to the program points from which a wake-up is
  reported (acceptor only, no clocks yet).
    `TFacts.exit`  a cv wait is past its loop (`wExit`, `wLocking`, `wRelocking`, `wRet`) only
                   through the load `ATM_LOAD_ACQ (&w->nw.waiting)` [cv.c/10] of ITS OWN record that
                   observed 0; `xferd` / `exitUnl` are what the record said at that load;
    `TFacts.deq`   a cv_dequeue is about to return 0 without having waited (`nDeqRel`,
                   `was_queued = 0`) only through its load `ATM_LOAD_ACQ (&nw->waiting)` [cv.c/32]
                   that observed 0.
-/
import NsyncVerif.Proofs.CvFixVCFacts

namespace NsyncVerif.CvFix

/-- Program points the two facts are about. -/
def Loc.c03 : Loc → Bool
  | .wExit | .wLocking | .wRelocking | .wRet | .nDeqRel => true
  | _ => false

structure TFacts (s : State) (e : Event) (s' : State) (t : Tid) : Prop where
  exit : (s'.thr t).loc.afterLoop = true →
    ((s.thr t).loc.afterLoop = true ∧ (s'.thr t).xferd = (s.thr t).xferd ∧
      (s'.thr t).exitUnl = (s.thr t).exitUnl) ∨
    (∃ r, e = .recLd t .wHead r 0 ∧ (s.thr t).loc = .wHead ∧ r = (s.thr t).r ∧
      (s.recs r).waiting = false ∧ (s'.thr t).xferd = decide ((s.recs r).stat = RStat.xfer) ∧
      (s'.thr t).exitUnl = (s.recs r).unl)
  deq : (s'.thr t).loc = .nDeqRel → (s'.thr t).wasQ = false →
    ((s.thr t).loc = .nDeqRel ∧ (s.thr t).wasQ = false ∧ (s'.thr t).r = (s.thr t).r) ∨
    (∃ r, e = .recLd t .deqLd r 0 ∧ (s'.thr t).r = r ∧ (s.thr t).loc = .nLocked ∧
      r ∈ (s.thr t).mine ∧ (s.recs r).waiting = false)

theorem afterLoop_c03 {l : Loc} (h : l.afterLoop = true) : l.c03 = true := by
  cases l <;> simp_all [Loc.afterLoop, Loc.c03]

theorem tfacts_out {s s' : State} {e : Event} {t : Tid} (h : (s'.thr t).loc.c03 = false) :
    TFacts s e s' t := by
  constructor
  · intro h1; rw [afterLoop_c03 h1] at h; cases h
  · intro h1; rw [h1] at h; cases h

theorem tfacts_same {s s' : State} {e : Event} {t : Tid} (h : s'.thr t = s.thr t) :
    TFacts s e s' t := by
  constructor
  · intro h1; rw [h] at h1 ⊢; exact .inl ⟨h1, rfl, rfl⟩
  · intro h1 h2; rw [h] at h1 h2 ⊢; exact .inl ⟨h1, h2, rfl⟩

/-- The frame changes only in fields the facts do not mention, and stays past the loop. -/
theorem tfacts_move {s s' : State} {e : Event} {t : Tid} (h0 : (s.thr t).loc.afterLoop = true)
    (h1 : (s'.thr t).loc ≠ .nDeqRel) (h2 : (s'.thr t).xferd = (s.thr t).xferd)
    (h3 : (s'.thr t).exitUnl = (s.thr t).exitUnl) : TFacts s e s' t := by
  constructor
  · intro _; exact .inl ⟨h0, h2, h3⟩
  · intro h; exact absurd h h1

theorem tfacts_actor {s s' : State} {e : Event} {t0 : Tid} (ho : ∀ u, u ≠ t0 → s'.thr u = s.thr u)
    (h0 : TFacts s e s' t0) (t : Tid) : TFacts s e s' t := by
  by_cases h : t = t0
  · subst h; exact h0
  · exact tfacts_same (ho t h)

theorem ite_sRel_c03 (b : Bool) : (if b = true then Loc.sRel else Loc.sRcLd).c03 = false := by
  cases b <;> rfl

theorem tfacts_ltr {s : State} {t : Tid} {e : Event} {x' : Thr} (h : LTr s t e x') :
    TFacts s e (s.setThr t x') t := by
  cases h with
  | lockMark op hl hx ho =>
    exact tfacts_move (by simp [hl, Loc.afterLoop]) (by simp) (by simp) (by simp)
  | relockSlow hl hx =>
    exact tfacts_move (by simp [hl, Loc.afterLoop]) (by simp) (by simp) (by simp)
  | nretLock hl =>
    exact tfacts_move (by simp [hl, Loc.afterLoop]) (by simp) (by simp) (by simp)
  | deqLd0 r hl hr ho =>
    constructor
    · intro h; simp [Loc.afterLoop] at h
    · intro _ _; exact .inr ⟨r, rfl, by simp, hl, hr, ho⟩
  | deqLdGone r obs hl hr hw hq => refine tfacts_out ?_; simp [Loc.c03]
  | deqSpinStay r obs hl hr hw => exact tfacts_same (by simp)
  | spinLd site obs hl ho => refine tfacts_out ?_; simp; split <;> simp [Loc.c03]
  | spinLdN obs hl ho => refine tfacts_out ?_; simp; split <;> simp [Loc.c03]
  | sigLd site obs hl hs ho => refine tfacts_out ?_; simp; split <;> simp [Loc.c03]
  | wHeadStay r obs hl hr ho hz =>
    refine tfacts_out ?_; simp; split
    · by_cases hn : (s.thr t).note = true <;> simp [hn, Loc.c03]
    · simp [Loc.c03]
  | wChk y r obs hy hl hr ho hso => refine tfacts_out ?_; simp; split <;> simp [Loc.c03]
  | wChk2 r obs hl hr ho => refine tfacts_out ?_; simp; split <;> simp [Loc.c03]
  | wwLd obs f rest hl hlist => refine tfacts_out ?_; simp; split <;> simp [Loc.c03]
  | wwRelCasOk exp new obs hl => refine tfacts_out ?_; simp; split <;> simp [Loc.c03]
  | ready r obs hl hr ho => refine tfacts_out ?_; simp [hl, Loc.c03]
  | noteSeen hl => refine tfacts_out ?_; rcases hl with hl | hl | hl <;> simp [hl, Loc.c03]
  | noteNotify hl ht => refine tfacts_out ?_; simp [hl, Loc.c03]
  | dbgLd obs hl ho => refine tfacts_out ?_; simp; split <;> simp [Loc.c03]
  | _ => refine tfacts_out ?_; simp [Loc.c03, Thr.fresh]

theorem tfacts_tr {cfg : Config} {s s' : State} {e : Event} (hf : InvF s) (h : Tr cfg s e s')
    (t : Tid) : TFacts s e s' t := by
  cases h with
  | same e h => exact tfacts_same rfl
  | tick ns h => exact tfacts_same rfl
  | semOther e sem' h => exact tfacts_same rfl
  | loc h =>
    rename_i t0 x'
    exact tfacts_actor (t0 := t0) (fun u hu => by simp [hu]) (tfacts_ltr h) t
  | acq t0 exp new obs o n hl hexp hw he ho hn hnew =>
    refine tfacts_actor (t0 := t0) (fun u hu => by rw [afterAcquire_thr_other _ _ _ _ hu]) (tfacts_out ?_) t
    rcases (afterAcquire_thr_self { s with word := n, holder := some t0 } t0 { s.thr t0 with old := o }).2.2.2.2
      with h | h | h | h | h | h <;> rw [h] <;> rfl
  | relWait t0 new obs n hl hh hnew hn hsp =>
    exact tfacts_actor (t0 := t0) (fun u hu => by simp [hu]) (tfacts_out (by simp [Loc.c03])) t
  | relWait2 t0 new obs n hl hh hnew hn hsp =>
    exact tfacts_actor (t0 := t0) (fun u hu => by simp [hu]) (tfacts_out (by simp [Loc.c03])) t
  | relSig t0 site new obs n hl hs hh hnew hn hsp =>
    refine tfacts_actor (t0 := t0) (fun u hu => by simp [hu]) (tfacts_out ?_) t
    simp
    rcases wakeEntry_cases s (s.thr t0).list with ⟨_, hw⟩ | ⟨_, hw | hw⟩ <;> simp [hw, Loc.c03]
  | relEnq t0 new obs n hl hh hnew hn hsp =>
    exact tfacts_actor (t0 := t0) (fun u hu => by simp [hu]) (tfacts_out (by simp [Loc.c03])) t
  | relDeq t0 new obs n hl hh hnew hn hsp =>
    exact tfacts_actor (t0 := t0) (fun u hu => by simp [hu]) (tfacts_out (by simp [Loc.c03])) t
  | relDeqW t0 new obs n hl hh hnew hn hsp =>
    exact tfacts_actor (t0 := t0) (fun u hu => by simp [hu]) (tfacts_out (by simp [Loc.c03])) t
  | relDbg t0 new obs n hl hh hnew hn hsp =>
    exact tfacts_actor (t0 := t0) (fun u hu => by simp [hu]) (tfacts_out (by simp [Loc.c03])) t
  | wHeadExit t0 r y hy hl hr hw =>
    subst hy
    refine tfacts_actor (t0 := t0) (fun u hu => by simp [hu]) ?_ t
    constructor
    · intro _; exact .inr ⟨r, rfl, hl, hr, hw, by simp, by simp⟩
    · intro h; simp at h
  | wCmpEq t0 r obs hl hr ho he =>
    exact tfacts_actor (t0 := t0) (fun u hu => by simp [hu]) (tfacts_out (by simp [Loc.c03])) t
  | deqLdQueued t0 r obs hl hr hw hq =>
    exact tfacts_actor (t0 := t0) (fun u hu => by simp [hu]) (tfacts_out (by simp [Loc.c03])) t
  | deqSpinExit t0 r hl hr hw =>
    exact tfacts_actor (t0 := t0) (fun u hu => by simp [hu]) (tfacts_out (by simp [Loc.c03])) t
  | wSt1 t0 r obs hl hm hst =>
    refine tfacts_actor (t0 := t0) (fun u hu => by simp [hu]) (tfacts_out ?_) t
    simp; split <;> simp [Loc.c03]
  | wClr t0 r obs hl hr =>
    exact tfacts_actor (t0 := t0) (fun u hu => by simp [hu]) (tfacts_out (by simp [Loc.c03])) t
  | wake t0 r obs hl hr =>
    exact tfacts_actor (t0 := t0) (fun u hu => by simp [hu]) (tfacts_out (by simp [Loc.c03])) t
  | enqSt t0 r obs hl hm hst ho he =>
    exact tfacts_actor (t0 := t0) (fun u hu => by simp [hu]) (tfacts_out (by simp [Loc.c03])) t
  | deqSt t0 r obs hl hr =>
    refine tfacts_actor (t0 := t0) (fun u hu => by simp [hu]) ?_ t
    have hq := ((hf.thr t0).wqSt hl).1
    constructor
    · intro h; simp [Loc.afterLoop] at h
    · intro _ h; simp [hq] at h
  | wRmCasOk t0 r exp new obs hl hr hn ho he =>
    exact tfacts_actor (t0 := t0) (fun u hu => by simp [hu]) (tfacts_out (by simp [Loc.c03])) t
  | sRcCasOk t0 site r exp new obs hl hr hn ho he =>
    refine tfacts_actor (t0 := t0) (fun u hu => by simp [hu]) (tfacts_out ?_) t
    simp only [setThr_thr, if_true]
    exact ite_sRel_c03 _
  | muMode t0 obs lt hl hlt =>
    exact tfacts_actor (t0 := t0) (fun u hu => by simp [hu]) (tfacts_out (by simp [Loc.c03])) t
  | wwCasOk t0 exp new obs f rest hl hlist =>
    exact tfacts_actor (t0 := t0) (fun u hu => by simp [hu]) (tfacts_out (by simp [Loc.c03])) t
  | semVWake t0 k r q hl hc =>
    refine tfacts_actor (t0 := t0) (fun u hu => by simp [hu]) (tfacts_out ?_) t
    simp; split <;> simp [Loc.c03]
  | semPdRetOkW t0 k hl =>
    exact tfacts_actor (t0 := t0) (fun u hu => by simp [hu]) (tfacts_out (by simp [Loc.c03])) t
  | semPdRetOkC t0 k hl =>
    exact tfacts_actor (t0 := t0) (fun u hu => by simp [hu]) (tfacts_out (by simp [Loc.c03])) t
  | wInit t0 r hl hm hst => exact tfacts_same rfl
  | nwInit t0 r hl hm hst => exact tfacts_same rfl
  | fStW t0 r new hl hf' => exact tfacts_same rfl
  | fCasOk t0 r exp new obs hl hf' hn ho he => exact tfacts_same rfl

/-! ### the events that set the ghost `xw` -/

/-- The thread whose ghost `xw` an event sets. -/
def xwTid : Event → Option Tid
  | .recLd t .wHead _ 0 => some t
  | .callWait t .. => some t
  | _ => none

/-- Such an event is accepted only in the wait loop or outside any call: never past the loop. -/
theorem xwTid_loc {cfg : Config} {s s' : State} {e : Event} {t : Tid}
    (hs : step cfg s e = .ok s') (h : xwTid e = some t) : (s.thr t).loc.afterLoop = false := by
  cases e <;> simp only [xwTid, reduceCtorEq] at h
  case callWait t' gen dl note =>
    cases h
    simp only [step] at hs
    rw [(stepCall_ok hs).1]; rfl
  case recLd t' site r obs =>
    cases site <;> try (simp at h; done)
    cases obs with
    | succ k => simp at h
    | zero =>
      simp only [Option.some.injEq] at h
      subst h
      rw [(wHead_exit_accepted hs).1]; rfl

end NsyncVerif.CvFix
