import NsyncVerif.Proofs.MuCInv4
namespace NsyncVerif.MuC

macro "wr_same" : tactic => `(tactic|
  (intro x; constructor <;> (try left) <;> (simp [setFn] <;> (try split) <;> simp_all)))

macro "inv4_local" t:ident h:ident heq:ident : tactic => `(tactic|
  (refine Inv4.local $t $h ?_ ?_ ?_ ?_ ?_ ?_ ?_ ?_ ?_
   · simp
   · wr_same
   · intro u hu; simp [setFn, hu]
   all_goals
     (rw [$heq:ident]
      (simp_all [PC.ws, SL.ws, Ret.ws, PC.unl, PC.scan?, PC.wakeL, PC.limbo, PC.finOf, loopPc, finPc, Ret.pc,
        SL.fromWait, SL.entry, SL.woken]) <;> grind)))

macro "ld_case4" t:ident h:ident heq:ident hs:ident : tactic => `(tactic|
  (try dsimp only at $hs:ident
   try simp only [ldWord, ldWaiting] at $hs:ident
   repeat' split at $hs:ident
   all_goals first
     | (cases $hs:ident; done)
     | (cases $hs:ident; inv4_local $t $h $heq)
     | (cases $hs:ident; split <;> inv4_local $t $h $heq)))

theorem inv4_stepLd {s s' : State} {t : Tid} {o : Ord} {loc : Loc} {obs : Nat} (h3 : Inv3 s) (h : Inv4 s)
    (hs : stepLd s t o loc obs = .ok s') : Inv4 s' := by
  unfold stepLd at hs
  split at hs
  all_goals first
    | (rename_i heq; ld_case4 t h heq hs)
    | skip
  -- mtLdRc: nsync_remove_from_mu_queue_ (mu->waiters, w) by the timed-out waiter itself
  rename_i c old heq
  dsimp only at hs
  repeat' split at hs
  all_goals first
    | (cases hs; done)
    | (cases hs; inv4_local t h heq)
    | skip
  rename_i k hk _ _ _ _ hmem
  cases hs
  have hlo : LnkOnly s (setPc (dequeue s k) t (PC.mtRmLd c old)) := lnkOnly_removeLinks _ _ _ _
  have hsc : ∀ u, ((setPc (dequeue s k) t (PC.mtRmLd c old)).pc u).scan? = (s.pc u).scan? := by
    intro u; by_cases hu : u = t
    · subst hu; simp [heq, PC.scan?]
    · simp [setFn, hu, dequeue]
  have hwkL : ∀ u, ((setPc (dequeue s k) t (PC.mtRmLd c old)).pc u).wakeL = (s.pc u).wakeL := by
    intro u; by_cases hu : u = t
    · subst hu; simp [heq, PC.wakeL]
    · simp [setFn, hu, dequeue]
  have hqsub : ∀ x, x ∈ (setPc (dequeue s k) t (PC.mtRmLd c old)).queue → x ∈ s.queue := by
    intro x hx; simp [dequeue] at hx; exact List.mem_of_mem_erase hx
  have hqnd : s.queue.Nodup := by
    have := h.nd t; simp only [allOf, List.append_assoc] at this; exact (List.nodup_append.mp this).1
  refine ⟨?_, ?_, ?_, ?_, ?_, ?_, ?_, fun u v x hu hv => by rw [hwkL] at hu hv; exact h.wkd u v x hu hv⟩
  · intro u x hx
    rw [(hlo x).1]
    by_cases hu : u = t
    · subst hu; refine h.own u x ?_; rw [heq]; simpa [PC.ws] using hx
    · simp [setFn, hu, dequeue] at hx; exact h.own u x hx
  · intro u v hu hv
    have e : ∀ w, ((setPc (dequeue s k) t (PC.mtRmLd c old)).pc w).unl = (s.pc w).unl := by
      intro w; by_cases hw : w = t
      · subst hw; simp [heq, PC.unl]
      · simp [setFn, hw, dequeue]
    rw [e] at hu hv; exact h.uniq u v hu hv
  · intro u
    have := h.nd u
    simp only [allOf, PC.priv, hsc, hwkL] at this ⊢
    simp only [setPc_queue, dequeue, List.append_assoc] at this ⊢
    exact List.Nodup.sublist (List.Sublist.append_right (List.erase_sublist) _) this
  · intro x hx
    rw [(hlo x).2.1]; exact h.wait x (queued_mono hqsub hsc hx)
  · intro u x hx
    rw [hwkL] at hx
    obtain ⟨a, b⟩ := h.wk u x hx
    exact ⟨by rw [(hlo x).2.1]; exact a, fun hq => b (queued_mono hqsub hsc hq)⟩
  · intro u x hx
    by_cases hu : u = t
    · subst hu
      simp only [setPc_pc, setFn_same, PC.limbo] at hx
      rw [hk] at hx; cases hx
      have hQ : Queued s k := Or.inl hmem
      refine ⟨by rw [(hlo k).2.1]; exact h.wait k hQ, ?_, ?_⟩
      · rintro (hq | ⟨v, sc, h1, h2⟩)
        · simp [dequeue] at hq
          exact absurd hq (List.Nodup.not_mem_erase hqnd)
        · rw [hsc] at h1
          exact h.not_in_priv hmem v (mem_priv_iff.2 ⟨sc, h1, h2⟩)
      · intro v hv; rw [hwkL] at hv; exact (h.wk v k hv).2 hQ
    · have hx' : (s.pc u).limbo = some x := by simpa [setFn, hu, dequeue] using hx
      obtain ⟨a, b, c'⟩ := h.limbo u x hx'
      exact ⟨by rw [(hlo x).2.1]; exact a, fun hq => b (queued_mono hqsub hsc hq), fun v => by rw [hwkL]; exact c' v⟩
  · intro u f hf
    by_cases hu : u = t
    · subst hu; simp [PC.finOf] at hf
    · have hf' : (s.pc u).finOf = some f := by simpa [setFn, hu, dequeue] using hf
      exact absurd (h3.fin_owner (t := t) (by rw [heq]; rfl) hf') hu

end NsyncVerif.MuC
