/-
  Proofs/CounterFairStep2.lean — Counter layer, fair timeouts (C10, liveness form): per-step facts for
  the argument "a wait whose deadline has passed returns".

  * `tpos`  position of a thread inside nsync_counter_wait; every own operation decreases it, except
            the way back from the sleep (`pd_ret 0`: wPdWait → wLoopStore), which consumes one unit of
            the record's semaphore
  * `Bf`    units the record's semaphore can still deliver: its count, plus one while the record is
            queued or its waker is between the store and the post
-/
import NsyncVerif.Proofs.CounterFairStep

namespace Counter

def tpos : PC → Nat
  | .w0Store _ => 33 | .w0Load _ => 32 | .wInit _ => 31
  | .wEnqLockCall _ _ => 30 | .wEnqLockWait _ _ => 29 | .wEnqLoad _ _ => 28
  | .wEnqStore _ _ _ => 27 | .wEnqUnlockCall _ _ _ => 26 | .wEnqUnlockWait _ _ _ => 25
  | .wLoopStore _ _ => 24 | .wLoopLoad _ _ => 23 | .wPdEnter _ _ => 22 | .wPdWait _ _ _ => 21
  | .wDeqLockCall _ _ _ => 20 | .wDeqLockWait _ _ _ => 19 | .wDeqLoadV _ _ _ => 18
  | .wDeqLoadW _ _ _ _ => 17 | .wDeqStore _ _ _ _ => 16 | .wDeqUnlockCall _ _ _ _ => 15
  | .wDeqUnlockWait _ _ _ _ => 14 | .wFinalLoad _ => 13 | .wRet _ _ => 12
  | _ => 0

theorem tpos_pos_iff (p : PC) : 0 < tpos p ↔ 0 < wrank p := by
  cases p <;> simp [tpos, wrank]

def Bf (sh : Shared) (k : NwId) (j : SemId) : Nat :=
  sh.sem j + (if (sh.nw k).waiting = true ∨ sh.posting = some k then 1 else 0)

structure Prog2 (s : State) (u : Tid) (e : Ev) (s' : State) : Prop where
  bmono : ∀ k j, (s.sh.nw k).live = true → (s.sh.nw k).sem = some j →
      (∀ jj, e = .semV jj → ∃ d r idx w, s.pc u = .aPost d r idx w) →
      (∀ dl v, s.pc u ≠ .wEnqStore dl k v) →
      (∀ dl jj, s.pc u = .wPdWait dl k jj → s'.pc u = s.pc u) →
      Bf s'.sh k j ≤ Bf s.sh k j
  semkeep : ∀ k j, (s.sh.nw k).live = true → (s.sh.nw k).sem = some j → (s'.sh.nw k).live = true →
      (s'.sh.nw k).sem = some j
  trank : 0 < tpos (s.pc u) → s'.pc u = s.pc u
      ∨ (tpos (s'.pc u) < tpos (s.pc u) ∧ (s'.pc u = .idle ∨ 0 < tpos (s'.pc u))
          ∧ (∀ k, pcNw (s'.pc u) = some k → pcNw (s.pc u) = some k ∨ tpos (s.pc u) = 31))
      ∨ (∃ dl k j, s.pc u = .wPdWait dl k j ∧ s'.pc u = .wLoopStore dl k ∧ s'.sh.sem j + 1 = s.sh.sem j
          ∧ s'.sh.nw = s.sh.nw ∧ s'.sh.posting = s.sh.posting)
  bind : ∀ dl k j, s'.pc u = .wPdWait dl k j → s'.pc u ≠ s.pc u → s.pc u = .wPdEnter dl k

theorem dflt_prog2 {s s' : State} {idle : Bool} {e : Ev} (u : Tid) (hi : Inv s)
    (hx : (∀ d r idx w, s.pc u ≠ .aPost d r idx w) ∨ (∀ jj, e ≠ .semV jj))
    (h : dflt s idle e = .ok s') : Prog2 s u e s' := by
  have hsemu := hi.sh.semu
  unfold dflt at h
  repeat' (split at h)
  all_goals first
    | (cases h; done)
    | (cases h; constructor <;> simp_all [Shared.setSem, Bf] <;> grind)

set_option hygiene false in
macro "prog2_open" : tactic => `(tactic| (
  have hp := hi.pcs u; rw [hpc] at hp
  have hs := hi.sh
  simp only [stepThr, hpc] at h
  repeat' (split at h)
  all_goals first
    | (cases h; done)
    | (refine dflt_prog2 u hi ?_ h
       first | (left; simp [hpc]; done) | (right; intro jj hj; subst hj; simp_all; done))
    | skip
  all_goals (cases h; (try simp only [setPc_eq]))
  all_goals try (have hm := useMu_eq (by assumption); subst hm)
  all_goals try (rcases bind_eq (by assumption) with ⟨hb1, hb2⟩ | ⟨hb1, hb2, hb3⟩ <;> first | subst hb1 | subst hb3)
  all_goals simp only [pcInv, pcFacts, holds] at hp))

set_option hygiene false in
macro "prog2_tac" : tactic => `(tactic| (
  have hsemu := hs.semu
  have hq := hs.queue
  have hpost := hs.post
  constructor <;>
    (simp only [State.mk', Shared.setSem, Shared.setRec, Shared.setSemUser, Shared.release, tpos, Bf, pcNw, own,
      hpc, if_pos, ite_live, ite_waiting, ite_sem, ite_owner] <;>
     first | (intros; trivial) | grind | (intros; simp_all <;> grind))))

variable {s s' : State} {u : Tid} {e : Ev}

theorem prog2_idle (hi : Inv s) (hpc : s.pc u = .idle) (h : stepThr s u e = .ok s') : Prog2 s u e s' := by
  prog2_open
  all_goals prog2_tac

theorem prog2_newMalloc {v} (hi : Inv s) (hpc : s.pc u = .newMalloc v) (h : stepThr s u e = .ok s') : Prog2 s u e s' := by
  prog2_open
  all_goals prog2_tac

theorem prog2_newStore {v} (hi : Inv s) (hpc : s.pc u = .newStore v) (h : stepThr s u e = .ok s') : Prog2 s u e s' := by
  prog2_open
  all_goals prog2_tac

theorem prog2_newRet {ok} (hi : Inv s) (hpc : s.pc u = .newRet ok) (h : stepThr s u e = .ok s') : Prog2 s u e s' := by
  prog2_open
  all_goals prog2_tac

theorem prog2_fLockCall (hi : Inv s) (hpc : s.pc u = .fLockCall) (h : stepThr s u e = .ok s') : Prog2 s u e s' := by
  prog2_open
  all_goals prog2_tac

theorem prog2_fLockWait (hi : Inv s) (hpc : s.pc u = .fLockWait) (h : stepThr s u e = .ok s') : Prog2 s u e s' := by
  prog2_open
  all_goals prog2_tac

theorem prog2_fHeld (hi : Inv s) (hpc : s.pc u = .fHeld) (h : stepThr s u e = .ok s') : Prog2 s u e s' := by
  prog2_open
  all_goals prog2_tac

theorem prog2_fUnlockWait (hi : Inv s) (hpc : s.pc u = .fUnlockWait) (h : stepThr s u e = .ok s') : Prog2 s u e s' := by
  prog2_open
  all_goals prog2_tac

theorem prog2_fFree (hi : Inv s) (hpc : s.pc u = .fFree) (h : stepThr s u e = .ok s') : Prog2 s u e s' := by
  prog2_open
  all_goals prog2_tac

theorem prog2_fRet (hi : Inv s) (hpc : s.pc u = .fRet) (h : stepThr s u e = .ok s') : Prog2 s u e s' := by
  prog2_open
  all_goals prog2_tac

theorem prog2_valLoad (hi : Inv s) (hpc : s.pc u = .valLoad) (h : stepThr s u e = .ok s') : Prog2 s u e s' := by
  prog2_open
  all_goals prog2_tac

theorem prog2_valRet {v} (hi : Inv s) (hpc : s.pc u = .valRet v) (h : stepThr s u e = .ok s') : Prog2 s u e s' := by
  prog2_open
  all_goals prog2_tac

theorem prog2_azLoad (hi : Inv s) (hpc : s.pc u = .azLoad) (h : stepThr s u e = .ok s') : Prog2 s u e s' := by
  prog2_open
  all_goals prog2_tac

theorem prog2_azRet {v} (hi : Inv s) (hpc : s.pc u = .azRet v) (h : stepThr s u e = .ok s') : Prog2 s u e s' := by
  prog2_open
  all_goals prog2_tac

theorem prog2_aLockCall {d} (hi : Inv s) (hpc : s.pc u = .aLockCall d) (h : stepThr s u e = .ok s') : Prog2 s u e s' := by
  prog2_open
  all_goals prog2_tac

theorem prog2_aLockWait {d} (hi : Inv s) (hpc : s.pc u = .aLockWait d) (h : stepThr s u e = .ok s') : Prog2 s u e s' := by
  prog2_open
  all_goals prog2_tac

theorem prog2_aLoad {d} (hi : Inv s) (hpc : s.pc u = .aLoad d) (h : stepThr s u e = .ok s') : Prog2 s u e s' := by
  prog2_open
  all_goals prog2_tac

theorem prog2_aCas {d v} (hi : Inv s) (hpc : s.pc u = .aCas d v) (h : stepThr s u e = .ok s') : Prog2 s u e s' := by
  prog2_open
  all_goals prog2_tac

theorem prog2_aLoadWaited {d r idx} (hi : Inv s) (hpc : s.pc u = .aLoadWaited d r idx) (h : stepThr s u e = .ok s') : Prog2 s u e s' := by
  prog2_open
  all_goals prog2_tac

theorem prog2_aHeld {d r idx wake} (hi : Inv s) (hpc : s.pc u = .aHeld d r idx wake) (h : stepThr s u e = .ok s') : Prog2 s u e s' := by
  prog2_open
  all_goals prog2_tac

theorem prog2_aPost {d r idx k} (hi : Inv s) (hpc : s.pc u = .aPost d r idx k) (h : stepThr s u e = .ok s') : Prog2 s u e s' := by
  prog2_open
  all_goals prog2_tac

theorem prog2_aUnlockWait {d r idx} (hi : Inv s) (hpc : s.pc u = .aUnlockWait d r idx) (h : stepThr s u e = .ok s') : Prog2 s u e s' := by
  prog2_open
  all_goals prog2_tac

theorem prog2_aRet {d r idx} (hi : Inv s) (hpc : s.pc u = .aRet d r idx) (h : stepThr s u e = .ok s') : Prog2 s u e s' := by
  prog2_open
  all_goals prog2_tac

theorem prog2_w0Store {dl} (hi : Inv s) (hpc : s.pc u = .w0Store dl) (h : stepThr s u e = .ok s') : Prog2 s u e s' := by
  prog2_open
  all_goals prog2_tac

theorem prog2_w0Load {dl} (hi : Inv s) (hpc : s.pc u = .w0Load dl) (h : stepThr s u e = .ok s') : Prog2 s u e s' := by
  prog2_open
  all_goals prog2_tac

theorem prog2_wInit {dl} (hi : Inv s) (hpc : s.pc u = .wInit dl) (h : stepThr s u e = .ok s') : Prog2 s u e s' := by
  prog2_open
  all_goals prog2_tac

theorem prog2_wEnqLockCall {dl k} (hi : Inv s) (hpc : s.pc u = .wEnqLockCall dl k) (h : stepThr s u e = .ok s') : Prog2 s u e s' := by
  prog2_open
  all_goals prog2_tac

theorem prog2_wEnqLockWait {dl k} (hi : Inv s) (hpc : s.pc u = .wEnqLockWait dl k) (h : stepThr s u e = .ok s') : Prog2 s u e s' := by
  prog2_open
  all_goals prog2_tac

theorem prog2_wEnqLoad {dl k} (hi : Inv s) (hpc : s.pc u = .wEnqLoad dl k) (h : stepThr s u e = .ok s') : Prog2 s u e s' := by
  prog2_open
  all_goals prog2_tac

theorem prog2_wEnqStore {dl k v} (hi : Inv s) (hpc : s.pc u = .wEnqStore dl k v) (h : stepThr s u e = .ok s') : Prog2 s u e s' := by
  prog2_open
  all_goals prog2_tac

theorem prog2_wEnqUnlockCall {dl k enq} (hi : Inv s) (hpc : s.pc u = .wEnqUnlockCall dl k enq) (h : stepThr s u e = .ok s') : Prog2 s u e s' := by
  prog2_open
  all_goals prog2_tac

theorem prog2_wEnqUnlockWait {dl k enq} (hi : Inv s) (hpc : s.pc u = .wEnqUnlockWait dl k enq) (h : stepThr s u e = .ok s') : Prog2 s u e s' := by
  prog2_open
  all_goals prog2_tac

theorem prog2_wLoopStore {dl k} (hi : Inv s) (hpc : s.pc u = .wLoopStore dl k) (h : stepThr s u e = .ok s') : Prog2 s u e s' := by
  prog2_open
  all_goals prog2_tac

theorem prog2_wLoopLoad {dl k} (hi : Inv s) (hpc : s.pc u = .wLoopLoad dl k) (h : stepThr s u e = .ok s') : Prog2 s u e s' := by
  prog2_open
  all_goals prog2_tac

theorem prog2_wPdEnter {dl k} (hi : Inv s) (hpc : s.pc u = .wPdEnter dl k) (h : stepThr s u e = .ok s') : Prog2 s u e s' := by
  prog2_open
  all_goals prog2_tac

theorem prog2_wPdWait {dl k j} (hi : Inv s) (hpc : s.pc u = .wPdWait dl k j) (h : stepThr s u e = .ok s') : Prog2 s u e s' := by
  prog2_open
  all_goals prog2_tac

theorem prog2_wDeqLockCall {dl k tmo} (hi : Inv s) (hpc : s.pc u = .wDeqLockCall dl k tmo) (h : stepThr s u e = .ok s') : Prog2 s u e s' := by
  prog2_open
  all_goals prog2_tac

theorem prog2_wDeqLockWait {dl k tmo} (hi : Inv s) (hpc : s.pc u = .wDeqLockWait dl k tmo) (h : stepThr s u e = .ok s') : Prog2 s u e s' := by
  prog2_open
  all_goals prog2_tac

theorem prog2_wDeqLoadV {dl k tmo} (hi : Inv s) (hpc : s.pc u = .wDeqLoadV dl k tmo) (h : stepThr s u e = .ok s') : Prog2 s u e s' := by
  prog2_open
  all_goals prog2_tac

theorem prog2_wDeqLoadW {dl k tmo v} (hi : Inv s) (hpc : s.pc u = .wDeqLoadW dl k tmo v) (h : stepThr s u e = .ok s') : Prog2 s u e s' := by
  prog2_open
  all_goals prog2_tac

theorem prog2_wDeqStore {dl k tmo v} (hi : Inv s) (hpc : s.pc u = .wDeqStore dl k tmo v) (h : stepThr s u e = .ok s') : Prog2 s u e s' := by
  prog2_open
  all_goals prog2_tac

theorem prog2_wDeqUnlockCall {dl k tmo v} (hi : Inv s) (hpc : s.pc u = .wDeqUnlockCall dl k tmo v) (h : stepThr s u e = .ok s') : Prog2 s u e s' := by
  prog2_open
  all_goals prog2_tac

theorem prog2_wDeqUnlockWait {dl k tmo v} (hi : Inv s) (hpc : s.pc u = .wDeqUnlockWait dl k tmo v) (h : stepThr s u e = .ok s') : Prog2 s u e s' := by
  prog2_open
  all_goals prog2_tac

theorem prog2_wFinalLoad {dl} (hi : Inv s) (hpc : s.pc u = .wFinalLoad dl) (h : stepThr s u e = .ok s') : Prog2 s u e s' := by
  prog2_open
  all_goals prog2_tac

theorem prog2_wRet {dl r} (hi : Inv s) (hpc : s.pc u = .wRet dl r) (h : stepThr s u e = .ok s') : Prog2 s u e s' := by
  prog2_open
  all_goals prog2_tac

theorem prog2_stepThr (hi : Inv s) (h : stepThr s u e = .ok s') : Prog2 s u e s' := by
  cases hpc : s.pc u with
  | idle  => exact prog2_idle hi hpc h
  | newMalloc v => exact prog2_newMalloc hi hpc h
  | newStore v => exact prog2_newStore hi hpc h
  | newRet ok => exact prog2_newRet hi hpc h
  | fLockCall  => exact prog2_fLockCall hi hpc h
  | fLockWait  => exact prog2_fLockWait hi hpc h
  | fHeld  => exact prog2_fHeld hi hpc h
  | fUnlockWait  => exact prog2_fUnlockWait hi hpc h
  | fFree  => exact prog2_fFree hi hpc h
  | fRet  => exact prog2_fRet hi hpc h
  | valLoad  => exact prog2_valLoad hi hpc h
  | valRet v => exact prog2_valRet hi hpc h
  | azLoad  => exact prog2_azLoad hi hpc h
  | azRet v => exact prog2_azRet hi hpc h
  | aLockCall d => exact prog2_aLockCall hi hpc h
  | aLockWait d => exact prog2_aLockWait hi hpc h
  | aLoad d => exact prog2_aLoad hi hpc h
  | aCas d v => exact prog2_aCas hi hpc h
  | aLoadWaited d r idx => exact prog2_aLoadWaited hi hpc h
  | aHeld d r idx wake => exact prog2_aHeld hi hpc h
  | aPost d r idx k => exact prog2_aPost hi hpc h
  | aUnlockWait d r idx => exact prog2_aUnlockWait hi hpc h
  | aRet d r idx => exact prog2_aRet hi hpc h
  | w0Store dl => exact prog2_w0Store hi hpc h
  | w0Load dl => exact prog2_w0Load hi hpc h
  | wInit dl => exact prog2_wInit hi hpc h
  | wEnqLockCall dl k => exact prog2_wEnqLockCall hi hpc h
  | wEnqLockWait dl k => exact prog2_wEnqLockWait hi hpc h
  | wEnqLoad dl k => exact prog2_wEnqLoad hi hpc h
  | wEnqStore dl k v => exact prog2_wEnqStore hi hpc h
  | wEnqUnlockCall dl k enq => exact prog2_wEnqUnlockCall hi hpc h
  | wEnqUnlockWait dl k enq => exact prog2_wEnqUnlockWait hi hpc h
  | wLoopStore dl k => exact prog2_wLoopStore hi hpc h
  | wLoopLoad dl k => exact prog2_wLoopLoad hi hpc h
  | wPdEnter dl k => exact prog2_wPdEnter hi hpc h
  | wPdWait dl k j => exact prog2_wPdWait hi hpc h
  | wDeqLockCall dl k tmo => exact prog2_wDeqLockCall hi hpc h
  | wDeqLockWait dl k tmo => exact prog2_wDeqLockWait hi hpc h
  | wDeqLoadV dl k tmo => exact prog2_wDeqLoadV hi hpc h
  | wDeqLoadW dl k tmo v => exact prog2_wDeqLoadW hi hpc h
  | wDeqStore dl k tmo v => exact prog2_wDeqStore hi hpc h
  | wDeqUnlockCall dl k tmo v => exact prog2_wDeqUnlockCall hi hpc h
  | wDeqUnlockWait dl k tmo v => exact prog2_wDeqUnlockWait hi hpc h
  | wFinalLoad dl => exact prog2_wFinalLoad hi hpc h
  | wRet dl r => exact prog2_wRet hi hpc h

end Counter
