/-
  Layer `Once`: invariant preservation for the events on the once word
  (call, ret, CAS, store; the loads are in OnceStepLd).
-/
import NsyncVerif.Proofs.OnceInv

namespace Once

theorem inv_call {cfg s s' t b a o} (hi : Inv cfg s)
    (h : step cfg s (.call t b a o) = .ok s') : Inv cfg s' := by
  simp only [step] at h
  split at h <;> step_norm h <;> try contradiction
  subst h
  inv_finish

theorem inv_ret {cfg s s' t b a} (hi : Inv cfg s)
    (h : step cfg s (.ret t b a) = .ok s') : Inv cfg s' := by
  simp only [step] at h
  split at h <;> step_norm h <;> try contradiction
  obtain ⟨h1, rfl⟩ := h
  inv_finish

theorem inv_cas {cfg s s' t fn ord o exp new obs ok} (hi : Inv cfg s)
    (h : step cfg s (.cas t fn ord o exp new obs ok) = .ok s') : Inv cfg s' := by
  simp only [step] at h
  split at h <;> step_norm h <;> try contradiction
  obtain ⟨h1, h2, h3, h4, h5, h6, h⟩ := h
  split at h <;> step_norm h <;> subst h
  · inv_finish
  · inv_finish

theorem inv_st {cfg s s' t fn ord o new obs} (hi : Inv cfg s)
    (h : step cfg s (.st t fn ord o new obs) = .ok s') : Inv cfg s' := by
  simp only [step] at h
  split at h <;> step_norm h <;> try contradiction
  obtain ⟨h1, h2, h3, h4, h5, rfl⟩ := h
  inv_finish

end Once
