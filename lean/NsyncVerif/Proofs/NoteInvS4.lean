/-
  Layer `Note`, invariant family S: preservation.
-/
import NsyncVerif.Proofs.NoteInvS3

set_option linter.unusedSimpArgs false

namespace Note

theorem above_of_cons {s : State} (hS : InvS s) {c p : NoteId} (hp : (s.notes p).allocated = true)
    (h : s.ancEver c = c :: s.ancEver p) : Above s p c :=
  ⟨by rw [h]; exact List.mem_cons_of_mem _ (hS.self p hp),
   fun a ha => by rw [h]; exact List.mem_cons_of_mem _ ha⟩

theorem step_invS {s s' : State} {e : Event} (hS : InvS s) (hs : step s e = .ok s') : InvS s' := by
  have hst := step_stable hs
  have hcl : ∀ t, SClaim s' (s'.pc t) := by
    intro t
    by_cases ha : e.actor = some t
    · rcases SClaim.actor0 hS hs t ha with h | h
      · exact SClaim.stable hS hs h
      · exact h
    · rw [step_pc_other hs t ha]; exact SClaim.stable hS hs (hS.claim t)
  -- the ghost history of a freshly allocated note
  have hnew : ∀ n, (s.notes n).allocated = false → (s'.notes n).allocated = true →
      ∃ a par dl, s.pc a = .newMalloc par dl ∧
        s'.notes n = { NoteRec.blank with expiry := dl, allocated := true } ∧ s'.ownDl n = dl ∧
        s'.ancEver n = n :: s.ancOf par := by
    intro n h0 h1
    rcases step_alloc hs n h1 with h | ⟨a, par, dl, _, hpc, hrec, _, hod, han, _⟩
    · simp [h0] at h
    · exact ⟨a, par, dl, hpc, hrec, hod, han⟩
  have hanc : ∀ n, (s.notes n).allocated = true → s'.ancEver n = s.ancEver n :=
    fun n hn => (hst.ghost n hn).2.1
  refine ⟨hcl, ?_, ?_, ?_, ?_, ?_, ?_, ?_⟩
  · -- flag
    intro n hn
    rcases step_flag_new hs n hn with h | ⟨a, f, rest, top, _, hpc, hf⟩ | ⟨a, p, dl, _, hpc⟩
    · exact Caused.stable hS hs (hS.flag n h)
    · have hc := hS.claim a
      rw [hpc] at hc
      exact Caused.stable hS hs (hf ▸ hc.2.2.1 f (by simp))
    · have hc := hS.claim a
      rw [hpc] at hc
      obtain ⟨_, hp, hae, hcp⟩ := hc
      exact Caused.stable hS hs (Caused.up (above_of_cons hS hp hae) (hcp rfl))
  · -- expiry
    intro n e hn he
    cases h0 : (s.notes n).allocated with
    | false =>
      obtain ⟨a, par, dl, _, hrec, hod, han⟩ := hnew n h0 hn
      left
      rw [hrec] at he
      exact ⟨n, by rw [han]; simp, by rw [hod]; exact he⟩
    | true =>
      rcases step_expiry hs n h0 with h | ⟨a, p, dl, _, _, hpc, hexp⟩
      · rw [h] at he
        rcases hS.expiry n e h0 he with h | ⟨h1, h2⟩
        · left; exact DlFrom.stable hS hs h
        · right; exact ⟨h1, Caused.stable hS hs h2⟩
      · have hc := hS.claim a
        have hd : DKS s n (.newSelf (some p) dl) := by
          rcases hpc with ⟨pos, nt, hpc⟩ | ⟨pos, par, hpc⟩
          · rw [hpc] at hc; exact hc.1
          · rw [hpc] at hc; exact hc.1
        obtain ⟨_, hp, hae, hown⟩ := hd p rfl
        have hab : Above s p n := above_of_cons hS hp hae
        rw [hexp] at he
        unfold Dl.min at he
        split at he
        · rcases hS.expiry p e hp he with ⟨x, hx, hd⟩ | ⟨h1, h2⟩
          · left; exact DlFrom.stable hS hs ⟨x, hab.2 x hx, hd⟩
          · right; exact ⟨h1, Caused.stable hS hs (Caused.up hab h2)⟩
        · left
          exact DlFrom.stable hS hs ⟨n, hS.self n h0, by rw [hown]; exact he⟩
  · -- children
    intro p c hc
    rcases step_children hs p c hc with h | ⟨a, dl, _, hpc⟩ | ⟨a, n, nx, _, hpc⟩
    · exact Above.stable hS hs (hS.children p c h)
    · have hcl := hS.claim a
      rw [hpc] at hcl
      exact Above.stable hS hs (above_of_cons hS hcl.2.1 hcl.2.2.1)
    · have hcl := hS.claim a
      rw [hpc] at hcl
      exact Above.stable hS hs (Above.trans (hcl.1 p rfl) (hcl.2 rfl))
  · -- parent
    intro p c hc
    rcases step_parent hs p c hc with h | ⟨a, dl, _, hpc⟩ | ⟨a, n, nx, _, hpc⟩
    · exact Above.stable hS hs (hS.parent p c h)
    · have hcl := hS.claim a
      rw [hpc] at hcl
      exact Above.stable hS hs (above_of_cons hS hcl.2.1 hcl.2.2.1)
    · have hcl := hS.claim a
      rw [hpc] at hcl
      exact Above.stable hS hs (Above.trans (hcl.1 p rfl) (hcl.2 rfl))
  · -- self
    intro n hn
    cases h0 : (s.notes n).allocated with
    | false =>
      obtain ⟨_, _, _, _, _, _, han⟩ := hnew n h0 hn
      rw [han]; simp
    | true => rw [hanc n h0]; exact hS.self n h0
  · -- unalloc
    intro n hn
    have h0 : (s.notes n).allocated = false := by
      cases h : (s.notes n).allocated with
      | false => rfl
      | true => rw [hst.alloc n h] at hn; cases hn
    rcases step_ghost hs n with ⟨h, _, _⟩ | ⟨_, h⟩
    · rw [h]; exact hS.unalloc n h0
    · rw [h] at hn; cases hn
  · -- anc
    intro n a ha
    rcases step_ghost hs n with ⟨h, _, _⟩ | ⟨h0, h1⟩
    · rw [h] at ha; exact hst.alloc a (hS.anc n a ha)
    · obtain ⟨t, par, dl, hpc, _, _, han⟩ := hnew n h0 h1
      rw [han] at ha
      rcases List.mem_cons.mp ha with ha | ha
      · subst ha; exact h1
      · cases par with
        | none => simp [State.ancOf] at ha
        | some p => exact hst.alloc a (hS.anc p a ha)

theorem Reachable.invS {s : State} (h : Reachable s) : InvS s :=
  Reachable.induction InvS.init (fun _ _ _ _ hi hs => step_invS hi hs) s h

end Note
