/-
  Layer `Note`: what one accepted step can change ("frame" facts used by all invariants).
-/
import NsyncVerif.Proofs.NoteBasic

set_option linter.unusedSimpArgs false

namespace Note

/-- The thread performing the event. -/
def Event.actor : Event → Option Tid
  | .call t _ | .ret t _ | .ld t .. | .stNote t .. | .stW t .. | .lockCall t _ | .lockRet t
  | .unlockCall t _ | .unlockRet t | .tryCall t _ | .tryRet t _ | .waitCall t _ | .waitRet t
  | .waitnCall t _ | .waitnRet t _ | .now t _ | .semV t _ | .pdEnter t .. | .pdRet t ..
  | .malloc t _ | .free t _ => some t
  | .tick _ | .skip => none

/-- Unfold the sub-step functions in `hs`, split on every `match`/`if`, and simplify. -/
macro "step_split" hs:ident : tactic => `(tactic| (
  simp only [step, stepCall, stepRet, stepLd, stepStNote, stepStW, stepLockCall, stepLockRet,
    stepUnlockCall, stepUnlockRet, stepTryCall, stepTryRet, stepWaitCall, stepWaitRet] at $hs:ident
  repeat' (split at $hs:ident)
  all_goals (try simp only [need_ok, reduceCtorEq, false_and, and_false, Except.ok.injEq] at $hs:ident)
  all_goals (try (exfalso; exact $hs:ident))))

/-- Full case analysis of an accepted step: one goal per (event, pc) combination, with the guards
    as anonymous hypotheses and `s'` replaced by its value. -/
macro "step_cases" hs:ident : tactic => `(tactic| (
  step_split $hs:ident
  all_goals (repeat (obtain ⟨_, $hs:ident⟩ := $hs:ident))
  all_goals (try subst $hs:ident)))

/-- A step changes the program counter of the acting thread only. -/
theorem step_pc_other {s s' : State} {e : Event} (hs : step s e = .ok s') (u : Tid)
    (hu : e.actor ≠ some u) : s'.pc u = s.pc u := by
  cases e
  all_goals step_cases hs
  all_goals simp only [Event.actor, ne_eq, Option.some.injEq] at hu
  all_goals (try rfl)
  all_goals (try (simp [upd_apply, Ne.symm hu]; done))
  all_goals (repeat' split)
  all_goals (try (simp [upd_apply, Ne.symm hu]; done))

/-- Facts about a state that survive every step ("monotone" facts). -/
structure Stable (s s' : State) : Prop where
  alloc : ∀ k, (s.notes k).allocated = true → (s'.notes k).allocated = true
  flag : ∀ k, (s.notes k).allocated = true → (s.notes k).notified = true →
    (s'.notes k).notified = true
  freed : ∀ k, (s.notes k).allocated = true → (s.notes k).freed = true → (s'.notes k).freed = true
  now : s.now ≤ s'.now
  called : ∀ k, s.notifyCalled k = true → s'.notifyCalled k = true
  published : ∀ k, s.published k = true → s'.published k = true
  freeing : ∀ k, s.freeing k = true → s'.freeing k = true
  born : ∀ k, s.bornNotified k = true → s'.bornNotified k = true
  ghost : ∀ k, (s.notes k).allocated = true →
    s'.ownDl k = s.ownDl k ∧ s'.ancEver k = s.ancEver k ∧ s'.pathMin k = s.pathMin k
  observed : ∃ l, s'.observed = l ++ s.observed

theorem Stable.refl (s : State) : Stable s s :=
  ⟨fun _ h => h, fun _ _ h => h, fun _ _ h => h, Nat.le_refl _, fun _ h => h, fun _ h => h,
   fun _ h => h, fun _ h => h, fun _ _ => ⟨rfl, rfl, rfl⟩, ⟨[], rfl⟩⟩

theorem Stable.trans {a b c : State} (h1 : Stable a b) (h2 : Stable b c) : Stable a c where
  alloc k h := h2.alloc k (h1.alloc k h)
  flag k h hf := h2.flag k (h1.alloc k h) (h1.flag k h hf)
  freed k h hf := h2.freed k (h1.alloc k h) (h1.freed k h hf)
  now := Nat.le_trans h1.now h2.now
  called k h := h2.called k (h1.called k h)
  published k h := h2.published k (h1.published k h)
  freeing k h := h2.freeing k (h1.freeing k h)
  born k h := h2.born k (h1.born k h)
  ghost k h := by
    have a1 := h1.ghost k h
    have a2 := h2.ghost k (h1.alloc k h)
    exact ⟨a2.1.trans a1.1, a2.2.1.trans a1.2.1, a2.2.2.trans a1.2.2⟩
  observed := by
    obtain ⟨l1, e1⟩ := h1.observed
    obtain ⟨l2, e2⟩ := h2.observed
    exact ⟨l2 ++ l1, by rw [e2, e1, List.append_assoc]⟩

/-- A modification of one note record that keeps `allocated`, and keeps `notified` / `freed` set. -/
structure RecOk (f : NoteRec → NoteRec) : Prop where
  alloc : ∀ r, r.allocated = true → (f r).allocated = true
  flag : ∀ r, r.notified = true → (f r).notified = true
  freed : ∀ r, r.freed = true → (f r).freed = true

theorem Stable.modNote (s : State) (k : NoteId) {f : NoteRec → NoteRec} (hf : RecOk f) :
    Stable s (s.modNote k f) := by
  refine ⟨?_, ?_, ?_, Nat.le_refl _, fun _ h => h, fun _ h => h, fun _ h => h, fun _ h => h,
    fun _ _ => ⟨rfl, rfl, rfl⟩, ⟨[], rfl⟩⟩
  · intro j h; simp only [modNote_notes, upd_apply]; split
    · next e => subst e; exact hf.alloc _ h
    · exact h
  · intro j _ h; simp only [modNote_notes, upd_apply]; split
    · next e => subst e; exact hf.flag _ h
    · exact h
  · intro j _ h; simp only [modNote_notes, upd_apply]; split
    · next e => subst e; exact hf.freed _ h
    · exact h

theorem Stable.setPc (s : State) (t : Tid) (p : PC) : Stable s (s.setPc t p) :=
  ⟨fun _ h => h, fun _ _ h => h, fun _ _ h => h, Nat.le_refl _, fun _ h => h, fun _ h => h,
   fun _ h => h, fun _ h => h, fun _ _ => ⟨rfl, rfl, rfl⟩, ⟨[], rfl⟩⟩
theorem Stable.modRec (s : State) (r : Rid) (f : WRec → WRec) : Stable s (s.modRec r f) :=
  ⟨fun _ h => h, fun _ _ h => h, fun _ _ h => h, Nat.le_refl _, fun _ h => h, fun _ h => h,
   fun _ h => h, fun _ h => h, fun _ _ => ⟨rfl, rfl, rfl⟩, ⟨[], rfl⟩⟩
theorem Stable.addUser (s : State) (n : NoteId) (t : Tid) : Stable s (s.addUser n t) :=
  ⟨fun _ h => h, fun _ _ h => h, fun _ _ h => h, Nat.le_refl _, fun _ h => h, fun _ h => h,
   fun _ h => h, fun _ h => h, fun _ _ => ⟨rfl, rfl, rfl⟩, ⟨[], rfl⟩⟩
theorem Stable.delUser (s : State) (n : NoteId) (t : Tid) : Stable s (s.delUser n t) :=
  ⟨fun _ h => h, fun _ _ h => h, fun _ _ h => h, Nat.le_refl _, fun _ h => h, fun _ h => h,
   fun _ h => h, fun _ h => h, fun _ _ => ⟨rfl, rfl, rfl⟩, ⟨[], rfl⟩⟩
theorem Stable.setAfter (s : State) (t : Tid) (b : Bool) : Stable s (s.setAfter t b) :=
  ⟨fun _ h => h, fun _ _ h => h, fun _ _ h => h, Nat.le_refl _, fun _ h => h, fun _ h => h,
   fun _ h => h, fun _ h => h, fun _ _ => ⟨rfl, rfl, rfl⟩, ⟨[], rfl⟩⟩
theorem Stable.leave (s : State) (t : Tid) (n : NoteId) : Stable s (s.leave t n) :=
  ⟨fun _ h => h, fun _ _ h => h, fun _ _ h => h, Nat.le_refl _, fun _ h => h, fun _ h => h,
   fun _ h => h, fun _ h => h, fun _ _ => ⟨rfl, rfl, rfl⟩, ⟨[], rfl⟩⟩

theorem Stable.markFreeing (s : State) (n : NoteId) : Stable s (s.markFreeing n) :=
  { Stable.refl s with freeing := by intro k h; simp [upd_apply, h] }
theorem Stable.markCalled (s : State) (n : NoteId) : Stable s (s.markCalled n) :=
  { Stable.refl s with called := by intro k h; simp [upd_apply, h] }
theorem Stable.markBorn (s : State) (n : NoteId) : Stable s (s.markBorn n) :=
  { Stable.refl s with born := by intro k h; simp [upd_apply, h] }
theorem Stable.publish (s : State) (n : NoteId) : Stable s (s.publish n) :=
  { Stable.refl s with published := by intro k h; simp [upd_apply, h] }
theorem Stable.pushObs (s : State) (o : Obs) : Stable s (s.pushObs o) :=
  { Stable.refl s with observed := ⟨[o], rfl⟩ }
theorem Stable.setNow (s : State) {v : Nat} (h : s.now ≤ v) : Stable s (s.setNow v) :=
  { Stable.refl s with now := h }

theorem Stable.acquire (s : State) (k : NoteId) (t : Tid) : Stable s (s.acquire k t) :=
  Stable.modNote s k ⟨fun _ h => h, fun _ h => h, fun _ h => h⟩
theorem Stable.release (s : State) (k : NoteId) : Stable s (s.release k) :=
  Stable.modNote s k ⟨fun _ h => h, fun _ h => h, fun _ h => h⟩
theorem Stable.incDisc (s : State) (k : NoteId) : Stable s (s.incDisc k) :=
  Stable.modNote s k ⟨fun _ h => h, fun _ h => h, fun _ h => h⟩
theorem Stable.decDisc (s : State) (k : NoteId) : Stable s (s.decDisc k) :=
  Stable.modNote s k ⟨fun _ h => h, fun _ h => h, fun _ h => h⟩
theorem Stable.setWaiters (s : State) (k : NoteId) (ws : List Rid) : Stable s (s.setWaiters k ws) :=
  Stable.modNote s k ⟨fun _ h => h, fun _ h => h, fun _ h => h⟩
theorem Stable.setAdopted (s : State) (k : NoteId) (b : Bool) : Stable s (s.setAdopted k b) :=
  Stable.modNote s k ⟨fun _ h => h, fun _ h => h, fun _ h => h⟩
theorem Stable.setExpiry (s : State) (k : NoteId) (d : Dl) : Stable s (s.setExpiry k d) :=
  Stable.modNote s k ⟨fun _ h => h, fun _ h => h, fun _ h => h⟩
theorem Stable.setNotified (s : State) (k : NoteId) : Stable s (s.setNotified k) :=
  Stable.modNote s k ⟨fun _ h => h, fun _ _ => rfl, fun _ h => h⟩
theorem Stable.markFreed (s : State) (k : NoteId) : Stable s (s.markFreed k) :=
  Stable.modNote s k ⟨fun _ h => h, fun _ h => h, fun _ _ => rfl⟩
theorem Stable.eraseChild (s : State) (n c : NoteId) : Stable s (s.eraseChild n c) :=
  Stable.modNote s n ⟨fun _ h => h, fun _ h => h, fun _ h => h⟩
theorem Stable.clearParent (s : State) (c : NoteId) : Stable s (s.clearParent c) :=
  Stable.modNote s c ⟨fun _ h => h, fun _ h => h, fun _ h => h⟩
theorem Stable.link (s : State) (c p : NoteId) : Stable s (s.link c p) := by
  unfold State.link
  refine Stable.trans ?_ (Stable.modNote _ _ ⟨fun _ h => h, fun _ h => h, fun _ h => h⟩)
  exact Stable.modNote _ _ ⟨fun _ h => h, fun _ h => h, fun _ h => h⟩
theorem Stable.unlink (s : State) (c p : NoteId) : Stable s (s.unlink c p) := by
  unfold State.unlink
  exact (Stable.eraseChild s p c).trans (Stable.clearParent _ c)

theorem Stable.allocNote (s : State) {k : NoteId} (par : Option NoteId) (dl : Dl)
    (hk : (s.notes k).allocated = false) : Stable s (s.allocNote k par dl) := by
  have hne : ∀ j, (s.notes j).allocated = true → j ≠ k := by
    intro j h e; subst e; simp [hk] at h
  refine ⟨?_, ?_, ?_, Nat.le_refl _, fun _ h => h, fun _ h => h, fun _ h => h, fun _ h => h, ?_,
    ⟨[], rfl⟩⟩
  · intro j h; simp [upd_apply, hne j h, h]
  · intro j h hf; simp [upd_apply, hne j h, hf]
  · intro j h hf; simp [upd_apply, hne j h, hf]
  · intro j h; simp [upd_apply, hne j h]

theorem Stable.newExpiry (s : State) (n : NoteId) (k : DK) : Stable s (newExpiry s n k) := by
  unfold Note.newExpiry; split
  · exact Stable.setExpiry _ _ _
  · exact Stable.refl _

theorem Stable.afterDeadline (s : State) (t : Tid) (n : NoteId) (nt : Dl) (k : DK) :
    Stable s (afterDeadline s t n nt k) := by
  unfold Note.afterDeadline; split
  · exact ((Stable.newExpiry s n k).trans (Stable.markBorn _ n)).trans (Stable.setPc _ _ _)
  · exact (Stable.newExpiry s n k).trans (Stable.setPc _ _ _)

theorem Stable.afterNotify (s : State) (t : Tid) (n : NoteId) (k : NK) :
    Stable s (afterNotify s t n k) := by
  cases k
  · exact Stable.setPc _ _ _
  · exact Stable.afterDeadline _ _ _ _ _

theorem Stable.childUnlink (s : State) (f : Frame) (rest : List Frame) (top : Top) :
    Stable s (childUnlink s f rest top) := by
  unfold Note.childUnlink; split
  · exact Stable.unlink _ _ _
  · exact Stable.refl _

theorem Stable.childReturn (s : State) (t : Tid) (f : Frame) (rest : List Frame) (top : Top) :
    Stable s (childReturn s t f rest top) := by
  unfold Note.childReturn; split
  · exact ((Stable.childUnlink s _ _ _).trans (Stable.decDisc _ _)).trans (Stable.setPc _ _ _)
  · exact (Stable.childUnlink s _ _ _).trans (Stable.setPc _ _ _)

theorem Stable.childScanStart (s : State) (t : Tid) (f : Frame) (rest : List Frame) (top : Top) :
    Stable s (childScanStart s t f rest top) :=
  (Stable.setAdopted s _ _).trans (Stable.setPc _ _ _)

theorem Stable.childWakeNext (s : State) (t : Tid) (f : Frame) (rest : List Frame) (top : Top) :
    Stable s (childWakeNext s t f rest top) := by
  unfold Note.childWakeNext; split
  · exact (Stable.setWaiters s _ _).trans (Stable.setPc _ _ _)
  · exact Stable.childScanStart _ _ _ _ _

theorem Stable.freeLoopStart (s : State) (t : Tid) (n : NoteId) (par : Option NoteId) :
    Stable s (freeLoopStart s t n par) := (Stable.setAdopted s _ _).trans (Stable.setPc _ _ _)

theorem Stable.enterChild (s : State) (t : Tid) (n : NoteId) (par : Option NoteId) (k : NK) :
    Stable s (enterChild s t n par k) := Stable.setPc _ _ _

/-- Peel the primitives off the target state of a `Stable` goal. -/
macro "stable_tac" : tactic => `(tactic| (
  repeat (first
    | exact Stable.refl _
    | exact Stable.afterDeadline _ _ _ _ _
    | refine Stable.trans ?_ (Stable.afterNotify _ _ _ _)
    | refine Stable.trans ?_ (Stable.childReturn _ _ _ _ _)
    | refine Stable.trans ?_ (Stable.childWakeNext _ _ _ _ _)
    | refine Stable.trans ?_ (Stable.childScanStart _ _ _ _ _)
    | refine Stable.trans ?_ (Stable.freeLoopStart _ _ _ _)
    | refine Stable.trans ?_ (Stable.enterChild _ _ _ _ _)
    | refine Stable.trans ?_ (Stable.afterDeadline _ _ _ _ _)
    | refine Stable.trans ?_ (Stable.setPc _ _ _)
    | refine Stable.trans ?_ (Stable.modRec _ _ _)
    | refine Stable.trans ?_ (Stable.addUser _ _ _)
    | refine Stable.trans ?_ (Stable.delUser _ _ _)
    | refine Stable.trans ?_ (Stable.setAfter _ _ _)
    | refine Stable.trans ?_ (Stable.leave _ _ _)
    | refine Stable.trans ?_ (Stable.markFreeing _ _)
    | refine Stable.trans ?_ (Stable.markCalled _ _)
    | refine Stable.trans ?_ (Stable.markBorn _ _)
    | refine Stable.trans ?_ (Stable.publish _ _)
    | refine Stable.trans ?_ (Stable.pushObs _ _)
    | refine Stable.trans ?_ (Stable.acquire _ _ _)
    | refine Stable.trans ?_ (Stable.release _ _)
    | refine Stable.trans ?_ (Stable.incDisc _ _)
    | refine Stable.trans ?_ (Stable.decDisc _ _)
    | refine Stable.trans ?_ (Stable.link _ _ _)
    | refine Stable.trans ?_ (Stable.unlink _ _ _)
    | refine Stable.trans ?_ (Stable.setWaiters _ _ _)
    | refine Stable.trans ?_ (Stable.setExpiry _ _ _)
    | refine Stable.trans ?_ (Stable.setAdopted _ _ _)
    | refine Stable.trans ?_ (Stable.setNotified _ _)
    | refine Stable.trans ?_ (Stable.markFreed _ _)
    | refine Stable.trans ?_ (Stable.eraseChild _ _ _)
    | refine Stable.trans ?_ (Stable.clearParent _ _))))

attribute [local irreducible] afterNotify childReturn childWakeNext childScanStart State.setAdopted freeLoopStart enterChild
  afterDeadline State.setPc State.modNote State.modRec State.acquire State.release State.incDisc
  State.decDisc State.link State.unlink State.addUser State.delUser State.markFreeing
  State.markCalled State.markBorn State.publish State.setAfter State.pushObs State.setNow
  State.allocNote State.leave State.setWaiters State.setExpiry State.setNotified State.markFreed
  State.eraseChild State.clearParent in
theorem step_stable {s s' : State} {e : Event} (hs : step s e = .ok s') : Stable s s' := by
  cases e
  all_goals step_cases hs
  all_goals (try exact Stable.refl _)
  all_goals (try (stable_tac; done))
  all_goals (repeat' split)
  all_goals (try (stable_tac; done))
  · exact Stable.setNow s (by assumption)
  · exact (Stable.allocNote s _ _ (by assumption)).trans (Stable.setPc _ _ _)

end Note
