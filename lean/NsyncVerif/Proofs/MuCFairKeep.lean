import NsyncVerif.Proofs.MuCInv2Api
/-
  MuC, fair termination: the parameters of the nsync_mu_wait_with_deadline call in progress (condition, deadline,
  note) do not change while the call is in progress, and "has seen its note notified" (`MW.saw`) is never reset:
  `CallKeep (s.pc t) (s'.pc t)` for every accepted step.  Loads and stores here; the rest in MuCFairKeep2.lean.
-/
namespace NsyncVerif.MuC

/-- `c'` are locals of the same call as `c`, later. -/
def MW.same (c c' : MW) : Prop :=
  c'.cond = c.cond ∧ c'.dl = c.dl ∧ c'.note = c.note ∧ (c.saw = true → c'.saw = true)

theorem MW.same_refl (c : MW) : c.same c := ⟨rfl, rfl, rfl, id⟩

theorem MW.same_trans {a b c : MW} (h1 : a.same b) (h2 : b.same c) : a.same c :=
  ⟨h2.1.trans h1.1, h2.2.1.trans h1.2.1, h2.2.2.1.trans h1.2.2.1, fun h => h2.2.2.2 (h1.2.2.2 h)⟩

/-- The deadline of a timed P inside nsync_mu_wait_with_deadline is not later than the deadline of the call. -/
def PC.okD : PC → Prop
  | .mwPdRet c dl => dlLe dl c.dl = true
  | _ => True

/-- One step of the thread: if it was inside nsync_mu_wait_with_deadline with locals `c`, it has returned or is
    inside the same call; if it was inside another call, it has returned or is still inside another call; `okD`
    is kept. -/
def CallKeep (p p' : PC) : Prop :=
  (∀ c, p.mw = some c → p' = .idle ∨ ∃ c', p'.mw = some c' ∧ c.same c') ∧
  (p ≠ .idle → p.mw = none → p' = .idle ∨ p'.mw = none) ∧
  (p.okD → p'.okD)

theorem CallKeep.refl (p : PC) : CallKeep p p :=
  ⟨fun c h => Or.inr ⟨c, h, c.same_refl⟩, fun _ h => Or.inr h, id⟩

theorem CallKeep.of_eq {p p' : PC} (h : p' = p) : CallKeep p p' := h ▸ CallKeep.refl p

theorem ScanPc.okD {r : Ret} {late : Bool} {p : PC} (h : ScanPc r late p) : p.okD := by
  cases p <;> simp [ScanPc] at h <;> simp [PC.okD]

/-- A step that ends in the plain code of the scan keeps the call. -/
theorem CallKeep.scan {p p' : PC} {r : Ret} {late : Bool} (hmw : p.mw = r.mw?) (hp : ScanPc r late p') : CallKeep p p' := by
  refine ⟨?_, ?_, fun _ => hp.okD⟩
  · intro c hc
    exact Or.inr ⟨c, by rw [hp.mw, ← hmw]; exact hc, c.same_refl⟩
  · intro _ hn
    exact Or.inr (by rw [hp.mw, ← hmw]; exact hn)

macro "keep_local" heq:ident : tactic => `(tactic|
  (rw [$heq:ident]
   (simp [CallKeep, MW.same, PC.mw, PC.okD, Ret.mw?, SL.entry, SL.fromWait, SL.woken, loopPc, finPc, Ret.pc, setFn]) <;> grind))

macro "ld_caseK" heq:ident hs:ident : tactic => `(tactic|
  (try dsimp only at $hs:ident
   try simp only [ldWord, ldWaiting, casWord] at $hs:ident
   repeat' split at $hs:ident
   all_goals first
     | (cases $hs:ident; done)
     | (cases $hs:ident; keep_local $heq)
     | (cases $hs:ident; split <;> keep_local $heq)))

theorem keep_stepLd {s s' : State} {t : Tid} {o : Ord} {loc : Loc} {obs : Nat}
    (hs : stepLd s t o loc obs = .ok s') : CallKeep (s.pc t) (s'.pc t) := by
  unfold stepLd at hs
  split at hs
  all_goals first
    | (rename_i heq; ld_caseK heq hs)
    | skip

theorem keep_stepSt {s s' : State} {t : Tid} {o : Ord} {loc : Loc} {new obs : Nat}
    (hs : stepSt s t o loc new obs = .ok s') : CallKeep (s.pc t) (s'.pc t) := by
  unfold stepSt at hs
  split at hs
  all_goals first
    | (rename_i heq; ld_caseK heq hs)
    | skip

end NsyncVerif.MuC
