/-
  Composition CvFix × MuX × vector clocks: the product is faithful.
    `jprun_of_jrun` / `jrun_of_jprun`  the product run is the joint acceptor's run decorated with
                     clocks and ghosts: same accepted lists, clock component = the clock machine run
                     over the projected events;
    `jrun_cv`, `jrun_mu`  a joint log is accepted only if the CvFix acceptor accepts its CvFix
                     projection and, for every mutex, the MuX acceptor accepts the projection onto
                     that mutex: the joint acceptor only ADDS the checks K1–K5.
-/
import NsyncVerif.Proofs.CvMuVCStep

namespace NsyncVerif.CvMu
open NsyncVerif NsyncVerif.CvFix

theorem jpnext_j (p : JP) (ev : XEv) (j' : JState) : (jpnext p ev j').j = j' := by
  cases ev <;> rfl

theorem jpnext_c (p : JP) (ev : XEv) (j' : JState) : (jpnext p ev j').c = xcstep p.c ev := by
  cases ev <;> rfl

theorem jprun_of_jrun {cfg : Config} {evs : List XEv} {p : JP} {j' : JState}
    (h : jrun cfg p.j evs = .ok j') : ∃ p', jprun cfg p evs = .ok p' ∧ p'.j = j' := by
  induction evs generalizing p with
  | nil => simp only [jrun, Except.ok.injEq] at h; exact ⟨p, rfl, h⟩
  | cons ev evs ih =>
    simp only [jrun] at h
    split at h
    · rename_i j1 hj
      obtain ⟨p', h1, h2⟩ := ih (p := jpnext p ev j1) (by rw [jpnext_j]; exact h)
      exact ⟨p', by simp [jprun, jpstep, hj, h1], h2⟩
    · cases h

theorem jrun_of_jprun {cfg : Config} {evs : List XEv} {p p' : JP} (h : jprun cfg p evs = .ok p') :
    jrun cfg p.j evs = .ok p'.j ∧ p'.c = xcrunx siteOrd p.c evs := by
  induction evs generalizing p with
  | nil => simp only [jprun, Except.ok.injEq] at h; subst h; exact ⟨rfl, rfl⟩
  | cons ev evs ih =>
    simp only [jprun] at h
    split at h
    · rename_i p1 hp
      obtain ⟨j1, hj, rfl⟩ := jpstep_ok hp
      obtain ⟨h1, h2⟩ := ih h
      rw [jpnext_j] at h1
      rw [jpnext_c] at h2
      exact ⟨by simp only [jrun, hj]; exact h1, by rw [h2]; rfl⟩
    · cases h

theorem jprun_append {cfg : Config} {a b : List XEv} {p p' : JP} :
    jprun cfg p (a ++ b) = .ok p' ↔ ∃ p1, jprun cfg p a = .ok p1 ∧ jprun cfg p1 b = .ok p' := by
  induction a generalizing p with
  | nil => simp [jprun]
  | cons e es ih =>
    simp only [List.cons_append, jprun]
    cases jpstep cfg p e with
    | ok p1 => exact ih
    | error m => simp

theorem jprun_single {cfg : Config} {p p' : JP} {ev : XEv} :
    jprun cfg p [ev] = .ok p' ↔ jpstep cfg p ev = .ok p' := by
  simp only [jprun]
  cases jpstep cfg p ev with
  | ok p1 => simp
  | error m => simp

theorem jpreachable_step {cfg : Config} {p p' : JP} {ev : XEv} (h : JPReachable cfg p)
    (hs : jpstep cfg p ev = .ok p') : JPReachable cfg p' := by
  obtain ⟨evs, he⟩ := h
  exact ⟨evs ++ [ev], jprun_append.mpr ⟨p, he, jprun_single.mpr hs⟩⟩

theorem xcrunx_append (so : Site → VC.Ord) (c : VC.St XLoc) (a b : List XEv) :
    xcrunx so c (a ++ b) = xcrunx so (xcrunx so c a) b := by
  induction a generalizing c with
  | nil => rfl
  | cons e es ih => simp only [List.cons_append, xcrunx]; exact ih _

/-- The clock component of a reachable product state is the clock machine run over the log. -/
theorem jprun_clocks {cfg : Config} {evs : List XEv} {p : JP} (h : jprun cfg jpinit evs = .ok p) :
    p.c = xclocks evs := (jrun_of_jprun h).2

/-- The CvFix layer accepts its projection of an accepted joint log. -/
theorem jrun_cv {cfg : Config} {evs : List XEv} {j j' : JState} (h : jrun cfg j evs = .ok j') :
    CvFix.run cfg j.s (cvProj evs) = .ok j'.s := by
  induction evs generalizing j with
  | nil => simp only [jrun, Except.ok.injEq] at h; subst h; rfl
  | cons ev evs ih =>
    simp only [jrun] at h
    split at h
    · rename_i j1 hj
      cases ev with
      | cv e m o =>
        simp only [cvProj, CvFix.run, (jstep_cv hj).1]
        exact ih h
      | mu m x =>
        simp only [cvProj]
        rw [← (jstep_mu hj).1]
        exact ih h
    · cases h

theorem muxStep_run {mx mx' : MuId → MuX.State} {m : MuId} {x : MuX.Ev}
    (h : muxStep mx m (some x) = .ok mx') (k : MuId) :
    (k = m → MuX.step (mx k) x = .ok (mx' k)) ∧ (k ≠ m → mx' k = mx k) := by
  obtain ⟨mm, hm, rfl⟩ := muxStep_some h
  constructor
  · rintro rfl; rw [updM_same]; exact hm
  · intro hk; exact updM_other _ _ hk

/-- The MuX layer accepts, for every mutex, its projection of an accepted joint log. -/
theorem jrun_mu {cfg : Config} {evs : List XEv} {j j' : JState} (h : jrun cfg j evs = .ok j')
    (k : MuId) : MuX.run (j.mx k) (muProj k evs) = .ok (j'.mx k) := by
  induction evs generalizing j with
  | nil => simp only [jrun, Except.ok.injEq] at h; subst h; rfl
  | cons ev evs ih =>
    simp only [jrun] at h
    split at h
    · rename_i j1 hj
      have ih' := ih h
      cases ev with
      | cv e m o =>
        have hm := (jstep_cv hj).2.1
        simp only [muProj]
        cases hx : muxOf e with
        | none =>
          rw [hx] at hm
          rw [muxStep_none hm] at ih'
          exact ih'
        | some x =>
          rw [hx] at hm
          obtain ⟨h1, h2⟩ := muxStep_run hm k
          by_cases hk : m = k
          · simp only [hk, if_true, MuX.run]
            rw [h1 hk.symm]; exact ih'
          · simp only [hk, if_false]
            rw [h2 (fun hh => hk hh.symm)] at ih'; exact ih'
      | mu m x =>
        have hm := (jstep_mu hj).2.1
        obtain ⟨h1, h2⟩ := muxStep_run hm k
        simp only [muProj]
        by_cases hk : m = k
        · simp only [hk, if_true, MuX.run]
          rw [h1 hk.symm]; exact ih'
        · simp only [hk, if_false]
          rw [h2 (fun hh => hk hh.symm)] at ih'; exact ih'
    · cases h

end NsyncVerif.CvMu
