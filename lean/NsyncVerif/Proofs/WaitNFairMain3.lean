/-
  Proofs/WaitNFairMain3.lean — WaitN layer, liveness, case (b): a sleeper that is never woken again while one of its
  objects is ready for it is eventually not blocked (`ready_unblocks`), hence a call for which an object becomes ready
  while it is at the P returns (`wait_returns_ready`), with an index (`wait_index_ready`).
-/
import NsyncVerif.Proofs.WaitNFairTok

set_option linter.unusedSimpArgs false
set_option linter.unusedVariables false

namespace WaitN

variable {s0 : State}

theorem ready_unblocks (x : Exec s0) (H : FairHyps x) (t : Tid) (j : Nat) (k : SemId) (i : Nat) (r : Rid)
    (hst : Still x t j) (hpk : (x.ρ j).pc t = .wPdWait k) (hrec : ((x.ρ j).fr t).recs[i]? = some r)
    (hb : becameReady (x.ρ j) t i r) : ∃ j1, j ≤ j1 ∧ ∀ j', j1 ≤ j' → ¬ Blocked (x.ρ j') t := by
  have hr := H.reach
  have hp : ∀ a, j ≤ a → (x.ρ a).pc t = .wPdWait k := fun a ha => by rw [hst.pc_ge ha]; exact hpk
  have hsl : ∀ a, j ≤ a → inSleep ((x.ρ a).pc t) = true := fun a ha => by rw [hp a ha]; rfl
  have hready : ∀ d, ((x.ρ (j + d)).fr t).recs[i]? = some r ∧ becameReady (x.ρ (j + d)) t i r := by
    intro d
    induction d with
    | zero => exact ⟨hrec, hb⟩
    | succ d ih => exact ready_step x hr t (j + d) (hsl _ (by omega)) (hsl (j + d + 1) (by omega)) ih.1 ih.2
  have hrdy : ∀ a, j ≤ a → ((x.ρ a).fr t).recs[i]? = some r ∧ becameReady (x.ρ a) t i r := fun a ha => by
    obtain ⟨d, rfl⟩ : ∃ d, a = j + d := ⟨a - j, by omega⟩; exact hready d
  have hrecs : ∀ a a', j ≤ a → a ≤ a' → ((x.ρ a').fr t).recs = ((x.ρ a).fr t).recs := fun a a' h1 h2 => by
    rw [frSame_recs (hst.fr_ge (by omega)), frSame_recs (hst.fr_ge h1)]
  have hmin : ∀ a a', j ≤ a → a ≤ a' → ((x.ρ a').fr t).min = ((x.ρ a).fr t).min := fun a a' h1 h2 => by
    rw [frSame_min (hst.fr_ge (by omega)), frSame_min (hst.fr_ge h1)]
  -- a token, or the deadline of the P has passed: not blocked any more
  have good_forever : ∀ a, j ≤ a → (0 < (x.ρ a).sem k ∨ expiredB ((x.ρ a).fr t).min (x.ρ a).now = true) →
      ∀ a', a ≤ a' → ¬ Blocked (x.ρ a') t := by
    intro a ha hg a' ha' hbl
    rcases hbl with ⟨k', hpk', hsem, hexp⟩ | ⟨o, ho, _⟩ | ⟨k', r', hpk', _, _⟩
    · rw [hp a' (by omega)] at hpk'; cases hpk'
      rcases hg with hg | hg
      · have := token_stays x hr t k a (fun a'' h => hp a'' (by omega)) hg a' ha'
        omega
      · rw [hmin a a' ha ha'] at hexp
        rw [expiredB_mono (x.now_mono ha') hg] at hexp; cases hexp
    · rw [hp a' (by omega)] at ho; cases ho
    · rw [hp a' (by omega)] at hpk'; cases hpk'
  suffices hex : ∃ a, j ≤ a ∧ (0 < (x.ρ a).sem k ∨ expiredB ((x.ρ a).fr t).min (x.ρ a).now = true) by
    obtain ⟨a, ha, hg⟩ := hex
    exact ⟨a, ha, good_forever a ha hg⟩
  apply Classical.byContradiction
  intro hng
  have tok_good : ∀ a, j ≤ a → ∀ b, Tok (x.ρ a) b t → False := by
    intro a ha b ⟨k', hk', hpos, _⟩
    have := (sb_of_reachable (x.reach hr a)).b3 t k (hp a ha)
    rw [this] at hk'; cases hk'
    exact hng ⟨a, ha, .inl hpos⟩
  have infl_good : ∀ a, j ≤ a → InFlight (x.ρ a) t → False := by
    intro a ha ⟨u, r', hpost, hmem⟩
    obtain ⟨a', ha', hpos⟩ := inflight_posts x H t k a u r' (fun a'' h => hp a'' (by omega))
      (fun a'' h => by rw [hrecs a a'' ha h]; exact hmem) hpost
    exact hng ⟨a', by omega, .inl hpos⟩
  -- so the record is still queued on the ready object, whose mutex is held: at all times
  have hD : ∀ a, j ≤ a → ∃ o, ((x.ρ a).fr t).objs[i]? = some o ∧ ((x.ρ a).obj o).lock ≠ none := by
    intro a ha
    obtain ⟨evs, hrun⟩ := x.reach hr a
    rcases C11_no_oversleep hrun (.inr ⟨k, hp a ha⟩) (hrdy a ha).1 (hrdy a ha).2 with h | h | h | h | h
    · exact (tok_good a ha _ h).elim
    · exact (infl_good a ha h).elim
    · obtain ⟨u, c, l, hwk, hpd⟩ := h
      obtain ⟨a', ha', hw⟩ := pend_clears x H a u c l r hwk hpd
      obtain ⟨evs', hrun'⟩ := x.reach hr a'
      rcases C11_cleared_accounted hrun' (.inr ⟨k, hp a' (by omega)⟩) (hrdy a' (by omega)).1 hw with h' | h'
      · exact (tok_good a' (by omega) _ h').elim
      · exact (infl_good a' (by omega) h').elim
    · obtain ⟨o, u, ho, _, _, _, hlk⟩ := h
      exact ⟨o, ho, by rw [hlk]; simp⟩
    · exact (hng ⟨a, ha, .inr h⟩).elim
  obtain ⟨o, ho, _⟩ := hD j (Nat.le_refl _)
  obtain ⟨j', hj', hfree⟩ := lock_free_again x hr H.weak H.foreign o j
  obtain ⟨o', ho', hlk'⟩ := hD j' hj'
  rw [frSame_objs (hst.fr_ge hj'), ho] at ho'
  cases ho'
  exact hlk' hfree

/-- the proviso of case (b): at some time while the call is at its P one of its objects is ready for it -/
def ReadyAtP (x : Exec s0) (t : Tid) (i : Nat) : Prop :=
  ∃ i' k r, i ≤ i' ∧ (∀ j, i ≤ j → j ≤ i' → (x.ρ j).pc t ≠ .idle) ∧ atP (x.ρ i') t
    ∧ ((x.ρ i').fr t).recs[k]? = some r ∧ becameReady (x.ρ i') t k r

/-- An nsync_wait_n call returns if its abs_deadline is finite or one of its objects becomes ready for it. -/
theorem wait_returns (x : Exec s0) (H : FairHyps x) (hclk : ClockAdvances x) (t : Tid) (hfw : FiniteWakeups x t) (i : Nat)
    (hin : inCall ((x.ρ i).pc t) = true)
    (hprov : (∃ d : Int, ((x.ρ i).fr t).dl = some d) ∨ ReadyAtP x t i) :
    ∃ j, i ≤ j ∧ (x.ρ j).pc t = .idle := by
  rcases hprov with ⟨d, hd⟩ | ⟨i', k0, r, hi', hni', hatp, hrec, hb⟩
  · exact wait_returns_timed x H hclk t hfw i hin d hd
  · refine wait_returns_core x H t hfw i hin (fun j hj hni hst k hpk => ?_)
    have hr := H.reach
    -- look at the later of the two times
    have hsl' : inSleep ((x.ρ i').pc t) = true := inSleep_of_atP hatp
    have hpa : ∀ a, j ≤ a → (x.ρ a).pc t = .wPdWait k := fun a ha => by rw [hst.pc_ge ha]; exact hpk
    by_cases hle : i' ≤ j
    · -- the readiness has persisted from i' to j
      obtain ⟨d, rfl⟩ : ∃ d, j = i' + d := ⟨j - i', by omega⟩
      have hbetween := inSleep_between x hr t i' d (fun m h1 h2 => hni m (by omega) h2) hsl' (by rw [hpk]; rfl)
      have hready : ∀ e, e ≤ d → ((x.ρ (i' + e)).fr t).recs[k0]? = some r ∧ becameReady (x.ρ (i' + e)) t k0 r := by
        intro e
        induction e with
        | zero => intro _; exact ⟨hrec, hb⟩
        | succ e ih =>
          intro he
          have ih := ih (by omega)
          exact ready_step x hr t (i' + e) (hbetween _ (by omega) (by omega)) (hbetween (i' + e + 1) (by omega) (by omega))
            ih.1 ih.2
      exact ready_unblocks x H t (i' + d) k k0 r hst hpk (hready d (Nat.le_refl _)).1 (hready d (Nat.le_refl _)).2
    · -- the sleeper is stuck before i': at i' it is still there
      have hst' : Still x t i' := fun j' hj' => hst j' (by omega)
      obtain ⟨j1, hj1, hnb⟩ := ready_unblocks x H t i' k k0 r hst' (hpa i' (by omega)) hrec hb
      exact ⟨j1, by omega, hnb⟩

/-- … and without abs_deadline it returns the index of a ready object, not `count`. -/
theorem wait_index_ready (x : Exec s0) (H : FairHyps x) (hclk : ClockAdvances x) (t : Tid) (hfw : FiniteWakeups x t) (i : Nat)
    (hin : inCall ((x.ρ i).pc t) = true) (hdl : ((x.ρ i).fr t).dl = none) (hrdy : ReadyAtP x t i) :
    ∃ j r nested, i ≤ j ∧ x.σ j = some (.thr t (.retWaitN r nested)) ∧ (x.ρ (j + 1)).pc t = .idle
      ∧ r < ((x.ρ j).fr t).count ∧ readyFor (x.ρ j) t r := by
  have hr := H.reach
  obtain ⟨j, hj, hidle⟩ := wait_returns x H hclk t hfw i hin (.inr hrdy)
  obtain ⟨k, r, nested, hk, _, hall, hev, hk1⟩ := returns_by_ret x hr t i j hj hin hidle
  have hstep := x.next_some hev
  obtain ⟨d, rfl⟩ : ∃ d, k = i + d := ⟨k - i, by omega⟩
  have hdlk : ((x.ρ (i + d)).fr t).dl = none := by
    rw [dl_keep x hr t i d (fun m h1 h2 hm => by have := hall m h1 h2; rw [hm] at this; cases this)]; exact hdl
  have hrk := x.reach hr (i + d)
  obtain ⟨hpc, hl, _⟩ := ret_facts hrk hstep
  have hle : r ≤ ((x.ρ (i + d)).fr t).count := by
    rw [hl.1]
    rcases hl.2 with ⟨_, h, _⟩ | ⟨hpost, _⟩
    · exact h
    · exact hpost.rdy.le
  have hne : r ≠ ((x.ρ (i + d)).fr t).count := by
    intro heq
    rcases C11_timeout hrk hstep heq with ⟨h, _⟩ | ⟨h, _⟩
    · rw [hdlk] at h; cases h
    · rw [hdlk] at h; cases h
  have hlt : r < ((x.ρ (i + d)).fr t).count := Nat.lt_of_le_of_ne hle hne
  exact ⟨i + d, r, nested, hk, hev, hk1, hlt, C11_index_ready hrk hstep hlt⟩

/-- The only way for an nsync_wait_n call not to return is to sleep in the P of wait.c:78 for ever, blocked again and
    again (no deadline / readiness proviso: a call that finds an object ready before it sleeps returns). -/
theorem wait_returns_or_sleeps (x : Exec s0) (H : FairHyps x) (t : Tid) (hfw : FiniteWakeups x t) (i : Nat)
    (hin : inCall ((x.ρ i).pc t) = true) :
    (∃ j, i ≤ j ∧ (x.ρ j).pc t = .idle)
    ∨ (∃ j k, i ≤ j ∧ Still x t j ∧ (x.ρ j).pc t = .wPdWait k ∧ ∀ j1, j ≤ j1 → ∃ j', j1 ≤ j' ∧ Blocked (x.ρ j') t) := by
  by_cases h : ∃ j k, i ≤ j ∧ Still x t j ∧ (x.ρ j).pc t = .wPdWait k ∧ ∀ j1, j ≤ j1 → ∃ j', j1 ≤ j' ∧ Blocked (x.ρ j') t
  · exact .inr h
  · left
    refine wait_returns_core x H t hfw i hin (fun j hj _ hst k hpk => ?_)
    apply Classical.byContradiction
    intro hno
    refine h ⟨j, k, hj, hst, hpk, fun j1 hj1 => ?_⟩
    apply Classical.byContradiction
    intro hnb
    exact hno ⟨j1, hj1, fun j' hj' hbl => hnb ⟨j', hj', hbl⟩⟩

end WaitN
