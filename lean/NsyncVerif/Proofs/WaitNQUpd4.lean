/-
  Proofs/WaitNQUpd4.lean — `QI` under the three steps of a cv signaller that touch wake lists:
  unlink under the spinlock, `waiting := 0`, and the post.
-/
import NsyncVerif.Proofs.WaitNQUpd3

set_option linter.unusedSimpArgs false
set_option linter.unusedVariables false

namespace WaitN

theorem pend_none (l : List Rid) : pend none l = l := rfl
theorem pend_some (r : Rid) (l : List Rid) : pend (some r) l = l.tail := rfl

/-- the signaller unlinks `l` from the front of the queue of cv c and releases the spinlock;
    its program counter enters wake_waiters with the private list `l` (l ≠ []) -/
theorem qi_unlink {s : State} {c : Nat} {t : Tid} {l q : List Rid} {ob : Obj} {p : PC} (h : QI s)
    (hsplit : (s.obj (.cv c)).queue = l ++ q) (hq : ob.queue = q) (hk : ob.known = (s.obj (.cv c)).known)
    (hwk0 : wk (s.pc t) = none) (hpost : s.post t = none) (hmc : s.mc t = .none)
    (hp : wk p = some (c, l)) (hop : opn p = true) :
    QI ((s.setObj (.cv c) ob).setPc t p) := by
  have hnd := h.q2 (.cv c)
  rw [hsplit] at hnd
  have hl_in : ∀ r ∈ l, r ∈ (s.obj (.cv c)).queue := fun r hr => by rw [hsplit]; exact List.mem_append_left _ hr
  have hq_in : ∀ r ∈ q, r ∈ (s.obj (.cv c)).queue := fun r hr => by rw [hsplit]; exact List.mem_append_right _ hr
  have hdisj : ∀ r, r ∈ l → r ∉ q := fun r h1 h2 => (List.nodup_append.1 hnd).2.2 r h1 r h2 rfl
  have hwku : ∀ u, u ≠ t → wk (((s.setObj (.cv c) ob).setPc t p).pc u) = wk (s.pc u) := by
    intro u hu; simp [hu]
  constructor
  · intro o r hr
    simp only [setPc_obj, setObj_obj, setPc_rcd, setObj_rcd] at hr ⊢
    by_cases ho : o = .cv c
    · subst ho; simp only [if_true] at hr; rw [hq] at hr; exact h.q1 _ r (hq_in r hr)
    · simp only [ho, if_false] at hr; exact h.q1 o r hr
  · intro o
    simp only [setPc_obj, setObj_obj]
    split
    · rw [hq]; exact (List.nodup_append.1 hnd).2.1
    · exact h.q2 o
  · intro r h1 h2
    simp only [setPc_rcd, setObj_rcd, setPc_obj, setObj_obj, setPc_pc, setPc_post, setObj_post] at h1 h2 ⊢
    rcases h.q3 r h1 h2 with h3 | ⟨u, c', l', h3, h4⟩
    · by_cases ho : (s.rcd r).obj = .cv c
      · rw [ho, hsplit] at h3
        rcases List.mem_append.1 h3 with h3 | h3
        · right; exact ⟨t, c, l, by simp [hp], by simp [hpost, pend_none, h3]⟩
        · left; simp only [ho, if_true]; rw [hq]; exact h3
      · left; simp only [ho, if_false]; exact h3
    · right
      have hu : u ≠ t := fun hh => by subst hh; rw [hwk0] at h3; cases h3
      exact ⟨u, c', l', by simp [hu, h3], h4⟩
  · intro u c' l' hw
    simp only [setPc_pc, setPc_post, setObj_post, setPc_rcd, setObj_rcd, setPc_obj, setObj_obj] at hw ⊢
    by_cases hu : u = t
    · subst hu
      simp only [if_true] at hw
      rw [hp] at hw; cases hw
      refine ⟨(List.nodup_append.1 hnd).1, fun r0 hr0 => (by rw [hpost] at hr0; cases hr0), ?_⟩
      intro r hr
      rw [hpost, pend_none] at hr
      have := h.q1 _ r (hl_in r hr)
      refine ⟨this.1, this.2.1, this.2.2.1, this.2.2.2, fun o => ?_⟩
      split
      · rw [hq]; exact hdisj r hr
      · rename_i ho; intro hm; exact ho ((h.q1 o r hm).2.1.symm.trans this.2.1)
    · simp only [hu, if_false] at hw
      obtain ⟨a1, a2, a3⟩ := h.q4 u c' l' hw
      refine ⟨a1, a2, fun r hr => ?_⟩
      obtain ⟨b1, b2, b3, b4, b5⟩ := a3 r hr
      refine ⟨b1, b2, b3, b4, fun o => ?_⟩
      split
      · rw [hq]; intro hm; exact b5 _ (hq_in r hm)
      · exact b5 o
  · intro u u' c1 l1 c2 l2 hne h1 h2 r hr
    simp only [setPc_pc, setPc_post, setObj_post] at h1 h2 hr ⊢
    by_cases hu : u = t
    · subst hu
      have hu' : u' ≠ u := fun hh => hne hh.symm
      simp only [if_true] at h1; rw [hp] at h1; cases h1
      simp only [hu', if_false] at h2
      rw [hpost, pend_none] at hr
      intro hm
      exact ((h.q4 u' c2 l2 h2).2.2 r hm).2.2.2.2 _ (hl_in r hr)
    · simp only [hu, if_false] at h1
      by_cases hu' : u' = t
      · subst hu'
        simp only [if_true] at h2; rw [hp] at h2; cases h2
        rw [hpost, pend_none]
        intro hm
        exact ((h.q4 u c1 l1 h1).2.2 r hr).2.2.2.2 _ (hl_in r hm)
      · simp only [hu', if_false] at h2
        exact h.q4d u u' c1 l1 c2 l2 hne h1 h2 r hr
  · intro u r hpo
    simp only [setPc_post, setObj_post, setPc_pc, setPc_rcd, setObj_rcd, setPc_obj, setObj_obj] at hpo ⊢
    have hu : u ≠ t := fun hh => by subst hh; rw [hpost] at hpo; cases hpo
    simp only [hu, if_false]
    rcases h.q5 u r hpo with h1 | ⟨a1, a2, a3, a4, a5⟩
    · exact .inl h1
    · right; refine ⟨a1, a2, a3, ?_, a5⟩
      split
      · rename_i ho; rw [ho] at a3; cases a3
      · exact a4
  · intro u hpo
    simp only [setPc_post, setObj_post, setPc_mc, setObj_mc, setPc_pc] at hpo ⊢
    have hu : u ≠ t := fun hh => by subst hh; exact hpo hpost
    simp only [hu, if_false]; exact h.q6 u hpo
  · intro o hcv
    simp only [setPc_obj, setObj_obj]
    split
    · rename_i ho; subst ho; cases hcv
    · exact h.q7 o hcv
  · intro n
    simp only [setPc_obj, setObj_obj]
    split
    · rename_i ho; cases ho
    · exact h.q8 n
  · intro o
    simp only [setPc_obj, setObj_obj]
    split
    · rename_i ho; subst ho; intro hkn; rw [hk, h.q10 c] at hkn; cases hkn
    · exact h.q9 o
  · intro c'
    simp only [setPc_obj, setObj_obj]
    split
    · rename_i ho; cases ho; rw [hk]; exact h.q10 c
    · exact h.q10 c'
  · intro u hm
    simp only [setPc_mc, setObj_mc, setPc_pc] at hm ⊢
    have hu : u ≠ t := fun hh => by subst hh; exact hm hmc
    simp only [hu, if_false]; exact h.q11 u hm

/-- wake_waiters: `ATM_STORE_REL (&p_nw->waiting, 0)` on the head of the private list -/
theorem qi_clear {s : State} {c : Nat} {t : Tid} {r : Rid} {rest : List Rid} (h : QI s)
    (hwk : wk (s.pc t) = some (c, r :: rest)) (hpost : s.post t = none) :
    QI ((s.setRec r { s.rcd r with waiting := false }).setPost t (some r)) := by
  obtain ⟨hnd, _, hp4⟩ := h.q4 t c (r :: rest) hwk
  rw [hpost, pend_none] at hp4
  have hr := hp4 r (by simp)
  have hrrest : r ∉ rest := (List.nodup_cons.1 hnd).1
  have hmc := h.q11 t
  have hopn : opn (s.pc t) = true := by
    cases hp : s.pc t <;> simp [hp, wk] at hwk <;> first | rfl | (rename_i st; cases st <;> simp at hwk <;> rfl)
  have hmct : s.mc t = .none := by
    cases hm : s.mc t with
    | none => rfl
    | locking o => have := (hmc (by rw [hm]; simp)).2; rw [hwk] at this; cases this
    | unlocking => have := (hmc (by rw [hm]; simp)).2; rw [hwk] at this; cases this
  constructor
  · intro o r' hr'
    have hne : r' ≠ r := fun hh => by subst hh; exact hr.2.2.2.2 o hr'
    simp only [setPost_rcd, setRec_rcd, hne, if_false]; exact h.q1 o r' hr'
  · exact h.q2
  · intro r' h1 h2
    simp only [setPost_rcd, setRec_rcd, setPost_obj, setRec_obj, setPost_pc, setRec_pc, setPost_post] at h1 h2 ⊢
    by_cases hrr : r' = r
    · subst hrr; simp at h2
    · simp only [hrr, if_false] at h1 h2 ⊢
      rcases h.q3 r' h1 h2 with h3 | ⟨u, c', l', h3, h4⟩
      · exact .inl h3
      · right
        refine ⟨u, c', l', h3, ?_⟩
        by_cases hu : u = t
        · subst hu
          rw [hwk] at h3; cases h3
          rw [hpost, pend_none] at h4
          simp only [if_true, pend_some, List.tail_cons]
          rcases List.mem_cons.1 h4 with h4 | h4
          · exact absurd h4 hrr
          · exact h4
        · simpa [hu] using h4
  · intro u c' l' hw
    simp only [setPost_pc, setRec_pc, setPost_post, setPost_rcd, setRec_rcd, setPost_obj, setRec_obj] at hw ⊢
    by_cases hu : u = t
    · subst hu
      rw [hwk] at hw; cases hw
      simp only [if_true, pend_some, List.tail_cons]
      refine ⟨hnd, fun r0 hr0 => (by cases hr0; rfl), fun r' hr' => ?_⟩
      have hne : r' ≠ r := fun hh => by subst hh; exact hrrest hr'
      simp only [hne, if_false]
      exact hp4 r' (List.mem_cons_of_mem _ hr')
    · simp only [hu, if_false]
      obtain ⟨a1, a2, a3⟩ := h.q4 u c' l' hw
      refine ⟨a1, a2, fun r' hr' => ?_⟩
      have hne : r' ≠ r := by
        intro hh; subst hh
        exact h.q4d u t c' l' c (r' :: rest) hu hw hwk r' hr' (by rw [hpost, pend_none]; simp)
      simp only [hne, if_false]; exact a3 r' hr'
  · intro u u' c1 l1 c2 l2 hne h1 h2 r' hr'
    simp only [setPost_pc, setRec_pc, setPost_post] at h1 h2 hr' ⊢
    have sub : ∀ x, x ∈ pend (if t = t then some r else s.post t) (r :: rest) → x ∈ pend (s.post t) (r :: rest) := by
      intro x hx; simp only [if_true, pend_some, List.tail_cons] at hx; rw [hpost, pend_none]; exact List.mem_cons_of_mem _ hx
    by_cases hu : u = t
    · subst hu
      have hu' : u' ≠ u := fun hh => hne hh.symm
      rw [hwk] at h1; cases h1
      simp only [hu', if_false]
      exact h.q4d u u' _ _ _ _ hne hwk h2 r' (sub r' hr')
    · simp only [hu, if_false] at hr'
      by_cases hu' : u' = t
      · subst hu'
        rw [hwk] at h2; cases h2
        intro hm
        exact h.q4d u u' _ _ _ _ hne h1 hwk r' hr' (sub r' hm)
      · simp only [hu', if_false]
        exact h.q4d u u' c1 l1 c2 l2 hne h1 h2 r' hr'
  · intro u r' hpo
    simp only [setPost_post, setPost_pc, setRec_pc, setPost_rcd, setRec_rcd, setPost_obj, setRec_obj] at hpo ⊢
    by_cases hu : u = t
    · subst hu; left; rw [hwk]; rfl
    · simp only [hu, if_false] at hpo
      rcases h.q5 u r' hpo with h1 | ⟨a1, a2, a3, a4, a5⟩
      · exact .inl h1
      · right
        have hne : r' ≠ r := fun hh => by subst hh; rw [hr.2.1] at a3; cases a3
        simp only [hne, if_false]; exact ⟨a1, a2, a3, a4, a5⟩
  · intro u hpo
    simp only [setPost_post, setPost_mc, setRec_mc, setPost_pc, setRec_pc] at hpo ⊢
    by_cases hu : u = t
    · subst hu; exact ⟨hmct, hopn⟩
    · simp only [hu, if_false] at hpo; exact h.q6 u hpo
  · exact h.q7
  · exact h.q8
  · exact h.q9
  · exact h.q10
  · exact h.q11

/-- wake_waiters: the post for the head of the private list; the signaller moves on -/
theorem qi_sgPost {s : State} {c : Nat} {t : Tid} {r0 r : Rid} {rest : List Rid} {p : PC} (h : QI s)
    (hwk : wk (s.pc t) = some (c, r0 :: rest)) (hpost : s.post t = some r)
    (hp : wk p = if rest = [] then none else some (c, rest)) (hop : rest ≠ [] → opn p = true) :
    QI ((s.setPost t none).setPc t p) := by
  obtain ⟨hnd, hhead, hp4⟩ := h.q4 t c (r0 :: rest) hwk
  rw [hpost, pend_some, List.tail_cons] at hp4
  have hmct : s.mc t = .none := (h.q6 t (by rw [hpost]; simp)).1
  constructor
  · exact h.q1
  · exact h.q2
  · intro r' h1 h2
    simp only [setPc_rcd, setPost_rcd, setPc_obj, setPost_obj, setPc_pc, setPost_pc, setPc_post, setPost_post] at h1 h2 ⊢
    rcases h.q3 r' h1 h2 with h3 | ⟨u, c', l', h3, h4⟩
    · exact .inl h3
    · right
      by_cases hu : u = t
      · subst hu
        rw [hwk] at h3; cases h3
        rw [hpost, pend_some, List.tail_cons] at h4
        have hne : rest ≠ [] := fun h0 => by rw [h0] at h4; cases h4
        exact ⟨u, c, rest, by simp [hp, hne], by simp [pend_none, h4]⟩
      · exact ⟨u, c', l', by simp [hu, h3], by simpa [hu] using h4⟩
  · intro u c' l' hw
    simp only [setPc_pc, setPost_pc, setPc_post, setPost_post, setPc_rcd, setPost_rcd, setPc_obj, setPost_obj] at hw ⊢
    by_cases hu : u = t
    · subst hu
      simp only [if_true] at hw ⊢
      rw [hp] at hw
      split at hw
      · cases hw
      · cases hw
        refine ⟨(List.nodup_cons.1 hnd).2, fun r1 hr1 => (by cases hr1), ?_⟩
        rw [pend_none]; exact hp4
    · simp only [hu, if_false] at hw ⊢
      exact h.q4 u c' l' hw
  · intro u u' c1 l1 c2 l2 hne h1 h2 r' hr'
    simp only [setPc_pc, setPost_pc, setPc_post, setPost_post] at h1 h2 hr' ⊢
    have sub : ∀ {cc ll}, wk p = some (cc, ll) → ∀ x, x ∈ pend none ll → x ∈ pend (s.post t) (r0 :: rest) := by
      intro cc ll hw x hx
      rw [hp] at hw
      split at hw
      · cases hw
      · cases hw; rw [hpost, pend_some, List.tail_cons]; exact hx
    by_cases hu : u = t
    · subst hu
      have hu' : u' ≠ u := fun hh => hne hh.symm
      simp only [if_true] at h1 hr'
      simp only [hu', if_false] at h2 ⊢
      exact h.q4d u u' c (r0 :: rest) c2 l2 hne hwk h2 r' (sub h1 r' hr')
    · simp only [hu, if_false] at h1 hr'
      by_cases hu' : u' = t
      · subst hu'
        simp only [if_true] at h2 ⊢
        intro hm
        exact h.q4d u u' c1 l1 c (r0 :: rest) hne h1 hwk r' hr' (sub h2 r' hm)
      · simp only [hu', if_false] at h2 ⊢
        exact h.q4d u u' c1 l1 c2 l2 hne h1 h2 r' hr'
  · intro u r' hpo
    simp only [setPc_post, setPost_post, setPc_pc, setPost_pc, setPc_rcd, setPost_rcd, setPc_obj, setPost_obj] at hpo ⊢
    by_cases hu : u = t
    · subst hu; simp at hpo
    · simp only [hu, if_false] at hpo ⊢; exact h.q5 u r' hpo
  · intro u hpo
    simp only [setPc_post, setPost_post, setPc_mc, setPost_mc, setPc_pc, setPost_pc] at hpo ⊢
    by_cases hu : u = t
    · subst hu; simp at hpo
    · simp only [hu, if_false] at hpo ⊢; exact h.q6 u hpo
  · exact h.q7
  · exact h.q8
  · exact h.q9
  · exact h.q10
  · intro u hm
    simp only [setPc_mc, setPost_mc, setPc_pc, setPost_pc] at hm ⊢
    have hu : u ≠ t := fun hh => by subst hh; exact hm hmct
    simp only [hu, if_false]; exact h.q11 u hm

end WaitN
