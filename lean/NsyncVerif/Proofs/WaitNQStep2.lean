/-
  Proofs/WaitNQStep2.lean — `QI ∧ CF` across the caller's own steps, part 2:
  counter_ready_time, cv_ready_time, nsync_note_notified_deadline_.
-/
import NsyncVerif.Proofs.WaitNNodup

set_option linter.unusedSimpArgs false
set_option linter.unusedVariables false

namespace WaitN

theorem qcf_dflt {s s' : State} {t : Tid} {e : Ev} (c : QCtx s t) (h : dflt s t e = .ok s') : QI s' ∧ CF s' t :=
  ⟨qi_dflt c.qi h, cf_dflt c.cf h⟩

/-- frees = 0 and the records fit, at a program point of the poll / loop phases -/
theorem len_of_linv {p : PC} {f : Frame} (hl : LInv p f) (hc : inCall p = true) (hnp : PostPc p = false) :
    f.frees = 0 ∧ f.recs.length ≤ f.count := by
  cases p with
  | idle => simp [inCall] at hc
  | sg c bc st => simp [inCall] at hc
  | stuck => exact hl.elim
  | wCtrRT u i l => cases u <;> simp only [LInv] at hl <;> first | exact ⟨hl.1.frees, by rw [hl.1.recs]; exact Nat.zero_le _⟩ | exact ⟨hl.1.frees, hl.1.len⟩ | exact hl.elim
  | wND u i st => cases u <;> simp only [LInv] at hl <;> first | exact ⟨hl.1.frees, by rw [hl.1.recs]; exact Nat.zero_le _⟩ | exact ⟨hl.1.frees, hl.1.len⟩
  | wAlloc => exact ⟨hl.1.frees, by rw [hl.1.recs]; exact Nat.zero_le _⟩
  | wRelock => simp [PostPc] at hnp
  | wRet r => simp [PostPc] at hnp
  | _ => simp only [LInv] at hl; exact ⟨hl.1.frees, hl.1.len⟩

/-- a move of the caller's program counter that changes nothing else; the new program point has the
    same lock / record roles as the old one -/
theorem qcf_move {s : State} {t : Tid} {p' : PC} (c : QCtx s t) (hnop : opn (s.pc t) = false) (hw1 : wk p' = none)
    (hh : holdsAt p' (s.fr t) = holdsAt (s.pc t) (s.fr t) ∨ holdsAt p' (s.fr t) = none)
    (hnf : isNfWake p' = false ∨ isNfWake p' = isNfWake (s.pc t))
    (hf : freshAt p' (s.fr t) = freshAt (s.pc t) (s.fr t) ∨ freshAt p' (s.fr t) = none)
    (hcl : clearedAt p' (s.fr t) = clearedAt (s.pc t) (s.fr t) ∨ clearedAt p' (s.fr t) = none)
    (he : enqTrueAt p' (s.fr t) = enqTrueAt (s.pc t) (s.fr t) ∨ enqTrueAt p' (s.fr t) = none)
    (hic : inCall p' = inCall (s.pc t)) (hdq : dqIdx p' (s.fr t) = dqIdx (s.pc t) (s.fr t))
    (hnw : isNfWake (s.pc t) = true → isNfWake p' = true ∨ holdsAt p' (s.fr t) = none) :
    QI (s.setPc t p') ∧ CF (s.setPc t p') t := by
  refine ⟨qi_setPc c.qi (wk_none_of_opn hnop) hw1 (post_none_of_pc c.qi hnop) (mc_none_of_pc c.qi hnop), ?_⟩
  constructor
  · intro o ho
    simp only [setPc_pc, setPc_fr, if_true, setPc_obj] at ho ⊢
    rcases hh with hh | hh
    · rw [hh] at ho
      obtain ⟨a1, a2⟩ := c.cf.holds o ho
      refine ⟨a1, fun hn => ?_⟩
      have : isNfWake (s.pc t) = false := by
        cases hx : isNfWake (s.pc t) with
        | false => rfl
        | true =>
          rcases hnw hx with h1 | h1
          · rw [h1] at hn; cases hn
          · rw [hh] at h1; rw [h1] at ho; cases ho
      exact a2 this
    · rw [hh] at ho; cases ho
  · intro r hr
    simp only [setPc_pc, setPc_fr, if_true, setPc_rcd] at hr ⊢
    rcases hf with hf | hf
    · rw [hf] at hr; exact c.cf.fresh r hr
    · rw [hf] at hr; cases hr
  · intro r hr
    simp only [setPc_pc, setPc_fr, if_true, setPc_rcd] at hr ⊢
    rcases hcl with hcl | hcl
    · rw [hcl] at hr; exact c.cf.cleared r hr
    · rw [hcl] at hr; cases hr
  · intro o ho
    simp only [setPc_pc, setPc_fr, if_true, setPc_obj] at ho ⊢
    rcases he with he | he
    · rw [he] at ho; exact c.cf.enqT o ho
    · rw [he] at ho; cases ho
  · intro hc hf0 k r hk
    simp only [setPc_pc, setPc_fr, if_true, setPc_rcd] at hc hf0 hk ⊢
    rw [hdq]; exact c.cf.dq (hic ▸ hc) hf0 k r hk

/-- the caller acquires the mutex of a note / counter -/
theorem qcf_acquire {s : State} {t : Tid} {o : ObjId} {p' : PC} (c : QCtx s t) (hnop : opn (s.pc t) = false)
    (hcv : o.isCv = false) (hn : (s.obj o).lock = none) (hk : (s.obj o).known = true) (hw1 : wk p' = none)
    (hh0 : holdsAt (s.pc t) (s.fr t) = none) (hh : holdsAt p' (s.fr t) = some o)
    (hf : freshAt p' (s.fr t) = freshAt (s.pc t) (s.fr t) ∨ freshAt p' (s.fr t) = none)
    (hcl : clearedAt p' (s.fr t) = none) (he : enqTrueAt p' (s.fr t) = none)
    (hic : inCall p' = inCall (s.pc t)) (hdq : dqIdx p' (s.fr t) = dqIdx (s.pc t) (s.fr t)) :
    QI ((s.setObj o { s.obj o with lock := some t }).setPc t p')
    ∧ CF ((s.setObj o { s.obj o with lock := some t }).setPc t p') t := by
  have hpost := post_none_of_pc c.qi hnop
  have hmc := mc_none_of_pc c.qi hnop
  have hw0 := wk_none_of_opn hnop
  refine ⟨qi_setPc (qi_lockAcq c.qi hn hk) hw0 hw1 hpost hmc, ?_⟩
  constructor
  · intro o' ho'
    simp only [setPc_pc, setPc_fr, setObj_fr, if_true, setPc_obj, setObj_obj] at ho' ⊢
    rw [hh] at ho'; cases ho'
    simp only [if_true]
    refine ⟨trivial, fun _ hw => ?_⟩
    have hw' : wakeable o (s.obj o) = true := by cases o <;> simpa [wakeable] using hw
    cases hq : (s.obj o).queue with
    | nil => rfl
    | cons a l => exact absurd hn (c.qi.q7 o hcv hw' (by rw [hq]; simp))
  · intro r hr
    simp only [setPc_pc, setPc_fr, setObj_fr, if_true, setPc_rcd, setObj_rcd] at hr ⊢
    rcases hf with hf | hf
    · rw [hf] at hr; exact c.cf.fresh r hr
    · rw [hf] at hr; cases hr
  · intro r hr
    simp only [setPc_pc, setPc_fr, setObj_fr, if_true] at hr
    rw [hcl] at hr; cases hr
  · intro o' ho'
    simp only [setPc_pc, setPc_fr, setObj_fr, if_true] at ho'
    rw [he] at ho'; cases ho'
  · intro hc hf0 k r hk'
    simp only [setPc_pc, setPc_fr, setObj_fr, if_true, setPc_rcd, setObj_rcd] at hc hf0 hk' ⊢
    rw [hdq]; exact c.cf.dq (hic ▸ hc) hf0 k r hk'

/-- the caller releases the mutex of the note / counter it holds -/
theorem qcf_release {s : State} {t : Tid} {o : ObjId} {p' : PC} (c : QCtx s t)
    (hpost : s.post t = none) (hmc : s.mc t = .none) (hw0 : wk (s.pc t) = none)
    (hh0 : holdsAt (s.pc t) (s.fr t) = some o) (hnw : isNfWake (s.pc t) = true → (s.obj o).queue = [])
    (hw1 : wk p' = none) (hh : holdsAt p' (s.fr t) = none)
    (hf : freshAt p' (s.fr t) = none) (hcl : clearedAt p' (s.fr t) = clearedAt (s.pc t) (s.fr t) ∨ clearedAt p' (s.fr t) = none)
    (he : enqTrueAt p' (s.fr t) = none)
    (hic : inCall p' = inCall (s.pc t)) (hdq : dqIdx p' (s.fr t) = dqIdx (s.pc t) (s.fr t)) :
    QI ((s.setObj o { s.obj o with lock := none }).setPc t p')
    ∧ CF ((s.setObj o { s.obj o with lock := none }).setPc t p') t := by
  obtain ⟨hl, h4⟩ := c.cf.holds o hh0
  have hrel : o.isCv = false → wakeable o (s.obj o) = true → (s.obj o).queue = [] := by
    intro _ hw
    cases hx : isNfWake (s.pc t) with
    | true => exact hnw hx
    | false => exact h4 hx hw
  refine ⟨qi_setPc (qi_lockRel c.qi hl hpost hrel) hw0 hw1 hpost hmc, ?_⟩
  constructor
  · intro o' ho'
    simp only [setPc_pc, setPc_fr, setObj_fr, if_true] at ho'
    rw [hh] at ho'; cases ho'
  · intro r hr
    simp only [setPc_pc, setPc_fr, setObj_fr, if_true] at hr
    rw [hf] at hr; cases hr
  · intro r hr
    simp only [setPc_pc, setPc_fr, setObj_fr, if_true, setPc_rcd, setObj_rcd] at hr ⊢
    rcases hcl with hcl | hcl
    · rw [hcl] at hr; exact c.cf.cleared r hr
    · rw [hcl] at hr; cases hr
  · intro o' ho'
    simp only [setPc_pc, setPc_fr, setObj_fr, if_true] at ho'
    rw [he] at ho'; cases ho'
  · intro hc hf0 k r hk'
    simp only [setPc_pc, setPc_fr, setObj_fr, if_true, setPc_rcd, setObj_rcd] at hc hf0 hk' ⊢
    rw [hdq]; exact c.cf.dq (hic ▸ hc) hf0 k r hk'

end WaitN
