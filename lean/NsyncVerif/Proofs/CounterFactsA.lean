/- Proofs/CounterFactsA.lean — per-step facts, one lemma per program point (generated, uniform script). -/
import NsyncVerif.Proofs.CounterFacts

namespace Counter

variable {s s' : State} {t : Tid} {e : Ev}

theorem facts_idle  (hi : Inv s) (hpc : s.pc t = .idle) (h : stepThr s t e = .ok s') : StepFacts s t e s' := by
  facts_open
  all_goals facts_tac

theorem facts_newMalloc {v} (hi : Inv s) (hpc : s.pc t = .newMalloc v) (h : stepThr s t e = .ok s') : StepFacts s t e s' := by
  facts_open
  all_goals facts_tac

theorem facts_newRet {ok} (hi : Inv s) (hpc : s.pc t = .newRet ok) (h : stepThr s t e = .ok s') : StepFacts s t e s' := by
  facts_open
  all_goals facts_tac

theorem facts_fLockCall  (hi : Inv s) (hpc : s.pc t = .fLockCall) (h : stepThr s t e = .ok s') : StepFacts s t e s' := by
  facts_open
  all_goals facts_tac

theorem facts_fLockWait  (hi : Inv s) (hpc : s.pc t = .fLockWait) (h : stepThr s t e = .ok s') : StepFacts s t e s' := by
  facts_open
  all_goals facts_tac

theorem facts_fHeld  (hi : Inv s) (hpc : s.pc t = .fHeld) (h : stepThr s t e = .ok s') : StepFacts s t e s' := by
  facts_open
  all_goals facts_tac

theorem facts_fUnlockWait  (hi : Inv s) (hpc : s.pc t = .fUnlockWait) (h : stepThr s t e = .ok s') : StepFacts s t e s' := by
  facts_open
  all_goals facts_tac

theorem facts_fFree  (hi : Inv s) (hpc : s.pc t = .fFree) (h : stepThr s t e = .ok s') : StepFacts s t e s' := by
  facts_open
  all_goals facts_tac

theorem facts_fRet  (hi : Inv s) (hpc : s.pc t = .fRet) (h : stepThr s t e = .ok s') : StepFacts s t e s' := by
  facts_open
  all_goals facts_tac

theorem facts_valLoad  (hi : Inv s) (hpc : s.pc t = .valLoad) (h : stepThr s t e = .ok s') : StepFacts s t e s' := by
  facts_open
  all_goals facts_tac

theorem facts_valRet {v} (hi : Inv s) (hpc : s.pc t = .valRet v) (h : stepThr s t e = .ok s') : StepFacts s t e s' := by
  facts_open
  all_goals facts_tac

theorem facts_azLoad  (hi : Inv s) (hpc : s.pc t = .azLoad) (h : stepThr s t e = .ok s') : StepFacts s t e s' := by
  facts_open
  all_goals facts_tac

theorem facts_azRet {v} (hi : Inv s) (hpc : s.pc t = .azRet v) (h : stepThr s t e = .ok s') : StepFacts s t e s' := by
  facts_open
  all_goals facts_tac

theorem facts_aLockCall {d} (hi : Inv s) (hpc : s.pc t = .aLockCall d) (h : stepThr s t e = .ok s') : StepFacts s t e s' := by
  facts_open
  all_goals facts_tac

theorem facts_aLockWait {d} (hi : Inv s) (hpc : s.pc t = .aLockWait d) (h : stepThr s t e = .ok s') : StepFacts s t e s' := by
  facts_open
  all_goals facts_tac

theorem facts_aLoad {d} (hi : Inv s) (hpc : s.pc t = .aLoad d) (h : stepThr s t e = .ok s') : StepFacts s t e s' := by
  facts_open
  all_goals facts_tac

theorem facts_aLoadWaited {d} {r} {idx} (hi : Inv s) (hpc : s.pc t = .aLoadWaited d r idx) (h : stepThr s t e = .ok s') : StepFacts s t e s' := by
  facts_open
  all_goals facts_tac

theorem facts_aHeld {d} {r} {idx} {wake} (hi : Inv s) (hpc : s.pc t = .aHeld d r idx wake) (h : stepThr s t e = .ok s') : StepFacts s t e s' := by
  facts_open
  all_goals facts_tac

theorem facts_aUnlockWait {d} {r} {idx} (hi : Inv s) (hpc : s.pc t = .aUnlockWait d r idx) (h : stepThr s t e = .ok s') : StepFacts s t e s' := by
  facts_open
  all_goals facts_tac

theorem facts_aRet {d} {r} {idx} (hi : Inv s) (hpc : s.pc t = .aRet d r idx) (h : stepThr s t e = .ok s') : StepFacts s t e s' := by
  facts_open
  all_goals facts_tac

end Counter
