/-
  Proofs/WaitNCvLife2.lean — the life cycle of a condition-variable record of an nsync_wait_n call
  (`ULife`, `ulife_of_reachable`):
    fresh (`unl = none`, `waiting = 0`, cv_enqueue has not stored yet)
    → queued (`unl = none`, `waiting = 1`)
    → unlinked by a signaller (`unl = waker`; `waiting` is cleared later, outside the spinlock)
      or removed by the owner's cv_dequeue (`unl = owner`, only inside that cv_dequeue call or after it).
  Consequence (`cvdeq_false_waker`): when cv_dequeue reads `waiting == 0` a signaller has unlinked the record.
-/
import NsyncVerif.Proofs.WaitNCvLife

set_option linter.unusedSimpArgs false
set_option linter.unusedVariables false

namespace WaitN

structure ULife (s : State) : Prop where
  fresh : ∀ (t : Tid) (k : Nat) (r : Rid) (c : Nat), inCall (s.pc t) = true → (s.fr t).frees = 0 → (s.fr t).recs[k]? = some r → (s.rcd r).obj = .cv c →
      (s.rcd r).unl = .none → (s.rcd r).waiting = true ∨ freshAt (s.pc t) (s.fr t) = some r
  owner : ∀ (t : Tid) (k : Nat) (r : Rid) (c : Nat), inCall (s.pc t) = true → (s.fr t).frees = 0 → (s.fr t).recs[k]? = some r → (s.rcd r).obj = .cv c →
      (s.rcd r).unl = .owner → (s.rcd r).deqd = true ∨ s.pc t = .wDeqCv k (.release true)
  pend : ∀ (u : Tid) (c : Nat) (l : List Rid) (r : Rid), wk (s.pc u) = some (c, l) → r ∈ pend (s.post u) l → (s.rcd r).unl = .waker

theorem ulife_init : ULife init :=
  ⟨fun t _ _ _ h => by simp [init, inCall] at h, fun t _ _ _ h => by simp [init, inCall] at h,
   fun u _ _ _ h => by simp [init, wk] at h⟩

/-- a record handled by note_enqueue / note_dequeue / counter_enqueue / counter_dequeue is not a cv record -/
theorem notcv_of_pc {s : State} {t : Tid} {r : Rid} {c j : Nat} (own : Own s) (hl : LInv (s.pc t) (s.fr t))
    (hpc : (∃ st, s.pc t = .wDeq j st) ∨ (∃ st, s.pc t = .wEnq j st)) (hr : (s.fr t).recs[j]? = some r)
    (ho : (s.rcd r).obj = .cv c) : False := by
  rcases hpc with ⟨st, hp⟩ | ⟨st, hp⟩
  · rw [hp] at hl
    have hidx := own.idx t j r (by rw [hp]; rfl) hl.1.frees hr
    rw [ho] at hidx
    rcases hl.2.2.2.1 with ⟨n, hn⟩ | ⟨k, hk⟩
    · rw [hn] at hidx; cases hidx
    · rw [hk] at hidx; cases hidx
  · rw [hp] at hl
    have hidx := own.idx t j r (by rw [hp]; rfl) hl.1.frees hr
    rw [ho] at hidx
    rcases hl.2.2.1 with ⟨n, hn⟩ | ⟨k, hk⟩
    · rw [hn] at hidx; cases hidx
    · rw [hk] at hidx; cases hidx

theorem owner_unique {s : State} (own : Own s) {v t : Tid} {r : Rid} (hcv : inCall (s.pc v) = true)
    (hfv : (s.fr v).frees = 0) (hrv : r ∈ (s.fr v).recs) (hct : inCall (s.pc t) = true) (hft : (s.fr t).frees = 0)
    (hrt : r ∈ (s.fr t).recs) : v = t := by
  rw [← (own.own v r hcv hfv hrv).2, (own.own t r hct hft hrt).2]

/-- a thread inside nsync_wait_n has no wake list after its step either -/
theorem wk_none_after {s s' : State} {v : Tid} {e : Ev} (hc : inCall (s.pc v) = true) (h : stepThr s v e = .ok s') :
    wk (s'.pc v) = none := by
  rcases quiet_or_structural h with q | st
  · exact wk_none_inCall (by rw [q.inCall v]; exact hc)
  · cases st with
    | call mu dl objs nested hpc hne hk hs => rw [hpc] at hc; cases hc
    | init i r oid hpc hoid hdead hi hs => subst hs; simp; split <;> rfl
    | free hpc hs => subst hs; simp; exact wk_none_inCall (inCall_relockNext _)
    | ret r hpc hs => subst hs; simp [wk]

theorem ulife_step {s s' : State} {v : Tid} {e : Ev} (hr : Reachable s) (hu : ULife s)
    (h : stepThr s v e = .ok s') : ULife s' := by
  have own := own_of_reachable hr
  have hl := linv_of_reachable hr
  have q := (qinv_of_reachable hr).qi
  have nodup := recsNodup_of_reachable hr
  have eff := receff_stepThr h
  have oth := others_stepThr h
  have qs := quiet_or_structural h
  -- `unl` of a record in some signaller's wake list stays `waker`
  have pend_keep : ∀ u c l r, wk (s.pc u) = some (c, l) → r ∈ pend (s.post u) l → (s'.rcd r).unl = .waker := by
    intro u c l r hw hm
    have h0 := hu.pend u c l r hw hm
    have h4 := (q.q4 u c l hw).2.2 r hm
    by_cases hch : (s'.rcd r).unl = (s.rcd r).unl
    · rw [hch]; exact h0
    · rcases eff.unl r hch with h1 | h1 | ⟨_, ⟨o, ho⟩, _⟩
      · exact h1
      · rw [h4.1] at h1; cases h1
      · exact absurd ho (h4.2.2.2.2 o)
  constructor
  · -- fresh
    intro t k r c hc' hf' hk' ho' hun'
    rcases qs with qq | st
    · have hc : inCall (s.pc t) = true := by rw [← qq.inCall t]; exact hc'
      have hf : (s.fr t).frees = 0 := by rw [← qq.frees t]; exact hf'
      have hk : (s.fr t).recs[k]? = some r := by rw [← qq.recs t]; exact hk'
      have ho : (s.rcd r).obj = .cv c := by rw [← qq.robj r]; exact ho'
      have hmem := List.mem_of_getElem? hk
      have hlive := (own.own t r hc hf hmem).1
      by_cases hun : (s.rcd r).unl = .none
      · rcases hu.fresh t k r c hc hf hk ho hun with hw | hfr
        · by_cases hw' : (s'.rcd r).waiting = true
          · exact .inl hw'
          · have hw' : (s'.rcd r).waiting = false := by cases hx : (s'.rcd r).waiting <;> simp_all
            rcases eff.wfalse r hw hw' with ⟨c1, l1, h1, h2, h3, _⟩ | h1 | ⟨j, _, _, h1⟩ | ⟨j, hp, hj⟩ | h1
            · have : r ∈ pend (s.post v) l1 := by
                rw [h2]; simp only [pend]
                cases l1 with
                | nil => simp at h3
                | cons a tl => simp at h3; subst h3; simp
              have := hu.pend v c1 l1 r h1 this
              rw [hun] at this; cases this
            · rw [hun'] at h1; cases h1
            · rw [hun'] at h1; cases h1
            · exfalso
              have hcv : inCall (s.pc v) = true := by
                rcases hp with ⟨st, hp⟩ | ⟨st, hp⟩ <;> (rw [hp]; rfl)
              have hfv : (s.fr v).frees = 0 := by
                have := hl v
                rcases hp with ⟨st, hp⟩ | ⟨st, hp⟩ <;> (rw [hp] at this; exact this.1.frees)
              have hvt := owner_unique own hcv hfv (List.mem_of_getElem? hj) hc hf hmem
              subst hvt
              exact notcv_of_pc own (hl v) hp hj ho
            · rw [hlive] at h1; cases h1
        · by_cases hvt : t = v
          · subst hvt
            cases hp : s.pc t with
            | wEnqCv i st =>
              rcases enqCv_fresh hp hfr h with h1 | h1
              · exact .inr h1
              · exact .inl h1
            | wEnq i st =>
              exfalso
              rw [hp] at hfr
              have hj : (s.fr t).recs[i]? = some r := by
                cases st <;> simp [freshAt] at hfr <;> exact hfr
              exact notcv_of_pc own (hl t) (.inr ⟨st, hp⟩) hj ho
            | _ => rw [hp] at hfr; simp [freshAt] at hfr
          · right; rw [(oth t hvt).1, freshAt_congr (qq.recs t)]; exact hfr
      · exfalso
        have hch : (s'.rcd r).unl ≠ (s.rcd r).unl := by rw [hun']; exact fun hx => hun hx.symm
        rcases eff.unl r hch with h1 | h1 | ⟨h1, _, _⟩
        · rw [hun'] at h1; cases h1
        · rw [hlive] at h1; cases h1
        · rw [hun'] at h1; cases h1
    · cases st with
      | call mu dl objs nested hpc hne hk hs =>
        subst hs
        by_cases hvt : t = v
        · subst hvt; simp [Frame.new, Frame.empty] at hk'
        · simp [hvt] at hc' hf' hk' ho' hun' ⊢
          exact hu.fresh t k r c hc' hf' hk' ho' hun'
      | init i r0 oid hpc hoid hdead hi hs =>
        subst hs
        by_cases hvt : t = v
        · subst hvt
          simp at hc' hf' hk' ho' hun' ⊢
          by_cases hr0 : r = r0
          · subst hr0
            simp at ho'
            subst ho'
            right
            simp [ObjId.isCv, freshAt, hi]
          · simp [hr0] at ho' hun' ⊢
            have hk : (s.fr t).recs[k]? = some r := by
              rw [List.getElem?_append] at hk'
              split at hk'
              · exact hk'
              · exfalso
                cases hx : k - (s.fr t).recs.length with
                | zero => rw [hx] at hk'; simp at hk'; exact hr0 hk'.symm
                | succ n => rw [hx] at hk'; simp at hk'
            have hfz : (s.fr t).frees = 0 := (hpc ▸ hl t : LInv (.wInit i) _).1.frees
            rcases hu.fresh t k r c (by rw [hpc]; rfl) hfz hk ho' hun' with hw | hfr
            · exact .inl hw
            · rw [hpc] at hfr; simp [freshAt] at hfr
        · simp [hvt] at hc' hf' hk' ⊢
          have hlive := (own.own t r hc' hf' (List.mem_of_getElem? hk')).1
          have hr0 : r ≠ r0 := fun hx => by rw [hx, hdead] at hlive; cases hlive
          simp [hr0] at ho' hun' ⊢
          exact hu.fresh t k r c hc' hf' hk' ho' hun'
      | free hpc hs =>
        subst hs
        by_cases hvt : t = v
        · subst hvt; simp at hf'
        · simp [hvt] at hc' hf' hk' ho' hun' ⊢
          exact hu.fresh t k r c hc' hf' hk' ho' hun'
      | ret r1 hpc hs =>
        subst hs
        by_cases hvt : t = v
        · subst hvt; simp [inCall] at hc'
        · simp [hvt] at hc' hf' hk' ho' hun' ⊢
          exact hu.fresh t k r c hc' hf' hk' ho' hun'
  · -- owner
    intro t k r c hc' hf' hk' ho' huo'
    rcases qs with qq | st
    · have hc : inCall (s.pc t) = true := by rw [← qq.inCall t]; exact hc'
      have hf : (s.fr t).frees = 0 := by rw [← qq.frees t]; exact hf'
      have hk : (s.fr t).recs[k]? = some r := by rw [← qq.recs t]; exact hk'
      have ho : (s.rcd r).obj = .cv c := by rw [← qq.robj r]; exact ho'
      have hmem := List.mem_of_getElem? hk
      have hlive := (own.own t r hc hf hmem).1
      by_cases huo : (s.rcd r).unl = .owner
      · rcases hu.owner t k r c hc hf hk ho huo with hd | hp
        · rcases eff.deqd r hd with h1 | h1
          · exact .inl h1
          · rw [hlive] at h1; cases h1
        · by_cases hvt : t = v
          · subst hvt
            rcases deqCv_release hp hk h with h1 | h1
            · exact .inr h1
            · exact .inl h1
          · exact .inr (by rw [(oth t hvt).1]; exact hp)
      · have hch : (s'.rcd r).unl ≠ (s.rcd r).unl := by rw [huo']; exact fun hx => huo hx.symm
        rcases eff.unl r hch with h1 | h1 | ⟨_, _, j, hp, hj⟩
        · rw [huo'] at h1; cases h1
        · rw [hlive] at h1; cases h1
        · have hcv : inCall (s.pc v) = true := by
            rcases hp with hp | ⟨st, hp⟩ <;> (rw [hp]; rfl)
          have hfv : (s.fr v).frees = 0 := by
            have := hl v
            rcases hp with hp | ⟨st, hp⟩ <;> (rw [hp] at this; exact this.1.frees)
          have hvt := owner_unique own hcv hfv (List.mem_of_getElem? hj) hc hf hmem
          subst hvt
          have hjk : j = k := idx_unique (nodup v) hj hk
          subst hjk
          rcases hp with hp | ⟨st, hp⟩
          · rcases deqCv_store hp h with h1 | h1
            · exact .inr h1
            · exfalso; rw [h1] at hch; exact hch rfl
          · exact (notcv_of_pc own (hl v) (.inl ⟨st, hp⟩) hj ho).elim
    · cases st with
      | call mu dl objs nested hpc hne hk hs =>
        subst hs
        by_cases hvt : t = v
        · subst hvt; simp [Frame.new, Frame.empty] at hk'
        · simp [hvt] at hc' hf' hk' ho' huo' ⊢
          simpa using hu.owner t k r c hc' hf' hk' ho' huo'
      | init i r0 oid hpc hoid hdead hi hs =>
        subst hs
        by_cases hvt : t = v
        · subst hvt
          simp at hc' hf' hk' ho' huo' ⊢
          by_cases hr0 : r = r0
          · subst hr0; simp at huo'
          · simp [hr0] at ho' huo' ⊢
            have hk : (s.fr t).recs[k]? = some r := by
              rw [List.getElem?_append] at hk'
              split at hk'
              · exact hk'
              · exfalso
                cases hx : k - (s.fr t).recs.length with
                | zero => rw [hx] at hk'; simp at hk'; exact hr0 hk'.symm
                | succ n => rw [hx] at hk'; simp at hk'
            have hfz : (s.fr t).frees = 0 := (hpc ▸ hl t : LInv (.wInit i) _).1.frees
            rcases hu.owner t k r c (by rw [hpc]; rfl) hfz hk ho' huo' with hd | hp
            · exact .inl hd
            · rw [hpc] at hp; cases hp
        · simp [hvt] at hc' hf' hk' ⊢
          have hlive := (own.own t r hc' hf' (List.mem_of_getElem? hk')).1
          have hr0 : r ≠ r0 := fun hx => by rw [hx, hdead] at hlive; cases hlive
          simp [hr0] at ho' huo' ⊢
          simpa using hu.owner t k r c hc' hf' hk' ho' huo'
      | free hpc hs =>
        subst hs
        by_cases hvt : t = v
        · subst hvt; simp at hf'
        · simp [hvt] at hc' hf' hk' ho' huo' ⊢
          simpa using hu.owner t k r c hc' hf' hk' ho' huo'
      | ret r1 hpc hs =>
        subst hs
        by_cases hvt : t = v
        · subst hvt; simp [inCall] at hc'
        · simp [hvt] at hc' hf' hk' ho' huo' ⊢
          simpa using hu.owner t k r c hc' hf' hk' ho' huo'
  · -- pend
    intro u c l r hw' hm'
    by_cases huv : u = v
    · subst huv
      cases hp : s.pc u with
      | sg c0 bc st =>
        rcases sg_pend hp h hw' hm' with ⟨l0, h1, h2⟩ | h1
        · exact pend_keep u c l0 r h1 h2
        · exact h1
      | idle => rw [wk_none_idle hp h] at hw'; cases hw'
      | stuck => simp [stepThr, hp] at h
      | _ => rw [wk_none_after (by rw [hp]; rfl) h] at hw'; cases hw'
    · obtain ⟨h1, _, h3, _⟩ := oth u huv
      rw [h1] at hw'; rw [h3] at hm'
      exact pend_keep u c l r hw' hm'

theorem ulife_of_reachable {s : State} (h : Reachable s) : ULife s := by
  refine reachable_induction (P := ULife) ulife_init ?_ h
  intro s s' e hr ih hs
  cases e with
  | tick ns =>
    simp only [step] at hs
    split at hs
    · cases hs; exact ⟨ih.fresh, ih.owner, ih.pend⟩
    · simp at hs
  | thr u ev =>
    simp only [step] at hs
    exact ulife_step hr ih hs

/-- when cv_dequeue has read `waiting == 0` (at its first load, or in its wait loop), or does not find the
    record on pcv->waiters, a signaller has unlinked the record -/
theorem cvdeq_waker {s : State} {t : Tid} {j : Nat} {r : Rid} (hr : Reachable s)
    (hk : (s.fr t).recs[j]? = some r)
    (hp : ((s.pc t = .wDeqCv j .load ∨ s.pc t = .wDeqCv j (.release false) ∨ s.pc t = .wDeqCv j .wspin)
            ∧ (s.rcd r).waiting = false)
        ∨ (s.pc t = .wDeqCv j .store ∧ (s.rcd r).waiting = true ∧ ∃ c, (s.fr t).objs[j]? = some (.cv c) ∧ r ∉ (s.obj (.cv c)).queue)) :
    (s.rcd r).unl = .waker := by
  have hu := ulife_of_reachable hr
  have own := own_of_reachable hr
  have hl := linv_of_reachable hr t
  have q := qinv_of_reachable hr
  rcases hp with ⟨hp, hw⟩ | ⟨hp, hw, c, hoc, hnq⟩
  · have hst : ∃ st, s.pc t = .wDeqCv j st ∧ st ≠ .release true ∧ (∀ sp, st ≠ .spin sp) ∧ st ≠ .store := by
      rcases hp with hp | hp | hp <;> exact ⟨_, hp, by simp, by simp, by simp⟩
    obtain ⟨st, hp, hne, hnsp, hnst⟩ := hst
    rw [hp] at hl
    have hc : inCall (s.pc t) = true := by rw [hp]; rfl
    have hf := hl.1.frees
    obtain ⟨c, hc0⟩ := hl.2.2.2.1
    have hidx := own.idx t j r hc hf hk
    rw [hc0] at hidx
    have ho : (s.rcd r).obj = .cv c := (Option.some.inj hidx).symm
    cases hun : (s.rcd r).unl with
    | waker => rfl
    | none =>
      rcases hu.fresh t j r c hc hf hk ho hun with h1 | h1
      · rw [hw] at h1; cases h1
      · rw [hp] at h1; simp [freshAt] at h1
    | owner =>
      rcases hu.owner t j r c hc hf hk ho hun with h1 | h1
      · have := ((q.cf t).dq hc hf j r hk).1 h1
        rw [hp] at this; simp [dqIdx] at this
      · rw [hp] at h1; cases h1; exact absurd rfl hne
  · rw [hp] at hl
    have hc : inCall (s.pc t) = true := by rw [hp]; rfl
    have hf := hl.1.frees
    have hlive := (own.own t r hc hf (List.mem_of_getElem? hk)).1
    have hidx := own.idx t j r hc hf hk
    rw [hoc] at hidx
    have ho : (s.rcd r).obj = .cv c := (Option.some.inj hidx).symm
    rcases q.qi.q3 r hlive hw with h1 | ⟨u, c1, l1, h1, h2⟩
    · rw [ho] at h1; exact absurd h1 hnq
    · exact hu.pend u c1 l1 r h1 h2

end WaitN
