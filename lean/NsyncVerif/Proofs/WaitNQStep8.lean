/-
  Proofs/WaitNQStep8.lean — `QI ∧ CF` across cv_dequeue and note_dequeue / counter_dequeue.
-/
import NsyncVerif.Proofs.WaitNQStep7

set_option linter.unusedSimpArgs false
set_option linter.unusedVariables false

namespace WaitN

/-- the dequeue marks after the call on record j is over -/
theorem dq_after {s : State} {t : Tid} {j : Nat} {r : Rid} {f : Rid → Rec} (hnd : (s.fr t).recs.Nodup)
    (hri : (s.fr t).recs[j]? = some r)
    (hold : ∀ (k : Nat) (r' : Rid), (s.fr t).recs[k]? = some r' → ((s.rcd r').deqd = true ↔ k < j))
    (hr : (f r).deqd = true) (hother : ∀ r', r' ≠ r → (f r').deqd = (s.rcd r').deqd) :
    ∀ (k : Nat) (r' : Rid), (s.fr t).recs[k]? = some r' → ((f r').deqd = true ↔ k < j + 1) := by
  intro k r' hk
  by_cases hrr : r' = r
  · subst hrr
    have := idx_unique hnd hk hri
    subst this
    simp [hr]
  · rw [hother r' hrr, hold k r' hk]
    have : k ≠ j := fun hh => by subst hh; rw [hri] at hk; exact hrr (Option.some.inj hk).symm
    omega

theorem qcf_stepDeqCv {s s' : State} {t : Tid} {j : Nat} {st0 : CvDeqSt} {e : Ev} (c : QCtx s t)
    (hnodup : RecsNodup s)
    (hpc : s.pc t = .wDeqCv j st0) (h : stepDeqCv s t j st0 e = .ok s') : QI s' ∧ CF s' t := by
  have hl : LInv (.wDeqCv j st0) (s.fr t) := hpc ▸ c.linv t
  have hc : inCall (s.pc t) = true := by rw [hpc]; rfl
  have hnop : opn (s.pc t) = false := by rw [hpc]; rfl
  have hpost := post_none_of_pc c.qi hnop
  have hmc := mc_none_of_pc c.qi hnop
  have hw0 := wk_none_of_opn hnop
  have hdq0 := c.cf.dq hc hl.1.frees
  rw [hpc] at hdq0
  simp only [dqIdx] at hdq0
  unfold stepDeqCv at h
  split at h
  · rename_i cv r hoi hri
    have hor := own_rec c.own hc hl.1.frees hri
    have hobj : (s.rcd r).obj = .cv cv := by have := hor.2.2; rw [hoi] at this; exact (Option.some.inj this).symm
    dsimp only at h
    split at h
    · -- spin
      rename_i sp
      have sp' := spinAcq_spec h
      refine ⟨qi_spinAcq c.qi hw0 hpost hmc (fun _ => rfl) rfl h, ?_⟩
      have hpc' : ∃ st', s'.pc t = .wDeqCv j st' ∧ (st' = .load ∨ ∃ x, st' = .spin x) := by
        rcases sp'.2.2 with h1 | ⟨x, h1⟩ | h1
        · exact ⟨_, h1.trans hpc, .inr ⟨sp, rfl⟩⟩
        · exact ⟨_, h1, .inr ⟨x, rfl⟩⟩
        · exact ⟨_, h1, .inl rfl⟩
      obtain ⟨st', hst', hcase⟩ := hpc'
      refine cf_noHold c.cf sp'.2.1 (by rw [hst']; rfl) (by rw [hst']; rfl) (by rw [hst']; simp [freshAt]) ?_
        (by rw [hst', hpc]; rfl) (by rw [hst', hpc]; rfl) (fun r' => by rw [sp'.1])
      intro r' hr'
      rw [hst'] at hr'
      rcases hcase with h1 | ⟨x, h1⟩ <;> subst h1 <;> simp [clearedAt] at hr'
    · -- load
      split at h
      · rename_i r' obs
        split at h
        · rename_i hg
          cases h
          refine ⟨qi_setPc c.qi hw0 rfl hpost hmc, ?_⟩
          refine cf_noHold c.cf rfl (by simp; split <;> rfl) (by simp; split <;> rfl)
            (by intro r'' hr''; simp at hr''; split at hr'' <;> simp [freshAt] at hr'') ?_
            (by simp [hpc, inCall]) (by simp [hpc]; split <;> rfl) (fun _ => rfl)
          intro r'' hr''
          simp only [setPc_pc, if_true, setPc_rcd] at hr'' ⊢
          split at hr''
          · simp [clearedAt] at hr''
          · rename_i h0
            simp only [clearedAt, hri, Option.some.injEq] at hr''
            subst hr''
            have : obs = 0 := by simpa using h0
            rw [this] at hg; simpa using hg.2.symm
        · simp at h
      · exact qcf_dflt c h
    · -- store
      split at h
      · split at h
        · rename_i hg
          cases h
          have hin : r ∈ (s.obj (.cv cv)).queue := by simpa using hg.2.2.2.2
          refine ⟨qi_setPc (qi_ownerRemove c.qi (.inl hin)) hw0 rfl hpost hmc, ?_⟩
          refine cf_noHold c.cf rfl (by simp [holdsAt]) (by simp [enqTrueAt]) (by intro r'' hr''; simp [freshAt] at hr'') ?_
            (by simp [hpc, inCall]) (by simp [hpc, dqIdx]) ?_
          · intro r'' hr''
            simp only [setPc_pc, if_true, clearedAt, hri, Option.some.injEq] at hr''
            subst hr''
            simp
          · intro r''; simp only [setPc_rcd, ownerRemove_rcd]; split
            · rename_i hh; rw [hh]
            · rfl
        · simp at h
      · -- not found: release the spinlock and wait for the waker
        split at h
        · rename_i hg
          cases h
          have hq1 := qi_cvWord (c := cv) (ob := { s.obj (.cv cv) with lock := none, flag := (s.obj (.cv cv)).flag && !(s.obj (.cv cv)).queue.isEmpty })
            c.qi rfl rfl
          refine ⟨qi_setPc hq1 hw0 rfl hpost hmc, ?_⟩
          exact cf_noHold c.cf rfl (by simp [holdsAt]) (by simp [enqTrueAt]) (by intro r'' hr''; simp [freshAt] at hr'')
            (by intro r'' hr''; simp [clearedAt] at hr'') (by simp [hpc, inCall]) (by simp [hpc, dqIdx]) (fun _ => rfl)
        · simp at h
      · exact qcf_dflt c h
    · -- release
      rename_i res
      split at h
      · split at h
        · rename_i hg
          have hcl : (s.rcd r).waiting = false := c.cf.cleared r (by rw [hpc]; simpa [clearedAt] using hri)
          have hp5 : ∀ u, s.post u = some r → (wk (s.pc u)).isSome = true := by
            intro u hu
            rcases c.qi.q5 u r hu with h1 | ⟨_, _, a3, _, _⟩
            · exact h1
            · rw [hobj] at a3; cases a3
          have hq1 := qi_cvWord (c := cv) (ob := { s.obj (.cv cv) with lock := none, flag := (s.obj (.cv cv)).flag && !(s.obj (.cv cv)).queue.isEmpty })
            (qi_setDeqd c.qi hcl hp5) rfl rfl
          refine qcf_deqDone (s := (s.setObj (.cv cv) _).setRec r _) hq1 ?_ hw0 hpost hmc hl.2.2.1 hl.1.len h
          intro k r' hk
          simp only [setRec_fr, setObj_fr, setRec_rcd, setObj_rcd] at hk ⊢
          exact dq_after (f := fun x => if x = r then { s.rcd r with deqd := true } else s.rcd x) (hnodup t) hri hdq0
            (by simp) (fun r'' hne => by simp [hne]) k r' hk
        · simp at h
      · exact qcf_dflt c h
    · -- wspin
      split at h
      · split at h
        · rename_i hg
          split at h
          · rename_i h0
            have hcl : (s.rcd r).waiting = false := by
              have := hg.2; rw [h0] at this
              cases hx : (s.rcd r).waiting with
              | false => rfl
              | true => rw [hx] at this; simp [b2n] at this
            have hp5 : ∀ u, s.post u = some r → (wk (s.pc u)).isSome = true := by
              intro u hu
              rcases c.qi.q5 u r hu with h1 | ⟨_, _, a3, _, _⟩
              · exact h1
              · rw [hobj] at a3; cases a3
            refine qcf_deqDone (s := s.setRec r _) (qi_setDeqd c.qi hcl hp5) ?_ hw0 hpost hmc hl.2.2.1 hl.1.len h
            intro k r' hk
            simp only [setRec_fr, setRec_rcd] at hk ⊢
            exact dq_after (f := fun x => if x = r then { s.rcd r with deqd := true } else s.rcd x) (hnodup t) hri hdq0
              (by simp) (fun r'' hne => by simp [hne]) k r' hk
          · cases h; exact ⟨c.qi, c.cf⟩
        · simp at h
      · exact qcf_dflt c h
  · simp at h

/-- a note / counter record that is not in its object's queue is not marked waiting -/
theorem not_waiting_of_not_queued {s : State} {r : Rid} (h : QI s) (hl : (s.rcd r).live = true)
    (hcv : (s.rcd r).obj.isCv = false) (hq : r ∉ (s.obj (s.rcd r).obj).queue) : (s.rcd r).waiting = false := by
  cases hw : (s.rcd r).waiting with
  | false => rfl
  | true =>
    rcases h.q3 r hl hw with h1 | ⟨u, c, l, h1, h2⟩
    · exact absurd h1 hq
    · have := ((h.q4 u c l h1).2.2 r h2).2.1
      rw [this] at hcv; cases hcv

theorem qcf_stepDeq {s s' : State} {t : Tid} {j : Nat} {st0 : DeqSt} {e : Ev} (c : QCtx s t)
    (hnodup : RecsNodup s) (hpc : s.pc t = .wDeq j st0) (h : stepDeq s t j st0 e = .ok s') : QI s' ∧ CF s' t := by
  have hl : LInv (.wDeq j st0) (s.fr t) := hpc ▸ c.linv t
  have hc : inCall (s.pc t) = true := by rw [hpc]; rfl
  have hnop : opn (s.pc t) = false := by rw [hpc]; rfl
  have hpost := post_none_of_pc c.qi hnop
  have hmc := mc_none_of_pc c.qi hnop
  have hw0 := wk_none_of_opn hnop
  have hdq0 := c.cf.dq hc hl.1.frees
  unfold stepDeq at h
  split at h
  · rename_i oid r hoi hri
    have hor := own_rec c.own hc hl.1.frees hri
    have hobj : (s.rcd r).obj = oid := by have := hor.2.2; rw [hoi] at this; exact (Option.some.inj this).symm
    have hkn : (s.obj oid).known = true := c.known t hc _ (List.mem_of_getElem? hoi)
    have hcv : oid.isCv = false := by
      rcases hl.2.2.2.1 with ⟨n, hn'⟩ | ⟨k, hk'⟩
      · rw [hoi] at hn'; cases hn'; rfl
      · rw [hoi] at hk'; cases hk'; rfl
    -- moving inside the critical section to a point where `waiting` of the record is known to be clear
    have toCleared : ∀ (p' : PC), holdsAt p' (s.fr t) = some oid → clearedAt p' (s.fr t) = some r →
        freshAt p' (s.fr t) = none → enqTrueAt p' (s.fr t) = none → isNfWake p' = false → wk p' = none →
        inCall p' = true → dqIdx p' (s.fr t) = dqIdx (s.pc t) (s.fr t) →
        holdsAt (s.pc t) (s.fr t) = some oid → (s.rcd r).waiting = false →
        QI (s.setPc t p') ∧ CF (s.setPc t p') t := by
      intro p' h1 h2 h3 h4 h5 h6 h7 h8 hho hwf
      refine ⟨qi_setPc c.qi hw0 h6 hpost hmc, ?_⟩
      constructor
      · intro o ho
        simp only [setPc_pc, setPc_fr, if_true, setPc_obj] at ho ⊢
        rw [h1] at ho; cases ho
        obtain ⟨a1, a2⟩ := c.cf.holds _ hho
        exact ⟨a1, fun _ => a2 (by rw [hpc]; rfl)⟩
      · intro r' hr'; simp only [setPc_pc, setPc_fr, if_true] at hr'; rw [h3] at hr'; cases hr'
      · intro r' hr'
        simp only [setPc_pc, setPc_fr, if_true, setPc_rcd] at hr' ⊢
        rw [h2] at hr'; cases hr'; exact hwf
      · intro o ho; simp only [setPc_pc, setPc_fr, if_true] at ho; rw [h4] at ho; cases ho
      · intro _ hf0 k r' hk
        simp only [setPc_pc, setPc_fr, if_true, setPc_rcd] at hf0 hk ⊢
        rw [h8]; exact hdq0 k r' hk
    dsimp only at h
    split at h
    · -- lockCall
      split at h
      · split at h
        · cases h
          refine qcf_move c hnop rfl (.inr rfl) (.inl rfl) (.inr rfl) (.inr rfl) (.inr rfl)
            (by rw [hpc]; rfl) (by rw [hpc]; rfl) (fun hx => by rw [hpc] at hx; simp [isNfWake] at hx)
        · simp at h
      · exact qcf_dflt c h
    · -- lockWait
      split at h
      · split at h
        · rename_i hn
          cases h
          exact qcf_acquire c hnop hcv hn hkn rfl (by rw [hpc]; rfl) (by simpa [holdsAt] using hoi)
            (.inr rfl) rfl rfl (by rw [hpc]; rfl) (by rw [hpc]; rfl)
        · simp at h
      · exact qcf_dflt c h
    · -- load
      have hho : holdsAt (s.pc t) (s.fr t) = some oid := by rw [hpc]; simpa [holdsAt] using hoi
      obtain ⟨hlk, hH4⟩ := c.cf.holds _ hho
      have hH4' := hH4 (by rw [hpc]; rfl)
      split at h
      · rename_i n n' obs
        split at h
        · rename_i hg
          by_cases hb : noteTimePos (s.obj (.note n)) obs = true
          · rw [if_pos hb] at h
            cases h
            refine qcf_move c hnop rfl (.inl (by rw [hpc]; rfl)) (.inl rfl) (.inr rfl) (.inr rfl) (.inr rfl)
              (by rw [hpc]; rfl) (by rw [hpc]; rfl) (fun hx => by rw [hpc] at hx; simp [isNfWake] at hx)
          · rw [if_neg hb] at h
            cases h
            -- NOTIFIED_TIME <= 0: the record is not in the queue, hence not marked waiting
            have hqe : (s.obj (.note n)).queue = [] := by
              unfold noteTimePos at hb
              by_cases h0 : obs = 0
              · have : dlePast (s.obj (.note n)).expiry = true := by simpa [h0] using hb
                exact c.qi.q8 n this
              · have hf : (s.obj (.note n)).flag = true := by
                  cases hfl : (s.obj (.note n)).flag with
                  | true => rfl
                  | false => rw [hfl] at hg; simp at hg; exact absurd hg.2 h0
                exact hH4' (by simp [wakeable, hf])
            have hwf : (s.rcd r).waiting = false :=
              not_waiting_of_not_queued c.qi hor.1 (by rw [hobj]; rfl) (by rw [hobj, hqe]; simp)
            exact toCleared _ (by simpa [holdsAt] using hoi) (by simpa [clearedAt] using hri) rfl rfl rfl rfl rfl
              (by rw [hpc]; rfl) hho hwf
        · simp at h
      · rename_i k k' obs
        split at h
        · cases h
          refine qcf_move c hnop rfl (.inl (by rw [hpc]; rfl)) (.inl rfl) (.inr rfl) (.inr rfl) (.inr rfl)
            (by rw [hpc]; rfl) (by rw [hpc]; rfl) (fun hx => by rw [hpc] at hx; simp [isNfWake] at hx)
        · simp at h
      · exact qcf_dflt c h
    · -- loadW
      rename_i res
      have hho : holdsAt (s.pc t) (s.fr t) = some oid := by rw [hpc]; simpa [holdsAt] using hoi
      split at h
      · rename_i r' obs
        split at h
        · rename_i hg
          by_cases h0 : obs ≠ 0
          · rw [if_pos h0] at h
            cases h
            refine qcf_move c hnop rfl (.inl (by rw [hpc]; rfl)) (.inl rfl) (.inr rfl) (.inr rfl) (.inr rfl)
              (by rw [hpc]; rfl) (by rw [hpc]; rfl) (fun hx => by rw [hpc] at hx; simp [isNfWake] at hx)
          · rw [if_neg h0] at h
            cases h
            have hwf : (s.rcd r).waiting = false := by
              have : obs = 0 := by simpa using h0
              rw [this] at hg; simpa using hg.2.symm
            exact toCleared _ (by simpa [holdsAt] using hoi) (by simpa [clearedAt] using hri) rfl rfl rfl rfl rfl
              (by rw [hpc]; rfl) hho hwf
        · simp at h
      · exact qcf_dflt c h
    · -- store
      rename_i res
      have hho : holdsAt (s.pc t) (s.fr t) = some oid := by rw [hpc]; simpa [holdsAt] using hoi
      obtain ⟨hlk, hH4⟩ := c.cf.holds _ hho
      have hH4' := hH4 (by rw [hpc]; rfl)
      have hin : r ∈ (s.obj oid).queue ∨ (s.rcd r).waiting = false := by
        by_cases hm : r ∈ (s.obj oid).queue
        · exact .inl hm
        · exact .inr (not_waiting_of_not_queued c.qi hor.1 (by rw [hobj]; exact hcv) (by rw [hobj]; exact hm))
      have hold := hdq0
      rw [hpc] at hold
      simp only [dqIdx] at hold
      split_ok h
      all_goals first
        | exact qcf_dflt c h
        | (cases h
           refine ⟨qi_setPc (qi_ownerRemove c.qi hin) hw0 rfl hpost hmc, ?_⟩
           constructor
           · intro o ho
             simp only [setPc_pc, setPc_fr, ownerRemove_fr, if_true, setPc_obj, ownerRemove_obj] at ho ⊢
             simp only [holdsAt, hoi, Option.some.injEq] at ho
             subst ho
             simp only [if_true]
             refine ⟨hlk, fun _ hw => ?_⟩
             have hq := hH4' (by simp only [wakeable] at hw ⊢; exact hw)
             rw [hq]; rfl
           · intro r' hr'; simp [freshAt] at hr'
           · intro r' hr'
             simp only [setPc_pc, setPc_fr, ownerRemove_fr, if_true, clearedAt, hri, Option.some.injEq] at hr'
             subst hr'
             simp
           · intro o ho; simp [enqTrueAt] at ho
           · intro _ hf0 k r' hk
             simp only [setPc_pc, setPc_fr, ownerRemove_fr, if_true, setPc_rcd, ownerRemove_rcd] at hf0 hk ⊢
             have := hold k r' hk
             simp only [dqIdx]
             split
             · rename_i hh; rw [hh] at this; exact this
             · exact this)
    · -- unlockCall
      rename_i res
      have hho : holdsAt (s.pc t) (s.fr t) = some oid := by rw [hpc]; simpa [holdsAt] using hoi
      obtain ⟨hlk, hH4⟩ := c.cf.holds _ hho
      have hH4' := hH4 (by rw [hpc]; rfl)
      have hcl : (s.rcd r).waiting = false := c.cf.cleared r (by rw [hpc]; simpa [clearedAt] using hri)
      split at h
      · split at h
        · cases h
          have hq1 := qi_lockRel c.qi hlk hpost (fun _ hw => hH4' hw)
          have hq2 : QI ((s.setObj oid { s.obj oid with lock := none }).setRec r { s.rcd r with deqd := true }) := by
            refine qi_setDeqd (s := s.setObj oid { s.obj oid with lock := none }) hq1 hcl ?_
            intro u hu
            rcases hq1.q5 u r hu with h1 | ⟨_, _, _, a4, _⟩
            · exact h1
            · simp only [setObj_rcd, setObj_obj, hobj, if_true] at a4; cases a4
          refine ⟨qi_setPc hq2 hw0 rfl hpost hmc, ?_⟩
          constructor
          · intro o ho; simp [holdsAt] at ho
          · intro r' hr'; simp [freshAt] at hr'
          · intro r' hr'
            simp only [setPc_pc, setPc_fr, setRec_fr, setObj_fr, if_true, clearedAt, hri, Option.some.injEq] at hr'
            subst hr'
            simp [hcl]
          · intro o ho; simp [enqTrueAt] at ho
          · intro _ hf0 k r' hk
            simp only [setPc_pc, setPc_fr, setRec_fr, setObj_fr, if_true, setPc_rcd, setRec_rcd, setObj_rcd] at hf0 hk ⊢
            have hold := hdq0
            rw [hpc] at hold
            simp only [dqIdx] at hold ⊢
            exact dq_after (f := fun x => if x = r then { s.rcd r with deqd := true } else s.rcd x) (hnodup t) hri hold
              (by simp) (fun r'' hne => by simp [hne]) k r' hk
        · simp at h
      · exact qcf_dflt c h
    · -- unlockWait
      rename_i res
      split at h
      · have hold := hdq0
        rw [hpc] at hold
        simp only [dqIdx] at hold
        exact qcf_deqDone c.qi hold hw0 hpost hmc hl.2.2.1 hl.1.len h
      · exact qcf_dflt c h
  · simp at h

end WaitN
