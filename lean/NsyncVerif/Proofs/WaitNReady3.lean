/-
  Proofs/WaitNReady3.lean — landing lemmas for `TF`: the facts hold at the program point computed by
  pollNext / loopNext / deqNext / enqNext / finNext.
-/
import NsyncVerif.Proofs.WaitNReady2

set_option linter.unusedSimpArgs false
set_option linter.unusedVariables false

namespace WaitN

theorem sReady_lt {s : State} {f : Frame} {k : Nat} (h : sReady s f k) : k < f.count := by
  unfold sReady at h
  split at h
  · rename_i hk; exact lt_count_of_get hk
  · rename_i hk; exact lt_count_of_get hk
  · rename_i hk; exact lt_count_of_get hk
  · exact h.elim

theorem postF_of_deqF {s : State} {f : Frame} (h : DeqF s f) (hl : f.deqRes.length = f.recs.length)
    (hn : f.recs ≠ []) : PostF s f := by
  refine ⟨h.tmo, ?_, h.rdy, fun _ _ => hn⟩
  intro k hk
  rcases h.why k hk with h1 | ⟨h1, h2, _⟩
  · exact h1
  · omega

theorem tf_relockNext {s : State} {f : Frame} (h : PostF s f) : TF s (relockNext f) f := by
  unfold relockNext; split <;> exact h

theorem tf_finNext {s : State} {f : Frame} (h : PostF s f) : TF s (finNext f) f := by
  unfold finNext; split
  · exact h
  · exact tf_relockNext h

theorem tf_deqNext {s : State} {f : Frame} {j : Nat} (hw : Waited s f f.count) (h : DeqF s f)
    (hl : f.deqRes.length = j) (hle : f.recs.length ≤ f.count) (hj : j < f.recs.length) : TF s (deqNext f j) f := by
  unfold deqNext
  rw [if_pos hj]
  have hc : j < f.count := Nat.lt_of_lt_of_le hj hle
  rcases kind_cases hc with ⟨c, ho⟩ | ⟨n, ho⟩ | ⟨k, ho⟩ <;> rw [ho] <;> simp only [TF]
  · exact ⟨hw, h, trivial⟩
  · exact ⟨hw, h, fun _ _ => trivial⟩
  · refine ⟨hw, h, ?_⟩
    intro n hn; rw [ho] at hn; cases hn

theorem deqF_of_loopF {s : State} {f : Frame} (h : LoopF s f) (hd : f.deqRes = []) (hr : f.ready = f.count)
    (hfull : f.recs.length = f.count) : DeqF s f := by
  refine ⟨fun ht => absurd ht h.noTmo, ?_, fun hlt => by rw [hr] at hlt; exact absurd hlt (Nat.lt_irrefl _)⟩
  intro k hk
  have := h.why k hk
  exact .inr ⟨by simp [hd], by rw [hfull]; exact sReady_lt this, this⟩

theorem tf_scanEnd {s : State} {f : Frame} (hw : Waited s f f.count) (h : LoopF s f) (hl : InLoop f) :
    TF s (scanEnd f) f := by
  unfold scanEnd
  split
  · exact tf_deqNext hw (deqF_of_loopF h hl.deqRes hl.ready hl.full) (by simp [hl.deqRes]) hl.len
      (by rw [hl.full]; exact hl.pos)
  · exact ⟨hw, h⟩

theorem tf_loopNext {s : State} {f : Frame} (hw : Waited s f f.count) (h : LoopF s f) (hl : InLoop f) (j : Nat) :
    TF s (loopNext f j) f := by
  unfold loopNext
  split
  · rename_i hj
    rcases kind_cases hj with ⟨c, ho⟩ | ⟨n, ho⟩ | ⟨k, ho⟩ <;> rw [ho] <;> simp only [TF]
    · exact ⟨hw, h⟩
    · exact ⟨hw, h, fun _ _ => trivial⟩
    · exact ⟨hw, h⟩
  · exact tf_scanEnd hw h hl

/-- after the enqueue loop (frame already updated by `afterEnq`) -/
theorem tf_enqNext {s : State} {f : Frame} {i : Nat} {res : Bool} (hw : Waited s f f.count) (hp : PreLoop f)
    (hl : f.recs.length = i) (hwho : f.who = none)
    (hwhy : if res then f.why = .none else (0 < i ∧ f.why = .readyAt (i - 1) ∧ sReady s f (i - 1))) :
    TF s (enqNext f i res) f := by
  have hwhy' : ∀ k, f.why = .readyAt k → sReady s f k := by
    intro k hk
    cases res with
    | true => simp at hwhy; rw [hwhy] at hk; cases hk
    | false => simp at hwhy; rw [hwhy.2.1] at hk; cases hk; exact hwhy.2.2
  have hnt : f.why ≠ .timeout := by
    cases res with
    | true => simp at hwhy; rw [hwhy]; simp
    | false => simp at hwhy; rw [hwhy.2.1]; simp
  unfold enqNext
  split
  · exact hw
  · rename_i hc
    split
    · rename_i hic
      split
      · exact ⟨hw, hwhy', hnt⟩
      · rename_i hm
        have hil := inLoop_of_preLoop hp (by simpa using hm) (by rw [hl, hic])
        exact tf_loopNext hw ⟨fun _ => hp.min, fun k hk => (by rw [hwho] at hk; cases hk), hwhy', hnt⟩ hil 0
    · rename_i hic
      have hlen := hp.len
      have hres : res = false := by
        cases res with
        | false => rfl
        | true => exact absurd ⟨rfl, by omega⟩ hc
      subst hres
      simp at hwhy
      refine tf_deqNext hw ⟨fun ht => (by rw [hwhy.2.1] at ht; cases ht), ?_, ?_⟩ (by simp [hp.deqRes]) hp.len (by omega)
      · intro k hk
        rw [hwhy.2.1] at hk; cases hk
        exact .inr ⟨by simp [hp.deqRes], by omega, hwhy.2.2⟩
      · intro hlt; rw [hp.ready] at hlt; exact absurd hlt (Nat.lt_irrefl _)

theorem waited_skip_cv {s : State} {f : Frame} {i c : Nat} (h : Waited s f i) (ho : f.objs[i]? = some (.cv c)) :
    Waited s f (i + 1) := by
  intro k c' hk hc
  rcases Nat.lt_or_ge k i with h' | h'
  · exact h k c' h' hc
  · have : k = i := by omega
    subst this; rw [ho] at hc; cases hc

theorem waited_all {s : State} {f : Frame} {i : Nat} (h : Waited s f i) (hd : f.objs.drop i = []) : Waited s f f.count := by
  intro k c hk hc
  apply h k c _ hc
  have : f.objs.length ≤ i := by simpa using hd
  unfold Frame.count at hk; omega

theorem tf_pollFrom {s : State} {f : Frame} (hf : Fresh f) (hr : f.ready = f.count) :
    ∀ (l : List ObjId) (i : Nat), f.objs.drop i = l → Waited s f i → TF s (pollFrom f l i) f := by
  intro l
  induction l with
  | nil =>
    intro i hd hw
    have hwc := waited_all hw hd
    unfold pollFrom
    split
    · refine ⟨fun ht => (by rw [hf.why] at ht; cases ht), fun k hk => (by rw [hf.why] at hk; cases hk), ?_, ?_⟩
      · intro hlt; rw [hr] at hlt; exact absurd hlt (Nat.lt_irrefl _)
      · intro hlt; rw [hr] at hlt; exact absurd hlt (Nat.lt_irrefl _)
    · rename_i hdl
      have hdl : dlePast f.dl = false := by simpa using hdl
      split
      · exact hwc
      · rename_i h4
        have : enqNext f 0 true = .wInit 0 := by
          unfold enqNext; rw [if_pos ⟨rfl, hf.pos⟩]
        rw [this]; exact hwc
  | cons o rest ih =>
    intro i hdrop hw
    have hget : f.objs[i]? = some o := by
      have := congrArg List.head? hdrop
      simpa [List.head?_drop] using this
    have hrest : f.objs.drop (i + 1) = rest := by
      have := congrArg List.tail hdrop
      simpa [List.tail_drop] using this
    cases o with
    | cv c => simp only [pollFrom]; exact ih (i + 1) hrest (waited_skip_cv hw hget)
    | note n => simp only [pollFrom, TF]; exact ⟨hw, fun _ _ => trivial⟩
    | ctr k => simp only [pollFrom, TF]; exact ⟨hw, fun h => by cases h⟩

theorem tf_pollNext {s : State} {f : Frame} (hf : Fresh f) (hr : f.ready = f.count) (i : Nat)
    (hw : Waited s f i) : TF s (pollNext f i) f :=
  tf_pollFrom hf hr _ i rfl hw

end WaitN
