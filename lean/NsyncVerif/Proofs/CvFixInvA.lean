/-
  Layer `CvFix` (cv.c with the repair of F3; adapted from the `Cv` file of the same name): the structural invariant (spinlock, queue, private lists, ownership of records).
  Definitions and the lemmas about the selection functions.
-/
import NsyncVerif.Proofs.CvFixBasic

namespace NsyncVerif.CvFix

/-- Program points at which the thread holds the cv spinlock. -/
def Loc.holds : Loc → Bool
  | .wEnq | .wRel | .wChk2 | .wCmp | .wRmLd | .wRmCas | .wClr | .wRel2 | .sRcLd | .sRcCas | .sRel
  | .nLocked | .nEnqRel | .nDeqSt | .nDeqRel | .nDeqRelW => true
  | .dWalk | .dRc => true          -- emit_cv_state / emit_waiters (debug.c) with `acquired = 1`
  | _ => false

/-- Program points at which the thread may have a non-empty private `to_wake_list`. -/
def Loc.wakePhase : Loc → Bool
  | .sRcLd | .sRcCas | .sRel | .wwMuLd | .wwMuCas | .wwRelLd | .wwRelCas | .wwRelLd2 | .wwStore | .wwV => true
  | _ => false

/-- The record is registered with the cv as an instance of a wait in progress. -/
def RStat.live : RStat → Bool
  | .queued | .listed _ | .xfer | .woken | .selfOut => true
  | _ => false

/-- cv wait between enqueue and loop exit. -/
def waitLive (x : Thr) : Bool :=
  match x.loc with
  | .wEnq | .wRel | .wUnlock | .wUnlocking | .wHead | .wSemEnter | .wSemRet | .cPre | .cWait | .cPost
  | .wChk | .wChk2 | .wCmp | .wRmLd | .wRmCas | .wClr | .wRel2 | .wTail => true
  | .spLd0 | .spLd2 | .spCas => x.cont == .waitChk
  | _ => false

/-- cv wait between `waiting := 1` and enqueue. -/
def waitPrep (x : Thr) : Bool :=
  match x.loc with
  | .wMode => true
  | .spLd0 | .spLd2 | .spCas => x.cont == .waitEnq
  | _ => false

/-- inside nsync_wait_n. -/
def inWaitN (x : Thr) : Bool :=
  match x.loc with
  | .nOut | .nLocked | .nEnqRel | .nDeqSt | .nDeqRel | .nDeqRelW | .nDeqSpin => true
  | .spLd0 | .spLd2 | .spCas => x.cont == .waitn
  | _ => false

structure TInvA (s : State) (t : Tid) : Prop where
  list0 : (s.thr t).loc.wakePhase = false → (s.thr t).list = []
  prep : waitPrep (s.thr t) = true →
    (s.recs (s.thr t).r).stat = .prep ∧ (s.recs (s.thr t).r).owner = t ∧ (s.thr t).r.isMucv = true
  live : waitLive (s.thr t) = true →
    (s.recs (s.thr t).r).owner = t ∧ (s.thr t).r.isMucv = true ∧ (s.recs (s.thr t).r).stat.live = true
  enq : (s.thr t).loc = .wEnq ∨ (s.thr t).loc = .wRel → (s.recs (s.thr t).r).stat = .queued
  selfO : (s.thr t).loc = .wRmLd ∨ (s.thr t).loc = .wRmCas ∨ (s.thr t).loc = .wClr →
    (s.recs (s.thr t).r).stat = .selfOut
  mine : ∀ r, r ∈ (s.thr t).mine →
    r.isMucv = false ∧ (s.recs r).owner = t ∧ (s.recs r).stat ≠ .idle ∧ (s.recs r).stat ≠ .prep
  mineNd : (s.thr t).mine.Nodup
  mine0 : inWaitN (s.thr t) = false → (s.thr t).mine = []
  nEnq : (s.thr t).loc = .nEnqRel → (s.recs (s.thr t).r).stat = .queued ∧ (s.thr t).r ∈ (s.thr t).mine
  nDeq : (s.thr t).loc = .nDeqSt ∨ (s.thr t).loc = .nDeqRel →
    (s.thr t).r ∈ (s.thr t).mine ∧ (s.recs (s.thr t).r).stat ≠ .queued
  casEven : (s.thr t).loc = .spCas → (s.thr t).casExp % 2 = 0
  /-- repaired cv_dequeue waiting for the waker: the record is one of the call's, not in the queue -/
  nSpin : (s.thr t).loc = .nDeqRelW ∨ (s.thr t).loc = .nDeqSpin →
    (s.thr t).r ∈ (s.thr t).mine ∧ (s.recs (s.thr t).r).stat ≠ .queued

structure InvA (s : State) : Prop where
  spin : s.word.spin = s.holder.isSome
  hold : ∀ t, s.holder = some t ↔ (s.thr t).loc.holds = true
  old : ∀ t, s.holder = some t → (s.thr t).old.spin = false ∧ ((s.thr t).old.ne = true ↔ s.queue ≠ [])
  free : s.holder = none → (s.word.ne = true ↔ s.queue ≠ [])
  qNd : s.queue.Nodup
  qMem : ∀ r, r ∈ s.queue ↔ (s.recs r).stat = .queued
  qWait : ∀ r, (s.recs r).stat = .queued → (s.recs r).waiting = true
  lNd : ∀ u, (s.thr u).list.Nodup
  lMem : ∀ u r, r ∈ (s.thr u).list ↔ (s.recs r).stat = .listed u
  thr : ∀ t, TInvA s t
  /-- a broadcaster that has taken the spinlock has emptied the queue -/
  bq : ∀ t, (s.thr t).bcast = true →
    ((s.thr t).loc = .sRcLd ∨ (s.thr t).loc = .sRcCas ∨ (s.thr t).loc = .sRel) → s.queue = []
  /-- a record being prepared by a cv wait already has `waiting = 1` -/
  pWait : ∀ r, (s.recs r).stat = .prep → (s.recs r).waiting = true

theorem invA_init : InvA init := by
  constructor <;> simp [init, Loc.holds]
  intro t
  constructor <;> simp [Loc.wakePhase, waitPrep, waitLive, inWaitN]

/-! ### the selection functions return sublists -/

theorem pickReaders_sublist (recs : Rid → Rec) (l : List Rid) (w : Bool) :
    (pickReaders recs l w).Sublist l := by
  induction l generalizing w with
  | nil => simp [pickReaders]
  | cons p ps ih =>
    simp only [pickReaders]
    split
    · exact (ih w).cons₂ p
    · split
      · exact (ih w).cons p
      · exact (ih true).cons₂ p

theorem sigSelect_sublist (recs : Rid → Rec) (l : List Rid) : (sigSelect recs l).Sublist l := by
  cases l with
  | nil => simp [sigSelect]
  | cons f rest =>
    simp only [sigSelect]
    split
    · exact (pickReaders_sublist recs rest false).cons₂ f
    · exact (List.nil_sublist rest).cons₂ f

theorem sigSelect_head (recs : Rid → Rec) (f : Rid) (rest : List Rid) : f ∈ sigSelect recs (f :: rest) := by
  simp only [sigSelect]; split <;> simp

theorem transferSet_subset (recs : Rid → Rec) (fca : Bool) (l : List Rid) :
    ∀ r, r ∈ transferSet recs fca l → r ∈ l := by
  intro r h
  cases l with
  | nil => simp [transferSet] at h
  | cons f rest =>
    simp only [transferSet, List.mem_append, List.mem_filter] at h
    rcases h with h | h
    · split at h <;> simp_all
    · simp [h.1]

theorem enc_even_spin {w : Word} (h : w.enc % 2 = 0) : w.spin = false := by
  cases w with | mk sp ne => cases sp <;> cases ne <;> simp_all [Word.enc]

theorem dec_enc {n : Nat} {w : Word} (h : Word.dec? n = some w) : w.enc = n := by
  match n with
  | 0 | 1 | 2 | 3 => simp [Word.dec?] at h; subst h; rfl
  | n + 4 => simp [Word.dec?] at h

theorem enc_dec (w : Word) : Word.dec? w.enc = some w := by
  cases w with | mk sp ne => cases sp <;> cases ne <;> rfl

theorem enc_inj {a b : Word} (h : a.enc = b.enc) : a = b := by
  have := enc_dec a; rw [h, enc_dec b] at this; cases this; rfl

end NsyncVerif.CvFix
