import NsyncVerif.Proofs.MuCInv5Reach
/-
  MuC: from the store `waiting := 1` of nsync_mu_wait_with_deadline (mu_wait.c:198) until the thread re-contends
  (lock_slow) or re-evaluates, the condition stored in its waiter record is the condition of the call
  (`InvRC`).  Definitions, the generic lemmas, loads and stores; the rest in MuCFairRec2.lean.
-/
namespace NsyncVerif.MuC

def Ret.condRec : Ret → Option (Wid × Option Cond)
  | .ul _ _ => none
  | .mw c => c.w.map (fun k => (k, c.cond))

/-- The waiter record of the nsync_mu_wait_with_deadline call in progress and the condition of the call, at the
    program points at which the record carries that condition. -/
def PC.condRec : PC → Option (Wid × Option Cond)
  | .usLd r | .usCasUnc r _ | .usCasGrab r _ | .usRelLd r _ | .usRelCas r _ _ | .usEval r _ | .usRcLd r _ _ | .usRcCas r _ _ _
  | .usReLd r _ | .usReCas r _ _ | .usFinLd r _ | .usFinCas r _ _ | .usWakeSt r _ _ | .usWakeV r _ _ => r.condRec
  | .mwRcLd c | .mwEnqLd c | .mwEnqCas c _ | .mwRelLd c | .mwRelCas c _ _ | .mwWaitLd c
  | .mwSem c | .mwPdRet c _ | .mwNotify c | .mwLd244 c | .mwLd255 c
  | .mtLd c | .mtCasAcq c _ | .mtCasWW c _ | .mtLdWk c _ | .mtLdW c _ | .mtLdRc c _ | .mtRmLd c _ | .mtRmCas c _ _ | .mtStW c _ | .mtStRel c _ _ =>
    c.w.map (fun k => (k, c.cond))
  | _ => none

def InvRC (s : State) : Prop := ∀ t k c, (s.pc t).condRec = some (k, c) → (s.wr k).cond = c

theorem condRec_mem_ws {p : PC} {k : Wid} {c : Option Cond} (h : p.condRec = some (k, c)) : k ∈ p.ws := by
  cases p <;> simp [PC.condRec] at h
  all_goals first
    | (rename_i r _ _ _; cases r <;> simp [Ret.condRec] at h <;> (obtain ⟨a, ha, rfl, _⟩ := h; simp [PC.ws, Ret.ws, ha]))
    | (rename_i r _ _; cases r <;> simp [Ret.condRec] at h <;> (obtain ⟨a, ha, rfl, _⟩ := h; simp [PC.ws, Ret.ws, ha]))
    | (rename_i r _; cases r <;> simp [Ret.condRec] at h <;> (obtain ⟨a, ha, rfl, _⟩ := h; simp [PC.ws, Ret.ws, ha]))
    | (rename_i r; cases r <;> simp [Ret.condRec] at h <;> (obtain ⟨a, ha, rfl, _⟩ := h; simp [PC.ws, Ret.ws, ha]))
    | (obtain ⟨a, ha, rfl, _⟩ := h; simp [PC.ws, ha])

theorem ScanPc.condRec {r : Ret} {late : Bool} {p : PC} (h : ScanPc r late p) : p.condRec = r.condRec := by
  cases p <;> simp [ScanPc] at h <;> simp [PC.condRec, h]

theorem InvRC.local {s s' : State} (t : Tid) (h : InvRC s)
    (hcnd : ∀ x, (s'.wr x).cond = (s.wr x).cond)
    (hpc : ∀ u, u ≠ t → s'.pc u = s.pc u)
    (hlc : ∀ k c, (s'.pc t).condRec = some (k, c) → (s.pc t).condRec = some (k, c)) : InvRC s' := by
  intro u k c hl
  rw [hcnd]
  by_cases hu : u = t
  · subst hu; exact h u k c (hlc k c hl)
  · rw [hpc u hu] at hl; exact h u k c hl

theorem InvRC.env {s s' : State} (h : InvRC s) (hcnd : ∀ x, (s'.wr x).cond = (s.wr x).cond) (hpc : s'.pc = s.pc) :
    InvRC s' := by
  intro u k c hl; rw [hpc] at hl; rw [hcnd]; exact h u k c hl

/-- `t` changes the condition stored in its own record `k`. -/
theorem InvRC.restore {s s' : State} (t : Tid) (k : Wid) (h : InvRC s)
    (hcnd : ∀ x, x ≠ k → (s'.wr x).cond = (s.wr x).cond)
    (hown : ∀ u, u ≠ t → k ∉ (s.pc u).ws)
    (hpc : ∀ u, u ≠ t → s'.pc u = s.pc u)
    (hlc : ∀ k' c, (s'.pc t).condRec = some (k', c) → k' = k ∧ (s'.wr k).cond = c) : InvRC s' := by
  intro u k' c hl
  by_cases hu : u = t
  · subst hu
    obtain ⟨rfl, e⟩ := hlc k' c hl
    exact e
  · rw [hpc u hu] at hl
    have hk' : k' ≠ k := fun e => hown u hu (e ▸ condRec_mem_ws hl)
    rw [hcnd k' hk']; exact h u k' c hl

macro "rc_local" t:ident h:ident heq:ident : tactic => `(tactic|
  (refine InvRC.local $t $h ?_ ?_ ?_
   · intro x; (simp [setFn, enqLast, enqFirst, cond_of_merge]) <;> (try split) <;> simp_all
   · intro u hu; simp [setFn, hu, enqLast, enqFirst]
   · intro k c hl
     rw [$heq:ident]
     (simp_all [PC.condRec, Ret.condRec, setFn, loopPc, finPc, Ret.pc, SL.entry, SL.fromWait, SL.woken]) <;> grind))

macro "ld_caseRC" t:ident h:ident heq:ident hs:ident : tactic => `(tactic|
  (try dsimp only at $hs:ident
   try simp only [ldWord, ldWaiting] at $hs:ident
   repeat' split at $hs:ident
   all_goals first
     | (cases $hs:ident; done)
     | (cases $hs:ident; rc_local $t $h $heq)
     | (cases $hs:ident; split <;> rc_local $t $h $heq)))

theorem invRC_stepLd {s s' : State} {t : Tid} {o : Ord} {loc : Loc} {obs : Nat} (h : InvRC s)
    (hs : stepLd s t o loc obs = .ok s') : InvRC s' := by
  unfold stepLd at hs
  split at hs
  all_goals first
    | (rename_i heq; ld_caseRC t h heq hs)
    | skip
  -- mtLdRc: the waiter removes itself
  rename_i c old heq
  dsimp only at hs
  repeat' split at hs
  all_goals first
    | (cases hs; done)
    | (cases hs; rc_local t h heq)
    | skip
  rename_i k hk _ _ _ _ hmem
  cases hs
  have hlo : LnkOnly s (setPc (dequeue s k) t (PC.mtRmLd c old)) := lnkOnly_removeLinks _ _ _ _
  refine InvRC.local t h (fun x => (hlo x).2.2.2.2.1) (by intro u hu; simp [dequeue, setFn, hu]) ?_
  intro k' c' hl; rw [heq]; simpa [PC.condRec, dequeue] using hl

end NsyncVerif.MuC
