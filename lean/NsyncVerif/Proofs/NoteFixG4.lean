/-
  Layer `Note`, invariant family G (no use after free), fourth part: preservation of `InvLive`.
-/
import NsyncVerif.Proofs.NoteFixG3

set_option linter.unusedSimpArgs false

namespace Note

/-- The mutex a thread is about to acquire is the mutex of a note it may dereference. -/
theorem wants_uses {pc : PC} {k : NoteId} (h : pc.wants = some k) : k ∈ pc.uses := by
  cases pc with
  | dl pos n nt dk => cases pos <;> simp [PC.wants] at h <;> subst h <;> simp [PC.uses]
  | nfy pos n par nk =>
    cases pos <;> simp [PC.wants] at h <;>
      first
        | (subst h; simp [PC.uses, NPos.usesPar])
        | simp [PC.uses, NPos.usesPar, h]
  | chd pos stk top =>
    cases pos with
    | lockChildRet c => simp [PC.wants] at h; subst h; simp [PC.uses, CPos.usesChild]
    | waitRet b =>
      cases b <;> simp [PC.wants] at h
      cases stk with
      | nil => simp at h
      | cons f rest => simp at h; subst h; simp [PC.uses]
    | _ => simp [PC.wants] at h
  | newP pos n p dl => cases pos <;> simp [PC.wants] at h <;> subst h <;> simp [PC.uses]
  | fr pos n par c nx =>
    cases pos with
    | waitRet b =>
      cases b <;> simp [PC.wants] at h
      subst h; simp [PC.uses]
    | _ =>
      simp [PC.wants] at h <;>
        first
          | (subst h; simp [PC.uses, FPos.usesPar, FPos.usesChild])
          | simp [PC.uses, FPos.usesPar, FPos.usesChild, h]
  | wt pos n wdl r => cases pos <;> simp [PC.wants] at h <;> subst h <;> simp [PC.uses]
  | _ => simp [PC.wants] at h

/-- A note newly freed by this step: the actor was at the `free (n)` of `nsync_note_free (n)`. -/
theorem freed_new {s s' : State} {e : Event} (hs : step s e = .ok s') {x : NoteId}
    (h0 : (s.notes x).freed = false) (h1 : (s'.notes x).freed = true) :
    ∃ a par c nx, e.actor = some a ∧ s.pc a = .fr .free x par c nx := by
  rcases step_freed hs x h1 with h | ⟨a, par, c, nx, ha, hpc, _⟩
  · rw [h0] at h; cases h
  · exact ⟨a, par, c, nx, ha, hpc⟩

theorem InvLive.step_child {s s' : State} {e : Event} (hr : Reachable s) (hG : InvLive s)
    (hs : step s e = .ok s') (p c : NoteId) (hc : c ∈ (s'.notes p).children) :
    (s'.notes c).freed = false ∧ (s'.notes p).freed = false := by
  have hF := hr.invForest
  -- both were live before the step
  have hold : (s.notes c).freed = false ∧ (s.notes p).freed = false := by
    rcases step_children' hs p c hc with h | ⟨a, dl, ha, hpc, _⟩ | ⟨a, n, nx, he, hpc, _⟩
    · exact hG.child p c h
    · exact ⟨creating_live hr (t := a) (by rw [hpc]; rfl),
        arg_live hr (t := a) (by rw [hpc]; rfl) (by rw [hpc]; rfl)⟩
    · exact ⟨(hG.child n c (hF.frc a _ _ _ _ _ hpc rfl)).1,
        linked_live hr hG (t := a) (n := n) (by rw [hpc]; rfl)⟩
  -- a note freed by this step has neither parent nor children, before and after
  have key : ∀ x, (s.notes x).freed = false → (s'.notes x).freed = true →
      (∀ q, x ∉ (s'.notes q).children) ∧ (s'.notes x).children = [] := by
    intro x h0 h1
    obtain ⟨a, par, c', nx, ha, hpc⟩ := freed_new hs h0 h1
    obtain ⟨hd1, hd2⟩ := hG.done a _ x par c' nx hpc rfl
    -- the step is the `free` event: the forest does not change
    have hsame : s'.notes = (s.markFreed x).notes := by
      clear h0 h1 hc hold
      replace hpc := hpc.symm
      cases e
      all_goals step_cases hs
      all_goals simp only [Event.actor, Option.some.injEq, reduceCtorEq] at ha
      all_goals (try subst ha)
      all_goals (try (rw [‹s.pc _ = _›] at hpc; cases hpc; done))
      all_goals (rw [‹s.pc _ = _›] at hpc; cases hpc; rfl)
    refine ⟨fun q hq => ?_, ?_⟩
    · rw [hsame] at hq
      simp only [markFreed_f_children] at hq
      have := hF.c2p q x hq
      rw [hd1] at this; cases this
    · rw [hsame]; simpa using hd2
  constructor
  · cases h1 : (s'.notes c).freed with
    | false => rfl
    | true => exact absurd hc ((key c hold.1 h1).1 p)
  · cases h1 : (s'.notes p).freed with
    | false => rfl
    | true => have := (key p hold.2 h1).2; rw [this] at hc; cases hc

theorem InvLive.step_held {s s' : State} {e : Event} (hr : Reachable s) (hG : InvLive s)
    (hs : step s e = .ok s') (k : NoteId) (t : Tid) (h : (s'.notes k).lockHolder = some t) :
    (s'.notes k).freed = false := by
  -- the note was live before the step
  have hold : (s.notes k).freed = false ∧
      ((s.notes k).lockHolder = some t ∨
        (e.actor = some t ∧ ∀ par c nx, s.pc t ≠ .fr .free k par c nx)) := by
    by_cases h0 : (s.notes k).lockHolder = some t
    · exact ⟨hG.held k t h0, Or.inl h0⟩
    · obtain ⟨ha, hw⟩ := step_acquire hs k t h h0
      have hu : k ∈ (s.pc t).uses := by
        rcases hw with hw | ⟨n, nk, hpc⟩ | ⟨n, c, nx, hpc⟩
        · exact wants_uses hw
        · rw [hpc]; simp [PC.uses, NPos.usesPar]
        · rw [hpc]; simp [PC.uses, FPos.usesPar]
      refine ⟨uses_live hr hG t k hu, Or.inr ⟨ha, ?_⟩⟩
      intro par c nx hpc
      rcases hw with hw | ⟨n, nk, hpc'⟩ | ⟨n, c', nx', hpc'⟩
      · rw [hpc] at hw; simp [PC.wants] at hw
      · rw [hpc] at hpc'; cases hpc'
      · rw [hpc] at hpc'; cases hpc'
  cases h1 : (s'.notes k).freed with
  | false => rfl
  | true =>
    exfalso
    obtain ⟨a, par, c, nx, ha, hpc⟩ := freed_new hs hold.1 h1
    have hq := hG.quiet a _ k par c nx hpc rfl
    rcases hold.2 with h2 | ⟨h2, h3⟩
    · rw [hq] at h2; cases h2
    · rw [ha] at h2
      obtain rfl := Option.some.inj h2
      exact h3 par c nx hpc

end Note
