import NsyncVerif.Gen.Sites
import NsyncVerif.Model.Expected
/-
  Tie lemmas (T-gen): the tables regenerated from /repo's current sources agree with what the models
  assume.  Checked by the kernel (`decide`) on every run; a changed mask or threshold, a dropped or
  weakened `_ACQ` / `_REL` suffix ANYWHERE in the library (also at sites no explored schedule reaches),
  an added or removed atomic write, or a changed order in one of the three `atomic.h` flavours makes one
  of these fail.  Adding relaxed loads does not.
-/
namespace NsyncVerif.Tie
open NsyncVerif

def isWrite (m : String) : Bool := m != "ATM_LOAD" && m != "ATM_LOAD_ACQ"

def countAcq (k : String × String × String) : Nat :=
  (Gen.sites.filter (fun s => s.2.2.1 == "ATM_LOAD_ACQ" && s.1 == k.1 && s.2.1 == k.2.1 && s.2.2.2 == k.2.2)).length

/-- G3a: the atomic WRITE sites of the library (file, function, macro with its order suffix, location). -/
theorem writes_tie : (Gen.sites.filter (fun s => isWrite s.2.2.1) == Expected.writes) = true := by decide

/-- G3b: every acquire load the models rely on is still an acquire load. -/
theorem acq_loads_tie : (Expected.acqLoads.all (fun e => decide (e.2 ≤ countAcq e.1))) = true := by decide

end NsyncVerif.Tie
