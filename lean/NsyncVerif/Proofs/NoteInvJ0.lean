/-
  Layer `Note`: how a note enters a children list, with the guards of the two steps that do it.
-/
import NsyncVerif.Proofs.NoteInvT

set_option linter.unusedSimpArgs false

namespace Note

/-- (Stronger form, with the guards of the two steps.)  A note enters a children list only by `nsync_note_new` (note.c:186) or by the adoption in
    `nsync_note_free` (note.c:217). -/
theorem step_children' {s s' : State} {e : Event} (hs : step s e = .ok s') (p c : NoteId)
    (hc : c ∈ (s'.notes p).children) :
    c ∈ (s.notes p).children ∨
    (∃ a dl, e.actor = some a ∧ s.pc a = .newP .ld c p dl ∧ (s.notes p).ntime.pos) ∨
    (∃ a n nx, e = .lockRet a ∧ s.pc a = .fr .lockChildRet n (some p) c nx ∧
      (s.notes c).disconnecting = 0) := by
  cases e
  all_goals step_cases hs
  all_goals (try (left; exact hc))
  all_goals (try (left; simpa using hc))
  all_goals (repeat' split at hc)
  all_goals (try (left; simpa using hc))
  -- nsync_note_new links the child
  all_goals (try (
    simp only [setPc_notes, link_f_children, setExpiry_f_children] at hc
    split at hc
    · next hp =>
      subst hp
      rcases List.mem_append.mp hc with h | h
      · left; exact h
      · simp only [List.mem_singleton] at h; subst h
        right; left; exact ⟨_, _, rfl, by assumption, by assumption⟩
    · left; exact hc))
  -- nsync_note_free adopts / drops a child
  all_goals (try (
    simp only [setPc_notes, link_f_children, eraseChild_f_children, clearParent_f_children,
      acquire_f_children] at hc
    first
      | (split at hc
         · next hp =>
           subst hp
           rcases List.mem_append.mp hc with h | h
           · left
             split at h
             · exact List.mem_of_mem_erase h
             · exact h
           · simp only [List.mem_singleton] at h; subst h
             right; right; exact ⟨_, _, _, rfl, by assumption, by assumption⟩
         · left
           split at hc
           · exact List.mem_of_mem_erase hc
           · exact hc)
      | (left
         split at hc
         · exact List.mem_of_mem_erase hc
         · exact hc)))
  -- disconnections
  all_goals (try (
    left
    simp only [setPc_notes, childReturn_f_children, unlink_f_children, acquire_f_children] at hc
    split at hc
    · exact List.mem_of_mem_erase hc
    · exact hc))
  -- malloc
  · left
    simp only [setPc_notes, allocNote_f] at hc
    split at hc
    · simp [NoteRec.blank] at hc
    · exact hc


end Note
