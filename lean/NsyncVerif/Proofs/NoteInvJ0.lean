/-
  Layer `Note`: how a note enters a children list, with the guards of the two steps that do it.
-/
import NsyncVerif.Proofs.NoteInvT

set_option linter.unusedSimpArgs false

namespace Note

/-- (Stronger form, with the guards of the two steps.)  A note enters a children list only by `nsync_note_new` (note.c:186) or by the adoption in
    `nsync_note_free` (note.c:217). -/
theorem step_children' {s s' : State} {e : Event} (hs : step s e = .ok s') (p c : NoteId)
    (hc : c ∈ (s'.notes p).children) :
    c ∈ (s.notes p).children ∨
    (∃ a dl, e.actor = some a ∧ s.pc a = .newP .ld c p dl ∧ (s.notes p).ntime.pos) ∨
    (∃ a n nx, e = .lockRet a ∧ s.pc a = .fr .lockChildRet n (some p) c nx ∧
      (s.notes c).disconnecting = 0) := by
  cases e
  all_goals step_cases hs
  all_goals (try (left; exact hc))
  all_goals (try (left; simpa using hc))
  all_goals (repeat' split at hc)
  all_goals (try (left; simpa using hc))
  -- nsync_note_new links the child
  all_goals (try (
    simp only [setPc_notes, link_f_children, setExpiry_f_children] at hc
    split at hc
    · next hp =>
      subst hp
      rcases List.mem_append.mp hc with h | h
      · left; exact h
      · simp only [List.mem_singleton] at h; subst h
        right; left; exact ⟨_, _, rfl, by assumption, by assumption⟩
    · left; exact hc))
  -- nsync_note_free adopts / drops a child
  all_goals (try (
    simp only [setPc_notes, link_f_children, eraseChild_f_children, clearParent_f_children,
      acquire_f_children, setAdopted_f_children] at hc
    first
      | (split at hc
         · next hp =>
           subst hp
           rcases List.mem_append.mp hc with h | h
           · left
             split at h
             · exact List.mem_of_mem_erase h
             · exact h
           · simp only [List.mem_singleton] at h; subst h
             right; right; exact ⟨_, _, _, rfl, by assumption, by assumption⟩
         · left
           split at hc
           · exact List.mem_of_mem_erase hc
           · exact hc)
      | (left
         split at hc
         · exact List.mem_of_mem_erase hc
         · exact hc)))
  -- disconnections
  all_goals (try (
    left
    simp only [setPc_notes, childReturn_f_children, unlink_f_children, acquire_f_children] at hc
    split at hc
    · exact List.mem_of_mem_erase hc
    · exact hc))
  -- malloc
  · left
    simp only [setPc_notes, allocNote_f] at hc
    split at hc
    · simp [NoteRec.blank] at hc
    · exact hc

/-! ### Notes on a creation-time path are published; a note being created has no children -/

/-- Every note on the creation-time path of `n`, other than `n` itself, has been returned by
    `nsync_note_new` (it was passed as the `parent` argument of a later `nsync_note_new`). -/
def InvG (s : State) : Prop :=
  ∀ n a, a ∈ s.ancEver n → a ≠ n → s.published a = true

theorem InvG.init : InvG Note.init := by
  intro n a ha; simp [Note.init] at ha

theorem step_invG {s s' : State} {e : Event} (hX : InvX s) (hG : InvG s)
    (hs : step s e = .ok s') : InvG s' := by
  intro n a ha hne
  have hst := step_stable hs
  rcases step_ghost hs n with ⟨h, _, _⟩ | ⟨h0, h1⟩
  · rw [h] at ha; exact hst.published a (hG n a ha hne)
  · rcases step_alloc hs n h1 with h | ⟨t, par, dl, _, hpc, _, _, _, han, _⟩
    · simp [h0] at h
    · rw [han] at ha
      rcases List.mem_cons.mp ha with ha | ha
      · exact absurd ha hne
      · cases par with
        | none => simp [State.ancOf] at ha
        | some p =>
          simp only [State.ancOf] at ha
          have hc := hX.claim t
          rw [hpc] at hc
          by_cases hap : a = p
          · subst hap; exact hst.published a (hc a rfl).1
          · exact hst.published a (hG p a ha hap)

theorem Reachable.invG {s : State} (h : Reachable s) : InvG s := by
  refine Reachable.induction (P := InvG) InvG.init ?_ s h
  intro s e s' hr hG hs
  exact step_invG hr.inv6.2.2.2.1 hG hs

/-- A note with children has been returned by `nsync_note_new`. -/
theorem Reachable.children_published {s : State} (hr : Reachable s) {p c : NoteId}
    (h : c ∈ (s.notes p).children) : s.published p = true := by
  obtain ⟨_, _, hS, _, hL, _⟩ := hr.inv6
  exact hr.invG c p (hS.children p c h).1 (hL.children p c h)

/-- A note that is still being created has no children. -/
theorem Reachable.creating_no_children {s : State} (hr : Reachable s) {t : Tid} {n : NoteId}
    (hc : (s.pc t).creating = some n) : (s.notes n).children = [] := by
  cases h : (s.notes n).children with
  | nil => rfl
  | cons c cs =>
    have := hr.children_published (p := n) (c := c) (by rw [h]; simp)
    rw [(hr.inv6.1.creating t n hc).2] at this
    cases this

end Note
