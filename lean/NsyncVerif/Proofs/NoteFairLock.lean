/-
  Layer `Note`, fair termination for leaf calls, first half: after the last API entry the set of
  notes stops growing (`settled`), and from then on every note mutex is free again and again
  (`lock_recurs`), by induction on the number of notes below the mutex in the creation order
  (`C09_lock_order`: a holder waits only for mutexes strictly below).
-/
import NsyncVerif.Proofs.NoteFairKeep

set_option linter.unusedSimpArgs false

namespace Note

variable {s0 : State}

/-- The hypotheses of `C09_fair_termination_leaf`. -/
structure LeafHyps (x : Exec s0) : Prop where
  reach : Reachable s0
  weak : WeakFair x
  lock : LockFair x
  fin : FiniteArrivals x
  leaf : LeafCalls x

theorem Exec.stable (x : Exec s0) (i : Nat) : ∀ d, Stable (x.ρ i) (x.ρ (i + d)) := by
  intro d
  induction d with
  | zero => exact Stable.refl _
  | succ d ih =>
    cases h : x.σ (i + d) with
    | none => rw [show i + (d + 1) = i + d + 1 by omega, x.next_none h]; exact ih
    | some e => exact ih.trans (step_stable (x.next_some h))

theorem Exec.stable_le (x : Exec s0) {i j : Nat} (h : i ≤ j) : Stable (x.ρ i) (x.ρ j) := by
  obtain ⟨d, rfl⟩ : ∃ d, j = i + d := ⟨j - i, by omega⟩
  exact x.stable i d

/-- No `call` event from time `N` on. -/
def NoCalls (x : Exec s0) (N : Nat) : Prop := ∀ j t a, N ≤ j → x.σ j ≠ some (.call t a)

theorem idle_stays (x : Exec s0) {N : Nat} (hN : NoCalls x N) {t : Tid} {i : Nat} (hi : N ≤ i)
    (hp : (x.ρ i).pc t = .idle) : ∀ d, (x.ρ (i + d)).pc t = .idle := by
  intro d
  induction d with
  | zero => exact hp
  | succ d ih =>
    cases h : x.σ (i + d) with
    | none => rw [show i + (d + 1) = i + d + 1 by omega, x.next_none h]; exact ih
    | some e =>
      refine step_idle (x.next_some h) ih (fun a he => ?_)
      exact hN (i + d) t a (by omega) (by rw [h, he])

theorem malloc_stays (x : Exec s0) {N : Nat} (hN : NoCalls x N) {t : Tid} {i : Nat} (hi : N ≤ i)
    (hp : ((x.ρ i).pc t).isMalloc = false) : ∀ d, ((x.ρ (i + d)).pc t).isMalloc = false := by
  intro d
  induction d with
  | zero => exact hp
  | succ d ih =>
    cases h : x.σ (i + d) with
    | none => rw [show i + (d + 1) = i + d + 1 by omega, x.next_none h]; exact ih
    | some e =>
      cases hm : ((x.ρ (i + (d + 1))).pc t).isMalloc with
      | false => rfl
      | true =>
        have := step_isMalloc (x.next_some h) hm (fun a he => hN (i + d) t a (by omega) (by rw [h, he]))
        rw [ih] at this; cases this

theorem lockWait_of_leaf {p : PC} (h : p.inChildLoop = false) : p.lockWait = p.wants := by
  cases p with
  | chd pos stk top =>
    cases pos with
    | waitRet b => cases b <;> simp [PC.inChildLoop] at h <;> rfl
    | _ => rfl
  | fr pos n par c nx =>
    cases pos with
    | waitRet b => cases b <;> simp [PC.inChildLoop] at h <;> rfl
    | _ => rfl
  | _ => rfl

/-- A thread inside a leaf call whose wanted mutex (if any) is free and whose semaphore (if it
    sleeps) is ready, is `Ready`. -/
theorem ready_of {s : State} (hr : Reachable s) {t : Tid} (hp : s.pc t ≠ .idle)
    (hl : (s.pc t).inChildLoop = false)
    (hw : ∀ m, (s.pc t).wants = some m → (s.notes m).lockHolder = none) (hs : SemReady s t) :
    Ready s t := by
  refine ⟨hp, hw, ?_, hs⟩
  have hP := hr.invScan
  unfold WaitBlocked
  split
  · next k f rest top hpc =>
    cases k with
    | true => rw [hP.keptC t f rest top hpc]; simp
    | false => rw [hpc] at hl; simp [PC.inChildLoop] at hl
  · next k n par c nx hpc =>
    cases k with
    | true => rw [hP.keptF t n par c nx hpc]; simp
    | false => rw [hpc] at hl; simp [PC.inChildLoop] at hl
  · exact fun h => h

theorem semReady_of_not_asleep {s : State} {t : Tid}
    (h : ∀ d n wdl r, s.pc t ≠ .wt (.pdRet d) n wdl r) : SemReady s t := by
  unfold SemReady
  split
  · next d n wdl r hpc => exact absurd hpc (h d n wdl r)
  · trivial

/-- A thread at the `malloc` of `nsync_note_new` gets past it. -/
theorem malloc_passes (x : Exec s0) (hy : LeafHyps x) {t : Tid} {i : Nat}
    (hp : ((x.ρ i).pc t).isMalloc = true) : ∃ j, i ≤ j ∧ ((x.ρ j).pc t).isMalloc = false := by
  have hmv : ∃ j, i ≤ j ∧ Moves x t j := by
    refine fair_move x hy.weak (fun j hj hnm => ?_)
    have hpc := pc_between x hj hnm
    cases hq : (x.ρ i).pc t with
    | newMalloc par dl =>
      rw [hq] at hpc
      refine ready_of (x.reach hy.reach j) (by rw [hpc]; simp) (by rw [hpc]; rfl) ?_ ?_
      · intro m hm; rw [hpc] at hm; cases hm
      · exact semReady_of_not_asleep (fun d n wdl r h => by rw [hpc] at h; cases h)
    | _ => rw [hq] at hp; cases hp
  obtain ⟨j, hij, ⟨e, he, ha⟩, hfirst⟩ := first_move' x hmv
  have hpc := pc_between x hij hfirst
  have hne : (x.ρ j).pc t ≠ .idle := by
    rw [hpc]; intro h; rw [h] at hp; cases hp
  refine ⟨j + 1, by omega, ?_⟩
  rcases own_keep (x.next_some he) ha hne with h | ⟨_, h⟩
  · rw [h]; rfl
  · exact h

theorem list_bound {P : Tid → Nat → Prop} (N : Nat) : ∀ L : List Tid,
    (∀ t ∈ L, ∃ j, N ≤ j ∧ ∀ j', j ≤ j' → P t j') → ∃ J, N ≤ J ∧ ∀ t ∈ L, ∀ j', J ≤ j' → P t j' := by
  intro L
  induction L with
  | nil => intro _; exact ⟨N, Nat.le_refl _, fun t ht => by cases ht⟩
  | cons a L ih =>
    intro h
    obtain ⟨J, hJ, hL⟩ := ih (fun t ht => h t (List.mem_cons_of_mem _ ht))
    obtain ⟨ja, hja, ha⟩ := h a List.mem_cons_self
    refine ⟨max J ja, by omega, fun t ht j' hj' => ?_⟩
    rcases List.mem_cons.mp ht with rfl | ht
    · exact ha j' (by omega)
    · exact hL t ht j' (by omega)

/-- From some time on there is no `call` and no thread is at the `malloc` of `nsync_note_new`:
    the set of notes is settled. -/
def Settled (x : Exec s0) (N : Nat) : Prop :=
  NoCalls x N ∧ ∀ j t, N ≤ j → ((x.ρ j).pc t).isMalloc = false

theorem settled (x : Exec s0) (hy : LeafHyps x) : ∃ N, Settled x N := by
  obtain ⟨N, hN⟩ := hy.fin
  have hN' : NoCalls x N := fun j t a hj => hN j t a hj
  obtain ⟨L, _, hL, _⟩ := C09_disconnecting_count (x.reach hy.reach N)
  have hall : ∀ t, ∃ j, N ≤ j ∧ ∀ j', j ≤ j' → ((x.ρ j').pc t).isMalloc = false := by
    intro t
    cases hm : ((x.ρ N).pc t).isMalloc with
    | false =>
      refine ⟨N, Nat.le_refl _, fun j' hj' => ?_⟩
      obtain ⟨d, rfl⟩ : ∃ d, j' = N + d := ⟨j' - N, by omega⟩
      exact malloc_stays x hN' (Nat.le_refl _) hm d
    | true =>
      obtain ⟨j, hj, hf⟩ := malloc_passes x hy hm
      refine ⟨j, hj, fun j' hj' => ?_⟩
      obtain ⟨d, rfl⟩ : ∃ d, j' = j + d := ⟨j' - j, by omega⟩
      exact malloc_stays x hN' hj hf d
  obtain ⟨J, hJ, hJL⟩ := list_bound (P := fun t j => ((x.ρ j).pc t).isMalloc = false) N L
    (fun t _ => hall t)
  refine ⟨J, fun j t a hj => hN' j t a (by omega), fun j t hj => ?_⟩
  by_cases ht : t ∈ L
  · exact hJL t ht j hj
  · have hid : (x.ρ N).pc t = .idle := by
      apply Classical.byContradiction; intro h; exact ht (hL t h)
    obtain ⟨d, rfl⟩ : ∃ d, j = N + d := ⟨j - N, by omega⟩
    rw [idle_stays x hN' (Nat.le_refl _) hid d]; rfl

/-- Once settled, no note is allocated any more. -/
theorem alloc_back (x : Exec s0) {N : Nat} (hS : Settled x N) (k : NoteId) : ∀ d,
    ((x.ρ (N + d)).notes k).allocated = true → ((x.ρ N).notes k).allocated = true := by
  intro d
  induction d with
  | zero => exact fun h => h
  | succ d ih =>
    intro h
    cases hs : x.σ (N + d) with
    | none => rw [show N + (d + 1) = N + d + 1 by omega, x.next_none hs] at h; exact ih h
    | some e =>
      rcases step_alloc (x.next_some hs) k h with h' | ⟨a, par, dl, _, hpc, _⟩
      · exact ih h'
      · have := hS.2 (N + d) a (by omega)
        rw [hpc] at this; cases this

/-- … and the creation order is the one at time `N`. -/
theorem lt_back (x : Exec s0) (hr : Reachable s0) {N : Nat} (hS : Settled x N) {j : Nat}
    (hj : N ≤ j) {a b : NoteId} (h : Lt (x.ρ j) a b) : Lt (x.ρ N) a b := by
  obtain ⟨d, rfl⟩ : ∃ d, j = N + d := ⟨j - N, by omega⟩
  have hSj := (x.reach hr (N + d)).inv6.2.2.1
  have ha := alloc_back x hS a d (h.alloc_left hSj)
  have hb := alloc_back x hS b d (h.alloc_right hSj)
  have hst := x.stable N d
  have ea := (hst.ghost a ha).2.1
  have eb := (hst.ghost b hb).2.1
  obtain ⟨⟨h1, h2⟩, h3⟩ := h
  rw [ea, eb] at h2
  rw [eb] at h1
  exact ⟨⟨h1, h2⟩, h3⟩

theorem held_not_idle {s : State} (hr : Reachable s) {u : Tid} {m : NoteId}
    (hh : (s.notes m).lockHolder = some u) : s.pc u ≠ .idle := by
  intro h
  have := (hr.inv6.2.2.2.2.2.iff m u).mp hh
  rw [h] at this; simp [PC.held] at this

/-- A thread that never moves again keeps its program counter. -/
theorem pc_const (x : Exec s0) {t : Tid} {i : Nat} (hn : ∀ j, i ≤ j → ¬ Moves x t j) {j : Nat}
    (hj : i ≤ j) : (x.ρ j).pc t = (x.ρ i).pc t :=
  pc_between x hj (fun j' h1 _ => hn j' h1)

/-- A thread inside a leaf call that is not asleep moves, provided the mutexes below the ones it
    holds … more precisely: provided the mutex it wants (if any) is free again and again. -/
theorem moves_of_recurs (x : Exec s0) (hy : LeafHyps x) {t : Tid} {i : Nat}
    (hp : (x.ρ i).pc t ≠ .idle)
    (hrec : ∀ m, ((x.ρ i).pc t).wants = some m →
      ∀ j, i ≤ j → ∃ j', j ≤ j' ∧ ((x.ρ j').notes m).lockHolder = none)
    (hsem : (∀ j, i ≤ j → ¬ Moves x t j) → ∃ i', i ≤ i' ∧ ∀ j, i' ≤ j → SemReady (x.ρ j) t) :
    ∃ j, i ≤ j ∧ Moves x t j := by
  apply Classical.byContradiction
  intro hno
  have hn : ∀ j, i ≤ j → ¬ Moves x t j := fun j hj hm => hno ⟨j, hj, hm⟩
  have hleaf : ((x.ρ i).pc t).inChildLoop = false := hy.leaf i t
  cases hw : ((x.ρ i).pc t).wants with
  | some m =>
    obtain ⟨j, hj, hm⟩ := hy.lock t m i
      (fun j hj => by rw [pc_const x hn hj, lockWait_of_leaf hleaf]; exact hw) (hrec m hw)
    exact hn j hj hm
  | none =>
    obtain ⟨i', hi', hsr⟩ := hsem hn
    obtain ⟨j, hj, hm⟩ := hy.weak t i' (fun j hj => by
      have hpc := pc_const x hn (Nat.le_trans hi' hj)
      refine ready_of (x.reach hy.reach j) (by rw [hpc]; exact hp) (hy.leaf j t) ?_ (hsr j hj)
      intro m hm; rw [hpc, hw] at hm; cases hm)
    exact hn j (Nat.le_trans hi' hj) hm

/-- The number of notes strictly below `m` in the (settled) creation order. -/
noncomputable def below (s : State) (B : Nat) (m : NoteId) : Nat :=
  open Classical in ((List.range B).filter (fun k => decide (Lt s m k))).length

theorem below_lt {s : State} (hr : Reachable s) {B : Nat}
    (hB : ∀ k, (s.notes k).allocated = true → k < B) {m m' : NoteId} (hlt : Lt s m m') :
    below s B m' < below s B m := by
  obtain ⟨_, _, hS, _, hL, _⟩ := hr.inv6
  unfold below
  refine length_filter_lt (a := m') ?_ ?_ ?_ ?_
  · intro k hk
    simp only [decide_eq_true_eq] at hk ⊢
    exact Lt.trans hL hlt hk
  · exact List.mem_range.mpr (hB m' (hlt.alloc_right hS))
  · simpa using hlt
  · simp only [decide_eq_false_iff_not]; exact fun h => h.irrefl

/-- LOCK RECURRENCE: once settled, every note mutex is free again and again. -/
theorem lock_recurs (x : Exec s0) (hy : LeafHyps x) {N : Nat} (hS : Settled x N) :
    ∀ m i, N ≤ i → ∃ j, i ≤ j ∧ ((x.ρ j).notes m).lockHolder = none := by
  obtain ⟨B, hB⟩ := (x.reach hy.reach N).alloc_bound
  intro m
  induction hn : below (x.ρ N) B m using Nat.strongRecOn generalizing m with
  | _ n ih =>
    intro i hi
    cases hh : ((x.ρ i).notes m).lockHolder with
    | none => exact ⟨i, Nat.le_refl _, hh⟩
    | some u =>
      -- the holder `u` releases `m`
      have hK : ∀ j, LockInv (x.ρ j) := fun j => (x.reach hy.reach j).inv6.2.2.2.2.2
      refine leads x u (fun j => N ≤ j ∧ ((x.ρ j).notes m).lockHolder = some u)
        (fun j => ((x.ρ j).notes m).lockHolder = none) (fun j => rank (x.ρ j) u) ?_ ?_ ?_ i ⟨hi, hh⟩
      · -- steps of the others
        rintro j ⟨hj, hu⟩ hnm
        right
        cases hs : x.σ j with
        | none => rw [x.next_none hs]; exact ⟨⟨by omega, hu⟩, rfl⟩
        | some e =>
          have hne : e.actor ≠ some u := fun ha => hnm ⟨e, hs, ha⟩
          exact ⟨⟨by omega, (step_lock_other (hK j) (x.next_some hs) u hne m).mpr hu⟩,
            other_step_rank (hK j) (x.next_some hs) hne⟩
      · -- own steps
        rintro j ⟨hj, hu⟩ ⟨e, hs, ha⟩
        have hst := x.next_some hs
        rcases step_lock_actor (hK j) hst hu with hu' | hu'
        · right
          refine ⟨⟨by omega, hu'⟩, ?_⟩
          rcases own_step hst ha (held_not_idle (x.reach hy.reach j) hu) (hy.leaf j u)
            (hy.leaf (j + 1) u) with h | h | ⟨n, nt, r, wdl, hpc, _⟩
          · exact absurd h (held_not_idle (x.reach hy.reach (j + 1)) hu')
          · exact h
          · have := ((hK j).iff m u).mp hu
            rw [hpc] at this; simp [PC.held] at this
        · exact Or.inl hu'
      · -- the holder moves
        rintro j ⟨hj, hu⟩
        refine moves_of_recurs x hy (held_not_idle (x.reach hy.reach j) hu) ?_ ?_
        · intro m' hw j' hj'
          have hlt := lt_back x hy.reach hS hj (lock_order (x.reach hy.reach j) hw hu)
          exact ih _ (hn ▸ below_lt (x.reach hy.reach N) hB hlt) m' rfl j' (by omega)
        · intro _
          refine ⟨j, Nat.le_refl _, fun j' hj' => ?_⟩
          -- a holder is not asleep … but its pc may have changed: it has not moved
          exact semReady_of_not_asleep (fun d n wdl r h => by
            rename_i hnm
            have hpc := pc_const x hnm hj'
            have := ((hK j).iff m u).mp hu
            rw [← hpc, h] at this; simp [PC.held] at this)

end Note
