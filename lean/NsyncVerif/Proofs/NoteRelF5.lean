/-
  Layer `Note`, invariant family F (the current forest), second part: the `disconnecting`
  counters, the local `parent` of a `disconnecting` section, and the invariant itself.
-/
import NsyncVerif.Proofs.NoteRelF4

set_option linter.unusedSimpArgs false

namespace Note

/-- A thread inside a `disconnecting` section on `n` is inside an API call on `n`, or is creating
    `n` (the `notify` that `nsync_note_new` runs when the deadline has passed already). -/
theorem sec_arg_or_earlyNew {pc : PC} {n : NoteId} {par : Option NoteId}
    (h : pc.sec = some (n, par)) : pc.arg = some n ∨ pc.earlyNew = some n := by
  cases pc with
  | nfy pos m par' k =>
    cases hp : pos.inSec <;> simp [hp] at h
    obtain ⟨rfl, _⟩ := h
    cases k with
    | ofApi => left; rfl
    | ofDeadline dk => cases dk <;> simp [PC.arg, NK.arg, DK.arg]
  | chd pos stk top =>
    simp only [sec_chd, Option.some.injEq, Prod.mk.injEq] at h
    obtain ⟨rfl, _⟩ := h
    cases hk : top.k with
    | ofApi => left; simp [PC.arg, hk, NK.arg]
    | ofDeadline dk => cases dk <;> simp [PC.arg, hk, NK.arg, DK.arg]
  | fr pos m par' c nx =>
    cases hp : pos.inSec <;> simp [hp] at h
    obtain ⟨rfl, _⟩ := h
    left; rfl
  | _ => simp at h

/-- … hence `n->disconnecting` is not zero, or `n` is on no children list. -/
theorem InvForest.sec_protects {s : State} (hU : InvU s) (hF : InvForest s) {t : Tid} {n : NoteId}
    {par : Option NoteId} (h : (s.pc t).sec = some (n, par)) :
    1 ≤ (s.notes n).disconnecting ∨ ∀ q, n ∉ (s.notes q).children := by
  rcases sec_arg_or_earlyNew h with h1 | h1
  · left
    have hm : t ∈ s.users n := (hU.users t n).mpr h1
    refine Nat.le_trans ?_ (hF.disc n)
    exact List.countP_pos_iff.mpr ⟨t, hm, by simp [inSecB, h]⟩
  · right; exact hF.early t n h1

/-- While a thread is inside a `disconnecting` section on `n`, `n` gets no new parent. -/
theorem InvForest.parent_keep {s s' : State} {e : Event} (hA : InvA s) (hS : InvS s) (hL : InvL s)
    (hU : InvU s) (hR : InvR s) (hF : InvForest s) (hs : step s e = .ok s') {t : Tid} {n : NoteId}
    {par : Option NoteId} (h : (s.pc t).sec = some (n, par)) {q : NoteId}
    (hq : (s'.notes n).parent = some q) : (s.notes n).parent = some q := by
  rcases step_forest hS hL hs with hf | ⟨a, c0, p0, dl, ha, hpc, _, _, hf⟩ |
    ⟨a, n0, p0, c0, nx, ha, hpc, hd, hf⟩ | ⟨a, n0, c0, nx, ha, hpc, _, hf⟩ |
    ⟨a, c0, p0, ha, hun, _, hf⟩
  · rw [(hf n).2] at hq; exact hq
  · rw [(hf n).2] at hq
    split at hq
    · next hn =>
      -- `n` is being created by `a`
      exfalso
      subst hn
      have hcr : (s.pc a).creating = some n := by rw [hpc]; simp
      rcases sec_arg_or_earlyNew h with h1 | h1
      · have := hR.pub t n ((hU.users t n).mpr h1)
        rw [(hA.creating a n hcr).2] at this; cases this
      · have : t = a := hA.unique t a n (earlyNew_creating h1) hcr
        subst this
        rw [hpc] at h; simp at h
    · exact hq
  · rw [(hf n).2] at hq
    split at hq
    · next hn =>
      -- `n` is adopted: its `disconnecting` is zero and it is on a children list
      exfalso
      subst hn
      rcases hF.sec_protects hU h with h1 | h1
      · omega
      · exact h1 n0 (hF.frc a _ _ _ _ _ hpc rfl)
    · exact hq
  · rw [(hf n).2] at hq
    split at hq
    · cases hq
    · exact hq
  · rw [(hf n).2] at hq
    split at hq
    · cases hq
    · exact hq

theorem InvForest.step_stale {s s' : State} {e : Event} (hA : InvA s) (hS : InvS s) (hL : InvL s)
    (hU : InvU s) (hR : InvR s) (hF : InvForest s) (hs : step s e = .ok s') (t : Tid) (n : NoteId)
    (par : Option NoteId) (h : (s'.pc t).sec = some (n, par)) :
    (s'.notes n).parent = par ∨ (s'.notes n).parent = none := by
  -- the thread was in the section already
  have old : (s.pc t).sec = some (n, par) →
      (s'.notes n).parent = par ∨ (s'.notes n).parent = none := by
    intro h0
    cases hp : (s'.notes n).parent with
    | none => right; rfl
    | some q =>
      left
      have h1 := hF.parent_keep hA hS hL hU hR hs h0 hp
      rcases hF.stale t n par h0 with h2 | h2
      · rw [← h2, h1]
      · rw [h1] at h2; cases h2
  by_cases ha : e.actor = some t
  · rcases step_sec hs t ha with ⟨h1, _⟩ | ⟨m, par1, _, h2, h3, _, hf, _⟩ | ⟨m, par1, _, h2, _⟩ |
      ⟨k, _, h1, _⟩
    · exact old (h1 ▸ h)
    · rw [h2] at h
      simp only [Option.some.injEq, Prod.mk.injEq] at h
      obtain ⟨rfl, rfl⟩ := h
      left; rw [(hf m).2]; exact h3
    · rw [h2] at h; cases h
    · exact old (h1 ▸ h)
  · rw [step_pc_other hs t ha] at h
    exact old h

theorem InvForest.step_disc {s s' : State} {e : Event} (hA : InvA s) (hU : InvU s) (hR : InvR s)
    (hF : InvForest s) (hs : step s e = .ok s') (n : NoteId) :
    (s'.users n).countP (fun t => inSecB (s'.pc t) n) ≤ (s'.notes n).disconnecting := by
  cases hact : e.actor with
  | none =>
    obtain ⟨h1, h2, _, h4⟩ := step_noactor hs hact
    rw [h1, h2, h4]; exact hF.disc n
  | some a =>
    have hother : ∀ t, t ≠ a → inSecB (s'.pc t) n = inSecB (s.pc t) n := by
      intro t ht
      rw [step_pc_other hs t (by rw [hact]; exact fun h => ht (Option.some.inj h).symm)]
    have hidle : s.pc a = .idle → inSecB (s.pc a) n = false := by
      intro h; rw [h]; rfl
    -- a user list of an unpublished note is empty
    have hunpub : s.published n = false → s.users n = [] := by
      intro hp
      cases hu : s.users n with
      | nil => rfl
      | cons t ts =>
        have := hR.pub t n (by rw [hu]; simp)
        rw [hp] at this; cases this
    rcases step_sec hs a hact with ⟨h1, hd⟩ | ⟨m, par1, h1, h2, _, hu, _, hd⟩ |
      ⟨m, par1, h1, h2, hu, hd⟩ | ⟨k, hk, h1, hu, hd, hdk⟩
    · -- the section of the acting thread is unchanged
      have hsame : ∀ t, inSecB (s'.pc t) n = inSecB (s.pc t) n := by
        intro t
        by_cases ht : t = a
        · subst ht; simp only [inSecB, h1]
        · exact hother t ht
      rw [hd n]
      have hfun : (fun t => inSecB (s'.pc t) n) = (fun t => inSecB (s.pc t) n) :=
        funext hsame
      rw [hfun]
      refine Nat.le_trans ?_ (hF.disc n)
      rcases step_arg hs a hact with ⟨_, h2, _⟩ | ⟨m, hi, _, h3, _, _⟩ | ⟨m, _, hi, h3⟩ |
        ⟨_, _, h3⟩ | ⟨_, _, h3⟩
      · rw [h2]; exact Nat.le_refl _
      · rw [h3, upd_apply]
        split
        · next hm => subst hm; simp [List.countP_cons, hidle hi]
        · exact Nat.le_refl _
      · rw [h3, upd_apply]
        split
        · next hm => subst hm; exact List.Sublist.countP_le (List.erase_sublist ..)
        · exact Nat.le_refl _
      · rw [h3]; exact Nat.le_refl _
      · rw [h3]; exact Nat.le_refl _
    · -- `m->disconnecting++`
      rw [hu, hd n]
      split
      · next hm =>
        subst hm
        refine Nat.le_trans (countP_le_succ (hU.nodup n) hother) ?_
        exact Nat.succ_le_succ (hF.disc n)
      · next hm =>
        have hfun : (fun t => inSecB (s'.pc t) n) = (fun t => inSecB (s.pc t) n) := by
          funext t
          by_cases ht : t = a
          · subst ht; simp [inSecB, h1, h2]; exact fun h => hm h.symm
          · exact hother t ht
        rw [hfun]; exact hF.disc n
    · -- `m->disconnecting--`
      rw [hu, hd n]
      split
      · next hm =>
        subst hm
        by_cases hmem : a ∈ s.users n
        · have := countP_succ_le (p := fun t => inSecB (s.pc t) n)
            (p' := fun t => inSecB (s'.pc t) n) (hU.nodup n) hmem (by simp [inSecB, h1])
            (by simp [inSecB, h2]) hother
          have := hF.disc n
          omega
        · -- the acting thread is creating `n`: nobody else can be inside a call on `n`
          rcases sec_arg_or_earlyNew h1 with h3 | h3
          · exact absurd ((hU.users a n).mpr h3) hmem
          · rw [hunpub (hA.creating a n (earlyNew_creating h3)).2]; simp
      · next hm =>
        have hfun : (fun t => inSecB (s'.pc t) n) = (fun t => inSecB (s.pc t) n) := by
          funext t
          by_cases ht : t = a
          · subst ht; simp [inSecB, h1, h2]; exact fun h => hm h.symm
          · exact hother t ht
        rw [hfun]; exact hF.disc n
    · -- malloc
      have hfun : (fun t => inSecB (s'.pc t) n) = (fun t => inSecB (s.pc t) n) := by
        funext t
        by_cases ht : t = a
        · subst ht; simp only [inSecB, h1]
        · exact hother t ht
      rw [hu, hfun]
      by_cases hnk : n = k
      · subst hnk
        have : s.users n = [] := by
          apply hunpub
          cases hp : s.published n with
          | false => rfl
          | true => have := hA.published n hp; rw [hk] at this; cases this
        rw [this]; simp
      · rw [hd n hnk]; exact hF.disc n

/-! ### The invariant -/

theorem step_invForest {s s' : State} {e : Event} (hr : Reachable s) (hF : InvForest s)
    (hs : step s e = .ok s') : InvForest s' := by
  obtain ⟨hA, _, hS, _, hL, hK⟩ := hr.inv6
  have hU := hr.invU
  have hR := hr.invR
  exact
    { c2p := (hF.step_c2p hS hL hs).1
      nodup := (hF.step_c2p hS hL hs).2
      early := hF.step_earlyNew hA hS hL hs
      frc := hF.step_frc hS hL hK hs
      chc := hF.step_chc hS hL hK hs
      chain := hF.step_chain hS hL hK hs
      disc := hF.step_disc hA hU hR hs
      stale := hF.step_stale hA hS hL hU hR hs }

theorem Reachable.invForest {s : State} (h : Reachable s) : InvForest s :=
  Reachable.induction (P := InvForest) InvForest.init (fun _ _ _ hr hi hs => step_invForest hr hi hs) s h

end Note
