/-
  Layer `Note`, invariant family F (the current forest), second part: the local `parent` of a
  `disconnecting` section gets no new value, and the `disconnecting` counters count exactly the
  increments not yet undone (`InvForest.step_cnt`).  The invariant itself: Proofs/NoteRelF6.lean.
-/
import NsyncVerif.Proofs.NoteRelF4

set_option linter.unusedSimpArgs false

namespace Note

/-- A thread inside a `disconnecting` section on `n` is inside an API call on `n`, or is creating
    `n` (the `notify` that `nsync_note_new` runs when the deadline has passed already). -/
theorem sec_arg_or_earlyNew {pc : PC} {n : NoteId} {par : Option NoteId}
    (h : pc.sec = some (n, par)) : pc.arg = some n ∨ pc.earlyNew = some n := by
  cases pc with
  | nfy pos m par' k =>
    cases hp : pos.inSec <;> simp [hp] at h
    obtain ⟨rfl, _⟩ := h
    cases k with
    | ofApi => left; rfl
    | ofDeadline dk => cases dk <;> simp [PC.arg, NK.arg, DK.arg]
  | chd pos stk top =>
    simp only [sec_chd, Option.some.injEq, Prod.mk.injEq] at h
    obtain ⟨rfl, _⟩ := h
    cases hk : top.k with
    | ofApi => left; simp [PC.arg, hk, NK.arg]
    | ofDeadline dk => cases dk <;> simp [PC.arg, hk, NK.arg, DK.arg]
  | fr pos m par' c nx =>
    cases hp : pos.inSec <;> simp [hp] at h
    obtain ⟨rfl, _⟩ := h
    left; rfl
  | _ => simp at h

theorem InvL.chd_ne_nil {s : State} (hL : InvL s) (a : Tid) :
    ∀ pos top, s.pc a ≠ .chd pos [] top := by
  intro pos top h
  have := (hL.claim_of h).2.2.1
  simp at this

/-- … hence `n->disconnecting` is not zero. -/
theorem InvForest.sec_protects {s : State} (hF : InvForest s) {t : Tid} {n : NoteId}
    {par : Option NoteId} (h : (s.pc t).sec = some (n, par)) :
    1 ≤ (s.notes n).disconnecting :=
  Nat.le_trans (cntOf_sec h) (hF.cnt_le t n)

/-- While a thread is inside a `disconnecting` section on `n`, `n` gets no new parent. -/
theorem InvForest.parent_keep {s s' : State} {e : Event} (hA : InvA s) (hS : InvS s) (hL : InvL s)
    (hU : InvU s) (hR : InvR s) (hF : InvForest s) (hs : step s e = .ok s') {t : Tid} {n : NoteId}
    {par : Option NoteId} (h : (s.pc t).sec = some (n, par)) {q : NoteId}
    (hq : (s'.notes n).parent = some q) : (s.notes n).parent = some q := by
  rcases step_forest hS hL hs with hf | ⟨a, c0, p0, dl, ha, hpc, _, _, hf⟩ |
    ⟨a, n0, p0, c0, nx, ha, hpc, hd, hf⟩ | ⟨a, n0, c0, nx, ha, hpc, _, hf⟩ |
    ⟨a, c0, p0, ha, hun, _, hf⟩
  · rw [(hf n).2] at hq; exact hq
  · rw [(hf n).2] at hq
    split at hq
    · next hn =>
      -- `n` is being created by `a`
      exfalso
      subst hn
      have hcr : (s.pc a).creating = some n := by rw [hpc]; simp
      rcases sec_arg_or_earlyNew h with h1 | h1
      · have := hR.pub t n ((hU.users t n).mpr h1)
        rw [(hA.creating a n hcr).2] at this; cases this
      · have : t = a := hA.unique t a n (earlyNew_creating h1) hcr
        subst this
        rw [hpc] at h; simp at h
    · exact hq
  · rw [(hf n).2] at hq
    split at hq
    · next hn =>
      -- `n` is adopted: its `disconnecting` is zero
      exfalso
      subst hn
      have := hF.sec_protects h
      omega
    · exact hq
  · rw [(hf n).2] at hq
    split at hq
    · cases hq
    · exact hq
  · rw [(hf n).2] at hq
    split at hq
    · cases hq
    · exact hq

theorem InvForest.step_stale {s s' : State} {e : Event} (hA : InvA s) (hS : InvS s) (hL : InvL s)
    (hU : InvU s) (hR : InvR s) (hF : InvForest s) (hs : step s e = .ok s') (t : Tid) (n : NoteId)
    (par : Option NoteId) (h : (s'.pc t).sec = some (n, par)) :
    (s'.notes n).parent = par ∨ (s'.notes n).parent = none := by
  -- the thread was in the section already
  have old : (s.pc t).sec = some (n, par) →
      (s'.notes n).parent = par ∨ (s'.notes n).parent = none := by
    intro h0
    cases hp : (s'.notes n).parent with
    | none => right; rfl
    | some q =>
      left
      have h1 := hF.parent_keep hA hS hL hU hR hs h0 hp
      rcases hF.stale t n par h0 with h2 | h2
      · rw [← h2, h1]
      · rw [h1] at h2; cases h2
  by_cases ha : e.actor = some t
  · rcases step_sec hs t ha (hL.chd_ne_nil t) with ⟨h1, _⟩ |
      ⟨m, par1, _, h2, _, _, h3, _, hf, _⟩ | ⟨m, par1, _, h2, _⟩ | ⟨k, _, h1, _⟩ |
      ⟨c, h1, _⟩ | ⟨c, h1, _⟩
    · exact old (h1 ▸ h)
    · rw [h2] at h
      simp only [Option.some.injEq, Prod.mk.injEq] at h
      obtain ⟨rfl, rfl⟩ := h
      left; rw [(hf m).2]; exact h3
    · rw [h2] at h; cases h
    · exact old (h1 ▸ h)
    · exact old (h1 ▸ h)
    · exact old (h1 ▸ h)
  · rw [step_pc_other hs t ha] at h
    exact old h

/-! ### The counters -/

/-- A note that is counted for a thread is allocated. -/
theorem cntOf_alloc {s : State} (hN : InvN s) (hS : InvS s) (hL : InvL s) {t : Tid} {n : NoteId}
    (h : cntOf (s.pc t) n ≠ 0) : (s.notes n).allocated = true := by
  have hcN := hN.claim t
  have hcL := hL.claim t
  cases hpc : s.pc t with
  | nfy pos m par k =>
    rw [hpc] at h hcN
    cases hp : pos.inSec <;> simp [cntOf, inSecB, hp] at h
    subst h; exact hcN.1
  | fr pos m par c nx =>
    rw [hpc] at h hcL
    cases hp : pos.inSec <;> simp [cntOf, inSecB, hp] at h
    subst h; exact hcL.1
  | chd pos stk top =>
    rw [hpc] at h hcN hcL
    by_cases hn : top.n = n
    · subst hn; exact hcN.1
    · simp only [cntOf, inSecB, sec_chd, beq_iff_eq, hn, if_false, Nat.zero_add, inner_chd] at h
      have hmem : n ∈ (stk.map Frame.note).dropLast := List.count_pos_iff.mp (by omega)
      -- an inner note is strictly below the note of the enclosing activation
      have key : ∀ (l : List Frame), ChainStk s l → ∀ x ∈ (l.map Frame.note).dropLast,
          ∃ y, Lt s y x := by
        intro l
        induction l with
        | nil => intro _ x hx; simp at hx
        | cons f rest ih =>
          intro hch x hx
          cases rest with
          | nil => simp at hx
          | cons g gs =>
            simp only [List.map_cons, List.dropLast_cons_cons, List.mem_cons] at hx
            rcases hx with hx | hx
            · subst hx; exact ⟨g.note, hch.1⟩
            · exact ih hch.2 x (by simpa using hx)
      obtain ⟨y, hy⟩ := key stk hcL.2.1 n hmem
      exact hy.alloc_right hS
  | _ => rw [hpc] at h; simp [cntOf, inSecB] at h

theorem cntOf_eq {pc pc' : PC} (h1 : pc'.sec = pc.sec) (h2 : pc'.inner = pc.inner) (n : NoteId) :
    cntOf pc' n = cntOf pc n := by
  unfold cntOf inSecB
  rw [h1, h2]

theorem cntOf_of_sec_none {pc : PC} (h1 : pc.sec = none) (n : NoteId) :
    cntOf pc n = pc.inner.count n := by
  unfold cntOf inSecB; rw [h1]; simp

theorem cntOf_of_sec_some {pc : PC} {m : NoteId} {par : Option NoteId}
    (h1 : pc.sec = some (m, par)) (n : NoteId) :
    cntOf pc n = (if n = m then 1 else 0) + pc.inner.count n := by
  unfold cntOf inSecB; rw [h1]
  by_cases hn : n = m
  · subst hn; simp
  · have : (m == n) = false := by simp [Ne.symm hn]
    simp [hn, this]

theorem cntOf_push {pc pc' : PC} {c : NoteId} (h1 : pc'.sec = pc.sec)
    (h2 : pc'.inner = c :: pc.inner) (n : NoteId) :
    cntOf pc' n = cntOf pc n + (if n = c then 1 else 0) := by
  unfold cntOf inSecB; rw [h1, h2, List.count_cons]
  by_cases hn : n = c
  · subst hn; simp; omega
  · have : (c == n) = false := by simp [Ne.symm hn]
    simp [hn, this]

theorem sum_map_zero (l : List Tid) : (l.map (fun _ => 0)).sum = 0 := by
  induction l with
  | nil => rfl
  | cons x xs ih => simpa using ih

theorem InvForest.step_cnt {s s' : State} {e : Event} (hN : InvN s) (hS : InvS s) (hL : InvL s)
    (hF : InvForest s) (hs : step s e = .ok s') :
    ∃ L : List Tid, L.Nodup ∧ (∀ t, s'.pc t ≠ .idle → t ∈ L) ∧
      ∀ n, (s'.notes n).disconnecting = (L.map (fun t => cntOf (s'.pc t) n)).sum := by
  obtain ⟨L, hnd, hmem, hsum⟩ := hF.cnt
  cases hact : e.actor with
  | none =>
    obtain ⟨h1, _, _, h4⟩ := step_noactor hs hact
    exact ⟨L, hnd, by rw [h1]; exact hmem, by rw [h1, h4]; exact hsum⟩
  | some a =>
    have hother : ∀ t, t ≠ a → s'.pc t = s.pc t := fun t ht =>
      step_pc_other hs t (by rw [hact]; exact fun h => ht (Option.some.inj h).symm)
    -- a list that contains the acting thread
    have hex : ∃ L1 : List Tid, L1.Nodup ∧ a ∈ L1 ∧ (∀ t, s.pc t ≠ .idle → t ∈ L1) ∧
        ∀ n, (s.notes n).disconnecting = (L1.map (fun t => cntOf (s.pc t) n)).sum := by
      by_cases ha : a ∈ L
      · exact ⟨L, hnd, ha, hmem, hsum⟩
      · have hidle : s.pc a = .idle := by
          cases h : decide (s.pc a = .idle) with
          | true => exact of_decide_eq_true h
          | false => exact absurd (hmem a (of_decide_eq_false h)) ha
        refine ⟨a :: L, List.nodup_cons.mpr ⟨ha, hnd⟩, List.mem_cons_self,
          fun t ht => List.mem_cons_of_mem _ (hmem t ht), fun n => ?_⟩
        simp only [List.map_cons, List.sum_cons, hidle, cntOf_idle, Nat.zero_add]
        exact hsum n
    obtain ⟨L1, hnd1, ha1, hmem1, hsum1⟩ := hex
    refine ⟨L1, hnd1, ?_, fun n => ?_⟩
    · intro t ht
      by_cases hta : t = a
      · subst hta; exact ha1
      · rw [hother t hta] at ht; exact hmem1 t ht
    · have hupd := sum_map_update (f := fun t => cntOf (s.pc t) n)
        (f' := fun t => cntOf (s'.pc t) n) hnd1 ha1 (fun t ht => by simp only [hother t ht])
      have hle := hF.cnt_le a n
      rw [← hsum1 n] at hupd
      rcases step_sec hs a hact (hL.chd_ne_nil a) with ⟨h1, h2, hd⟩ |
        ⟨m, par1, h1, h2, h3, h4, _, _, _, hd⟩ | ⟨m, par1, h1, h2, h3, h4, _, _, hd⟩ |
        ⟨k, hk, h1, h2, _, hd, hdk⟩ | ⟨c, h1, h2, _, _, _, hd⟩ | ⟨c, h1, h2, _, _, hd⟩
      · rw [cntOf_eq h1 h2 n] at hupd; rw [hd n]; omega
      · rw [hd n]
        have e1 := cntOf_of_sec_none h1 n
        have e2 := cntOf_of_sec_some h2 n
        rw [h3] at e1; rw [h4] at e2
        simp only [List.count_nil, Nat.add_zero] at e1 e2
        rw [e1, e2] at hupd
        split <;> simp_all <;> omega
      · rw [hd n]
        have e1 := cntOf_of_sec_some h1 n
        have e2 := cntOf_of_sec_none h2 n
        rw [h3] at e1; rw [h4] at e2
        simp only [List.count_nil, Nat.add_zero] at e1 e2
        rw [e1] at hle
        rw [e1, e2] at hupd
        split <;> simp_all <;> omega
      · rw [cntOf_eq h1 h2 n] at hupd
        by_cases hn : n = k
        · subst hn
          rw [hdk]
          -- nobody is counted on a note that is not allocated
          have hz : ∀ t ∈ L1, cntOf (s'.pc t) n = 0 := by
            intro t _
            have h0 : cntOf (s.pc t) n = 0 := by
              cases h : cntOf (s.pc t) n with
              | zero => rfl
              | succ j =>
                have := cntOf_alloc hN hS hL (t := t) (n := n) (by omega)
                rw [hk] at this; cases this
            by_cases hta : t = a
            · subst hta; rw [cntOf_eq h1 h2 n]; exact h0
            · rw [hother t hta]; exact h0
          rw [sum_map_congr (f := fun _ => 0) hz, sum_map_zero]
        · rw [hd n hn]; omega
      · rw [hd n]
        rw [cntOf_push h1 h2 n] at hupd
        split <;> simp_all <;> omega
      · rw [hd n]
        rw [cntOf_push h1.symm h2 n] at hupd hle
        split <;> simp_all <;> omega

end Note
