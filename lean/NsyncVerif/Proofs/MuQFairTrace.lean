import NsyncVerif.Proofs.MuQFairExec
/-
  MuQ, fair termination (C02): a finite accepted trace followed by idling for ever, as an `Exec`
  (non-vacuity of the hypotheses of `C02_fair_termination`), and criteria for `WeakFair` /
  `HoldersRelease` / `FiniteArrivals` / `FiniteRcFails` of an execution that ends quiescent.
-/
namespace NsyncVerif.MuQ

theorem run_append_ok {cfg : Cfg} : ∀ (a b : List Event) (s s' : State), run cfg s (a ++ b) = .ok s' →
    ∃ s1, run cfg s a = .ok s1 ∧ run cfg s1 b = .ok s' := by
  intro a
  induction a with
  | nil => intro b s s' h; exact ⟨s, rfl, h⟩
  | cons e es ih =>
    intro b s s' h
    simp only [List.cons_append, run] at h ⊢
    cases hs : step cfg s e with
    | ok s1 => rw [hs] at h; exact ih b s1 s' h
    | error m => rw [hs] at h; cases h

/-- The state after the first `i` events (the initial state if the trace is not accepted). -/
def stateAt (cfg : Cfg) (evs : List Event) (i : Nat) : State :=
  match run cfg init (evs.take i) with
  | .ok s => s
  | .error _ => init

theorem stateAt_ok {cfg : Cfg} {evs : List Event} {sf : State} (h : run cfg init evs = .ok sf) (i : Nat) :
    run cfg init (evs.take i) = .ok (stateAt cfg evs i) := by
  have : run cfg init (evs.take i ++ evs.drop i) = .ok sf := by rw [List.take_append_drop]; exact h
  obtain ⟨s1, h1, _⟩ := run_append_ok _ _ _ _ this
  simp only [stateAt, h1]

theorem stateAt_ge {cfg : Cfg} {evs : List Event} {sf : State} (h : run cfg init evs = .ok sf) {i : Nat}
    (hi : evs.length ≤ i) : stateAt cfg evs i = sf := by
  simp only [stateAt, List.take_of_length_le hi, h]

/-- A finite accepted trace, then nothing for ever. -/
def traceExec (cfg : Cfg) (evs : List Event) (sf : State) (h : run cfg init evs = .ok sf) : Exec cfg init :=
  { ρ := stateAt cfg evs
    σ := fun i => evs[i]?
    start := by simp [stateAt, run]
    next := by
      intro i
      cases he : evs[i]? with
      | none =>
        have hi : evs.length ≤ i := by simpa using he
        show stateAt cfg evs (i + 1) = stateAt cfg evs i
        rw [stateAt_ge h hi, stateAt_ge h (by omega)]
      | some e =>
        show step cfg (stateAt cfg evs i) e = .ok (stateAt cfg evs (i + 1))
        have h1 := stateAt_ok h (i + 1)
        rw [List.take_add_one, he, Option.toList, run_append, stateAt_ok h i] at h1
        exact h1 }

theorem traceExec_tail {cfg : Cfg} {evs : List Event} {sf : State} (h : run cfg init evs = .ok sf) {j : Nat}
    (hj : evs.length ≤ j) : (traceExec cfg evs sf h).ρ j = sf ∧ (traceExec cfg evs sf h).σ j = none :=
  ⟨stateAt_ge h hj, by show evs[j]? = none; simpa using hj⟩

/-- Threads that do not occur in a trace are where they were. -/
theorem run_untouched {cfg : Cfg} {t : Tid} : ∀ (evs : List Event) (s s' : State),
    (∀ e ∈ evs, e.tid ≠ some t) → run cfg s evs = .ok s' → s'.pc t = s.pc t ∧ s'.held t = s.held t := by
  intro evs
  induction evs with
  | nil => intro s s' _ h; simp [run] at h; subst h; exact ⟨rfl, rfl⟩
  | cons e es ih =>
    intro s s' hne h
    simp only [run] at h
    cases hs : step cfg s e with
    | error m => rw [hs] at h; cases h
    | ok s1 =>
      rw [hs] at h
      obtain ⟨a, b⟩ := ih s1 s' (fun e' he' => hne e' (by simp [he'])) h
      have hn := hne e (by simp)
      exact ⟨by rw [a, step_pc_other hs hn], by rw [b, step_held_other hs hn]⟩

/-- From `idle` a thread can only call. -/
theorem idle_step_call {cfg : Cfg} {s s' : State} {e : Event} {t : Tid} (h : step cfg s e = .ok s')
    (he : e.tid = some t) (hp : s.pc t = .idle) : ∃ a, e = .call t a := by
  cases e <;> simp only [Event.tid, Option.some.injEq, reduceCtorEq] at he
  all_goals subst he
  case call t a => exact ⟨a, rfl⟩
  all_goals (simp [step, stepRet, stepLd, stepSt, stepCas, hp] at h)

variable {cfg : Cfg} {s0 : State}

theorem weakFair_of_quiescent (x : Exec cfg s0) (N : Nat) (hN : ∀ j, N ≤ j → ∀ t, (x.ρ j).pc t = .idle) :
    WeakFair x := by
  intro t i h
  exact absurd (hN (max i N) (by omega) t) (h (max i N) (by omega)).1

theorem weakFair_of_final (x : Exec cfg s0) (N : Nat)
    (hN : ∀ j, N ≤ j → ∀ t, (x.ρ j).pc t = .idle ∨ AsleepOnSem (x.ρ j) t) : WeakFair x := by
  intro t i h
  rcases hN (max i N) (by omega) t with h1 | h1
  · exact absurd h1 (h (max i N) (by omega)).1
  · exact absurd h1 (h (max i N) (by omega)).2

/-- If every thread is again and again seen holding nothing, every holder calls (unlock / runlock). -/
theorem holdersRelease_of_recurrent (x : Exec cfg s0) (hr : Reachable cfg s0)
    (hN : ∀ i t, ∃ j, i ≤ j ∧ (x.ρ j).held t = none) : HoldersRelease x := by
  intro t i hheld
  obtain ⟨j0, hj0, hnone⟩ := hN i t
  have hmv : ∃ j, i ≤ j ∧ Moves x t j := by
    apply Classical.byContradiction; intro hn
    obtain ⟨_, b⟩ := frame_between x (t := t) hj0 (fun j' h1 _ hm => hn ⟨j', h1, hm⟩)
    rw [hnone] at b
    exact hheld b.symm
  obtain ⟨j, h1, ⟨e, he, ht⟩, h3⟩ := first_move' x hmv
  obtain ⟨a, b⟩ := frame_between x h1 h3
  have hidle : (x.ρ j).pc t = .idle :=
    (reachable_side (x.reach hr j)).2 t (by rw [b]; exact hheld)
  obtain ⟨ap, rfl⟩ := idle_step_call (x.next_some he) ht hidle
  exact ⟨j, ap, h1, he⟩

theorem holdersRelease_of_quiescent (x : Exec cfg s0) (hr : Reachable cfg s0) (N : Nat)
    (hN : ∀ j, N ≤ j → ∀ t, (x.ρ j).held t = none) : HoldersRelease x :=
  holdersRelease_of_recurrent x hr (fun i t => ⟨max i N, by omega, hN (max i N) (by omega) t⟩)

theorem finite_of_tail (x : Exec cfg s0) (N : Nat) (hN : ∀ j, N ≤ j → x.σ j = none) :
    FiniteArrivals x ∧ FiniteRcFails x :=
  ⟨⟨N, fun j e hj he => by rw [hN j hj] at he; cases he⟩, ⟨N, fun j e hj he => by rw [hN j hj] at he; cases he⟩⟩

/-! ### a lasso: a finite accepted trace, then two events alternating for ever -/

theorem setPc_setPc_self {s : State} {t : Tid} {p1 p2 : PC} (h : s.pc t = p2) :
    setPc (setPc s t p1) t p2 = s := by
  cases s
  simp only [setPc, State.mk.injEq, true_and, and_true] at h ⊢
  funext u
  simp only [setFn]
  split
  · rename_i hu; subst hu; exact h.symm
  · rfl

/-- The state after `evs` from `s` (`s` itself if the events are not accepted). -/
def stateFrom (cfg : Cfg) (s : State) (evs : List Event) : State :=
  match run cfg s evs with
  | .ok s' => s'
  | .error _ => s

theorem stateFrom_ok {cfg : Cfg} {s sf : State} {evs : List Event} (h : run cfg s evs = .ok sf) (i : Nat) :
    run cfg s (evs.take i) = .ok (stateFrom cfg s (evs.take i)) := by
  have : run cfg s (evs.take i ++ evs.drop i) = .ok sf := by rw [List.take_append_drop]; exact h
  obtain ⟨s1, h1, _⟩ := run_append_ok _ _ _ _ this
  simp only [stateFrom, h1]

theorem stateFrom_step {cfg : Cfg} {s sf : State} {evs : List Event} (h : run cfg s evs = .ok sf) {i : Nat}
    (hi : i < evs.length) :
    step cfg (stateFrom cfg s (evs.take i)) evs[i] = .ok (stateFrom cfg s (evs.take (i + 1))) := by
  have he : evs[i]? = some evs[i] := List.getElem?_eq_getElem hi
  have e : evs.take (i + 1) = evs.take i ++ [evs[i]] := by rw [List.take_add_one, he]; rfl
  have h1 := stateFrom_ok h (i + 1)
  rw [e, run_append, stateFrom_ok h i] at h1
  rw [e]; exact h1

/-- A lasso: `evs`, then `loop` repeated for ever, where `loop` takes the state `sf` reached by `evs`
    back to `sf`. -/
def lassoExec (cfg : Cfg) (evs loop : List Event) (sf : State)
    (h : run cfg init evs = .ok sf) (hl : run cfg sf loop = .ok sf) (hp : 0 < loop.length) :
    Exec cfg init :=
  { ρ := fun i => if i < evs.length then stateAt cfg evs i
                  else stateFrom cfg sf (loop.take ((i - evs.length) % loop.length))
    σ := fun i => if i < evs.length then evs[i]? else loop[(i - evs.length) % loop.length]?
    start := by
      by_cases h0 : 0 < evs.length
      · simp [h0, stateAt, run]
      · have : evs = [] := by cases evs <;> simp_all
        subst this; simp [run] at h; subst h; simp [stateFrom, run]
    next := by
      intro i
      have hsf0 : stateFrom cfg sf (loop.take 0) = sf := by simp [stateFrom, run]
      by_cases hi : i < evs.length
      · have he : evs[i]? = some evs[i] := List.getElem?_eq_getElem hi
        simp only [hi, if_true, he]
        have hs : step cfg (stateAt cfg evs i) evs[i] = .ok (stateAt cfg evs (i + 1)) := by
          have h1 := stateAt_ok h (i + 1)
          rw [List.take_add_one, he, Option.toList, run_append, stateAt_ok h i] at h1
          exact h1
        by_cases hi' : i + 1 < evs.length
        · simp only [hi', if_true]; exact hs
        · have : i + 1 - evs.length = 0 := by omega
          simp only [hi', if_false, this, Nat.zero_mod, hsf0]
          rw [← stateAt_ge h (show evs.length ≤ i + 1 by omega)]; exact hs
      · have hi' : ¬ i + 1 < evs.length := by omega
        simp only [hi, hi', if_false]
        have hr : (i - evs.length) % loop.length < loop.length := Nat.mod_lt _ hp
        have he : loop[(i - evs.length) % loop.length]? = some loop[(i - evs.length) % loop.length] :=
          List.getElem?_eq_getElem hr
        simp only [he]
        have hs := stateFrom_step hl hr
        have hsucc : i + 1 - evs.length = (i - evs.length) + 1 := by omega
        by_cases hwrap : (i - evs.length) % loop.length + 1 = loop.length
        · have : (i + 1 - evs.length) % loop.length = 0 := by
            rw [hsucc, Nat.add_mod]
            have : (i - evs.length) % loop.length = loop.length - 1 := by omega
            rw [this]
            by_cases h1 : loop.length = 1
            · rw [h1]
            · rw [Nat.mod_eq_of_lt (show 1 < loop.length by omega)]
              rw [show loop.length - 1 + 1 = loop.length by omega, Nat.mod_self]
          rw [this, hsf0]
          rw [hwrap, List.take_of_length_le (Nat.le_refl _)] at hs
          have : stateFrom cfg sf loop = sf := by simp [stateFrom, hl]
          rw [this] at hs; exact hs
        · have : (i + 1 - evs.length) % loop.length = (i - evs.length) % loop.length + 1 := by
            rw [hsucc, Nat.add_mod]
            by_cases h1 : loop.length = 1
            · omega
            · rw [Nat.mod_eq_of_lt (show 1 < loop.length by omega)]
              exact Nat.mod_eq_of_lt (by omega)
          rw [this]; exact hs }

theorem lassoExec_tail {cfg : Cfg} {evs loop : List Event} {sf : State}
    (h : run cfg init evs = .ok sf) (hl : run cfg sf loop = .ok sf) (hp : 0 < loop.length) {j : Nat}
    (hj : evs.length ≤ j) :
    (lassoExec cfg evs loop sf h hl hp).ρ j = stateFrom cfg sf (loop.take ((j - evs.length) % loop.length)) ∧
    (lassoExec cfg evs loop sf h hl hp).σ j = loop[(j - evs.length) % loop.length]? := by
  have : ¬ j < evs.length := by omega
  simp [lassoExec, this]

def Event.isApi : Event → Bool
  | .call _ _ | .ret _ _ _ => true
  | _ => false

/-- A thread inside a call stays inside it as long as none of its events is a `call` or a `ret`. -/
theorem run_no_api_not_idle {cfg : Cfg} {t : Tid} : ∀ (evs : List Event) (s s' : State),
    (∀ e ∈ evs, e.tid = some t → e.isApi = false) → run cfg s evs = .ok s' →
    s.pc t ≠ .idle → s'.pc t ≠ .idle := by
  intro evs
  induction evs with
  | nil => intro s s' _ h hp; simp [run] at h; subst h; exact hp
  | cons e es ih =>
    intro s s' hapi h hp
    simp only [run] at h
    cases hs : step cfg s e with
    | error m => rw [hs] at h; cases h
    | ok s1 =>
      rw [hs] at h
      refine ih s1 s' (fun e' he' => hapi e' (by simp [he'])) h ?_
      by_cases he : e.tid = some t
      · have hna := hapi e (by simp) he
        exact (stagePc_step hs he (fun a ha => by rw [ha] at hna; cases hna)
          (fun a res ha => by rw [ha] at hna; cases hna)).2.1
      · rw [step_pc_other hs he]; exact hp

end NsyncVerif.MuQ
