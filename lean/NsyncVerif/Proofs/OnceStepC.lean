/-
  Layer `Once`: invariant preservation for the condition-variable events, and the
  combined statement: `Inv` is inductive, hence holds in every reachable state.
-/
import NsyncVerif.Proofs.OnceStepA
import NsyncVerif.Proofs.OnceStepLd
import NsyncVerif.Proofs.OnceStepLd2
import NsyncVerif.Proofs.OnceStepB

namespace Once

theorem inv_cvBroadcastCall {cfg s s' t k} (hi : Inv cfg s)
    (h : step cfg s (.cvBroadcastCall t k) = .ok s') : Inv cfg s' := by
  simp only [step] at h
  split at h <;> step_norm h <;> try contradiction
  · subst h; exact hi
  · obtain ⟨h1, rfl⟩ := h
    inv_finish

theorem inv_cvBroadcastRet {cfg s s' t} (hi : Inv cfg s)
    (h : step cfg s (.cvBroadcastRet t) = .ok s') : Inv cfg s' := by
  simp only [step] at h
  split at h <;> step_norm h <;> try contradiction
  · subst h; exact hi
  · subst h; inv_finish

theorem inv_cvWaitCall {cfg s s' t c k} (hi : Inv cfg s)
    (h : step cfg s (.cvWaitCall t c k) = .ok s') : Inv cfg s' := by
  simp only [step] at h
  split at h <;> step_norm h <;> try contradiction
  · subst h; exact hi
  · obtain ⟨h1, h2, h3, rfl⟩ := h
    inv_finish

theorem inv_cvWaitRet {cfg s s' t r} (hi : Inv cfg s)
    (h : step cfg s (.cvWaitRet t r) = .ok s') : Inv cfg s' := by
  simp only [step] at h
  split at h <;> step_norm h <;> try contradiction
  · subst h; exact hi
  · obtain ⟨h1, rfl⟩ := h
    inv_finish

theorem inv_ld {cfg s s' t fn ord o obs} (hi : Inv cfg s)
    (h : step cfg s (.ld t fn ord o obs) = .ok s') : Inv cfg s' := by
  simp only [step] at h
  split at h <;> step_norm h <;> try contradiction
  all_goals
    rename_i f hp
    obtain ⟨h1, h2, h3, h4, rfl⟩ := h
    subst h3
  · exact inv_ld_outer hi hp h4
  · exact inv_ld_impl hi hp h4
  · exact inv_ld_reload hi hp h4
  · exact inv_ld_wait hi hp h4

/-- `Inv` is preserved by every accepted event. -/
theorem inv_step {cfg s s' e} (hi : Inv cfg s) (h : step cfg s e = .ok s') : Inv cfg s' := by
  cases e with
  | call => exact inv_call hi h
  | ret => exact inv_ret hi h
  | ld => exact inv_ld hi h
  | st => exact inv_st hi h
  | cas => exact inv_cas hi h
  | cbStart => exact inv_cbStart hi h
  | cbEnd => exact inv_cbEnd hi h
  | muLockCall => exact inv_muLockCall hi h
  | muLockRet => exact inv_muLockRet hi h
  | muUnlockCall => exact inv_muUnlockCall hi h
  | muUnlockRet => exact inv_muUnlockRet hi h
  | cvBroadcastCall => exact inv_cvBroadcastCall hi h
  | cvBroadcastRet => exact inv_cvBroadcastRet hi h
  | cvWaitCall => exact inv_cvWaitCall hi h
  | cvWaitRet => exact inv_cvWaitRet hi h
  | internal => simp only [step, Except.ok.injEq] at h; subst h; exact hi

theorem inv_run {cfg evs s s'} (hi : Inv cfg s) (h : run cfg s evs = .ok s') : Inv cfg s' := by
  induction evs generalizing s with
  | nil => simp only [run, Except.ok.injEq] at h; subst h; exact hi
  | cons e es ih =>
    simp only [run] at h
    split at h
    · rename_i s1 hs; exact ih (inv_step hi hs) h
    · contradiction

theorem inv_reachable {cfg s} (h : Reachable cfg s) : Inv cfg s := by
  obtain ⟨evs, h⟩ := h
  exact inv_run (inv_init cfg) h

end Once
