import NsyncVerif.Proofs.MuCFairRec2
/-
  MuC: `InvRC` for the remaining steps; the invariant in every reachable state.
-/
namespace NsyncVerif.MuC

theorem invRC_stepCasC {s s' : State} {t : Tid} {o : Ord} {loc : Loc} {exp new obs : Nat} {ok : Bool} (h : InvRC s)
    (hp : match s.pc t with
      | .usCasUnc _ _ | .usFinCas _ _ _ | .mwEnqCas _ _ | .mwRelCas _ _ _ | .mtCasAcq _ _ | .mtCasWW _ _ | .mtRmCas _ _ _ => True
      | _ => False)
    (hs : stepCas s t o loc exp new obs ok = .ok s') : InvRC s' := by
  unfold stepCas at hs
  split at hs
  all_goals try (rename_i heq; rw [heq] at hp; exact False.elim hp)
  all_goals try (rename_i hne; split at hp <;> first | exact False.elim hp | (exfalso; simp_all; done))
  · rename_i r old heq; simp only [afterWakes_eq] at hs; cases r <;> cas_caseRC t h heq hs
  · rename_i r f old heq
    rcases casWord_ok hs with ⟨hw, -, rfl⟩ | ⟨-, -, rfl⟩
    · rw [afterFin_eq]
      have hlco : ∀ x, (finPc r x).condRec = r.condRec := by
        intro x; cases x <;> cases r <;> rfl
      refine InvRC.local t h (by intro x; split <;> simp) (by intro u hu; split <;> simp [setFn, hu]) ?_
      intro k c hl
      rw [heq]
      have : (finPc r f.wake).condRec = some (k, c) := by split at hl <;> simpa using hl
      rw [hlco] at this; exact this
    · rc_local t h heq
  · rename_i heq
    split at hs
    · cases hs
    · cas_caseRC t h heq hs
  · rename_i heq; cas_caseRC t h heq hs
  · rename_i heq; cas_caseRC t h heq hs
  · rename_i heq; cas_caseRC t h heq hs
  · rename_i heq; ld_caseRC t h heq hs

theorem invRC_stepCas {s s' : State} {t : Tid} {o : Ord} {loc : Loc} {exp new obs : Nat} {ok : Bool} (h1 : Inv1 s) (h : InvRC s)
    (hs : stepCas s t o loc exp new obs ok = .ok s') : InvRC s' := by
  cases hpc : s.pc t <;>
    first
    | exact invRC_stepCasA h1 h (by rw [hpc]; trivial) hs
    | exact invRC_stepCasB h (by rw [hpc]; trivial) hs
    | exact invRC_stepCasC h (by rw [hpc]; trivial) hs
    | (simp [stepCas, hpc] at hs)

theorem invRC_stepCall {s s' : State} {t : Tid} {a : Api} (h : InvRC s)
    (hs : stepCall s t a = .ok s') : InvRC s' := by
  unfold stepCall at hs
  split at hs
  · rename_i heq
    cases a <;> dsimp only at hs
    all_goals (repeat' split at hs)
    all_goals first
      | (cases hs; done)
      | (cases hs; rc_local t h heq)
  · cases hs

theorem invRC_stepRet {s s' : State} {t : Tid} {a : Api} {res : Res} (h : InvRC s)
    (hs : stepRet s t a res = .ok s') : InvRC s' := by
  unfold stepRet at hs
  split at hs
  all_goals first
    | (cases hs; done)
    | (rename_i heq
       repeat' split at hs
       all_goals first
         | (cases hs; done)
         | (cases hs; rc_local t h heq))
    | skip
  -- mwRet: the record is dropped
  rename_i c cit cnd dl note o' heq
  repeat' split at hs
  all_goals first
    | (cases hs; done)
    | skip
  all_goals
    (cases hs
     cases hcw : c.w <;> simp only [dropW, setHeld] <;> rc_local t h heq)

theorem invRC_stepCond {s s' : State} {t : Tid} {fn : CFn} {k : Nat} {res : Bool} (h1 : Inv1 s) (h : InvRC s)
    (hs : stepCond s t fn k res = .ok s') : InvRC s' := by
  unfold stepCond at hs
  dsimp only at hs
  split at hs
  · rename_i c heq
    repeat' split at hs
    all_goals first
      | (cases hs; done)
      | (cases hs; rc_local t h heq)
  · rename_i r sc heq
    have hok0 := h1.pcok t; rw [heq] at hok0
    repeat' split at hs
    all_goals first
      | (cases hs; done)
      | skip
    obtain ⟨hf, p, hpc, hsc⟩ := afterEval_frame hs hok0.2.1
    obtain ⟨hlo, -⟩ := afterEval_lists hs
    exact InvRC.scan (late := sc.late) t h hlo (fun _ => rfl) (by intro u hu; rw [hpc]; simp [setFn, hu])
      (by rw [heq]; rfl) (by rw [hpc]; simpa using hsc)
  · cases hs

theorem invRC_step {cfg : Cfg} {s s' : State} {e : Event} (h1 : Inv1 s) (h4 : Inv4 s) (h : InvRC s)
    (hs : step cfg s e = .ok s') : InvRC s' := by
  cases e with
  | call t a => exact invRC_stepCall h hs
  | ret t a res => exact invRC_stepRet h hs
  | ld t o loc obs => exact invRC_stepLd h hs
  | st t o loc new obs => exact invRC_stepSt h4 h hs
  | cas t o loc exp new obs ok => exact invRC_stepCas h1 h hs
  | cond t fn k res => exact invRC_stepCond h1 h hs
  | semPEnter t k =>
    simp only [step] at hs
    split at hs
    · rename_i heq; ld_caseRC t h heq hs
    · cases hs
  | semPRet t k =>
    simp only [step] at hs
    split at hs
    · rename_i heq; ld_caseRC t h heq hs
    · cases hs
  | semPdEnter t k dl =>
    simp only [step] at hs
    split at hs
    · rename_i heq; ld_caseRC t h heq hs
    · cases hs
  | semPdRet t k timedout =>
    simp only [step] at hs
    split at hs
    · rename_i heq; ld_caseRC t h heq hs
    · cases hs
  | semV t k =>
    simp only [step] at hs
    split at hs
    · rename_i r k' rest heq
      split at hs
      · cases hs
      · cases hs
        rw [afterFin_eq]
        have hlco : ∀ x, (finPc r x).condRec = r.condRec := by
          intro x; cases x <;> cases r <;> rfl
        refine InvRC.local t h (by intro x; simp [semPost, setFn]; split <;> simp_all)
          (by intro u hu; simp [setFn, hu]) ?_
        intro k c hl
        rw [heq]
        have : (finPc r rest).condRec = some (k, c) := by simpa using hl
        rw [hlco] at this; exact this
    · cases hs
  | envV k =>
    simp only [step] at hs; cases hs
    exact h.env (by intro x; simp [semPost, setFn]; split <;> simp_all) (by simp)
  | envSem k n =>
    simp only [step] at hs
    split at hs
    · cases hs; exact h.env (by intro x; simp [setFn]; split <;> simp_all) rfl
    · cases hs
  | dataW t x v =>
    simp only [step] at hs
    split at hs
    · cases hs; exact h.env (fun _ => rfl) rfl
    · cases hs
  | dataR t x v =>
    simp only [step] at hs
    split at hs
    · cases hs; exact h
    · cases hs
  | tick n =>
    simp only [step] at hs
    split at hs
    · cases hs; exact h.env (fun _ => rfl) rfl
    · cases hs
  | noteSeen t =>
    simp only [step] at hs
    split at hs
    · rename_i heq; ld_caseRC t h heq hs
    · cases hs
  | noteNotify t =>
    simp only [step] at hs
    split at hs
    · rename_i heq; ld_caseRC t h heq hs
    · rename_i heq; ld_caseRC t h heq hs
    · cases hs

theorem invRC_init : InvRC init := by
  intro t k c h; simp [init, PC.condRec] at h

theorem reachable_invRC {cfg : Cfg} {s : State} (h : Reachable cfg s) : InvRC s :=
  reachable_induction (P := InvRC) invRC_init
    (fun _ _ _ hr hp hs => invRC_step (reachable_inv1 hr) (reachable_inv4 hr) hp hs) s h

/-- The record a nsync_mu_wait waiter sleeps on carries the condition of the call. -/
theorem reachable_pd_cond {cfg : Cfg} {s : State} (h : Reachable cfg s) {t : Tid} {c : MW} {dl : Option Int} {k : Wid}
    (hp : s.pc t = .mwPdRet c dl) (hw : c.w = some k) : (s.wr k).cond = c.cond :=
  reachable_invRC h t k c.cond (by rw [hp]; simp [PC.condRec, hw])

end NsyncVerif.MuC
