/-
  Proofs/WaitNSem6.lean — `BindEff` for every step function.
-/
import NsyncVerif.Proofs.WaitNSem5

set_option linter.unusedSimpArgs false
set_option linter.unusedVariables false

namespace WaitN

theorem BindEff.post_same {s s1 s' : State} {u : Tid} (h : BindEff s s1 u) (hf : s'.fr = s1.fr) (hu : s'.semUser = s1.semUser)
    (hpc : s'.pc = s1.pc) : BindEff s s' u := by
  unfold BindEff at *
  rw [hf, hu, hpc]; exact h

/-- closes `∀ j, s'.pc u = .wPdWait j → s.pc u = .wPdWait j` for an explicit s' -/
macro "pdw_tac" : tactic =>
  `(tactic| (intro j hj; first | (simp at hj; done) | exact hj | (simp at hj; exact hj) | (simp [startScan] at hj; done)))

macro "bind_leaf" h:ident : tactic =>
  `(tactic| first
    | exact bind_dflt $h
    | exact bind_spinAcq (by intro x j; simp) (by intro j; simp) $h
    | (have hb := bind_rtDone $h; exact hb.pre rfl rfl rfl)
    | (have hb := bind_deqDone $h; exact hb.pre rfl rfl rfl)
    | (have hb := bind_afterEnq $h; exact hb.pre rfl rfl rfl)
    | (cases $h:ident; first
        | exact BindEff.refl _ _
        | (refine BindEff.of_same ?_ rfl ?_ <;> first | frsem_tac | pdw_tac)
        | (refine BindEff.of_same ?_ rfl ?_ <;> first | (unfold startScan; frsem_tac) | pdw_tac)
        | (have hps := ‹postSem _ _ _ = some _›
           exact (bind_postSem _ hps).1.post_same rfl rfl rfl)
        | (have hps := ‹postSem _ _ _ = some _›
           refine (bind_postSem _ hps).1.post rfl rfl ?_ ?_ <;> (intro j; simp [inSleep]))))

theorem bind_proto {s s' : State} {t : Tid} {e : Ev} (h : proto s t e = .ok s') : BindEff s s' t := by
  unfold proto at h
  split_ok h <;> bind_leaf h

theorem bind_stepOpen {s s' : State} {t : Tid} {e : Ev} (h : stepOpen s t e = .ok s') : BindEff s s' t := by
  unfold stepOpen at h
  split_ok h <;> first | exact bind_proto h | bind_leaf h

macro "bind_leaf2" h:ident : tactic =>
  `(tactic| first
    | bind_leaf $h
    | exact bind_stepOpen $h
    | exact bind_proto $h)

theorem bind_stepSg {s s' : State} {t : Tid} {c : Nat} {bc : Bool} {st : SgSt} {e : Ev}
    (h : stepSg s t c bc st e = .ok s') : BindEff s s' t := by
  unfold stepSg at h
  split_ok h <;> bind_leaf2 h

theorem bind_stepCtrRT {s s' : State} {t : Tid} {u : Use} {i : Nat} {l : Bool} {e : Ev}
    (h : stepCtrRT s t u i l e = .ok s') : BindEff s s' t := by
  unfold stepCtrRT at h
  split_ok h <;> bind_leaf2 h

theorem bind_stepND {s s' : State} {t : Tid} {u : Use} {i : Nat} {st : NDst} {e : Ev}
    (h : stepND s t u i st e = .ok s') : BindEff s s' t := by
  unfold stepND at h
  split_ok h <;> bind_leaf2 h

theorem bind_stepEnqCv {s s' : State} {t : Tid} {i : Nat} {st : CvEnqSt} {e : Ev}
    (h : stepEnqCv s t i st e = .ok s') : BindEff s s' t := by
  unfold stepEnqCv at h
  split_ok h <;> bind_leaf2 h

theorem bind_stepEnq {s s' : State} {t : Tid} {i : Nat} {st : EnqSt} {e : Ev}
    (h : stepEnq s t i st e = .ok s') : BindEff s s' t := by
  unfold stepEnq at h
  split_ok h <;> bind_leaf2 h

theorem bind_stepDeqCv {s s' : State} {t : Tid} {j : Nat} {st : CvDeqSt} {e : Ev}
    (h : stepDeqCv s t j st e = .ok s') : BindEff s s' t := by
  unfold stepDeqCv at h
  split_ok h <;> bind_leaf2 h

theorem bind_stepDeq {s s' : State} {t : Tid} {j : Nat} {st : DeqSt} {e : Ev}
    (h : stepDeq s t j st e = .ok s') : BindEff s s' t := by
  unfold stepDeq at h
  split_ok h <;> bind_leaf2 h

theorem bind_stepAlloc {s s' : State} {t : Tid} {e : Ev} (h : stepAlloc s t e = .ok s') : BindEff s s' t := by
  unfold stepAlloc at h
  split_ok h <;> bind_leaf2 h

theorem bind_stepInit {s s' : State} {t : Tid} {i : Nat} {e : Ev} (h : stepInit s t i e = .ok s') : BindEff s s' t := by
  unfold stepInit at h
  split_ok h
  all_goals try bind_leaf2 h
  all_goals
    cases h
    refine BindEff.of_same ?_ rfl ?_
    · frsem_tac
    · intro j hj; simp at hj; split at hj <;> cases hj

theorem bind_stepUnlockMu {s s' : State} {t : Tid} {e : Ev} (h : stepUnlockMu s t e = .ok s') : BindEff s s' t := by
  unfold stepUnlockMu at h
  split_ok h <;> bind_leaf2 h

theorem bind_stepCvRT {s s' : State} {t : Tid} {j : Nat} {e : Ev} (h : stepCvRT s t j e = .ok s') : BindEff s s' t := by
  unfold stepCvRT at h
  split_ok h <;> bind_leaf2 h

theorem bind_stepPdEnter {s s' : State} {t : Tid} {e : Ev} (hpc : s.pc t = .wPdEnter)
    (h : stepPdEnter s t e = .ok s') : BindEff s s' t := by
  unfold stepPdEnter at h
  split_ok h
  all_goals try bind_leaf2 h
  rename_i j d hd _ s1 hb
  cases h
  have hbb := bind_bindSem t hb
  obtain ⟨⟨k1, k2, k3, k4⟩, hsem, hpc1⟩ := hbb
  refine ⟨fun x j0 h0 => ?_, k2, k3, fun j0 h0 => .inr ?_⟩
  · rcases k1 x j0 h0 with h1 | ⟨h1, h2⟩
    · exact .inl h1
    · rw [hpc1, hpc] at h2; cases h2
  · simp at h0; subst h0; exact hsem

theorem bind_stepPdWait {s s' : State} {t : Tid} {j : SemId} {e : Ev} (h : stepPdWait s t j e = .ok s') : BindEff s s' t := by
  unfold stepPdWait at h
  split_ok h <;> bind_leaf2 h

theorem bind_stepFree {s s' : State} {t : Tid} {e : Ev} (h : stepFree s t e = .ok s') : BindEff s s' t := by
  unfold stepFree at h
  split_ok h <;> bind_leaf2 h

theorem bind_stepRelock {s s' : State} {t : Tid} {e : Ev} (h : stepRelock s t e = .ok s') : BindEff s s' t := by
  unfold stepRelock at h
  split_ok h <;> bind_leaf2 h

theorem bind_stepRet {s s' : State} {t : Tid} {r : Nat} {e : Ev} (h : stepRet s t r e = .ok s') : BindEff s s' t := by
  unfold stepRet at h
  split_ok h
  all_goals try bind_leaf2 h
  all_goals
    cases h
    refine ⟨fun x j0 h0 => ?_, fun x j0 h0 => .inl ?_, fun j0 => .inl rfl, fun j0 h0 => by simp at h0⟩
    · by_cases hx : x = t
      · exact .inr ⟨hx, by simp [inSleep]⟩
      · left; simpa [hx] using h0
    · by_cases hx : x = t
      · subst hx; simp [Frame.empty] at h0
      · simpa [hx] using h0

theorem bind_stepIdle {s s' : State} {t : Tid} {e : Ev} (h : stepIdle s t e = .ok s') : BindEff s s' t := by
  unfold stepIdle at h
  split_ok h
  all_goals try bind_leaf2 h
  rename_i mu dl objs nested hc
  cases h
  refine ⟨fun x j0 h0 => ?_, fun x j0 h0 => .inl ?_, fun j0 => .inl rfl, fun j0 h0 => by simp at h0⟩
  · by_cases hx : x = t
    · refine .inr ⟨hx, ?_⟩
      simp only [setPc_pc, if_true, pollNext]
      apply inSleep_pollFrom
      simp only [Frame.new, Frame.count]
      exact List.length_pos_iff.2 hc.2.2.1
    · left; simpa [hx] using h0
  · by_cases hx : x = t
    · subst hx; simp [Frame.new, Frame.empty] at h0
    · simpa [hx] using h0

theorem bind_stepThr {s s' : State} {t : Tid} {e : Ev} (h : stepThr s t e = .ok s') : BindEff s s' t := by
  unfold stepThr at h
  split at h <;> rename_i hpc
  · exact bind_stepIdle h
  · simp at h
  · exact bind_stepSg h
  · exact bind_stepCtrRT h
  · exact bind_stepND h
  · exact bind_stepEnqCv h
  · exact bind_stepEnq h
  · exact bind_stepDeqCv h
  · exact bind_stepDeq h
  · exact bind_stepAlloc h
  · exact bind_stepInit h
  · exact bind_stepUnlockMu h
  · exact bind_stepCvRT h
  · exact bind_stepPdEnter hpc h
  · exact bind_stepPdWait h
  · exact bind_stepFree h
  · exact bind_stepRelock h
  · exact bind_stepRet h

end WaitN
