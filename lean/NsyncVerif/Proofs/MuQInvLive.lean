import NsyncVerif.Proofs.MuQInvHintStep
/-
  MuQ: preservation of the responsibility invariants (ALive), part 1: helper lemmas and the steps
  of the locking side.
-/
namespace NsyncVerif.MuQ

theorem InFlight.mono {a a' : AState} {t : Tid} (h : InFlight a t) (hro : a'.ro t = a.ro t)
    (hq : ∀ k, k ∈ a'.queue → k ∈ a.queue) : InFlight a' t := by
  obtain ⟨c, ph, hr, h⟩ := h
  refine ⟨c, ph, by rw [hro]; exact hr, ?_⟩
  rcases h with h | ⟨h1, k, h2, h3⟩
  · exact Or.inl h
  · exact Or.inr ⟨h1, k, h2, fun hm => h3 (hq k hm)⟩

theorem Unlocking.mono {a a' : AState} {u : Tid} (h : Unlocking a u) (hro : a'.ro u = a.ro u) :
    Unlocking a' u := by
  rcases h with ⟨sc, h⟩ | ⟨f, h⟩
  · exact Or.inl ⟨sc, by rw [hro]; exact h⟩
  · exact Or.inr ⟨f, by rw [hro]; exact h⟩

theorem Resp.mono {a a' : AState} (h : Resp a) (h1 : ∀ t, a.ts t ≠ none → a'.ts t ≠ none)
    (h2 : ∀ t, InFlight a t → InFlight a' t) (h3 : ∀ u, Unlocking a u → Unlocking a' u) : Resp a' := by
  rcases h with ⟨t, h⟩ | ⟨t, h⟩ | ⟨u, h⟩
  · exact Or.inl ⟨t, h1 t h⟩
  · exact Or.inr (Or.inl ⟨t, h2 t h⟩)
  · exact Or.inr (Or.inr ⟨u, h3 u h⟩)

/-- A lock bit in the word has an owner. -/
theorem ALock.holder_of_conflict {a : AState} (h : ALock a)
    (hc : a.word.wlock = true ∨ a.word.readers ≠ 0) : ∃ t, a.ts t ≠ none := by
  rcases hc with hc | hc
  · have := h.wl; rw [hc] at this
    cases hx : a.wOwner with
    | none => rw [hx] at this; cases this
    | some t => exact ⟨t, by rw [(h.wown t).1 hx]; simp⟩
  · have := h.rd
    cases hx : a.rOwners with
    | nil => rw [hx] at this; exact absurd this hc
    | cons t r => exact ⟨t, by rw [(h.rown t).1 (by rw [hx]; simp)]; simp⟩

theorem blocked_cases {l : Mode} {ign : Bool} {w : Word} (h : blocked l ign w = true) :
    (w.wlock = true ∨ w.readers ≠ 0) ∨ (ign = false ∧ (w.lw = true ∨ (l = .R ∧ w.ww = true))) := by
  cases l <;> simp [blocked] at h
  · rcases h with (h | h) | h
    · exact Or.inl (Or.inl h)
    · exact Or.inl (Or.inr h)
    · exact Or.inr ⟨h.1, Or.inl h.2⟩
  · rcases h with h | h
    · exact Or.inl (Or.inl h)
    · rcases h.2 with h2 | h2
      · exact Or.inr ⟨h.1, Or.inr ⟨rfl, h2⟩⟩
      · exact Or.inr ⟨h.1, Or.inl h2⟩

/-- A thread inside lock_slow that has waited at least once and is not holding the spinlock is in
    flight, unless its record is queued. -/
theorem slow_inflight_or_queued {a : AState} (hs : ASpin a) (hq : AQueue a) (hfree : a.word.spin = false)
    {t : Tid} {c : SL} {ph : Phase} (hr : a.ro t = .slow c ph) (hw : c.w.isSome = true) :
    InFlight a t ∨ a.queue ≠ [] := by
  obtain ⟨e1, e2, e3⟩ := hq.slok t c ph hr
  have hns := hs.no_spin_of_free hfree t
  cases ph with
  | pre => exact Or.inl ⟨c, .pre, hr, Or.inl ⟨rfl, by rw [← e2 (Or.inl rfl)]; exact hw⟩⟩
  | st => rw [hr] at hns; cases hns
  | rel => rw [hr] at hns; cases hns
  | loopLd =>
    cases hcw : c.w with
    | none => rw [hcw] at hw; cases hw
    | some k =>
      by_cases hk : k ∈ a.queue
      · exact Or.inr (List.ne_nil_of_mem hk)
      · exact Or.inl ⟨c, .loopLd, hr, Or.inr ⟨rfl, k, hcw, hk⟩⟩
  | loopP =>
    cases hcw : c.w with
    | none => rw [hcw] at hw; cases hw
    | some k =>
      by_cases hk : k ∈ a.queue
      · exact Or.inr (List.ne_nil_of_mem hk)
      · exact Or.inl ⟨c, .loopP, hr, Or.inr ⟨rfl, k, hcw, hk⟩⟩

end NsyncVerif.MuQ

namespace NsyncVerif.MuQ

/-- Generic step: thread `t` changes its role to `r1`; queue, shares and records are unchanged
    (the word may change in bits that ALive does not mention, or clear hint bits). -/
theorem alive_role {a X : AState} {t : Tid} {r1 : Role} (h : ALive a)
    (hro : X.ro = setFn a.ro t r1) (hq : X.queue = a.queue) (hts : X.ts = a.ts) (hwr : X.wr = a.wr)
    (hd : X.word.desig = true → a.word.desig = true)
    (hl : X.word.lw = true → a.word.lw = true)
    (hw : X.word.ww = true → a.word.ww = true)
    (hIF : InFlight a t → InFlight X t)
    (hUn : Unlocking a t → Unlocking X t)
    (hlw : ∀ c ph, a.ro t = .slow c ph → c.lwl = true → ∃ c' ph', r1 = .slow c' ph' ∧ c'.lwl = true)
    (hww : ∀ c ph, a.ro t = .slow c ph → c.l = .W → (ph = .st ∨ c.w.isSome = true) →
      ∃ c' ph', r1 = .slow c' ph' ∧ c'.l = .W ∧ (ph' = .st ∨ c'.w.isSome = true))
    (hst : ∀ c, r1 = .slow c .st → ∃ c0, a.ro t = .slow c0 .st)
    (hpost : ∀ c k, r1 = .slow c .loopP → c.w = some k → (a.wr k).waiting = false →
      (a.wr k).sem ≠ 0 ∨ ∃ u r, u ≠ t ∧ a.ro u = .wakeV k r)
    (hwv : ∀ k r, a.ro t = .wakeV k r → r1 = .wakeV k r) : ALive X := by
  have other : ∀ u, u ≠ t → X.ro u = a.ro u := fun u hu => by rw [hro]; simp [setFn, hu]
  have self : X.ro t = r1 := by rw [hro]; simp [setFn]
  have hqs : ∀ k, k ∈ X.queue → k ∈ a.queue := fun k hk => by rw [hq] at hk; exact hk
  have tIF : ∀ u, InFlight a u → InFlight X u := by
    intro u hu
    by_cases e : u = t
    · subst e; exact hIF hu
    · exact hu.mono (other u e) hqs
  have tUn : ∀ u, Unlocking a u → Unlocking X u := by
    intro u hu
    by_cases e : u = t
    · subst e; exact hUn hu
    · exact hu.mono (other u e)
  refine ⟨?_, ?_, ?_, ?_, ?_⟩
  · intro hx
    rcases h.desig (hd hx) with ⟨u, hu⟩ | ⟨u, hu⟩
    · exact Or.inl ⟨u, tIF u hu⟩
    · exact Or.inr ⟨u, tUn u hu⟩
  · intro hx
    obtain ⟨u, c, ph, hr, hc⟩ := h.lw (hl hx)
    by_cases e : u = t
    · subst e; obtain ⟨c', ph', e1, e2⟩ := hlw c ph hr hc
      exact ⟨u, c', ph', by rw [self, e1], e2⟩
    · exact ⟨u, c, ph, by rw [other u e]; exact hr, hc⟩
  · intro hx
    obtain ⟨u, c, ph, hr, hc, hp⟩ := h.ww (hw hx)
    by_cases e : u = t
    · subst e; obtain ⟨c', ph', e1, e2, e3⟩ := hww c ph hr hc hp
      exact ⟨u, c', ph', by rw [self, e1], e2, e3⟩
    · exact ⟨u, c, ph, by rw [other u e]; exact hr, hc, hp⟩
  · intro hn
    have : Need a := by
      rcases hn with hn | ⟨u, c, hr⟩
      · exact Or.inl (by rw [hq] at hn; exact hn)
      · by_cases e : u = t
        · subst e; rw [self] at hr
          obtain ⟨c0, h0⟩ := hst c hr; exact Or.inr ⟨u, c0, h0⟩
        · exact Or.inr ⟨u, c, by rw [← other u e]; exact hr⟩
    exact (h.resp this).mono (fun u hu => by rw [hts]; exact hu) tIF tUn
  · intro u c k hr hcw hwt
    rw [hwr] at hwt ⊢
    have fix : ((a.wr k).sem ≠ 0 ∨ ∃ v r, v ≠ t ∧ a.ro v = .wakeV k r) ∨
        ((a.wr k).sem ≠ 0 ∨ ∃ v r, a.ro v = .wakeV k r) := by
      by_cases e : u = t
      · subst e; rw [self] at hr; exact Or.inl (hpost c k hr hcw hwt)
      · rw [other u e] at hr; exact Or.inr (h.post u c k hr hcw hwt)
    rcases fix with (h1 | ⟨v, r, hv, hr2⟩) | (h1 | ⟨v, r, hr2⟩)
    · exact Or.inl h1
    · exact Or.inr ⟨v, r, by rw [other v hv]; exact hr2⟩
    · exact Or.inl h1
    · right
      by_cases e : v = t
      · subst e; exact ⟨v, r, by rw [self]; exact hwv k r hr2⟩
      · exact ⟨v, r, by rw [other v e]; exact hr2⟩

end NsyncVerif.MuQ
