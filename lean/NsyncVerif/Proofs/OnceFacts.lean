/-
  Layer `Once`: facts about single steps used by the C07 theorems — the once word only moves
  0→1→2, the ghost `winner` is set exactly by a successful CAS, a step touches only the pc of
  the thread that performs it.
-/
import NsyncVerif.Proofs.OnceStepC

namespace Once

/-- From `guards ∧ explicit = s'` (or an `if` of such): substitute `s'`, keep the guards. -/
syntax "step_subst " ident : tactic
macro_rules
  | `(tactic| step_subst $h:ident) => `(tactic|
      first
      | subst $h:ident
      | (have := And.left $h; replace $h := And.right $h; step_subst $h)
      | (split at $h:ident <;> step_norm $h <;> step_subst $h))

/-- Case analysis of `step cfg s e = .ok s'`: one goal per accepted (event, pc) combination, with
    `s'` replaced by the explicit successor state and the guards as hypotheses. -/
macro "step_cases " e:ident h:ident : tactic => `(tactic|
  (cases $e:ident <;> simp only [step] at $h:ident <;> (try split at $h:ident) <;>
   step_norm $h <;> (try contradiction) <;> step_subst $h))

/-- The once word changes only by 0→1 (the CAS) and 1→2 (the store). -/
theorem word_step {cfg s s' e} (hi : Inv cfg s) (h : step cfg s e = .ok s') (o : OnceId) :
    s'.word o = s.word o ∨ (s.word o = 0 ∧ s'.word o = 1) ∨ (s.word o = 1 ∧ s'.word o = 2) := by
  step_cases e h
  all_goals simp only [State.setPc, State.acquire, State.release]
  all_goals grind [upd, PC.InW, Inv]

/-- The once word never decreases along a run. -/
theorem word_run {cfg evs s s'} (hi : Inv cfg s) (h : run cfg s evs = .ok s') (o : OnceId) :
    s.word o ≤ s'.word o := by
  induction evs generalizing s with
  | nil => simp only [run, Except.ok.injEq] at h; subst h; exact Nat.le_refl _
  | cons e es ih =>
    simp only [run] at h
    split at h
    · rename_i s1 hs
      have h1 := word_step hi hs o
      have h2 := ih (inv_step hi hs) h
      omega
    · contradiction

/-- The ghost `winner o` is written only by a successful `ATM_CAS_ACQ (once, 0, 1)` on `o`,
    performed by a thread that is inside a run_once call on `o` (at once.c:69). -/
theorem winner_step {cfg s s' e} (h : step cfg s e = .ok s') (o : OnceId) :
    s'.winner o = s.winner o ∨
    ∃ t f, e = .cas t .impl .acq o 0 1 0 true ∧ s.pc t = .casTry f ∧ f.o = o ∧
      s.word o = 0 ∧ s'.word o = 1 ∧ s'.winner o = some t := by
  step_cases e h
  all_goals simp only [State.setPc, State.acquire, State.release]
  all_goals grind [upd]

/-- The user function of `o` is entered only by a thread at once.c:77/79, i.e. after it won
    the CAS on `o` (and, in the blocking variants, released the slot lock). -/
theorem fStarts_step {cfg s s' e} (h : step cfg s e = .ok s') (o : OnceId) :
    s'.fStarts o = s.fStarts o ∨
    ∃ t f, e = .cbStart t f.arg ∧ s.pc t = .wCbStart f ∧ f.o = o ∧
      s'.fStarts o = s.fStarts o ++ [t] := by
  step_cases e h
  all_goals simp only [State.setPc, State.acquire, State.release]
  all_goals grind [upd]

/-- Frame lemma: an event changes only the pc of the thread that performs it. -/
theorem pc_step_other {cfg s s' e} (h : step cfg s e = .ok s') (t : Tid) (ht : e.tid ≠ some t) :
    s'.pc t = s.pc t := by
  step_cases e h
  all_goals simp only [State.setPc, State.acquire, State.release]
  all_goals grind [upd, Event.tid]

/-- An accepted event list yields a reachable state (used by the non-vacuity examples). -/
theorem ok_of_isSome (r : Except String State) (h : r.toOption.isSome) :
    r = .ok (r.toOption.get h) := by
  cases r with
  | error m => simp [Except.toOption] at h
  | ok s => simp [Except.toOption]

theorem run_ok_of_isSome {cfg : Config} {evs : List Event}
    (h : (run cfg init evs).toOption.isSome) :
    Reachable cfg ((run cfg init evs).toOption.get h) :=
  ⟨evs, ok_of_isSome _ h⟩

end Once
