/-
  Layer `Note`, fair termination: the potential that bounds the number of adoptions.  Every
  adoption by `nsync_note_free` moves a note strictly up in the creation order (its new parent is
  the parent of its old parent), so `Phi` — the sum over the notes of the number of notes above
  their parent — decreases; it increases only when `nsync_note_new` links a note, which every call
  in progress does at most once (`PLc`: the calls of `nsync_note_new` that are before the link).
-/
import NsyncVerif.Proofs.NoteFairWorkG
import NsyncVerif.Proofs.NoteFairKeep3

set_option linter.unusedSimpArgs false

namespace Note

variable {s0 : State}

/-! ### sums -/

theorem sum_map_le {l : List Nat} {f f' : Nat → Nat} (h : ∀ x ∈ l, f' x ≤ f x) :
    (l.map f').sum ≤ (l.map f).sum := by
  induction l with
  | nil => exact Nat.le_refl _
  | cons y ys ih =>
    simp only [List.map_cons, List.sum_cons]
    have := h y List.mem_cons_self
    have := ih (fun x hx => h x (List.mem_cons_of_mem _ hx))
    omega

theorem sum_map_lt {l : List Nat} {f f' : Nat → Nat} (h : ∀ x ∈ l, f' x ≤ f x) {c : Nat}
    (hc : c ∈ l) (hlt : f' c < f c) : (l.map f').sum < (l.map f).sum := by
  induction l with
  | nil => cases hc
  | cons y ys ih =>
    simp only [List.map_cons, List.sum_cons]
    have hy := h y List.mem_cons_self
    have hys := sum_map_le (fun x hx => h x (List.mem_cons_of_mem _ hx))
    rcases List.mem_cons.mp hc with rfl | hc'
    · omega
    · have := ih (fun x hx => h x (List.mem_cons_of_mem _ hx)) hc'
      omega

theorem sum_map_le_add {l : List Nat} (hn : l.Nodup) {f f' : Nat → Nat} {c K : Nat}
    (h : ∀ x ∈ l, x ≠ c → f' x ≤ f x) (hc : f' c ≤ K) :
    (l.map f').sum ≤ (l.map f).sum + K := by
  induction l with
  | nil => exact Nat.zero_le _
  | cons y ys ih =>
    simp only [List.map_cons, List.sum_cons]
    have hy : y ∉ ys := (List.nodup_cons.mp hn).1
    have hn' := (List.nodup_cons.mp hn).2
    by_cases hyc : y = c
    · subst hyc
      have := sum_map_le (l := ys) (f := f) (f' := f')
        (fun x hx => h x (List.mem_cons_of_mem _ hx) (fun e => hy (e ▸ hx)))
      omega
    · have := h y List.mem_cons_self hyc
      have := ih hn' (fun x hx => h x (List.mem_cons_of_mem _ hx))
      omega

theorem length_filter_le_succ {l : List Nat} (hn : l.Nodup) {p q : Nat → Bool} {m : Nat}
    (h : ∀ x, q x = true → p x = true ∨ x = m) : (l.filter q).length ≤ (l.filter p).length + 1 := by
  induction l with
  | nil => simp
  | cons y ys ih =>
    have hy : y ∉ ys := (List.nodup_cons.mp hn).1
    have hn' := (List.nodup_cons.mp hn).2
    simp only [List.filter_cons]
    by_cases hym : y = m
    · subst hym
      have : (ys.filter q).length ≤ (ys.filter p).length := by
        apply length_filter_le_mem
        intro x hx hq
        rcases h x hq with h' | h'
        · exact h'
        · exact absurd (h' ▸ hx) hy
      cases q y <;> cases p y <;> simp <;> omega
    · have := ih hn'
      cases hq : q y with
      | false => cases p y <;> simp <;> omega
      | true =>
        rcases h y hq with h' | h'
        · simp [h']; omega
        · exact absurd h' hym
where
  length_filter_le_mem {l : List Nat} {p q : Nat → Bool}
      (h : ∀ x ∈ l, q x = true → p x = true) : (l.filter q).length ≤ (l.filter p).length := by
    induction l with
    | nil => simp
    | cons y ys ih =>
      have := ih (fun x hx => h x (List.mem_cons_of_mem _ hx))
      simp only [List.filter_cons]
      cases hq : q y with
      | false => cases p y <;> simp <;> omega
      | true => simp [h y List.mem_cons_self hq]; omega

/-! ### the potential -/

/-- The number of notes strictly above `p` in the creation order of `sN`. -/
noncomputable def anc (sN : State) (B : Nat) (p : NoteId) : Nat :=
  open Classical in ((List.range B).filter (fun k => decide (Lt sN k p))).length

theorem anc_le (sN : State) (B : Nat) (p : NoteId) : anc sN B p ≤ B := by
  unfold anc
  exact Nat.le_trans (List.length_filter_le _ _) (by simp)

theorem anc_lt {sN : State} (hr : Reachable sN) {B : Nat}
    (hB : ∀ k, (sN.notes k).allocated = true → k < B) {p n : NoteId} (h : Lt sN p n) :
    anc sN B p < anc sN B n := by
  obtain ⟨_, _, hS, _, hL, _⟩ := hr.inv6
  unfold anc
  refine length_filter_lt (a := p) ?_ ?_ ?_ ?_
  · intro k hk
    simp only [decide_eq_true_eq] at hk ⊢
    exact Lt.trans hL hk h
  · exact List.mem_range.mpr (hB p (h.alloc_left hS))
  · simpa using h
  · simp only [decide_eq_false_iff_not]; exact fun h' => h'.irrefl

noncomputable def hP (sN : State) (B : Nat) (s : State) (c : NoteId) : Nat :=
  match (s.notes c).parent with
  | some p => 1 + anc sN B p
  | none => 0

noncomputable def Phi (sN : State) (B : Nat) (s : State) : Nat :=
  ((List.range B).map (hP sN B s)).sum

/-- The calls of `nsync_note_new (parent, …)` (of the threads in `L`) that are before the link. -/
def PLc (L : List Tid) (s : State) : Nat := (L.filter (fun t => (s.pc t).isNewPre)).length

noncomputable def Pot (sN : State) (B : Nat) (L : List Tid) (s : State) : Nat :=
  Phi sN B s + (B + 1) * PLc L s

/-- `nsync_note_new` is at the load that decides whether the new note `c` is linked. -/
def LinkAt (s : State) (e : Event) (c : NoteId) : Prop :=
  ∃ a p dl, e.actor = some a ∧ s.pc a = .newP .ld c p dl

theorem old_parent_of_adopt {s : State} (hr : Reachable s) {a : Tid} {n p c : NoteId}
    {nx : Option NoteId} (hpc : s.pc a = .fr .lockChildRet n (some p) c nx) :
    (s.notes c).parent = some n ∧ Lt s p n := by
  have hF := hr.invForest
  have hmem := hF.frc a .lockChildRet n (some p) c nx hpc rfl
  have hcl := hr.inv6.2.2.2.2.1.claim a
  rw [hpc] at hcl
  exact ⟨hF.c2p n c hmem, hcl.2.1 p rfl⟩

theorem hP_le {sN s s' : State} {e : Event} {B : Nat} (hrN : Reachable sN)
    (hB : ∀ k, (sN.notes k).allocated = true → k < B) (hr : Reachable s)
    (hlt : ∀ a b, Lt s a b → Lt sN a b) (hs : step s e = .ok s') (c : NoteId)
    (hnl : ¬ LinkAt s e c) : hP sN B s' c ≤ hP sN B s c := by
  unfold hP
  cases hpar' : (s'.notes c).parent with
  | none => exact Nat.zero_le _
  | some p =>
    rcases step_parent hs p c hpar' with h | ⟨a, dl, ha, hpc⟩ | ⟨a, n, nx, ha, hpc⟩
    · rw [h]; exact Nat.le_refl _
    · exact absurd ⟨a, p, dl, ha, hpc⟩ hnl
    · obtain ⟨hold, hl⟩ := old_parent_of_adopt hr hpc
      rw [hold]
      have := anc_lt hrN hB (hlt _ _ hl)
      simp only; omega

theorem hP_lt_adopt {sN s s' : State} {B : Nat} (hrN : Reachable sN)
    (hB : ∀ k, (sN.notes k).allocated = true → k < B) (hr : Reachable s)
    (hlt : ∀ a b, Lt s a b → Lt sN a b) {a : Tid} {n m c : NoteId} {nx : Option NoteId}
    (hpc : s.pc a = .fr .lockChildRet n (some m) c nx) (hd : (s.notes c).disconnecting = 0)
    (hs : step s (.lockRet a) = .ok s') : hP sN B s' c < hP sN B s c := by
  obtain ⟨hold, hl⟩ := old_parent_of_adopt hr hpc
  have hnew := (C09_adoption hr hpc hd hs).1
  unfold hP
  rw [hold, hnew]
  have := anc_lt hrN hB (hlt _ _ hl)
  simp only; omega

/-! ### one step -/

theorem PLc_le {s s' : State} {e : Event} (L : List Tid) (hs : step s e = .ok s')
    (hc : ∀ t a, e ≠ .call t a) : PLc L s' ≤ PLc L s :=
  length_filter_le (fun t h => step_keepPre hs (hc t) h)

theorem link_leaves_pre {s s' : State} {e : Event} {a : Tid} {c p : NoteId} {dl : Dl}
    (hs : step s e = .ok s') (ha : e.actor = some a) (hpc : s.pc a = .newP .ld c p dl) :
    (s'.pc a).isNewPre = false := by
  cases e <;> simp only [Event.actor, Option.some.injEq, reduceCtorEq] at ha <;> subst ha
  all_goals (simp [step, stepRet, stepLd, stepStNote, stepStW, stepLockCall, stepLockRet,
    stepUnlockCall, stepUnlockRet, stepTryCall, stepTryRet, stepWaitCall, stepWaitRet, hpc,
    stepCall] at hs)
  obtain ⟨_, _, _, _, hs⟩ := hs
  split at hs <;> (cases hs; simp [PC.isNewPre])

theorem PLc_lt_link {s s' : State} {e : Event} (L : List Tid) (hs : step s e = .ok s')
    (hc : ∀ t a, e ≠ .call t a) {a : Tid} {c p : NoteId} {dl : Dl} (ha : e.actor = some a)
    (hpc : s.pc a = .newP .ld c p dl) (haL : a ∈ L) : PLc L s' < PLc L s :=
  length_filter_lt (a := a) (fun t h => step_keepPre hs (hc t) h) haL (by rw [hpc]; rfl)
    (link_leaves_pre hs ha hpc)

theorem linkAt_unique {s : State} {e : Event} {c c' : NoteId} (h : LinkAt s e c)
    (h' : LinkAt s e c') : c' = c := by
  obtain ⟨a, p, dl, ha, hpc⟩ := h
  obtain ⟨a', p', dl', ha', hpc'⟩ := h'
  rw [ha] at ha'; cases ha'
  rw [hpc] at hpc'; cases hpc'; rfl

theorem Pot_le {sN s s' : State} {e : Event} {B : Nat} (L : List Tid) (hrN : Reachable sN)
    (hB : ∀ k, (sN.notes k).allocated = true → k < B) (hr : Reachable s)
    (hlt : ∀ a b, Lt s a b → Lt sN a b) (hs : step s e = .ok s') (hc : ∀ t a, e ≠ .call t a)
    (hL : ∀ a, s.pc a ≠ .idle → a ∈ L) : Pot sN B L s' ≤ Pot sN B L s := by
  unfold Pot
  by_cases hl : ∃ c, LinkAt s e c
  · obtain ⟨c, hlc⟩ := hl
    obtain ⟨a, p, dl, ha, hpc⟩ := hlc
    have h1 : Phi sN B s' ≤ Phi sN B s + (B + 1) := by
      unfold Phi
      refine sum_map_le_add (c := c) List.nodup_range ?_ ?_
      · intro x _ hxc
        exact hP_le hrN hB hr hlt hs x (fun h => hxc (linkAt_unique ⟨a, p, dl, ha, hpc⟩ h))
      · unfold hP
        split
        · have := anc_le sN B ‹NoteId›; omega
        · omega
    have h2 := PLc_lt_link L hs hc ha hpc (hL a (by rw [hpc]; simp))
    have h3 : (B + 1) * (PLc L s' + 1) ≤ (B + 1) * PLc L s := Nat.mul_le_mul_left _ h2
    rw [Nat.mul_succ] at h3
    omega
  · have h1 : Phi sN B s' ≤ Phi sN B s := by
      unfold Phi
      exact sum_map_le (fun x _ => hP_le hrN hB hr hlt hs x (fun h => hl ⟨x, h⟩))
    have h3 : (B + 1) * PLc L s' ≤ (B + 1) * PLc L s := Nat.mul_le_mul_left _ (PLc_le L hs hc)
    omega

theorem Pot_lt_adopt {sN s s' : State} {e : Event} {B : Nat} (L : List Tid)
    (hrN : Reachable sN) (hB : ∀ k, (sN.notes k).allocated = true → k < B) (hr : Reachable s)
    (hBs : ∀ k, (s.notes k).allocated = true → k < B)
    (hlt : ∀ a b, Lt s a b → Lt sN a b) (hs : step s e = .ok s') (hc : ∀ t a, e ≠ .call t a)
    (had : Adopts s e) : Pot sN B L s' < Pot sN B L s := by
  obtain ⟨a, n, m, c, nx, rfl, hpc, hd⟩ := had
  unfold Pot
  have hnl : ∀ x, ¬ LinkAt s (.lockRet a) x := by
    rintro x ⟨a', p, dl, ha', hpc'⟩
    simp only [Event.actor, Option.some.injEq] at ha'
    subst ha'
    rw [hpc] at hpc'; cases hpc'
  have hcB : c < B := by
    have hcl := hr.inv6.2.2.2.2.1.claim a
    rw [hpc] at hcl
    exact hBs c ((hcl.2.2 rfl).alloc_right hr.inv6.2.2.1)
  have h1 : Phi sN B s' < Phi sN B s := by
    unfold Phi
    exact sum_map_lt (fun x _ => hP_le hrN hB hr hlt hs x (hnl x)) (List.mem_range.mpr hcB)
      (hP_lt_adopt hrN hB hr hlt hpc hd hs)
  have h3 : (B + 1) * PLc L s' ≤ (B + 1) * PLc L s := Nat.mul_le_mul_left _ (PLc_le L hs hc)
  omega

theorem PG_le_adopt {s s' : State} {e : Event} (B : Nat) (hs : step s e = .ok s')
    (hm : NoMalloc s) : PG B s' ≤ PG B s + 1 := by
  have hst := step_stable hs
  unfold PG
  have h1 : ((List.range B).filter (fun k => (s'.notes k).allocated && !(s'.notes k).notified)).length ≤
      ((List.range B).filter (fun k => (s.notes k).allocated && !(s.notes k).notified)).length := by
    apply length_filter_le
    intro k hk
    simp only [Bool.and_eq_true, Bool.not_eq_true'] at hk ⊢
    have hal : (s.notes k).allocated = true := by
      rcases step_alloc hs k hk.1 with h | ⟨a, par, dl, _, hpc, _⟩
      · exact h
      · have := hm a; rw [hpc] at this; cases this
    refine ⟨hal, ?_⟩
    cases hn : (s.notes k).notified with
    | false => rfl
    | true => have := hst.flag k hal hn; rw [hk.2] at this; cases this
  have h2 : ((List.range B).filter (fun k => (s'.notes k).adopted)).length ≤
      ((List.range B).filter (fun k => (s.notes k).adopted)).length + 1 := by
    by_cases hex : ∃ m, (s.notes m).adopted = false ∧ (s'.notes m).adopted = true
    · obtain ⟨m, hm0, hm1⟩ := hex
      obtain ⟨a, n, c, nx, he, hpc, _⟩ := step_adopted_set hs hm0 hm1
      refine length_filter_le_succ (m := m) List.nodup_range ?_
      intro x hx
      cases h0 : (s.notes x).adopted with
      | true => exact Or.inl rfl
      | false =>
        right
        obtain ⟨a', n', c', nx', he', hpc', _⟩ := step_adopted_set hs h0 hx
        rw [he] at he'; cases he'
        rw [hpc] at hpc'; cases hpc'; rfl
    · refine Nat.le_trans (length_filter_le ?_) (Nat.le_succ _)
      intro x hx
      cases h0 : (s.notes x).adopted with
      | true => rfl
      | false => exact absurd ⟨x, h0, hx⟩ hex
  omega

/-- The total potential. -/
noncomputable def TG (sN : State) (B : Nat) (L : List Tid) (s : State) : Nat :=
  2 * Pot sN B L s + PG B s

noncomputable def rank2 (sN : State) (B : Nat) (L : List Tid) (s : State) (t : Tid) :
    Nat × (Nat × (Nat × Nat)) := (TG sN B L s, restR s t)

/-- What one step of the execution does to the rank of `t`, once settled (adoptions allowed). -/
theorem rank_step2 (x : Exec s0) (hr : Reachable s0) {N : Nat} (hS : Settled x N) {B : Nat}
    (hB : ∀ k, ((x.ρ N).notes k).allocated = true → k < B) {L : List Tid}
    (hL : ∀ a, (x.ρ N).pc a ≠ .idle → a ∈ L) (t : Tid) {j : Nat} (hj : N ≤ j)
    (hnl : ¬ LoopStep x t j) :
    (x.ρ (j + 1)).pc t = .idle ∨
    (Acts x t j ∧ LtG (rank2 (x.ρ N) B L (x.ρ (j + 1)) t) (rank2 (x.ρ N) B L (x.ρ j) t)) ∨
    (¬ Acts x t j ∧ LeG (rank2 (x.ρ N) B L (x.ρ (j + 1)) t) (rank2 (x.ρ N) B L (x.ρ j) t)) := by
  have hrN := x.reach hr N
  have hrj := x.reach hr j
  have hBj : ∀ k, ((x.ρ j).notes k).allocated = true → k < B := by
    intro k hk
    obtain ⟨d, rfl⟩ : ∃ d, j = N + d := ⟨j - N, by omega⟩
    exact hB k (alloc_back x hS k d hk)
  have hmj : NoMalloc (x.ρ j) := fun a => hS.2 j a hj
  have hLj : ∀ a, (x.ρ j).pc a ≠ .idle → a ∈ L := by
    intro a ha
    apply hL a
    intro hid
    obtain ⟨d, rfl⟩ : ∃ d, j = N + d := ⟨j - N, by omega⟩
    exact ha (idle_stays x hS.1 (Nat.le_refl _) hid d)
  have hlt : ∀ a b, Lt (x.ρ j) a b → Lt (x.ρ N) a b := fun a b h => lt_back x hr hS hj h
  cases hs : x.σ j with
  | none =>
    right; right
    refine ⟨fun h => ?_, Or.inl (by rw [x.next_none hs])⟩
    obtain ⟨⟨e, he, _⟩, _⟩ := h
    rw [hs] at he; cases he
  | some e =>
    have hst := x.next_some hs
    have hc : ∀ t a, e ≠ .call t a := fun t a h => hS.1 j t a hj (by rw [hs, h])
    have hpot := Pot_le L hrN hB hrj hlt hst hc hLj
    by_cases had : Adopts (x.ρ j) e
    · -- an adoption: the potential decreases, whoever moves
      have h1 := Pot_lt_adopt L hrN hB hrj hBj hlt hst hc had
      have h2 := PG_le_adopt B hst hmj
      have hT : TG (x.ρ N) B L (x.ρ (j + 1)) < TG (x.ρ N) B L (x.ρ j) := by
        unfold TG; omega
      by_cases hact : Acts x t j
      · exact Or.inr (Or.inl ⟨hact, Or.inl hT⟩)
      · exact Or.inr (Or.inr ⟨hact, Or.inr (Or.inl hT)⟩)
    · have hle := PG_le B hrj hst hmj had
      have hTle : TG (x.ρ N) B L (x.ρ (j + 1)) ≤ TG (x.ρ N) B L (x.ρ j) := by
        unfold TG; omega
      by_cases hact : e.actor = some t ∧ (x.ρ j).pc t ≠ .idle
      · rcases own_step_gen B hst hact.1 hact.2 hrj hBj hmj had with h | h | h | ⟨n, nt, r, wdl, hpc, hf⟩
        · exact Or.inl h
        · refine Or.inr (Or.inl ⟨⟨⟨e, hs, hact.1⟩, hact.2⟩, Or.inl ?_⟩)
          show TG _ _ _ _ < TG _ _ _ _
          unfold TG; omega
        · exact Or.inr (Or.inl ⟨⟨⟨e, hs, hact.1⟩, hact.2⟩, ltG_of hTle (Or.inr h)⟩)
        · exact absurd ⟨⟨e, hs, hact.1⟩, n, nt, r, wdl, hpc, hf⟩ hnl
      · right; right
        have hnacts : ¬ Acts x t j := by
          rintro ⟨⟨e', he', ha'⟩, hp'⟩
          rw [hs] at he'; cases he'
          exact hact ⟨ha', hp'⟩
        refine ⟨hnacts, ?_⟩
        have hrest : restR (x.ρ (j + 1)) t = restR (x.ρ j) t := by
          by_cases ha : e.actor = some t
          · have hid : (x.ρ j).pc t = .idle := by
              apply Classical.byContradiction; intro h; exact hact ⟨ha, h⟩
            rw [step_idle_state hst ha hid (hc t)]
          · exact other_step_gen hrj hst ha
        show (TG _ _ _ _, restR _ t) = (TG _ _ _ _, restR _ t) ∨ _
        rcases Nat.lt_or_ge (TG (x.ρ N) B L (x.ρ (j + 1))) (TG (x.ρ N) B L (x.ρ j)) with h | h
        · exact Or.inr (Or.inl h)
        · left; rw [hrest, Nat.le_antisymm hTle h]

/-- BOUNDED WORK, in general: once the set of notes is settled every thread takes finitely many
    steps inside its call, unless it goes round the wait loop of an un-notified wait for ever. -/
theorem finiteWork_settled (x : Exec s0) (hr : Reachable s0) {N : Nat} (hS : Settled x N) :
    FiniteWork x := by
  obtain ⟨B, hB⟩ := (x.reach hr N).alloc_bound
  obtain ⟨L, _, hL, _⟩ := C09_disconnecting_count (x.reach hr N)
  intro t
  by_cases hl : Looper x t
  · exact Or.inr hl
  left
  have : ∃ i1, ∀ j, i1 ≤ j → ¬ LoopStep x t j := by
    apply Classical.byContradiction
    intro hno
    apply hl
    intro i
    apply Classical.byContradiction
    intro hn2
    exact hno ⟨i, fun j hj h => hn2 ⟨j, hj, h⟩⟩
  obtain ⟨i1, hi1⟩ := this
  have hidle : ∀ j, N ≤ j → (x.ρ j).pc t = .idle → ∃ i', ∀ j', i' ≤ j' → ¬ Acts x t j' := by
    intro j hj hid
    refine ⟨j, fun j' hj' h => ?_⟩
    obtain ⟨d, rfl⟩ : ∃ d, j' = j + d := ⟨j' - j, by omega⟩
    exact h.2 (idle_stays x hS.1 hj hid d)
  have mono : ∀ i, max i1 N ≤ i → ∀ d, (∃ i', ∀ j', i' ≤ j' → ¬ Acts x t j') ∨
      LeG (rank2 (x.ρ N) B L (x.ρ (i + d)) t) (rank2 (x.ρ N) B L (x.ρ i) t) := by
    intro i hi d
    induction d with
    | zero => exact Or.inr (Or.inl rfl)
    | succ d ih =>
      rcases ih with h | h
      · exact Or.inl h
      · rcases rank_step2 x hr hS hB hL t (j := i + d) (by omega) (hi1 (i + d) (by omega)) with
          h' | ⟨_, h'⟩ | ⟨_, h'⟩
        · exact Or.inl (hidle (i + d + 1) (by omega) h')
        · exact Or.inr (LeG.trans (Or.inr h') h)
        · exact Or.inr (LeG.trans h' h)
  have key : ∀ r, ∀ i, max i1 N ≤ i → rank2 (x.ρ N) B L (x.ρ i) t = r →
      ∃ i', ∀ j', i' ≤ j' → ¬ Acts x t j' := by
    intro r
    induction r using ltG_wf.induction with
    | _ r ih =>
      intro i hi hri
      by_cases hact : ∃ j, i ≤ j ∧ Acts x t j
      · obtain ⟨j, hj, haj⟩ := hact
        obtain ⟨d, rfl⟩ : ∃ d, j = i + d := ⟨j - i, by omega⟩
        rcases mono i hi d with h | h
        · exact h
        · rcases rank_step2 x hr hS hB hL t (j := i + d) (by omega) (hi1 (i + d) (by omega)) with
            h' | ⟨_, h'⟩ | ⟨h', _⟩
          · exact hidle (i + d + 1) (by omega) h'
          · exact ih _ (hri ▸ ltG_of_lt_le h' h) (i + d + 1) (by omega) rfl
          · exact absurd haj h'
      · exact ⟨i, fun j' hj' h => hact ⟨j', hj', h⟩⟩
  exact key _ (max i1 N) (Nat.le_refl _) rfl

end Note
