/- Proofs/CounterFactsM.lean — per-step facts for the program points that need a manual script. -/
import NsyncVerif.Proofs.CounterFacts
import NsyncVerif.Proofs.CounterStepM

namespace Counter

variable {s s' : State} {t : Tid} {e : Ev}

theorem facts_newStore {v} (hi : Inv s) (hpc : s.pc t = .newStore v) (h : stepThr s t e = .ok s') :
    StepFacts s t e s' := by
  facts_open
  rename_i hc
  have hcr := hs.creating (Or.inl hc.2.2)
  have hn := hs.hnil hcr
  constructor
  · intro u hu; simp [State.mk', hu]
  · right; right; exact ⟨v, hpc, hcr, rfl, rfl⟩
  · intro hw; simp [hn.2.2.2.1] at hw
  · intro hw; exact hw
  · intro _ _; simp [State.mk', sleepPath, pcNw]
  · intro k hk; left; simp_all [State.mk', pcNw]
  · intro k hk; simp [touches] at hk
  · intro _; rfl
  · intro d hd; simp [hpc, pcDelta] at hd
  · intro d hd; simp [hpc, pcDl] at hd
  · intro d hd; cases hd
  · intro d hd; cases hd

theorem facts_aCas {d v} (hi : Inv s) (hpc : s.pc t = .aCas d v) (h : stepThr s t e = .ok s') :
    StepFacts s t e s' := by
  facts_open
  all_goals try (facts_tac; done)
  all_goals rename_i h5 h4 h3 h2 h1 h0
  all_goals obtain ⟨c1, c2, c3, c4⟩ := h5
  all_goals subst c4
  all_goals have hv : v = s.sh.value := by simp at h4; omega
  all_goals have hn := wrapAdd_eq h3 h2
  all_goals rw [← c2, hv] at hn
  all_goals subst c1 c3
  all_goals constructor
  all_goals first
    | (intro u hu; simp [State.mk', hu]; done)
    | (right; left; exact ⟨d, _, _, hpc, by simp [hv], hv, rfl, rfl, hn, rfl, rfl⟩)
    | (intro hw hz; show _ = 0; dsimp only [State.mk']; rw [hz] at hn hv
       have : d = 0 := by
         rcases Int.lt_trichotomy d 0 with h | h | h
         · omega
         · exact h
         · exact absurd ⟨hv, h, hw⟩ h1
       omega)
    | (intro hw; exact hw)
    | (intro _ _; simp [State.mk', sleepPath, pcNw]; done)
    | (intro k hk; left; simp_all [State.mk', pcNw]; done)
    | (intro k hk; simp [touches] at hk; done)
    | (intro _; rfl)
    | (intro d' hd; cases hd)
    | (intro d' hd; simp [hpc, pcDl] at hd; done)
    | (intro d' hd; right; simp_all [State.mk', pcDelta]; done)
  all_goals first
    | (left; simp [State.mk']; done)
    | (intro hw hz; simp [State.mk']; done)
    | skip

theorem facts_aPost {d r idx k} (hi : Inv s) (hpc : s.pc t = .aPost d r idx k) (h : stepThr s t e = .ok s') :
    StepFacts s t e s' := by
  facts_open
  all_goals rename_i hb
  all_goals rcases bind_eq hb with ⟨hb1, hb2⟩ | ⟨hb1, hb2, hb3⟩
  all_goals subst_vars
  all_goals facts_tac

theorem facts_wPdEnter {dl k} (hi : Inv s) (hpc : s.pc t = .wPdEnter dl k) (h : stepThr s t e = .ok s') :
    StepFacts s t e s' := by
  facts_open
  all_goals rename_i hb
  all_goals rcases bind_eq hb with ⟨hb1, hb2⟩ | ⟨hb1, hb2, hb3⟩
  all_goals subst_vars
  all_goals facts_tac

theorem facts_wDeqUnlockWait {dl k tmo v} (hi : Inv s) (hpc : s.pc t = .wDeqUnlockWait dl k tmo v)
    (h : stepThr s t e = .ok s') : StepFacts s t e s' := by
  have hp := hi.pcs t; rw [hpc] at hp
  have hs := hi.sh
  simp only [stepThr, hpc] at h
  split at h
  · cases h
    simp only [pcInv, pcFacts, holds] at hp
    simp only [Shared.release]
    split <;> split <;> facts_tac
  · exact dflt_facts t h

end Counter
