import NsyncVerif.Proofs.MuCShare
/-
  MuC: the first invariant group (lock invariant, local facts, held-only-when-idle) and the generic
  lemma for steps that only move the acting thread to a program point with the same share.
-/
namespace NsyncVerif.MuC

structure Inv1 (s : State) : Prop where
  lock : LockInv s
  pcok : PcOk s
  hidle : HeldIdle s

theorem Inv1.held_none {s : State} (h : Inv1 s) {t : Tid} (hp : s.pc t ≠ .idle) : s.held t = none := by
  cases hh : s.held t with
  | none => rfl
  | some m => exact absurd (h.hidle t (by rw [hh]; simp)) hp

theorem Inv1.share_eq {s : State} (h : Inv1 s) {t : Tid} (hp : s.pc t ≠ .idle) : shareOf s t = pcShare (s.pc t) := by
  simp [shareOf, tshare, h.held_none hp]

/-- A step of thread `t` that changes neither the lock bits nor the ghosts and moves `t` to a
    program point with the same share. -/
theorem Inv1.local {s s' : State} (t : Tid) (h : Inv1 s)
    (hw : s'.word.wlock = s.word.wlock) (hr : s'.word.readers = s.word.readers)
    (ho : s'.wOwner = s.wOwner) (hro : s'.rOwners = s.rOwners) (hh : s'.held = s.held)
    (hpc : ∀ u, u ≠ t → s'.pc u = s.pc u) (hni : s.pc t ≠ .idle) (hok : (s'.pc t).ok)
    (hsh : pcShare (s'.pc t) = pcShare (s.pc t)) : Inv1 s' := by
  have hheld := h.held_none hni
  refine ⟨h.lock.same hw hr ho hro ?_, ?_, ?_⟩
  · intro u
    simp only [shareOf, hh]
    by_cases hu : u = t
    · subst hu; simp [tshare, hheld, hsh]
    · rw [hpc u hu]
  · intro u
    by_cases hu : u = t
    · subst hu; exact hok
    · rw [hpc u hu]; exact h.pcok u
  · intro u hu
    rw [hh] at hu
    by_cases hut : u = t
    · subst hut; exact absurd hheld hu
    · rw [hpc u hut]; exact h.hidle u hu

/-- A step of thread `t` (not idle before): the lock invariant has to be re-established separately. -/
theorem Inv1.step {s s' : State} (t : Tid) (h : Inv1 s) (hh : s'.held = s.held)
    (hpc : ∀ u, u ≠ t → s'.pc u = s.pc u) (hni : s.pc t ≠ .idle) (hok : (s'.pc t).ok)
    (hlock : LockInv s') : Inv1 s' := by
  have hheld := h.held_none hni
  refine ⟨hlock, ?_, ?_⟩
  · intro u
    by_cases hu : u = t
    · subst hu; exact hok
    · rw [hpc u hu]; exact h.pcok u
  · intro u hu
    rw [hh] at hu
    by_cases hut : u = t
    · subst hut; exact absurd hheld hu
    · rw [hpc u hut]; exact h.hidle u hu

theorem shareOf_other {s s' : State} {u : Tid} (hh : s'.held = s.held) (hpc : s'.pc u = s.pc u) :
    shareOf s' u = shareOf s u := by
  simp [shareOf, hh, hpc]

theorem shareOf_self {s : State} {t : Tid} (hh : s.held t = none) : shareOf s t = pcShare (s.pc t) := by
  simp [shareOf, tshare, hh]

/-- A step that changes nothing the invariant depends on (semaphores, data, clock, environment). -/
theorem Inv1.env {s s' : State} (h : Inv1 s)
    (hw : s'.word.wlock = s.word.wlock) (hr : s'.word.readers = s.word.readers)
    (ho : s'.wOwner = s.wOwner) (hro : s'.rOwners = s.rOwners) (hh : s'.held = s.held)
    (hpc : s'.pc = s.pc) : Inv1 s' := by
  refine ⟨h.lock.same hw hr ho hro ?_, ?_, ?_⟩
  · intro u; simp [shareOf, hh, hpc]
  · intro u; rw [hpc]; exact h.pcok u
  · intro u hu; rw [hh] at hu; rw [hpc]; exact h.hidle u hu

end NsyncVerif.MuC
