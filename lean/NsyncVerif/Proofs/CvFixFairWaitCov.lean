/-
  Layer `CvFix`, liveness, the waiter's side: a record that a waker has unlinked stays "covered"
  (on the waker's list, woken, or transferred), with the same unlinker, until its owner leaves the
  wait loop (`cov_stable`).
-/
import NsyncVerif.Proofs.CvFixFairWaitHop

namespace NsyncVerif.CvFix

/-- Unlinked by a waker: on its list, woken, or transferred. -/
def Cov (st : RStat) : Prop := st = .woken ∨ st = .xfer ∨ ∃ u, st = .listed u

/-- What is kept of a covered record. -/
def CovKept (s s' : State) (r : Rid) : Prop :=
  Cov (s'.recs r).stat ∧ (s'.recs r).unl = (s.recs r).unl ∧ (s'.recs r).owner = (s.recs r).owner

theorem covKept_of_eq {s s' : State} {r : Rid} (h : s'.recs r = s.recs r) (hc : Cov (s.recs r).stat) :
    CovKept s s' r := by
  unfold CovKept; rw [h]; exact ⟨hc, rfl, rfl⟩

theorem listed_stable {cfg : Config} {s s' : State} {e : Event} {t u : Tid} (htr : Tr cfg s e s')
    (hi : Inv s) (hl : waitLive (s.thr t) = true)
    (hst : (s.recs (s.thr t).r).stat = .listed u) : CovKept s s' (s.thr t).r := by
  obtain ⟨hown, hmu, _⟩ := (hi.a.thr t).live hl
  have hcov : Cov (s.recs (s.thr t).r).stat := .inr (.inr ⟨u, hst⟩)
  have hwt := hi.b.lWait _ u hst
  have hne : ∀ q, (∀ v, (s.recs q).stat ≠ .listed v) → (s.thr t).r ≠ q := by
    intro q h he; subst he; exact h u hst
  have hnm : ∀ q, q.isMucv = false → (s.thr t).r ≠ q := by
    intro q h he; subst he; rw [hmu] at h; cases h
  have upd : ∀ (q : Rid) (v : Rec) (s1 : State), (s.thr t).r ≠ q → s1.recs = s.recs →
      CovKept s (s1.setRec q v) (s.thr t).r := by
    intro q v s1 hq h1
    apply covKept_of_eq _ hcov
    simp only [setRec_recs, h1]; rw [if_neg hq]
  have same : CovKept s s (s.thr t).r := ⟨hcov, rfl, rfl⟩
  -- the owner of a record of a live wait
  have owner_eq : ∀ t0, waitLive (s.thr t0) = true → (s.thr t).r = (s.thr t0).r → t0 = t := by
    intro t0 h0 he
    have := ((hi.a.thr t0).live h0).1
    rw [← he, hown] at this; exact this.symm
  cases htr with
  | same e h hna => exact same
  | tick ns h => exact same
  | semOther e sem' h hopen => exact same
  | loc h => exact same
  | acq t0 exp new obs o n hl0 hexp hw he ho hn hnew =>
    apply covKept_of_eq _ hcov
    apply afterAcquire_recs
    · intro hmem
      have hq := (hi.a.qMem _).mp hmem
      rw [hst] at hq; cases hq
    · intro hc
      have hp := ((hi.a.thr t0).prep (by simp [waitPrep, hl0, show (s.thr t0).cont = .waitEnq from hc])).1
      exact hne _ (by rw [hp]; simp)
  | relWait t0 new obs n hl0 hh hnew hn hsp =>
    have hq := (hi.a.thr t0).enq (.inr hl0)
    exact upd (s.thr t0).r { s.recs (s.thr t0).r with pub := true, enqSeq := s.seq }
      { s with word := n, holder := none, seq := s.seq + 1 } (hne _ (by rw [hq]; simp)) rfl
  | relWait2 t0 new obs n hl0 hh hnew hn hsp => exact same
  | relSig t0 site new obs n hl0 hs hh hnew hn hsp => exact same
  | relEnq t0 new obs n hl0 hh hnew hn hsp =>
    have hq := ((hi.a.thr t0).nEnq hl0).1
    exact upd (s.thr t0).r { s.recs (s.thr t0).r with pub := true, enqSeq := s.seq }
      { s with word := n, holder := none, seq := s.seq + 1 } (hne _ (by rw [hq]; simp)) rfl
  | relDeq t0 new obs n hl0 hh hnew hn hsp =>
    have hm := ((hi.a.thr t0).nDeq (.inr hl0)).1
    exact upd (s.thr t0).r _ { s with word := n, holder := none }
      (hnm _ ((hi.a.thr t0).mine _ hm).1) rfl
  | relDeqW t0 new obs n hl0 hh hnew hn hsp => exact same
  | relDbg t0 new obs n hl0 hh hnew hn hsp => exact same
  | wHeadExit t0 r y hy hl0 hr hw =>
    subst hy
    by_cases hq : (s.thr t).r = r
    · exfalso; rw [← hq, hwt] at hw; cases hw
    · exact upd r _ { s with bad := s.bad || (s.recs r).stat.registered } hq rfl
  | wCmpEq t0 r obs hl0 hr ho he =>
    by_cases hq : (s.thr t).r = r
    · exfalso
      have := (invB_wCmpEq hi.b hi.a t0 r obs hl0 hr ho he).1
      rw [← hq, hst] at this; cases this
    · exact upd r _ { s with queue := s.queue.erase r, bad := s.bad || decide ((s.recs r).stat ≠ RStat.queued) } hq rfl
  | deqLdQueued t0 r obs hl0 hr hw hq =>
    exact upd r _ { s with queue := s.queue.erase r } (hnm _ ((hi.a.thr t0).mine _ hr).1) rfl
  | deqSpinExit t0 r hl0 hr hw =>
    have hm := ((hi.a.thr t0).nSpin (.inr hl0)).1
    exact upd r _ s (by rw [hr]; exact hnm _ ((hi.a.thr t0).mine _ hm).1) rfl
  | wSt1 t0 r obs hl0 hm hst0 => exact upd r _ s (hne _ (by rw [hst0]; simp)) rfl
  | wClr t0 r obs hl0 hr =>
    have hq := (hi.a.thr t0).selfO (.inr (.inr hl0))
    exact upd r _ s (by rw [hr]; exact hne _ (by rw [hq]; simp)) rfl
  | wake t0 r obs hl0 hr =>
    by_cases hq : (s.thr t).r = r
    · subst hq
      refine ⟨?_, by simp, by simp⟩
      simp only [setThr_recs, setRec_recs, if_true, hst]
      exact .inl rfl
    · exact upd r _ s hq rfl
  | enqSt t0 r obs hl0 hm hst0 ho he => exact upd r _ { s with queue := s.queue ++ [r] } (hnm _ hm) rfl
  | deqSt t0 r obs hl0 hr =>
    have hm := ((hi.a.thr t0).nDeq (.inl hl0)).1
    exact upd r _ s (by rw [hr]; exact hnm _ ((hi.a.thr t0).mine _ hm).1) rfl
  | wRmCasOk t0 r exp new obs hl0 hr hn ho he =>
    have hq := (hi.a.thr t0).selfO (.inr (.inl hl0))
    exact upd r _ s (by rw [hr]; exact hne _ (by rw [hq]; simp)) rfl
  | sRcCasOk t0 site r exp new obs hl0 hr hn ho he =>
    by_cases hq : (s.thr t).r = r
    · subst hq; exact ⟨by simpa using hcov, by simp, by simp⟩
    · exact upd r _ s hq rfl
  | muMode t0 obs lt hl0 hlt =>
    have hq := ((hi.a.thr t0).prep (by simp [waitPrep, hl0])).1
    exact upd _ _ s (hne _ (by rw [hq]; simp)) rfl
  | wwCasOk t0 exp new obs f rest hl0 hlist =>
    unfold CovKept
    dsimp only
    split
    · exact ⟨.inr (.inl rfl), rfl, rfl⟩
    · exact ⟨hcov, rfl, rfl⟩
  | semVWake t0 k r q hl0 hc =>
    by_cases hq : (s.thr t).r = r
    · subst hq; exact ⟨by simpa using hcov, by simp, by simp⟩
    · exact upd r _ { s with sem := updS s.sem k (vCount cfg (s.sem k)) } hq rfl
  | semPdRetOkW t0 k hl0 => exact same
  | semPdRetOkC t0 k hl0 => exact same
  | wInit t0 r h hm hst0 => exact upd r _ s (hne _ (by rw [hst0]; simp)) rfl
  | nwInit t0 r h hm hst0 => exact upd r _ s (hnm _ hm) rfl
  | fStW t0 r new h hf =>
    exact upd r _ s (hne _ (by rcases foreignOk_stat hf with h | h <;> rw [h] <;> simp)) rfl
  | fCasOk t0 r exp new obs h hf hn ho he =>
    exact upd r _ s (hne _ (by rcases foreignOk_stat hf with h | h <;> rw [h] <;> simp)) rfl

/-- A covered record of a live wait stays covered, with the same unlinkers and owner, unless its
    owner leaves the loop. -/
theorem cov_stable {cfg : Config} {s s' : State} {e : Event} {t : Tid} (hs : step cfg s e = .ok s')
    (hi : Inv s) (hl : waitLive (s.thr t) = true) (hc : Cov (s.recs (s.thr t).r).stat) :
    (s'.thr t).loc = .wExit ∨ CovKept s s' (s.thr t).r := by
  rcases hc with h | h | ⟨u, h⟩
  · rcases rec_stable (step_tr hs) hi hl (.inl h) with h' | ⟨a, _, c, d, _⟩
    · exact .inl h'
    · exact .inr ⟨by rw [a, h]; exact .inl rfl, c, d⟩
  · rcases rec_stable (step_tr hs) hi hl (.inr h) with h' | ⟨a, _, c, d, _⟩
    · exact .inl h'
    · exact .inr ⟨by rw [a, h]; exact .inr (.inl rfl), c, d⟩
  · exact .inr (listed_stable (step_tr hs) hi hl h)

end NsyncVerif.CvFix
