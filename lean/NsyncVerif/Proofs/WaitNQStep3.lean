/-
  Proofs/WaitNQStep3.lean — `QI ∧ CF` across nsync_note_notified_deadline_ (incl. the lazy notification).
-/
import NsyncVerif.Proofs.WaitNQOpen

set_option linter.unusedSimpArgs false
set_option linter.unusedVariables false

namespace WaitN

set_option hygiene false in
/-- a pure move of the caller's program counter inside the current waitable call -/
macro "q_mv" : tactic =>
  `(tactic| (cases h; refine qcf_move c hnop rfl ?_ ?_ ?_ ?_ ?_ ?_ ?_ ?_ <;>
      first
        | (left; rw [hpc]; rfl)
        | (left; rfl)
        | (right; rfl)
        | (rw [hpc]; rfl)
        | (rw [hpc]; cases u <;> rfl)
        | (intro hx; rw [hpc] at hx; simp [isNfWake] at hx)))

/-- the end of a nsync_note_notified_deadline_ call, for the three uses -/
theorem qcf_rtDone_nd {s s' : State} {t : Tid} {u : Use} {i : Nat} {st0 : NDst} {time : Deadline} (c : QCtx s t)
    (hpc : s.pc t = .wND u i st0) (hnop : opn (s.pc t) = false) (hh0 : holdsAt (s.pc t) (s.fr t) = none)
    (h : rtDone s t u i time = .ok s') : QI s' ∧ CF s' t := by
  have hl : LInv (.wND u i st0) (s.fr t) := hpc ▸ c.linv t
  have hc : inCall (s.pc t) = true := by rw [hpc]; rfl
  cases u with
  | poll =>
    have := len_of_linv (c.linv t) hc (by rw [hpc]; rfl)
    exact qcf_rtDone c (by simp) hc hnop (by rw [hpc]; rfl) this.1 this.2 (fun _ => hl.1.recs) h
  | loop =>
    have := len_of_linv (c.linv t) hc (by rw [hpc]; rfl)
    exact qcf_rtDone c (by simp) hc hnop (by rw [hpc]; rfl) this.1 this.2 (fun hx => by cases hx) h
  | deq =>
    unfold rtDone at h
    simp only at h
    cases h
    refine qcf_move c hnop rfl (.inr rfl) (.inl rfl) (.inr rfl) (.inr rfl) (.inr rfl) ?_ ?_ ?_
    · rw [hpc]; rfl
    · rw [hpc]; rfl
    · intro _; right; rfl

/-- protocol-driven steps of a caller inside the lazy notification keep its facts -/
theorem cf_stepOpen_nfWake {s s' : State} {t : Tid} {u : Use} {i n : Nat} {e : Ev} (c : QCtx s t)
    (hpc : s.pc t = .wND u i .nfWake) (hoi : (s.fr t).objs[i]? = some (.note n))
    (hne : e ≠ .unlockCall (.note n)) (h : stepOpen s t e = .ok s') : CF s' t := by
  have k := keeps_stepOpen (t := t) h
  have kp := stepOpen_keeps h
  have hfr : s'.fr t = { s.fr t with sem := (s'.fr t).sem } := k.2
  have hho : holdsAt (s.pc t) (s.fr t) = some (.note n) := by rw [hpc]; simpa [holdsAt] using hoi
  constructor
  · intro o ho
    rw [k.1, hfr, holdsAt_sem, hho] at ho; cases ho
    refine ⟨kp.2 _ (c.cf.holds _ hho).1 hne, fun hx => ?_⟩
    rw [k.1, hpc] at hx; simp [isNfWake] at hx
  · intro r hr; rw [k.1, hfr, freshAt_sem, hpc] at hr; simp [freshAt] at hr
  · intro r hr; rw [k.1, hfr, clearedAt_sem, hpc] at hr; simp [clearedAt] at hr
  · intro o ho; rw [k.1, hfr, enqTrueAt_sem, hpc] at ho; simp [enqTrueAt] at ho
  · intro hc hf0 k' r hk'
    rw [k.1] at hc ⊢
    rw [hfr] at hf0 hk' ⊢
    rw [dqIdx_sem, (kp.1 r).1]
    exact c.cf.dq hc hf0 k' r hk'

theorem qcf_stepND {s s' : State} {t : Tid} {u : Use} {i : Nat} {st0 : NDst} {e : Ev} (c : QCtx s t)
    (hpc : s.pc t = .wND u i st0) (h : stepND s t u i st0 e = .ok s') : QI s' ∧ CF s' t := by
  have hl : LInv (.wND u i st0) (s.fr t) := hpc ▸ c.linv t
  have hc : inCall (s.pc t) = true := by rw [hpc]; rfl
  unfold stepND at h
  split at h
  · rename_i n hoi
    have hkn : (s.obj (.note n)).known = true := c.known t hc _ (List.mem_of_getElem? hoi)
    dsimp only at h
    split at h
    · -- ld0
      have hnop : opn (s.pc t) = false := by rw [hpc]; rfl
      split at h
      · split at h
        · split at h
          · exact qcf_rtDone_nd c hpc hnop (by rw [hpc]; rfl) h
          · q_mv
        · simp at h
      · exact qcf_dflt c h
    · -- lockCall
      have hnop : opn (s.pc t) = false := by rw [hpc]; rfl
      split at h
      · split at h
        · q_mv
        · simp at h
      · exact qcf_dflt c h
    · -- lockWait
      have hnop : opn (s.pc t) = false := by rw [hpc]; rfl
      split at h
      · split at h
        · rename_i hn
          cases h
          refine qcf_acquire c hnop rfl hn hkn rfl (by rw [hpc]; rfl) (by simpa [holdsAt] using hoi)
            (.inr rfl) rfl rfl (by rw [hpc]; rfl) (by rw [hpc]; cases u <;> rfl)
        · simp at h
      · exact qcf_dflt c h
    · -- ld1
      have hnop : opn (s.pc t) = false := by rw [hpc]; rfl
      split at h
      · split at h
        · q_mv
        · simp at h
      · exact qcf_dflt c h
    · -- unlockCall
      have hnop : opn (s.pc t) = false := by rw [hpc]; rfl
      split at h
      · split at h
        · cases h
          refine qcf_release c (post_none_of_pc c.qi hnop) (mc_none_of_pc c.qi hnop) (wk_none_of_opn hnop)
            (by rw [hpc]; simpa [holdsAt] using hoi) (by intro hx; rw [hpc] at hx; simp [isNfWake] at hx)
            rfl rfl rfl (.inr rfl) rfl (by rw [hpc]; rfl) (by rw [hpc]; cases u <;> rfl)
        · simp at h
      · exact qcf_dflt c h
    · -- unlockWait
      have hnop : opn (s.pc t) = false := by rw [hpc]; rfl
      split at h
      · split at h
        · exact qcf_rtDone_nd c hpc hnop (by rw [hpc]; rfl) h
        · split at h
          · exact qcf_rtDone_nd c hpc hnop (by rw [hpc]; rfl) h
          · q_mv
      · exact qcf_dflt c h
    · -- now
      have hnop : opn (s.pc t) = false := by rw [hpc]; rfl
      split at h
      · split at h
        · split at h
          · q_mv
          · exact qcf_rtDone_nd c hpc hnop (by rw [hpc]; rfl) h
        · simp at h
      · exact qcf_dflt c h
    · -- nfLockCall
      have hnop : opn (s.pc t) = false := by rw [hpc]; rfl
      split at h
      · split at h
        · q_mv
        · simp at h
      · exact qcf_dflt c h
    · -- nfLockWait
      have hnop : opn (s.pc t) = false := by rw [hpc]; rfl
      split at h
      · split at h
        · rename_i hn
          cases h
          refine qcf_acquire c hnop rfl hn hkn rfl (by rw [hpc]; rfl) (by simpa [holdsAt] using hoi)
            (.inr rfl) rfl rfl (by rw [hpc]; rfl) (by rw [hpc]; cases u <;> rfl)
        · simp at h
      · exact qcf_dflt c h
    · -- nfLd0
      have hnop : opn (s.pc t) = false := by rw [hpc]; rfl
      split at h
      · rename_i n' obs
        split at h
        · by_cases hobs : obs ≠ 0
          · rw [if_pos hobs] at h; q_mv
          · rw [if_neg hobs] at h; q_mv
        · simp at h
      · exact qcf_dflt c h
    · -- nfLd1
      have hnop : opn (s.pc t) = false := by rw [hpc]; rfl
      split at h
      · split at h
        · q_mv
        · simp at h
      · exact qcf_dflt c h
    · -- nfStore
      have hnop : opn (s.pc t) = false := by rw [hpc]; rfl
      split at h
      · split at h
        · rename_i hg
          cases h
          have hpost := post_none_of_pc c.qi hnop
          have hmc := mc_none_of_pc c.qi hnop
          have hho : holdsAt (s.pc t) (s.fr t) = some (.note n) := by rw [hpc]; simpa [holdsAt] using hoi
          refine ⟨qi_setPc (qi_setFlag c.qi hg.2.2.2.2) (wk_none_of_opn hnop) rfl hpost hmc, ?_⟩
          constructor
          · intro o ho
            simp only [setPc_pc, setPc_fr, setObj_fr, if_true, setPc_obj, setObj_obj] at ho ⊢
            have : o = .note n := by simpa [holdsAt, hoi] using ho.symm
            subst this
            simp only [if_true]
            exact ⟨(c.cf.holds _ hho).1, fun hx => by simp [isNfWake] at hx⟩
          · intro r hr; simp [freshAt] at hr
          · intro r hr; simp [clearedAt] at hr
          · intro o ho; simp [enqTrueAt] at ho
          · intro hc' hf0 k r hk
            simp only [setPc_pc, setPc_fr, setObj_fr, if_true, setPc_rcd, setObj_rcd] at hc' hf0 hk ⊢
            have := c.cf.dq hc hf0 k r hk
            rw [hpc] at this
            cases u <;> exact this
        · simp at h
      · exact qcf_dflt c h
    · -- nfWake
      have hho : holdsAt (s.pc t) (s.fr t) = some (.note n) := by rw [hpc]; simpa [holdsAt] using hoi
      have hop : opn (s.pc t) = true := by rw [hpc]; rfl
      have hwk : wk (s.pc t) = none := by rw [hpc]; rfl
      split at h
      · rename_i o' hmc
        split at h
        · split at h
          · rename_i hg
            cases h
            refine qcf_release c hg.2.1 hmc hwk hho (fun _ => hg.2.2) rfl rfl rfl (.inr rfl) rfl
              (by rw [hpc]; rfl) (by rw [hpc]; cases u <;> rfl)
          · simp at h
        · rename_i hne
          exact ⟨qi_stepOpen c.qi hop hwk h, cf_stepOpen_nfWake c hpc hoi (by intro hh; cases hh; exact hne rfl) h⟩
      · rename_i hnm
        refine ⟨qi_stepOpen c.qi hop hwk h, cf_stepOpen_nfWake c hpc hoi ?_ h⟩
        intro hh
        subst hh
        -- mc ≠ none: a nested unlock call is rejected
        cases hm : s.mc t with
        | none => exact hnm _ hm rfl
        | locking o => unfold stepOpen at h; rw [hm] at h; simp [dflt] at h
        | unlocking => unfold stepOpen at h; rw [hm] at h; simp [dflt] at h
    · -- nfUnlockCall
      have hnop : opn (s.pc t) = false := by rw [hpc]; rfl
      split at h
      · split at h
        · cases h
          refine qcf_release c (post_none_of_pc c.qi hnop) (mc_none_of_pc c.qi hnop) (wk_none_of_opn hnop)
            (by rw [hpc]; simpa [holdsAt] using hoi) (by intro hx; rw [hpc] at hx; simp [isNfWake] at hx)
            rfl rfl rfl (.inr rfl) rfl (by rw [hpc]; rfl) (by rw [hpc]; cases u <;> rfl)
        · simp at h
      · exact qcf_dflt c h
    · -- nfUnlockWait
      have hnop : opn (s.pc t) = false := by rw [hpc]; rfl
      split at h
      · exact qcf_rtDone_nd c hpc hnop (by rw [hpc]; rfl) h
      · exact qcf_dflt c h
  · simp at h

end WaitN
