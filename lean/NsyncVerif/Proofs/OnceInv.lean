/-
  Layer `Once`: the inductive invariant and its preservation by every accepted event.
-/
import NsyncVerif.Model.Once

namespace Once

/-- The call frame of a thread inside run_once. -/
def PC.frame? : PC → Option Frame
  | .idle => none
  | .outerLd f | .implLd f | .lock1Call f _ | .lock1Ret f _ | .casTry f | .casReload f
  | .wUnlockCall f | .wUnlockRet f | .wCbStart f | .wCbEnd f | .wLockCall f | .wLockRet f
  | .wBcastCall f | .wBcastRet f | .wStore f | .waitLd f | .cvWaitCall f | .cvWaitRet f
  | .fUnlockCall f | .fUnlockRet f | .readyRet f => some f

/-- Thread is between its successful CAS 0→1 on `o` and its store of 2 to `o`. -/
def PC.InW : PC → OnceId → Prop
  | .wUnlockCall f, o | .wUnlockRet f, o | .wCbStart f, o | .wCbEnd f, o | .wLockCall f, o
  | .wLockRet f, o | .wBcastCall f, o | .wBcastRet f, o | .wStore f, o => f.o = o
  | _, _ => False

/-- Thread is inside the user function of `o` (between `cb start` and `cb end`). -/
def PC.InCb : PC → OnceId → Prop
  | .wCbEnd f, o => f.o = o
  | _, _ => False

/-- The `fStarts` history implied by the winner's pc. -/
def PC.startsOf : PC → Tid → List Tid
  | .wCbEnd _, t | .wLockCall _, t | .wLockRet _, t | .wBcastCall _, t | .wBcastRet _, t
  | .wStore _, t => [t]
  | _, _ => []

/-- The `fEnds` history implied by the winner's pc. -/
def PC.endsOf : PC → Tid → List Tid
  | .wLockCall _, t | .wLockRet _, t | .wBcastCall _, t | .wBcastRet _, t | .wStore _, t => [t]
  | _, _ => []

/-- Thread is in the wait loop of once.c:87-98 (or re-reading after a failed CAS) on `o`. -/
def PC.Waiting : PC → OnceId → Prop
  | .casReload f, o | .waitLd f, o | .cvWaitCall f, o | .cvWaitRet f, o => f.o = o
  | _, _ => False

/-- Thread read a non-zero word into its local `o` and is still acquiring the first lock. -/
def PC.SawNonzero : PC → OnceId → Prop
  | .lock1Call f loc, o | .lock1Ret f loc, o => loc ≠ 0 ∧ f.o = o
  | _, _ => False

/-- Thread has seen the word equal to 2 on `o` and is on its way out. -/
def PC.Leaving : PC → OnceId → Prop
  | .fUnlockCall f, o | .fUnlockRet f, o | .readyRet f, o => f.o = o
  | _, _ => False

/-- Program points that exist only in the blocking variants. -/
def PC.BlockingOnly : PC → Prop
  | .lock1Call f _ | .lock1Ret f _ | .wUnlockCall f | .wUnlockRet f | .wLockCall f | .wLockRet f
  | .wBcastCall f | .wBcastRet f | .cvWaitCall f | .cvWaitRet f | .fUnlockCall f
  | .fUnlockRet f => f.blocking = true
  | _ => True

/-- Program points at which the thread holds the lock of slot `k`. -/
def PC.Holds (cfg : Config) : PC → SlotId → Prop
  | .casTry f, k | .casReload f, k | .wUnlockCall f, k | .wBcastCall f, k | .wBcastRet f, k
  | .wStore f, k | .waitLd f, k | .cvWaitCall f, k | .fUnlockCall f, k =>
      f.blocking = true ∧ cfg.slotOf f.o = k
  | _, _ => False

structure Inv (cfg : Config) (s : State) : Prop where
  word_le : ∀ o, s.word o ≤ 2
  w0 : ∀ o, s.word o = 0 → s.winner o = none ∧ s.fStarts o = [] ∧ s.fEnds o = []
  w1 : ∀ o, s.word o = 1 → ∃ t, s.winner o = some t ∧ (s.pc t).InW o ∧
        s.fStarts o = (s.pc t).startsOf t ∧ s.fEnds o = (s.pc t).endsOf t
  w2 : ∀ o, s.word o = 2 → ∃ t, s.winner o = some t ∧ s.fStarts o = [t] ∧ s.fEnds o = [t]
  inW : ∀ t o, (s.pc t).InW o → s.word o = 1 ∧ s.winner o = some t
  leaving : ∀ t o, (s.pc t).Leaving o → s.word o = 2
  ret : ∀ t o, (t, o) ∈ s.returned → s.word o = 2
  waiting : ∀ t o, (s.pc t).Waiting o → s.word o ≠ 0
  sawNonzero : ∀ t o, (s.pc t).SawNonzero o → s.word o ≠ 0
  blk : ∀ t, (s.pc t).BlockingOnly
  lock : ∀ k t, s.lockHolder k = some t → (s.pc t).Holds cfg k
  held : ∀ k t, (s.pc t).Holds cfg k → s.lockHolder k = some t
  called : ∀ t f, (s.pc t).frame? = some f → (t, f.o) ∈ s.called
  winCalled : ∀ o t, s.winner o = some t → (t, o) ∈ s.called

theorem need_ok {c : Prop} [Decidable c] {msg : String} {k : Except String State} {s' : State} :
    need c msg k = .ok s' ↔ c ∧ k = .ok s' := by
  unfold need; split <;> simp_all

theorem inv_init (cfg : Config) : Inv cfg init := by
  constructor <;> simp [init, PC.InW, PC.Leaving, PC.Waiting, PC.SawNonzero, PC.BlockingOnly, PC.Holds, PC.frame?]

/-- Closes one invariant-preservation case once the successor state is explicit. -/
macro "inv_finish" : tactic => `(tactic|
  (constructor <;> simp only [State.setPc, State.acquire, State.release] <;> intros <;>
    grind [upd, afterLoc, PC.InW, PC.Leaving, PC.Waiting, PC.SawNonzero, PC.BlockingOnly, PC.Holds, PC.frame?,
           PC.startsOf, PC.endsOf, Inv]))

/-- Normalises `step … = .ok s'` after the match on the pc has been split. -/
macro "step_norm" h:ident : tactic => `(tactic|
  (simp only [need_ok, reduceCtorEq, Except.ok.injEq] at $h:ident))

end Once
