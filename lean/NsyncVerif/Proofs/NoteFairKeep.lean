/-
  Layer `Note`, fair termination: what an own step keeps: the kind of the call (`PC.waitOn`: the
  note and deadline of a `nsync_note_wait`), and that `malloc` of `nsync_note_new` is reached only
  from the API entry; a thread outside any call stays there until its next `call`.
-/
import NsyncVerif.Proofs.NoteFairOther

set_option linter.unusedSimpArgs false

namespace Note

/-- `malloc` of `nsync_note_new` is next. -/
def PC.isMalloc : PC → Bool
  | .newMalloc _ _ => true
  | _ => false

/-- What an own step keeps. -/
def Keep (s s' : State) (t : Tid) : Prop :=
  s'.pc t = .idle ∨ ((s'.pc t).waitOn = (s.pc t).waitOn ∧ (s'.pc t).isMalloc = false)

theorem keep_afterDeadlinePc (n : NoteId) (nt : Dl) (k : DK) :
    (afterDeadlinePc n nt k).waitOn = k.waitDl.map (fun d => (n, d)) ∧
    (afterDeadlinePc n nt k).isMalloc = false := by
  cases k <;> simp only [afterDeadlinePc] <;> (repeat' split) <;>
    simp [PC.waitOn, PC.isMalloc, DK.waitDl, NK.waitDl]

theorem keep_afterNotifyPc (n : NoteId) (k : NK) :
    (afterNotifyPc n k).waitOn = k.waitDl.map (fun d => (n, d)) ∧
    (afterNotifyPc n k).isMalloc = false := by
  cases k with
  | ofApi => simp [afterNotifyPc, PC.waitOn, PC.isMalloc, NK.waitDl]
  | ofDeadline k => exact keep_afterDeadlinePc n (some 0) k

theorem keep_childReturnPc (f : Frame) (rest : List Frame) (top : Top) :
    (childReturnPc f rest top).waitOn = top.k.waitDl.map (fun d => (top.n, d)) ∧
    (childReturnPc f rest top).isMalloc = false := by
  unfold childReturnPc
  cases rest with
  | cons g r => simp [PC.waitOn, PC.isMalloc]
  | nil => cases top.par <;> simp [PC.waitOn, PC.isMalloc]

theorem keep_childLoopStartPc (cs : List NoteId) (f : Frame) (rest : List Frame) (top : Top) :
    (childLoopStartPc cs f rest top).waitOn = top.k.waitDl.map (fun d => (top.n, d)) ∧
    (childLoopStartPc cs f rest top).isMalloc = false := by
  cases cs <;> simp [childLoopStartPc, PC.waitOn, PC.isMalloc]

theorem keep_childWakeNextPc (s : State) (f : Frame) (rest : List Frame) (top : Top) :
    (childWakeNextPc s f rest top).waitOn = top.k.waitDl.map (fun d => (top.n, d)) ∧
    (childWakeNextPc s f rest top).isMalloc = false := by
  unfold childWakeNextPc
  split
  · simp [PC.waitOn, PC.isMalloc]
  · exact keep_childLoopStartPc _ _ _ _

theorem keep_freeLoopStartPc (cs : List NoteId) (n : NoteId) (par : Option NoteId) :
    (freeLoopStartPc cs n par).waitOn = none ∧ (freeLoopStartPc cs n par).isMalloc = false := by
  cases cs <;> simp [freeLoopStartPc, PC.waitOn, PC.isMalloc]


theorem waitOn_afterDeadlinePc (n : NoteId) (nt : Dl) (k : DK) :
    (afterDeadlinePc n nt k).waitOn = k.waitDl.map (fun d => (n, d)) := (keep_afterDeadlinePc n nt k).1
theorem isMalloc_afterDeadlinePc (n : NoteId) (nt : Dl) (k : DK) :
    (afterDeadlinePc n nt k).isMalloc = false := (keep_afterDeadlinePc n nt k).2
theorem waitOn_afterNotifyPc (n : NoteId) (k : NK) :
    (afterNotifyPc n k).waitOn = k.waitDl.map (fun d => (n, d)) := (keep_afterNotifyPc n k).1
theorem isMalloc_afterNotifyPc (n : NoteId) (k : NK) :
    (afterNotifyPc n k).isMalloc = false := (keep_afterNotifyPc n k).2
theorem waitOn_childReturnPc (f : Frame) (rest : List Frame) (top : Top) :
    (childReturnPc f rest top).waitOn = top.k.waitDl.map (fun d => (top.n, d)) := (keep_childReturnPc f rest top).1
theorem isMalloc_childReturnPc (f : Frame) (rest : List Frame) (top : Top) :
    (childReturnPc f rest top).isMalloc = false := (keep_childReturnPc f rest top).2
theorem waitOn_childLoopStartPc (cs : List NoteId) (f : Frame) (rest : List Frame) (top : Top) :
    (childLoopStartPc cs f rest top).waitOn = top.k.waitDl.map (fun d => (top.n, d)) := (keep_childLoopStartPc cs f rest top).1
theorem isMalloc_childLoopStartPc (cs : List NoteId) (f : Frame) (rest : List Frame) (top : Top) :
    (childLoopStartPc cs f rest top).isMalloc = false := (keep_childLoopStartPc cs f rest top).2
theorem waitOn_childWakeNextPc (s : State) (f : Frame) (rest : List Frame) (top : Top) :
    (childWakeNextPc s f rest top).waitOn = top.k.waitDl.map (fun d => (top.n, d)) := (keep_childWakeNextPc s f rest top).1
theorem isMalloc_childWakeNextPc (s : State) (f : Frame) (rest : List Frame) (top : Top) :
    (childWakeNextPc s f rest top).isMalloc = false := (keep_childWakeNextPc s f rest top).2
theorem waitOn_freeLoopStartPc (cs : List NoteId) (n : NoteId) (par : Option NoteId) :
    (freeLoopStartPc cs n par).waitOn = none := (keep_freeLoopStartPc cs n par).1
theorem isMalloc_freeLoopStartPc (cs : List NoteId) (n : NoteId) (par : Option NoteId) :
    (freeLoopStartPc cs n par).isMalloc = false := (keep_freeLoopStartPc cs n par).2

macro "kp_simp" : tactic => `(tactic| (
  simp only [Keep, setPc_pc, upd_same, afterDeadline_pc, afterNotify_pc, childReturn_pc,
    childWakeNext_pc, childScanStart_pc, freeLoopStart_pc, enterChild_pc, leave_pc, addUser_pc,
    markCalled_pc, markFreeing_pc, setAfter_pc, pushObs_pc, publish_pc, delUser_pc, modRec_pc,
    modNote_pc, markBorn_pc, setNow_pc, allocNote_pc, acquire_pc, release_pc, incDisc_pc,
    decDisc_pc, setWaiters_pc, setAdopted_pc, setExpiry_pc, setNotified_pc, markFreed_pc,
    eraseChild_pc, clearParent_pc, link_pc, unlink_pc, newExpiry_pc] at *))

macro "kp_close" : tactic => `(tactic| (
  try simp only [waitOn_afterDeadlinePc, waitOn_afterNotifyPc, waitOn_childReturnPc,
    waitOn_childLoopStartPc, waitOn_childWakeNextPc, waitOn_freeLoopStartPc,
    isMalloc_afterDeadlinePc, isMalloc_afterNotifyPc, isMalloc_childReturnPc,
    isMalloc_childLoopStartPc, isMalloc_childWakeNextPc, isMalloc_freeLoopStartPc]
  simp [*, PC.waitOn, PC.isMalloc, DK.waitDl, NK.waitDl]))

theorem keep_lockRet {s s' : State} {t : Tid}  (hs : step s (.lockRet t) = .ok s')
    (hp : s.pc t ≠ .idle) : Keep s s' t := by
  step_cases hs
  all_goals kp_simp
  all_goals (try (kp_close; done))

theorem keep_lockCall {s s' : State} {t : Tid} {k : NoteId} (hs : step s (.lockCall t k) = .ok s')
    (hp : s.pc t ≠ .idle) : Keep s s' t := by
  step_cases hs
  all_goals kp_simp
  all_goals (try (kp_close; done))

theorem keep_unlockCall {s s' : State} {t : Tid} {k : NoteId} (hs : step s (.unlockCall t k) = .ok s')
    (hp : s.pc t ≠ .idle) : Keep s s' t := by
  step_cases hs
  all_goals kp_simp
  all_goals (try (kp_close; done))

theorem keep_unlockRet {s s' : State} {t : Tid}  (hs : step s (.unlockRet t) = .ok s')
    (hp : s.pc t ≠ .idle) : Keep s s' t := by
  step_cases hs
  all_goals kp_simp
  all_goals (try (kp_close; done))

theorem keep_tryCall {s s' : State} {t : Tid} {k : NoteId} (hs : step s (.tryCall t k) = .ok s')
    (hp : s.pc t ≠ .idle) : Keep s s' t := by
  step_cases hs
  all_goals kp_simp
  all_goals (try (kp_close; done))

theorem keep_tryRet {s s' : State} {t : Tid} {ok : Bool} (hs : step s (.tryRet t ok) = .ok s')
    (hp : s.pc t ≠ .idle) : Keep s s' t := by
  step_cases hs
  all_goals kp_simp
  all_goals (try (kp_close; done))

theorem keep_waitCall {s s' : State} {t : Tid} {k : NoteId} (hs : step s (.waitCall t k) = .ok s')
    (hp : s.pc t ≠ .idle) : Keep s s' t := by
  step_cases hs
  all_goals kp_simp
  all_goals (try (kp_close; done))

theorem keep_waitRet {s s' : State} {t : Tid}  (hs : step s (.waitRet t) = .ok s')
    (hp : s.pc t ≠ .idle) : Keep s s' t := by
  step_cases hs
  all_goals kp_simp
  all_goals (try (kp_close; done))

theorem keep_ld {s s' : State} {t : Tid} {site : Site} {ord : Ord} {k : NoteId} {obs : Nat} (hs : step s (.ld t site ord k obs) = .ok s')
    (hp : s.pc t ≠ .idle) : Keep s s' t := by
  step_cases hs
  all_goals kp_simp
  all_goals (try (kp_close; done))

theorem keep_stNote {s s' : State} {t : Tid} {site : Site} {ord : Ord} {k : NoteId} {new obs : Nat} (hs : step s (.stNote t site ord k new obs) = .ok s')
    (hp : s.pc t ≠ .idle) : Keep s s' t := by
  step_cases hs
  all_goals kp_simp
  all_goals (try (kp_close; done))

theorem keep_stW {s s' : State} {t : Tid} {site : Site} {ord : Ord} {r : Rid} {new obs : Nat} (hs : step s (.stW t site ord r new obs) = .ok s')
    (hp : s.pc t ≠ .idle) : Keep s s' t := by
  step_cases hs
  all_goals kp_simp
  all_goals (try (kp_close; done))

theorem keep_ret {s s' : State} {t : Tid} {r : ApiRet} (hs : step s (.ret t r) = .ok s')
    (hp : s.pc t ≠ .idle) : Keep s s' t := by
  step_cases hs
  all_goals kp_simp
  all_goals (try (kp_close; done))

theorem keep_waitnCall {s s' : State} {t : Tid} {d : Dl} (hs : step s (.waitnCall t d) = .ok s')
    (hp : s.pc t ≠ .idle) : Keep s s' t := by
  step_cases hs
  all_goals kp_simp
  all_goals (try (kp_close; done))

theorem keep_waitnRet {s s' : State} {t : Tid} {rd : Nat} (hs : step s (.waitnRet t rd) = .ok s')
    (hp : s.pc t ≠ .idle) : Keep s s' t := by
  step_cases hs
  all_goals kp_simp
  all_goals (try (kp_close; done))

theorem keep_now {s s' : State} {t : Tid} {v : Nat} (hs : step s (.now t v) = .ok s')
    (hp : s.pc t ≠ .idle) : Keep s s' t := by
  step_cases hs
  all_goals kp_simp
  all_goals (try (kp_close; done))

theorem keep_semV {s s' : State} {t : Tid} {sem : Nat} (hs : step s (.semV t sem) = .ok s')
    (hp : s.pc t ≠ .idle) : Keep s s' t := by
  step_cases hs
  all_goals kp_simp
  all_goals (try (kp_close; done))

theorem keep_pdEnter {s s' : State} {t : Tid} {sem : Nat} {d : Dl} (hs : step s (.pdEnter t sem d) = .ok s')
    (hp : s.pc t ≠ .idle) : Keep s s' t := by
  step_cases hs
  all_goals kp_simp
  all_goals (try (kp_close; done))

theorem keep_pdRet {s s' : State} {t : Tid} {sem : Nat} {b : Bool} (hs : step s (.pdRet t sem b) = .ok s')
    (hp : s.pc t ≠ .idle) : Keep s s' t := by
  step_cases hs
  all_goals kp_simp
  all_goals (try (kp_close; done))

theorem keep_malloc {s s' : State} {t : Tid} {res : Option NoteId} (hs : step s (.malloc t res) = .ok s')
    (hp : s.pc t ≠ .idle) : Keep s s' t := by
  step_cases hs
  all_goals kp_simp
  all_goals (try (kp_close; done))

theorem keep_free {s s' : State} {t : Tid} {k : NoteId} (hs : step s (.free t k) = .ok s')
    (hp : s.pc t ≠ .idle) : Keep s s' t := by
  step_cases hs
  all_goals kp_simp
  all_goals (try (kp_close; done))

/-- An own step of a thread inside a call keeps the kind of the call, and does not lead to the
    `malloc` of `nsync_note_new`. -/
theorem own_keep {s s' : State} {e : Event} {t : Tid} (hs : step s e = .ok s')
    (ha : e.actor = some t) (hp : s.pc t ≠ .idle) : Keep s s' t := by
  cases e <;> simp only [Event.actor, Option.some.injEq, reduceCtorEq] at ha <;> subst ha
  · exfalso
    cases hpc : s.pc _ with
    | idle => exact hp hpc
    | _ => simp [step, hpc] at hs
  · exact keep_ret hs hp
  · exact keep_ld hs hp
  · exact keep_stNote hs hp
  · exact keep_stW hs hp
  · exact keep_lockCall hs hp
  · exact keep_lockRet hs hp
  · exact keep_unlockCall hs hp
  · exact keep_unlockRet hs hp
  · exact keep_tryCall hs hp
  · exact keep_tryRet hs hp
  · exact keep_waitCall hs hp
  · exact keep_waitRet hs hp
  · exact keep_waitnCall hs hp
  · exact keep_waitnRet hs hp
  · exact keep_now hs hp
  · exact keep_semV hs hp
  · exact keep_pdEnter hs hp
  · exact keep_pdRet hs hp
  · exact keep_malloc hs hp
  · exact keep_free hs hp

/-- A thread outside any call stays there until its next `call`. -/
theorem step_idle {s s' : State} {e : Event} {t : Tid} (hs : step s e = .ok s')
    (hp : s.pc t = .idle) (hc : ∀ a, e ≠ .call t a) : s'.pc t = .idle := by
  by_cases ha : e.actor = some t
  · cases e <;> simp only [Event.actor, Option.some.injEq, reduceCtorEq] at ha <;> subst ha
    · exact absurd rfl (hc _)
    all_goals (simp [step, stepRet, stepLd, stepStNote, stepStW, stepLockCall, stepLockRet,
      stepUnlockCall, stepUnlockRet, stepTryCall, stepTryRet, stepWaitCall, stepWaitRet, hp] at hs)
    all_goals (try (subst hs; exact hp))
  · rw [step_pc_other hs t ha]; exact hp

/-- The `malloc` of `nsync_note_new` is reached only from the API entry. -/
theorem step_isMalloc {s s' : State} {e : Event} {t : Tid} (hs : step s e = .ok s')
    (hm : (s'.pc t).isMalloc = true) (hc : ∀ a, e ≠ .call t a) : (s.pc t).isMalloc = true := by
  by_cases ha : e.actor = some t
  · by_cases hp : s.pc t = .idle
    · rw [step_idle hs hp hc] at hm; cases hm
    · rcases own_keep hs ha hp with h | ⟨_, h⟩
      · rw [h] at hm; cases hm
      · rw [h] at hm; cases hm
  · rw [step_pc_other hs t ha] at hm; exact hm

end Note
