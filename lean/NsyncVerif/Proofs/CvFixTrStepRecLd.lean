/-
  Layer `CvFix` (cv.c with the repair of F3; adapted from the `Cv` file of the same name): `step … = .ok s'` implies `Tr` — loads of record fields by cv.c.
-/
import NsyncVerif.Proofs.CvFixTrStepWord

namespace NsyncVerif.CvFix

theorem settle_id_of_loc {x y : Thr} (h : Settle x y) (h1 : y.loc ≠ .wChk) (h2 : y.loc ≠ .wTail) : y = x := by
  cases h <;> simp_all

theorem b2n_eq_zero {b : Bool} : b2n b = 0 ↔ b = false := by
  cases b <;> simp [b2n]

theorem touches_recLd_other {s : State} {t : Tid} {site : RSite} {r : Rid} {obs : Nat} : True := trivial

theorem tr_recLd {cfg : Config} {s s' : State} {t : Tid} {site : RSite} {r : Rid} {obs : Nat}
    (h : stepRecLd s t site r obs = .ok s') : Tr cfg s (.recLd t site r obs) s' := by
  unfold stepRecLd at h
  split at h
  · cases h
  · rename_i y hy
    have hS := settle_inv hy
    dsimp only at h
    split at h
    · -- wRc
      rename_i hl
      have := settle_id_of_loc hS (by simp [hl]) (by simp [hl]); subst this
      simp only [need_ok] at h
      obtain ⟨hr, ho, h⟩ := h
      cases h
      exact .loc (.wRc _ _ hl hr ho)
    · -- wHead
      rename_i hl
      have := settle_id_of_loc hS (by simp [hl]) (by simp [hl]); subst this
      simp only [need_ok] at h
      obtain ⟨hr, ho, h⟩ := h
      split at h
      · rename_i hz
        cases h
        subst hz
        exact .wHeadExit t r _ rfl hl hr (b2n_eq_zero.mp ho.symm)
      · rename_i hz
        split at h
        · rename_i hso
          cases h
          have := LTr.wHeadStay (s := s) (t := t) r obs hl hr ho hz
          rw [if_pos hso] at this
          exact .loc this
        · rename_i hso
          cases h
          have := LTr.wHeadStay (s := s) (t := t) r obs hl hr ho hz
          rw [if_neg hso] at this
          exact .loc this
    · -- wChk
      rename_i hl
      simp only [need_ok] at h
      obtain ⟨hr, ho, hso, h⟩ := h
      split at h
      · rename_i hz
        cases h
        have := LTr.wChk (s := s) (t := t) y r obs hS hl hr ho hso
        rw [if_pos hz] at this
        exact .loc this
      · rename_i hz
        cases h
        have := LTr.wChk (s := s) (t := t) y r obs hS hl hr ho hso
        rw [if_neg hz] at this
        exact .loc this
    · -- wChk2
      rename_i hl
      have := settle_id_of_loc hS (by simp [hl]) (by simp [hl]); subst this
      simp only [need_ok] at h
      obtain ⟨hr, ho, h⟩ := h
      cases h
      exact .loc (.wChk2 _ _ hl hr ho)
    · -- wCmp
      rename_i hl
      have := settle_id_of_loc hS (by simp [hl]) (by simp [hl]); subst this
      simp only [need_ok] at h
      obtain ⟨hr, ho, h⟩ := h
      split at h
      · rename_i he
        cases h
        exact .wCmpEq t r obs hl hr ho he
      · rename_i he
        cases h
        exact .loc (.wCmpNe _ _ hl hr ho he)
    · -- wRmLd
      rename_i hl
      have := settle_id_of_loc hS (by simp [hl]) (by simp [hl]); subst this
      simp only [need_ok] at h
      obtain ⟨hr, ho, h⟩ := h
      cases h
      exact .loc (.wRmLd _ _ hl hr ho)
    · -- wTail
      rename_i hl
      simp only [need_ok] at h
      obtain ⟨hr, ho, h⟩ := h
      cases h
      exact .loc (.wTail y _ _ hS hl hr ho)
    · -- sRcLd
      rename_i first hl
      have := settle_id_of_loc hS (by simp [hl]) (by simp [hl]); subst this
      simp only [need_ok] at h
      obtain ⟨⟨hb, hf⟩, hr, ho, h⟩ := h
      cases h
      subst hf
      exact .loc (.rcLd _ _ _ hl (.inl ⟨rfl, hb⟩) hr ho)
    · -- bRcLd
      rename_i hl
      have := settle_id_of_loc hS (by simp [hl]) (by simp [hl]); subst this
      simp only [need_ok] at h
      obtain ⟨hb, hr, ho, h⟩ := h
      cases h
      exact .loc (.rcLd _ _ _ hl (.inr ⟨rfl, hb⟩) hr ho)
    · -- ready
      rename_i hl
      have := settle_id_of_loc hS (by simp [hl]) (by simp [hl]); subst this
      simp only [need_ok] at h
      obtain ⟨hr, ho, h⟩ := h
      cases h
      have := Tr.loc (cfg := cfg) (LTr.ready (s := s) (t := t) r obs hl hr ho)
      have e : s.setThr t (s.thr t) = s := by
        simp only [State.setThr]
        congr
        funext x; simp only [updT]; split <;> simp_all
      rw [e] at this
      exact this
    · -- deqLd
      rename_i hl
      have := settle_id_of_loc hS (by simp [hl]) (by simp [hl]); subst this
      simp only [need_ok] at h
      obtain ⟨hr, ho, h⟩ := h
      split at h
      · rename_i hz
        cases h
        subst hz
        exact .loc (.deqLd0 r hl hr (b2n_eq_zero.mp ho.symm))
      · rename_i hz
        have hw : (s.recs r).waiting = true := by
          cases hb : (s.recs r).waiting
          · rw [hb] at ho; simp [b2n] at ho; exact absurd ho hz
          · rfl
        split at h
        · rename_i hq
          cases h
          exact .deqLdQueued t r obs hl hr hw hq
        · rename_i hq
          cases h
          exact .loc (.deqLdGone r obs hl hr hw hq)
    · -- deqSpin
      rename_i hl
      have := settle_id_of_loc hS (by simp [hl]) (by simp [hl]); subst this
      simp only [need_ok] at h
      obtain ⟨hr, ho, h⟩ := h
      split at h
      · rename_i hz
        cases h
        subst hz
        exact .deqSpinExit t r hl hr (b2n_eq_zero.mp ho.symm)
      · rename_i hz
        cases h
        have hw : (s.recs r).waiting = true := by
          cases hb : (s.recs r).waiting
          · rw [hb] at ho; simp [b2n] at ho; exact absurd ho hz
          · rfl
        have := Tr.loc (cfg := cfg) (LTr.deqSpinStay (s := s) (t := t) r obs hl hr hw)
        have e : s.setThr t (s.thr t) = s := by
          simp only [State.setThr]
          congr
          funext x; simp only [updT]; split <;> simp_all
        rw [e] at this
        exact this
    · -- dbgW
      rename_i hl
      have := settle_id_of_loc hS (by simp [hl]) (by simp [hl]); subst this
      simp only [need_ok] at h
      obtain ⟨hq, hm, ho, h⟩ := h
      cases h
      exact .loc (.dbgW _ _ hl hq hm ho)
    · -- dbgRc
      rename_i hl
      have := settle_id_of_loc hS (by simp [hl]) (by simp [hl]); subst this
      simp only [need_ok] at h
      obtain ⟨hq, ho, h⟩ := h
      cases h
      exact .loc (.dbgRc _ _ hl hq ho)
    · cases h

end NsyncVerif.CvFix
