/-
  Proofs/WaitNRet.lean — which program counter accepts which distinguished event
  (`ret nsync_wait_n`, the lock annotations of the caller's mutex, malloc / free of the heap array).
-/
import NsyncVerif.Proofs.WaitNReady9

set_option linter.unusedSimpArgs false
set_option linter.unusedVariables false

namespace WaitN

theorem dflt_ret {s s' : State} {t : Tid} {r : Nat} {n : Bool} : dflt s t (.retWaitN r n) = .ok s' → False := by
  intro h; simp [dflt] at h

theorem proto_ret {s s' : State} {t : Tid} {r : Nat} {n : Bool} : proto s t (.retWaitN r n) = .ok s' → False := by
  intro h; simp [proto, dflt] at h

theorem stepOpen_ret {s s' : State} {t : Tid} {r : Nat} {n : Bool} : stepOpen s t (.retWaitN r n) = .ok s' → False := by
  intro h
  unfold stepOpen at h
  split at h
  · split at h
    · rename_i heq; cases heq
    · exact dflt_ret h
  · split at h
    · rename_i heq; cases heq
    · exact dflt_ret h
  · exact proto_ret h

theorem spinAcq_ret {s s' : State} {t : Tid} {c : Nat} {st : SpinSt} {mk : SpinSt → PC} {done : PC} {r : Nat} {n : Bool} :
    spinAcq s t c st mk done (.retWaitN r n) = .ok s' → False := by
  intro h
  unfold spinAcq at h
  split at h <;> first | exact dflt_ret h | (simp_all; done)

/-- `ret nsync_wait_n r` is accepted only at the program point `wRet r` -/
theorem ret_pc {s s' : State} {t : Tid} {r : Nat} {n : Bool} (h : step s (.thr t (.retWaitN r n)) = .ok s') :
    s.pc t = .wRet r ∧ n = (s.fr t).nested := by
  simp only [step] at h
  unfold stepThr at h
  split at h <;> rename_i hpc
  · exfalso; unfold stepIdle at h; simp only at h; exact stepOpen_ret h
  · simp at h
  · exfalso
    unfold stepSg at h
    split_ok h <;> first | exact dflt_ret h | exact spinAcq_ret h | (simp at h; done) | (simp_all; done)
  · exfalso
    unfold stepCtrRT at h
    split_ok h <;> first | exact dflt_ret h | (simp at h; done) | (simp_all; done)
  · exfalso
    unfold stepND at h
    split_ok h <;> first | exact dflt_ret h | exact stepOpen_ret h | (simp at h; done) | (simp_all; done)
  · exfalso
    unfold stepEnqCv at h
    split_ok h <;> first | exact dflt_ret h | exact spinAcq_ret h | (simp at h; done) | (simp_all; done)
  · exfalso
    unfold stepEnq at h
    split_ok h <;> first | exact dflt_ret h | (simp at h; done) | (simp_all; done)
  · exfalso
    unfold stepDeqCv at h
    split_ok h <;> first | exact dflt_ret h | exact spinAcq_ret h | (simp at h; done) | (simp_all; done)
  · exfalso
    unfold stepDeq at h
    split_ok h <;> first | exact dflt_ret h | (simp at h; done) | (simp_all; done)
  · exfalso; unfold stepAlloc at h; split_ok h <;> first | exact dflt_ret h | (simp at h; done) | (simp_all; done)
  · exfalso; unfold stepInit at h; split_ok h <;> first | exact dflt_ret h | (simp at h; done) | (simp_all; done)
  · exfalso; unfold stepUnlockMu at h; split_ok h <;> first | exact dflt_ret h | (simp at h; done) | (simp_all; done)
  · exfalso; unfold stepCvRT at h; split_ok h <;> first | exact dflt_ret h | (simp at h; done) | (simp_all; done)
  · exfalso; unfold stepPdEnter at h; split_ok h <;> first | exact dflt_ret h | (simp at h; done) | (simp_all; done)
  · exfalso; unfold stepPdWait at h; split_ok h <;> first | exact dflt_ret h | (simp at h; done) | (simp_all; done)
  · exfalso; unfold stepFree at h; split_ok h <;> first | exact dflt_ret h | (simp at h; done) | (simp_all; done)
  · exfalso; unfold stepRelock at h; split_ok h <;> first | exact dflt_ret h | (simp at h; done) | (simp_all; done)
  · rename_i r0
    unfold stepRet at h
    simp only at h
    by_cases hc : r = r0 ∧ n = (s.fr t).nested
    · rw [hpc, hc.1]; exact ⟨rfl, hc.2⟩
    · rw [if_neg hc] at h; simp at h

end WaitN
