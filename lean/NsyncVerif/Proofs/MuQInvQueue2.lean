import NsyncVerif.Proofs.MuQInvQueue
import NsyncVerif.Proofs.MuQScan
/-
  MuQ: preservation of (I_queue), part 2: the scan of unlock_slow.
-/
namespace NsyncVerif.MuQ

theorem aqueue_advance {X : AState} {t : Tid} {sc : Scan} (h : AQueue X)
    (hwk : (X.ro t).wake = sc.wake) (hns : ∀ c ph, X.ro t ≠ .slow c ph)
    (hpre : ∃ pre, X.queue = pre ++ sc.todo) (hspin : ∀ u, u ≠ t → (X.ro u).spin = false) :
    AQueue (X.advance t sc) := by
  have hnorel : ∀ t' c, X.ro t' ≠ .slow c .rel := by
    intro t' c hr
    by_cases hu : t' = t
    · subst hu; exact hns c .rel hr
    · have := hspin t' hu; rw [hr] at this; cases this
  obtain ⟨hrem, hdone⟩ := scanGo_spec (fun k => (X.wr k).lType) sc.todo sc
  simp only [AState.advance]
  split
  · rename_i k sc' hg
    obtain ⟨mid, e1, e2, _⟩ := hrem k sc' hg
    obtain ⟨pre, hq⟩ := hpre
    obtain ⟨q1, q2, q3, q4, q5, q6, q7, q8, q9, q10, q11⟩ := h
    have hkq : k ∈ X.queue := by rw [hq, e1]; simp
    have other : ∀ u, u ≠ t → setFn X.ro t (.scan sc') u = X.ro u := fun u hu => by simp [setFn, hu]
    have self : setFn X.ro t (.scan sc') t = .scan sc' := by simp [setFn]
    have keep : ∀ t' c ph, X.ro t' = .slow c ph → setFn X.ro t (.scan sc') t' = .slow c ph := by
      intro t' c ph hr
      by_cases hu : t' = t
      · subst hu; exact absurd hr (hns c ph)
      · rw [other t' hu]; exact hr
    have back : ∀ t' c ph, setFn X.ro t (.scan sc') t' = .slow c ph → X.ro t' = .slow c ph := by
      intro t' c ph hr
      by_cases hu : t' = t
      · subst hu; rw [self] at hr; cases hr
      · rw [other t' hu] at hr; exact hr
    have wake_t : (setFn X.ro t (.scan sc') t).wake = (X.ro t).wake ++ [k] := by rw [self, hwk]; exact e2
    have kwit : ∃ t' c ph, X.ro t' = .slow c ph ∧ c.w = some k ∧ ph.inLoop = true := by
      obtain ⟨_, t', c, ph, hr, hcw, hph⟩ := q2 k hkq
      refine ⟨t', c, ph, hr, hcw, ?_⟩
      cases ph <;> simp [Phase.queued] at hph <;> simp [Phase.inLoop]
      exact absurd hr (hnorel t' c)
    have knw : ∀ u, k ∉ (X.ro u).wake := fun u hu => (q5 u k hu).1 hkq
    refine ⟨q1.erase k, ?_, ?_, ?_, ?_, ?_, ?_, ?_, ?_, ?_, ?_⟩
    · intro k' hk'
      have hk'' : k' ∈ X.queue := (q1.mem_erase_iff.1 hk').2
      obtain ⟨hwt, t', c, ph, hr, hcw, hph⟩ := q2 k' hk''
      exact ⟨hwt, t', c, ph, keep t' c ph hr, hcw, hph⟩
    · intro k' t'
      show (X.wr k').owner = some t' ↔ _
      rw [q3 k' t']
      constructor
      · rintro ⟨c, ph, hr, hw⟩; exact ⟨c, ph, keep t' c ph hr, hw⟩
      · rintro ⟨c, ph, hr, hw⟩; exact ⟨c, ph, back t' c ph hr, hw⟩
    · intro t' c ph k' hr hw; exact q4 t' c ph k' (back t' c ph hr) hw
    · intro u k' hk'
      show k' ∉ X.queue.erase k ∧ (X.wr k').waiting = true ∧ _
      by_cases hu : u = t
      · subst hu
        rw [show ({ X with queue := X.queue.erase k, ro := setFn X.ro u (.scan sc') } : AState).ro u = setFn X.ro u (.scan sc') u from rfl,
          wake_t, List.mem_append, List.mem_singleton] at hk'
        rcases hk' with hk' | hk'
        · obtain ⟨hnq, hwt, t', c, ph, hr, hcw, hph⟩ := q5 u k' hk'
          exact ⟨fun hm => hnq (q1.mem_erase_iff.1 hm).2, hwt, t', c, ph, keep t' c ph hr, hcw, hph⟩
        · subst hk'
          obtain ⟨t', c, ph, hr, hcw, hph⟩ := kwit
          exact ⟨fun hm => (q1.mem_erase_iff.1 hm).1 rfl, (q2 k' hkq).1, t', c, ph, keep t' c ph hr, hcw, hph⟩
      · rw [show ({ X with queue := X.queue.erase k, ro := setFn X.ro t (.scan sc') } : AState).ro u = setFn X.ro t (.scan sc') u from rfl,
          other u hu] at hk'
        obtain ⟨hnq, hwt, t', c, ph, hr, hcw, hph⟩ := q5 u k' hk'
        exact ⟨fun hm => hnq (q1.mem_erase_iff.1 hm).2, hwt, t', c, ph, keep t' c ph hr, hcw, hph⟩
    · intro u
      by_cases hu : u = t
      · subst hu
        show (setFn X.ro u (.scan sc') u).wake.Nodup
        rw [wake_t, List.nodup_append]
        refine ⟨q6 u, by simp, ?_⟩
        intro x hx y hy; simp at hy; subst hy
        intro hxy; subst hxy; exact knw u hx
      · show (setFn X.ro t (.scan sc') u).wake.Nodup; rw [other u hu]; exact q6 u
    · intro u u' k' hk hk'
      have conv : ∀ v, k' ∈ (setFn X.ro t (.scan sc') v).wake → k' ≠ k → k' ∈ (X.ro v).wake := by
        intro v hv hne
        by_cases hvt : v = t
        · subst hvt; rw [wake_t, List.mem_append, List.mem_singleton] at hv
          rcases hv with hv | hv
          · exact hv
          · exact absurd hv hne
        · rw [other v hvt] at hv; exact hv
      have onlyt : ∀ v, k ∈ (setFn X.ro t (.scan sc') v).wake → v = t := by
        intro v hv
        by_cases hvt : v = t
        · exact hvt
        · rw [other v hvt] at hv; exact absurd hv (knw v)
      by_cases hkk : k' = k
      · subst hkk; rw [onlyt u hk, onlyt u' hk']
      · exact q7 u u' k' (conv u hk hkk) (conv u' hk' hkk)
    · intro k' hk'
      by_cases hkk : k' = k
      · subst hkk; right; refine ⟨t, ?_⟩
        show k' ∈ (setFn X.ro t (.scan sc') t).wake
        rw [wake_t]; simp
      · rcases q8 k' hk' with h | ⟨u, hu⟩
        · left; exact (q1.mem_erase_iff).2 ⟨hkk, h⟩
        · right; refine ⟨u, ?_⟩
          show k' ∈ (setFn X.ro t (.scan sc') u).wake
          by_cases hut : u = t
          · subst hut; rw [wake_t]; simp [hu]
          · rw [other u hut]; exact hu
    · intro t' c ph hr; exact q9 t' c ph (back t' c ph hr)
    · intro t' c hr; exact absurd (back t' c .rel hr) (hnorel t' c)
    · intro u sc2 hr
      by_cases hu : u = t
      · subst hu
        rw [show ({ X with queue := X.queue.erase k, ro := setFn X.ro u (.scan sc') } : AState).ro u = setFn X.ro u (.scan sc') u from rfl, self] at hr
        cases hr
        refine ⟨pre ++ mid, ?_⟩
        show X.queue.erase k = _
        have hnd := q1
        rw [hq, e1] at hnd ⊢
        have hkn : k ∉ pre ++ mid := by
          intro hm
          rw [← List.append_assoc, List.nodup_append] at hnd
          exact hnd.2.2 k hm k (by simp) rfl
        rw [← List.append_assoc, List.erase_append_right _ hkn, List.erase_cons_head]
      · rw [show ({ X with queue := X.queue.erase k, ro := setFn X.ro t (.scan sc') } : AState).ro u = setFn X.ro t (.scan sc') u from rfl, other u hu] at hr
        have := hspin u hu; rw [hr] at this; cases this
  · rename_i sc' hg
    obtain ⟨mid, e1, e2, _⟩ := hdone sc' hg
    exact aqueue_role_plain h (fun c ph hr => absurd hr (hns c ph)) (fun c ph hr => by cases hr)
      (by rw [hwk]; exact e2) (fun sc2 hr => by cases hr)

end NsyncVerif.MuQ
