import NsyncVerif.Proofs.MuCTLResp3
/-
  MuC, facts about one step: client data and the contract ghost are only changed by `dataW` / at the call
  of nsync_mu_unlock_without_wakeup.
-/
namespace NsyncVerif.MuC

def MiscTL (s s' : State) : Prop := s'.data = s.data ∧ (s'.nwViol = false → s.nwViol = false)

theorem StepTL.misc {s s' : State} {t : Tid} (h : StepTL s s' t) : MiscTL s s' := ⟨h.data, h.nv⟩

macro "misc_tl" : tactic => `(tactic|
  first
  | (simp [MiscTL, mwLoop_eq, afterFin_eq, afterWakes_eq]; done)
  | (simp_all [MiscTL, mwLoop_eq, afterFin_eq, afterWakes_eq]; done)
  | ((repeat' split) <;> simp_all [MiscTL, mwLoop_eq, afterFin_eq, afterWakes_eq]))

theorem miscTL_ld {s s' : State} {t : Tid} {o : Ord} {loc : Loc} {obs : Nat}
    (h : stepLd s t o loc obs = .ok s') : MiscTL s s' := by
  walk_ld h => misc_tl

theorem miscTL_st {s s' : State} {t : Tid} {o : Ord} {loc : Loc} {new obs : Nat}
    (h : stepSt s t o loc new obs = .ok s') : MiscTL s s' := by
  walk_st h => misc_tl

theorem miscTL_call {s s' : State} {t : Tid} {a : Api} (h : stepCall s t a = .ok s') : MiscTL s s' := by
  walk_call h a => misc_tl

theorem miscTL_ret {s s' : State} {t : Tid} {a : Api} {res : Res} (h : stepRet s t a res = .ok s') : MiscTL s s' := by
  walk_ret h => misc_tl

theorem miscTL_sem {cfg : Cfg} {s s' : State} {e : Event} {t : Tid}
    (he : match e with
      | .semPEnter u _ | .semPRet u _ | .semPdEnter u _ _ | .semPdRet u _ _ | .semV u _ | .noteSeen u | .noteNotify u => u = t
      | _ => False)
    (h : step cfg s e = .ok s') : MiscTL s s' := by
  cases e <;> simp only at he <;> subst he
  all_goals walk_sem h => misc_tl

theorem miscTL_cas {s s' : State} {t : Tid} {o : Ord} {loc : Loc} {exp new obs : Nat} {ok : Bool} (h1 : Inv1 s)
    (h : stepCas s t o loc exp new obs ok = .ok s') : MiscTL s s' := by
  have hoth := stepCas_other h
  walk_cas h StepTL.misc => misc_tl

theorem miscTL_cond {s s' : State} {t : Tid} {fn : CFn} {k : Nat} {res : Bool} (h1 : Inv1 s)
    (h : stepCond s t fn k res = .ok s') : MiscTL s s' := by
  have hoth := stepCond_other h
  walk_cond h StepTL.misc => misc_tl

end NsyncVerif.MuC
