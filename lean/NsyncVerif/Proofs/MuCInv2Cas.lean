import NsyncVerif.Proofs.MuCInv2
namespace NsyncVerif.MuC

theorem inv2_stepCasA {s s' : State} {t : Tid} {o : Ord} {loc : Loc} {exp new obs : Nat} {ok : Bool} (h1 : Inv1 s) (h : Inv2 s)
    (hp : match s.pc t with
      | .usCasGrab _ _ | .usRelCas _ _ _ | .usReCas _ _ _ | .usRcCas _ _ _ _ => True
      | _ => False)
    (hs : stepCas s t o loc exp new obs ok = .ok s') : Inv2 s' := by
  unfold stepCas at hs
  split at hs
  all_goals try (rename_i heq; rw [heq] at hp; exact False.elim hp)
  all_goals try (rename_i hne; split at hp <;> first | exact False.elim hp | (exfalso; simp_all; done))
  · -- usCasGrab
    rename_i r old heq
    rcases casWordE_ok hs with ⟨hw, -, hs⟩ | ⟨-, -, rfl⟩
    · have hsc0 : Scan.ok { late := old.cond, tc := old.cond, done := [], passed := [], todo := [], wake := [], wt := none,
                            sww := false, saf := true } := fun h => h
      obtain ⟨hf, p, hpc, hsc⟩ := afterPickup_frame hs hsc0
      exact Inv2.scan (late := old.cond) t h (hf.data.trans (by simp)) (hf.now.trans (by simp))
        (by intro u hu; rw [hpc]; simp [setFn, hu])
        (by rw [heq]; rfl) (by rw [hpc]; simpa using hsc)
    · inv2_local t h heq
  · rename_i r sc old heq
    have hok0 := h1.pcok t; rw [heq] at hok0
    rcases casWordE_ok hs with ⟨hw, -, hs⟩ | ⟨-, -, rfl⟩
    · obtain ⟨hf, p, hpc, hsc⟩ := scanRun_frame _ _ t r sc s' hs hok0.2
      exact Inv2.scan (late := sc.late) t h (hf.data.trans (by simp)) (hf.now.trans (by simp))
        (by intro u hu; rw [hpc]; simp [setFn, hu])
        (by rw [heq]; rfl) (by rw [hpc]; simpa using hsc)
    · inv2_local t h heq
  · rename_i r sc old heq
    have hok0 := h1.pcok t; rw [heq] at hok0
    rcases casWordE_ok hs with ⟨hw, -, hs⟩ | ⟨-, -, rfl⟩
    · obtain ⟨hf, p, hpc, hsc⟩ := afterPickup_frame hs hok0.2
      exact Inv2.scan (late := sc.late) t h (hf.data.trans (by simp)) (hf.now.trans (by simp))
        (by intro u hu; rw [hpc]; simp [setFn, hu])
        (by rw [heq]; rfl) (by rw [hpc]; simpa using hsc)
    · inv2_local t h heq
  · rename_i r sc k old heq
    have hok0 := h1.pcok t; rw [heq] at hok0
    repeat' split at hs
    all_goals first
      | (cases hs; done)
      | skip
    · obtain ⟨hf, p, hpc, hsc⟩ := scanRun_frame _ _ t r sc s' hs hok0.2
      exact Inv2.scan (late := sc.late) t h (hf.data.trans (by simp)) (hf.now.trans (by simp))
        (by intro u hu; rw [hpc]; simp [setFn, hu])
        (by rw [heq]; rfl) (by rw [hpc]; simpa using hsc)
    · cases hs; inv2_local t h heq

macro "cas_case2" t:ident h:ident heq:ident hs:ident : tactic => `(tactic|
  (rcases casWord_ok $hs with ⟨hw, -, hs'⟩ | ⟨-, -, hs'⟩ <;> subst hs' <;>
    first
    | inv2_local $t $h $heq
    | (split <;> inv2_local $t $h $heq)
    | (split <;> first | inv2_local $t $h $heq | (split <;> inv2_local $t $h $heq))))

theorem inv2_stepCasB {s s' : State} {t : Tid} {o : Ord} {loc : Loc} {exp new obs : Nat} {ok : Bool} (h : Inv2 s)
    (hp : match s.pc t with
      | .lkCas0 _ | .lkCas1 _ _ | .tryCas0 _ | .tryCas1 _ _ | .lsCasAcq _ _ | .lsCasEnq _ _ | .lsRelCas _ _
      | .ulCas0 _ _ | .ulCas1 _ _ _ => True
      | _ => False)
    (hs : stepCas s t o loc exp new obs ok = .ok s') : Inv2 s' := by
  unfold stepCas at hs
  split at hs
  all_goals try (rename_i heq; rw [heq] at hp; exact False.elim hp)
  all_goals try (rename_i hne; split at hp <;> first | exact False.elim hp | (exfalso; simp_all; done))
  all_goals (rename_i heq; cas_case2 t h heq hs)

theorem inv2_stepCasC {s s' : State} {t : Tid} {o : Ord} {loc : Loc} {exp new obs : Nat} {ok : Bool} (h : Inv2 s)
    (hp : match s.pc t with
      | .usCasUnc _ _ | .usFinCas _ _ _ | .mwEnqCas _ _ | .mwRelCas _ _ _ | .mtCasAcq _ _ | .mtCasWW _ _ | .mtRmCas _ _ _ => True
      | _ => False)
    (hs : stepCas s t o loc exp new obs ok = .ok s') : Inv2 s' := by
  unfold stepCas at hs
  split at hs
  all_goals try (rename_i heq; rw [heq] at hp; exact False.elim hp)
  all_goals try (rename_i hne; split at hp <;> first | exact False.elim hp | (exfalso; simp_all; done))
  · rename_i heq; simp only [afterWakes_eq] at hs; cas_case2 t h heq hs
  · rename_i r f old heq
    rcases casWord_ok hs with ⟨hw, -, rfl⟩ | ⟨-, -, rfl⟩
    · rw [afterFin_eq]
      have hok := h t; rw [heq] at hok
      cases hl : f.late <;> simp only [hl] <;>
      (refine Inv2.local t h (by simp) (by simp) (by intro u hu; simp [setFn, hu]) ?_
       simp only [setPc_pc, setFn_same]
       cases f.wake <;> cases r <;> simp_all [finPc, Ret.pc, PC.ok2, PC.mw, Ret.mw?])
    · inv2_local t h heq
  · rename_i heq
    split at hs
    · cases hs
    · cas_case2 t h heq hs
  · rename_i heq; cas_case2 t h heq hs
  · rename_i heq; cas_case2 t h heq hs
  · rename_i heq; cas_case2 t h heq hs
  · rename_i heq; ld_case2 t h heq hs

end NsyncVerif.MuC
